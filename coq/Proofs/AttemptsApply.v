(* C11 — application.apply never forgets a pending handler, and the closed loop of a change handler re-enters it at
   exactly the requested time when nobody else touches the object (liveness: "is retried"). *)
From Coq Require Import ZArith List Bool Lia.
From KV Require Import Model.Outcome Model.Attempts Model.AttemptsApply Proofs.Outcome Proofs.OutcomeLive.
Import ListNotations.
Open Scope Z_scope.

(* ------------------------------------------------------------------ apply *)

(* whatever was accumulated, whatever the delays: if a delay is pending and no new change interrupts the sleep,
   the object IS woken up — by the patch itself or by a touch *)
Lemma apply_wakes : forall patch delays, delays <> [] ->
  ap_patched (apply_plan patch delays None) || ap_touched (apply_plan patch delays None) = true.
Proof.
  intros patch delays Hne. unfold apply_plan.
  destruct (zmin_list delays) as [d|] eqn:E.
  - destruct (negb (d =? 0) && patch) eqn:G; [reflexivity |].
    destruct (patch && (d =? 0)) eqn:G2; simpl; [reflexivity | apply orb_true_r].
  - destruct delays as [|x l]; [contradiction |]. simpl in E. destruct (zmin_list l); discriminate.
Qed.

(* a touch happens only after sleeping the whole delay (capped by the keep-alive interval), never earlier *)
Lemma apply_touch_after_delay : forall patch delays wake d,
  zmin_list delays = Some d -> ap_touched (apply_plan patch delays wake) = true ->
  ap_slept (apply_plan patch delays wake) = Z.min (Z.max 0 d) KEEPALIVE /\
  ap_patched (apply_plan patch delays wake) = patch /\ (patch = true -> False).
Proof.
  intros patch delays wake d E. unfold apply_plan. rewrite E.
  destruct (negb (d =? 0) && patch) eqn:G; [simpl; discriminate |].
  destruct (patch && (d =? 0)) eqn:G2; [simpl; discriminate |].
  set (len := if KEEPALIVE <? d then KEEPALIVE else if 0 <? d then d else 0).
  destruct (match wake with Some w => (0 <? len) && (w <? len) | None => false end) eqn:I; [simpl; discriminate |].
  simpl. intros _. split; [| split; [reflexivity |]].
  - unfold len, KEEPALIVE. destruct (600000 <? d) eqn:A; [apply Z.ltb_lt in A; lia |]. apply Z.ltb_ge in A.
    destruct (0 <? d) eqn:B; [apply Z.ltb_lt in B; lia | apply Z.ltb_ge in B; lia].
  - intros ->. destruct (d =? 0); simpl in *; discriminate.
Qed.

(* after a cycle that executed the handler (the progress record changed: the patch is not empty) *)
Lemma apply_executed : forall delays, apply_plan true delays None = mkAp true 0 false false.
Proof.
  intros delays. unfold apply_plan. destruct (zmin_list delays) as [d|]; [| reflexivity].
  destruct (d =? 0) eqn:E; simpl.
  - apply Z.eqb_eq in E. subst d. reflexivity.
  - reflexivity.
Qed.

(* after an idle cycle (handler sleeping, nothing to patch): sleep min(delay, keep-alive), then touch *)
Lemma apply_idle : forall d, 0 < d -> apply_plan false [d] None = mkAp false (Z.min d KEEPALIVE) true false.
Proof.
  intros d Hd. unfold apply_plan. cbn [zmin_list andb]. rewrite andb_false_r.
  unfold KEEPALIVE. destruct (600000 <? d) eqn:A.
  - apply Z.ltb_lt in A. rewrite Z.min_r by lia. reflexivity.
  - apply Z.ltb_ge in A. assert (B : 0 <? d = true) by (apply Z.ltb_lt; exact Hd). rewrite B.
    rewrite Z.min_l by lia. reflexivity.
Qed.

(* ------------------------------------------------------------------ the closed loop *)

Lemma state_for_active : forall now st, s_active (state_for now st) = true.
Proof. intros now [r|]; reflexivity. Qed.

Definition live (ps : pstate) (hs : hstate) : Prop :=
  p_closed ps = false /\ p_stored ps = Some (for_storage hs) /\ s_active hs = true.

(* an idle cycle: the handler is asleep; nothing changes but the clock *)
Lemma pstep_idle : forall e c ps hs t, live ps hs -> p_clock ps <= t -> awakened t hs = false ->
  pstep e c ps (PCycle t t t t ROk) = Some (mkP (Some (for_storage hs)) false t (p_log ps)).
Proof.
  intros e c ps hs t [Hc [Hs Ha]] Hclk Haw. unfold pstep. rewrite Hc, Hs.
  rewrite (state_for_roundtrip _ _ Ha), Haw.
  assert (G : (p_clock ps <=? t) && (t <=? t) && (t <=? t) && (t <=? t) = true).
  { repeat (apply andb_true_intro; split); apply Z.leb_le; lia. }
  rewrite G. reflexivity.
Qed.

Definition idle_before (W : Z) (l : plabel) : Prop := exists t, l = PCycle t t t t ROk /\ t < W.

(* waiting: from any instant before the wake-up time D of a sleeping handler the loop makes only idle cycles
   (one per keep-alive interval) and arrives at D exactly *)
Lemma pcl_wait : forall n f e c sc hs D now ps,
  live ps hs -> finished hs = false -> s_delayed hs = Some D -> p_clock ps <= now -> now <= D ->
  D - now <= Z.of_nat n * KEEPALIVE ->
  exists k idle clk,
    pcl_trace (k + S f) e c now ps sc
      = idle ++ pcl_trace (S f) e c D (mkP (Some (for_storage hs)) false clk (p_log ps)) sc /\
    Forall (idle_before D) idle /\ clk <= D /\ (k <= n)%nat /\ (idle = [] -> clk = p_clock ps /\ now = D).
Proof.
  induction n as [|m IH]; intros f e c sc hs D now ps Hl Hf Hd Hclk Hle Hn.
  - assert (now = D) by (simpl in Hn; lia). subst now.
    exists 0%nat, [], (p_clock ps). destruct Hl as [Hc [Hs Ha]].
    assert (Hps : ps = mkP (Some (for_storage hs)) false (p_clock ps) (p_log ps)).
    { destruct ps as [st cl ck lg]; simpl in *; subst; reflexivity. }
    split; [cbn [plus app]; rewrite <- Hps; reflexivity |]. repeat split; auto.
  - destruct (Z.eq_dec now D) as [-> | Hneq].
    + exists 0%nat, [], (p_clock ps). destruct Hl as [Hc [Hs Ha]].
      assert (Hps : ps = mkP (Some (for_storage hs)) false (p_clock ps) (p_log ps)).
      { destruct ps as [st cl ck lg]; simpl in *; subst; reflexivity. }
      split; [cbn [plus app]; rewrite <- Hps; reflexivity |]. repeat split; auto. lia.
    + assert (Hlt : now < D) by lia.
      assert (Haw : awakened now hs = false).
      { destruct (awakened now hs) eqn:E; [| reflexivity]. apply awakened_spec in E. destruct E as [_ E].
        specialize (E D Hd). lia. }
      pose proof Hl as [Hc [Hs Ha]].
      set (ps1 := mkP (Some (for_storage hs)) false now (p_log ps)).
      set (now1 := now + Z.min (D - now) KEEPALIVE).
      assert (Hl1 : live ps1 hs) by (unfold live, ps1; simpl; auto).
      assert (Hk : 0 < KEEPALIVE) by (unfold KEEPALIVE; lia).
      destruct (IH f e c sc hs D now1 ps1 Hl1 Hf Hd) as [k [idle [clk [Htr [Hid [Hck [Hkm Hnil]]]]]]].
      { unfold ps1, now1; simpl; lia. }
      { unfold now1; lia. }
      { unfold now1. rewrite Nat2Z.inj_succ in Hn. lia. }
      exists (S k), (PCycle now now now now ROk :: idle), clk.
      split; [| split; [| split; [exact Hck | split; [lia | discriminate]]]].
      * cbn [plus pcl_trace]. rewrite Hc, Hs, (state_for_roundtrip _ _ Ha).
        unfold iterate. rewrite Haw. cbv zeta. cbn [it_lab it_end it_hs it_sc plabel_of].
        rewrite (pstep_idle e c ps hs now Hl Hclk Haw).
        rewrite (st_delays_single now hs Ha Hf), Hd.
        rewrite Z.max_r by lia. rewrite (apply_idle (D - now)) by lia.
        cbn [ap_patched ap_touched ap_slept orb]. fold ps1. fold now1.
        simpl p_log in Htr. rewrite Htr. reflexivity.
      * constructor; [exists now; split; [reflexivity | exact Hlt] | exact Hid].
Qed.

(* a cycle over an awakened handler: executes it, the record changes, the patch echo is the next event *)
Lemma pcl_exec : forall f e c sc now ps,
  p_closed ps = false -> p_clock ps <= now ->
  let hs := state_for now (p_stored ps) in
  awakened now hs = true ->
  let it := iterate e c now hs sc in
  exists ps', pstep e c ps (plabel_of (it_lab it)) = Some ps' /\
    pcl_trace (S f) e c now ps sc = plabel_of (it_lab it) :: pcl_trace f e c (it_end it) ps' (it_sc it) /\
    p_clock ps' = it_end it /\
    (finished (it_hs it) = false -> live ps' (it_hs it)) /\
    (finished (it_hs it) = true -> p_closed ps' = true).
Proof.
  intros f e c sc now ps Hc Hclk hs Haw it.
  assert (Hact : s_active hs = true) by apply state_for_active.
  unfold it, iterate. rewrite Haw. cbv zeta.
  set (r := fst (next_act sc)). set (tx := now + Z.max 0 (snd (next_act sc))).
  set (oc := exec e c (s_retries hs) (runtime now hs) (runtime tx hs) r).
  cbn [it_lab it_end it_hs it_sc plabel_of].
  set (te := if snd oc then tx else now).
  assert (Hte : now <= te) by (unfold te, tx; destruct (snd oc); lia).
  (* the strict checks do not look at the raise time: with rx = runtime te the outcome is the same *)
  assert (Hoc : exec e c (s_retries hs) (runtime now hs) (runtime te hs) r = oc).
  { unfold te, oc, exec. destruct (strict c (s_retries hs) (runtime now hs)); simpl; reflexivity. }
  assert (Hstep : pstep e c ps (PCycle now now te te r)
                  = Some (mkP (if st_done [with_outcome te hs (fst oc)] then None else Some (for_storage (with_outcome te hs (fst oc))))
                              (st_done [with_outcome te hs (fst oc)]) te
                              (if snd oc then mkEn now (s_retries hs) te r :: p_log ps else p_log ps))).
  { unfold pstep. rewrite Hc. fold hs. rewrite Haw, Hoc.
    assert (G : (p_clock ps <=? now) && (now <=? now) && (now <=? te) && (te <=? te) = true).
    { repeat (apply andb_true_intro; split); apply Z.leb_le; lia. }
    rewrite G. reflexivity. }
  eexists. split; [exact Hstep |].
  assert (Hact' : s_active (with_outcome te hs (fst oc)) = true) by exact Hact.
  split; [| split; [reflexivity | split]].
  - cbn [pcl_trace]. rewrite Hc. fold hs. unfold iterate. rewrite Haw. cbv zeta. fold r tx oc te.
    cbn [it_lab it_end it_hs it_sc plabel_of]. rewrite Hstep, apply_executed.
    cbn [ap_patched ap_touched ap_slept orb]. rewrite Z.add_0_r. reflexivity.
  - intros Hnf. rewrite (st_done_single _ Hact'), Hnf. unfold live. simpl. auto.
  - intros Hfin. cbn [p_closed]. rewrite (st_done_single _ Hact'). exact Hfin.
Qed.

(* LIVENESS of the persisted driver: after an attempt that did not end the handler, and with nobody else touching
   the object, the loop makes only idle cycles, all before end + max 0 requested, and then a cycle at exactly that
   instant at which the handler is awakened — so it executes it (pcl_exec). *)
Lemma change_handler_retried : forall f e c sc now ps,
  p_closed ps = false -> p_clock ps <= now ->
  let hs := state_for now (p_stored ps) in
  awakened now hs = true ->
  let it := iterate e c now hs sc in
  finished (it_hs it) = false ->
  let W := it_end it + Z.max 0 (requested e c (fst (next_act sc))) in
  exists k idle ps',
    pcl_trace (S (k + S f)) e c now ps sc
      = plabel_of (it_lab it) :: idle ++ pcl_trace (S f) e c W ps' (tl sc) /\
    Forall (idle_before W) idle /\
    live ps' (it_hs it) /\ p_clock ps' <= W /\ awakened W (state_for W (p_stored ps')) = true.
Proof.
  intros f e c sc now ps Hc Hclk hs Haw it Hnf W.
  destruct (iterate_wake e c now hs sc Haw Hnf) as [Hw Hsc]. fold it in Hw, Hsc.
  assert (Hact : s_active (it_hs it) = true) by (unfold it; rewrite iterate_active; apply state_for_active).
  destruct (wake_exact (it_end it) (it_hs it) Hnf) as [W1 _]. rewrite Hw in W1. fold W in W1.
  destruct (s_delayed (it_hs it)) as [D|] eqn:Hd.
  - (* a delay is recorded: wait until max te D = W *)
    assert (HW : W = Z.max (it_end it) D) by (unfold W; rewrite <- Hw; unfold wake; rewrite Hd; reflexivity).
    destruct (Z_le_gt_dec D (it_end it)) as [Hpast | Hfut].
    + (* already over: the echo cycle executes at once *)
      assert (HWe : W = it_end it) by lia.
      exists 0%nat, [].
      destruct (pcl_exec (S f) e c sc now ps Hc Hclk Haw) as [ps' [Hst [Htr [Hck [Hlive _]]]]]. fold hs it in Hst, Htr, Hck, Hlive.
      exists ps'. specialize (Hlive Hnf).
      split; [cbn [plus app]; rewrite Htr, Hsc, HWe; reflexivity |].
      split; [constructor |]. split; [exact Hlive |]. split; [lia |].
      destruct Hlive as [_ [Hs _]]. rewrite Hs, (state_for_roundtrip W _ Hact). exact W1.
    + assert (HWD : W = D) by lia.
      set (n := Z.to_nat ((D - it_end it) / KEEPALIVE + 1)).
      assert (Hk : 0 < KEEPALIVE) by (unfold KEEPALIVE; lia).
      assert (Hn : D - it_end it <= Z.of_nat n * KEEPALIVE).
      { unfold n. rewrite Z2Nat.id.
        - pose proof (Z.mod_pos_bound (D - it_end it) KEEPALIVE Hk).
          pose proof (Z.div_mod (D - it_end it) KEEPALIVE). lia.
        - pose proof (Z.div_pos (D - it_end it) KEEPALIVE). lia. }
      destruct (pcl_exec 0 e c sc now ps Hc Hclk Haw) as [ps1 [Hst [_ [Hck [Hlive _]]]]]. fold hs it in Hst, Hck, Hlive.
      specialize (Hlive Hnf).
      destruct (pcl_wait n f e c (it_sc it) (it_hs it) D (it_end it) ps1 Hlive Hnf Hd) as [k [idle [clk [Htr [Hid [Hclk' [_ _]]]]]]];
        [lia | lia | exact Hn |].
      exists k, idle, (mkP (Some (for_storage (it_hs it))) false clk (p_log ps1)).
      destruct (pcl_exec (k + S f) e c sc now ps Hc Hclk Haw) as [ps2 [Hst2 [Htr2 _]]]. fold hs it in Hst2, Htr2.
      rewrite Hst in Hst2. injection Hst2 as <-.
      split; [rewrite Htr2, Htr, Hsc, HWD; reflexivity |].
      split; [rewrite HWD; exact Hid |].
      split; [unfold live; simpl; auto |].
      split; [simpl; lia |].
      cbn [p_stored]. rewrite (state_for_roundtrip W _ Hact). exact W1.
  - (* no delay recorded (TemporaryError(delay=None), children without a delay): retried at once *)
    assert (HWe : W = it_end it) by (unfold W; rewrite <- Hw; unfold wake; rewrite Hd; reflexivity).
    exists 0%nat, [].
    destruct (pcl_exec (S f) e c sc now ps Hc Hclk Haw) as [ps' [Hst [Htr [Hck [Hlive _]]]]]. fold hs it in Hst, Htr, Hck, Hlive.
    exists ps'. specialize (Hlive Hnf).
    split; [cbn [plus app]; rewrite Htr, Hsc, HWe; reflexivity |].
    split; [constructor |]. split; [exact Hlive |]. split; [lia |].
    destruct Hlive as [_ [Hs _]]. rewrite Hs, (state_for_roundtrip W _ Hact). exact W1.
Qed.

(* non-vacuity: a TemporaryError(delay=1300 s): the patch echo, two keep-alive wake-ups, then the retry at exactly
   end + 1300 s, which succeeds and closes the handling cycle *)
Example closed_loop_example :
  map cycle_of (pcl_trace 8 (mkEnv MTemporary 1000) (mkCfg None None None None) 1000 (pinit 1000)
                  [(RTemp (Some 1300000), 250); (ROk, 0)])
  = [(1000, 1250); (1250, 1250); (601250, 601250); (1201250, 1201250); (1301250, 1301250)].
Proof. vm_compute. reflexivity. Qed.

Example apply_example :
  apply_plan false [900000; 700000] None = mkAp false 600000 true false /\
  apply_plan true [250] None = mkAp true 0 false false /\
  apply_plan false [500] (Some 125) = mkAp false 125 false false.
Proof. vm_compute. repeat split; reflexivity. Qed.
