(* Lemmas about build_response, the error ranking, handler selection and serve. *)
From Coq Require Import ZArith List String Bool Ascii Arith Lia.
From KV Require Import Base.Json Base.Dicts Model.JsonPatch Model.MergeDsl Model.Admission Proofs.MergeDsl.
Import ListNotations.
Open Scope string_scope.
Open Scope Z_scope.
Open Scope list_scope.

(* ---------- allowed ---------- *)

Lemma allowed_iff_no_outcome_exception uid (outs : outcomes) ws ops :
  r_allowed (build_response uid outs ws ops) = true <-> (forall id e, In (id, e) outs -> e = None).
Proof.
  simpl. rewrite forallb_forall. split.
  - intros H id e Hin. specialize (H _ Hin). simpl in H. destruct e; [discriminate|reflexivity].
  - intros H [id e] Hin. simpl. rewrite (H _ _ Hin). reflexivity.
Qed.

(* ---------- ranking ---------- *)

Lemma rank_table e :
  (e_adm e = true -> rank e = 0) /\
  (e_adm e = false -> e_perm e = true -> rank e = 1) /\
  (e_adm e = false -> e_perm e = false -> e_temp e = true -> rank e = 2) /\
  (e_adm e = false -> e_perm e = false -> e_temp e = false -> rank e = 9).
Proof. unfold rank. destruct (e_adm e), (e_perm e), (e_temp e); repeat split; intros; try discriminate; reflexivity. Qed.

Lemma insert_not_nil e l : insert_err e l <> [].
Proof. destruct l; simpl; [discriminate|]. destruct (rank e <=? rank h); discriminate. Qed.

Lemma sort_nil l : sort_errors l = [] -> l = [].
Proof. destruct l; simpl; [reflexivity|]. intro H. exfalso. eapply insert_not_nil; eauto. Qed.

(* the head of the stably sorted list is the first element of minimal rank *)
Definition first_min (l : list herror) (e : herror) : Prop :=
  exists pre post, l = pre ++ e :: post /\
    Forall (fun x => rank e < rank x) pre /\ Forall (fun x => rank e <= rank x) post.

Lemma sort_head l e rest : sort_errors l = e :: rest -> first_min l e.
Proof.
  revert e rest. induction l as [|x l IH]; intros e rest H; simpl in H; [discriminate|].
  destruct (sort_errors l) as [|y s] eqn:Es.
  - apply sort_nil in Es. subst l. simpl in H. injection H as <- _.
    exists [], []. repeat split; constructor.
  - destruct (IH _ _ eq_refl) as (pre & post & Hl & Hpre & Hpost).
    simpl in H. destruct (rank x <=? rank y) eqn:Ele.
    + injection H as <- _. apply Z.leb_le in Ele.
      exists [], l. repeat split; [constructor|]. subst l.
      apply Forall_app. split.
      * eapply Forall_impl; [|exact Hpre]. simpl. intros; lia.
      * constructor; [lia|]. eapply Forall_impl; [|exact Hpost]. simpl. intros; lia.
    + injection H as <- _. apply Z.leb_gt in Ele.
      exists (x :: pre), post. subst l. repeat split; [constructor; [lia|exact Hpre]|exact Hpost].
Qed.

Lemma first_min_unique l e e' : first_min l e -> first_min l e' -> e = e'.
Proof.
  intros (p1 & q1 & H1 & Hp1 & Hq1) (p2 & q2 & H2 & Hp2 & Hq2).
  revert p2 H2 Hp2. subst l. induction p1 as [|a p1 IH]; intros p2 H2 Hp2.
  - destruct p2 as [|b p2]; simpl in H2; [congruence|].
    injection H2 as He Hrest. subst e. inversion Hp2 as [|? ? Hb Hp2']; subst.
    assert (Hin : In e' (p2 ++ e' :: q2)) by (apply in_or_app; right; left; reflexivity).
    rewrite Forall_forall in Hq1. specialize (Hq1 _ Hin). lia.
  - destruct p2 as [|b p2]; simpl in H2.
    + injection H2 as He Hrest. subst a. inversion Hp1 as [|? ? Ha Hp1']; subst.
      assert (Hin : In e (p1 ++ e :: q1)) by (apply in_or_app; right; left; reflexivity).
      rewrite Forall_forall in Hq2. specialize (Hq2 _ Hin). lia.
    + injection H2 as He Hrest. subst b. inversion Hp1; subst. inversion Hp2; subst. eapply IH; eauto.
Qed.

Lemma status_most_specific uid (outs : outcomes) ws ops :
  (errors_of outs = [] -> r_status (build_response uid outs ws ops) = None) /\
  (errors_of outs <> [] ->
     exists e, first_min (errors_of outs) e /\
               r_status (build_response uid outs ws ops) = Some (message e, code e)).
Proof.
  simpl. split.
  - intros ->. reflexivity.
  - intro Hne. destruct (sort_errors (errors_of outs)) as [|e rest] eqn:Es.
    + apply sort_nil in Es. contradiction.
    + exists e. split; [eapply sort_head; eauto|reflexivity].
Qed.

Lemma code_spec e :
  (e_adm e = true -> forall c, e_code e = Some c -> c <> 0 -> code e = c) /\
  (e_adm e = false \/ e_code e = None \/ e_code e = Some 0 -> code e = 500).
Proof.
  unfold code. split.
  - intros -> c -> Hc. apply Z.eqb_neq in Hc. now rewrite Hc.
  - intros [-> | [H | H]]; [reflexivity| |]; destruct (e_adm e); try reflexivity; rewrite H; reflexivity.
Qed.

Lemma message_spec e :
  (e_str e <> EmptyString -> message e = e_str e) /\ (e_str e = EmptyString -> message e = e_repr e).
Proof. unfold message. destruct (e_str e); split; intros; congruence. Qed.

(* ---------- warnings, patch ---------- *)

Lemma warnings_spec uid outs ws ops :
  r_warnings (build_response uid outs ws ops) = match ws with [] => None | _ => Some ws end.
Proof. simpl. destruct ws; reflexivity. Qed.

Lemma patch_spec uid outs ws ops :
  r_patch (build_response uid outs ws ops) = match ops with [] => None | _ => Some ops end.
Proof. simpl. destruct ops; reflexivity. Qed.

(* ---------- selection ---------- *)

Lemma ostr_eqb_eq a b : ostr_eqb a b = true <-> a = b.
Proof.
  destruct a, b; simpl; split; intro H; try discriminate; try reflexivity.
  - apply String.eqb_eq in H. now subst.
  - injection H as ->. apply String.eqb_refl.
Qed.

Lemma only_delete_spec ops :
  only_delete ops = true <-> exists o l, ops = Some (o :: l) /\ forall x, In x (o :: l) -> x = "DELETE".
Proof.
  unfold only_delete. destruct ops as [[|o l]|].
  - split; [discriminate|]. intros (o & l & H & _). discriminate.
  - rewrite forallb_forall. split.
    + intro H. exists o, l. split; [reflexivity|]. intros x Hx. specialize (H _ Hx).
      apply String.eqb_eq in H. now subst.
    + intros (o' & l' & Heq & H). injection Heq as <- <-. intros x Hx. rewrite (H _ Hx). reflexivity.
  - split; [discriminate|]. intros (o & l & H & _). discriminate.
Qed.

Lemma wh_selected_spec c h :
  wh_selected c h = true <->
    (c_reason c = None \/ c_reason c = Some (h_mutating h)) /\
    (c_webhook c = None \/ c_webhook c = Some (h_id h)) /\
    (h_mutating h = false \/ c_op c <> Some "DELETE" \/ only_delete (h_ops h) = true) /\
    (h_sub h = Some "*" \/ h_sub h = c_sub c) /\
    h_extra h = true.
Proof.
  unfold wh_selected, sub_matches.
  rewrite !andb_true_iff, !orb_true_iff, !ostr_eqb_eq, !negb_true_iff.
  split.
  - intros [[[Hr Hw] Hd] [Hs He]]. repeat split; auto.
    + destruct (c_reason c) as [r|]; [right|left; reflexivity].
      apply Bool.eqb_prop in Hr. now subst.
    + destruct (c_webhook c) as [w|]; [right|left; reflexivity].
      apply String.eqb_eq in Hw. now subst.
    + destruct Hd as [[Hd|Hd]|Hd]; [left; exact Hd|right; left|right; right; exact Hd].
      intro Heq. apply ostr_eqb_eq in Heq. congruence.
  - intros (Hr & Hw & Hd & Hs & He). repeat split; auto.
    + destruct Hr as [-> | ->]; [reflexivity|apply Bool.eqb_reflx].
    + destruct Hw as [-> | ->]; [reflexivity|apply String.eqb_refl].
    + destruct Hd as [Hd|[Hd|Hd]]; [left; left; exact Hd|left; right|right; exact Hd].
      destruct (ostr_eqb (c_op c) (Some "DELETE")) eqn:E; [|reflexivity].
      apply ostr_eqb_eq in E. contradiction.
Qed.

Lemma key_eqb_eq a b : key_eqb a b = true <-> a = b.
Proof.
  destruct a as [n s], b as [m t]. unfold key_eqb. simpl. rewrite andb_true_iff, Nat.eqb_eq, String.eqb_eq.
  split; [intros [-> ->]; reflexivity|intro H; injection H as -> ->; auto].
Qed.

Definition hkey (h : whandler) : nat * string := (h_fn h, h_id h).

Lemma existsb_key key seen : existsb (key_eqb key) seen = true <-> In key seen.
Proof.
  rewrite existsb_exists. split.
  - intros (x & Hin & Heq). apply key_eqb_eq in Heq. now subst.
  - intro H. exists key. split; [exact H|now apply key_eqb_eq].
Qed.

Lemma dedup_in seen hs h : In h (dedup seen hs) -> In h hs /\ ~ In (hkey h) seen.
Proof.
  revert seen. induction hs as [|x hs IH]; intros seen H; simpl in H; [contradiction|].
  destruct (existsb (key_eqb (h_fn x, h_id x)) seen) eqn:E.
  - destruct (IH _ H). split; [right|]; assumption.
  - destruct H as [-> | H].
    + split; [left; reflexivity|]. intro Hin. apply existsb_key in Hin. unfold hkey in Hin. congruence.
    + destruct (IH _ H) as [Hin Hns]. split; [right; assumption|]. intro Hs. apply Hns. right. exact Hs.
Qed.

Lemma dedup_complete seen hs h :
  In h hs -> ~ In (hkey h) seen -> exists h', In h' (dedup seen hs) /\ hkey h' = hkey h.
Proof.
  revert seen. induction hs as [|x hs IH]; intros seen Hin Hns; [contradiction|]. simpl.
  destruct (existsb (key_eqb (h_fn x, h_id x)) seen) eqn:E.
  - destruct Hin as [-> | Hin]; [apply existsb_key in E; contradiction|]. apply IH; assumption.
  - destruct Hin as [-> | Hin]; [exists h; split; [left|]; reflexivity|].
    destruct (key_eqb (hkey h) (hkey x)) eqn:Ek.
    + apply key_eqb_eq in Ek. exists x. split; [left; reflexivity|symmetry; exact Ek].
    + destruct (IH ((h_fn x, h_id x) :: seen) Hin) as (h' & Hh' & Hk).
      * intros [Heq | Hs]; [|contradiction].
        assert (Ht : key_eqb (hkey h) (hkey x) = true) by (apply key_eqb_eq; rewrite <- Heq; reflexivity).
        rewrite Ht in Ek. discriminate.
      * exists h'. split; [right|]; assumption.
Qed.

Lemma dedup_nodup seen hs : NoDup (map hkey (dedup seen hs)).
Proof.
  revert seen. induction hs as [|x hs IH]; intro seen; simpl; [constructor|].
  destruct (existsb (key_eqb (h_fn x, h_id x)) seen) eqn:E; [apply IH|].
  simpl. constructor; [|apply IH].
  intro Hin. apply in_map_iff in Hin. destruct Hin as (h & Hk & Hh).
  apply dedup_in in Hh. destruct Hh as [_ Hns]. apply Hns. left. unfold hkey in Hk. symmetry. exact Hk.
Qed.

Lemma select_sound c hs h : In h (select_webhooks c hs) -> In h hs /\ wh_selected c h = true.
Proof.
  unfold select_webhooks. intro H. apply dedup_in in H. destruct H as [H _].
  now apply filter_In in H.
Qed.

Lemma select_complete c hs h :
  In h hs -> wh_selected c h = true ->
  exists h', In h' (select_webhooks c hs) /\ h_fn h' = h_fn h /\ h_id h' = h_id h.
Proof.
  intros Hin Hsel. unfold select_webhooks.
  destruct (dedup_complete [] (filter (wh_selected c) hs) h) as (h' & Hh' & Hk).
  - apply filter_In. split; assumption.
  - intros [].
  - exists h'. unfold hkey in Hk. injection Hk as H1 H2. auto.
Qed.

Lemma select_keys_nodup c hs : NoDup (map hkey (select_webhooks c hs)).
Proof. apply dedup_nodup. Qed.

Lemma selection_exact c hs :
  (forall h, In h (select_webhooks c hs) -> In h hs /\ wh_selected c h = true) /\
  (forall h, In h hs -> wh_selected c h = true ->
     exists h', In h' (select_webhooks c hs) /\ h_fn h' = h_fn h /\ h_id h' = h_id h) /\
  NoDup (map hkey (select_webhooks c hs)).
Proof. split; [apply select_sound|split; [apply select_complete|apply select_keys_nodup]]. Qed.

Lemma mutating_on_delete c hs h :
  In h (select_webhooks c hs) -> c_op c = Some "DELETE" -> h_mutating h = true ->
  exists o l, h_ops h = Some (o :: l) /\ forall x, In x (o :: l) -> x = "DELETE".
Proof.
  intros Hin Hop Hm. apply select_sound in Hin. destruct Hin as [_ Hsel].
  apply wh_selected_spec in Hsel. destruct Hsel as (_ & _ & Hd & _).
  apply only_delete_spec. destruct Hd as [Hd|[Hd|Hd]]; congruence.
Qed.

(* the handler's declared operations are not compared with the review's operation *)
Lemma selection_operation_refuted :
  exists c hs h, In h (select_webhooks c hs) /\ h_mutating h = false /\
                 h_ops h = Some ["CREATE"] /\ c_op c = Some "UPDATE".
Proof.
  exists {| c_webhook := None; c_reason := None; c_op := Some "UPDATE"; c_sub := None |}.
  exists [{| h_id := "v"; h_fn := 0; h_mutating := false; h_ops := Some ["CREATE"]; h_sub := None; h_extra := true |}].
  eexists. split; [left; reflexivity|]. repeat split.
Qed.

(* ---------- outcomes of the selected handlers ---------- *)

Lemma set_fresh {V} k (v : V) l : ~ In k (map fst l) -> set k v l = l ++ [(k, v)].
Proof.
  induction l as [|[k' v'] l IH]; simpl; intro H; [reflexivity|].
  destruct (String.eqb k k') eqn:E.
  - apply String.eqb_eq in E. subst. exfalso. apply H. left. reflexivity.
  - rewrite IH; [reflexivity|]. intro Hin. apply H. right. exact Hin.
Qed.

Lemma collect_fold (run : handler_run) sel acc :
  NoDup (map fst acc ++ map h_id sel) ->
  fold_left (fun acc h => set (h_id h) (snd (run h)) acc) sel acc =
  acc ++ map (fun h => (h_id h, snd (run h))) sel.
Proof.
  revert acc. induction sel as [|h sel IH]; intros acc Hnd; simpl; [now rewrite app_nil_r|].
  rewrite set_fresh.
  - rewrite IH.
    + rewrite <- app_assoc. reflexivity.
    + rewrite map_app. simpl. rewrite <- app_assoc. simpl. exact Hnd.
  - intro Hin. apply NoDup_remove_2 in Hnd. apply Hnd. apply in_or_app. left. exact Hin.
Qed.

Lemma collect_outcomes_nodup run sel :
  NoDup (map h_id sel) -> collect_outcomes run sel = map (fun h => (h_id h, snd (run h))) sel.
Proof. intro H. unfold collect_outcomes. rewrite collect_fold; [reflexivity|exact H]. Qed.

Section ServeFacts.
  Variable from_diff : json -> json -> list jop.

  Lemma serve_ok_inv uid c hs run patch fns body r :
    serve from_diff uid c hs run patch fns body = Ok r ->
    exists ops, as_json_patch from_diff patch fns body = Ok ops /\
      r = build_response uid (collect_outcomes run (select_webhooks c hs))
                         (collect_warnings run (select_webhooks c hs)) ops.
  Proof.
    unfold serve. destruct (as_json_patch from_diff patch fns body) as [ops| | |]; simpl; try discriminate.
    intro H. injection H as <-. exists ops. split; reflexivity.
  Qed.

  (* allowed <-> no selected handler raised, when the ids of the selected handlers are distinct *)
  Lemma serve_allowed_partial uid c hs run patch fns body r :
    NoDup (map h_id (select_webhooks c hs)) ->
    serve from_diff uid c hs run patch fns body = Ok r ->
    (r_allowed r = true <-> forall h, In h (select_webhooks c hs) -> snd (run h) = None).
  Proof.
    intros Hnd Hs. apply serve_ok_inv in Hs. destruct Hs as (ops & _ & ->).
    rewrite allowed_iff_no_outcome_exception, collect_outcomes_nodup by exact Hnd.
    split.
    - intros H h Hin. apply (H (h_id h)). apply in_map_iff. exists h. split; [reflexivity|exact Hin].
    - intros H id e Hin. apply in_map_iff in Hin. destruct Hin as (h & Heq & Hin). injection Heq as <- <-.
      apply H. exact Hin.
  Qed.

  Lemma serve_status_partial uid c hs run patch fns body r :
    NoDup (map h_id (select_webhooks c hs)) ->
    serve from_diff uid c hs run patch fns body = Ok r ->
    let raised := flat_map (fun h => match snd (run h) with Some e => [e] | None => [] end) (select_webhooks c hs) in
    (raised = [] -> r_status r = None) /\
    (raised <> [] -> exists e, first_min raised e /\ r_status r = Some (message e, code e)).
  Proof.
    intros Hnd Hs. apply serve_ok_inv in Hs. destruct Hs as (ops & _ & ->).
    assert (He : errors_of (collect_outcomes run (select_webhooks c hs)) =
                 flat_map (fun h => match snd (run h) with Some e => [e] | None => [] end) (select_webhooks c hs)).
    { rewrite collect_outcomes_nodup by exact Hnd. unfold errors_of.
      clear Hnd. generalize (select_webhooks c hs). intro l.
      induction l as [|h l IH]; simpl; [reflexivity|]. now rewrite IH. }
    cbv zeta. rewrite <- He. apply status_most_specific.
  Qed.

  Lemma serve_warnings uid c hs run patch fns body r :
    serve from_diff uid c hs run patch fns body = Ok r ->
    r_warnings r = match flat_map (fun h => fst (run h)) (select_webhooks c hs) with
                   | [] => None
                   | ws => Some ws
                   end.
  Proof.
    intro Hs. apply serve_ok_inv in Hs. destruct Hs as (ops & _ & ->).
    rewrite warnings_spec. unfold collect_warnings.
    destruct (flat_map (fun h => fst (run h)) (select_webhooks c hs)); reflexivity.
  Qed.
End ServeFacts.

(* ---------- the patch on the wire ---------- *)
Section WireFacts.
  Variable text : Type.
  Variable encode : list jop -> text.
  Variable decode_std : text -> option (list jop).
  Hypothesis wire_law : forall ops, decode_std (encode ops) = Some ops.

  Lemma wire_roundtrip uid outs ws ops :
    received_patch encode decode_std (build_response uid outs ws ops) = Some ops.
  Proof.
    unfold received_patch, wire_patch. rewrite patch_spec. destruct ops; [reflexivity|apply wire_law].
  Qed.

  (* what the API server decodes from the response is exactly what as_json_patch computed *)
  Lemma serve_patch_received from_diff uid c hs run patch fns body r :
    serve from_diff uid c hs run patch fns body = Ok r ->
    exists ops, as_json_patch from_diff patch fns body = Ok ops /\
                received_patch encode decode_std r = Some ops.
  Proof.
    intro Hs. apply serve_ok_inv in Hs. destruct Hs as (ops & Ha & ->).
    exists ops. split; [exact Ha|apply wire_roundtrip].
  Qed.
End WireFacts.

(* the law has a model (the identity wire) *)
Example wire_law_satisfiable :
  exists (text : Type) (encode : list jop -> text) (decode_std : text -> option (list jop)),
    forall ops, decode_std (encode ops) = Some ops.
Proof. exists (list jop), (fun x => x), (@Some _). reflexivity. Qed.

(* two selected handlers with one id: the denial of the first is lost *)
Definition dup_handlers : list whandler :=
  [{| h_id := "check"; h_fn := 0; h_mutating := false; h_ops := None; h_sub := None; h_extra := true |};
   {| h_id := "check"; h_fn := 1; h_mutating := false; h_ops := None; h_sub := None; h_extra := true |}].
Definition dup_run : handler_run := fun h =>
  match h_fn h with
  | O => ([], Some {| e_adm := true; e_perm := true; e_temp := false; e_str := "no way"; e_repr := "";
                      e_code := Some 403 |})
  | _ => ([], None)
  end.
Definition any_cause : wcause := {| c_webhook := None; c_reason := None; c_op := Some "CREATE"; c_sub := None |}.

Lemma serve_allowed_refuted :
  exists c hs run r h,
    serve root_replace_diff "u" c hs run (JObj []) [] (JObj []) = Ok r /\
    r_allowed r = true /\ In h (select_webhooks c hs) /\ snd (run h) <> None.
Proof.
  exists any_cause, dup_handlers, dup_run. eexists. eexists.
  split; [vm_compute; reflexivity|]. split; [reflexivity|].
  split; [left; reflexivity|]. vm_compute. discriminate.
Qed.

(* non-vacuity: selected handlers with distinct ids exist, one raises, the review is denied *)
Example serve_denied_example :
  let hs := [{| h_id := "a"; h_fn := 0; h_mutating := false; h_ops := None; h_sub := None; h_extra := true |};
             {| h_id := "b"; h_fn := 1; h_mutating := true; h_ops := None; h_sub := Some "*"; h_extra := true |}] in
  NoDup (map h_id (select_webhooks any_cause hs)) /\
  exists r, serve root_replace_diff "u" any_cause hs dup_run (JObj []) [] (JObj []) = Ok r /\
            r_allowed r = false /\ r_status r = Some ("no way", 403).
Proof.
  cbv zeta. split.
  - vm_compute. repeat constructor; simpl; intuition discriminate.
  - eexists. split; [vm_compute; reflexivity|]. split; reflexivity.
Qed.

(* ============================================================================================
   Exactly which outcomes reach build_response: no guard on the ids.
   ============================================================================================ *)

Lemma last_by_id_snoc id sel h :
  last_by_id id (sel ++ [h]) = if String.eqb id (h_id h) then Some h else last_by_id id sel.
Proof.
  induction sel as [|x sel IH]; simpl.
  - destruct (String.eqb id (h_id h)); reflexivity.
  - rewrite IH. destruct (String.eqb id (h_id h)); reflexivity.
Qed.

Lemma last_by_id_some id sel h : last_by_id id sel = Some h -> In h sel /\ h_id h = id.
Proof.
  induction sel as [|x sel IH]; simpl; [discriminate|].
  destruct (last_by_id id sel) as [h'|].
  - intro H. injection H as ->. destruct (IH eq_refl). split; [right|]; assumption.
  - destruct (String.eqb id (h_id x)) eqn:E; [|discriminate].
    intro H. injection H as <-. apply String.eqb_eq in E. split; [left; reflexivity|symmetry; exact E].
Qed.

Lemma last_by_id_exists id sel : In id (map h_id sel) -> exists h, last_by_id id sel = Some h.
Proof.
  induction sel as [|x sel IH]; simpl; [contradiction|].
  intros [H | H].
  - destruct (last_by_id id sel); [eauto|]. subst id. rewrite String.eqb_refl. eauto.
  - destruct (IH H) as (h & ->). eauto.
Qed.

Lemma ids_first_in i sel : In i (ids_first sel) <-> In i (map h_id sel).
Proof.
  induction sel as [|x sel IH]; simpl; [tauto|].
  rewrite filter_In, IH, negb_true_iff. split.
  - intros [H | [H _]]; auto.
  - intros [H | H]; [left; exact H|].
    destruct (String.eqb_spec i (h_id x)) as [->|Hne]; [left; reflexivity|right; split; [exact H|reflexivity]].
Qed.

Lemma ids_first_nodup sel : NoDup (ids_first sel).
Proof.
  induction sel as [|x sel IH]; simpl; [constructor|].
  constructor.
  - rewrite filter_In, negb_true_iff. intros [_ H]. rewrite String.eqb_refl in H. discriminate.
  - apply NoDup_filter. exact IH.
Qed.

Lemma ids_first_snoc sel h :
  ids_first (sel ++ [h]) =
  if mem_str (h_id h) (map h_id sel) then ids_first sel else ids_first sel ++ [h_id h].
Proof.
  induction sel as [|x sel IH]; simpl; [reflexivity|].
  rewrite IH. destruct (mem_str (h_id h) (map h_id sel)) eqn:Em.
  - now rewrite orb_true_r.
  - rewrite orb_false_r, filter_app. simpl.
    destruct (String.eqb (h_id h) (h_id x)); simpl; [now rewrite app_nil_r|reflexivity].
Qed.

Lemma mem_str_in k l : mem_str k l = true <-> In k l.
Proof.
  unfold mem_str. rewrite existsb_exists. split.
  - intros (x & Hin & He). apply String.eqb_eq in He. now subst.
  - intro H. exists k. split; [exact H|apply String.eqb_refl].
Qed.

Lemma set_map_nodup {V} (g g' : string -> V) k v L :
  NoDup L -> In k L -> g' k = v -> (forall i, i <> k -> g' i = g i) ->
  set k v (map (fun i => (i, g i)) L) = map (fun i => (i, g' i)) L.
Proof.
  intros Hnd Hin Hk Hother. induction L as [|a L IH]; [contradiction|].
  inversion Hnd as [|? ? Hna HndL]; subst. simpl.
  destruct (String.eqb_spec k a) as [->|Hne].
  - f_equal. apply map_ext_in. intros i Hi. f_equal. symmetry. apply Hother. intros ->. contradiction.
  - destruct Hin as [->|Hin]; [congruence|].
    rewrite IH by assumption. f_equal. f_equal. symmetry. apply Hother. congruence.
Qed.

(* the outcomes dict, exactly: per id (first-occurrence order) the outcome of the LAST selected handler with that id *)
Lemma collect_outcomes_exact run sel : collect_outcomes run sel = effective_outcomes run sel.
Proof.
  unfold collect_outcomes, effective_outcomes.
  induction sel as [|h sel IH] using rev_ind; [reflexivity|].
  rewrite fold_left_app. simpl. rewrite IH, ids_first_snoc.
  assert (Hg : forall i, i <> h_id h -> effective_outcome run (sel ++ [h]) i = effective_outcome run sel i).
  { intros i Hi. unfold effective_outcome. rewrite last_by_id_snoc.
    destruct (String.eqb_spec i (h_id h)); [contradiction|reflexivity]. }
  assert (Hk : effective_outcome run (sel ++ [h]) (h_id h) = snd (run h)).
  { unfold effective_outcome. rewrite last_by_id_snoc, String.eqb_refl. reflexivity. }
  destruct (mem_str (h_id h) (map h_id sel)) eqn:Em.
  - apply set_map_nodup; [apply ids_first_nodup| |exact Hk|exact Hg].
    apply ids_first_in. apply mem_str_in. exact Em.
  - rewrite set_fresh.
    + rewrite map_app. simpl. rewrite Hk. f_equal.
      apply map_ext_in. intros i Hi. f_equal. symmetry. apply Hg. intros ->.
      apply ids_first_in in Hi. apply mem_str_in in Hi. congruence.
    + rewrite map_map. simpl. rewrite map_id. intro Hin.
      apply ids_first_in in Hin. apply mem_str_in in Hin. congruence.
Qed.

Section ServeExact.
  Variable from_diff : json -> json -> list jop.

  (* allowed, exactly, for EVERY handler set: no handler that is the last one of its id raised *)
  Lemma serve_allowed_exact uid c hs run patch fns body r :
    serve from_diff uid c hs run patch fns body = Ok r ->
    (r_allowed r = true <->
     forall h, In h (select_webhooks c hs) -> last_by_id (h_id h) (select_webhooks c hs) = Some h -> snd (run h) = None).
  Proof.
    intro Hs. apply serve_ok_inv in Hs. destruct Hs as (ops & _ & ->).
    rewrite allowed_iff_no_outcome_exception, collect_outcomes_exact. unfold effective_outcomes.
    set (sel := select_webhooks c hs). split.
    - intros H h Hin Hlast. specialize (H (h_id h) (effective_outcome run sel (h_id h))).
      assert (He : effective_outcome run sel (h_id h) = snd (run h)) by (unfold effective_outcome; now rewrite Hlast).
      rewrite <- He. apply H.
      apply in_map_iff. exists (h_id h). split; [reflexivity|].
      apply ids_first_in. apply in_map. exact Hin.
    - intros H id e Hin. apply in_map_iff in Hin. destruct Hin as (i & Heq & Hi). injection Heq as <- <-.
      apply ids_first_in in Hi. destruct (last_by_id_exists _ _ Hi) as (h & Hl).
      unfold effective_outcome. rewrite Hl. destruct (last_by_id_some _ _ _ Hl) as [Hin Hid].
      apply H; [exact Hin|]. rewrite Hid. exact Hl.
  Qed.

  (* the two directions that hold without any guard *)
  Lemma serve_no_raise_allowed uid c hs run patch fns body r :
    serve from_diff uid c hs run patch fns body = Ok r ->
    (forall h, In h (select_webhooks c hs) -> snd (run h) = None) -> r_allowed r = true.
  Proof. intros Hs H. apply (serve_allowed_exact _ _ _ _ _ _ _ _ Hs). intros h Hin _. apply H. exact Hin. Qed.

  Lemma serve_denied_raised uid c hs run patch fns body r :
    serve from_diff uid c hs run patch fns body = Ok r ->
    r_allowed r = false -> exists h, In h (select_webhooks c hs) /\ snd (run h) <> None.
  Proof.
    intros Hs Hden. apply serve_ok_inv in Hs. destruct Hs as (ops & _ & ->).
    simpl in Hden. rewrite collect_outcomes_exact in Hden.
    assert (Hex : exists kv, In kv (effective_outcomes run (select_webhooks c hs)) /\ snd kv <> None).
    { induction (effective_outcomes run (select_webhooks c hs)) as [|[i e] l IH]; simpl in Hden; [discriminate|].
      destruct e as [e|].
      - exists (i, Some e). split; [left; reflexivity|discriminate].
      - destruct (IH Hden) as (kv & Hin & Hne). exists kv. split; [right; exact Hin|exact Hne]. }
    destruct Hex as ([i e] & Hin & Hne). unfold effective_outcomes in Hin.
    apply in_map_iff in Hin. destruct Hin as (i' & Heq & Hi). injection Heq as <- <-.
    unfold effective_outcome in Hne. simpl in Hne.
    destruct (last_by_id i' (select_webhooks c hs)) as [h|] eqn:Hl; [|congruence].
    exists h. split; [apply (last_by_id_some _ _ _ Hl)|exact Hne].
  Qed.

  (* message and code, exactly, for every handler set *)
  Lemma serve_status_exact uid c hs run patch fns body r :
    serve from_diff uid c hs run patch fns body = Ok r ->
    let kept := errors_of (effective_outcomes run (select_webhooks c hs)) in
    (kept = [] -> r_status r = None) /\
    (kept <> [] -> exists e, first_min kept e /\ r_status r = Some (message e, code e)).
  Proof.
    intro Hs. apply serve_ok_inv in Hs. destruct Hs as (ops & _ & ->).
    cbv zeta. rewrite <- collect_outcomes_exact. apply status_most_specific.
  Qed.

  (* a response is always produced, and it is this one *)
  Lemma serve_total_exact uid c hs run patch fns body :
    is_obj patch = true -> wf patch = true -> is_obj body = true ->
    exists ops, as_json_patch from_diff patch fns body = Ok ops /\
      serve from_diff uid c hs run patch fns body =
      Ok {| r_uid := uid;
            r_allowed := forallb (fun kv => match snd kv with None => true | Some _ => false end)
                                 (effective_outcomes run (select_webhooks c hs));
            r_warnings := match flat_map (fun h => fst (run h)) (select_webhooks c hs) with [] => None | ws => Some ws end;
            r_patch := match ops with [] => None | _ => Some ops end;
            r_status := match sort_errors (errors_of (effective_outcomes run (select_webhooks c hs))) with
                        | e :: _ => Some (message e, code e)
                        | [] => None
                        end |}.
  Proof.
    intros Ho Hwf Hb. destruct (dsl_is_merge patch body Ho Hwf Hb) as (b' & Ha & _).
    assert (Hops : exists ops, as_json_patch from_diff patch fns body = Ok ops).
    { unfold as_json_patch. destruct (patch_is_empty patch && is_nil fns); [eauto|].
      unfold body_to_be. rewrite Ha. simpl. eauto. }
    destruct Hops as (ops & Hops). exists ops. split; [exact Hops|].
    unfold serve. rewrite Hops. simpl. unfold build_response. rewrite collect_outcomes_exact.
    unfold collect_warnings.
    destruct (flat_map (fun h => fst (run h)) (select_webhooks c hs)); destruct ops; reflexivity.
  Qed.
End ServeExact.

(* non-vacuity: in the duplicate-id example the LAST handler of the id passes, so the exact rule says "allowed" *)
Example allowed_exact_example :
  forall h, In h (select_webhooks any_cause dup_handlers) ->
            last_by_id (h_id h) (select_webhooks any_cause dup_handlers) = Some h -> snd (dup_run h) = None.
Proof.
  intros h [<- | [<- | []]]; vm_compute; [discriminate|reflexivity].
Qed.
