(* C19 — the conflict toggles of Model/Ensemble.v: after every history of adjustments operator_paused holds
   exactly the toggles of the current peering keys. *)
From Coq Require Import ZArith List String Bool Lia PeanoNat.
From KV Require Import Model.Ensemble Proofs.Ensemble.
Import ListNotations.

Lemma tog_eqb_eq : forall a b, tog_eqb a b = true <-> a = b.
Proof.
  intros [ka na] [kb nb]; unfold tog_eqb; cbn. rewrite andb_true_iff, key_eqb_eq, Nat.eqb_eq.
  split; [intros [-> ->]; reflexivity | intros H; injection H as -> ->; split; reflexivity].
Qed.

Lemma mem_tog_In : forall t l, mem_tog t l = true <-> In t l.
Proof.
  intros t l; unfold mem_tog; rewrite existsb_exists. split.
  - intros [x [Hx He]]. apply tog_eqb_eq in He. subst; assumption.
  - intros H; exists t; split; [assumption | apply tog_eqb_eq; reflexivity].
Qed.

Definition tinv (t : tens) : Prop :=
  (forall f, In f (pset t) <-> In f (flags t)) /\
  (forall f, In f (flags t) -> In (fst f) (peerings (te t))) /\
  (forall k, In k (peerings (te t)) -> exists n, In (k, n) (flags t)) /\
  (forall f, In f (flags t) -> (snd f < fresh t)%nat) /\
  (forall f g, In f (flags t) -> In g (flags t) -> fst f = fst g -> f = g).

Lemma tinv0 : tinv tens0.
Proof. unfold tinv, tens0; cbn. repeat split; intros; try tauto; contradiction. Qed.

Lemma tinv_terminate : forall i t, tinv t -> tinv (tterminate i t).
Proof.
  intros i t [Ha [Hb [Hc [Hd He]]]]. unfold tinv, tterminate, get_flags; cbn [te flags pset fresh terminate peerings].
  split; [| split; [| split; [| split]]].
  - intros f. rewrite !filter_In, !negb_true_iff. split.
    + intros [Hp Hn]. apply Ha in Hp. split; [assumption |].
      destruct (redundant i (fst f)) eqn:E; [| reflexivity].
      assert (M : mem_tog f (filter (fun t0 => redundant i (fst t0)) (flags t)) = true)
        by (apply mem_tog_In, filter_In; split; assumption).
      rewrite M in Hn. discriminate.
    + intros [Hf Hn]. split; [apply Ha; assumption |].
      destruct (mem_tog f (filter (fun t0 => redundant i (fst t0)) (flags t))) eqn:M; [| reflexivity].
      apply mem_tog_In, filter_In in M. destruct M as [_ M]. congruence.
  - intros f Hf. apply filter_In in Hf. destruct Hf as [Hf Hn]. apply negb_true_iff in Hn.
    apply keep_In. split; [apply Hb; assumption | assumption].
  - intros k Hk. apply keep_In in Hk. destruct Hk as [Hk Hn]. destruct (Hc k Hk) as [n Hn'].
    exists n. apply filter_In. split; [assumption |]. cbn. rewrite Hn. reflexivity.
  - intros f Hf. apply filter_In in Hf. apply Hd, Hf.
  - intros f g Hf Hg. apply filter_In in Hf. apply filter_In in Hg. apply He; [apply Hf | apply Hg].
Qed.

Lemma te_tspawn_step : forall t k, te (tspawn_step t k) = spawn_peering_step (te t) k.
Proof.
  intros t k. unfold tspawn_step. destruct (mem_key k (peerings (te t))) eqn:E; [| reflexivity].
  unfold spawn_peering_step. rewrite E. reflexivity.
Qed.

Lemma tinv_spawn_step : forall t k, tinv t -> tinv (tspawn_step t k).
Proof.
  intros t k [Ha [Hb [Hc [Hd He]]]]. unfold tspawn_step.
  destruct (mem_key k (peerings (te t))) eqn:E; [repeat split; assumption || apply Ha |].
  apply mem_key_false in E.
  assert (Hk : forall f, In f (flags t) -> fst f <> k) by (intros f Hf Heq; apply E; rewrite <- Heq; apply Hb, Hf).
  unfold tinv; cbn [te flags pset fresh]. unfold spawn_peering_step.
  assert (M : mem_key k (peerings (te t)) = false) by (apply mem_key_false; assumption). rewrite M. cbn [peerings].
  split; [| split; [| split; [| split]]].
  - intros f. cbn. rewrite filter_In, negb_true_iff. split.
    + intros [<- | Hp]; [left; reflexivity |]. right. apply Ha in Hp. split; [assumption |].
      destruct (key_eqb (fst f) k) eqn:Ek; [| reflexivity]. apply key_eqb_eq in Ek. exfalso; apply (Hk f Hp Ek).
    + intros [<- | [Hf _]]; [left; reflexivity | right; apply Ha; assumption].
  - intros f [<- | Hf]; [left; reflexivity |]. apply filter_In in Hf. right. apply Hb, Hf.
  - intros k0 [<- | Hk0]; [exists (fresh t); left; reflexivity |].
    destruct (Hc k0 Hk0) as [n Hn]. exists n. right. apply filter_In. split; [assumption |].
    apply negb_true_iff. destruct (key_eqb (fst (k0, n)) k) eqn:Ek; [| reflexivity].
    apply key_eqb_eq in Ek. exfalso; apply (Hk _ Hn Ek).
  - intros f [<- | Hf]; [cbn; lia |]. apply filter_In in Hf. specialize (Hd f (proj1 Hf)). lia.
  - intros f g [<- | Hf] [<- | Hg] Heq; try reflexivity.
    + apply filter_In in Hg. exfalso. apply (Hk g (proj1 Hg)). symmetry; exact Heq.
    + apply filter_In in Hf. exfalso. apply (Hk f (proj1 Hf)). exact Heq.
    + apply filter_In in Hf. apply filter_In in Hg. apply He; [apply Hf | apply Hg | exact Heq].
Qed.

Lemma tinv_spawn_fold : forall ks t, tinv t -> tinv (fold_left tspawn_step ks t).
Proof. induction ks as [| k ks IH]; intros t H; cbn; [assumption | apply IH, tinv_spawn_step, H]. Qed.

Lemma te_spawn_fold : forall ks t, te (fold_left tspawn_step ks t) = fold_left spawn_peering_step ks (te t).
Proof.
  induction ks as [| k ks IH]; intros t; cbn; [reflexivity |]. rewrite IH, te_tspawn_step. reflexivity.
Qed.

Lemma tinv_adjust : forall i t, tinv t -> tinv (tadjust i t).
Proof.
  intros i t H. unfold tadjust.
  pose proof (tinv_spawn_fold (wanted (peering i) (namespaces i)) _ (tinv_terminate i t H)) as [Ha [Hb [Hc [Hd He]]]].
  fold (tspawn_peerings i (tterminate i t)) in *.
  unfold tinv; cbn [te flags pset fresh spawn_watchers peerings]. repeat split; try assumption; apply Ha.
Qed.

(* the task maps evolve exactly as in the toggle-free model *)
Lemma te_tadjust : forall i t, te (tadjust i t) = adjust i (te t).
Proof.
  intros i t. unfold tadjust, adjust, tspawn_peerings, spawn_peerings; cbn [te]. rewrite te_spawn_fold. reflexivity.
Qed.

Lemma trun_from : forall hs t, tinv t ->
  tinv (fold_left (fun t i => tadjust i t) hs t) /\
  te (fold_left (fun t i => tadjust i t) hs t) = fold_left (fun e i => adjust i e) hs (te t).
Proof.
  induction hs as [| i hs IH]; intros t H; cbn; [split; [assumption | reflexivity] |].
  destruct (IH _ (tinv_adjust i t H)) as [H1 H2]. split; [assumption |]. rewrite H2, te_tadjust. reflexivity.
Qed.

Lemma trun_tinv : forall hs, tinv (trun_adjust hs).
Proof. intros hs; unfold trun_adjust. apply trun_from, tinv0. Qed.

Lemma trun_base : forall hs, te (trun_adjust hs) = run_adjust hs.
Proof. intros hs; unfold trun_adjust, run_adjust. apply (trun_from hs tens0 tinv0). Qed.

(* operator_paused holds exactly the toggles of the current peering keys, one per key *)
Lemma toggles_exact : forall hs,
  let t := trun_adjust hs in
  (forall f, In f (pset t) <-> In f (flags t)) /\
  (forall k, In k (peerings (run_adjust hs)) <-> exists n, In (k, n) (pset t)) /\
  (forall f g, In f (pset t) -> In g (pset t) -> fst f = fst g -> f = g).
Proof.
  intros hs t. destruct (trun_tinv hs) as [Ha [Hb [Hc [_ He]]]]. fold t in Ha, Hb, Hc, He.
  pose proof (trun_base hs) as Hbase. fold t in Hbase.
  split; [exact Ha |]. split.
  - intros k. rewrite <- Hbase. split.
    + intros Hk. destruct (Hc k Hk) as [n Hn]. exists n. apply Ha; assumption.
    + intros [n Hn]. apply Ha in Hn. apply (Hb _ Hn).
  - intros f g Hf Hg. apply He; apply Ha; assumption.
Qed.

(* no toggle of a key removed by the last adjustment survives in operator_paused *)
Lemma removed_key_no_toggle : forall hs i f,
  In f (pset (trun_adjust (hs ++ [i]))) -> redundant i (fst f) = false.
Proof.
  intros hs i f Hf. destruct (trun_tinv (hs ++ [i])) as [Ha [Hb _]]. apply Ha in Hf. apply Hb in Hf.
  rewrite trun_base in Hf. unfold run_adjust in Hf. rewrite fold_left_app in Hf. cbn in Hf.
  unfold adjust, spawn_watchers, spawn_peerings in Hf; cbn [peerings] in Hf.
  apply fold_step_peerings_In in Hf. destruct Hf as [Hf | Hf].
  - cbn in Hf. apply keep_In in Hf. apply Hf.
  - apply wanted_not_redundant_p, Hf.
Qed.

(* hence: the operator is paused iff the peering CRD is missing-but-mandatory or some CURRENT peering
   reports a conflict — whatever the states of the toggles are *)
Lemma paused_iff_current_blocker : forall hs mandatory i onk,
  paused_on mandatory i onk (trun_adjust hs) = blocked_by_current mandatory i onk (trun_adjust hs).
Proof.
  intros hs m i onk. unfold paused_on, blocked_by_current. f_equal.
  destruct (trun_tinv hs) as [Ha [Hb [Hc _]]].
  apply eq_true_iff_eq. rewrite !existsb_exists. split.
  - intros [f [Hf Hon]]. exists (fst f). split; [apply Hb, Ha, Hf | exact Hon].
  - intros [k [Hk Hon]]. destruct (Hc k Hk) as [n Hn]. exists (k, n). split; [apply Ha, Hn | exact Hon].
Qed.

(* non-vacuity: a namespace with a conflicting peering goes away; its toggle goes with it *)
Lemma toggle_example :
  let rp := {| rid := 101%Z; rns := true |} in
  let i1 := {| watched := [r_spaced]; namespaces := [Some "ns1"; Some "ns2"]%string; peering := [rp] |} in
  let i2 := {| watched := [r_spaced]; namespaces := [Some "ns1"%string]; peering := [rp] |} in
  togs_same (pset (trun_adjust [i1])) [((rp, Some "ns1"%string), 0%nat); ((rp, Some "ns2"%string), 1%nat)] = true /\
  paused_on false i1 [(rp, Some "ns2"%string)] (trun_adjust [i1]) = true /\
  pset (trun_adjust [i1; i2]) = [((rp, Some "ns1"%string), 0%nat)] /\
  paused_on false i2 [(rp, Some "ns2"%string)] (trun_adjust [i1; i2]) = false.
Proof. vm_compute. repeat split; reflexivity. Qed.
