(* C19 — the closed system client x server of Model/Watch.v: no object change is skipped. *)
From Coq Require Import ZArith List String Bool Lia.
From KV Require Import Model.Watch Proofs.Watch.
Import ListNotations.
Open Scope Z_scope.

(* the log is newest-first with strictly decreasing versions, all at most b *)
Fixpoint below (l : list change) (b : Z) : Prop :=
  match l with
  | [] => True
  | c :: l' => c_rv c <= b /\ below l' (c_rv c - 1)
  end.

Lemma below_weaken : forall l b b', below l b -> b <= b' -> below l b'.
Proof. destruct l as [| c l]; cbn; intros b b' H Hb; [exact I | destruct H; split; [lia | assumption]]. Qed.

Lemma below_In : forall l b c, below l b -> In c l -> c_rv c <= b.
Proof.
  induction l as [| a l IH]; intros b c H Hc; cbn in *; [contradiction |].
  destruct H as [Ha Hl]. destruct Hc as [<- | Hc]; [assumption |].
  specialize (IH _ _ Hl Hc). lia.
Qed.

Lemma next_after_spec : forall l b v, below l b ->
  match next_after l v with
  | Some c => In c l /\ v < c_rv c /\
              forall c', In c' l -> v < c_rv c' -> c_rv c <= c_rv c' /\ (c_rv c' = c_rv c -> c' = c)
  | None => forall c', In c' l -> c_rv c' <= v
  end.
Proof.
  induction l as [| a l IH]; intros b v H; cbn in *.
  - intros c' [].
  - destruct H as [Ha Hl]. specialize (IH _ v Hl).
    destruct (next_after l v) as [d |].
    + destruct IH as [Hd [Hvd Hmin]]. split; [right; assumption |]. split; [assumption |].
      intros c' [<- | Hc'] Hv.
      * pose proof (below_In _ _ _ Hl Hd). split; [lia | intros; lia].
      * apply Hmin; assumption.
    + destruct (Z.ltb v (c_rv a)) eqn:E.
      * apply Z.ltb_lt in E. split; [left; reflexivity |]. split; [assumption |].
        intros c' [<- | Hc'] Hv; [split; [lia | reflexivity] |]. specialize (IH _ Hc'). lia.
      * apply Z.ltb_ge in E. intros c' [<- | Hc']; [assumption | apply IH; assumption].
Qed.

(* "reached processing": the change was delivered as a stream line (lines that are accepted are
   yielded next: got_then_yield), or a later listing post-dates it *)
Definition covered (tr : list wlabel) (c : change) : Prop :=
  (exists v items, In (WC (LListOk (Some v) items)) tr /\ c_rv c <= v) \/
  In (WC (LLine (LnEv (c_typ c) (Some (c_rv c)) (c_name c)))) tr.

Lemma covered_mono : forall tr l c, covered tr c -> covered (tr ++ [l]) c.
Proof.
  intros tr l c [[v [items [H Hv]]] | H]; [left; exists v, items; split; [apply in_or_app; left |] | right; apply in_or_app; left]; assumption.
Qed.

Definition streaming (p : phase) (rv : option Z) : Prop :=
  p = POpen rv \/ (exists k, p = PWatchWait rv k) \/ (exists y, p = PGot rv y).

Definition winv (tr : list wlabel) (w : world) : Prop :=
  below (log (sv w)) (cur (sv w)) /\
  (forall orv, position (ph (cl w)) = Some orv ->
     exists rv, orv = Some rv /\ rv <= cur (sv w) /\
                forall ch, In ch (log (sv w)) -> c_rv ch <= rv -> covered tr ch) /\
  (forall rv, streaming (ph (cl w)) rv -> exists v, rv = Some v /\ cursor (sv w) = Some v).

Lemma winv_init : forall pa v, winv [] (winit pa v).
Proof.
  intros pa v; unfold winv, winit, streaming; cbn. split; [exact I |]. split.
  - intros orv H; discriminate.
  - intros rv [H | [[k H] | [y H]]]; discriminate.
Qed.

(* ---- how a client step moves the position ---- *)
Lemma cstep_position : forall n s l s' orv', cstep n s l = Some s' -> position (ph s') = Some orv' ->
  (exists items, l = LListOk orv' items) \/
  (exists t o nm rv, l = LLine (LnEv t o nm) /\ ph s = POpen rv /\ orv' = adv rv o) \/
  position (ph s) = Some orv'.
Proof.
  intros n [p pa st] l s' orv' Hs Hp. unfold cstep in Hs; cbn [ph paused stopper] in Hs.
  revert Hp.
  destruct l; destruct p; cbn in Hs; crack; cbn [ph position mk]; intros Hp;
    try discriminate; try (right; right; exact Hp).
  all: try (injection Hp as <-).
  all: try (left; eexists; reflexivity).
  all: try (right; left; do 4 eexists; repeat split; reflexivity).
  all: try (destruct f; cbn in Hp; try discriminate; right; right; exact Hp).
  all: try (right; right; reflexivity).
  all: try (destruct st; cbn in Hp; injection Hp as <-; right; right; reflexivity).
Qed.

Lemma cstep_streaming : forall n s l s' rv', cstep n s l = Some s' -> streaming (ph s') rv' ->
  (exists since, l = LReqWatch since /\ since = rv' /\ position (ph s) = Some rv') \/
  (exists t o nm rv, l = LLine (LnEv t o nm) /\ ph s = POpen rv /\ rv' = adv rv o) \/
  (streaming (ph s) rv' /\ (forall since, l <> LReqWatch since) /\ (forall t o nm, l <> LLine (LnEv t o nm))).
Proof.
  intros n [p pa st] l s' rv' Hs Hp. unfold cstep in Hs; cbn [ph paused stopper] in Hs.
  unfold streaming in *. revert Hp.
  destruct l; destruct p; cbn in Hs; crack; cbn [ph mk]; intros Hp;
    try (destruct Hp as [Hp | [[? Hp] | [? Hp]]]; discriminate).
  all: try (right; right; split; [exact Hp | split; intros; discriminate]).
  all: try (destruct f; cbn in Hp; destruct Hp as [Hp | [[? Hp] | [? Hp]]]; discriminate).
  all: try (left; eexists; split; [reflexivity |];
            destruct Hp as [Hp | [[? Hp] | [? Hp]]]; try discriminate; injection Hp as <- <-;
            apply orv_eqb_eq in Heqb0 || apply orv_eqb_eq in Heqb; subst; split; reflexivity).
  all: try (right; left; destruct Hp as [Hp | [[? Hp] | [? Hp]]]; try discriminate; injection Hp as <- <-;
            do 4 eexists; repeat split; reflexivity).
  all: try (right; right; split; [| split; intros; discriminate];
            destruct Hp as [Hp | [[? Hp] | [? Hp]]]; try discriminate;
            try (destruct st; discriminate);
            try (injection Hp as <-); try (injection Hp as <- <-);
            eauto).
  all: try (destruct st; try discriminate; injection Hp as <-; right; left; eexists; reflexivity).
Qed.

(* ---- the server never rewrites its log on client labels ---- *)
Lemma sstep_log : forall s l s', sstep s l = Some s' -> log s' = log s /\ cur s' = cur s.
Proof.
  intros s l s' H. unfold sstep in H. destruct l; crack; cbn; split; reflexivity.
Qed.

Lemma sstep_cursor_same : forall s l s', sstep s l = Some s' ->
  (forall since, l <> LReqWatch since) -> (forall t o nm, l <> LLine (LnEv t o nm)) -> cursor s' = cursor s.
Proof.
  intros s l s' H H1 H2. unfold sstep in H. destruct l; crack; cbn; try reflexivity.
  all: try (exfalso; eapply H1; reflexivity).
  all: try (exfalso; eapply H2; reflexivity).
Qed.

Lemma winv_step : forall n tr w l w', winv tr w -> wstep n w l = Some w' -> winv (tr ++ [l]) w'.
Proof.
  intros n tr [c s] l w' [Hb [Hpos Hstr]] Hw. cbn [cl sv] in *.
  destruct l as [l | t nm | |]; cbn in Hw.
  - (* a client label *)
    destruct (cstep n c l) as [c' |] eqn:Ec; [| discriminate].
    destruct (sstep s l) as [s' |] eqn:Es; [| discriminate]. injection Hw as <-. unfold winv; cbn [cl sv].
    destruct (sstep_log _ _ _ Es) as [Hlog Hcur].
    split; [rewrite Hlog, Hcur; assumption |]. split.
    + (* position *)
      intros orv' Hp'. destruct (cstep_position _ _ _ _ _ Ec Hp') as [[items ->] | [[t [o [nm [rv [-> [Hph ->]]]]]] | Hsame]].
      * (* a listing: everything up to now is post-dated by it *)
        cbn in Es. destruct orv' as [v |]; [| discriminate].
        destruct (Z.eqb v (cur s) && items_same items (snapshot_of (log s) [])) eqn:E; [| discriminate].
        injection Es as <-. apply andb_true_iff in E. destruct E as [E _]. apply Z.eqb_eq in E. subst v.
        exists (cur s). split; [reflexivity |]. split; [lia |].
        intros ch Hch Hle. left. exists (cur s), items. split; [apply in_or_app; right; left; reflexivity | assumption].
      * (* an event or bookmark line *)
        destruct (Hstr rv (or_introl Hph)) as [cu [-> Hcu]].
        destruct (Hpos (Some cu)) as [rv0 [Erv0 [Hle0 Hcov0]]]; [rewrite Hph; reflexivity |].
        injection Erv0 as <-.
        cbn in Es. rewrite Hcu in Es. destruct o as [v |]; [| discriminate]. cbn [adv].
        pose proof (next_after_spec _ _ cu Hb) as Hna.
        destruct t.
        -- (* ADDED *)
           destruct (next_after (log s) cu) as [d |]; [| discriminate].
           destruct (Z.eqb (c_rv d) v && etype_eqb (c_typ d) TAdded && String.eqb (c_name d) nm) eqn:E; [| discriminate].
           injection Es as <-. cbn [log cur].
           apply andb_true_iff in E. destruct E as [E E3]. apply andb_true_iff in E. destruct E as [E1 E2].
           apply Z.eqb_eq in E1. apply etype_eqb_eq in E2. apply String.eqb_eq in E3.
           destruct Hna as [Hd [Hlt Hmin]].
           exists v. split; [reflexivity |]. split; [pose proof (below_In _ _ _ Hb Hd); lia |].
           intros ch Hch Hle. destruct (Z_le_gt_dec (c_rv ch) cu) as [Hold | Hnew].
           ++ apply covered_mono. apply Hcov0; assumption.
           ++ destruct (Hmin ch Hch ltac:(lia)) as [Hge Heq]. assert (ch = d) by (apply Heq; lia). subst ch.
              right. apply in_or_app; right; left. rewrite E1, E2, E3. reflexivity.
        -- (* MODIFIED *)
           destruct (next_after (log s) cu) as [d |]; [| discriminate].
           destruct (Z.eqb (c_rv d) v && etype_eqb (c_typ d) TModified && String.eqb (c_name d) nm) eqn:E; [| discriminate].
           injection Es as <-. cbn [log cur].
           apply andb_true_iff in E. destruct E as [E E3]. apply andb_true_iff in E. destruct E as [E1 E2].
           apply Z.eqb_eq in E1. apply etype_eqb_eq in E2. apply String.eqb_eq in E3.
           destruct Hna as [Hd [Hlt Hmin]].
           exists v. split; [reflexivity |]. split; [pose proof (below_In _ _ _ Hb Hd); lia |].
           intros ch Hch Hle. destruct (Z_le_gt_dec (c_rv ch) cu) as [Hold | Hnew].
           ++ apply covered_mono. apply Hcov0; assumption.
           ++ destruct (Hmin ch Hch ltac:(lia)) as [Hge Heq]. assert (ch = d) by (apply Heq; lia). subst ch.
              right. apply in_or_app; right; left. rewrite E1, E2, E3. reflexivity.
        -- (* DELETED *)
           destruct (next_after (log s) cu) as [d |]; [| discriminate].
           destruct (Z.eqb (c_rv d) v && etype_eqb (c_typ d) TDeleted && String.eqb (c_name d) nm) eqn:E; [| discriminate].
           injection Es as <-. cbn [log cur].
           apply andb_true_iff in E. destruct E as [E E3]. apply andb_true_iff in E. destruct E as [E1 E2].
           apply Z.eqb_eq in E1. apply etype_eqb_eq in E2. apply String.eqb_eq in E3.
           destruct Hna as [Hd [Hlt Hmin]].
           exists v. split; [reflexivity |]. split; [pose proof (below_In _ _ _ Hb Hd); lia |].
           intros ch Hch Hle. destruct (Z_le_gt_dec (c_rv ch) cu) as [Hold | Hnew].
           ++ apply covered_mono. apply Hcov0; assumption.
           ++ destruct (Hmin ch Hch ltac:(lia)) as [Hge Heq]. assert (ch = d) by (apply Heq; lia). subst ch.
              right. apply in_or_app; right; left. rewrite E1, E2, E3. reflexivity.
        -- (* BOOKMARK: nothing lies between the cursor and it *)
           destruct (Z.leb cu v && Z.leb v (cur s) &&
                     match next_after (log s) cu with Some c0 => Z.ltb v (c_rv c0) | None => true end) eqn:E; [| discriminate].
           injection Es as <-. cbn [log cur].
           apply andb_true_iff in E. destruct E as [E E3]. apply andb_true_iff in E. destruct E as [E1 E2].
           apply Z.leb_le in E1. apply Z.leb_le in E2.
           exists v. split; [reflexivity |]. split; [assumption |].
           intros ch Hch Hle. apply covered_mono. apply Hcov0; [assumption |].
           destruct (next_after (log s) cu) as [d |].
           ++ apply Z.ltb_lt in E3. destruct Hna as [Hd [Hlt Hmin]].
              destruct (Z_le_gt_dec (c_rv ch) cu) as [Hold | Hnew]; [assumption |].
              destruct (Hmin ch Hch ltac:(lia)) as [Hge _]. lia.
           ++ apply Hna; assumption.
      * (* the position did not move *)
        destruct (Hpos _ Hsame) as [rv [-> [Hle Hcov]]]. exists rv. split; [reflexivity |].
        rewrite Hlog, Hcur. split; [assumption |].
        intros ch Hch Hc. apply covered_mono. apply Hcov; assumption.
    + (* the open stream's cursor is the client's position *)
      intros rv' Hst'. destruct (cstep_streaming _ _ _ _ _ Ec Hst') as [[since [-> [-> Hp]]] | [[t [o [nm [rv [-> [Hph ->]]]]]] | [Hsame [Hn1 Hn2]]]].
      * destruct (Hpos _ Hp) as [v [-> _]]. cbn in Es. injection Es as <-. exists v. split; reflexivity.
      * destruct (Hstr rv (or_introl Hph)) as [cu [-> Hcu]].
        cbn in Es. rewrite Hcu in Es. destruct o as [v |]; [| discriminate]. cbn [adv].
        exists v. split; [reflexivity |].
        destruct t; crack; reflexivity.
      * destruct (Hstr _ Hsame) as [v [-> Hc]]. exists v. split; [reflexivity |].
        rewrite (sstep_cursor_same _ _ _ Es Hn1 Hn2). assumption.
  - (* an object change: a new, larger version *)
    destruct t; try discriminate; injection Hw as <-; unfold winv; cbn [cl sv log cur cursor];
      (split; [cbn; split; [lia | replace (cur s + 1 - 1) with (cur s) by lia; assumption] |]);
      (split; [| intros rv H; apply Hstr; assumption]);
      intros orv Hp; destruct (Hpos _ Hp) as [rv [-> [Hle Hcov]]]; exists rv; (split; [reflexivity |]); (split; [lia |]);
      intros ch [<- | Hch] Hc; cbn in Hc; try lia; apply covered_mono; apply Hcov; assumption.
  - (* the version counter ticks *)
    injection Hw as <-; unfold winv; cbn [cl sv log cur cursor].
    split; [eapply below_weaken; [eassumption | lia] |]. split; [| intros rv H; apply Hstr; assumption].
    intros orv Hp; destruct (Hpos _ Hp) as [rv [-> [Hle Hcov]]]; exists rv; split; [reflexivity |]; split; [lia |].
    intros ch Hch Hc. apply covered_mono. apply Hcov; assumption.
  - (* compaction *)
    injection Hw as <-; unfold winv; cbn [cl sv log cur cursor].
    split; [assumption |]. split; [| intros rv H; apply Hstr; assumption].
    intros orv Hp; destruct (Hpos _ Hp) as [rv [-> [Hle Hcov]]]; exists rv; split; [reflexivity |]; split; [lia |].
    intros ch Hch Hc. apply covered_mono. apply Hcov; assumption.
Qed.

Lemma winv_run : forall n tr2 tr1 w w', winv tr1 w -> wrun n w tr2 = Some w' -> winv (tr1 ++ tr2) w'.
Proof.
  induction tr2 as [| l tr2 IH]; intros tr1 w w' Hi Hr; cbn in Hr.
  - injection Hr as <-. rewrite app_nil_r. assumption.
  - destruct (wstep n w l) as [w1 |] eqn:E; [| discriminate].
    replace (tr1 ++ l :: tr2) with ((tr1 ++ [l]) ++ tr2) by (rewrite <- app_assoc; reflexivity).
    eapply IH; [| eassumption]. eapply winv_step; eassumption.
Qed.

(* Wherever the client stands (the version it would resume from), every change the server made up
   to that version was delivered on a stream or is post-dated by a listing: nothing is skipped. *)
Theorem no_change_skipped : forall n pa v0 tr w rv,
  wrun n (winit pa v0) tr = Some w ->
  position (ph (cl w)) = Some rv ->
  exists v, rv = Some v /\ v <= cur (sv w) /\
            forall ch, In ch (log (sv w)) -> c_rv ch <= v -> covered tr ch.
Proof.
  intros n pa v0 tr w rv Hr Hp.
  pose proof (winv_run n tr [] _ _ (winv_init pa v0) Hr) as [_ [H _]]. cbn in H.
  destruct (H _ Hp) as [v [-> [Hle Hc]]]. exists v. auto.
Qed.

(* the version a watch is (re)started from never exceeds what the server has, and everything up
   to it is covered: the `since` of every accepted watch request skips nothing *)
Theorem watch_request_skips_nothing : forall n pa v0 tr w since w',
  wrun n (winit pa v0) tr = Some w -> wstep n w (WC (LReqWatch since)) = Some w' ->
  exists v, since = Some v /\ v <= cur (sv w) /\
            forall ch, In ch (log (sv w)) -> c_rv ch <= v -> covered tr ch.
Proof.
  intros n pa v0 tr w since w' Hr Hs. unfold wstep in Hs.
  destruct (cstep n (cl w) (LReqWatch since)) eqn:E; [| discriminate].
  eapply no_change_skipped; [eassumption |]. eapply watch_since_is_position; eassumption.
Qed.

(* the client half of a world run is a client run *)
Fixpoint client_labels (tr : list wlabel) : list label :=
  match tr with
  | [] => []
  | WC l :: tr' => l :: client_labels tr'
  | _ :: tr' => client_labels tr'
  end.

Lemma wrun_client : forall n tr w w', wrun n w tr = Some w' -> crun n (cl w) (client_labels tr) = Some (cl w').
Proof.
  induction tr as [| l tr IH]; intros w w' H; cbn in H.
  - injection H as <-. reflexivity.
  - destruct (wstep n w l) as [w1 |] eqn:E; [| discriminate]. specialize (IH _ _ H).
    destruct l as [l | t nm | |]; cbn in E |- *.
    + destruct (cstep n (cl w) l) eqn:Ec; [| discriminate]. destruct (sstep (sv w) l); [| discriminate].
      injection E as <-. cbn in IH. exact IH.
    + destruct t; cbn in E; try discriminate; injection E as <-; exact IH.
    + injection E as <-; exact IH.
    + injection E as <-; exact IH.
Qed.

(* ---------- progress: from a quiet, un-paused state the fault-free schedule catches up ---------- *)

Definition yield_items (items : list item) : list wlabel :=
  map (fun it => WC (LYield (YItem (fst it) (snd it)))) items.

(* LIST now: the listing post-dates every change *)
Definition relist (s : server) : list wlabel :=
  let items := snapshot_of (log s) [] in
  WC LReqList :: WC (LListOk (Some (cur s)) items) :: yield_items items ++ [WC (LYield YListed)].

Lemma items_same_refl : forall l, items_same l l = true.
Proof.
  intros l. unfold items_same. rewrite Nat.eqb_refl, andb_true_r.
  assert (H : forallb (fun x => mem_item x l) l = true).
  { apply forallb_forall. intros x Hx. induction l as [| a l IH]; [contradiction |]. cbn.
    destruct Hx as [<- | Hx].
    - unfold item_eqb. rewrite String.eqb_refl. assert (E : orv_eqb (snd a) (snd a) = true) by (apply orv_eqb_eq; reflexivity).
      rewrite E. reflexivity.
    - rewrite (IH Hx). apply orb_true_r. }
  rewrite H. reflexivity.
Qed.

Lemma run_yield_items : forall n items rv pa st s,
  wrun n {| cl := mk (PItems rv items) pa st; sv := s |} (yield_items items ++ [WC (LYield YListed)]) =
  Some {| cl := mk (PLoop rv) pa st; sv := s |}.
Proof.
  induction items as [| [nm v] items IH]; intros rv pa st s; cbn.
  - reflexivity.
  - rewrite String.eqb_refl. assert (E : orv_eqb v v = true) by (apply orv_eqb_eq; reflexivity). rewrite E. cbn.
    apply IH.
Qed.

(* from an idle, un-paused client a fresh listing brings it to the server's current version, and
   then every change in the log is covered *)
Theorem relist_catches_up : forall n pa v0 tr w,
  wrun n (winit pa v0) tr = Some w -> ph (cl w) = PIdle -> paused (cl w) = false ->
  exists w', wrun n w (relist (sv w)) = Some w' /\
             ph (cl w') = PLoop (Some (cur (sv w))) /\ sv w' = sv w /\
             forall ch, In ch (log (sv w')) -> covered (tr ++ relist (sv w)) ch.
Proof.
  intros n pa v0 tr [[p pau st] s] Hr Hp Hpa. cbn in Hp, Hpa. subst p pau.
  eexists. split.
  - unfold relist. cbn [wrun wstep cl sv cstep ph paused stopper mk sstep].
    cbn. rewrite Z.eqb_refl, items_same_refl. cbn. apply run_yield_items.
  - cbn. split; [reflexivity |]. split; [reflexivity |].
    intros ch Hch. left. exists (cur s), (snapshot_of (log s) []). split.
    + apply in_or_app; right. unfold relist. right; left; reflexivity.
    + pose proof (winv_run n tr [] _ _ (winv_init pa v0) Hr) as [Hb _]. cbn in Hb.
      eapply below_In; eassumption.
Qed.

(* a concrete faulty run that the acceptor takes (non-vacuity of the hypotheses above) *)
Lemma accepted_run :
  exists w, wrun 1 (winit false 100)
    [WChange TAdded "a"; WC LReqList; WC (LListOk (Some 101) [("a"%string, Some 101)]);
     WC (LYield (YItem "a" (Some 101))); WC (LYield YListed); WC (LReqWatch (Some 101)); WC LWatchOk;
     WChange TModified "a"; WC (LLine (LnEv TModified (Some 102) "a")); WC (LYield (YEv TModified (Some 102) "a"));
     WC (LEnd EConn); WC (LReqWatch (Some 102)); WC (LFault F5xx); WChange TDeleted "a"; WC (LReqWatch (Some 102)); WC LWatchOk;
     WC (LLine (LnEv TDeleted (Some 103) "a")); WC (LYield (YEv TDeleted (Some 103) "a"));
     WC LPause; WC (LEnd EClosed); WChange TAdded "b"; WC LResume; WC LReqList; WC (LListOk (Some 104) [("b"%string, Some 104)]);
     WC (LYield (YItem "b" (Some 104))); WC (LYield YListed); WC (LReqWatch (Some 104)); WC LWatchOk;
     WC (LLine (LnErr 410)); WC LReqList]%string = Some w
  /\ ph (cl w) = PListWait 0.
Proof. eexists; split; vm_compute; reflexivity. Qed.

(* ---------- progress on an open stream: the server's pending changes, delivered in order, are all
   accepted and yielded, and then nothing is left above the client's position ---------- *)

Definition no_bm (l : list change) : Prop := forall c, In c l -> c_typ c <> TBookmark.

Lemma no_bm_step : forall n w l w', no_bm (log (sv w)) -> wstep n w l = Some w' -> no_bm (log (sv w')).
Proof.
  intros n [c s] l w' H Hw. destruct l as [l | t nm | |]; cbn in Hw.
  - destruct (cstep n c l); [| discriminate]. destruct (sstep s l) eqn:Es; [| discriminate].
    injection Hw as <-. cbn. destruct (sstep_log _ _ _ Es) as [-> _]. exact H.
  - destruct t; try discriminate; injection Hw as <-; cbn; intros ch [<- | Hc]; cbn; try discriminate; apply H; assumption.
  - injection Hw as <-. exact H.
  - injection Hw as <-. exact H.
Qed.

Lemma no_bm_run : forall n tr w w', no_bm (log (sv w)) -> wrun n w tr = Some w' -> no_bm (log (sv w')).
Proof.
  induction tr as [| l tr IH]; intros w w' H Hr; cbn in Hr.
  - injection Hr as <-; exact H.
  - destruct (wstep n w l) eqn:E; [| discriminate]. eapply IH; [| eassumption]. eapply no_bm_step; eassumption.
Qed.

Fixpoint count_above (l : list change) (v : Z) : nat :=
  match l with [] => O | c :: l' => (if Z.ltb v (c_rv c) then 1 else 0) + count_above l' v end.

Lemma count_above_mono : forall l v v', v <= v' -> (count_above l v' <= count_above l v)%nat.
Proof.
  induction l as [| c l IH]; intros v v' H; cbn; [lia |].
  specialize (IH _ _ H). destruct (Z.ltb v' (c_rv c)) eqn:E1; destruct (Z.ltb v (c_rv c)) eqn:E2; try lia.
  all: try (apply Z.ltb_lt in E1; apply Z.ltb_ge in E2; lia).
Qed.

Lemma count_above_drop : forall l v c, In c l -> v < c_rv c -> (count_above l (c_rv c) < count_above l v)%nat.
Proof.
  induction l as [| a l IH]; intros v c Hc Hv; cbn; [contradiction |].
  destruct Hc as [<- | Hc].
  - rewrite Z.ltb_irrefl. assert (E : Z.ltb v (c_rv a) = true) by (apply Z.ltb_lt; assumption). rewrite E.
    pose proof (count_above_mono l v (c_rv a) ltac:(lia)). lia.
  - specialize (IH _ _ Hc Hv).
    destruct (Z.ltb (c_rv c) (c_rv a)) eqn:E1; destruct (Z.ltb v (c_rv a)) eqn:E2; try lia.
    all: try (apply Z.ltb_lt in E1; apply Z.ltb_ge in E2; lia).
Qed.

Fixpoint drain (fuel : nat) (l : list change) (v : Z) : list change :=
  match fuel with
  | O => []
  | S f => match next_after l v with Some c => c :: drain f l (c_rv c) | None => [] end
  end.

Definition deliver (cs : list change) : list wlabel :=
  flat_map (fun c => [WC (LLine (LnEv (c_typ c) (Some (c_rv c)) (c_name c)));
                      WC (LYield (YEv (c_typ c) (Some (c_rv c)) (c_name c)))]) cs.

Lemma drain_run : forall n fuel l cu ho b v pa, below l b -> no_bm l -> (count_above l v <= fuel)%nat ->
  exists v', wrun n {| cl := mk (POpen (Some v)) pa false; sv := {| log := l; cur := cu; horizon := ho; cursor := Some v |} |}
                    (deliver (drain fuel l v))
             = Some {| cl := mk (POpen (Some v')) pa false; sv := {| log := l; cur := cu; horizon := ho; cursor := Some v' |} |}
             /\ next_after l v' = None /\ v <= v'.
Proof.
  induction fuel as [| f IH]; intros l cu ho b v pa Hb Hnb Hc.
  - exists v. cbn. split; [reflexivity |]. split; [| lia].
    pose proof (next_after_spec l b v Hb) as Hs. destruct (next_after l v) as [c |]; [| reflexivity].
    destruct Hs as [Hin [Hlt _]]. pose proof (count_above_drop l v c Hin Hlt). lia.
  - cbn [drain]. pose proof (next_after_spec l b v Hb) as Hs. destruct (next_after l v) as [c |] eqn:En.
    + destruct Hs as [Hin [Hlt _]].
      assert (Hc' : (count_above l (c_rv c) <= f)%nat) by (pose proof (count_above_drop l v c Hin Hlt); lia).
      destruct (IH l cu ho b (c_rv c) pa Hb Hnb Hc') as [v' [Hrun [Hnone Hle]]].
      exists v'. split; [| split; [assumption | lia]].
      cbn [deliver flat_map app]. fold (deliver (drain f l (c_rv c))).
      assert (Hstep1 : wstep n {| cl := mk (POpen (Some v)) pa false; sv := {| log := l; cur := cu; horizon := ho; cursor := Some v |} |}
                          (WC (LLine (LnEv (c_typ c) (Some (c_rv c)) (c_name c))))
               = Some {| cl := mk (PGot (Some (c_rv c)) (YEv (c_typ c) (Some (c_rv c)) (c_name c))) pa false;
                         sv := {| log := l; cur := cu; horizon := ho; cursor := Some (c_rv c) |} |}).
      { unfold wstep. cbn [cl sv]. unfold cstep; cbn [ph paused stopper mk adv]. unfold sstep; cbn [cursor log cur horizon].
        rewrite En. rewrite Z.eqb_refl, String.eqb_refl.
        assert (E : etype_eqb (c_typ c) (c_typ c) = true) by (apply etype_eqb_eq; reflexivity). rewrite E. cbn.
        specialize (Hnb c Hin). destruct (c_typ c); try reflexivity. contradiction. }
      assert (Hstep2 : wstep n {| cl := mk (PGot (Some (c_rv c)) (YEv (c_typ c) (Some (c_rv c)) (c_name c))) pa false;
                                  sv := {| log := l; cur := cu; horizon := ho; cursor := Some (c_rv c) |} |}
                          (WC (LYield (YEv (c_typ c) (Some (c_rv c)) (c_name c))))
               = Some {| cl := mk (POpen (Some (c_rv c))) pa false;
                         sv := {| log := l; cur := cu; horizon := ho; cursor := Some (c_rv c) |} |}).
      { unfold wstep. cbn [cl sv]. unfold cstep; cbn [ph paused stopper mk]. cbn [sstep].
        assert (E : etype_eqb (c_typ c) (c_typ c) = true) by (apply etype_eqb_eq; reflexivity). rewrite E.
        rewrite String.eqb_refl. cbn. rewrite Z.eqb_refl. reflexivity. }
      cbn [wrun]. rewrite Hstep1. cbn [wrun]. rewrite Hstep2. exact Hrun.
    + exists v. cbn. split; [reflexivity |]. split; [assumption | lia].
Qed.

(* On an open, un-paused stream the schedule "the server sends what it has, in order" is accepted to the
   end, every line is yielded, and afterwards no change of the log lies above the client's position:
   together with no_change_skipped, every change the server made has reached the consumer. *)
Theorem stream_catches_up : forall n pa v0 tr w rv,
  wrun n (winit pa v0) tr = Some w -> ph (cl w) = POpen rv -> stopper (cl w) = false ->
  exists v tr' w' v', rv = Some v /\
    wrun n w tr' = Some w' /\ ph (cl w') = POpen (Some v') /\ log (sv w') = log (sv w) /\
    (forall ch, In ch (log (sv w')) -> c_rv ch <= v') /\
    (forall ch, In ch (log (sv w')) -> covered (tr ++ tr') ch).
Proof.
  intros n pa v0 tr [[p pau st] [l cu ho cs]] rv Hr Hp Hst. cbn in Hp, Hst. subst p st.
  pose proof (winv_run n tr [] _ _ (winv_init pa v0) Hr) as [Hb [_ Hstr]]. cbn in Hb, Hstr.
  destruct (Hstr rv (or_introl eq_refl)) as [v [-> Hcs]]. cbn in Hcs. subst cs.
  assert (Hnb : no_bm l).
  { pose proof (no_bm_run n tr _ _ (fun c (H : In c (log (sv (winit pa v0)))) => match H with end) Hr) as H. exact H. }
  destruct (drain_run n (List.length l) l cu ho cu v pau Hb Hnb) as [v' [Hrun [Hnone Hle]]].
  { clear. induction l as [| c l IH]; cbn; [lia |]. destruct (Z.ltb v (c_rv c)); lia. }
  exists v, (deliver (drain (List.length l) l v)). eexists. exists v'.
  split; [reflexivity |]. split; [exact Hrun |]. cbn [cl sv ph log mk]. split; [reflexivity |]. split; [reflexivity |].
  assert (Hall : forall ch, In ch l -> c_rv ch <= v').
  { pose proof (next_after_spec l cu v' Hb) as Hs. rewrite Hnone in Hs. exact Hs. }
  split; [exact Hall |].
  intros ch Hch.
  assert (Hr2 : wrun n (winit pa v0) (tr ++ deliver (drain (List.length l) l v)) =
                Some {| cl := mk (POpen (Some v')) pau false; sv := {| log := l; cur := cu; horizon := ho; cursor := Some v' |} |}).
  { clear - Hr Hrun. revert Hr Hrun. generalize (winit pa v0). induction tr as [| a tr IH]; intros w0 Hr Hrun; cbn in *.
    - injection Hr as ->. exact Hrun.
    - destruct (wstep n w0 a); [| discriminate]. apply IH; assumption. }
  destruct (no_change_skipped n pa v0 _ _ (Some v') Hr2 eq_refl) as [v2 [E [_ Hcov]]]. injection E as <-.
  apply Hcov; [exact Hch | apply Hall; exact Hch].
Qed.
