(* Non-vacuity: for every implication of Props/C10.v a concrete, non-trivial run of the model on which its
   hypotheses hold (so none of the theorems is true for lack of instances).  All by computation. *)
From Coq Require Import ZArith List Bool Lia.
From KV Require Import Model.Timer Proofs.Timer.
Import ListNotations.
Open Scope Z_scope.

Ltac comp := repeat apply conj; try (vm_compute; reflexivity); try (vm_compute; discriminate).

(* R1: interval 1 s, idle 2 s, initial delay 3 s, backoff 0.25 s; changes at 0.5 s and 4 s; stop at 30 s.
   cycles: (3000,3250,3375 ok) (6000,7500,7500 temp 500) (8000,8000,8000 arb) (8250,9250,9250 ok) (10250 ok) *)
Definition R1 := timer_cycles 50 ex_cfg_interval ex_env 0 ex_script.
(* R2: sharp, interval 1 s; durations 250, 1500 (longer than the interval), 1000 (equal), 0 *)
Definition R2 := timer_cycles 50 ex_cfg_sharp wit_env_plain 0 ex_script_sharp.
(* R3: plain interval 1 s, no idle *)
Definition cfg_plain : cfg := mkcfg (Some 1000) false None None None None 60000 ETemporary.
Definition R3 := timer_cycles 50 cfg_plain wit_env_plain 0 ex_script_sharp.
(* R4: interval 1 s, idle 2 s; a LATE essential change at 1125, the very instant the second run starts *)
Definition cfg_idle : cfg := mkcfg (Some 1000) false (Some 2000) None None None 60000 ETemporary.
Definition env_late : env := mkenv (-10000) [] None 100000 [1125].
Definition R4 := timer_cycles 50 cfg_idle env_late 0 wit_script_quick_ok.

Example R4_run : map (fun y => (y_start y, y_pend y)) R4 = [(0, 125); (1125, 1250); (3125, 3250)].
Proof. vm_compute. reflexivity. Qed.

Example nv_no_overlap : exists yi yj, (0 < 3)%nat /\ nth_error R1 0 = Some yi /\ nth_error R1 3 = Some yj.
Proof. eexists. eexists. split; [lia|]. comp. Qed.

Example nv_after_success : exists y1 y2, nth_error R1 0 = Some y1 /\ nth_error R1 1 = Some y2 /\ y_done y1 = true /\
  c_interval ex_cfg_interval = Some 1000 /\ c_sharp ex_cfg_interval = false /\ y_pend y1 + 1000 < y_start y2.
Proof. eexists. eexists. comp. Qed.

Example nv_after_success_no_idle : exists y1 y2, nth_error R3 1 = Some y1 /\ nth_error R3 2 = Some y2 /\ y_done y1 = true /\
  c_interval cfg_plain = Some 1000 /\ c_sharp cfg_plain = false /\ c_idle cfg_plain = None.
Proof. eexists. eexists. comp. Qed.

Example nv_after_success_sharp : exists y1 y2, nth_error R2 1 = Some y1 /\ nth_error R2 2 = Some y2 /\ y_done y1 = true /\
  c_interval ex_cfg_sharp = Some 1000 /\ c_sharp ex_cfg_sharp = true /\ 0 < 1000 /\
  1000 < y_pend y1 - y_start y1.     (* the run took longer than the interval *)
Proof. eexists. eexists. comp. Qed.

Example nv_sharp_grid : c_interval ex_cfg_sharp = Some 1000 /\ c_sharp ex_cfg_sharp = true /\ c_idle ex_cfg_sharp = None /\
  (forall y, In y R2 -> y_done y = true) /\ exists y0 y, nth_error R2 0 = Some y0 /\ nth_error R2 3 = Some y.
Proof.
  repeat apply conj; try reflexivity.
  - vm_compute. intros y [<-|[<-|[<-|[<-|[]]]]]; reflexivity.
  - eexists. eexists. comp.
Qed.

Example nv_after_failure_exact : exists y1 y2, nth_error R1 1 = Some y1 /\ nth_error R1 2 = Some y2 /\
  y_inv y1 = true /\ y_done y1 = false /\ retry_delay ex_cfg_interval (e_out (y_en y1)) = Some 500.
Proof. eexists. eexists. comp. Qed.

Example nv_after_failure : exists y1 y2, nth_error R1 2 = Some y1 /\ nth_error R1 3 = Some y2 /\
  y_inv y1 = true /\ y_inv y2 = true /\ e_out (y_en y1) = OArb /\ c_errors ex_cfg_interval <> EIgnored /\
  retry_delay ex_cfg_interval (e_out (y_en y1)) = Some 250.
Proof. eexists. eexists. comp. Qed.

Example nv_no_run_after_final_failure : exists yi yj, (0 < 2)%nat /\
  nth_error (timer_cycles 10 wit_cfg_final_failure wit_env_plain 0 wit_script_final_failure) 0 = Some yi /\ y_failed yi = true /\
  nth_error (timer_cycles 10 wit_cfg_final_failure wit_env_plain 0 wit_script_final_failure) 2 = Some yj.
Proof. eexists. eexists. split; [lia|]. comp. Qed.

Example nv_initial_delay : c_initial ex_cfg_interval = Some 3000 /\ exists y, In y R1.
Proof. split; [reflexivity|]. eexists. vm_compute. left. reflexivity. Qed.

Example nv_first_run : exists y, nth_error R1 0 = Some y /\ y_inv y = true.
Proof. eexists. comp. Qed.

(* idle law: an early change at 4000 before the run at 6000; a late change at the start instant of a run (R4) *)
Example nv_idle_early : c_idle ex_cfg_interval = Some 2000 /\ exists y, In y R1 /\ In 4000 (v_resets ex_env) /\ 4000 <= y_start y.
Proof.
  split; [reflexivity|]. eexists. split; [|split].
  - vm_compute. right; left; reflexivity.
  - vm_compute. auto.
  - vm_compute. discriminate.
Qed.

Example nv_idle_late : c_idle cfg_idle = Some 2000 /\ exists y y', In y R4 /\ In 1125 (v_late env_late) /\ y_start y = 1125 /\
  In y' R4 /\ 1125 < y_start y'.
Proof.
  split; [reflexivity|]. eexists. eexists. split; [|split; [|split; [|split]]].
  - vm_compute. right; left; reflexivity.
  - vm_compute. auto.
  - reflexivity.
  - vm_compute. right; right; left; reflexivity.
  - reflexivity.
Qed.

Example nv_idle_only : exists y1 y2,
  nth_error (timer_cycles 50 ex_cfg_idle_only ex_env_idle_only 0 ex_script_sharp) 0 = Some y1 /\
  nth_error (timer_cycles 50 ex_cfg_idle_only ex_env_idle_only 0 ex_script_sharp) 1 = Some y2 /\ y_done y1 = true /\
  c_interval ex_cfg_idle_only = None /\ c_idle ex_cfg_idle_only = Some 2000.
Proof. eexists. eexists. comp. Qed.

Example nv_one_shot : exists y, c_interval ex_cfg_one_shot = None /\ c_idle ex_cfg_one_shot = None /\
  nth_error (timer_cycles 50 ex_cfg_one_shot wit_env_plain 0
      [mkentry 250 0 (OTemp (Some 500)); mkentry 0 0 OOk; mkentry 0 0 OOk]) 1 = Some y /\ y_done y = true.
Proof. eexists. comp. Qed.

Example nv_not_after_stop : v_stop ex_env = Some 30000 /\ exists y, In y R1.
Proof. split; [reflexivity|]. eexists. vm_compute. left. reflexivity. Qed.

Example nv_run_after_success : exists y1 y2, nth_error R1 0 = Some y1 /\ nth_error R1 1 = Some y2 /\
  y_done y1 = true /\ y_failed y1 = false /\ y_inv y2 = true.
Proof. eexists. eexists. comp. Qed.

(* a sleep that begins after the stopper was set (the function ran across the stop instant) *)
Definition env_stop_mid : env := mkenv 0 [] (Some 1125) 100000 [].
Example nv_no_suspension_after_stop :
  In (ESleep 2500 500 (Some 2500)) (fst (timer_run 50 ex_cfg_sharp env_stop_mid 0 [mkentry 2500 0 OOk; mkentry 0 0 OOk])) /\
  stopped env_stop_mid 2500 = true /\
  snd (timer_run 50 ex_cfg_sharp env_stop_mid 0 [mkentry 2500 0 OOk; mkentry 0 0 OOk]) = FStopped 2500.
Proof. split; [|split]; [vm_compute; right; left; reflexivity|reflexivity|vm_compute; reflexivity]. Qed.

Example nv_sleep_exact :
  In (ESleep 375 625 (Some 1000)) (fst (timer_run 50 ex_cfg_sharp wit_env_plain 0 ex_script_sharp)) /\ stopped wit_env_plain 1000 = false.
Proof. split; [vm_compute; right; left; reflexivity|reflexivity]. Qed.

(* progress / prefix: the run on a 2-entry script ends with FOut t; with one more entry the next cycle starts at t *)
Example nv_progress : snd (timer_run 50 cfg_plain wit_env_plain 0 [mkentry 250 125 OOk; mkentry 1500 0 OOk]) = FOut 3875 /\
  map y_start (timer_cycles 50 cfg_plain wit_env_plain 0 ([mkentry 250 125 OOk; mkentry 1500 0 OOk] ++ [mkentry 0 0 OOk])) = [0; 1375; 3875].
Proof. split; vm_compute; reflexivity. Qed.

Example nv_final_causes :
  snd (timer_run 50 ex_cfg_one_shot wit_env_plain 0 [mkentry 0 0 OOk; mkentry 0 0 OOk]) = FExited 0 /\
  snd (timer_run 50 (mkcfg (Some 0) true None None None None 0 ETemporary) wit_env_plain 0 [mkentry 0 0 OOk; mkentry 0 0 OOk]) = FCrash 0 /\
  snd (timer_run 50 (mkcfg None false (Some 0) None None None 0 ETemporary) wit_env_plain 0 [mkentry 125 0 OOk; mkentry 0 0 OOk]) = FStall 125.
Proof. repeat apply conj; vm_compute; reflexivity. Qed.

(* HandlerChildrenRetry (kopf.execute with unfinished sub-handlers): retried after its own delay, never final *)
Example nv_children_retry :
  map (fun y => (y_start y, y_done y)) (timer_cycles 50 (mkcfg (Some 1000) false None None (Some 1) (Some 100) 60000 ETemporary) wit_env_plain 0
      [mkentry 250 0 (OChild (Some 500)); mkentry 0 0 OOk]) = [(0, false); (750, true)].
Proof. vm_compute. reflexivity. Qed.

Example nv_run_made : (exists T, c_timeout wit_cfg_idle_timeout = Some T /\ 0 < T) /\ c_retries wit_cfg_idle_timeout = None /\
  exists y1 y2, nth_error (timer_cycles 10 wit_cfg_idle_timeout wit_env_idle_timeout 0 wit_script_quick_ok) 0 = Some y1 /\
                nth_error (timer_cycles 10 wit_cfg_idle_timeout wit_env_idle_timeout 0 wit_script_quick_ok) 1 = Some y2 /\
                y_done y1 = true /\ y_failed y1 = false /\ 1000 < y_start y2 - (y_pend y1 + 1000).   (* waited longer than the timeout *)
Proof. split; [exists 1000; split; [reflexivity|reflexivity]|]. split; [reflexivity|]. eexists. eexists. comp. Qed.

Example nv_idle_wait_fuel : (List.length (v_resets ex_env ++ v_late ex_env) + 2 <= 50)%nat.
Proof. vm_compute. lia. Qed.
