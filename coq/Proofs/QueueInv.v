(* Lemmas about Model/Queue.v: the invariant of the queueing LTS and what follows from it. *)
From Coq Require Import List Arith Bool Lia.
From KV Require Import Model.Queue.
Import ListNotations.

(* ---------- small facts ---------- *)
Notation cnt := (count_occ Nat.eq_dec).

Lemma phase_eqb_eq : forall a b, phase_eqb a b = true -> a = b.
Proof. destruct a, b; simpl; congruence. Qed.

Lemma phase_eqb_neq : forall a b, phase_eqb a b = false -> a <> b.
Proof. destruct a, b; simpl; congruence. Qed.

Lemma evs_app : forall a b, evs (a ++ b) = evs a ++ evs b.
Proof. induction a as [|[e|] a IH]; simpl; intros; rewrite ?IH; reflexivity. Qed.

Lemma evs_map_Ev : forall l, evs (map Ev l) = l.
Proof. induction l; simpl; congruence. Qed.

Lemma remove1_cnt_eq : forall u l l', remove1 u l = Some l' -> cnt l u = S (cnt l' u).
Proof.
  induction l as [|x l IH]; simpl; intros l' H; [discriminate|].
  destruct (Nat.eqb x u) eqn:E.
  - apply Nat.eqb_eq in E. injection H as <-. destruct (Nat.eq_dec x u); [reflexivity|contradiction].
  - apply Nat.eqb_neq in E. destruct (remove1 u l) eqn:R; [|discriminate]. injection H as <-.
    simpl. destruct (Nat.eq_dec x u); [contradiction|]. apply IH. reflexivity.
Qed.

Lemma remove1_cnt_neq : forall u v l l', remove1 u l = Some l' -> v <> u -> cnt l' v = cnt l v.
Proof.
  induction l as [|x l IH]; simpl; intros l' H N; [discriminate|].
  destruct (Nat.eqb x u) eqn:E.
  - apply Nat.eqb_eq in E. injection H as <-. destruct (Nat.eq_dec x v); [congruence|reflexivity].
  - destruct (remove1 u l) eqn:R; [|discriminate]. injection H as <-.
    simpl. destruct (Nat.eq_dec x v); rewrite (IH l0); auto.
Qed.

Lemma remove1_length : forall u l l', remove1 u l = Some l' -> List.length l = S (List.length l').
Proof.
  induction l as [|x l IH]; simpl; intros l' H; [discriminate|].
  destruct (Nat.eqb x u).
  - injection H as <-. reflexivity.
  - destruct (remove1 u l) eqn:R; [|discriminate]. injection H as <-. simpl. rewrite (IH l0); auto.
Qed.

Lemma remove1_some : forall u l, cnt l u > 0 -> exists l', remove1 u l = Some l'.
Proof.
  induction l as [|x l IH]; simpl; intros H; [lia|].
  destruct (Nat.eqb x u) eqn:E; [eauto|].
  apply Nat.eqb_neq in E. destruct (Nat.eq_dec x u); [contradiction|].
  destruct (IH H) as [l' ->]. eauto.
Qed.

Lemma remove1_single : forall e l r, remove1 e l = Some r -> List.length l <= 1 -> l = [e] /\ r = [].
Proof.
  intros e [|x [|y l]] r H L; simpl in *; try discriminate; try lia.
  destruct (Nat.eqb x e) eqn:E; [|discriminate].
  apply Nat.eqb_eq in E. injection H as <-. subst. auto.
Qed.

Lemma cnt_app1 : forall l u v, cnt (l ++ [u]) v = cnt l v + (if Nat.eq_dec u v then 1 else 0).
Proof. intros. rewrite count_occ_app. simpl. destruct (Nat.eq_dec u v); reflexivity. Qed.

Lemma cnt_app1_eq : forall l u, cnt (l ++ [u]) u = S (cnt l u).
Proof. intros. rewrite cnt_app1. destruct (Nat.eq_dec u u); [lia|contradiction]. Qed.

Lemma cnt_app1_neq : forall l u v, v <> u -> cnt (l ++ [u]) v = cnt l v.
Proof. intros. rewrite cnt_app1. destruct (Nat.eq_dec u v); [congruence|lia]. Qed.

Lemma cnt_cons_eq : forall l u, cnt (u :: l) u = S (cnt l u).
Proof. intros. simpl. destruct (Nat.eq_dec u u); [reflexivity|contradiction]. Qed.

Lemma cnt_cons_neq : forall l u v, v <> u -> cnt (u :: l) v = cnt l v.
Proof. intros. simpl. destruct (Nat.eq_dec u v); [congruence|reflexivity]. Qed.

Lemma cnt_nil_all : forall l, l = [] -> forall v, cnt l v = 0.
Proof. intros; subst; reflexivity. Qed.

(* ---------- EOS discipline of a backlog ---------- *)
Definition draining (p : phase) : Prop := p = PDraining \/ p = PDepleted \/ p = PClosed.

Definition eos_ok (p : phase) (b : list item) : Prop :=
  b = map Ev (evs b) \/ (draining p /\ b = map Ev (evs b) ++ [EOS]).

Lemma eos_ok_nil : forall p, eos_ok p []. Proof. left; reflexivity. Qed.

Lemma eos_ok_pure : forall p b, ~ draining p -> eos_ok p b -> b = map Ev (evs b).
Proof. intros p b N [H|[D _]]; [exact H|contradiction]. Qed.

Lemma eos_ok_snoc_ev : forall p b e, ~ draining p -> eos_ok p b -> eos_ok p (b ++ [Ev e]).
Proof.
  intros p b e N H. left. apply eos_ok_pure in H; auto.
  rewrite evs_app, map_app. simpl. rewrite <- H. reflexivity.
Qed.

Lemma eos_ok_tail : forall p x b, eos_ok p (x :: b) -> eos_ok p b.
Proof.
  intros p x b [H|[D H]].
  - left. destruct x; simpl in H; [injection H as H; exact H|].
    destruct (evs b); discriminate.
  - destruct x as [e|]; simpl in H.
    + injection H as H. right. auto.
    + destruct (evs b) eqn:E; simpl in H.
      * injection H as ->. left. reflexivity.
      * discriminate.
Qed.

Lemma eos_ok_eos_head : forall p b, eos_ok p (EOS :: b) -> b = [].
Proof.
  intros p b [H|[D H]]; simpl in H.
  - destruct (evs b); discriminate.
  - destruct (evs b); simpl in H; [injection H as ->; reflexivity|discriminate].
Qed.

Lemma eos_ok_put : forall p b, ~ draining p -> eos_ok p b -> eos_ok PDraining (b ++ [EOS]).
Proof.
  intros p b N H. apply eos_ok_pure in H; auto. right. split; [left; reflexivity|].
  rewrite evs_app. simpl. rewrite app_nil_r. rewrite <- H. reflexivity.
Qed.

Lemma eos_ok_mono : forall p q b, (draining p -> draining q) -> eos_ok p b -> eos_ok q b.
Proof. intros p q b M [H|[D H]]; [left; exact H|right; auto]. Qed.

Lemma has_ev_app_ev : forall b e, has_ev (b ++ [Ev e]) = true.
Proof. intros. unfold has_ev. rewrite evs_app. simpl. destruct (evs b); reflexivity. Qed.

Lemma has_ev_app_eos : forall b, has_ev (b ++ [EOS]) = has_ev b.
Proof. intros. unfold has_ev. rewrite evs_app. simpl. rewrite app_nil_r. reflexivity. Qed.

Lemma add_known_in : forall u l, In u (add_known u l).
Proof.
  intros u l. unfold add_known. destruct (existsb (Nat.eqb u) l) eqn:E; [|left; reflexivity].
  apply existsb_exists in E. destruct E as (x & I & Q). apply Nat.eqb_eq in Q. subst. exact I.
Qed.

Lemma add_known_incl : forall u l, incl l (add_known u l).
Proof. intros u l. unfold add_known. destruct (existsb (Nat.eqb u) l); [apply incl_refl|apply incl_tl, incl_refl]. Qed.

Lemma add_known_nodup : forall u l, NoDup l -> NoDup (add_known u l).
Proof.
  intros u l N. unfold add_known. destruct (existsb (Nat.eqb u) l) eqn:E; [exact N|].
  constructor; [|exact N]. intros I. assert (existsb (Nat.eqb u) l = true); [|congruence].
  apply existsb_exists. exists u. split; [exact I|apply Nat.eqb_refl].
Qed.

(* ---------- the invariant ---------- *)
Definition nstream (o : ust) : nat := match stream o with Some _ => 1 | None => 0 end.

Record InvU (s : st) (u : uid) : Prop := mkInvU {
  i_one : unsp s u + npend (obj s u) + nwait (obj s u) + List.length (procs (obj s u)) = nstream (obj s u);
  i_fifo : intact (obj s u) = true ->
           processed (obj s u) ++ procs (obj s u) ++ evs (backlog (obj s u)) = arrived (obj s u);
  i_eos : eos_ok (ph s) (backlog (obj s u));
  i_pend : cnt (pending s) u = npend (obj s u);
  i_act : cnt (active s) u = nwait (obj s u) + List.length (procs (obj s u));
  i_press : has_ev (backlog (obj s u)) = true -> exists b, stream (obj s u) = Some (b, true);
  i_known : stream (obj s u) <> None -> In u (known s);
  i_ins : forall e, pc s = WInsert u e -> stream (obj s u) = None;
  i_drained : (ph s = PDepleted \/ ph s = PClosed) -> timedout s = false -> in_spawn (cancel_pc s) = false ->
              stream (obj s u) = None
}.

Record InvG (s : st) : Prop := mkInvG {
  g_nodup : NoDup (known s);
  g_limit : forall L, limit s = Some L -> running s <= L;
  g_pc : ph s <> PAlive -> pc s = cancel_pc s;
  g_to : ~ (ph s = PDepleted \/ ph s = PClosed) -> timedout s = false
}.

Definition Inv (s : st) : Prop := InvG s /\ forall u, InvU s u.

Lemma Inv_init : forall lim, Inv (init lim).
Proof.
  intros lim. split.
  - constructor; simpl; intros; try reflexivity; try congruence; try constructor.
    unfold running; simpl. destruct lim; [|discriminate]. injection H as <-. lia.
  - intros u. constructor; simpl; intros; try reflexivity; try discriminate; try congruence.
    apply eos_ok_nil.
Qed.

(* ---------- step inversion machinery ---------- *)
Lemma upd_same : forall f u o, upd f u o u = o.
Proof. intros. unfold upd. rewrite Nat.eqb_refl. reflexivity. Qed.

Lemma upd_other : forall f u o v, v <> u -> upd f u o v = f v.
Proof. intros. unfold upd. apply Nat.eqb_neq in H. rewrite H. reflexivity. Qed.

Lemma pc_idle_eq : forall s, pc_idle s = true -> pc s = WIdle.
Proof. intros s H. unfold pc_idle in H. destruct (pc s); try discriminate; reflexivity. Qed.

Lemma stream_none_eq : forall o, stream_none o = true -> stream o = None.
Proof. intros o H. unfold stream_none in H. destruct (stream o); [discriminate|reflexivity]. Qed.

Lemma workers_live_eq : forall s, workers_live s = true -> ph s <> PClosed.
Proof. intros s H. unfold workers_live in H. apply negb_true_iff in H. apply phase_eqb_neq in H. exact H. Qed.

Ltac bool_hyps :=
  repeat match goal with
  | H : _ && _ = true |- _ => apply andb_prop in H; destruct H
  | H : phase_eqb _ _ = true |- _ => apply phase_eqb_eq in H
  | H : phase_eqb _ _ = false |- _ => apply phase_eqb_neq in H
  | H : Nat.eqb _ _ = true |- _ => apply Nat.eqb_eq in H
  | H : Nat.ltb _ _ = true |- _ => apply Nat.ltb_lt in H
  | H : Bool.eqb _ _ = true |- _ => apply Bool.eqb_prop in H
  | H : pc_idle _ = true |- _ => apply pc_idle_eq in H
  | H : stream_none _ = true |- _ => apply stream_none_eq in H
  | H : workers_live _ = true |- _ => apply workers_live_eq in H
  end.

Ltac step_inv H :=
  unfold step in H; cbv beta zeta in H;
  repeat match type of H with
  | (if ?c then _ else _) = Some _ => destruct c eqn:?; [|try discriminate H]
  | match ?x with _ => _ end = Some _ => destruct x eqn:?; try discriminate H
  end;
  try discriminate H;
  try (injection H as <-); bool_hyps.

(* the per-uid facts about a uid the label does not touch are transported by this lemma *)
Lemma InvU_frame : forall s s' v,
  InvU s v ->
  obj s' v = obj s v ->
  unsp s' v = unsp s v ->
  cnt (pending s') v = cnt (pending s) v ->
  cnt (active s') v = cnt (active s) v ->
  (forall e, pc s' = WInsert v e -> pc s = WInsert v e) ->
  incl (known s) (known s') ->
  eos_ok (ph s') (backlog (obj s v)) ->
  ((ph s' = PDepleted \/ ph s' = PClosed) -> timedout s' = false -> in_spawn (cancel_pc s') = false ->
     stream (obj s v) = None) ->
  InvU s' v.
Proof.
  intros s s' v [] Ho Hu Hp Ha Hpc Hk He Hd.
  constructor; rewrite ?Ho, ?Hu, ?Hp, ?Ha; eauto.
Qed.

Lemma unsp_idle : forall s v, pc s = WIdle -> unsp s v = 0.
Proof. intros s v H. unfold unsp. rewrite H. reflexivity. Qed.

Lemma not_draining_alive : ~ draining PAlive.
Proof. intros [H|[H|H]]; discriminate. Qed.
Lemma not_draining_cancelled : ~ draining PCancelled.
Proof. intros [H|[H|H]]; discriminate. Qed.
#[export] Hint Resolve not_draining_alive not_draining_cancelled eos_ok_nil incl_refl : qdb.

Ltac other HU v N :=
  eapply InvU_frame; try exact (HU v); simpl; rewrite ?upd_other by exact N; auto with qdb;
  try apply (i_eos _ _ (HU v)); try apply (i_drained _ _ (HU v)).

(* ---------- preservation, label by label ---------- *)
Lemma pres_arrive : forall s u e s', Inv s -> step s (LArrive u e) = Some s' -> Inv s'.
Proof.
  intros s u e s' [HG HU] H. step_inv H.
  split.
  - destruct HG. constructor; simpl; auto.
  - intros v. destruct (Nat.eq_dec v u) as [->|N].
    + specialize (HU u). destruct HU. unfold backlog, nstream in *. rewrite Heqo in *.
      constructor; unfold backlog, nstream, unsp in *; simpl; rewrite ?upd_same; simpl.
      * exact i_one0.
      * intros I. rewrite evs_app. simpl. rewrite <- i_fifo0 by exact I. rewrite !app_assoc. reflexivity.
      * rewrite H in *. apply eos_ok_snoc_ev; auto with qdb.
      * exact i_pend0.
      * exact i_act0.
      * eauto.
      * intros _. apply i_known0. discriminate.
      * intros e0 E. congruence.
      * intros [D|D]; congruence.
    + other HU v N.
Qed.

Lemma pres_arrive_new1 : forall s u e s', Inv s -> step s (LArriveNew1 u e) = Some s' -> Inv s'.
Proof.
  intros s u e s' [HG HU] H. step_inv H.
  split.
  - destruct HG. constructor; simpl; auto. intros N. congruence.
  - intros v. assert (U0 : unsp s v = 0) by (apply unsp_idle; assumption).
    destruct (HU v). constructor; unfold unsp in *; simpl; auto.
    + rewrite H1 in i_one0. exact i_one0.
    + intros e0 E. injection E as -> ->. assumption.
Qed.

Lemma pres_arrive_new2 : forall s u e s', Inv s -> step s (LArriveNew2 u e) = Some s' -> Inv s'.
Proof.
  intros s u e s' [HG HU] H. step_inv H. subst u0 e0.
  split.
  - destruct HG. constructor; simpl; auto using add_known_nodup. intros N. congruence.
  - intros v. destruct (Nat.eq_dec v u) as [->|N].
    + pose proof (i_ins _ _ (HU u) _ Heqw) as SN.
      destruct (HU u). unfold backlog, nstream, unsp in *. rewrite SN, Heqw in *.
      constructor; unfold backlog, nstream, unsp; simpl; rewrite ?upd_same, ?Nat.eqb_refl; simpl.
      * lia.
      * intros I. rewrite <- i_fifo0 by exact I. rewrite !app_nil_r.
        assert (procs (obj s u) = []) as -> by (destruct (procs (obj s u)); [reflexivity|simpl in *; lia]).
        rewrite !app_nil_r. reflexivity.
      * left. reflexivity.
      * exact i_pend0.
      * exact i_act0.
      * eauto.
      * intros _. apply add_known_in.
      * intros e0 E. discriminate.
      * intros [D|D]; congruence.
    + other HU v N.
      * unfold unsp. simpl. rewrite Heqw. apply Nat.eqb_neq in N. rewrite Nat.eqb_sym, N. reflexivity.
      * intros e0 E. discriminate.
      * apply add_known_incl.
Qed.

Ltac easy_goals :=
  try (rewrite ?cnt_app1_eq, ?cnt_cons_eq; simpl in *; unfold uid, ev in *; lia);
  try (match goal with |- context [Nat.eq_dec ?a ?a] => destruct (Nat.eq_dec a a); [|contradiction] end; simpl in *; lia);
  try (intros; discriminate);
  try (intros [?D|?D]; congruence);
  try (intros; congruence).

Lemma pres_spawn : forall s u s', Inv s -> step s (LSpawn u) = Some s' -> Inv s'.
Proof.
  intros s u s' [HG HU] H. step_inv H. subst u0.
  split.
  - destruct HG. constructor; simpl; auto. intros N. congruence.
  - intros v. destruct (Nat.eq_dec v u) as [->|N].
    + destruct (HU u). unfold backlog, nstream, unsp in *. rewrite Heqw, Nat.eqb_refl in *.
      constructor; unfold backlog, nstream, unsp; simpl; rewrite ?upd_same; simpl; auto; easy_goals.
    + other HU v N.
      * unfold unsp. simpl. rewrite Heqw. apply Nat.eqb_neq in N. rewrite Nat.eqb_sym, N. reflexivity.
      * apply cnt_app1_neq; exact N.
      * intros e0 E. discriminate.
Qed.

Lemma under_limit_lt : forall s L, under_limit s = true -> limit s = Some L -> running s < L.
Proof. intros s L H E. unfold under_limit in H. rewrite E in H. apply Nat.ltb_lt in H. exact H. Qed.

Lemma pres_start : forall s u s', Inv s -> step s (LStart u) = Some s' -> Inv s'.
Proof.
  intros s u s' [HG HU] H. step_inv H. subst u0.
  split.
  - destruct HG. constructor; simpl; auto.
    intros L E. match goal with HL : under_limit _ = true |- _ => pose proof (under_limit_lt _ _ HL E) end.
    unfold running in *. simpl. lia.
  - intros v. destruct (Nat.eq_dec v u) as [->|N].
    + destruct (HU u). unfold backlog, nstream, unsp in *. rewrite Heql, cnt_cons_eq in *.
      constructor; unfold backlog, nstream, unsp; simpl; rewrite ?upd_same; simpl; auto; easy_goals.
    + other HU v N.
      * rewrite Heql. symmetry. apply cnt_cons_neq; exact N.
      * apply cnt_cons_neq; exact N.
Qed.

Lemma pres_get : forall s u e p s', Inv s -> step s (LGet u e p) = Some s' -> Inv s'.
Proof.
  intros s u e p s' [HG HU] H. step_inv H. subst e0.
  split.
  - destruct HG. constructor; simpl; auto.
  - intros v. destruct (Nat.eq_dec v u) as [->|N].
    + destruct (HU u). unfold backlog, nstream in *.
      match goal with HS : stream (obj s u) = Some _ |- _ => rewrite HS in * end.
      constructor; unfold backlog, nstream, unsp in *; simpl; rewrite ?upd_same; simpl; auto.
      * rewrite app_length. simpl. lia.
      * intros I. rewrite <- i_fifo0 by exact I. simpl. rewrite <- !app_assoc. reflexivity.
      * eapply eos_ok_tail; eassumption.
      * rewrite app_length. simpl. lia.
      * intros HE. destruct i_press0 as [b1 E1]; [reflexivity|]. injection E1 as E1 E2. subst b.
        destruct l0; [discriminate HE|]. eauto.
      * intros _. apply i_known0. discriminate.
      * intros e0 E. specialize (i_ins0 _ E). discriminate.
      * intros D T C. specialize (i_drained0 D T C). discriminate.
    + other HU v N.
Qed.

(* a worker of u leaves its loop: stream deleted, u removed from `active`, exiting + 1 *)
Lemma retire_G : forall s u o act', InvG s -> remove1 u (active s) = Some act' -> InvG (retire s u o act').
Proof.
  intros s u o act' [] R. constructor; simpl; auto.
  intros L E. specialize (g_limit0 L E). unfold running in *. simpl in *.
  pose proof (remove1_length _ _ _ R). unfold uid, ev in *. lia.
Qed.

Lemma retire_other : forall s u o act' v, (forall w, InvU s w) -> remove1 u (active s) = Some act' -> v <> u ->
  InvU (retire s u o act') v.
Proof.
  intros s u o act' v HU R N. other HU v N.
  eapply remove1_cnt_neq; eauto.
Qed.

Lemma pres_get_eos : forall s u s', Inv s -> step s (LGetEOS u) = Some s' -> Inv s'.
Proof.
  intros s u s' [HG HU] H. step_inv H.
  match goal with R : remove1 u (active s) = Some _ |- _ => rename R into HR end.
  split.
  - apply retire_G; assumption.
  - intros v. destruct (Nat.eq_dec v u) as [->|N]; [|apply retire_other; assumption].
    destruct (HU u). unfold backlog, nstream in *.
    match goal with HS : stream (obj s u) = Some _ |- _ => rewrite HS in * end.
    pose proof (eos_ok_eos_head _ _ i_eos0) as ->.
    rewrite (remove1_cnt_eq _ _ _ HR) in i_act0.
    constructor; unfold backlog, nstream, unsp in *; simpl; rewrite ?upd_same; simpl; auto with qdb; easy_goals.
Qed.

Lemma pres_timeout : forall s u s', Inv s -> step s (LTimeout u) = Some s' -> Inv s'.
Proof.
  intros s u s' [HG HU] H. step_inv H; [|split; assumption].
  match goal with R : remove1 u (active s) = Some _ |- _ => rename R into HR end.
  split.
  - apply retire_G; assumption.
  - intros v. destruct (Nat.eq_dec v u) as [->|N]; [|apply retire_other; assumption].
    destruct (HU u). unfold backlog, nstream in *.
    match goal with HS : stream (obj s u) = Some _ |- _ => rewrite HS in * end.
    rewrite (remove1_cnt_eq _ _ _ HR) in i_act0.
    constructor; unfold backlog, nstream, unsp in *; simpl; rewrite ?upd_same; simpl; auto with qdb; easy_goals.
Qed.

Lemma procs_le1 : forall s u, InvU s u -> List.length (procs (obj s u)) <= 1.
Proof. intros s u []. unfold nstream in *. destruct (stream (obj s u)); lia. Qed.

Lemma pres_end : forall s u e s', Inv s -> step s (LEnd u e) = Some s' -> Inv s'.
Proof.
  intros s u e s' [HG HU] H. step_inv H.
  match goal with R : remove1 e _ = Some _ |- _ =>
    destruct (remove1_single _ _ _ R (procs_le1 _ _ (HU u))) as [HP ->] end.
  split.
  - destruct HG. constructor; simpl; auto.
  - intros v. destruct (Nat.eq_dec v u) as [->|N]; [|other HU v N].
    destruct (HU u). unfold backlog, nstream in *. rewrite HP in *.
    constructor; unfold backlog, nstream, unsp in *; simpl; rewrite ?upd_same; simpl; auto; easy_goals.
    intros I. rewrite <- i_fifo0 by exact I. rewrite <- !app_assoc. reflexivity.
Qed.

Lemma pres_fail : forall s u e s', Inv s -> step s (LFail u e) = Some s' -> Inv s'.
Proof.
  intros s u e s' [HG HU] H. step_inv H.
  match goal with R : remove1 e _ = Some _ |- _ =>
    destruct (remove1_single _ _ _ R (procs_le1 _ _ (HU u))) as [HP ->] end.
  match goal with R : remove1 u (active s) = Some _ |- _ => rename R into HR end.
  split.
  - destruct HG. constructor; simpl; auto.
    intros L E. specialize (g_limit0 L E). unfold running in *. simpl in *.
    pose proof (remove1_length _ _ _ HR). unfold uid, ev in *. lia.
  - intros v. destruct (Nat.eq_dec v u) as [->|N].
    + destruct (HU u). unfold backlog, nstream in *. rewrite HP in *.
      rewrite (remove1_cnt_eq _ _ _ HR) in i_act0.
      constructor; unfold backlog, nstream, unsp in *; simpl; rewrite ?upd_same; simpl; auto with qdb; easy_goals.
      destruct (stream (obj s u)); simpl in *; lia.
    + other HU v N. eapply remove1_cnt_neq; eauto.
Qed.

Lemma pres_exit : forall s s', Inv s -> step s LExit = Some s' -> Inv s'.
Proof.
  intros s s' [HG HU] H. step_inv H.
  split.
  - destruct HG. constructor; simpl; auto.
    intros L E. specialize (g_limit0 L E). unfold running in *. simpl in *. lia.
  - intros v. destruct (HU v). constructor; auto.
Qed.

Lemma pres_cancel : forall s s', Inv s -> step s LCancel = Some s' -> Inv s'.
Proof.
  intros s s' [HG HU] H. step_inv H.
  split.
  - destruct HG. constructor; simpl; auto. intros _. apply g_to0. intros [D|D]; congruence.
  - intros v. destruct (HU v). constructor; simpl; auto; easy_goals.
    match goal with A : ph s = PAlive |- _ => rewrite A in i_eos0 end.
    eapply eos_ok_mono; [|exact i_eos0]. intros D. destruct (not_draining_alive D).
Qed.

Lemma pres_put_eos : forall s s', Inv s -> step s LPutEOS = Some s' -> Inv s'.
Proof.
  intros s s' [HG HU] H. step_inv H.
  match goal with A : ph s = PCancelled |- _ => rename A into HP end.
  split.
  - destruct HG. constructor; simpl; auto; easy_goals.
    + intros _. apply g_pc0. congruence.
    + intros _. apply g_to0. intros [D|D]; congruence.
  - intros v. destruct (stream (obj s v)) as [[b p]|] eqn:ES.
    + destruct (HU v). unfold backlog, nstream, unsp in *. rewrite ES in *.
      constructor; unfold backlog, nstream, unsp, put_eos; simpl; rewrite ?ES; simpl; auto with qdb; easy_goals.
      * intros I. rewrite evs_app. simpl. rewrite app_nil_r. auto.
      * rewrite HP in i_eos0. eapply eos_ok_put; [|exact i_eos0]. auto with qdb.
      * rewrite has_ev_app_eos. intros HE. destruct (i_press0 HE) as [b1 E1]. injection E1 as _ ->. eauto.
      * intros _. apply i_known0. discriminate.
      * intros e E. specialize (i_ins0 e E). discriminate.
    + eapply InvU_frame; try exact (HU v); simpl; auto with qdb; easy_goals.
      * unfold put_eos. rewrite ES. reflexivity.
      * unfold backlog. rewrite ES. auto with qdb.
Qed.

Lemma forallb_known_none : forall s u, (forall w, InvU s w) ->
  forallb (fun w => stream_none (obj s w)) (known s) = true -> stream (obj s u) = None.
Proof.
  intros s u HU F. destruct (stream (obj s u)) eqn:E; [|reflexivity].
  assert (K : In u (known s)) by (apply (i_known _ _ (HU u)); congruence).
  rewrite forallb_forall in F. specialize (F u K). apply stream_none_eq in F. congruence.
Qed.

Lemma pres_depleted : forall s s', Inv s -> step s LDepleted = Some s' -> Inv s'.
Proof.
  intros s s' [HG HU] H. step_inv H.
  match goal with A : ph s = PDraining |- _ => rename A into HP end.
  match goal with A : _ || _ = true |- _ => rename A into HD end.
  split.
  - destruct HG. constructor; simpl; auto.
    all: try (intros _; apply g_pc0; congruence).
    all: try (intros N; exfalso; apply N; auto).
  - intros v. destruct (HU v). constructor; simpl; auto; easy_goals.
    + rewrite HP in i_eos0. eapply eos_ok_mono; [|exact i_eos0]. intros _. right. left. reflexivity.
    + intros _ T C. apply orb_prop in HD. destruct HD as [F|E].
      * eapply forallb_known_none; eauto.
      * apply andb_prop in E. destruct E as [E1 E2]. apply Nat.eqb_eq in E2.
        unfold running in E2. destruct (pending s) eqn:EP; [|discriminate].
        assert (active s = []) as EA by (destruct (active s); [reflexivity|simpl in E2; lia]).
        rewrite EA in i_act0. simpl in *.
        assert (unsp s v = 0) as U0.
        { destruct HG. unfold unsp. rewrite g_pc0 by congruence. destruct (cancel_pc s); try reflexivity. discriminate C. }
        unfold nstream in *. destruct (stream (obj s v)); [lia|reflexivity].
Qed.

Lemma pres_depletion_timeout : forall s s', Inv s -> step s LDepletionTimeout = Some s' -> Inv s'.
Proof.
  intros s s' [HG HU] H. step_inv H.
  match goal with A : ph s = PDraining |- _ => rename A into HP end.
  split.
  - destruct HG. constructor; simpl; auto.
    all: try (intros _; apply g_pc0; congruence).
    all: try (intros N; exfalso; apply N; auto).
  - intros v. destruct (HU v). constructor; simpl; auto; easy_goals.
    rewrite HP in i_eos0. eapply eos_ok_mono; [|exact i_eos0]. intros _. right. left. reflexivity.
Qed.

Lemma pres_close : forall s s', Inv s -> step s LCloseScheduler = Some s' -> Inv s'.
Proof.
  intros s s' [HG HU] H. step_inv H.
  match goal with A : ph s = PDepleted |- _ => rename A into HP end.
  split.
  - destruct HG. constructor; simpl; auto.
    all: try (intros _; apply g_pc0; congruence).
    all: try (intros N; exfalso; apply N; auto).
  - intros v. destruct (HU v). constructor; simpl; auto; easy_goals.
    all: try (intros _ T C; apply i_drained0; auto).
    rewrite HP in i_eos0. eapply eos_ok_mono; [|exact i_eos0]. intros _. right. right. reflexivity.
Qed.

Theorem step_Inv : forall s l s', Inv s -> step s l = Some s' -> Inv s'.
Proof.
  intros s l s' HI H. destruct l.
  - eapply pres_arrive; eauto.
  - eapply pres_arrive_new1; eauto.
  - eapply pres_arrive_new2; eauto.
  - eapply pres_spawn; eauto.
  - eapply pres_start; eauto.
  - eapply pres_get; eauto.
  - eapply pres_get_eos; eauto.
  - eapply pres_timeout; eauto.
  - eapply pres_end; eauto.
  - eapply pres_fail; eauto.
  - eapply pres_exit; eauto.
  - eapply pres_cancel; eauto.
  - eapply pres_put_eos; eauto.
  - eapply pres_depleted; eauto.
  - eapply pres_depletion_timeout; eauto.
  - eapply pres_close; eauto.
Qed.

Theorem run_Inv : forall tr s s', Inv s -> run s tr = Some s' -> Inv s'.
Proof.
  induction tr as [|l tr IH]; simpl; intros s s' HI H.
  - injection H as <-. exact HI.
  - destruct (step s l) eqn:E; [|discriminate]. eapply IH; [|exact H]. eapply step_Inv; eauto.
Qed.

Theorem reach_Inv : forall lim tr s, run (init lim) tr = Some s -> Inv s.
Proof. intros. eapply run_Inv; [apply Inv_init|eassumption]. Qed.

(* =====================================================================================
   What the invariant gives
   ===================================================================================== *)

(* ---------- stream entry <-> exactly one worker (or the spawn in progress) ---------- *)
Theorem stream_iff_worker : forall lim tr s u, run (init lim) tr = Some s ->
  (stream (obj s u) = None ->
     unsp s u = 0 /\ npend (obj s u) = 0 /\ nwait (obj s u) = 0 /\ procs (obj s u) = []) /\
  (stream (obj s u) <> None ->
     unsp s u + npend (obj s u) + nwait (obj s u) + List.length (procs (obj s u)) = 1).
Proof.
  intros lim tr s u R. destruct (reach_Inv _ _ _ R) as [_ HU]. destruct (HU u). unfold nstream in *.
  split; intros E.
  - rewrite E in i_one0. repeat split; try lia. destruct (procs (obj s u)); [reflexivity|simpl in *; lia].
  - destruct (stream (obj s u)); [exact i_one0|congruence].
Qed.

(* ---------- ghost histories are the trace observables ---------- *)
Lemma step_hist : forall s l s' u, step s l = Some s' ->
  arrived (obj s' u) = arrived (obj s u) ++ arrivals_of u [l] /\
  processed (obj s' u) = processed (obj s u) ++ ends_of u [l] /\
  intact (obj s' u) = intact (obj s u) && negb (failed_in u [l]).
Proof.
  intros s l s' u H.
  destruct l; step_inv H; simpl; unfold upd, put_eos;
    try (destruct (Nat.eqb u _) eqn:EU; [apply Nat.eqb_eq in EU; subst|]); simpl;
    rewrite ?Nat.eqb_refl, ?app_nil_r, ?andb_true_r; simpl; rewrite ?andb_false_r; auto;
    try (rewrite Nat.eqb_sym, EU; simpl; rewrite ?app_nil_r, ?andb_true_r; auto).
  destruct (stream (obj s u)) as [[b p]|]; simpl; auto.
Qed.

Lemma arrivals_app : forall u a b, arrivals_of u (a ++ b) = arrivals_of u a ++ arrivals_of u b.
Proof. induction a as [|l a IH]; simpl; intros; [reflexivity|]. destruct l; rewrite ?IH; auto; destruct (Nat.eqb _ u); simpl; rewrite ?IH; auto. Qed.

Lemma run_hist : forall tr s s' u, run s tr = Some s' ->
  arrived (obj s' u) = arrived (obj s u) ++ arrivals_of u tr /\
  processed (obj s' u) = processed (obj s u) ++ ends_of u tr /\
  intact (obj s' u) = intact (obj s u) && negb (failed_in u tr).
Proof.
  induction tr as [|l tr IH]; simpl; intros s s' u H.
  - injection H as <-. rewrite !app_nil_r, andb_true_r. auto.
  - destruct (step s l) as [s1|] eqn:E; [|discriminate].
    destruct (step_hist _ _ _ u E) as (A & P & I). destruct (IH _ _ u H) as (A' & P' & I').
    rewrite A', P', I', A, P, I. rewrite <- !app_assoc.
    assert (XA : arrivals_of u (l :: tr) = arrivals_of u [l] ++ arrivals_of u tr)
      by (destruct l; simpl; auto; destruct (Nat.eqb _ u); auto).
    assert (XE : ends_of u (l :: tr) = ends_of u [l] ++ ends_of u tr)
      by (destruct l; simpl; auto; destruct (Nat.eqb _ u); auto).
    assert (XF : failed_in u (l :: tr) = failed_in u [l] || failed_in u tr)
      by (destruct l; simpl; auto; rewrite orb_false_r; auto).
    simpl arrivals_of in *. simpl ends_of in *. simpl failed_in in *.
    rewrite XA, XE, XF. rewrite negb_orb, andb_assoc. auto.
Qed.

Lemma init_hist : forall lim tr s u, run (init lim) tr = Some s ->
  arrived (obj s u) = arrivals_of u tr /\ processed (obj s u) = ends_of u tr /\
  intact (obj s u) = negb (failed_in u tr).
Proof. intros lim tr s u R. destruct (run_hist _ _ _ u R) as (A & P & I). simpl in *. auto. Qed.

(* ---------- FIFO, lossless ---------- *)
Theorem fifo_lossless_state : forall lim tr s u, run (init lim) tr = Some s -> intact (obj s u) = true ->
  processed (obj s u) ++ procs (obj s u) ++ evs (backlog (obj s u)) = arrived (obj s u).
Proof. intros lim tr s u R I. destruct (reach_Inv _ _ _ R) as [_ HU]. apply (i_fifo _ _ (HU u) I). Qed.

Theorem fifo_lossless : forall lim tr s u, run (init lim) tr = Some s -> failed_in u tr = false ->
  ends_of u tr ++ procs (obj s u) ++ evs (backlog (obj s u)) = arrivals_of u tr.
Proof.
  intros lim tr s u R F. destruct (init_hist _ _ _ u R) as (A & P & I).
  rewrite <- A, <- P. eapply fifo_lossless_state; eauto. rewrite I, F. reflexivity.
Qed.

Corollary processed_prefix : forall lim tr s u, run (init lim) tr = Some s -> failed_in u tr = false ->
  exists rest, arrivals_of u tr = ends_of u tr ++ rest.
Proof. intros. eexists. symmetry. eapply fifo_lossless; eauto. Qed.

Lemma nodup_app_l : forall (a b : list nat), NoDup (a ++ b) -> NoDup a.
Proof.
  induction a as [|x a IH]; simpl; intros b N; [constructor|].
  inversion N as [|? ? NI ND]. constructor; [|eapply IH; eauto].
  intros I. apply NI. apply in_or_app. auto.
Qed.

Corollary processed_nodup : forall lim tr s u, run (init lim) tr = Some s -> failed_in u tr = false ->
  NoDup (arrivals_of u tr) -> NoDup (ends_of u tr).
Proof.
  intros lim tr s u R F N. destruct (processed_prefix _ _ _ u R F) as [rest E]. rewrite E in N.
  eapply nodup_app_l; eauto.
Qed.

(* ---------- serial ---------- *)
Theorem serial : forall lim tr s u, run (init lim) tr = Some s -> List.length (procs (obj s u)) <= 1.
Proof. intros lim tr s u R. destruct (reach_Inv _ _ _ R) as [_ HU]. apply procs_le1, HU. Qed.

Theorem begin_after_end : forall lim tr s u e p s', run (init lim) tr = Some s ->
  step s (LGet u e p) = Some s' -> procs (obj s u) = [] /\ procs (obj s' u) = [e].
Proof.
  intros lim tr s u e p s' R H. destruct (reach_Inv _ _ _ R) as [_ HU]. destruct (HU u).
  step_inv H. unfold nstream in *.
  match goal with HS : stream (obj s u) = Some _ |- _ => rewrite HS in * end.
  assert (procs (obj s u) = []) as E by (destruct (procs (obj s u)); [reflexivity|simpl in *; lia]).
  split; [exact E|]. simpl. rewrite upd_same. simpl. rewrite E. reflexivity.
Qed.

(* begins = ends ++ in-flight: per object, processor calls begin and end alternately, in the same order *)
Lemma step_begins : forall s l s' u, Inv s -> step s l = Some s' -> failed_in u [l] = false ->
  forall B E, B = E ++ procs (obj s u) ->
  B ++ begins_of u [l] = (E ++ ends_of u [l]) ++ procs (obj s' u).
Proof.
  intros s l s' u [HG HU] H F B E EB. pose proof (procs_le1 _ _ (HU u)) as LE.
  destruct l; simpl in F |- *;
    try (step_inv H; simpl; unfold upd, put_eos;
         try (destruct (Nat.eqb u _) eqn:EU; [apply Nat.eqb_eq in EU; subst|]); simpl;
         rewrite ?Nat.eqb_refl, ?app_nil_r; simpl;
         try (rewrite Nat.eqb_sym, EU; simpl; rewrite ?app_nil_r); auto;
         try (destruct (stream (obj s u)) as [[b0 p0]|]; simpl; auto); fail).
  - (* Get *) step_inv H. simpl. unfold upd. subst B. destruct (Nat.eqb u u0) eqn:EU.
    + apply Nat.eqb_eq in EU. subst. rewrite Nat.eqb_refl. simpl.
      rewrite ?app_nil_r; rewrite <- ?app_assoc; reflexivity.
    + rewrite Nat.eqb_sym, EU. simpl. rewrite !app_nil_r. reflexivity.
  - (* End *) step_inv H. simpl. unfold upd. subst B. destruct (Nat.eqb u u0) eqn:EU.
    + apply Nat.eqb_eq in EU. subst u0. rewrite Nat.eqb_refl. simpl.
      match goal with R : remove1 e _ = Some _ |- _ => destruct (remove1_single _ _ _ R LE) as [HP ->] end.
      rewrite HP. rewrite ?app_nil_r. reflexivity.
    + rewrite Nat.eqb_sym, EU. simpl. rewrite !app_nil_r. reflexivity.
  - (* Fail *) step_inv H. simpl. unfold upd. subst B. rewrite orb_false_r in F. rewrite Nat.eqb_sym, F. simpl.
    rewrite !app_nil_r. reflexivity.
Qed.

Lemma begins_cons : forall u l tr, begins_of u (l :: tr) = begins_of u [l] ++ begins_of u tr.
Proof. intros. destruct l; simpl; auto; destruct (Nat.eqb _ u); auto. Qed.
Lemma ends_cons : forall u l tr, ends_of u (l :: tr) = ends_of u [l] ++ ends_of u tr.
Proof. intros. destruct l; simpl; auto; destruct (Nat.eqb _ u); auto. Qed.
Lemma failed_cons : forall u l tr, failed_in u (l :: tr) = failed_in u [l] || failed_in u tr.
Proof. intros. destruct l; simpl; auto; rewrite orb_false_r; auto. Qed.

Lemma run_begins : forall tr s s' u, Inv s -> run s tr = Some s' -> failed_in u tr = false ->
  forall B E, B = E ++ procs (obj s u) ->
  B ++ begins_of u tr = (E ++ ends_of u tr) ++ procs (obj s' u).
Proof.
  induction tr as [|l tr IH]; intros s s' u HI H F B E EB.
  - simpl in *. injection H as <-. rewrite !app_nil_r. exact EB.
  - simpl in H. destruct (step s l) as [s1|] eqn:ES; [|discriminate].
    rewrite failed_cons in F. apply orb_false_elim in F. destruct F as [F1 F2].
    rewrite begins_cons, ends_cons. rewrite !app_assoc.
    apply (IH s1 s' u (step_Inv _ _ _ HI ES) H F2 (B ++ begins_of u [l]) (E ++ ends_of u [l])).
    eapply step_begins; eauto.
Qed.

Theorem alternation : forall lim tr s u, run (init lim) tr = Some s -> failed_in u tr = false ->
  begins_of u tr = ends_of u tr ++ procs (obj s u) /\ List.length (procs (obj s u)) <= 1.
Proof.
  intros lim tr s u R F. split; [|eapply serial; eauto].
  apply (run_begins tr (init lim) s u (Inv_init lim) R F [] []). reflexivity.
Qed.

(* ---------- the retirement race ---------- *)
(* A TimeoutError observed by the worker while its backlog is NOT empty retires nobody: the state is
   unchanged (stream, backlog, worker); conversely the stream is deleted only on an empty backlog. *)
Theorem retire_race : forall s u s', step s (LTimeout u) = Some s' ->
  (backlog (obj s u) <> [] -> s' = s) /\
  (stream (obj s' u) = None -> backlog (obj s u) = []).
Proof.
  intros s u s' H. step_inv H; unfold backlog;
    match goal with HS : stream (obj s u) = Some _ |- _ => rewrite HS end; simpl.
  - split; [congruence|reflexivity].
  - split; [reflexivity|]. intros E. congruence.
Qed.

Lemma timeout_needs_waiting : forall s u s', step s (LTimeout u) = Some s' -> 0 < nwait (obj s u).
Proof.
  intros s u s' H. unfold step in H. cbv beta zeta in H.
  destruct (workers_live s && (0 <? nwait (obj s u))) eqn:G; [|discriminate].
  apply andb_prop in G. destruct G as [_ G]. apply Nat.ltb_lt in G. exact G.
Qed.

Theorem retire_race_reachable : forall lim tr s u s', run (init lim) tr = Some s ->
  step s (LTimeout u) = Some s' -> evs (backlog (obj s u)) <> [] ->
  stream (obj s' u) <> None /\ nwait (obj s' u) > 0 /\
  (intact (obj s' u) = true ->
   processed (obj s' u) ++ procs (obj s' u) ++ evs (backlog (obj s' u)) = arrived (obj s' u)).
Proof.
  intros lim tr s u s' R H NE. destruct (retire_race _ _ _ H) as [K _].
  assert (s' = s) as -> by (apply K; intros E; rewrite E in NE; apply NE; reflexivity).
  destruct (reach_Inv _ _ _ R) as [_ HU]. split; [|split].
  - unfold backlog in NE. destruct (stream (obj s u)); [discriminate|]. exfalso. apply NE. reflexivity.
  - apply (timeout_needs_waiting _ _ _ H).
  - apply (i_fifo _ _ (HU u)).
Qed.

(* ---------- quiescence ---------- *)
Theorem quiescent_complete : forall lim tr s u, run (init lim) tr = Some s ->
  intact (obj s u) = true -> ph s <> PClosed ->
  (forall e p, step s (LGet u e p) = None) -> (forall e, step s (LEnd u e) = None) ->
  npend (obj s u) = 0 -> unsp s u = 0 ->
  processed (obj s u) = arrived (obj s u).
Proof.
  intros lim tr s u R I NC NG NE NP NU. destruct (reach_Inv _ _ _ R) as [_ HU]. destruct (HU u).
  assert (L : workers_live s = true).
  { unfold workers_live. destruct (ph s); try reflexivity. congruence. }
  assert (P0 : procs (obj s u) = []).
  { destruct (procs (obj s u)) as [|e r] eqn:EP; [reflexivity|]. specialize (NE e).
    unfold step in NE. cbv beta zeta in NE. rewrite L, EP in NE. simpl in NE. rewrite Nat.eqb_refl in NE. discriminate. }
  rewrite <- (i_fifo0 I). rewrite P0. simpl.
  assert (E0 : evs (backlog (obj s u)) = []).
  { unfold backlog, nstream in *. destruct (stream (obj s u)) as [[b p]|] eqn:ES; [|reflexivity].
    rewrite P0 in *. simpl in *.
    destruct b as [|[e|] b']; [reflexivity| |].
    - specialize (NG e (match b' with [] => false | _ => p end)).
      unfold step in NG. cbv beta zeta in NG. rewrite L, ES in NG.
      replace (0 <? nwait (obj s u)) with true in NG by (symmetry; apply Nat.ltb_lt; lia).
      simpl in NG. rewrite Nat.eqb_refl, eqb_reflx in NG. discriminate.
    - rewrite (eos_ok_eos_head _ _ i_eos0). reflexivity. }
  rewrite E0, app_nil_r. reflexivity.
Qed.

(* ---------- worker limit; objects do not wait for each other ---------- *)
Theorem limit_respected : forall lim tr s L, run (init lim) tr = Some s -> limit s = Some L -> running s <= L.
Proof. intros lim tr s L R E. destruct (reach_Inv _ _ _ R) as [[] _]. auto. Qed.

Lemma step_limit : forall s l s', step s l = Some s' -> limit s' = limit s.
Proof. intros s l s' H. destruct l; step_inv H; reflexivity. Qed.

Theorem limit_const : forall tr lim s, run (init lim) tr = Some s -> limit s = lim.
Proof.
  intros tr lim s R. change lim with (limit (init lim)). generalize dependent (init lim).
  induction tr as [|l tr IH]; simpl; intros s0 R.
  - injection R as <-. reflexivity.
  - destruct (step s0 l) eqn:E; [|discriminate]. rewrite (IH _ R). eapply step_limit; eauto.
Qed.

(* whether the worker of u can take its next event / finish the current one depends on u's own
   component (and on the scheduler not being closed) only *)
Theorem no_cross_blocking : forall s1 s2 u, obj s1 u = obj s2 u -> workers_live s1 = workers_live s2 ->
  (forall e p, step s1 (LGet u e p) = None <-> step s2 (LGet u e p) = None) /\
  (forall e, step s1 (LEnd u e) = None <-> step s2 (LEnd u e) = None).
Proof.
  intros s1 s2 u EO EL. split; intros; unfold step; cbv beta zeta; rewrite EO, EL.
  - destruct (workers_live s2 && (0 <? nwait (obj s2 u))); [|tauto].
    destruct (stream (obj s2 u)) as [[[|[x|] b'] p0]|]; try tauto.
    destruct (Nat.eqb e x && Bool.eqb p (match b' with [] => false | _ => p0 end)); [|tauto].
    split; discriminate.
  - destruct (workers_live s2); [|tauto]. destruct (remove1 e (procs (obj s2 u))); [|tauto].
    split; discriminate.
Qed.

(* a spawned worker starts as soon as it is at the head of the scheduler's queue and fewer than
   worker_limit tasks run: nothing else delays it *)
Theorem start_enabled : forall s u,
  step s (LStart u) <> None <-> (ph s <> PClosed /\ under_limit s = true /\ exists rest, pending s = u :: rest).
Proof.
  intros s u. unfold step. cbv beta zeta. split.
  - intros H. destruct (workers_live s) eqn:EL; [|contradiction]. destruct (under_limit s); [|contradiction].
    apply workers_live_eq in EL. destruct (pending s) as [|v r]; [contradiction|].
    destruct (Nat.eqb u v) eqn:E; [|contradiction]. apply Nat.eqb_eq in E. subst. eauto.
  - intros (NC & UL & r & EP). rewrite UL, EP, Nat.eqb_refl.
    replace (workers_live s) with true; [discriminate|].
    unfold workers_live. destruct (ph s); try reflexivity. congruence.
Qed.

Theorem head_can_start : forall s u rest, ph s <> PClosed -> pending s = u :: rest ->
  (match limit s with None => True | Some L => running s < L end) -> step s (LStart u) <> None.
Proof.
  intros s u rest NC EP UL. apply start_enabled. split; [exact NC|]. split; [|eauto].
  unfold under_limit. destruct (limit s); [apply Nat.ltb_lt; exact UL|reflexivity].
Qed.

(* ---------- draining on shutdown ---------- *)
Theorem drain : forall lim tr s u, run (init lim) tr = Some s ->
  (ph s = PDepleted \/ ph s = PClosed) -> timedout s = false -> in_spawn (cancel_pc s) = false ->
  intact (obj s u) = true -> processed (obj s u) = arrived (obj s u).
Proof.
  intros lim tr s u R D T C I. destruct (reach_Inv _ _ _ R) as [_ HU]. destruct (HU u).
  specialize (i_drained0 D T C). rewrite <- (i_fifo0 I). unfold backlog, nstream in *. rewrite i_drained0 in *.
  assert (procs (obj s u) = []) as -> by (destruct (procs (obj s u)); [reflexivity|simpl in *; lia]).
  rewrite !app_nil_r. reflexivity.
Qed.

(* ---------- pressure ---------- *)
Theorem pressure_sound : forall lim tr s u, run (init lim) tr = Some s ->
  evs (backlog (obj s u)) <> [] -> exists b, stream (obj s u) = Some (b, true).
Proof.
  intros lim tr s u R NE. destruct (reach_Inv _ _ _ R) as [_ HU]. apply (i_press _ _ (HU u)).
  unfold has_ev. destruct (evs (backlog (obj s u))); [congruence|reflexivity].
Qed.

(* ---------- what is false without the side conditions (witnesses by computation) ---------- *)
Definition tr_fail : list label :=
  [LArriveNew1 0 0; LArriveNew2 0 0; LSpawn 0; LStart 0; LGet 0 0 false; LArrive 0 1; LFail 0 0].

Theorem lossless_unconditional_refuted :
  exists lim tr s u, run (init lim) tr = Some s /\
    processed (obj s u) ++ procs (obj s u) ++ evs (backlog (obj s u)) <> arrived (obj s u).
Proof. exists None, tr_fail. eexists. exists 0. split; [vm_compute; reflexivity|vm_compute; discriminate]. Qed.

(* cancelled while inside scheduler.spawn() before the job was queued: the stream is an orphan *)
Definition tr_orphan : list label :=
  [LArriveNew1 0 0; LArriveNew2 0 0; LCancel; LPutEOS; LDepleted].

Theorem drain_unconditional_refuted :
  exists lim tr s u, run (init lim) tr = Some s /\ ph s = PDepleted /\ timedout s = false /\
    intact (obj s u) = true /\ processed (obj s u) <> arrived (obj s u).
Proof. exists None, tr_orphan. eexists. exists 0. split; [vm_compute; reflexivity|]. vm_compute. repeat split; discriminate. Qed.

(* ---------- non-vacuity: two objects, limit 1, an arrival racing the idle timeout ---------- *)
Definition tr_example : list label :=
  [LArriveNew1 0 0; LArriveNew2 0 0; LSpawn 0; LStart 0; LGet 0 0 false;
   LArriveNew1 1 1; LArriveNew2 1 1; LSpawn 1;              (* object 1 waits: limit 1 *)
   LEnd 0 0;
   LArrive 0 2; LTimeout 0;                                 (* the race: timeout seen with a non-empty backlog *)
   LGet 0 2 false; LEnd 0 2;
   LTimeout 0; LExit;                                       (* now the worker retires *)
   LStart 1; LGet 1 1 false; LEnd 1 1;
   LCancel; LPutEOS; LGetEOS 1; LExit; LDepleted; LCloseScheduler].

Example example_accepted :
  exists s, run (init (Some 1)) tr_example = Some s /\ ph s = PClosed /\ timedout s = false /\ cancel_pc s = WIdle /\
    processed (obj s 0) = [0; 2] /\ processed (obj s 1) = [1] /\ failed_in 0 tr_example = false.
Proof. eexists. split; [vm_compute; reflexivity|]. vm_compute. repeat split. Qed.

Example example_race_state :
  exists s, run (init (Some 1)) (firstn 10 tr_example) = Some s /\
    evs (backlog (obj s 0)) = [2] /\ step s (LTimeout 0) = Some s /\
    (forall e p, step s (LGet 1 e p) = None) /\ step s (LStart 1) = None.
Proof. eexists. split; [vm_compute; reflexivity|]. vm_compute. repeat split. Qed.

(* =====================================================================================
   Deadlock freedom: an unprocessed event never waits on nothing
   ===================================================================================== *)
Lemma live_true : forall s, ph s <> PClosed -> workers_live s = true.
Proof. intros s H. unfold workers_live. destruct (ph s); try reflexivity. congruence. Qed.

Lemma end_enabled : forall s u e r, ph s <> PClosed -> procs (obj s u) = e :: r ->
  exists s', step s (LEnd u e) = Some s'.
Proof.
  intros s u e r L E. unfold step. cbv beta zeta. rewrite (live_true _ L), E. simpl.
  rewrite Nat.eqb_refl. eauto.
Qed.

Lemma get_enabled : forall s u e b p, ph s <> PClosed -> 0 < nwait (obj s u) ->
  stream (obj s u) = Some (Ev e :: b, p) ->
  exists p1 s', step s (LGet u e p1) = Some s'.
Proof.
  intros s u e b p L W E. exists (match b with [] => false | _ => p end).
  unfold step. cbv beta zeta. rewrite (live_true _ L), E.
  apply Nat.ltb_lt in W. rewrite W. simpl. rewrite Nat.eqb_refl, eqb_reflx. simpl. eauto.
Qed.

(* some worker w occupies a slot: it can finish its call, take an event, or (idle) retire *)
Lemma active_worker_moves : forall s w act, Inv s -> ph s <> PClosed -> active s = w :: act ->
  exists l s', progress_label s l = true /\ step s l = Some s'.
Proof.
  intros s w act [HG HU] L EA. destruct (HU w). rewrite EA, cnt_cons_eq in i_act0.
  destruct (procs (obj s w)) as [|e r] eqn:EP.
  - simpl in i_act0. assert (W : 0 < nwait (obj s w)) by lia.
    unfold nstream in *. destruct (stream (obj s w)) as [[b p]|] eqn:ES; [|simpl in *; lia].
    destruct b as [|[e|] b'].
    + exists (LTimeout w). eexists. split; [simpl; rewrite ES; reflexivity|].
      unfold step. cbv beta zeta. rewrite (live_true _ L), ES. apply Nat.ltb_lt in W. rewrite W. simpl.
      rewrite EA. simpl. rewrite Nat.eqb_refl. reflexivity.
    + destruct (get_enabled s w e b' p L W ES) as (p1 & s' & H). exists (LGet w e p1), s'. split; [reflexivity|exact H].
    + exists (LGetEOS w). eexists. split; [reflexivity|].
      unfold step. cbv beta zeta. rewrite (live_true _ L), ES. apply Nat.ltb_lt in W. rewrite W. simpl.
      rewrite EA. simpl. rewrite Nat.eqb_refl. reflexivity.
  - destruct (end_enabled s w e r L EP) as [s' H]. exists (LEnd w e), s'. split; [reflexivity|exact H].
Qed.

Theorem no_deadlock : forall lim tr s u, run (init lim) tr = Some s ->
  ph s <> PClosed -> (ph s = PAlive \/ in_spawn (cancel_pc s) = false) -> limit_positive s = true ->
  intact (obj s u) = true -> processed (obj s u) <> arrived (obj s u) ->
  exists l s', progress_label s l = true /\ step s l = Some s'.
Proof.
  intros lim tr s u R L PH LP I NE. pose proof (reach_Inv _ _ _ R) as HI. destruct HI as [HG HU].
  pose proof (HU u) as IU. destruct IU.
  destruct (procs (obj s u)) as [|e r] eqn:EP.
  2:{ destruct (end_enabled s u e r L EP) as [s' H]. exists (LEnd u e), s'. split; [reflexivity|exact H]. }
  assert (NB : evs (backlog (obj s u)) <> []).
  { intros E. apply NE. rewrite <- (i_fifo0 I), E. simpl. rewrite app_nil_r. reflexivity. }
  unfold backlog, nstream in *. destruct (stream (obj s u)) as [[b p]|] eqn:ES; [|exfalso; apply NB; reflexivity].
  simpl in i_one0.
  (* the head of the backlog is an event *)
  assert (HB : exists e b', b = Ev e :: b').
  { destruct b as [|[e|] b']; [exfalso; apply NB; reflexivity|eauto|].
    rewrite (eos_ok_eos_head _ _ i_eos0) in NB. exfalso. apply NB. reflexivity. }
  destruct HB as (e & b' & ->).
  destruct (nwait (obj s u)) as [|nw] eqn:EW.
  2:{ destruct (get_enabled s u e b' p L) as (p1 & s' & H); [lia|exact ES|].
      exists (LGet u e p1), s'. split; [reflexivity|exact H]. }
  destruct (npend (obj s u)) as [|np] eqn:EN.
  - (* the watcher is inside spawn() for u *)
    assert (U1 : unsp s u = 1) by lia. unfold unsp in U1.
    destruct (pc s) as [| |v] eqn:EPC; try discriminate. destruct (Nat.eqb v u) eqn:EV; [|discriminate].
    apply Nat.eqb_eq in EV. subst v.
    assert (A : ph s = PAlive).
    { destruct PH as [A|NS]; [exact A|]. destruct (ph s) eqn:EPH; try reflexivity;
        destruct HG; rewrite <- g_pc0 in NS by congruence; rewrite EPC in NS; discriminate. }
    exists (LSpawn u). eexists. split; [reflexivity|].
    unfold step. cbv beta zeta. rewrite A, EPC. simpl. rewrite Nat.eqb_refl. reflexivity.
  - (* u's worker waits in the scheduler *)
    destruct (pending s) as [|v rest] eqn:EPD; [simpl in i_pend0; lia|].
    destruct (under_limit s) eqn:UL.
    + exists (LStart v). eexists. split; [reflexivity|].
      unfold step. cbv beta zeta. rewrite (live_true _ L), UL, EPD. simpl. rewrite Nat.eqb_refl. reflexivity.
    + (* limit saturated: somebody holds a slot and can move *)
      unfold under_limit in UL. unfold limit_positive in LP. destruct (limit s) as [[|L0]|]; try discriminate.
      apply Nat.ltb_ge in UL. unfold running in UL.
      destruct (exiting s) as [|n] eqn:EX.
      * destruct (active s) as [|w act] eqn:EA; [simpl in UL; lia|].
        eapply active_worker_moves; eauto. split; assumption.
      * exists LExit. eexists. split; [reflexivity|].
        unfold step. cbv beta zeta. rewrite (live_true _ L), EX. reflexivity.
Qed.

(* non-vacuity of no_deadlock: object 1 waits behind the limit while worker 0 idles; the idle timeout is the move *)
Example no_deadlock_example :
  exists s, run (init (Some 1)) (firstn 9 tr_example) = Some s /\ ph s = PAlive /\ limit_positive s = true /\
    intact (obj s 1) = true /\ processed (obj s 1) <> arrived (obj s 1) /\
    progress_label s (LTimeout 0) = true /\ step s (LTimeout 0) <> None /\ step s (LStart 1) = None.
Proof. eexists. split; [vm_compute; reflexivity|]. vm_compute. repeat split; discriminate. Qed.

(* =====================================================================================
   Termination of the internal activity: a variant for the progress labels
   ===================================================================================== *)
Lemma usum_upd_notin : forall f u o l, ~ In u l -> usum (upd f u o) l = usum f l.
Proof.
  induction l as [|x l IH]; simpl; intros N; [reflexivity|].
  rewrite upd_other by (intros E; apply N; left; congruence). rewrite IH; [reflexivity|].
  intros I. apply N. right. exact I.
Qed.

Lemma usum_upd_in : forall f u o l, NoDup l -> In u l ->
  usum (upd f u o) l + uweight (f u) = usum f l + uweight o.
Proof.
  induction l as [|x l IH]; simpl; intros N I; [contradiction|].
  inversion N as [|? ? NI ND]; subst. destruct (Nat.eq_dec x u) as [->|NE].
  - rewrite upd_same, usum_upd_notin by exact NI. lia.
  - destruct I as [E|I]; [congruence|]. rewrite upd_other by exact NE. specialize (IH ND I). lia.
Qed.

Lemma usum_upd_le : forall f u o l, uweight o <= uweight (f u) -> usum (upd f u o) l <= usum f l.
Proof.
  induction l as [|x l IH]; simpl; intros L; [lia|]. specialize (IH L).
  destruct (Nat.eq_dec x u) as [->|NE]; [rewrite upd_same|rewrite upd_other by exact NE]; lia.
Qed.

Lemma usum_upd_lt : forall f u o l, NoDup l -> In u l -> uweight o < uweight (f u) ->
  usum (upd f u o) l < usum f l.
Proof. intros f u o l N I L. pose proof (usum_upd_in f u o l N I). lia. Qed.

Lemma stream_some_known : forall s u x, InvU s u -> stream (obj s u) = Some x -> In u (known s).
Proof. intros s u x IU E. apply (i_known _ _ IU). congruence. Qed.

Theorem progress_decreases : forall s l s', Inv s -> progress_label s l = true -> step s l = Some s' ->
  work_left s' < work_left s.
Proof.
  intros s l s' [HG HU] P H. pose proof (g_nodup _ HG) as ND.
  destruct l; try discriminate P; unfold work_left.
  - (* ArriveNew2 *) step_inv H. subst u0 e0.
    pose proof (i_ins _ _ (HU u) _ Heqw) as SN. destruct (HU u).
    unfold nstream in i_one0. rewrite SN in i_one0.
    assert (EP : procs (obj s u) = []) by (destruct (procs (obj s u)); [reflexivity|simpl in *; lia]).
    simpl. rewrite ?Heqw, ?EP. simpl.
    match goal with |- context [usum (upd _ _ ?o) (add_known _ _)] =>
      assert (usum (upd (obj s) u o) (add_known u (known s)) <= usum (obj s) (known s) + 3) as KEY; [|lia];
      pose proof (usum_upd_in (obj s) u o (known s) ND) as U end.
    unfold add_known. destruct (existsb (Nat.eqb u) (known s)) eqn:EX.
    + apply existsb_exists in EX. destruct EX as (x & I & Q). apply Nat.eqb_eq in Q. subst x.
      specialize (U I). unfold uweight, backlog in U. simpl in U. rewrite SN, EP in U. simpl in U. lia.
    + simpl. rewrite upd_same. rewrite usum_upd_notin.
      * unfold uweight, backlog. simpl. lia.
      * intros I. assert (existsb (Nat.eqb u) (known s) = true); [|congruence].
        apply existsb_exists. exists u. split; [exact I|apply Nat.eqb_refl].
  - (* Spawn *) step_inv H. subst u0. simpl. rewrite ?Heqw. simpl. rewrite app_length. simpl.
    match goal with |- context [usum (upd _ _ ?o) _] =>
      assert (usum (upd (obj s) u o) (known s) <= usum (obj s) (known s)) by (apply usum_upd_le; unfold uweight, backlog; simpl; lia) end.
    lia.
  - (* Start *) step_inv H. subst u0. simpl. rewrite ?Heql. simpl.
    match goal with |- context [usum (upd _ _ ?o) _] =>
      assert (usum (upd (obj s) u o) (known s) <= usum (obj s) (known s)) by (apply usum_upd_le; unfold uweight, backlog; simpl; lia) end.
    lia.
  - (* Get *) step_inv H. subst e0. simpl. unfold set_obj. simpl.
    match goal with |- context [usum (upd _ _ ?o) _] =>
      assert (usum (upd (obj s) u o) (known s) < usum (obj s) (known s)) end.
    { apply usum_upd_lt; [exact ND|eapply stream_some_known; eauto|].
      unfold uweight, backlog. simpl. rewrite Heqo. simpl. rewrite app_length. simpl. lia. }
    lia.
  - (* GetEOS *) step_inv H. match goal with R : remove1 u (active s) = Some _ |- _ => rename R into HR end.
    simpl. pose proof (remove1_length _ _ _ HR) as LA.
    match goal with |- context [usum (upd _ _ ?o) _] =>
      assert (usum (upd (obj s) u o) (known s) <= usum (obj s) (known s)) end.
    { apply usum_upd_le. unfold uweight, backlog. simpl. lia. }
    unfold uid, ev in *. lia.
  - (* Timeout of an idle worker *) simpl in P. step_inv H;
      try discriminate P;
      try (match goal with E : stream (obj s u) = Some _ |- _ => rewrite E in P end; discriminate P).
    match goal with R : remove1 u (active s) = Some _ |- _ => rename R into HR end.
    simpl. pose proof (remove1_length _ _ _ HR) as LA.
    match goal with |- context [usum (upd _ _ ?o) _] =>
      assert (usum (upd (obj s) u o) (known s) <= usum (obj s) (known s)) end.
    { apply usum_upd_le. unfold uweight, backlog. simpl. lia. }
    unfold uid, ev in *. lia.
  - (* End *) step_inv H.
    match goal with R : remove1 e _ = Some _ |- _ =>
      destruct (remove1_single _ _ _ R (procs_le1 _ _ (HU u))) as [HP ->] end.
    simpl. unfold set_obj. simpl.
    match goal with |- context [usum (upd _ _ ?o) _] =>
      assert (usum (upd (obj s) u o) (known s) < usum (obj s) (known s)) end.
    { destruct (HU u). unfold nstream in i_one0. rewrite HP in i_one0. simpl in i_one0.
      destruct (stream (obj s u)) as [x|] eqn:ES; [|lia].
      apply usum_upd_lt; [exact ND|apply i_known0; congruence|].
      unfold uweight, backlog. simpl. rewrite ES, HP. simpl. lia. }
    lia.
  - (* Exit *) step_inv H. simpl. lia.
Qed.

(* a run made of progress labels only *)
Fixpoint progress_run (s : st) (tr : list label) : option st :=
  match tr with
  | [] => Some s
  | l :: tr' => if progress_label s l then match step s l with Some s' => progress_run s' tr' | None => None end
                else None
  end.

Theorem progress_bounded : forall tr s s', Inv s -> progress_run s tr = Some s' ->
  List.length tr + work_left s' <= work_left s /\ Inv s' /\ run s tr = Some s'.
Proof.
  induction tr as [|l tr IH]; simpl; intros s s' HI H.
  - injection H as <-. auto.
  - destruct (progress_label s l) eqn:P; [|discriminate]. destruct (step s l) as [s1|] eqn:E; [|discriminate].
    pose proof (progress_decreases _ _ _ HI P E) as D. pose proof (step_Inv _ _ _ HI E) as HI1.
    destruct (IH _ _ HI1 H) as (B & I' & R). split; [lia|]. split; [exact I'|]. exact R.
Qed.

Lemma progress_run_ph : forall tr s s', progress_run s tr = Some s' ->
  ph s' = ph s /\ cancel_pc s' = cancel_pc s /\ limit s' = limit s.
Proof.
  induction tr as [|l tr IH]; simpl; intros s s' H.
  - injection H as <-. auto.
  - destruct (progress_label s l) eqn:P; [|discriminate]. destruct (step s l) as [s1|] eqn:E; [|discriminate].
    destruct (IH _ _ H) as (A & B & C). rewrite A, B, C.
    destruct l; try discriminate P; step_inv E; auto.
Qed.

(* Liveness for EVERY scheduler: from a reachable state, whatever internal steps are taken (in any order,
   by any object), there are at most work_left s of them, and when none is possible any more, every object
   whose processor never failed has all its arrived events processed. *)
Theorem eventually_processed : forall lim tr0 s tr s', run (init lim) tr0 = Some s ->
  ph s <> PClosed -> (ph s = PAlive \/ in_spawn (cancel_pc s) = false) -> limit_positive s = true ->
  progress_run s tr = Some s' ->
  List.length tr <= work_left s /\
  ((forall l, progress_label s' l = true -> step s' l = None) ->
   forall u, intact (obj s' u) = true -> processed (obj s' u) = arrived (obj s' u)).
Proof.
  intros lim tr0 s tr s' R L PH LP PR. pose proof (reach_Inv _ _ _ R) as HI.
  destruct (progress_bounded _ _ _ HI PR) as (B & _ & R').
  split; [lia|]. intros Q u I.
  destruct (list_eq_dec Nat.eq_dec (processed (obj s' u)) (arrived (obj s' u))) as [E|NE]; [exact E|exfalso].
  destruct (progress_run_ph _ _ _ PR) as (A1 & A2 & A3).
  assert (R2 : run (init lim) (tr0 ++ tr) = Some s').
  { clear - R R'. revert R. generalize (init lim). induction tr0 as [|l t IH]; simpl; intros s0 R.
    - injection R as ->. exact R'.
    - destruct (step s0 l); [apply IH; exact R|discriminate]. }
  destruct (no_deadlock lim (tr0 ++ tr) s' u R2) as (l & s2 & P & S); try assumption.
  - rewrite A1. exact L.
  - rewrite A1, A2. exact PH.
  - unfold limit_positive in *. rewrite A3. exact LP.
  - rewrite (Q l P) in S. discriminate.
Qed.

(* ---------- non-vacuity of the liveness and drain statements ---------- *)
(* from the race state of tr_example: the internal steps that remain, none enabled afterwards that matters;
   7 steps taken, work_left was large enough, and both objects end fully processed *)
Definition tr_rest : list label :=
  [LGet 0 2 false; LEnd 0 2; LTimeout 0; LExit; LStart 1; LGet 1 1 false; LEnd 1 1; LTimeout 1; LExit].

Example eventually_processed_example :
  exists s s', run (init (Some 1)) (firstn 10 tr_example) = Some s /\ progress_run s tr_rest = Some s' /\
    ph s = PAlive /\ limit_positive s = true /\ work_left s = 11 /\ work_left s' = 0 /\
    processed (obj s' 0) = [0; 2] /\ arrived (obj s' 0) = [0; 2] /\ processed (obj s' 1) = [1] /\
    quiet s' [0; 1] true = true.
Proof. eexists. eexists. split; [vm_compute; reflexivity|]. split; [vm_compute; reflexivity|]. vm_compute. repeat split. Qed.

(* the watcher is cancelled while it holds an event of object 1 (before the insertion): draining still completes *)
Definition tr_cancel_insert : list label :=
  [LArriveNew1 0 0; LArriveNew2 0 0; LSpawn 0; LStart 0; LGet 0 0 false; LArriveNew1 1 1; LCancel;
   LEnd 0 0; LPutEOS; LGetEOS 0; LExit; LDepleted].

Example drain_example :
  exists s, run (init None) tr_cancel_insert = Some s /\ ph s = PDepleted /\ timedout s = false /\
    cancel_pc s = WInsert 1 1 /\ in_spawn (cancel_pc s) = false /\ intact (obj s 0) = true /\
    processed (obj s 0) = [0] /\ arrived (obj s 0) = [0].
Proof. eexists. split; [vm_compute; reflexivity|]. vm_compute. repeat split. Qed.

(* a state satisfying the hypotheses of quiescent_complete with a non-trivial history *)
Example quiescent_example :
  exists s, run (init (Some 1)) (firstn 15 tr_example) = Some s /\ ph s = PAlive /\ intact (obj s 0) = true /\
    (forall e p, step s (LGet 0 e p) = None) /\ (forall e, step s (LEnd 0 e) = None) /\
    npend (obj s 0) = 0 /\ unsp s 0 = 0 /\ arrived (obj s 0) = [0; 2].
Proof. eexists. split; [vm_compute; reflexivity|]. vm_compute. repeat split. Qed.

Theorem progress_decreases_reach : forall lim tr s l s', run (init lim) tr = Some s ->
  progress_label s l = true -> step s l = Some s' -> work_left s' < work_left s.
Proof. intros lim tr s l s' R. exact (progress_decreases s l s' (reach_Inv lim tr s R)). Qed.
