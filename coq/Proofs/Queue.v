(* S-tie lemmas for the queueing model; the LTS proofs are in Proofs/QueueInv.v (re-exported). *)
From Coq Require Import List String.
From KV Require Import Gen.Awaits Model.Queue Model.QueueSk.
From KV Require Export Proofs.QueueInv.
Import ListNotations.

(* ---------- S-tie: the await skeletons of the current source are the ones the model assumes ---------- *)
Lemma awaits_watcher_ok : awaits_watcher = expected_awaits_watcher. Proof. reflexivity. Qed.
Lemma awaits_worker_ok : awaits_worker = expected_awaits_worker. Proof. reflexivity. Qed.
Lemma awaits_wait_for_depletion_ok : awaits_wait_for_depletion = expected_awaits_wait_for_depletion. Proof. reflexivity. Qed.
Lemma awaits_Scheduler_spawn_ok : awaits_Scheduler_spawn = expected_awaits_Scheduler_spawn. Proof. reflexivity. Qed.
Lemma awaits_Scheduler_task_spawner_ok : awaits_Scheduler_task_spawner = expected_awaits_Scheduler_task_spawner. Proof. reflexivity. Qed.
Lemma awaits_Scheduler_task_cleaner_ok : awaits_Scheduler_task_cleaner = expected_awaits_Scheduler_task_cleaner. Proof. reflexivity. Qed.
Lemma awaits_Scheduler_close_ok : awaits_Scheduler_close = expected_awaits_Scheduler_close. Proof. reflexivity. Qed.

