(* C04 — "the framework's own writes (progress, last-handled state, touch markers) never count as a
   change, so handling can never trigger itself": the diff-base store under the guard of F41, the whole
   accumulated patch of one processing cycle, and the closed loop (the next detection sees an empty diff). *)
From Coq Require Import ZArith NArith List String Bool Ascii Lia.
From KV Require Import Base.Json Base.Dicts Model.Keys Model.Storage Model.Diff Model.Essence Model.OwnWrites
  Proofs.C04Own Proofs.C04Bridge Proofs.C04Other Proofs.C04Diff.
Import ListNotations.
Open Scope string_scope.
Open Scope list_scope.

(* ====================================================================================================== *)
(* 1. the diff-base store, under exactly the guard F41 needs                                               *)
(* ====================================================================================================== *)
Theorem own_diffbase_store_invisible : forall dg Q key v1 Q' pv1 verbose tk kvs md A e p,
  Q <> "" -> C04Own.no_slash Q = true -> Q' <> "" ->
  lookup "metadata" kvs = Some (JObj md) -> lookup "annotations" md = Some (JObj A) ->
  (forall j, In j (keys A) -> under_prefix Q j = true ->
     vis Q' (full_keys dg Q v1 (body_with kvs md A) key) A j = false) ->
  dstore dg (DAnn Q key v1 []) (JObj kvs) (JObj []) e = Ok p ->
  essence dg (DAnn Q key v1 []) (PAnn Q' pv1 verbose tk) (merge (JObj kvs) p) []
  = essence dg (DAnn Q key v1 []) (PAnn Q' pv1 verbose tk) (JObj kvs) [].
Proof.
  intros dg Q key v1 Q' pv1 verbose tk kvs md A e p HQ Hs HQ' Hm Ha Hg H.
  exact (other_operator_diffbase_store_invisible dg Q key v1 Q' pv1 verbose tk kvs md A dg Q key v1 [] e p
           HQ' HQ Hs Hm Ha Hg H).
Qed.

(* the normal life of an object: whatever it carries under Q/ is the storage's own key or a progress key
   (in particular: nothing under Q/ at all) *)
Corollary own_diffbase_first_store_invisible : forall dg Q key v1 Q' pv1 verbose tk kvs md A e p,
  Q <> "" -> C04Own.no_slash Q = true -> Q' <> "" ->
  lookup "metadata" kvs = Some (JObj md) -> lookup "annotations" md = Some (JObj A) ->
  (forall j, In j (keys A) -> under_prefix Q j = true ->
     mem_str j (full_keys dg Q v1 (body_with kvs md A) key) = true \/ under_prefix Q' j = true) ->
  dstore dg (DAnn Q key v1 []) (JObj kvs) (JObj []) e = Ok p ->
  essence dg (DAnn Q key v1 []) (PAnn Q' pv1 verbose tk) (merge (JObj kvs) p) []
  = essence dg (DAnn Q key v1 []) (PAnn Q' pv1 verbose tk) (JObj kvs) [].
Proof.
  intros dg Q key v1 Q' pv1 verbose tk kvs md A e p HQ Hs HQ' Hm Ha Hg H.
  eapply own_diffbase_store_invisible; eauto.
  intros j Hj Hu. destruct (Hg j Hj Hu) as [E|E]; [now apply ow_vis_mem|now apply ow_vis_under_P'].
Qed.

Corollary own_diffbase_fresh_store_invisible : forall dg Q key v1 Q' pv1 verbose tk kvs md A e p,
  Q <> "" -> C04Own.no_slash Q = true -> Q' <> "" ->
  lookup "metadata" kvs = Some (JObj md) -> lookup "annotations" md = Some (JObj A) ->
  (forall j, In j (keys A) -> under_prefix Q j = false) ->
  dstore dg (DAnn Q key v1 []) (JObj kvs) (JObj []) e = Ok p ->
  essence dg (DAnn Q key v1 []) (PAnn Q' pv1 verbose tk) (merge (JObj kvs) p) []
  = essence dg (DAnn Q key v1 []) (PAnn Q' pv1 verbose tk) (JObj kvs) [].
Proof.
  intros dg Q key v1 Q' pv1 verbose tk kvs md A e p HQ Hs HQ' Hm Ha Hg H.
  eapply own_diffbase_first_store_invisible; eauto.
  intros j Hj Hu. rewrite (Hg j Hj) in Hu. discriminate.
Qed.

(* ====================================================================================================== *)
(* patches as "empty or an annotations patch": one representation for both                                *)
(* ====================================================================================================== *)
Definition cy_rep (p : json) (pa : obj) : Prop := (p = JObj [] /\ pa = []) \/ p = ann_patch pa.

Lemma cy_rep_empty : cy_rep (JObj []) [].
Proof. left. auto. Qed.

Lemma cy_rep_ensure : forall p pa k v, cy_rep p pa -> ensure p (ann_path k) v = Ok (ann_patch (set k v pa)).
Proof. intros p pa k v [[-> ->]| ->]; reflexivity. Qed.

Lemma cy_rep_resolve : forall p pa k, cy_rep p pa -> resolve p (ann_path k) = lookup k pa.
Proof. intros p pa k [[-> ->]| ->]; [reflexivity|]. unfold ann_patch, ann_path. cbn. destruct (lookup k pa); reflexivity. Qed.

Lemma cy_rep_resolve_strict : forall p pa k, cy_rep p pa ->
  resolve_strict p ["metadata"; "annotations"; k] = match lookup k pa with Some v => Ok v | None => ErrKey end.
Proof. intros p pa k [[-> ->]| ->]; [reflexivity|]. unfold ann_patch. cbn. destruct (lookup k pa); reflexivity. Qed.

Lemma cy_rep_remove : forall p pa k, cy_rep p pa -> exists p', remove p (ann_path k) = Ok p' /\ cy_rep p' (del k pa).
Proof.
  intros p pa k [[-> ->]| ->].
  - exists (JObj []). split; [reflexivity|apply cy_rep_empty].
  - rewrite br_remove_ann. eexists. split; [reflexivity|].
    destruct (del k pa) eqn:E; [left; auto|right; reflexivity].
Qed.

Lemma cy_rep_merge : forall kvs md A p pa,
  lookup "metadata" kvs = Some (JObj md) -> lookup "annotations" md = Some (JObj A) ->
  cy_rep p pa -> scalar_vals pa -> merge (JObj kvs) p = body_with kvs md (upd_ann pa A).
Proof.
  intros kvs md A p pa Hm Ha [[-> ->]| ->] Hs.
  - rewrite br_merge_empty. symmetry. now apply br_body_with_id.
  - now apply br_merge_ann.
Qed.

Lemma cy_ensure_all : forall ks p pa v, cy_rep p pa ->
  exists p', ensure_all p ks v = Ok p' /\ cy_rep p' (ot_setall v ks pa).
Proof.
  induction ks as [|k ks IH]; intros p pa v Hr; cbn [ensure_all ot_setall fold_left].
  - exists p. auto.
  - rewrite (cy_rep_ensure p pa k v Hr). cbn [bind]. apply IH. now right.
Qed.

(* ---------- association-list facts ---------- *)
Lemma cy_in_keys : forall (k : string) (v : json) l, In (k, v) l -> In k (keys l).
Proof. intros k v l H. unfold keys. change k with (fst (k, v)). now apply in_map. Qed.

Lemma cy_keys_in : forall (k : string) (l : obj), In k (keys l) -> exists v, In (k, v) l.
Proof.
  intros k l H. unfold keys in H. apply in_map_iff in H as [[a b] [E H]]. cbn in E. subst a. eauto.
Qed.

Lemma cy_lookup_keys : forall (k : string) (l : obj), lookup k l <> None <-> In k (keys l).
Proof.
  intros k l. induction l as [|[a b] l IH]; simpl.
  - split; [congruence|tauto].
  - destruct (String.eqb_spec k a).
    + subst. split; [auto|congruence].
    + rewrite IH. split; [auto|]. intros [E|H]; [congruence|auto].
Qed.

Lemma cy_lookup_none_keys : forall (k : string) (l : obj), lookup k l = None -> ~ In k (keys l).
Proof. intros k l H Hin. apply cy_lookup_keys in Hin. congruence. Qed.

Lemma cy_in_set : forall (k k' : string) (w v : json) l,
  In (k, w) (set k' v l) -> (k = k' /\ w = v) \/ In (k, w) l.
Proof.
  intros k k' w v l. induction l as [|[a b] l IH]; simpl.
  - intros [E|[]]. inversion E. auto.
  - destruct (String.eqb k' a).
    + intros [E|H]; [inversion E; auto|auto].
    + intros [E|H]; [auto|]. destruct (IH H); auto.
Qed.

Lemma cy_in_del : forall (k k' : string) (w : json) l, In (k, w) (del k' l) -> In (k, w) l.
Proof.
  intros k k' w l. induction l as [|[a b] l IH]; simpl; auto.
  destruct (String.eqb k' a); [auto|]. intros [E|H]; auto.
Qed.

Lemma cy_keys_del_other : forall (k k' : string) (l : obj), k <> k' -> In k (keys l) -> In k (keys (del k' l)).
Proof.
  intros k k' l Hn H. rewrite ow_keys_del. apply filter_In. split; auto.
  apply negb_true_iff. apply String.eqb_neq. congruence.
Qed.

Lemma cy_in_setall : forall v ks pa (k : string) w, In (k, w) (ot_setall v ks pa) -> w = v \/ In (k, w) pa.
Proof.
  induction ks as [|k0 ks IH]; intros pa k w H; cbn [ot_setall fold_left] in H; auto.
  apply IH in H as [H|H]; auto. apply cy_in_set in H as [[_ H]|H]; auto.
Qed.

(* ---------- what the merged annotations hold at a key of the patch ---------- *)
Lemma cy_upd_lookup_notin : forall pa A (k : string), ~ In k (keys pa) -> lookup k (upd_ann pa A) = lookup k A.
Proof.
  induction pa as [|[k1 v1] pa IH]; intros A k Hn; [reflexivity|].
  rewrite br_upd_ann_cons. rewrite IH by (intros H; apply Hn; now right).
  assert (k <> k1) by (intros ->; apply Hn; now left).
  destruct v1; (now apply ow_lookup_set_other) || (now apply ow_lookup_del_other).
Qed.

Lemma cy_upd_lookup_in : forall pa A (k : string) v,
  In k (keys pa) -> (forall w, In (k, w) pa -> w = v) -> v <> JNull -> lookup k (upd_ann pa A) = Some v.
Proof.
  induction pa as [|[k1 v1] pa IH]; intros A k v Hin Hall Hv; [destruct Hin|].
  rewrite br_upd_ann_cons.
  destruct (in_dec string_dec k (keys pa)) as [Hk|Hk].
  - apply IH; auto. intros w Hw. apply Hall. now right.
  - rewrite cy_upd_lookup_notin by assumption.
    destruct Hin as [E|Hin]; [|contradiction]. cbn in E. subst k1.
    assert (v1 = v) by (apply Hall; now left). subst v1.
    destruct v; try congruence; apply ow_lookup_set_same.
Qed.

(* ---------- _store_marker on a represented patch ---------- *)
Lemma cy_store_marker : forall P kvs md A p pa p',
  lookup "metadata" kvs = Some (JObj md) -> lookup "annotations" md = Some (JObj A) ->
  cy_rep p pa -> store_marker P (JObj kvs) p = Ok p' ->
  exists pa', cy_rep p' pa' /\
    ((pa' = pa /\ (P = "" \/ known_without_marker P = true \/ In (ot_marker P) (keys A) \/ In (ot_marker P) (keys pa)))
     \/ (pa' = set (ot_marker P) (JStr "yes") pa /\ lookup (ot_marker P) pa = None)).
Proof.
  intros P kvs md A p pa p' Hm Ha Hr H. unfold store_marker in H.
  destruct (String.eqb P "") eqn:EP.
  { apply String.eqb_eq in EP. cbn [negb andb] in H. injection H as <-. exists pa. auto. }
  destruct (known_without_marker P) eqn:EK.
  { cbn [negb andb] in H. injection H as <-. exists pa. auto 6. }
  cbn [negb andb] in H. fold (ot_marker P) in H.
  rewrite (cy_rep_resolve_strict p pa (ot_marker P) Hr) in H.
  cbn [resolve_strict] in H. rewrite Hm, Ha in H.
  destruct (lookup (ot_marker P) A) eqn:EA.
  - assert (In (ot_marker P) (keys A)) by (apply cy_lookup_keys; congruence).
    destruct (lookup (ot_marker P) pa); injection H as <-; exists pa; auto 7.
  - destruct (lookup (ot_marker P) pa) eqn:Ep.
    + injection H as <-. exists pa. split; auto. left. split; auto. right. right. right.
      apply cy_lookup_keys. congruence.
    + change (ensure p (ann_path (ot_marker P)) (JStr "yes") = Ok p') in H.
      rewrite (cy_rep_ensure p pa _ _ Hr) in H. injection H as <-.
      exists (set (ot_marker P) (JStr "yes") pa). split; [now right|]. right. auto.
Qed.

(* ====================================================================================================== *)
(* 3. no self-trigger: after the store the next detection sees old = new = e and an empty diff             *)
(* ====================================================================================================== *)
Lemma cy_filter_idem : forall {T} (f g : T -> bool) l,
  (forall x, f x = true -> g x = true) -> filter g (filter f l) = filter f l.
Proof.
  intros T f g l H. induction l as [|a l IH]; simpl; auto.
  destruct (f a) eqn:E; simpl; [rewrite (H a E)|]; now rewrite IH.
Qed.

(* pclear is idempotent on essences *)
Lemma cy_pclear_NF : forall Q' pv1 verbose tk m ks A e0, ow_good m ->
  lookup "metadata" e0 = None -> lookup "status" e0 = None ->
  pclear (PAnn Q' pv1 verbose tk) (ow_NF m (filter (fun kv => vis Q' ks A (fst kv)) A) e0)
  = Ok (ow_NF m (filter (fun kv => vis Q' ks A (fst kv)) A) e0).
Proof.
  intros Q' pv1 verbose tk m ks A e0 Hg Hm Hs. cbn [pclear]. rewrite ow_ra_NF by assumption.
  rewrite cy_filter_idem; [reflexivity|].
  intros [j x] Hv. cbn [fst] in *. unfold vis in Hv. apply andb_true_iff in Hv as [_ Hv].
  apply negb_true_iff in Hv. rewrite Hv. now rewrite andb_false_r.
Qed.

Theorem pclear_essence_idempotent : forall dg Q key v1 Q' pv1 verbose tk kvs md A e,
  Q' <> "" -> lookup "metadata" kvs = Some (JObj md) -> lookup "annotations" md = Some (JObj A) ->
  essence dg (DAnn Q key v1 []) (PAnn Q' pv1 verbose tk) (JObj kvs) [] = Ok e ->
  pclear (PAnn Q' pv1 verbose tk) e = Ok e /\ exists o, e = JObj o.
Proof.
  intros dg Q key v1 Q' pv1 verbose tk kvs md A e HQ' Hm Ha He.
  rewrite <- (br_body_with_id kvs md A Hm Ha) in He. rewrite essence_ann_form in He by assumption.
  injection He as <-. split.
  - apply cy_pclear_NF; (apply ow_lab_good || apply ow_e0_no_metadata || apply ow_e0_no_status).
  - unfold ow_NF. eauto.
Qed.

(* the patch of the diff-base store: every key of the storage is set to the encoded essence *)
Lemma cy_dstore_patch : forall dg Q key v1 kvs md A e p,
  lookup "metadata" kvs = Some (JObj md) -> lookup "annotations" md = Some (JObj A) ->
  dstore dg (DAnn Q key v1 []) (JObj kvs) (JObj []) e = Ok p ->
  exists pa, p = ann_patch pa /\ scalar_vals pa /\
    forall k, In k (full_keys dg Q v1 (JObj kvs) key) -> In k (keys pa) /\ forall w, In (k, w) pa -> w = JEnc e.
Proof.
  intros dg Q key v1 kvs md A e p Hm Ha H. cbn [dstore] in H.
  set (ks := full_keys dg Q v1 (JObj kvs) key) in *.
  destruct (cy_ensure_all ks (JObj []) [] (JEnc e) cy_rep_empty) as [p1 [E1 R1]].
  rewrite E1 in H. cbn [bind] in H.
  set (pa1 := ot_setall (JEnc e) ks []) in *.
  assert (S1 : scalar_vals pa1) by (apply ot_setall_scalar; reflexivity).
  assert (K1 : forall k, In k ks -> In k (keys pa1)) by (intros; apply ot_setall_keys; now left).
  assert (V1 : forall k w, In (k, w) pa1 -> w = JEnc e).
  { intros k w Hw. apply cy_in_setall in Hw as [Hw|[]]. exact Hw. }
  destruct (cy_store_marker Q kvs md A p1 pa1 p Hm Ha R1 H) as [pa [R [[-> _]|[-> Hn]]]].
  - exists pa1. split; [|split; auto].
    + destruct R as [[_ E]| ->]; [|reflexivity].
      destruct ks as [|k0 ks'] eqn:Eks; [exact (False_ind _ (br_full_keys_nonempty _ _ _ _ _ Eks))|].
      specialize (K1 k0 (or_introl eq_refl)). rewrite E in K1. destruct K1.
    + intros k Hk. split; eauto.
  - exists (set (ot_marker Q) (JStr "yes") pa1). split; [|split].
    + destruct R as [[_ E]| ->]; [|reflexivity].
      pose proof (ot_keys_set_self (ot_marker Q) (JStr "yes") pa1) as Hk. rewrite E in Hk. destruct Hk.
    + now apply br_scalar_set.
    + intros k Hk. split; [apply ot_keys_set_mono; auto|].
      intros w Hw. apply cy_in_set in Hw as [[-> _]|Hw]; eauto.
      exfalso. exact (cy_lookup_none_keys _ _ Hn (K1 _ Hk)).
Qed.

Lemma cy_resolve_body_with : forall kvs md A k, resolve (body_with kvs md A) (ann_path k) = lookup k A.
Proof. intros. unfold body_with, ann_path. cbn [resolve]. rewrite ow_lookup_set_same. rewrite ow_lookup_set_same. destruct (lookup k A); reflexivity. Qed.

(* what the next detection fetches as "old" is exactly the essence that was stored *)
Theorem diffbase_fetch_after_store : forall dg Q key v1 kvs md A e p o,
  lookup "metadata" kvs = Some (JObj md) -> lookup "annotations" md = Some (JObj A) ->
  e = JObj o ->
  dstore dg (DAnn Q key v1 []) (JObj kvs) (JObj []) e = Ok p ->
  dfetch dg (DAnn Q key v1 []) (merge (JObj kvs) p) = Ok (Some e).
Proof.
  intros dg Q key v1 kvs md A e p o Hm Ha Eo H.
  destruct (cy_dstore_patch dg Q key v1 kvs md A e p Hm Ha H) as [pa [-> [Hsc Hk]]].
  rewrite (br_merge_ann kvs md A pa Hm Ha Hsc). cbn [dfetch].
  rewrite (ow_full_keys_indep dg Q v1 kvs md (upd_ann pa A) A key), (br_body_with_id kvs md A Hm Ha).
  destruct (full_keys dg Q v1 (JObj kvs) key) as [|k0 ks] eqn:Eks;
    [exact (False_ind _ (br_full_keys_nonempty _ _ _ _ _ Eks))|].
  destruct (Hk k0 (or_introl eq_refl)) as [Hin Hall].
  cbn [fetch_keys]. rewrite cy_resolve_body_with.
  rewrite (cy_upd_lookup_in pa A k0 (JEnc e) Hin Hall) by discriminate.
  subst e. reflexivity.
Qed.

Theorem no_self_trigger : forall dg Q key v1 Q' pv1 verbose tk kvs md A e p,
  Q <> "" -> C04Own.no_slash Q = true -> Q' <> "" ->
  lookup "metadata" kvs = Some (JObj md) -> lookup "annotations" md = Some (JObj A) ->
  (forall j, In j (keys A) -> under_prefix Q j = true ->
     vis Q' (full_keys dg Q v1 (body_with kvs md A) key) A j = false) ->
  essence dg (DAnn Q key v1 []) (PAnn Q' pv1 verbose tk) (JObj kvs) [] = Ok e ->
  wf e = true ->
  dstore dg (DAnn Q key v1 []) (JObj kvs) (JObj []) e = Ok p ->
  old_new_diff dg (DAnn Q key v1 []) (PAnn Q' pv1 verbose tk) (merge (JObj kvs) p) [] = Ok (Some e, e, []).
Proof.
  intros dg Q key v1 Q' pv1 verbose tk kvs md A e p HQ Hs HQ' Hm Ha Hg He Hwf H.
  destruct (pclear_essence_idempotent dg Q key v1 Q' pv1 verbose tk kvs md A e HQ' Hm Ha He) as [Hc [o Eo]].
  unfold old_new_diff, old_essence.
  rewrite (diffbase_fetch_after_store dg Q key v1 kvs md A e p o Hm Ha Eo H). cbn [bind].
  rewrite Hc. cbn [bind].
  rewrite (own_diffbase_store_invisible dg Q key v1 Q' pv1 verbose tk kvs md A e p HQ Hs HQ' Hm Ha Hg H).
  rewrite He. cbn [bind opt_json]. unfold diff.
  rewrite c04_diff_iter_py by now apply c04_py_eqb_refl. reflexivity.
Qed.

Corollary no_self_trigger_same : forall dg Q key v1 Q' pv1 verbose tk kvs md A e p,
  Q <> "" -> C04Own.no_slash Q = true -> Q' <> "" ->
  lookup "metadata" kvs = Some (JObj md) -> lookup "annotations" md = Some (JObj A) ->
  (forall j, In j (keys A) -> under_prefix Q j = true ->
     vis Q' (full_keys dg Q v1 (body_with kvs md A) key) A j = false) ->
  essence dg (DAnn Q key v1 []) (PAnn Q' pv1 verbose tk) (JObj kvs) [] = Ok e ->
  wf e = true ->
  dstore dg (DAnn Q key v1 []) (JObj kvs) (JObj []) e = Ok p ->
  exists old new d,
    old_new_diff dg (DAnn Q key v1 []) (PAnn Q' pv1 verbose tk) (merge (JObj kvs) p) [] = Ok (old, new, d) /\
    classify_change old d = KSame /\ must_store_diffbase old new = false.
Proof.
  intros. exists (Some e), e, []. split; [eapply no_self_trigger; eauto|]. split; [reflexivity|].
  unfold must_store_diffbase. cbn [opt_json]. now rewrite c04_py_eqb_refl.
Qed.


(* ---------- well-formedness of the essence from well-formedness of the body ---------- *)
Lemma cy_wf_intro : forall l : obj,
  nodup_keys (keys l) = true -> (forall k v, In (k, v) l -> wf v = true) -> wf (JObj l) = true.
Proof.
  intros l N H. cbn [wf]. apply andb_true_iff. split; [exact N|].
  apply forallb_forall. intros [k v] Hin. cbn [snd]. eauto.
Qed.

Lemma cy_nodup_set : forall (k : string) (v : json) l, nodup_keys (keys l) = true -> nodup_keys (keys (set k v l)) = true.
Proof.
  intros k v l. induction l as [|[a b] l IH]; cbn [set keys map fst nodup_keys]; intros H; [reflexivity|].
  apply andb_true_iff in H as [H1 H2].
  destruct (String.eqb_spec k a) as [->|Hn]; cbn [map fst nodup_keys].
  - now rewrite H1, H2.
  - apply andb_true_iff. split; [|now apply IH].
    apply negb_true_iff. destruct (mem_str a (map fst (set k v l))) eqn:E; auto.
    apply ow_mem_str_in in E. apply (br_keys_set_in k v l a) in E as [E|E]; [congruence|].
    apply ow_mem_str_in in E. unfold keys in E. rewrite E in H1. discriminate.
Qed.

Lemma cy_nodup_del : forall (k : string) (l : obj), nodup_keys (keys l) = true -> nodup_keys (keys (del k l)) = true.
Proof.
  intros k l. induction l as [|[a b] l IH]; cbn [del keys map fst nodup_keys]; intros H; [reflexivity|].
  apply andb_true_iff in H as [H1 H2].
  destruct (String.eqb k a); [now apply IH|]. cbn [map fst nodup_keys].
  apply andb_true_iff. split; [|now apply IH].
  apply negb_true_iff. destruct (mem_str a (map fst (del k l))) eqn:E; auto.
  apply ow_mem_str_in in E. apply (br_keys_del_in k l a) in E.
  apply ow_mem_str_in in E. unfold keys in E. rewrite E in H1. discriminate.
Qed.

Lemma cy_nodup_filter : forall (f : string * json -> bool) (l : obj),
  nodup_keys (keys l) = true -> nodup_keys (keys (filter f l)) = true.
Proof.
  intros f l. induction l as [|[a b] l IH]; cbn [filter keys map fst nodup_keys]; intros H; [reflexivity|].
  apply andb_true_iff in H as [H1 H2].
  destruct (f (a, b)); [|now apply IH]. cbn [map fst nodup_keys].
  apply andb_true_iff. split; [|now apply IH].
  apply negb_true_iff. destruct (mem_str a (map fst (filter f l))) eqn:E; auto.
  apply ow_mem_str_in in E. apply in_map_iff in E as [[a' b'] [Ea E]]. cbn in Ea. subst a'.
  apply filter_In in E as [E _]. apply cy_in_keys in E.
  apply ow_mem_str_in in E. unfold keys in E. rewrite E in H1. discriminate.
Qed.

Lemma cy_wf_set : forall k v l, wf (JObj l) = true -> wf v = true -> wf (JObj (set k v l)) = true.
Proof.
  intros k v l H Hv. apply c04_wf_obj in H as [N H]. apply cy_wf_intro; [now apply cy_nodup_set|].
  intros j w Hw. apply cy_in_set in Hw as [[_ ->]|Hw]; eauto.
Qed.

Lemma cy_wf_del : forall k l, wf (JObj l) = true -> wf (JObj (del k l)) = true.
Proof.
  intros k l H. apply c04_wf_obj in H as [N H]. apply cy_wf_intro; [now apply cy_nodup_del|].
  intros j w Hw. apply cy_in_del in Hw. eauto.
Qed.

Lemma cy_wf_filter : forall f l, wf (JObj l) = true -> wf (JObj (filter f l)) = true.
Proof.
  intros f l H. apply c04_wf_obj in H as [N H]. apply cy_wf_intro; [now apply cy_nodup_filter|].
  intros j w Hw. apply filter_In in Hw as [Hw _]. eauto.
Qed.

Lemma cy_wf_lookup : forall k l v, wf (JObj l) = true -> lookup k l = Some v -> wf v = true.
Proof. intros k l v H E. apply c04_wf_obj in H as [_ H]. apply c04_lookup_in in E. eauto. Qed.

Lemma cy_wf_NF : forall m X e0, wf (JObj m) = true -> wf (JObj X) = true -> wf (JObj e0) = true ->
  ow_good m -> wf (ow_NF m X e0) = true.
Proof.
  intros m X e0 Wm WX We Hg. unfold ow_NF.
  destruct (m ++ ow_annpart X) as [|x M] eqn:E; [exact We|].
  apply cy_wf_set; auto. rewrite <- E. clear E.
  destruct Hg as [->|[L [-> _]]]; destruct X as [|x0 X]; cbn [app ow_annpart]; auto.
  - apply cy_wf_intro; [reflexivity|]. intros k v [E|[]]. now inversion E.
  - assert (WL : wf L = true) by (apply (cy_wf_lookup "labels" _ L Wm); reflexivity).
    apply cy_wf_intro; [reflexivity|]. intros k v [E|[E|[]]]; inversion E; subst; auto.
Qed.

Theorem essence_wf : forall dg Q key v1 Q' pv1 verbose tk kvs md A e,
  Q' <> "" -> lookup "metadata" kvs = Some (JObj md) -> lookup "annotations" md = Some (JObj A) ->
  wf (JObj kvs) = true ->
  essence dg (DAnn Q key v1 []) (PAnn Q' pv1 verbose tk) (JObj kvs) [] = Ok e -> wf e = true.
Proof.
  intros dg Q key v1 Q' pv1 verbose tk kvs md A e HQ' Hm Ha Hwf He.
  rewrite <- (br_body_with_id kvs md A Hm Ha) in He. rewrite essence_ann_form in He by assumption.
  injection He as <-.
  assert (Wmd : wf (JObj md) = true) by (eapply cy_wf_lookup; eauto).
  assert (WA : wf (JObj A) = true) by (eapply cy_wf_lookup; eauto).
  apply cy_wf_NF.
  - unfold ow_lab. destruct (lookup "labels" md) as [L|] eqn:EL; [|reflexivity].
    destruct (is_falsy L); [reflexivity|]. apply cy_wf_intro; [reflexivity|].
    intros k v [E|[]]. inversion E; subst. exact (cy_wf_lookup _ _ _ Wmd EL).
  - now apply cy_wf_filter.
  - unfold ow_e0. now repeat apply cy_wf_del.
  - apply ow_lab_good.
Qed.

Theorem no_self_trigger_wf_body : forall dg Q key v1 Q' pv1 verbose tk kvs md A e p,
  Q <> "" -> C04Own.no_slash Q = true -> Q' <> "" ->
  lookup "metadata" kvs = Some (JObj md) -> lookup "annotations" md = Some (JObj A) ->
  (forall j, In j (keys A) -> under_prefix Q j = true ->
     vis Q' (full_keys dg Q v1 (body_with kvs md A) key) A j = false) ->
  wf (JObj kvs) = true ->
  essence dg (DAnn Q key v1 []) (PAnn Q' pv1 verbose tk) (JObj kvs) [] = Ok e ->
  dstore dg (DAnn Q key v1 []) (JObj kvs) (JObj []) e = Ok p ->
  old_new_diff dg (DAnn Q key v1 []) (PAnn Q' pv1 verbose tk) (merge (JObj kvs) p) [] = Ok (Some e, e, []) /\
  classify_change (Some e) [] = KSame.
Proof.
  intros dg Q key v1 Q' pv1 verbose tk kvs md A e p HQ Hs HQ' Hm Ha Hg Hwf He H. split; [|reflexivity].
  eapply no_self_trigger; eauto. eapply essence_wf; eauto.
Qed.

Print Assumptions own_diffbase_store_invisible.
Print Assumptions own_diffbase_first_store_invisible.
Print Assumptions own_diffbase_fresh_store_invisible.
Print Assumptions pclear_essence_idempotent.
Print Assumptions diffbase_fetch_after_store.
Print Assumptions no_self_trigger.
Print Assumptions no_self_trigger_same.
Print Assumptions essence_wf.
Print Assumptions no_self_trigger_wf_body.

(* ====================================================================================================== *)
(* 2. the whole accumulated patch of one processing cycle                                                  *)
(* ====================================================================================================== *)
Definition cy_op_ok (Q Q' : string) (op : own_op) : Prop :=
  match op with
  | OwTouch v => is_obj v = false
  | OwMarker P => P = Q \/ P = Q'
  | _ => True
  end.

(* touch values are not mappings (kopf touches with a timestamp string or None); a marker written on its
   own is the marker of one of the operator's two prefixes *)
Definition ops_ok (Q Q' : string) (ops : list own_op) : Prop := Forall (cy_op_ok Q Q') ops.

Lemma cy_under_two : forall Q Q' k, C04Own.no_slash Q = true -> C04Own.no_slash Q' = true ->
  under_prefix Q k = true -> under_prefix Q' k = true -> Q = Q'.
Proof.
  intros Q Q' k Hs Hs' H H'.
  destruct (ow_under_prefix_split _ _ H) as [n E]. destruct (ow_under_prefix_split _ _ H') as [n' E'].
  pose proof (ow_split_slash_app Q n Hs) as S. pose proof (ow_split_slash_app Q' n' Hs') as S'.
  rewrite <- E in S. rewrite <- E' in S'. congruence.
Qed.

(* the invariant of the accumulated annotations patch *)
Definition cy_inv0 (Q Q' : string) (pa : obj) : Prop :=
  scalar_vals pa /\
  (forall k, In k (keys pa) -> under_prefix Q k = true \/ under_prefix Q' k = true) /\
  (forall k w, In (k, w) pa -> under_prefix Q' k = false -> w <> JNull).

Definition cy_mkr (Q Q' : string) (A pa : obj) : Prop :=
  exists m, key_marks_prefix m = Some Q /\ under_prefix Q' m = false /\ (In m (keys pa) \/ In m (keys A)).

Definition cy_mk (Q Q' : string) (A pa : obj) : Prop :=
  (forall k, In k (keys pa) -> under_prefix Q' k = true) \/ cy_mkr Q Q' A pa.

Definition cy_inv (Q Q' : string) (A pa : obj) : Prop := cy_inv0 Q Q' pa /\ cy_mk Q Q' A pa.

Lemma cy_inv_nil : forall Q Q' A, cy_inv Q Q' A [].
Proof.
  intros. split; [split; [reflexivity|split]|left].
  - intros k [].
  - intros k w [].
  - intros k [].
Qed.

Lemma cy_inv0_set : forall Q Q' pa k v, cy_inv0 Q Q' pa -> is_obj v = false ->
  (under_prefix Q' k = true \/ (under_prefix Q k = true /\ v <> JNull)) -> cy_inv0 Q Q' (set k v pa).
Proof.
  intros Q Q' pa k v [S [U N]] Hv Hk. split; [now apply br_scalar_set|]. split.
  - intros j Hj. apply br_keys_set_in in Hj as [->|Hj]; auto. destruct Hk as [Hk|[Hk _]]; auto.
  - intros j w Hw Hj. apply cy_in_set in Hw as [[-> ->]|Hw]; eauto.
    destruct Hk as [Hk|[_ Hk]]; [congruence|auto].
Qed.

Lemma cy_inv0_del : forall Q Q' pa k, cy_inv0 Q Q' pa -> cy_inv0 Q Q' (del k pa).
Proof.
  intros Q Q' pa k [S [U N]]. split; [now apply br_scalar_del|]. split.
  - intros j Hj. apply U. eapply br_keys_del_in; eauto.
  - intros j w Hw. apply N. eapply cy_in_del; eauto.
Qed.

Lemma cy_mkr_set : forall Q Q' A pa k v, cy_mkr Q Q' A pa -> cy_mkr Q Q' A (set k v pa).
Proof.
  intros Q Q' A pa k v [m [M [U H]]]. exists m. split; auto. split; auto.
  destruct H; auto. left. now apply ot_keys_set_mono.
Qed.

Lemma cy_mk_set : forall Q Q' A pa k v, cy_mk Q Q' A pa -> under_prefix Q' k = true -> cy_mk Q Q' A (set k v pa).
Proof.
  intros Q Q' A pa k v [H|H] Hk; [left|right; now apply cy_mkr_set].
  intros j Hj. apply br_keys_set_in in Hj as [->|Hj]; auto.
Qed.

Lemma cy_mk_del : forall Q Q' A pa k, cy_mk Q Q' A pa -> under_prefix Q' k = true -> cy_mk Q Q' A (del k pa).
Proof.
  intros Q Q' A pa k [H|[m [M [U H]]]] Hk; [left|right].
  - intros j Hj. apply H. eapply br_keys_del_in; eauto.
  - exists m. split; auto. split; auto. destruct H as [H|H]; auto. left.
    apply cy_keys_del_other; auto. intros ->. congruence.
Qed.

Lemma cy_inv_set_own : forall Q Q' A pa k v, cy_inv Q Q' A pa -> is_obj v = false ->
  under_prefix Q' k = true -> cy_inv Q Q' A (set k v pa).
Proof. intros Q Q' A pa k v [I M] Hv Hk. split; [apply cy_inv0_set; auto|now apply cy_mk_set]. Qed.

Lemma cy_inv_del_own : forall Q Q' A pa k, cy_inv Q Q' A pa ->
  under_prefix Q' k = true -> cy_inv Q Q' A (del k pa).
Proof. intros Q Q' A pa k [I M] Hk. split; [now apply cy_inv0_del|now apply cy_mk_del]. Qed.

Lemma cy_inv_setall_own : forall Q Q' A v ks pa, cy_inv Q Q' A pa -> is_obj v = false ->
  (forall k, In k ks -> under_prefix Q' k = true) -> cy_inv Q Q' A (ot_setall v ks pa).
Proof.
  induction ks as [|k ks IH]; intros pa Hi Hv Hu; cbn [ot_setall fold_left]; auto.
  apply IH; auto; [|intros; apply Hu; now right]. apply cy_inv_set_own; auto. apply Hu. now left.
Qed.

Lemma cy_inv0_setall_Q : forall Q Q' v ks pa, cy_inv0 Q Q' pa -> is_obj v = false -> v <> JNull ->
  (forall k, In k ks -> under_prefix Q k = true) -> cy_inv0 Q Q' (ot_setall v ks pa).
Proof.
  induction ks as [|k ks IH]; intros pa Hi Hv Hn Hu; cbn [ot_setall fold_left]; auto.
  apply IH; auto; [|intros; apply Hu; now right]. apply cy_inv0_set; auto. right. split; auto. apply Hu. now left.
Qed.

(* ---------- each framework write preserves the invariant ---------- *)
Lemma cy_marker_own : forall Q Q' kvs md A p pa p',
  lookup "metadata" kvs = Some (JObj md) -> lookup "annotations" md = Some (JObj A) ->
  cy_rep p pa -> cy_inv Q Q' A pa -> store_marker Q' (JObj kvs) p = Ok p' ->
  exists pa', cy_rep p' pa' /\ cy_inv Q Q' A pa'.
Proof.
  intros Q Q' kvs md A p pa p' Hm Ha Hr Hi H.
  destruct (cy_store_marker Q' kvs md A p pa p' Hm Ha Hr H) as [pa' [R [[-> _]|[-> _]]]]; eexists; split; eauto.
  apply cy_inv_set_own; auto. apply ow_marker_under.
Qed.

Lemma cy_marker_Q : forall Q Q' kvs md A p pa p', C04Own.no_slash Q = true ->
  lookup "metadata" kvs = Some (JObj md) -> lookup "annotations" md = Some (JObj A) ->
  cy_rep p pa -> cy_inv Q Q' A pa -> store_marker Q (JObj kvs) p = Ok p' ->
  exists pa', cy_rep p' pa' /\ cy_inv Q Q' A pa'.
Proof.
  intros Q Q' kvs md A p pa p' Hs Hm Ha Hr Hi H.
  destruct (cy_store_marker Q kvs md A p pa p' Hm Ha Hr H) as [pa' [R [[-> _]|[-> _]]]]; eexists; split; eauto.
  destruct Hi as [I0 Mk]. split.
  - apply cy_inv0_set; auto. right. split; [apply ow_marker_under|discriminate].
  - destruct (under_prefix Q' (ot_marker Q)) eqn:E; [now apply cy_mk_set|].
    right. exists (ot_marker Q). split; [now apply ot_marker_marks|]. split; auto. left. apply ot_keys_set_self.
Qed.

Lemma cy_pstore : forall dg Q Q' pv1 verbose tk hkey record kvs md A p pa p', Q' <> "" ->
  lookup "metadata" kvs = Some (JObj md) -> lookup "annotations" md = Some (JObj A) ->
  cy_rep p pa -> cy_inv Q Q' A pa ->
  pstore dg (PAnn Q' pv1 verbose tk) hkey record (JObj kvs) p = Ok p' ->
  exists pa', cy_rep p' pa' /\ cy_inv Q Q' A pa'.
Proof.
  intros dg Q Q' pv1 verbose tk hkey record kvs md A p pa p' HQ' Hm Ha Hr Hi H. cbn [pstore] in H.
  match type of H with bind (ensure_all _ ?ks ?v) _ = _ =>
    destruct (cy_ensure_all ks p pa v Hr) as [p1 [E1 R1]] end.
  rewrite E1 in H. cbn [bind] in H.
  eapply cy_marker_own; eauto. apply cy_inv_setall_own; auto.
  intros k Hk. eapply ow_full_keys_under; eauto.
Qed.

Lemma cy_purge_keys : forall Q Q' A body ks p pa p', cy_rep p pa -> cy_inv Q Q' A pa ->
  (forall k, In k ks -> under_prefix Q' k = true) ->
  purge_keys body p ks = Ok p' -> exists pa', cy_rep p' pa' /\ cy_inv Q Q' A pa'.
Proof.
  intros Q Q' A body. induction ks as [|k ks IH]; intros p pa p' Hr Hi Hu H; cbn [purge_keys] in H.
  - injection H as <-. eauto.
  - assert (Hk : under_prefix Q' k = true) by (apply Hu; now left).
    assert (Hu' : forall j, In j ks -> under_prefix Q' j = true) by (intros; apply Hu; now right).
    unfold purge_path in H. destruct (resolve body (ann_path k)).
    + rewrite (cy_rep_ensure p pa k JNull Hr) in H. cbn [bind] in H.
      apply (IH (ann_patch (set k JNull pa)) (set k JNull pa) p'); auto; [now right|]. now apply cy_inv_set_own.
    + rewrite (cy_rep_resolve p pa k Hr) in H. destruct (lookup k pa).
      * destruct (cy_rep_remove p pa k Hr) as [p1 [E1 R1]]. rewrite E1 in H. cbn [bind] in H.
        apply (IH p1 (del k pa) p'); auto. now apply cy_inv_del_own.
      * cbn [bind] in H. apply (IH p pa p'); auto.
Qed.

Lemma cy_touch_keys : forall Q Q' kvs md A v ks p pa p',
  lookup "metadata" kvs = Some (JObj md) -> lookup "annotations" md = Some (JObj A) ->
  is_obj v = false -> cy_rep p pa -> cy_inv Q Q' A pa ->
  (forall k, In k ks -> under_prefix Q' k = true) ->
  touch_keys Q' (JObj kvs) p ks v = Ok p' -> exists pa', cy_rep p' pa' /\ cy_inv Q Q' A pa'.
Proof.
  intros Q Q' kvs md A v. induction ks as [|k ks IH]; intros p pa p' Hm Ha Hv Hr Hi Hu H; cbn [touch_keys] in H.
  - injection H as <-. eauto.
  - assert (Hk : under_prefix Q' k = true) by (apply Hu; now left).
    assert (Hu' : forall j, In j ks -> under_prefix Q' j = true) by (intros; apply Hu; now right).
    destruct (differs (resolve (JObj kvs) (ann_path k)) v); [|apply (IH p pa p'); auto].
    rewrite (cy_rep_ensure p pa k v Hr) in H. cbn [bind] in H.
    destruct (store_marker Q' (JObj kvs) (ann_patch (set k v pa))) as [p2| | |] eqn:E2; cbn [bind] in H; try discriminate.
    destruct (cy_marker_own Q Q' kvs md A _ (set k v pa) p2 Hm Ha (or_intror eq_refl)
                (cy_inv_set_own Q Q' A pa k v Hi Hv Hk) E2) as [pa2 [R2 I2]].
    apply (IH p2 pa2 p'); auto.
Qed.

Lemma cy_dstore : forall dg Q Q' key v1 e kvs md A p pa p',
  Q <> "" -> C04Own.no_slash Q = true -> C04Own.no_slash Q' = true ->
  lookup "metadata" kvs = Some (JObj md) -> lookup "annotations" md = Some (JObj A) ->
  cy_rep p pa -> cy_inv Q Q' A pa ->
  dstore dg (DAnn Q key v1 []) (JObj kvs) p e = Ok p' -> exists pa', cy_rep p' pa' /\ cy_inv Q Q' A pa'.
Proof.
  intros dg Q Q' key v1 e kvs md A p pa p' HQ Hs Hs' Hm Ha Hr [I0 Mk] H. cbn [dstore] in H.
  pose proof (br_full_keys_nonempty dg Q v1 (JObj kvs) key) as Hne0.
  assert (Hu : forall k, In k (full_keys dg Q v1 (JObj kvs) key) -> under_prefix Q k = true)
    by (intros; eapply ow_full_keys_under; eauto).
  remember (full_keys dg Q v1 (JObj kvs) key) as ks eqn:Eks. clear Eks.
  destruct (cy_ensure_all ks p pa (JEnc e) Hr) as [p1 [E1 R1]]. rewrite E1 in H. cbn [bind] in H.
  assert (I1 : cy_inv0 Q Q' (ot_setall (JEnc e) ks pa))
    by (apply cy_inv0_setall_Q; auto; try reflexivity; discriminate).
  destruct (cy_store_marker Q kvs md A p1 _ p' Hm Ha R1 H) as [pa' [R Hc]].
  exists pa'. split; auto.
  assert (I' : cy_inv0 Q Q' pa').
  { destruct Hc as [[-> _]|[-> _]]; auto. apply cy_inv0_set; auto.
    right. split; [apply ow_marker_under|discriminate]. }
  split; auto.
  destruct (string_dec Q Q') as [<-|Hne].
  - left. intros k Hk. destruct I' as [_ [U _]]. destruct (U k Hk); auto.
  - right.
    assert (NU : forall m, key_marks_prefix m = Some Q -> under_prefix Q' m = false).
    { intros m Hmk. destruct (under_prefix Q' m) eqn:E; auto. exfalso. apply Hne.
      eapply cy_under_two; eauto. now apply ow_marks_under. }
    assert (MM : key_marks_prefix (ot_marker Q) = Some Q) by now apply ot_marker_marks.
    destruct Hc as [[-> Hd]|[-> _]].
    + destruct Hd as [E|[Hk|[Hk|Hk]]]; [congruence| | |].
      * destruct ks as [|k0 ks']; [congruence|].
        destruct (ow_under_prefix_split Q k0 (Hu k0 (or_introl eq_refl))) as [n En].
        assert (M0 : key_marks_prefix k0 = Some Q) by (rewrite En; now apply ot_known_marks).
        exists k0. split; auto. split; auto. left. apply ot_setall_keys. left. now left.
      * exists (ot_marker Q). auto.
      * exists (ot_marker Q). auto.
    + exists (ot_marker Q). split; auto. split; auto. left. apply ot_keys_set_self.
Qed.

Lemma cy_step : forall dg Q key v1 Q' pv1 verbose tk kvs md A p pa op p',
  Q <> "" -> Q' <> "" -> C04Own.no_slash Q = true -> C04Own.no_slash Q' = true ->
  lookup "metadata" kvs = Some (JObj md) -> lookup "annotations" md = Some (JObj A) ->
  cy_rep p pa -> cy_inv Q Q' A pa -> cy_op_ok Q Q' op ->
  own_step dg (DAnn Q key v1 []) (PAnn Q' pv1 verbose tk) (JObj kvs) p op = Ok p' ->
  exists pa', cy_rep p' pa' /\ cy_inv Q Q' A pa'.
Proof.
  intros dg Q key v1 Q' pv1 verbose tk kvs md A p pa op p' HQ HQ' Hs Hs' Hm Ha Hr Hi Hok H.
  destruct op as [hkey record|hkey|e|v|P]; cbn [own_step] in H.
  - eapply cy_pstore; eauto.
  - cbn [ppurge] in H. eapply cy_purge_keys; eauto. intros k Hk. eapply ow_full_keys_under; eauto.
  - eapply cy_dstore; eauto.
  - cbn [ptouch] in H. cbn [cy_op_ok] in Hok. eapply cy_touch_keys; eauto.
    intros k Hk. eapply ow_full_keys_under; eauto.
  - cbn [cy_op_ok] in Hok. destruct Hok as [->| ->]; [eapply cy_marker_Q|eapply cy_marker_own]; eauto.
Qed.

Lemma cy_fold_ok : forall (S : json -> own_op -> res json) ops r p,
  fold_left (fun acc op => bind acc (fun p => S p op)) ops r = Ok p -> exists p0, r = Ok p0.
Proof.
  intros S. induction ops as [|op ops IH]; intros r p H; cbn [fold_left] in H; eauto.
  apply IH in H as [p1 H]. destruct r; cbn [bind] in H; try discriminate; eauto.
Qed.

Lemma cy_own_patch_inv : forall dg Q key v1 Q' pv1 verbose tk kvs md A ops p0 pa0 p,
  Q <> "" -> Q' <> "" -> C04Own.no_slash Q = true -> C04Own.no_slash Q' = true ->
  lookup "metadata" kvs = Some (JObj md) -> lookup "annotations" md = Some (JObj A) ->
  cy_rep p0 pa0 -> cy_inv Q Q' A pa0 -> ops_ok Q Q' ops ->
  fold_left (fun acc op => bind acc (fun p => own_step dg (DAnn Q key v1 []) (PAnn Q' pv1 verbose tk) (JObj kvs) p op))
    ops (Ok p0) = Ok p ->
  exists pa, cy_rep p pa /\ cy_inv Q Q' A pa.
Proof.
  intros dg Q key v1 Q' pv1 verbose tk kvs md A ops.
  induction ops as [|op ops IH]; intros p0 pa0 p HQ HQ' Hs Hs' Hm Ha Hr Hi Hok H; cbn [fold_left] in H.
  - injection H as <-. eauto.
  - cbn [bind] in H. inversion Hok as [|? ? Hop Hops]; subst.
    destruct (cy_fold_ok _ ops _ p H) as [p1 E1].
    rewrite E1 in H.
    destruct (cy_step dg Q key v1 Q' pv1 verbose tk kvs md A p0 pa0 op p1 HQ HQ' Hs Hs' Hm Ha Hr Hi Hop E1)
      as [pa1 [R1 I1]].
    apply (IH p1 pa1 p); auto.
Qed.

(* ---------- the invariant implies invisibility ---------- *)
Lemma cy_upd_keys_nonnull : forall pa A (m : string),
  (forall w, In (m, w) pa -> w <> JNull) -> In m (keys pa) \/ In m (keys A) -> In m (keys (upd_ann pa A)).
Proof.
  induction pa as [|[k v] pa IH]; intros A m Hn H.
  - destruct H as [[]|H]. exact H.
  - rewrite br_upd_ann_cons.
    assert (Hn' : forall w, In (m, w) pa -> w <> JNull) by (intros w Hw; apply Hn; now right).
    apply IH; auto.
    destruct H as [[E|H]|H]; [|now left|].
    + cbn in E. subst k. right. assert (v <> JNull) by (apply Hn; now left).
      destruct v; try congruence; apply ot_keys_set_self.
    + right. destruct (String.eqb_spec m k) as [->|Hne].
      * assert (v <> JNull) by (apply Hn; now left). destruct v; try congruence; apply ot_keys_set_self.
      * destruct v; try (now apply ot_keys_set_mono). now apply cy_keys_del_other.
Qed.

Lemma cy_hidp_upd2 : forall Q Q' pa (A : obj) j,
  C04Own.no_slash Q = true -> C04Own.no_slash Q' = true ->
  (forall k, In k (keys pa) -> under_prefix Q k = true \/ under_prefix Q' k = true) ->
  under_prefix Q j = false -> under_prefix Q' j = false ->
  ow_hidp (upd_ann pa A) j = ow_hidp A j.
Proof.
  unfold upd_ann. intros Q Q' pa. induction pa as [|[k v] pa IH]; intros A j Hs Hs' Hu Hj Hj'; cbn [fold_left]; auto.
  rewrite IH by (auto; intros i Hi; apply Hu; now right).
  cbn [fst snd].
  assert (Hm : ow_marks_over k j = false).
  { destruct (ow_marks_over k j) eqn:E; auto. destruct (Hu k (or_introl eq_refl)) as [Hk|Hk].
    - rewrite (ow_marks_over_P' Q k j Hs Hk E) in Hj. discriminate.
    - rewrite (ow_marks_over_P' Q' k j Hs' Hk E) in Hj'. discriminate. }
  assert (Hset : forall w, ow_hidp (set k w A) j = ow_hidp A j).
  { intros w. rewrite ow_hidp_set, Hm. now rewrite andb_false_r, orb_false_r. }
  destruct v; auto.
  destruct (ow_hidp A j) eqn:E.
  - destruct (ow_hidp_del_ge k A j E) as [H|H]; auto. congruence.
  - destruct (ow_hidp (del k A) j) eqn:E'; auto. rewrite (ow_hidp_del_le k A j E') in E. discriminate.
Qed.

Theorem cy_inv_invisible : forall dg Q key v1 Q' pv1 verbose tk kvs md A pa,
  Q' <> "" -> C04Own.no_slash Q = true -> C04Own.no_slash Q' = true ->
  lookup "metadata" kvs = Some (JObj md) -> lookup "annotations" md = Some (JObj A) ->
  (forall j, In j (keys A) -> under_prefix Q j = true ->
     vis Q' (full_keys dg Q v1 (body_with kvs md A) key) A j = false) ->
  cy_inv Q Q' A pa ->
  essence dg (DAnn Q key v1 []) (PAnn Q' pv1 verbose tk) (body_with kvs md (upd_ann pa A)) []
  = essence dg (DAnn Q key v1 []) (PAnn Q' pv1 verbose tk) (JObj kvs) [].
Proof.
  intros dg Q key v1 Q' pv1 verbose tk kvs md A pa HQ' Hs Hs' Hm Ha Hg [[S [U N]] [Mk|[m [Mm [Um Hin]]]]].
  - rewrite br_upd_ann_invisible by assumption. now rewrite (br_body_with_id kvs md A Hm Ha).
  - assert (HD : In Q (marked_prefixes (keys (upd_ann pa A)))).
    { eapply ot_marked_in; [|exact Mm]. apply cy_upd_keys_nonnull; auto. intros w Hw. now apply (N m w Hw). }
    rewrite <- (br_body_with_id kvs md A Hm Ha).
    apply essence_ann_congr; auto.
    rewrite (ow_full_keys_indep dg Q v1 kvs md (upd_ann pa A) A key).
    set (ks := full_keys dg Q v1 (body_with kvs md A) key) in *.
    rewrite (ot_filter_upd (vis Q' ks (upd_ann pa A)) pa A).
    2:{ intros k Hk. destruct (U k Hk) as [Hk'|Hk']; [|now apply ow_vis_under_P'].
        apply ow_vis_hidp. eapply ow_hidp_in; eauto. }
    apply filter_ext_in. intros [j x] Hj. cbn [fst].
    destruct (under_prefix Q' j) eqn:Ej'; [now rewrite !ow_vis_under_P'|].
    destruct (under_prefix Q j) eqn:Ej.
    + rewrite (ow_vis_hidp Q' ks (upd_ann pa A) j) by (eapply ow_hidp_in; eauto).
      symmetry. apply Hg; auto. eapply cy_in_keys; eauto.
    + apply ow_vis_eq_of_hidp. now apply (cy_hidp_upd2 Q Q').
Qed.

Theorem own_patch_invisible : forall dg Q key v1 Q' pv1 verbose tk kvs md A ops p,
  Q <> "" -> Q' <> "" -> C04Own.no_slash Q = true -> C04Own.no_slash Q' = true ->
  lookup "metadata" kvs = Some (JObj md) -> lookup "annotations" md = Some (JObj A) ->
  ops_ok Q Q' ops ->
  (forall j, In j (keys A) -> under_prefix Q j = true ->
     vis Q' (full_keys dg Q v1 (body_with kvs md A) key) A j = false) ->
  own_patch dg (DAnn Q key v1 []) (PAnn Q' pv1 verbose tk) (JObj kvs) ops = Ok p ->
  essence dg (DAnn Q key v1 []) (PAnn Q' pv1 verbose tk) (merge (JObj kvs) p) []
  = essence dg (DAnn Q key v1 []) (PAnn Q' pv1 verbose tk) (JObj kvs) [].
Proof.
  intros dg Q key v1 Q' pv1 verbose tk kvs md A ops p HQ HQ' Hs Hs' Hm Ha Hok Hg H. unfold own_patch in H.
  destruct (cy_own_patch_inv dg Q key v1 Q' pv1 verbose tk kvs md A ops (JObj []) [] p
              HQ HQ' Hs Hs' Hm Ha cy_rep_empty (cy_inv_nil Q Q' A) Hok H) as [pa [R I]].
  rewrite (cy_rep_merge kvs md A p pa Hm Ha R) by (destruct I as [[S _] _]; exact S).
  eapply cy_inv_invisible; eauto.
Qed.

(* when both storages share one prefix (kopf's default) no guard is needed *)
Corollary own_patch_invisible_same_prefix : forall dg Q key v1 pv1 verbose tk kvs md A ops p,
  Q <> "" -> C04Own.no_slash Q = true ->
  lookup "metadata" kvs = Some (JObj md) -> lookup "annotations" md = Some (JObj A) ->
  ops_ok Q Q ops ->
  own_patch dg (DAnn Q key v1 []) (PAnn Q pv1 verbose tk) (JObj kvs) ops = Ok p ->
  essence dg (DAnn Q key v1 []) (PAnn Q pv1 verbose tk) (merge (JObj kvs) p) []
  = essence dg (DAnn Q key v1 []) (PAnn Q pv1 verbose tk) (JObj kvs) [].
Proof.
  intros. eapply own_patch_invisible; eauto. intros j Hj Hu. now apply ow_vis_under_P'.
Qed.

(* the body after the cycle's patch, as the API server has it *)
Corollary own_body_after_invisible : forall dg Q key v1 Q' pv1 verbose tk kvs md A ops b,
  Q <> "" -> Q' <> "" -> C04Own.no_slash Q = true -> C04Own.no_slash Q' = true ->
  lookup "metadata" kvs = Some (JObj md) -> lookup "annotations" md = Some (JObj A) ->
  ops_ok Q Q' ops ->
  (forall j, In j (keys A) -> under_prefix Q j = true ->
     vis Q' (full_keys dg Q v1 (body_with kvs md A) key) A j = false) ->
  own_body_after dg (DAnn Q key v1 []) (PAnn Q' pv1 verbose tk) (JObj kvs) ops = Ok b ->
  essence dg (DAnn Q key v1 []) (PAnn Q' pv1 verbose tk) b []
  = essence dg (DAnn Q key v1 []) (PAnn Q' pv1 verbose tk) (JObj kvs) [].
Proof.
  intros dg Q key v1 Q' pv1 verbose tk kvs md A ops b HQ HQ' Hs Hs' Hm Ha Hok Hg H. unfold own_body_after in H.
  destruct (own_patch dg (DAnn Q key v1 []) (PAnn Q' pv1 verbose tk) (JObj kvs) ops) as [p| | |] eqn:E;
    cbn [bind] in H; try discriminate.
  injection H as <-. eapply own_patch_invisible; eauto.
Qed.

Print Assumptions own_patch_invisible.
Print Assumptions own_patch_invisible_same_prefix.
Print Assumptions own_body_after_invisible.

(* ---------- once Q is marked on the object (i.e. after the first diff-base store) no guard is needed ---------- *)
Theorem own_patch_invisible_marked : forall dg Q key v1 Q' pv1 verbose tk kvs md A ops p,
  Q <> "" -> Q' <> "" -> C04Own.no_slash Q = true -> C04Own.no_slash Q' = true ->
  lookup "metadata" kvs = Some (JObj md) -> lookup "annotations" md = Some (JObj A) ->
  ops_ok Q Q' ops -> In Q (marked_prefixes (keys A)) ->
  own_patch dg (DAnn Q key v1 []) (PAnn Q' pv1 verbose tk) (JObj kvs) ops = Ok p ->
  essence dg (DAnn Q key v1 []) (PAnn Q' pv1 verbose tk) (merge (JObj kvs) p) []
  = essence dg (DAnn Q key v1 []) (PAnn Q' pv1 verbose tk) (JObj kvs) [].
Proof.
  intros. eapply own_patch_invisible; eauto.
  intros j Hj Hu. apply ow_vis_hidp. eapply ow_hidp_in; eauto.
Qed.

(* after the last-handled state has been stored, every later cycle of own writes on the patched object
   (progress records, purges, touches, a re-store) leaves the essence where it was: no guard any more *)
Theorem own_patch_after_store_invisible : forall dg Q key v1 Q' pv1 verbose tk kvs md A e p ops p2,
  Q <> "" -> Q' <> "" -> C04Own.no_slash Q = true -> C04Own.no_slash Q' = true ->
  lookup "metadata" kvs = Some (JObj md) -> lookup "annotations" md = Some (JObj A) ->
  (forall j, In j (keys A) -> under_prefix Q j = true ->
     vis Q' (full_keys dg Q v1 (body_with kvs md A) key) A j = false) ->
  dstore dg (DAnn Q key v1 []) (JObj kvs) (JObj []) e = Ok p ->
  ops_ok Q Q' ops ->
  own_patch dg (DAnn Q key v1 []) (PAnn Q' pv1 verbose tk) (merge (JObj kvs) p) ops = Ok p2 ->
  essence dg (DAnn Q key v1 []) (PAnn Q' pv1 verbose tk) (merge (merge (JObj kvs) p) p2) []
  = essence dg (DAnn Q key v1 []) (PAnn Q' pv1 verbose tk) (JObj kvs) [].
Proof.
  intros dg Q key v1 Q' pv1 verbose tk kvs md A e p ops p2 HQ HQ' Hs Hs' Hm Ha Hg H Hok H2.
  rewrite <- (own_diffbase_store_invisible dg Q key v1 Q' pv1 verbose tk kvs md A e p HQ Hs HQ' Hm Ha Hg H).
  destruct (ot_dstore_shape dg Q key v1 [] e kvs md A p HQ Hs Hm Ha H) as [pa [-> [S [N [U D]]]]].
  rewrite (br_merge_ann kvs md A pa Hm Ha S) in *. unfold body_with in *.
  apply (own_patch_invisible_marked dg Q key v1 Q' pv1 verbose tk _ (set "annotations" (JObj (upd_ann pa A)) md)
           (upd_ann pa A) ops p2); auto; apply ow_lookup_set_same.
Qed.

Print Assumptions own_patch_invisible_marked.
Print Assumptions own_patch_after_store_invisible.

(* ====================================================================================================== *)
(* 4. concrete cases                                                                                       *)
(* ====================================================================================================== *)
Definition cy_ex_A : obj :=
  [("note", JStr "x"); ("kopf.zalando.org/old_fn", JEnc (JObj [("success", JBool true)]));
   ("kopf.zalando.org/touch-dummy", JStr "t0")].
Definition cy_ex_md : obj :=
  [("name", JStr "x"); ("labels", JObj [("app", JStr "demo")]); ("annotations", JObj cy_ex_A)].
Definition cy_ex_kvs : obj :=
  [("apiVersion", JStr "v1"); ("kind", JStr "KopfExample"); ("metadata", JObj cy_ex_md);
   ("spec", JObj [("field", JNum 1)])].
Definition cy_ex_e : json :=
  JObj [("spec", JObj [("field", JNum 1)]);
        ("metadata", JObj [("labels", JObj [("app", JStr "demo")]); ("annotations", JObj [("note", JStr "x")])])].
(* the canonical order of one cycle: records, purge, diff-base, touch(None) *)
Definition cy_ex_ops : list own_op :=
  [OwStore "create_fn" [("started", JStr "t0"); ("success", JBool true); ("message", JNull)];
   OwPurge "old_fn"; OwDiffbase cy_ex_e; OwTouch JNull].

Definition cy_ex_hyps (Q Q' : string) : Prop :=
  Q <> "" /\ Q' <> "" /\ C04Own.no_slash Q = true /\ C04Own.no_slash Q' = true /\
  lookup "metadata" cy_ex_kvs = Some (JObj cy_ex_md) /\ lookup "annotations" cy_ex_md = Some (JObj cy_ex_A) /\
  (forall j, In j (keys cy_ex_A) -> under_prefix Q j = true ->
     vis Q' (full_keys (table_dg []) Q true (body_with cy_ex_kvs cy_ex_md cy_ex_A) "last-handled-configuration")
       cy_ex_A j = false) /\
  ops_ok Q Q' cy_ex_ops /\ wf (JObj cy_ex_kvs) = true /\ wf cy_ex_e = true.

Lemma cy_ex_hyps_ok : forall Q Q',
  (Q = "kopf.zalando.org" \/ Q = "my-op.example.com") -> Q' = "kopf.zalando.org" -> cy_ex_hyps Q Q'.
Proof.
  intros Q Q' HQ ->. unfold cy_ex_hyps.
  repeat split; try (destruct HQ as [->| ->]; (discriminate || reflexivity)).
  - intros j Hj Hu. cbn in Hj.
    destruct HQ as [->| ->]; destruct Hj as [<-|[<-|[<-|[]]]];
      try (vm_compute in Hu; discriminate Hu); vm_compute; reflexivity.
  - unfold ops_ok, cy_ex_ops. repeat constructor.
Qed.

(* kopf's defaults: both storages under kopf.zalando.org *)
Example no_self_trigger_example_default :
  let Q := "kopf.zalando.org" in
  let ds := DAnn Q "last-handled-configuration" true [] in
  let ps := PAnn Q true false "touch-dummy" in
  cy_ex_hyps Q Q /\
  (* first detection: never handled, cause CREATE *)
  (exists d, old_new_diff (table_dg []) ds ps (JObj cy_ex_kvs) [] = Ok (None, cy_ex_e, d) /\
             classify_change None d = KCreate) /\
  essence (table_dg []) ds ps (JObj cy_ex_kvs) [] = Ok cy_ex_e /\
  dstore (table_dg []) ds (JObj cy_ex_kvs) (JObj []) cy_ex_e
  = Ok (ann_patch [("kopf.zalando.org/last-handled-configuration", JEnc cy_ex_e)]) /\
  old_new_diff (table_dg []) ds ps
    (merge (JObj cy_ex_kvs) (ann_patch [("kopf.zalando.org/last-handled-configuration", JEnc cy_ex_e)])) []
  = Ok (Some cy_ex_e, cy_ex_e, []) /\
  (* the whole cycle in one patch *)
  own_patch (table_dg []) ds ps (JObj cy_ex_kvs) cy_ex_ops
  = Ok (ann_patch [("kopf.zalando.org/create_fn", JEnc (JObj [("started", JStr "t0"); ("success", JBool true)]));
                   ("kopf.zalando.org/old_fn", JNull);
                   ("kopf.zalando.org/last-handled-configuration", JEnc cy_ex_e);
                   ("kopf.zalando.org/touch-dummy", JNull)]) /\
  bind (own_body_after (table_dg []) ds ps (JObj cy_ex_kvs) cy_ex_ops)
       (fun b => old_new_diff (table_dg []) ds ps b [])
  = Ok (Some cy_ex_e, cy_ex_e, []).
Proof.
  cbv zeta. split; [apply cy_ex_hyps_ok; auto|].
  split; [eexists; split; vm_compute; reflexivity|].
  repeat split; vm_compute; reflexivity.
Qed.

(* a custom diff-base prefix next to the default progress prefix: the store also writes the marker *)
Example no_self_trigger_example_custom :
  let Q := "my-op.example.com" in
  let Q' := "kopf.zalando.org" in
  let ds := DAnn Q "last-handled-configuration" true [] in
  let ps := PAnn Q' true false "touch-dummy" in
  cy_ex_hyps Q Q' /\
  essence (table_dg []) ds ps (JObj cy_ex_kvs) [] = Ok cy_ex_e /\
  dstore (table_dg []) ds (JObj cy_ex_kvs) (JObj []) cy_ex_e
  = Ok (ann_patch [("my-op.example.com/last-handled-configuration", JEnc cy_ex_e);
                   ("my-op.example.com/kopf-managed", JStr "yes")]) /\
  old_new_diff (table_dg []) ds ps
    (merge (JObj cy_ex_kvs) (ann_patch [("my-op.example.com/last-handled-configuration", JEnc cy_ex_e);
                                        ("my-op.example.com/kopf-managed", JStr "yes")])) []
  = Ok (Some cy_ex_e, cy_ex_e, []) /\
  own_patch (table_dg []) ds ps (JObj cy_ex_kvs) cy_ex_ops
  = Ok (ann_patch [("kopf.zalando.org/create_fn", JEnc (JObj [("started", JStr "t0"); ("success", JBool true)]));
                   ("kopf.zalando.org/old_fn", JNull);
                   ("my-op.example.com/last-handled-configuration", JEnc cy_ex_e);
                   ("my-op.example.com/kopf-managed", JStr "yes");
                   ("kopf.zalando.org/touch-dummy", JNull)]) /\
  bind (own_body_after (table_dg []) ds ps (JObj cy_ex_kvs) cy_ex_ops)
       (fun b => essence (table_dg []) ds ps b []) = Ok cy_ex_e /\
  bind (own_body_after (table_dg []) ds ps (JObj cy_ex_kvs) cy_ex_ops)
       (fun b => old_new_diff (table_dg []) ds ps b [])
  = Ok (Some cy_ex_e, cy_ex_e, []).
Proof.
  cbv zeta. split; [apply cy_ex_hyps_ok; auto|].
  repeat split; vm_compute; reflexivity.
Qed.

(* F41 as a self-trigger: without the guard (a user annotation under the custom diff-base prefix is part of
   the essence) the first store writes the marker, the annotation drops out of the essence, and the very
   next detection sees a non-empty diff: one spurious UPDATE cause.  The guard cannot be dropped. *)
Example no_self_trigger_guard_needed :
  let Q := "my-op.example.com" in
  let ds := DAnn Q "last-handled-configuration" true [] in
  let ps := PAnn "kopf.zalando.org" true false "touch-dummy" in
  let A := [("my-op.example.com/note", JStr "x")] in
  let md := [("name", JStr "x"); ("annotations", JObj A)] in
  let kvs := [("apiVersion", JStr "v1"); ("kind", JStr "KopfExample"); ("metadata", JObj md);
              ("spec", JObj [("field", JNum 1)])] in
  let e := JObj [("spec", JObj [("field", JNum 1)]);
                 ("metadata", JObj [("annotations", JObj [("my-op.example.com/note", JStr "x")])])] in
  vis "kopf.zalando.org" (full_keys (table_dg []) Q true (body_with kvs md A) "last-handled-configuration") A
    "my-op.example.com/note" = true /\
  essence (table_dg []) ds ps (JObj kvs) [] = Ok e /\ wf e = true /\
  exists p d,
    dstore (table_dg []) ds (JObj kvs) (JObj []) e = Ok p /\
    old_new_diff (table_dg []) ds ps (merge (JObj kvs) p) []
    = Ok (Some e, JObj [("spec", JObj [("field", JNum 1)])], d) /\
    classify_change (Some e) d = KUpdate.
Proof.
  cbv zeta. split; [vm_compute; reflexivity|]. split; [vm_compute; reflexivity|]. split; [reflexivity|].
  eexists. eexists. split; [vm_compute; reflexivity|]. split; vm_compute; reflexivity.
Qed.

Print Assumptions no_self_trigger_example_default.
Print Assumptions no_self_trigger_example_custom.
Print Assumptions no_self_trigger_guard_needed.

(* ====================================================================================================== *)
(* 3b. the loop stays closed while the progress storage keeps writing (Q <> Q')                            *)
(* ====================================================================================================== *)
Definition cy_prog_ok (Q' : string) (op : own_op) : Prop :=
  match op with
  | OwStore _ _ | OwPurge _ => True
  | OwTouch v => is_obj v = false
  | OwMarker P => P = Q'
  | OwDiffbase _ => False
  end.

Lemma cy_prog_step : forall dg ds Q' pv1 verbose tk body p op p', Q' <> "" ->
  br_good Q' p -> cy_prog_ok Q' op ->
  own_step dg ds (PAnn Q' pv1 verbose tk) body p op = Ok p' -> br_good Q' p'.
Proof.
  intros dg ds Q' pv1 verbose tk body p op p' HQ' Hg Hok H.
  destruct op as [hkey record|hkey|e|v|P]; cbn [own_step cy_prog_ok] in *.
  - right. eapply br_pstore_good; eauto.
  - cbn [ppurge] in H. eapply (br_purge_keys_good Q'); eauto. intros k Hk. eapply ow_full_keys_under; eauto.
  - destruct Hok.
  - cbn [ptouch] in H. eapply (br_touch_keys_good Q'); eauto. intros k Hk. eapply ow_full_keys_under; eauto.
  - subst P. eapply br_store_marker_good; eauto.
Qed.

Lemma cy_prog_fold : forall dg ds Q' pv1 verbose tk body ops p0 p, Q' <> "" ->
  br_good Q' p0 -> Forall (cy_prog_ok Q') ops ->
  fold_left (fun acc op => bind acc (fun p => own_step dg ds (PAnn Q' pv1 verbose tk) body p op)) ops (Ok p0) = Ok p ->
  br_good Q' p.
Proof.
  intros dg ds Q' pv1 verbose tk body. induction ops as [|op ops IH]; intros p0 p HQ' Hg Hok H; cbn [fold_left] in H.
  - now injection H as <-.
  - cbn [bind] in H. inversion Hok as [|? ? Hop Hops]; subst.
    destruct (cy_fold_ok _ ops _ p H) as [p1 E1]. rewrite E1 in H.
    apply (IH p1 p); auto. eapply cy_prog_step; eauto.
Qed.

Lemma cy_prog_ops_ok : forall Q Q' ops, Forall (cy_prog_ok Q') ops -> ops_ok Q Q' ops.
Proof.
  intros Q Q' ops H. unfold ops_ok. eapply Forall_impl; [|exact H].
  intros [| | | |P]; cbn; auto; tauto.
Qed.

Lemma cy_body_with_twice : forall kvs md X Y,
  body_with (set "metadata" (JObj (set "annotations" (JObj X) md)) kvs) (set "annotations" (JObj X) md) Y
  = body_with kvs md Y.
Proof. intros. unfold body_with. now rewrite !ow_set_set_same. Qed.

Lemma cy_fetch_body_with : forall dg Q key v1 kvs md A X o k0 ks,
  lookup "metadata" kvs = Some (JObj md) -> lookup "annotations" md = Some (JObj A) ->
  full_keys dg Q v1 (JObj kvs) key = k0 :: ks -> lookup k0 X = Some (JEnc (JObj o)) ->
  dfetch dg (DAnn Q key v1 []) (body_with kvs md X) = Ok (Some (JObj o)).
Proof.
  intros dg Q key v1 kvs md A X o k0 ks Hm Ha Eks HX. cbn [dfetch].
  rewrite (ow_full_keys_indep dg Q v1 kvs md X A key), (br_body_with_id kvs md A Hm Ha), Eks.
  cbn [fetch_keys]. rewrite cy_resolve_body_with, HX. reflexivity.
Qed.

Theorem no_self_trigger_after_own_writes : forall dg Q key v1 Q' pv1 verbose tk kvs md A e p ops p2,
  Q <> "" -> C04Own.no_slash Q = true -> Q' <> "" -> C04Own.no_slash Q' = true -> Q <> Q' ->
  lookup "metadata" kvs = Some (JObj md) -> lookup "annotations" md = Some (JObj A) ->
  (forall j, In j (keys A) -> under_prefix Q j = true ->
     vis Q' (full_keys dg Q v1 (body_with kvs md A) key) A j = false) ->
  essence dg (DAnn Q key v1 []) (PAnn Q' pv1 verbose tk) (JObj kvs) [] = Ok e ->
  wf e = true ->
  dstore dg (DAnn Q key v1 []) (JObj kvs) (JObj []) e = Ok p ->
  Forall (cy_prog_ok Q') ops ->
  own_patch dg (DAnn Q key v1 []) (PAnn Q' pv1 verbose tk) (merge (JObj kvs) p) ops = Ok p2 ->
  old_new_diff dg (DAnn Q key v1 []) (PAnn Q' pv1 verbose tk) (merge (merge (JObj kvs) p) p2) []
  = Ok (Some e, e, []).
Proof.
  intros dg Q key v1 Q' pv1 verbose tk kvs md A e p ops p2 HQ Hs HQ' Hs' Hne Hm Ha Hg He Hwf H Hok H2.
  pose proof (own_patch_after_store_invisible dg Q key v1 Q' pv1 verbose tk kvs md A e p ops p2
                HQ HQ' Hs Hs' Hm Ha Hg H (cy_prog_ops_ok Q Q' ops Hok) H2) as Hnew.
  destruct (pclear_essence_idempotent dg Q key v1 Q' pv1 verbose tk kvs md A e HQ' Hm Ha He) as [Hc [o Eo]].
  assert (Hg2 : br_good Q' p2) by (eapply cy_prog_fold; eauto; apply br_good_empty).
  assert (Hf : dfetch dg (DAnn Q key v1 []) (merge (merge (JObj kvs) p) p2) = Ok (Some e)).
  { destruct (cy_dstore_patch dg Q key v1 kvs md A e p Hm Ha H) as [pa [Ep [Hsc Hk]]].
    destruct Hg2 as [->|[pa2 [-> [S2 U2]]]].
    - assert (E : merge (merge (JObj kvs) p) (JObj []) = merge (JObj kvs) p).
      { rewrite Ep, (br_merge_ann kvs md A pa Hm Ha Hsc). reflexivity. }
      rewrite E. eapply diffbase_fetch_after_store; eauto.
    - subst p.
      rewrite (br_merge_ann kvs md A pa Hm Ha Hsc). unfold body_with at 1.
      rewrite (br_merge_ann _ (set "annotations" (JObj (upd_ann pa A)) md) (upd_ann pa A) pa2)
        by (auto; apply ow_lookup_set_same).
      rewrite cy_body_with_twice.
      destruct (full_keys dg Q v1 (JObj kvs) key) as [|k0 ks] eqn:Eks;
        [exact (False_ind _ (br_full_keys_nonempty _ _ _ _ _ Eks))|].
      destruct (Hk k0 (or_introl eq_refl)) as [Hin Hall]. subst e.
      eapply cy_fetch_body_with; eauto.
      rewrite cy_upd_lookup_notin.
      + apply cy_upd_lookup_in; auto. discriminate.
      + intros Hin2. apply Hne. apply (cy_under_two Q Q' k0); auto.
        eapply ow_full_keys_under; eauto. rewrite Eks. now left. }
  unfold old_new_diff, old_essence. rewrite Hf. cbn [bind]. rewrite Hc. cbn [bind].
  rewrite Hnew, He. cbn [bind opt_json]. unfold diff.
  rewrite c04_diff_iter_py by now apply c04_py_eqb_refl. reflexivity.
Qed.

Print Assumptions no_self_trigger_after_own_writes.

(* ====================================================================================================== *)
(* kopf's default progress storage (`smart`: annotations + read-only status)                              *)
(* ====================================================================================================== *)
Lemma cy_smart_transfer : forall dg Q key v1 Q' pv1 verbose tk field tf nw kvs md A A',
  lookup "metadata" kvs = Some (JObj md) -> lookup "annotations" md = Some (JObj A) ->
  hd_error field = Some "status" ->
  essence dg (DAnn Q key v1 []) (PAnn Q' pv1 verbose tk) (body_with kvs md A') []
  = essence dg (DAnn Q key v1 []) (PAnn Q' pv1 verbose tk) (JObj kvs) [] ->
  essence dg (DAnn Q key v1 []) (PMulti [PAnn Q' pv1 verbose tk; PStatus field tf nw]) (body_with kvs md A') []
  = essence dg (DAnn Q key v1 []) (PMulti [PAnn Q' pv1 verbose tk; PStatus field tf nw]) (JObj kvs) [].
Proof.
  intros dg Q key v1 Q' pv1 verbose tk field tf nw kvs md A A' Hm Ha Hf H.
  rewrite <- (br_body_with_id kvs md A Hm Ha) in *. rewrite !essence_smart_eq by assumption. exact H.
Qed.

Theorem own_diffbase_store_invisible_smart : forall dg Q key v1 Q' pv1 verbose tk field tf kvs md A e p,
  Q <> "" -> C04Own.no_slash Q = true -> Q' <> "" -> hd_error field = Some "status" ->
  lookup "metadata" kvs = Some (JObj md) -> lookup "annotations" md = Some (JObj A) ->
  (forall j, In j (keys A) -> under_prefix Q j = true ->
     vis Q' (full_keys dg Q v1 (body_with kvs md A) key) A j = false) ->
  dstore dg (DAnn Q key v1 []) (JObj kvs) (JObj []) e = Ok p ->
  essence dg (DAnn Q key v1 []) (smart Q' pv1 verbose tk field tf) (merge (JObj kvs) p) []
  = essence dg (DAnn Q key v1 []) (smart Q' pv1 verbose tk field tf) (JObj kvs) [].
Proof.
  unfold smart. intros dg Q key v1 Q' pv1 verbose tk field tf kvs md A e p HQ Hs HQ' Hf Hm Ha Hg H.
  pose proof (own_diffbase_store_invisible dg Q key v1 Q' pv1 verbose tk kvs md A e p HQ Hs HQ' Hm Ha Hg H) as HH.
  apply br_dstore_shape in H as [pa [-> [Hsc _]]]; auto.
  rewrite (br_merge_ann kvs md A pa Hm Ha Hsc) in *. eapply cy_smart_transfer; eauto.
Qed.

(* pclear of `smart` is idempotent on essences too *)
Lemma cy_pclear_smart : forall dg Q key v1 Q' pv1 verbose tk field tf nw kvs md A e,
  Q' <> "" -> lookup "metadata" kvs = Some (JObj md) -> lookup "annotations" md = Some (JObj A) ->
  hd_error field = Some "status" ->
  essence dg (DAnn Q key v1 []) (PAnn Q' pv1 verbose tk) (JObj kvs) [] = Ok e ->
  pclear (PMulti [PAnn Q' pv1 verbose tk; PStatus field tf nw]) e = Ok e.
Proof.
  intros dg Q key v1 Q' pv1 verbose tk field tf nw kvs md A e HQ' Hm Ha Hf He.
  destruct (pclear_essence_idempotent dg Q key v1 Q' pv1 verbose tk kvs md A e HQ' Hm Ha He) as [Hc _].
  rewrite <- (br_body_with_id kvs md A Hm Ha) in He. rewrite essence_ann_form in He by assumption.
  injection He as He.
  change (pclear (PMulti [PAnn Q' pv1 verbose tk; PStatus field tf nw]) e)
    with (bind (pclear (PAnn Q' pv1 verbose tk) e) (fun e1 => bind (pclear (PStatus field tf nw) e1) (fun e2 => Ok e2))).
  rewrite Hc. cbn [bind pclear].
  assert (HN : remove_empty_stanzas e = Ok e)
    by (rewrite <- He; apply ow_res_NF; (apply ow_lab_good || apply ow_e0_no_metadata || apply ow_e0_no_status)).
  destruct (ow_NF_no_status (ow_lab md)
              (filter (fun kv => vis Q' (full_keys dg Q v1 (body_with kvs md A) key) A (fst kv)) A)
              (ow_e0 kvs) (ow_e0_no_status kvs)) as [kv [EN Hst]].
  rewrite He in EN. rewrite EN at 1. rewrite (ow_remove_status_absent kv field Hf Hst). cbn [bind].
  rewrite <- EN, HN. reflexivity.
Qed.

Theorem no_self_trigger_smart : forall dg Q key v1 Q' pv1 verbose tk field tf kvs md A e p,
  Q <> "" -> C04Own.no_slash Q = true -> Q' <> "" -> hd_error field = Some "status" ->
  lookup "metadata" kvs = Some (JObj md) -> lookup "annotations" md = Some (JObj A) ->
  (forall j, In j (keys A) -> under_prefix Q j = true ->
     vis Q' (full_keys dg Q v1 (body_with kvs md A) key) A j = false) ->
  essence dg (DAnn Q key v1 []) (smart Q' pv1 verbose tk field tf) (JObj kvs) [] = Ok e ->
  wf e = true ->
  dstore dg (DAnn Q key v1 []) (JObj kvs) (JObj []) e = Ok p ->
  old_new_diff dg (DAnn Q key v1 []) (smart Q' pv1 verbose tk field tf) (merge (JObj kvs) p) []
  = Ok (Some e, e, []).
Proof.
  intros dg Q key v1 Q' pv1 verbose tk field tf kvs md A e p HQ Hs HQ' Hf Hm Ha Hg He Hwf H.
  pose proof (own_diffbase_store_invisible_smart dg Q key v1 Q' pv1 verbose tk field tf kvs md A e p
                HQ Hs HQ' Hf Hm Ha Hg H) as Hnew.
  unfold smart in *.
  assert (He' : essence dg (DAnn Q key v1 []) (PAnn Q' pv1 verbose tk) (JObj kvs) [] = Ok e).
  { rewrite <- (br_body_with_id kvs md A Hm Ha) in He |- *. now rewrite essence_smart_eq in He by assumption. }
  destruct (pclear_essence_idempotent dg Q key v1 Q' pv1 verbose tk kvs md A e HQ' Hm Ha He') as [_ [o Eo]].
  unfold old_new_diff, old_essence.
  rewrite (diffbase_fetch_after_store dg Q key v1 kvs md A e p o Hm Ha Eo H). cbn [bind].
  rewrite (cy_pclear_smart dg Q key v1 Q' pv1 verbose tk field tf true kvs md A e HQ' Hm Ha Hf He'). cbn [bind].
  rewrite Hnew, He. cbn [bind opt_json]. unfold diff.
  rewrite c04_diff_iter_py by now apply c04_py_eqb_refl. reflexivity.
Qed.

Print Assumptions own_diffbase_store_invisible_smart.
Print Assumptions no_self_trigger_smart.

(* ---------- the whole cycle patch with `smart` ---------- *)
Lemma cy_rep_resolve_status : forall p pa field k, cy_rep p pa -> hd_error field = Some "status" ->
  resolve p (field ++ [k]) = None.
Proof.
  intros p pa field k Hr Hf. destruct field as [|f rest]; [discriminate|].
  cbn [hd_error] in Hf. injection Hf as ->. destruct Hr as [[-> _]| ->]; reflexivity.
Qed.

Lemma cy_step_smart : forall dg Q key v1 Q' pv1 verbose tk field tf kvs A p pa op,
  Q' <> "" -> hd_error field = Some "status" -> cy_rep p pa -> cy_inv Q Q' A pa ->
  (forall hkey, op = OwPurge hkey -> resolve (JObj kvs) (field ++ [hkey]) = None) ->
  own_step dg (DAnn Q key v1 []) (smart Q' pv1 verbose tk field tf) (JObj kvs) p op
  = own_step dg (DAnn Q key v1 []) (PAnn Q' pv1 verbose tk) (JObj kvs) p op.
Proof.
  unfold smart. intros dg Q key v1 Q' pv1 verbose tk field tf kvs A p pa op HQ' Hf Hr Hi Hp.
  destruct op as [hkey record|hkey|e|v|P]; cbn [own_step].
  - apply br_pstore_smart.
  - cbn [ppurge].
    destruct (purge_keys (JObj kvs) p (full_keys dg Q' pv1 (JObj kvs) hkey)) as [p1| | |] eqn:E1;
      cbn [bind]; try reflexivity.
    destruct (cy_purge_keys Q Q' A (JObj kvs) _ p pa p1 Hr Hi
                (fun k Hk => ow_full_keys_under dg Q' pv1 (JObj kvs) hkey k HQ' Hk) E1) as [pa1 [R1 _]].
    unfold purge_path. rewrite (Hp hkey eq_refl), (cy_rep_resolve_status p1 pa1 field hkey R1 Hf). reflexivity.
  - reflexivity.
  - apply br_ptouch_smart.
  - reflexivity.
Qed.

Lemma cy_fold_err : forall (S : json -> own_op -> res json) ops,
  fold_left (fun acc op => bind acc (fun p => S p op)) ops ErrKey = ErrKey /\
  fold_left (fun acc op => bind acc (fun p => S p op)) ops ErrType = ErrType /\
  fold_left (fun acc op => bind acc (fun p => S p op)) ops ErrValue = ErrValue.
Proof. intros S. induction ops as [|op ops IH]; cbn [fold_left bind]; auto. Qed.

Lemma cy_own_patch_smart : forall dg Q key v1 Q' pv1 verbose tk field tf kvs md A ops p0 pa0,
  Q <> "" -> Q' <> "" -> C04Own.no_slash Q = true -> C04Own.no_slash Q' = true ->
  lookup "metadata" kvs = Some (JObj md) -> lookup "annotations" md = Some (JObj A) ->
  hd_error field = Some "status" ->
  cy_rep p0 pa0 -> cy_inv Q Q' A pa0 -> ops_ok Q Q' ops ->
  (forall hkey, In (OwPurge hkey) ops -> resolve (JObj kvs) (field ++ [hkey]) = None) ->
  fold_left (fun acc op => bind acc (fun p =>
     own_step dg (DAnn Q key v1 []) (smart Q' pv1 verbose tk field tf) (JObj kvs) p op)) ops (Ok p0)
  = fold_left (fun acc op => bind acc (fun p =>
     own_step dg (DAnn Q key v1 []) (PAnn Q' pv1 verbose tk) (JObj kvs) p op)) ops (Ok p0).
Proof.
  intros dg Q key v1 Q' pv1 verbose tk field tf kvs md A.
  induction ops as [|op ops IH]; intros p0 pa0 HQ HQ' Hs Hs' Hm Ha Hf Hr Hi Hok Hp; cbn [fold_left bind]; auto.
  inversion Hok as [|? ? Hop Hops]; subst.
  rewrite (cy_step_smart dg Q key v1 Q' pv1 verbose tk field tf kvs A p0 pa0 op HQ' Hf Hr Hi)
    by (intros hkey ->; apply Hp; now left).
  destruct (own_step dg (DAnn Q key v1 []) (PAnn Q' pv1 verbose tk) (JObj kvs) p0 op) as [p1| | |] eqn:E1.
  - destruct (cy_step dg Q key v1 Q' pv1 verbose tk kvs md A p0 pa0 op p1 HQ HQ' Hs Hs' Hm Ha Hr Hi Hop E1)
      as [pa1 [R1 I1]].
    apply (IH p1 pa1); auto. intros hkey Hk. apply Hp. now right.
  - now rewrite !(proj1 (cy_fold_err _ ops)).
  - now rewrite !(proj1 (proj2 (cy_fold_err _ ops))).
  - now rewrite !(proj2 (proj2 (cy_fold_err _ ops))).
Qed.

(* partial: for handlers purged in this cycle the body carries no progress record under the status field
   (the `smart` storage never writes there: nowrite) *)
Theorem own_patch_invisible_smart_partial : forall dg Q key v1 Q' pv1 verbose tk field tf kvs md A ops p,
  Q <> "" -> Q' <> "" -> C04Own.no_slash Q = true -> C04Own.no_slash Q' = true ->
  lookup "metadata" kvs = Some (JObj md) -> lookup "annotations" md = Some (JObj A) ->
  hd_error field = Some "status" ->
  ops_ok Q Q' ops ->
  (forall hkey, In (OwPurge hkey) ops -> resolve (JObj kvs) (field ++ [hkey]) = None) ->
  (forall j, In j (keys A) -> under_prefix Q j = true ->
     vis Q' (full_keys dg Q v1 (body_with kvs md A) key) A j = false) ->
  own_patch dg (DAnn Q key v1 []) (smart Q' pv1 verbose tk field tf) (JObj kvs) ops = Ok p ->
  essence dg (DAnn Q key v1 []) (smart Q' pv1 verbose tk field tf) (merge (JObj kvs) p) []
  = essence dg (DAnn Q key v1 []) (smart Q' pv1 verbose tk field tf) (JObj kvs) [].
Proof.
  intros dg Q key v1 Q' pv1 verbose tk field tf kvs md A ops p HQ HQ' Hs Hs' Hm Ha Hf Hok Hp Hg H.
  unfold own_patch in H.
  rewrite (cy_own_patch_smart dg Q key v1 Q' pv1 verbose tk field tf kvs md A ops (JObj []) []
             HQ HQ' Hs Hs' Hm Ha Hf cy_rep_empty (cy_inv_nil Q Q' A) Hok Hp) in H.
  pose proof (own_patch_invisible dg Q key v1 Q' pv1 verbose tk kvs md A ops p HQ HQ' Hs Hs' Hm Ha Hok Hg H) as HH.
  destruct (cy_own_patch_inv dg Q key v1 Q' pv1 verbose tk kvs md A ops (JObj []) [] p
              HQ HQ' Hs Hs' Hm Ha cy_rep_empty (cy_inv_nil Q Q' A) Hok H) as [pa [R I]].
  rewrite (cy_rep_merge kvs md A p pa Hm Ha R) in * by (destruct I as [[S _] _]; exact S).
  unfold smart. eapply cy_smart_transfer; eauto.
Qed.

Example own_patch_smart_example :
  let Q := "kopf.zalando.org" in
  let ds := DAnn Q "last-handled-configuration" true [] in
  let ps := smart Q true false "touch-dummy" ["status"; "kopf"; "progress"] ["status"; "kopf"; "dummy"] in
  (forall hkey, In (OwPurge hkey) cy_ex_ops -> resolve (JObj cy_ex_kvs) (["status"; "kopf"; "progress"] ++ [hkey]) = None) /\
  bind (own_body_after (table_dg []) ds ps (JObj cy_ex_kvs) cy_ex_ops)
       (fun b => old_new_diff (table_dg []) ds ps b [])
  = Ok (Some cy_ex_e, cy_ex_e, []).
Proof.
  cbv zeta. split; [|vm_compute; reflexivity].
  intros hkey Hin. reflexivity.
Qed.

Print Assumptions own_patch_invisible_smart_partial.
Print Assumptions own_patch_smart_example.

(* after the store, a further cycle of progress writes on the patched object: still no change seen *)
Example no_self_trigger_after_own_writes_example :
  let Q := "my-op.example.com" in
  let Q' := "kopf.zalando.org" in
  let ds := DAnn Q "last-handled-configuration" true [] in
  let ps := PAnn Q' true false "touch-dummy" in
  let ops := [OwStore "update_fn" [("started", JStr "t1"); ("retries", JNum 1)]; OwPurge "old_fn"; OwTouch (JStr "t2")] in
  Q <> Q' /\ Forall (cy_prog_ok Q') ops /\
  exists p p2,
    dstore (table_dg []) ds (JObj cy_ex_kvs) (JObj []) cy_ex_e = Ok p /\
    own_patch (table_dg []) ds ps (merge (JObj cy_ex_kvs) p) ops = Ok p2 /\
    p2 = ann_patch [("kopf.zalando.org/update_fn", JEnc (JObj [("started", JStr "t1"); ("retries", JNum 1)]));
                    ("kopf.zalando.org/old_fn", JNull); ("kopf.zalando.org/touch-dummy", JStr "t2")] /\
    old_new_diff (table_dg []) ds ps (merge (merge (JObj cy_ex_kvs) p) p2) [] = Ok (Some cy_ex_e, cy_ex_e, []).
Proof.
  cbv zeta. split; [discriminate|]. split; [repeat constructor|].
  eexists. eexists. split; [vm_compute; reflexivity|]. split; [vm_compute; reflexivity|].
  split; vm_compute; reflexivity.
Qed.
Print Assumptions no_self_trigger_after_own_writes_example.
