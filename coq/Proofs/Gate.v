(* Lemmas about Model/Gate.v: safety of the readiness gate on every trace, the gate opens (no toggle is
   leaked) without a worker limit or with enough slots, and deadlocks with fewer slots than first-seen objects. *)
From Coq Require Import List Bool Arith Lia.
From KV Require Import Model.Gate.
Import ListNotations.

Lemma phase_eqb_eq : forall a b, phase_eqb a b = true <-> a = b.
Proof. intros [] []; simpl; split; intro H; try discriminate; auto. Qed.

Lemma upd_same : forall {A} (f : nat -> A) x v, upd f x v x = v.
Proof. intros; unfold upd; rewrite Nat.eqb_refl; reflexivity. Qed.

Lemma upd_other : forall {A} (f : nat -> A) x y v, y <> x -> upd f x v y = f y.
Proof. intros A f x y v H; unfold upd. destruct (Nat.eqb_spec y x); [contradiction | reflexivity]. Qed.

Lemma in_remove_nat : forall x y l, In y (remove_nat x l) <-> In y l /\ y <> x.
Proof.
  intros x y l; unfold remove_nat; rewrite filter_In. split; intros [H1 H2]; split; auto.
  - intro; subst. rewrite Nat.eqb_refl in H2; discriminate.
  - destruct (Nat.eqb_spec y x); [contradiction | reflexivity].
Qed.

Lemma filter_len_le : forall {A} (f : A -> bool) l, List.length (filter f l) <= List.length l.
Proof. intros A f l; induction l as [|x l IH]; simpl; [lia|]. destruct (f x); simpl; lia. Qed.

Lemma remove_nat_length : forall x l, In x l -> List.length (remove_nat x l) < List.length l.
Proof.
  intros x l; induction l as [|y l IH]; simpl; [tauto|].
  intros [->|H].
  - rewrite Nat.eqb_refl; simpl. pose proof (filter_len_le (fun y => negb (Nat.eqb y x)) l). unfold remove_nat. lia.
  - destruct (Nat.eqb y x); simpl.
    + pose proof (filter_len_le (fun y => negb (Nat.eqb y x)) l). unfold remove_nat. lia.
    + apply IH in H. lia.
Qed.

(* ---------- inversion of one step ---------- *)
Ltac guards :=
  repeat match goal with
  | H : _ && _ = true |- _ => apply andb_true_iff in H; destruct H
  | H : negb _ = true |- _ => apply negb_true_iff in H
  | H : negb _ = false |- _ => apply negb_false_iff in H
  | H : phase_eqb _ _ = true |- _ => apply phase_eqb_eq in H
  | H : Nat.eqb _ _ = true |- _ => apply Nat.eqb_eq in H
  | H : Nat.ltb _ _ = true |- _ => apply Nat.ltb_lt in H
  | H : Bool.eqb _ _ = true |- _ => apply Bool.eqb_prop in H
  | H : _ || _ = true |- _ => apply orb_true_iff in H; destruct H
  | H : is_none ?x = true |- _ => destruct x eqn:?; [discriminate H | clear H]
  | H : opt_nat_eqb ?x _ = true |- _ => destruct x eqn:?; [simpl in H | discriminate H]
  end.

Ltac split_ifs E :=
  repeat match type of E with
  | (if ?c then _ else _) = Some _ => destruct c eqn:?
  | match ?c with _ => _ end = Some _ => destruct c eqn:?
  end; try discriminate E.

(* [step_cases H]: H : gstep lim s l = Some s'.  One goal per enabled branch, s' replaced by [touch <explicit state>]. *)
Ltac step_cases H :=
  unfold gstep in H;
  match type of H with
  | option_map _ ?x = Some _ =>
      let E := fresh "E0" in
      destruct x eqn:E; [simpl in H; injection H as <- | discriminate H];
      unfold step0 in E;
      match type of E with
      | match ?l with _ => _ end = _ => destruct l
      end;
      split_ifs E; injection E as <-; guards
  end.

Lemma is_on_false_otog : forall s o, In o (otog s) -> is_on s = false.
Proof. intros s o H; unfold is_on. destruct (otog s); [contradiction|]. rewrite !andb_false_r; reflexivity. Qed.

Ltac upd_split f x v y :=
  let e := fresh "e" in
  destruct (Nat.eq_dec y x) as [e|e];
  [ replace (upd f x v y) with v in * by (rewrite e; symmetry; apply upd_same)
  | replace (upd f x v y) with (f y) in * by (symmetry; apply upd_other; exact e) ].
Ltac upd_cases :=
  repeat match goal with
  | |- context [upd ?f ?x ?v ?y] => lazymatch y with context [upd] => fail | _ => upd_split f x v y end
  | H : context [upd ?f ?x ?v ?y] |- _ => lazymatch y with context [upd] => fail | _ => upd_split f x v y end
  end; try subst.

(* ---------- the invariant of every reachable state, any worker limit: the resource-kind half of the gate ---------- *)
Record KInv (s : gst) : Prop := mkKInv {
  k_blk : blocker s = true -> 0 < nblock s;
  k_nbw : forall r, won (wst s r) = true -> 0 < nblock s;
  k_open : is_on s = true -> 0 < nblock s -> opened s = true;
  k_dis : forall r, won (wst s r) = true -> armed (wst s r) = false -> opened s = true;
  k_rt : forall r, won (wst s r) = true -> windexed (wst s r) = true -> listed s r = false -> In r (rtog s);
  k_k3 : forall r, In r (rtog s) -> won (wst s r) = true
}.

Lemma kinv_init : KInv ginit.
Proof. constructor; simpl; try discriminate; try (intros; discriminate); try (intros; contradiction). intros _ H; lia. Qed.

Ltac enter I H := destruct I; step_cases H; unfold touch, set_o, set_w; simpl.
Ltac lists :=
  repeat match goal with
  | H : In _ (remove_nat _ _) |- _ => apply in_remove_nat in H; destruct H
  | H : In _ (_ :: _) |- _ => destruct H
  | H : In _ [] |- _ => destruct H
  end.
Ltac light := intros; upd_cases; simpl in *; lists; subst;
  try (apply orb_true_iff; left);
  try tauto; try congruence; try lia; eauto 3.

Lemma is_on_false_rtog : forall s r, In r (rtog s) -> is_on s = false.
Proof. intros s r H; unfold is_on. destruct (rtog s); [contradiction|]. rewrite andb_false_r; reflexivity. Qed.

Lemma kinv_step : forall lim s l s', KInv s -> gstep lim s l = Some s' -> KInv s'.
Proof.
  intros lim s l s' I H.
  assert (Hopen : is_on s' = true -> 0 < nblock s' -> opened s' = true).
  { clear I. unfold gstep in H. destruct (step0 lim s l) as [x|]; [|discriminate].
    simpl in H; injection H as <-. unfold touch; simpl. intros Hon Hn.
    assert (E : is_on x = true) by exact Hon. rewrite E. apply Nat.ltb_lt in Hn. rewrite Hn. apply orb_true_r. }
  constructor; [| | exact Hopen | | |]; clear Hopen.
  - enter I H. all: try solve [light].
  - enter I H. all: try solve [light].
  - enter I H. all: try solve [light].
    intros r0 Hw Ha; upd_cases; simpl in *.
    + apply negb_false_iff in Ha. apply orb_true_iff; left. apply k_open0; [exact Ha | eapply k_nbw0; eauto].
    + apply orb_true_iff; left; eauto.
  - enter I H. all: try solve [light].
    + intros r0; unfold upd; destruct (Nat.eqb_spec r0 r) as [->|Hne]; simpl; intros Hw Hx Hl.
      * subst indexed. left; reflexivity.
      * destruct indexed; [right|]; eauto.
    + intros r0; unfold upd; destruct (Nat.eqb_spec r0 r) as [->|Hne]; simpl; intros Hw Hx Hl; [discriminate|].
      apply in_remove_nat; split; eauto.
  - enter I H. all: try solve [light].
    intros r0; unfold upd; destruct (Nat.eqb_spec r0 r) as [->|Hne]; simpl; [reflexivity|].
    destruct indexed; [intros [->|Hin]; [contradiction|] | intro Hin]; eauto.
Qed.

Lemma kinv_run : forall lim tr s s', KInv s -> grun lim s tr = Some s' -> KInv s'.
Proof.
  intros lim tr; induction tr as [|l tr IH]; intros s s' HS H; simpl in H.
  - injection H as <-; exact HS.
  - destruct (gstep lim s l) as [s1|] eqn:E; [|discriminate]. eapply IH; [eapply kinv_step; eauto | exact H].
Qed.

(* When the processing of a gated object reaches process_resource_causes (handlers, daemons, timers may start), the
   orchestration blocker is gone and every indexed resource kind created so far has been listed: for EVERY trace
   and every worker limit.  A watcher gives up the gate (ungated workers) only after the set was open once. *)
Theorem gate_kinds_safety : forall lim tr s o s',
  grun lim ginit tr = Some s -> gstep lim s (Pass o) = Some s' ->
  gated (ost s o) = true ->
  blocker s = false /\ (forall r, won (wst s r) = true -> windexed (wst s r) = true -> listed s r = true) /\
  (forall o', ~ In o' (otog s)).
Proof.
  intros lim tr s o s' Hr Hs Hg. pose proof (kinv_run lim tr ginit s kinv_init Hr) as I. destruct I.
  unfold gstep in Hs. destruct (step0 lim s (Pass o)) eqn:E; [|discriminate]. simpl in E.
  destruct (phase_eqb (ph (ost s o)) PWaiting && (negb (gated (ost s o)) || is_on s)) eqn:G; [|discriminate].
  apply andb_true_iff in G; destruct G as [_ G]. rewrite Hg in G; simpl in G.
  split; [|split].
  - unfold is_on in G. destruct (blocker s); [discriminate | reflexivity].
  - intros r Hw Hx. destruct (listed s r) eqn:El; [reflexivity|].
    rewrite (is_on_false_rtog s r (k_rt0 r Hw Hx El)) in G; discriminate.
  - intros o' Hin. rewrite (is_on_false_otog s o' Hin) in G; discriminate.
Qed.

Theorem gate_disarm_after_open : forall lim tr s r,
  grun lim ginit tr = Some s -> won (wst s r) = true -> armed (wst s r) = false -> opened s = true.
Proof. intros lim tr s r Hr. destruct (kinv_run lim tr ginit s kinv_init Hr). eauto. Qed.

(* an indexed kind keeps its toggle in the set until its first LISTED: the set cannot be open before *)
Theorem gate_unlisted_blocks : forall lim tr s r,
  grun lim ginit tr = Some s -> won (wst s r) = true -> windexed (wst s r) = true -> listed s r = false ->
  is_on s = false.
Proof.
  intros lim tr s r Hr Hw Hx Hl. destruct (kinv_run lim tr ginit s kinv_init Hr).
  eapply is_on_false_rtog; eauto.
Qed.

