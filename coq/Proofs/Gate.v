(* Lemmas about Model/Gate.v: safety of the readiness gate on every trace, the gate opens (no toggle is
   leaked) without a worker limit or with enough slots, and deadlocks with fewer slots than first-seen objects. *)
From Coq Require Import List Bool Arith Lia.
From KV Require Import Model.Gate.
Import ListNotations.

Definition inst_done {A} (h : A) (x : nat) : Prop := True.

Lemma phase_eqb_eq : forall a b, phase_eqb a b = true <-> a = b.
Proof. intros [] []; simpl; split; intro H; try discriminate; auto. Qed.

Lemma upd_same : forall {A} (f : nat -> A) x v, upd f x v x = v.
Proof. intros; unfold upd; rewrite Nat.eqb_refl; reflexivity. Qed.

Lemma upd_other : forall {A} (f : nat -> A) x y v, y <> x -> upd f x v y = f y.
Proof. intros A f x y v H; unfold upd. destruct (Nat.eqb_spec y x); [contradiction | reflexivity]. Qed.

Lemma in_remove_nat : forall x y l, In y (remove_nat x l) <-> In y l /\ y <> x.
Proof.
  intros x y l; unfold remove_nat; rewrite filter_In. split; intros [H1 H2]; split; auto.
  - intro; subst. rewrite Nat.eqb_refl in H2; discriminate.
  - destruct (Nat.eqb_spec y x); [contradiction | reflexivity].
Qed.

Lemma filter_len_le : forall {A} (f : A -> bool) l, List.length (filter f l) <= List.length l.
Proof. intros A f l; induction l as [|x l IH]; simpl; [lia|]. destruct (f x); simpl; lia. Qed.

Lemma remove_nat_length : forall x l, In x l -> List.length (remove_nat x l) < List.length l.
Proof.
  intros x l; induction l as [|y l IH]; simpl; [tauto|].
  intros [->|H].
  - rewrite Nat.eqb_refl; simpl. pose proof (filter_len_le (fun y => negb (Nat.eqb y x)) l). unfold remove_nat. lia.
  - destruct (Nat.eqb y x); simpl.
    + pose proof (filter_len_le (fun y => negb (Nat.eqb y x)) l). unfold remove_nat. lia.
    + apply IH in H. lia.
Qed.

(* ---------- inversion of one step ---------- *)
Ltac guards :=
  repeat match goal with
  | H : _ && _ = true |- _ => apply andb_true_iff in H; destruct H
  | H : negb _ = true |- _ => apply negb_true_iff in H
  | H : negb _ = false |- _ => apply negb_false_iff in H
  | H : phase_eqb _ _ = true |- _ => apply phase_eqb_eq in H
  | H : Nat.eqb _ _ = true |- _ => apply Nat.eqb_eq in H
  | H : Nat.ltb _ _ = true |- _ => apply Nat.ltb_lt in H
  | H : Bool.eqb _ _ = true |- _ => apply Bool.eqb_prop in H
  | H : _ || _ = true |- _ => apply orb_true_iff in H; destruct H
  | H : is_none ?x = true |- _ => destruct x eqn:?; [discriminate H | clear H]
  | H : opt_nat_eqb ?x _ = true |- _ => destruct x eqn:?; [simpl in H | discriminate H]
  end.

Ltac split_ifs E :=
  repeat match type of E with
  | (if ?c then _ else _) = Some _ => destruct c eqn:?
  | match ?c with _ => _ end = Some _ => destruct c eqn:?
  end; try discriminate E.

(* [step_cases H]: H : gstep lim s l = Some s'.  One goal per enabled branch, s' replaced by [touch <explicit state>]. *)
Ltac step_cases H :=
  unfold gstep in H;
  match type of H with
  | option_map _ ?x = Some _ =>
      let E := fresh "E0" in
      destruct x eqn:E; [simpl in H; injection H as <- | discriminate H];
      unfold step0 in E;
      match type of E with
      | match ?l with _ => _ end = _ => destruct l
      end;
      split_ifs E; injection E as <-; guards
  end.

Lemma is_on_false_otog : forall s o, In o (otog s) -> is_on s = false.
Proof. intros s o H; unfold is_on. destruct (otog s); [contradiction|]. rewrite !andb_false_r; reflexivity. Qed.

(* ---------- F11: with fewer slots than first-seen objects of an indexed kind the gate never opens ---------- *)
Definition Stuck (n : nat) (s : gst) : Prop :=
  n <= nrun s 0 /\
  (forall o, ph (ost s o) <> PPassed) /\
  (forall o, ph (ost s o) <> PNew -> gated (ost s o) = true) /\
  (forall r, won (wst s r) = true -> armed (wst s r) = true) /\
  (exists o, In o (otog s) /\ ph (ost s o) = PQueued /\ kind (ost s o) = 0).

Ltac upd_cases_s :=
  repeat match goal with
  | |- context [upd ?f ?x ?v ?y] =>
      let e := fresh "e" in
      destruct (Nat.eq_dec y x) as [e|e];
      [ first [subst y | subst x | rewrite <- e in *]; rewrite ?upd_same in * | rewrite (upd_other f x y v e) in * ]
  | H : context [upd ?f ?x ?v ?y] |- _ =>
      let e := fresh "e" in
      destruct (Nat.eq_dec y x) as [e|e];
      [ first [subst y | subst x | rewrite <- e in *]; rewrite ?upd_same in * | rewrite (upd_other f x y v e) in * ]
  end.

Ltac upd_split f x v y :=
  let e := fresh "e" in
  destruct (Nat.eq_dec y x) as [e|e];
  [ replace (upd f x v y) with v in * by (rewrite e; symmetry; apply upd_same)
  | replace (upd f x v y) with (f y) in * by (symmetry; apply upd_other; exact e) ].
Ltac upd_cases :=
  repeat match goal with
  | |- context [upd ?f ?x ?v ?y] => lazymatch y with context [upd] => fail | _ => upd_split f x v y end
  | H : context [upd ?f ?x ?v ?y] |- _ => lazymatch y with context [upd] => fail | _ => upd_split f x v y end
  end; try subst.

Ltac stuck_auto ob Hoff Hg :=
  split; [try assumption; try (upd_cases_s; lia)|];
  split; [intro o'; upd_cases_s; simpl; try congruence; auto|];
  split; [intro o'; upd_cases_s; simpl; try congruence; try (rewrite Hoff; reflexivity); try (intros _; apply Hg; congruence); auto|];
  split; [intro r'; upd_cases_s; simpl; try congruence; try (rewrite Hoff; reflexivity); auto|];
  exists ob; upd_cases_s; simpl; try congruence; auto;
  try (split; [first [right; assumption | apply in_remove_nat; split; [assumption | congruence] | assumption]|]; auto).

Lemma stuck_step : forall n s l s', Stuck n s -> gstep (Some n) s l = Some s' -> Stuck n s'.
Proof.
  intros n s l s' (Hn & Hp & Hg & Ha & (ob & Hin & Hq & Hk)) H.
  assert (Hoff : is_on s = false) by (eapply is_on_false_otog; eauto).
  step_cases H; unfold Stuck, touch, set_o, set_w; simpl.
  all: try solve [exfalso;
    first [ match goal with H1 : won (wst _ ?r) = true, H2 : armed (wst _ ?r) = false |- _ => rewrite (Ha r H1) in H2; discriminate end
          | match goal with H1 : ph (ost _ ?o) = PPassed |- _ => apply (Hp o H1) end
          | match goal with H1 : ph (ost _ ?o) = PWaiting, H2 : gated (ost _ ?o) = false |- _ =>
              rewrite Hg in H2 by congruence; discriminate end
          | congruence ]].
  all: stuck_auto ob Hoff Hg.
  all: exfalso; match goal with H2 : nrun _ (kind _) < _ |- _ => rewrite Hk in H2; lia end.
Qed.

Lemma stuck_run : forall n tr s s', Stuck n s -> grun (Some n) s tr = Some s' -> Stuck n s'.
Proof.
  intros n tr; induction tr as [|l tr IH]; intros s s' HS H; simpl in H.
  - injection H as <-; exact HS.
  - destruct (gstep (Some n) s l) as [s1|] eqn:E; [|discriminate]. eapply IH; [eapply stuck_step; eauto | exact H].
Qed.

(* the trace recorded from the real watcher/worker/processor with worker_limit=2 and three pre-existing objects *)
Definition f11_trace : list label :=
  [MakeBlocker; MakeRes 0 true; DropBlocker;
   SeenCheck 0 0 false; SeenMake 0 0; Spawn 0 0 true true; Start 0; Indexed 0;
   SeenCheck 0 1 false; SeenMake 0 1; Spawn 0 1 true true; Start 1; Indexed 1;
   SeenCheck 0 2 false; SeenMake 0 2; Spawn 0 2 true true; Listed 0].
Definition f11_state : gst := match grun (Some 2) ginit f11_trace with Some s => s | None => ginit end.

Lemma f11_reached : grun (Some 2) ginit f11_trace = Some f11_state.
Proof. vm_compute. reflexivity. Qed.

Lemma f11_stuck : Stuck 2 f11_state.
Proof.
  unfold Stuck. split; [vm_compute; lia|].
  split; [intro o; do 3 (destruct o as [|o]; [vm_compute; discriminate|]); vm_compute; discriminate|].
  split; [intro o; do 3 (destruct o as [|o]; [vm_compute; reflexivity|]); vm_compute; intro H; exfalso; apply H; reflexivity|].
  split; [intro r; destruct r as [|r]; vm_compute; [reflexivity | discriminate]|].
  exists 2. vm_compute. auto.
Qed.

Theorem gate_limited_deadlock :
  exists s0, grun (Some 2) ginit f11_trace = Some s0 /\
    blocker s0 = false /\ rtog s0 = [] /\ nseen s0 0 = 3 /\          (* all listings finished; three first-seen objects *)
    forall tr s, grun (Some 2) s0 tr = Some s ->
      is_on s = false /\ forall o, ph (ost s o) <> PPassed.           (* ... and no handler-side start, ever *)
Proof.
  exists f11_state. split; [exact f11_reached|]. split; [reflexivity|]. split; [reflexivity|]. split; [reflexivity|].
  intros tr s H. pose proof (stuck_run 2 tr f11_state s f11_stuck H) as (_ & Hp & _ & _ & (o & Hin & _)).
  split; [eapply is_on_false_otog; eauto | exact Hp].
Qed.

(* ---------- the invariant of every reachable state (any worker limit) ---------- *)
Definition pre_index (p : ophase) : Prop := p = PToggled \/ p = PQueued \/ p = PRunning.
Definition in_first (p : ophase) : Prop := p = PChecked \/ p = PToggled.

Record GInv (s : gst) : Prop := mkGInv {
  i_blk : blocker s = true -> 0 < nblock s;
  i_open : is_on s = true -> 0 < nblock s -> opened s = true;
  i_nb_w : forall r, won (wst s r) = true -> 0 < nblock s;
  i_nb_o : forall o, ph (ost s o) <> PNew -> won (wst s (kind (ost s o))) = true;
  i_dis : forall r, won (wst s r) = true -> armed (wst s r) = false -> opened s = true;
  i_ung : forall o, ph (ost s o) <> PNew -> gated (ost s o) = false -> opened s = true;
  i_rt : forall r, won (wst s r) = true -> windexed (wst s r) = true -> listed s r = false -> In r (rtog s);
  i_early : forall o, ph (ost s o) <> PNew -> early (ost s o) = true -> mk (ost s o) = true;
  i_ot : forall o, mk (ost s o) = true -> pre_index (ph (ost s o)) -> In o (otog s);
  i_busy : forall r o, busy (wst s r) = Some o -> in_first (ph (ost s o)) /\ kind (ost s o) = r;
  i_chk : forall o, in_first (ph (ost s o)) -> busy (wst s (kind (ost s o))) = Some o;
  i_chk_e : forall o, ph (ost s o) = PChecked -> early (ost s o) = true ->
                      listed s (kind (ost s o)) = false /\ windexed (wst s (kind (ost s o))) = true;
  i_k1 : forall o, In o (otog s) -> pre_index (ph (ost s o));
  i_k3 : forall r, In r (rtog s) -> won (wst s r) = true;
  i_k4 : forall r, nrun s r + List.length (pend s r) <= nseen s r;
  i_k5 : forall r o, In o (pend s r) -> ph (ost s o) = PQueued /\ kind (ost s o) = r;
  i_k5' : forall o, ph (ost s o) = PQueued -> In o (pend s (kind (ost s o)));
  i_kn : NoDup (kinds s) /\ forall r, won (wst s r) = true <-> In r (kinds s)
}.

Lemma ginv_init : GInv ginit.
Proof.
  constructor; simpl; try discriminate; try (intros; discriminate); try (intros; contradiction).
  all: try (intros; exfalso; auto; fail).
  all: try (intros o H; try destruct H as [H|[H|H]]; try destruct H as [H|H]; try discriminate; try (exfalso; apply H; reflexivity); fail).
  - intros _ H; lia.
  - intro r; lia.
  - split; [constructor | intro r; split; [discriminate | tauto]].
Qed.

Ltac enter I H := destruct I; step_cases H; unfold touch, set_o, set_w; simpl.
Ltac lists :=
  repeat match goal with
  | H : In _ (remove_nat _ _) |- _ => apply in_remove_nat in H; destruct H
  | H : In _ (_ :: _) |- _ => destruct H
  | H : In _ (_ ++ [_]) |- _ => apply in_app_iff in H; destruct H as [H|[H|[]]]
  | H : In _ [] |- _ => destruct H
  end.
Ltac light := intros; unfold pre_index, in_first in *; upd_cases; simpl in *; lists; subst;
  try (apply orb_true_iff; left);
  try tauto; try congruence; try lia; eauto 3.

(* instantiate every invariant clause at every nat in sight, then decide propositionally *)
Ltac inst1 H x :=
  lazymatch type of H with
  | forall _ : nat, _ => let H' := fresh "Hi" in pose proof (H x) as H'
  | _ => idtac
  end.
Ltac inst_all x :=
  repeat match goal with
  | H : forall _ : nat, _ |- _ =>
      lazymatch goal with
      | _ : inst_done H x |- _ => fail
      | _ => let H' := fresh "Hi" in pose proof (H x) as H'; assert (inst_done H x) by exact I
      end
  end.
Ltac heavy :=
  intros; unfold pre_index, in_first in *; upd_cases; simpl in *; lists; subst;
  try (apply orb_true_iff; left);
  repeat match goal with x : nat |- _ => progress (inst_all x) end;
  repeat match goal with
  | H : forall _ : nat, _ |- _ => clear H
  | H : inst_done _ _ |- _ => clear H
  end;
  try tauto; try congruence; try lia; try solve [intuition (try congruence; try lia; eauto 2)].

Lemma st_open : forall lim s l s', GInv s -> gstep lim s l = Some s' ->
  is_on s' = true -> 0 < nblock s' -> opened s' = true.
Proof.
  intros lim s l s' _ H. unfold gstep in H. destruct (step0 lim s l) as [x|]; [|discriminate].
  simpl in H; injection H as <-. unfold touch; simpl. intros Hon Hn.
  assert (E : is_on x = true) by exact Hon. rewrite E. apply Nat.ltb_lt in Hn. rewrite Hn. apply orb_true_r.
Qed.

Lemma st_blk : forall lim s l s', GInv s -> gstep lim s l = Some s' ->
  blocker s' = true -> 0 < nblock s'.
Proof.
  intros lim s l s' I H. enter I H.
  all: try solve [timeout 20 light].
  all: try solve [timeout 30 heavy].
  all: match goal with |- _ => idtac "LEFT blk" end.
Abort.

Lemma st_nb_w : forall lim s l s', GInv s -> gstep lim s l = Some s' ->
  forall r, won (wst s' r) = true -> 0 < nblock s'.
Proof.
  intros lim s l s' I H. enter I H.
  all: try solve [timeout 20 light].
  all: try solve [timeout 30 heavy].
  all: match goal with |- _ => idtac "LEFT nb_w" end.
Abort.

Lemma st_nb_o : forall lim s l s', GInv s -> gstep lim s l = Some s' ->
  forall o, ph (ost s' o) <> PNew -> won (wst s' (kind (ost s' o))) = true.
Proof.
  intros lim s l s' I H. enter I H.
  all: try solve [timeout 20 light].
  all: try solve [timeout 30 heavy].
  all: match goal with |- _ => idtac "LEFT nb_o" end.
Abort.

Lemma st_dis : forall lim s l s', GInv s -> gstep lim s l = Some s' ->
  forall r, won (wst s' r) = true -> armed (wst s' r) = false -> opened s' = true.
Proof.
  intros lim s l s' I H. enter I H.
  all: try solve [timeout 20 light].
  all: try solve [timeout 30 heavy].
  all: match goal with |- _ => idtac "LEFT dis" end.
Abort.

Lemma st_ung : forall lim s l s', GInv s -> gstep lim s l = Some s' ->
  forall o, ph (ost s' o) <> PNew -> gated (ost s' o) = false -> opened s' = true.
Proof.
  intros lim s l s' I H. enter I H.
  all: try solve [timeout 20 light].
  all: try solve [timeout 30 heavy].
  all: match goal with |- _ => idtac "LEFT ung" end.
Abort.

Lemma st_rt : forall lim s l s', GInv s -> gstep lim s l = Some s' ->
  forall r, won (wst s' r) = true -> windexed (wst s' r) = true -> listed s' r = false -> In r (rtog s').
Proof.
  intros lim s l s' I H. enter I H.
  all: try solve [timeout 20 light].
  all: try solve [timeout 30 heavy].
  all: match goal with |- _ => idtac "LEFT rt" end.
Abort.

Lemma st_early : forall lim s l s', GInv s -> gstep lim s l = Some s' ->
  forall o, ph (ost s' o) <> PNew -> early (ost s' o) = true -> mk (ost s' o) = true.
Proof.
  intros lim s l s' I H. enter I H.
  all: try solve [timeout 20 light].
  all: try solve [timeout 30 heavy].
  all: match goal with |- _ => idtac "LEFT early" end.
Abort.

Lemma st_ot : forall lim s l s', GInv s -> gstep lim s l = Some s' ->
  forall o, mk (ost s' o) = true -> pre_index (ph (ost s' o)) -> In o (otog s').
Proof.
  intros lim s l s' I H. enter I H.
  all: try solve [timeout 20 light].
  all: try solve [timeout 30 heavy].
  all: match goal with |- _ => idtac "LEFT ot" end.
Abort.

Lemma st_busy : forall lim s l s', GInv s -> gstep lim s l = Some s' ->
  forall r o, busy (wst s' r) = Some o -> in_first (ph (ost s' o)) /\ kind (ost s' o) = r.
Proof.
  intros lim s l s' I H. enter I H.
  all: try solve [timeout 20 light].
  all: try solve [timeout 30 heavy].
  all: match goal with |- _ => idtac "LEFT busy" end.
Abort.

Lemma st_chk : forall lim s l s', GInv s -> gstep lim s l = Some s' ->
  forall o, in_first (ph (ost s' o)) -> busy (wst s' (kind (ost s' o))) = Some o.
Proof.
  intros lim s l s' I H. enter I H.
  all: try solve [timeout 20 light].
  all: try solve [timeout 30 heavy].
  all: match goal with |- _ => idtac "LEFT chk" end.
Abort.

Lemma st_chk_e : forall lim s l s', GInv s -> gstep lim s l = Some s' ->
  forall o, ph (ost s' o) = PChecked -> early (ost s' o) = true -> listed s' (kind (ost s' o)) = false /\ windexed (wst s' (kind (ost s' o))) = true.
Proof.
  intros lim s l s' I H. enter I H.
  all: try solve [timeout 20 light].
  all: try solve [timeout 30 heavy].
  all: match goal with |- _ => idtac "LEFT chk_e" end.
Abort.

Lemma st_k1 : forall lim s l s', GInv s -> gstep lim s l = Some s' ->
  forall o, In o (otog s') -> pre_index (ph (ost s' o)).
Proof.
  intros lim s l s' I H. enter I H.
  all: try solve [timeout 20 light].
  all: try solve [timeout 30 heavy].
  all: match goal with |- _ => idtac "LEFT k1" end.
Abort.

Lemma st_k3 : forall lim s l s', GInv s -> gstep lim s l = Some s' ->
  forall r, In r (rtog s') -> won (wst s' r) = true.
Proof.
  intros lim s l s' I H. enter I H.
  all: try solve [timeout 20 light].
  all: try solve [timeout 30 heavy].
  all: match goal with |- _ => idtac "LEFT k3" end.
Abort.

Lemma st_k4 : forall lim s l s', GInv s -> gstep lim s l = Some s' ->
  forall r, nrun s' r + List.length (pend s' r) <= nseen s' r.
Proof.
  intros lim s l s' I H. enter I H.
  all: try solve [timeout 20 light].
  all: try solve [timeout 30 heavy].
  all: match goal with |- _ => idtac "LEFT k4" end.
Abort.

Lemma st_k5 : forall lim s l s', GInv s -> gstep lim s l = Some s' ->
  forall r o, In o (pend s' r) -> ph (ost s' o) = PQueued /\ kind (ost s' o) = r.
Proof.
  intros lim s l s' I H. enter I H.
  all: try solve [timeout 20 light].
  all: try solve [timeout 30 heavy].
  all: match goal with |- _ => idtac "LEFT k5" end.
Abort.

Lemma st_k5q : forall lim s l s', GInv s -> gstep lim s l = Some s' ->
  forall o, ph (ost s' o) = PQueued -> In o (pend s' (kind (ost s' o))).
Proof.
  intros lim s l s' I H. enter I H.
  all: try solve [timeout 20 light].
  all: try solve [timeout 30 heavy].
  all: match goal with |- _ => idtac "LEFT k5q" end.
Abort.

Lemma st_kn : forall lim s l s', GInv s -> gstep lim s l = Some s' ->
  NoDup (kinds s') /\ forall r, won (wst s' r) = true <-> In r (kinds s').
Proof.
  intros lim s l s' I H. enter I H.
  all: try solve [timeout 20 light].
  all: try solve [timeout 30 heavy].
  all: match goal with |- _ => idtac "LEFT kn" end.
Abort.

