(* Lemmas about Model/Index.v: forward/reverse consistency, no empty stores, refinement of the
   reference map  object -> key -> value, the outcome table, and the excluded-handler rule. *)
From Coq Require Import ZArith List String Bool Lia.
From KV Require Import Base.Json Base.Dicts Base.Harness Model.Index.
Import ListNotations.
Open Scope list_scope.

Lemma nodup_snoc : forall {A} (l : list A) k, NoDup l -> ~ In k l -> NoDup (l ++ [k]).
Proof.
  intros A l k; induction l as [|x l IH]; simpl; intros H Hn.
  - constructor; auto.
  - inversion H; subst. constructor.
    + rewrite in_app_iff; simpl. intros [Hx|[Hx|[]]]; [contradiction | subst; apply Hn; auto].
    + apply IH; auto.
Qed.

(* ---------- ordered dictionaries ---------- *)
Section AssocLemmas.
  Context {A B : Type} (eqb : A -> A -> bool).
  Hypothesis eqb_spec : forall a b, eqb a b = true <-> a = b.

  Lemma eqb_refl : forall a, eqb a a = true.
  Proof. intro a; apply eqb_spec; reflexivity. Qed.

  Lemma eqb_neq : forall a b, a <> b -> eqb a b = false.
  Proof. intros a b H; destruct (eqb a b) eqn:E; auto. apply eqb_spec in E; contradiction. Qed.

  Lemma eqb_false : forall a b, eqb a b = false -> a <> b.
  Proof. intros a b H E; subst; rewrite eqb_refl in H; discriminate. Qed.

  Lemma eqb_dec : forall a b : A, {a = b} + {a <> b}.
  Proof. intros a b; destruct (eqb a b) eqn:E; [left; apply eqb_spec; auto | right; apply eqb_false; auto]. Qed.

  Lemma aget_aset_same : forall k v (l : list (A * B)), aget eqb k (aset eqb k v l) = Some v.
  Proof.
    intros k v l; induction l as [|[k' v'] l IH]; simpl.
    - rewrite eqb_refl; reflexivity.
    - destruct (eqb k k') eqn:E; simpl; rewrite E; auto.
  Qed.

  Lemma aget_aset_other : forall k k' v (l : list (A * B)), k <> k' -> aget eqb k' (aset eqb k v l) = aget eqb k' l.
  Proof.
    intros k k' v l Hn; induction l as [|[k2 v2] l IH]; simpl.
    - rewrite (eqb_neq k' k); auto.
    - destruct (eqb k k2) eqn:E; simpl.
      + apply eqb_spec in E; subst k2. rewrite (eqb_neq k' k); auto.
      + destruct (eqb k' k2); auto.
  Qed.

  Lemma aget_adel_same : forall k (l : list (A * B)), aget eqb k (adel eqb k l) = None.
  Proof.
    intros k l; induction l as [|[k' v'] l IH]; simpl; auto.
    destruct (eqb k k') eqn:E; simpl; auto. rewrite E; auto.
  Qed.

  Lemma aget_adel_other : forall k k' (l : list (A * B)), k <> k' -> aget eqb k' (adel eqb k l) = aget eqb k' l.
  Proof.
    intros k k' l Hn; induction l as [|[k2 v2] l IH]; simpl; auto.
    destruct (eqb k k2) eqn:E; simpl.
    - apply eqb_spec in E; subst k2. rewrite (eqb_neq k' k); auto.
    - destruct (eqb k' k2); auto.
  Qed.

  Lemma aset_not_nil : forall k v (l : list (A * B)), aset eqb k v l <> [].
  Proof. intros k v [|[k' v'] l]; simpl; [discriminate | destruct (eqb k k'); discriminate]. Qed.

  Lemma adel_nil_get : forall k k' (l : list (A * B)), adel eqb k l = [] -> k <> k' -> aget eqb k' l = None.
  Proof. intros k k' l H Hn. rewrite <- (aget_adel_other k k' l Hn), H. reflexivity. Qed.

  Lemma aget_in : forall k v (l : list (A * B)), aget eqb k l = Some v -> In (k, v) l.
  Proof.
    intros k v l; induction l as [|[k' v'] l IH]; simpl; [discriminate|].
    destruct (eqb k k') eqn:E; intro H.
    - apply eqb_spec in E; subst; injection H as <-; auto.
    - auto.
  Qed.

  (* keys stay unique *)
  Lemma keys_aset : forall k v (l : list (A * B)),
      map fst (aset eqb k v l) = if existsb (eqb k) (map fst l) then map fst l else map fst l ++ [k].
  Proof.
    intros k v l; induction l as [|[k' v'] l IH]; simpl; auto.
    destruct (eqb k k') eqn:E; simpl; auto.
    rewrite IH. destruct (existsb (eqb k) (map fst l)); auto.
  Qed.

  Lemma in_keys_adel : forall k x (l : list (A * B)), In x (map fst (adel eqb k l)) -> In x (map fst l) /\ x <> k.
  Proof.
    intros k x l; induction l as [|[k' v'] l IH]; simpl; [tauto|].
    destruct (eqb k k') eqn:E; simpl.
    - intro H; apply IH in H; tauto.
    - intros [H|H]; [subst; split; auto; intro; subst; rewrite eqb_refl in E; discriminate | apply IH in H; tauto].
  Qed.

  Lemma nodup_adel : forall k (l : list (A * B)), NoDup (map fst l) -> NoDup (map fst (adel eqb k l)).
  Proof.
    intros k l; induction l as [|[k' v'] l IH]; simpl; auto.
    intro H; inversion H; subst. destruct (eqb k k'); simpl; auto.
    constructor; auto. intro Hin; apply in_keys_adel in Hin; tauto.
  Qed.

  Lemma existsb_eqb_in : forall k (l : list A), existsb (eqb k) l = true <-> In k l.
  Proof.
    intros k l; rewrite existsb_exists; split.
    - intros [x [Hin E]]; apply eqb_spec in E; subst; auto.
    - intro H; exists k; split; auto; apply eqb_refl.
  Qed.

  Lemma nodup_aset : forall k v (l : list (A * B)), NoDup (map fst l) -> NoDup (map fst (aset eqb k v l)).
  Proof.
    intros k v l H; rewrite keys_aset. destruct (existsb (eqb k) (map fst l)) eqn:E; auto.
    apply nodup_snoc; auto.
    intro Hin; apply existsb_eqb_in in Hin; congruence.
  Qed.
End AssocLemmas.

(* ---------- sets as lists ---------- *)
Section SetLemmas.
  Context {A : Type} (eqb : A -> A -> bool).
  Hypothesis eqb_spec : forall a b, eqb a b = true <-> a = b.

  Lemma lmem_in : forall k (l : list A), lmem eqb k l = true <-> In k l.
  Proof. intros; apply existsb_eqb_in; auto. Qed.

  Lemma lmem_false : forall k (l : list A), lmem eqb k l = false <-> ~ In k l.
  Proof.
    intros k l; split; intro H.
    - intro Hin; apply lmem_in in Hin; congruence.
    - destruct (lmem eqb k l) eqn:E; auto. apply lmem_in in E; contradiction.
  Qed.

  Lemma in_ladd : forall x k (l : list A), In x (ladd eqb k l) <-> x = k \/ In x l.
  Proof.
    intros x k l; unfold ladd. destruct (lmem eqb k l) eqn:E.
    - apply lmem_in in E. split; [auto | intros [->|H]; auto].
    - rewrite in_app_iff; simpl; split; [intros [H|[H|[]]]; auto | intros [->|H]; auto].
  Qed.

  Lemma nodup_ladd : forall k (l : list A), NoDup l -> NoDup (ladd eqb k l).
  Proof.
    intros k l H; unfold ladd. destruct (lmem eqb k l) eqn:E; auto.
    apply nodup_snoc; auto. apply lmem_false; auto.
  Qed.

  Lemma in_lrem : forall x k (l : list A), In x (lrem eqb k l) <-> x <> k /\ In x l.
  Proof.
    intros x k l; unfold lrem; rewrite filter_In. split.
    - intros [Hin Hb]. split; auto. intro; subst. rewrite (eqb_refl eqb eqb_spec) in Hb; discriminate.
    - intros [Hn Hin]; split; auto. rewrite (eqb_neq eqb eqb_spec); auto.
  Qed.

  Lemma nodup_lrem : forall k (l : list A), NoDup l -> NoDup (lrem eqb k l).
  Proof. intros; apply NoDup_filter; auto. Qed.

  Lemma in_ldiff : forall x (l m : list A), In x (ldiff eqb l m) <-> In x l /\ ~ In x m.
  Proof.
    intros x l m; unfold ldiff; rewrite filter_In. split.
    - intros [Hin Hb]; split; auto. apply lmem_false. destruct (lmem eqb x m); auto; discriminate.
    - intros [Hin Hn]; split; auto. apply lmem_false in Hn; rewrite Hn; auto.
  Qed.

  Lemma nodup_ldiff : forall (l m : list A), NoDup l -> NoDup (ldiff eqb l m).
  Proof. intros; apply NoDup_filter; auto. Qed.
End SetLemmas.

Lemma aget_none_iff : forall {A B} (eqb : A -> A -> bool), (forall a b, eqb a b = true <-> a = b) ->
  forall k (l : list (A * B)), aget eqb k l = None <-> ~ In k (map fst l).
Proof.
  intros A B eqb Hs k l; induction l as [|[k' v'] l IH]; simpl; [tauto|].
  destruct (eqb k k') eqn:E.
  - apply Hs in E; subst. split; [discriminate | intro H; exfalso; apply H; auto].
  - rewrite IH. split; [intros H [H1|H1]; [subst; rewrite (eqb_refl eqb Hs) in E; discriminate | auto] | auto].
Qed.

(* ---------- Index._discard / Index._replace ---------- *)
Section IndexLemmas.
  Context {O K V : Type} (oeqb : O -> O -> bool) (keqb : K -> K -> bool) (veqb : V -> V -> bool).
  Hypothesis oeqb_spec : forall a b, oeqb a b = true <-> a = b.
  Hypothesis keqb_spec : forall a b, keqb a b = true <-> a = b.

  Notation gv := (get_val oeqb keqb).
  Notation gr := (get_rev oeqb keqb).
  Notation idx_t := (index O K V).

  (* the invariant; [WFx o] is what holds inside the loops working on object [o] *)
  Definition WFg (P : O -> Prop) (idx : idx_t) : Prop :=
    (forall k st, aget keqb k (items idx) = Some st -> st <> []) /\
    (forall o' ks, aget oeqb o' (rev_of idx) = Some ks -> NoDup ks /\ (P o' -> ks <> [])) /\
    (forall o' k, gr idx o' k = true <-> gv idx k o' <> None).
  Definition WF := WFg (fun _ => True).
  Definition WFx (o : O) := WFg (fun o' => o' <> o).

  Lemma WF_WFx : forall o idx, WF idx -> WFx o idx.
  Proof.
    intros o idx (H1 & H2 & H3); repeat split; auto; try apply H3.
    - apply (H2 _ _ H).
    - intros _; apply (H2 _ _ H); auto.
  Qed.

  Lemma WF_empty : WF index_empty.
  Proof.
    split; [|split]; simpl; try discriminate.
    intros o' k; unfold get_rev, get_val; simpl. split; [discriminate | intro H; contradiction].
  Qed.

  Lemma gr_false_gv : forall P idx o k, WFg P idx -> gr idx o k = false -> gv idx k o = None.
  Proof.
    intros P idx o k (_ & _ & H3) Hf. destruct (gv idx k o) eqn:E; auto.
    assert (gr idx o k = true) by (apply H3; congruence). congruence.
  Qed.

  Lemma discard_step_ok : forall o idx k, WFx o idx -> gr idx o k = true ->
    exists idx', discard_step oeqb keqb o (Ok idx) k = Ok idx' /\ WFx o idx' /\
      gv idx' k o = None /\
      (forall k' o', ~ (k' = k /\ o' = o) -> gv idx' k' o' = gv idx k' o') /\
      gr idx' o k = false /\
      (forall k' o', ~ (k' = k /\ o' = o) -> gr idx' o' k' = gr idx o' k') /\
      aget oeqb o (rev_of idx') <> None.
  Proof.
    intros o idx k HW Hr. pose proof HW as (H1 & H2 & H3).
    assert (Hgv : gv idx k o <> None) by (apply H3; auto).
    unfold get_rev in Hr. destruct (aget oeqb o (rev_of idx)) as [ks|] eqn:Er; [|discriminate].
    unfold get_val in Hgv. destruct (aget keqb k (items idx)) as [st|] eqn:Ek; [|contradiction].
    unfold discard_step; simpl. rewrite Ek, Er.
    eexists; split; [reflexivity|].
    set (st' := store_discard oeqb o st).
    set (items' := if is_nil st' then adel keqb k (items idx) else aset keqb k st' (items idx)).
    assert (Gk : forall o', get_val oeqb keqb (mkIndex items' (aset oeqb o (lrem keqb k ks) (rev_of idx))) k o'
                           = if oeqb o' o then None else aget oeqb o' st).
    { intro o'. unfold get_val; simpl. subst items'. destruct (is_nil st') eqn:En.
      - rewrite aget_adel_same; auto. destruct (oeqb o' o) eqn:Eo; auto.
        symmetry. apply (adel_nil_get oeqb oeqb_spec o o' st).
        + subst st'; unfold store_discard in En |- *. destruct (adel oeqb o st); [reflexivity | discriminate].
        + intro; subst. rewrite (eqb_refl oeqb oeqb_spec) in Eo; discriminate.
      - rewrite aget_aset_same; auto. subst st'; unfold store_discard.
        destruct (oeqb o' o) eqn:Eo.
        + apply oeqb_spec in Eo; subst. apply aget_adel_same; auto.
        + apply aget_adel_other; auto. intro; subst. rewrite (eqb_refl oeqb oeqb_spec) in Eo; discriminate. }
    assert (Gk' : forall k' o', k' <> k ->
               get_val oeqb keqb (mkIndex items' (aset oeqb o (lrem keqb k ks) (rev_of idx))) k' o' = gv idx k' o').
    { intros k' o' Hn. unfold get_val; simpl. subst items'. destruct (is_nil st').
      - rewrite aget_adel_other; auto.
      - rewrite aget_aset_other; auto. }
    assert (Gv1 : get_val oeqb keqb (mkIndex items' (aset oeqb o (lrem keqb k ks) (rev_of idx))) k o = None).
    { rewrite Gk, (eqb_refl oeqb oeqb_spec); auto. }
    assert (Gv2 : forall k' o', ~ (k' = k /\ o' = o) ->
               get_val oeqb keqb (mkIndex items' (aset oeqb o (lrem keqb k ks) (rev_of idx))) k' o' = gv idx k' o').
    { intros k' o' Hn. destruct (eqb_dec keqb keqb_spec k' k) as [->|Hk]; [|apply Gk'; auto].
      rewrite Gk. destruct (oeqb o' o) eqn:Eo.
      - apply oeqb_spec in Eo; subst; tauto.
      - unfold get_val; rewrite Ek; auto. }
    assert (Gr1 : get_rev oeqb keqb (mkIndex items' (aset oeqb o (lrem keqb k ks) (rev_of idx))) o k = false).
    { unfold get_rev; simpl. rewrite aget_aset_same; auto. apply lmem_false; auto.
      rewrite in_lrem; auto. tauto. }
    assert (Gr2 : forall k' o', ~ (k' = k /\ o' = o) ->
               get_rev oeqb keqb (mkIndex items' (aset oeqb o (lrem keqb k ks) (rev_of idx))) o' k' = gr idx o' k').
    { intros k' o' Hn. unfold get_rev; simpl.
      destruct (eqb_dec oeqb oeqb_spec o' o) as [->|Ho].
      - rewrite aget_aset_same, Er; auto.
        assert (k' <> k) by tauto.
        destruct (lmem keqb k' ks) eqn:E.
        + apply lmem_in; auto. apply in_lrem; auto. split; auto. apply lmem_in in E; auto.
        + apply lmem_false; auto. rewrite in_lrem; auto. apply lmem_false in E; auto. tauto.
      - rewrite aget_aset_other; auto. }
    split; [|split; [exact Gv1 | split; [exact Gv2 | split; [exact Gr1 | split; [exact Gr2|]]]]].
    - (* WFx *)
      split; [|split].
      + simpl. intros k' st2 Hg. subst items'.
        destruct (eqb_dec keqb keqb_spec k' k) as [->|Hk].
        * destruct (is_nil st') eqn:En.
          -- rewrite aget_adel_same in Hg; auto; discriminate.
          -- rewrite aget_aset_same in Hg; auto. injection Hg as <-. destruct st'; [discriminate | discriminate].
        * destruct (is_nil st').
          -- rewrite aget_adel_other in Hg; auto. apply (H1 _ _ Hg).
          -- rewrite aget_aset_other in Hg; auto. apply (H1 _ _ Hg).
      + simpl. intros o' ks' Hg.
        destruct (eqb_dec oeqb oeqb_spec o' o) as [->|Ho].
        * rewrite aget_aset_same in Hg; auto. injection Hg as <-. split; [|tauto].
          apply nodup_lrem. apply (H2 _ _ Er).
        * rewrite aget_aset_other in Hg; auto.
      + intros o' k'. destruct (eqb_dec keqb keqb_spec k' k) as [->|Hk].
        * destruct (eqb_dec oeqb oeqb_spec o' o) as [->|Ho].
          -- rewrite Gr1, Gv1. split; [discriminate | intro H; contradiction].
          -- rewrite Gr2, Gv2 by tauto. apply H3.
        * rewrite Gr2, Gv2 by tauto. apply H3.
    - simpl. rewrite aget_aset_same; auto. discriminate.
  Qed.

  Lemma discard_fold_ok : forall o ks idx, WFx o idx -> NoDup ks ->
    (forall k, In k ks -> gr idx o k = true) ->
    exists idx', fold_left (discard_step oeqb keqb o) ks (Ok idx) = Ok idx' /\ WFx o idx' /\
      (forall k, In k ks -> gv idx' k o = None) /\
      (forall k' o', ~ (In k' ks /\ o' = o) -> gv idx' k' o' = gv idx k' o') /\
      (forall k, In k ks -> gr idx' o k = false) /\
      (forall k' o', ~ (In k' ks /\ o' = o) -> gr idx' o' k' = gr idx o' k') /\
      (aget oeqb o (rev_of idx) <> None -> aget oeqb o (rev_of idx') <> None).
  Proof.
    intros o ks; induction ks as [|k ks IH]; intros idx HW Hnd Hin.
    - exists idx; simpl. split; [reflexivity|]. split; [exact HW|].
      split; [tauto|]. split; [auto|]. split; [tauto|]. split; auto.
    - inversion Hnd as [|? ? Hnk Hnd']; subst.
      destruct (discard_step_ok o idx k HW (Hin k (or_introl eq_refl)))
        as (idx1 & E1 & HW1 & Gv1 & Gv2 & Gr1 & Gr2 & Hne1).
      assert (Hin1 : forall k2, In k2 ks -> gr idx1 o k2 = true).
      { intros k2 H2. rewrite Gr2; [apply Hin; right; auto|]. intros [-> _]; contradiction. }
      destruct (IH idx1 HW1 Hnd' Hin1) as (idx2 & E2 & HW2 & Fv1 & Fv2 & Fr1 & Fr2 & Hne2).
      exists idx2. cbn [fold_left]. rewrite E1. split; [exact E2|]. split; [exact HW2|].
      split; [|split; [|split; [|split]]].
      + intros k2 [->|H2]; [|apply Fv1; auto].
        rewrite Fv2; [exact Gv1|]. intros [H _]; contradiction.
      + intros k' o' Hn. rewrite Fv2; [apply Gv2|]; intros [H1 H2]; apply Hn; simpl; subst; auto.
      + intros k2 [->|H2]; [|apply Fr1; auto].
        rewrite Fr2; [exact Gr1|]. intros [H _]; contradiction.
      + intros k' o' Hn. rewrite Fr2; [apply Gr2|]; intros [H1 H2]; apply Hn; simpl; subst; auto.
      + intros _. apply Hne2; auto.
  Qed.

  Lemma gr_nil : forall (idx : idx_t) o ks, aget oeqb o (rev_of idx) = Some ks ->
    (forall k, gr idx o k = false) -> ks = [].
  Proof.
    intros idx o ks E H. destruct ks as [|x ks]; auto.
    specialize (H x). unfold get_rev in H; rewrite E in H. simpl in H.
    rewrite (eqb_refl keqb keqb_spec) in H; discriminate.
  Qed.

  (* Index._discard(acckey, obj_keys): for a duplicate-free subset of the object's keys *)
  Lemma index_discard_gen : forall o oks idx ks0, WFx o idx -> aget oeqb o (rev_of idx) = Some ks0 ->
    (match oks with Some ks => NoDup ks /\ (forall k, In k ks -> In k ks0) | None => True end) ->
    let ks := match oks with Some ks => ks | None => ks0 end in
    exists idx', index_discard oeqb keqb o oks idx = Ok idx' /\ WF idx' /\
      (forall k, In k ks -> gv idx' k o = None) /\
      (forall k' o', ~ (In k' ks /\ o' = o) -> gv idx' k' o' = gv idx k' o').
  Proof.
    intros o oks idx ks0 HW Er Hoks ks. pose proof HW as (H1 & H2 & H3).
    assert (Hnd : NoDup ks).
    { subst ks; destruct oks as [ks|]; [tauto | apply (H2 _ _ Er)]. }
    assert (Hin : forall k, In k ks -> gr idx o k = true).
    { intros k Hk. unfold get_rev; rewrite Er. apply lmem_in; auto.
      subst ks; destruct oks as [ks|]; [apply Hoks; auto | auto]. }
    destruct (discard_fold_ok o ks idx HW Hnd Hin) as (idx1 & E1 & HW1 & Fv1 & Fv2 & Fr1 & Fr2 & Hne).
    unfold index_discard. rewrite Er. fold ks. rewrite E1. simpl.
    destruct (aget oeqb o (rev_of idx1)) as [ks1|] eqn:Er1; [|exfalso; apply Hne; [congruence | auto]].
    pose proof HW1 as (I1 & I2 & I3).
    destruct ks1 as [|x ks1].
    - eexists; split; [reflexivity|]. split; [|split; [exact Fv1 | exact Fv2]].
      split; [exact I1 | split].
      + simpl. intros o' ks' Hg. destruct (eqb_dec oeqb oeqb_spec o' o) as [->|Ho].
        * rewrite aget_adel_same in Hg; auto; discriminate.
        * rewrite aget_adel_other in Hg; auto. destruct (I2 _ _ Hg); auto.
      + intros o' k. unfold get_rev, get_val; simpl.
        destruct (eqb_dec oeqb oeqb_spec o' o) as [->|Ho].
        * rewrite aget_adel_same; auto. split; [discriminate|]. intro Hg. exfalso.
          assert (gr idx1 o k = true) by (apply I3; exact Hg).
          unfold get_rev in H; rewrite Er1 in H; discriminate.
        * rewrite aget_adel_other; auto. apply I3.
    - exists idx1; split; [reflexivity|]. split; [|split; [exact Fv1 | exact Fv2]].
      split; [exact I1 | split; [|exact I3]].
      intros o' ks' Hg. destruct (I2 _ _ Hg) as [Hn Hne']. split; auto. intros _.
      destruct (eqb_dec oeqb oeqb_spec o' o) as [->|Ho]; auto. rewrite Er1 in Hg; injection Hg as <-; discriminate.
  Qed.

  (* Index._discard(acckey): everything of the object goes, nothing else changes *)
  Lemma index_discard_all : forall o idx, WF idx ->
    exists idx', index_discard oeqb keqb o None idx = Ok idx' /\ WF idx' /\
      (forall k, gv idx' k o = None) /\
      (forall k o', o' <> o -> gv idx' k o' = gv idx k o').
  Proof.
    intros o idx HW. destruct (aget oeqb o (rev_of idx)) as [ks0|] eqn:Er.
    - destruct (index_discard_gen o None idx ks0 (WF_WFx o idx HW) Er I) as (idx' & E & HW' & Fv1 & Fv2).
      exists idx'; split; [exact E | split; [exact HW' | split]].
      + intro k. destruct (in_dec (eqb_dec keqb keqb_spec) k ks0) as [Hi|Hi]; [apply Fv1; auto|].
        rewrite Fv2 by tauto. apply (gr_false_gv _ idx o k HW).
        unfold get_rev; rewrite Er. apply lmem_false; auto.
      + intros k o' Hn. apply Fv2; tauto.
    - exists idx. unfold index_discard; rewrite Er. split; [reflexivity | split; [exact HW | split; auto]].
      intro k. apply (gr_false_gv _ idx o k HW). unfold get_rev; rewrite Er; auto.
  Qed.

  (* ---------- Index._replace ---------- *)

  Notation upd_val := (Index.upd_val veqb).

  Lemma store_replace_same : forall o v st, aget oeqb o (store_replace oeqb veqb o v st) = Some (upd_val (aget oeqb o st) v).
  Proof.
    intros o v st; unfold store_replace, upd_val. destruct (aget oeqb o st) as [v'|] eqn:E.
    - destruct (veqb v' v); [exact E | apply aget_aset_same; auto].
    - apply aget_aset_same; auto.
  Qed.

  Lemma store_replace_other : forall o o' v st, o <> o' -> aget oeqb o' (store_replace oeqb veqb o v st) = aget oeqb o' st.
  Proof.
    intros o o' v st Hn; unfold store_replace. destruct (aget oeqb o st) as [v'|].
    - destruct (veqb v' v); [reflexivity | apply aget_aset_other; auto].
    - apply aget_aset_other; auto.
  Qed.

  Lemma store_replace_not_nil : forall o v st, store_replace oeqb veqb o v st <> [].
  Proof.
    intros o v st; unfold store_replace. destruct (aget oeqb o st) as [v'|] eqn:E.
    - destruct (veqb v' v); [|apply aset_not_nil]. destruct st; [discriminate | discriminate].
    - apply aset_not_nil.
  Qed.

  Lemma replace_step_ok : forall o idx k v, WFx o idx -> aget oeqb o (rev_of idx) <> None ->
    let idx' := replace_step oeqb keqb veqb o idx (k, v) in
    WFx o idx' /\ aget oeqb o (rev_of idx') <> None /\
    gv idx' k o = Some (upd_val (gv idx k o) v) /\
    (forall k' o', ~ (k' = k /\ o' = o) -> gv idx' k' o' = gv idx k' o') /\
    gr idx' o k = true /\
    (forall k' o', ~ (k' = k /\ o' = o) -> gr idx' o' k' = gr idx o' k').
  Proof.
    intros o idx k v HW Hne idx'. pose proof HW as (H1 & H2 & H3).
    destruct (aget oeqb o (rev_of idx)) as [ks|] eqn:Er; [|contradiction].
    set (st := match aget keqb k (items idx) with Some st => st | None => [] end).
    assert (Est : forall o', gv idx k o' = aget oeqb o' st).
    { intro o'. unfold get_val; subst st. destruct (aget keqb k (items idx)); reflexivity. }
    assert (Eidx : idx' = mkIndex (aset keqb k (store_replace oeqb veqb o v st) (items idx))
                                  (aset oeqb o (ladd keqb k ks) (rev_of idx))).
    { subst idx' st; unfold replace_step. rewrite Er. reflexivity. }
    assert (Gv1 : gv idx' k o = Some (upd_val (gv idx k o) v)).
    { rewrite Eidx; unfold get_val at 1; simpl. rewrite aget_aset_same; auto. rewrite Est. apply store_replace_same. }
    assert (Gv2 : forall k' o', ~ (k' = k /\ o' = o) -> gv idx' k' o' = gv idx k' o').
    { intros k' o' Hn. rewrite Eidx; unfold get_val at 1; simpl.
      destruct (eqb_dec keqb keqb_spec k' k) as [->|Hk].
      - rewrite aget_aset_same; auto. rewrite Est. apply store_replace_other. intro; subst; tauto.
      - rewrite aget_aset_other; auto. }
    assert (Gr1 : gr idx' o k = true).
    { rewrite Eidx; unfold get_rev; simpl. rewrite aget_aset_same; auto. apply lmem_in; auto. apply in_ladd; auto. }
    assert (Gr2 : forall k' o', ~ (k' = k /\ o' = o) -> gr idx' o' k' = gr idx o' k').
    { intros k' o' Hn. rewrite Eidx; unfold get_rev; simpl.
      destruct (eqb_dec oeqb oeqb_spec o' o) as [->|Ho].
      - rewrite aget_aset_same, Er; auto. assert (k' <> k) by tauto.
        destruct (lmem keqb k' ks) eqn:E.
        + apply lmem_in; auto. apply in_ladd; auto. right. apply lmem_in in E; auto.
        + apply lmem_false; auto. rewrite in_ladd; auto. apply lmem_false in E; auto. tauto.
      - rewrite aget_aset_other; auto. }
    split; [|split; [|split; [exact Gv1 | split; [exact Gv2 | split; [exact Gr1 | exact Gr2]]]]].
    - split; [|split].
      + rewrite Eidx; simpl. intros k' st2 Hg. destruct (eqb_dec keqb keqb_spec k' k) as [->|Hk].
        * rewrite aget_aset_same in Hg; auto. injection Hg as <-. apply store_replace_not_nil.
        * rewrite aget_aset_other in Hg; auto. apply (H1 _ _ Hg).
      + rewrite Eidx; simpl. intros o' ks' Hg. destruct (eqb_dec oeqb oeqb_spec o' o) as [->|Ho].
        * rewrite aget_aset_same in Hg; auto. injection Hg as <-. split; [|tauto].
          apply nodup_ladd; auto. apply (H2 _ _ Er).
        * rewrite aget_aset_other in Hg; auto.
      + intros o' k'. destruct (eqb_dec keqb keqb_spec k' k) as [->|Hk].
        * destruct (eqb_dec oeqb oeqb_spec o' o) as [->|Ho].
          -- rewrite Gr1, Gv1. split; [discriminate | reflexivity].
          -- rewrite Gr2, Gv2 by tauto. apply H3.
        * rewrite Gr2, Gv2 by tauto. apply H3.
    - rewrite Eidx; simpl. rewrite aget_aset_same; auto. discriminate.
  Qed.

  Lemma replace_fold_ok : forall o obj idx, WFx o idx -> aget oeqb o (rev_of idx) <> None ->
    NoDup (map fst obj) ->
    let idx' := fold_left (replace_step oeqb keqb veqb o) obj idx in
    WFx o idx' /\ aget oeqb o (rev_of idx') <> None /\
    (forall k v, aget keqb k obj = Some v -> gv idx' k o = Some (upd_val (gv idx k o) v)) /\
    (forall k' o', (o' <> o \/ aget keqb k' obj = None) -> gv idx' k' o' = gv idx k' o') /\
    (forall k, gr idx' o k = true <-> (gr idx o k = true \/ aget keqb k obj <> None)) /\
    (forall k' o', o' <> o -> gr idx' o' k' = gr idx o' k').
  Proof.
    intros o obj; induction obj as [|[k v] obj IH]; intros idx HW Hne Hnd; cbn [fold_left aget map fst]; cbv zeta.
    - split; [exact HW|]. split; [exact Hne|]. split; [discriminate|]. split; [auto|]. split; [tauto | auto].
    - inversion Hnd as [|? ? Hnk Hnd']; subst.
      destruct (replace_step_ok o idx k v HW Hne) as (HW1 & Hne1 & Gv1 & Gv2 & Gr1 & Gr2).
      set (idx1 := replace_step oeqb keqb veqb o idx (k, v)) in *.
      destruct (IH idx1 HW1 Hne1 Hnd') as (HW2 & Hne2 & Fv1 & Fv2 & Fr1 & Fr2).
      assert (Hk_tail : aget keqb k obj = None) by (apply aget_none_iff; auto).
      split; [exact HW2|]. split; [exact Hne2|]. split; [|split; [|split]].
      + intros k2 v2. destruct (keqb k2 k) eqn:E.
        * apply keqb_spec in E; subst k2. intro Hv; injection Hv as <-.
          rewrite Fv2 by (right; exact Hk_tail). exact Gv1.
        * intro Hv. rewrite (Fv1 _ _ Hv). rewrite Gv2; [reflexivity|].
          intros [-> _]. rewrite (eqb_refl keqb keqb_spec) in E; discriminate.
      + intros k' o' Hc. destruct (keqb k' k) eqn:E.
        * destruct Hc as [Ho|Hc]; [|discriminate].
          rewrite Fv2 by (left; exact Ho). apply Gv2. tauto.
        * rewrite Fv2 by exact Hc. apply Gv2. intros [-> _]. rewrite (eqb_refl keqb keqb_spec) in E; discriminate.
      + intro k2. rewrite Fr1. destruct (keqb k2 k) eqn:E.
        * apply keqb_spec in E; subst k2. rewrite Gr1. split; [intros _; right; discriminate | auto].
        * rewrite Gr2; [tauto|]. intros [-> _]. rewrite (eqb_refl keqb keqb_spec) in E; discriminate.
      + intros k' o' Ho. rewrite Fr2 by exact Ho. apply Gr2. tauto.
  Qed.

  (* Index._replace(acckey, obj) for a Mapping (unique keys): the object's entries become exactly obj
     (modulo the ==-guard of Store._replace), nothing else changes, no KeyError *)
  Lemma index_replace_ok : forall o obj idx, WF idx -> NoDup (map fst obj) ->
    exists idx', index_replace oeqb keqb veqb o obj idx = Ok idx' /\ WF idx' /\
      (forall k, gv idx' k o = match aget keqb k obj with Some v => Some (upd_val (gv idx k o) v) | None => None end) /\
      (forall k o', o' <> o -> gv idx' k o' = gv idx k o').
  Proof.
    intros o obj idx HW Hnd.
    set (idx0 := match aget oeqb o (rev_of idx) with
                 | Some _ => idx
                 | None => mkIndex (items idx) (aset oeqb o [] (rev_of idx))
                 end).
    assert (H0 : WFx o idx0 /\ aget oeqb o (rev_of idx0) <> None /\
                 (forall k o', gv idx0 k o' = gv idx k o') /\ (forall k o', gr idx0 o' k = gr idx o' k)).
    { subst idx0. destruct (aget oeqb o (rev_of idx)) as [ks|] eqn:Er.
      - split; [apply WF_WFx; exact HW|]. split; [congruence | auto].
      - pose proof HW as (H1 & H2 & H3).
        assert (Gr : forall k o', get_rev oeqb keqb (mkIndex (items idx) (aset oeqb o [] (rev_of idx))) o' k = gr idx o' k).
        { intros k o'. unfold get_rev; simpl. destruct (eqb_dec oeqb oeqb_spec o' o) as [->|Ho].
          - rewrite aget_aset_same, Er; auto.
          - rewrite aget_aset_other; auto. }
        split; [|split; [|split; [reflexivity | exact Gr]]].
        + split; [exact H1 | split].
          * simpl. intros o' ks' Hg. destruct (eqb_dec oeqb oeqb_spec o' o) as [->|Ho].
            -- rewrite aget_aset_same in Hg; auto. injection Hg as <-. split; [constructor | tauto].
            -- rewrite aget_aset_other in Hg; auto. destruct (H2 _ _ Hg); auto.
          * intros o' k. rewrite Gr. apply H3.
        + simpl. rewrite aget_aset_same; auto. discriminate. }
    destruct H0 as (HW0 & Hne0 & Gv0 & Gr0).
    destruct (replace_fold_ok o obj idx0 HW0 Hne0 Hnd) as (HW1 & Hne1 & Fv1 & Fv2 & Fr1 & Fr2).
    set (idx1 := fold_left (replace_step oeqb keqb veqb o) obj idx0) in *.
    destruct (aget oeqb o (rev_of idx1)) as [ks1|] eqn:Er1; [|contradiction].
    assert (Hsub : NoDup (ldiff keqb ks1 (map fst obj)) /\ (forall k, In k (ldiff keqb ks1 (map fst obj)) -> In k ks1)).
    { split; [apply nodup_ldiff; apply (proj1 (proj2 HW1) _ _ Er1) | intros k Hk; apply in_ldiff in Hk; tauto]. }
    destruct (index_discard_gen o (Some (ldiff keqb ks1 (map fst obj))) idx1 ks1 HW1 Er1 Hsub)
      as (idx2 & E2 & HW2 & Dv1 & Dv2).
    exists idx2. split.
    - unfold index_replace. fold idx0. fold idx1. rewrite Er1. exact E2.
    - split; [exact HW2 | split].
      + intro k. destruct (aget keqb k obj) as [v|] eqn:Ek.
        * rewrite Dv2.
          -- rewrite (Fv1 _ _ Ek), Gv0. reflexivity.
          -- intros [Hin _]. apply in_ldiff in Hin; auto. destruct Hin as [_ Hn]. apply Hn.
             apply (aget_in keqb keqb_spec) in Ek. apply (in_map fst) in Ek. exact Ek.
        * destruct (gr idx1 o k) eqn:Egr.
          -- apply Dv1. apply in_ldiff; auto. split.
             ++ unfold get_rev in Egr; rewrite Er1 in Egr. apply lmem_in in Egr; auto.
             ++ apply aget_none_iff in Ek; auto.
          -- rewrite Dv2.
             ++ apply (gr_false_gv _ idx1 o k HW1 Egr).
             ++ intros [Hin _]. apply in_ldiff in Hin; auto. destruct Hin as [Hin _].
                unfold get_rev in Egr; rewrite Er1 in Egr. apply lmem_false in Egr; auto.
      + intros k o' Ho. rewrite Dv2 by tauto. rewrite Fv2 by (left; exact Ho). apply Gv0.
  Qed.
  (* ---------- refinement of the reference map by every operation sequence ---------- *)
  Notation spec_op := (Index.spec_op oeqb keqb veqb).
  Notation latest_op := (@Index.latest_op O K V oeqb keqb).
  Notation gops_run := (Index.gops_run oeqb keqb veqb).
  Notation abs := (@Index.abs O K V oeqb keqb).

  Lemma gop_run_ok : forall op idx, WF idx -> op_wf op ->
    exists idx', gop_run oeqb keqb veqb idx op = Ok idx' /\ WF idx' /\
                 forall o k, abs idx' o k = spec_op (abs idx) op o k.
  Proof.
    intros [o obj|o] idx HW Hop; simpl in Hop.
    - destruct (index_replace_ok o obj idx HW Hop) as (idx' & E & HW' & G1 & G2).
      exists idx'; split; [exact E | split; [exact HW'|]].
      intros o' k; unfold Index.abs; simpl. destruct (oeqb o' o) eqn:Eo.
      + apply oeqb_spec in Eo; subst. apply G1.
      + apply G2. intro; subst. rewrite (eqb_refl oeqb oeqb_spec) in Eo; discriminate.
    - destruct (index_discard_all o idx HW) as (idx' & E & HW' & G1 & G2).
      exists idx'; split; [exact E | split; [exact HW'|]].
      intros o' k; unfold Index.abs; simpl. destruct (oeqb o' o) eqn:Eo.
      + apply oeqb_spec in Eo; subst. apply G1.
      + apply G2. intro; subst. rewrite (eqb_refl oeqb oeqb_spec) in Eo; discriminate.
  Qed.

  Lemma spec_op_ext : forall op R1 R2, (forall o k, R1 o k = R2 o k) -> forall o k, spec_op R1 op o k = spec_op R2 op o k.
  Proof. intros [o obj|o] R1 R2 H o' k; simpl; destruct (oeqb o' o); auto. rewrite H; auto. Qed.

  Lemma spec_run_ext : forall ops R1 R2, (forall o k, R1 o k = R2 o k) ->
    forall o k, fold_left spec_op ops R1 o k = fold_left spec_op ops R2 o k.
  Proof. induction ops as [|op ops IH]; intros R1 R2 H; simpl; auto. apply IH. apply spec_op_ext; auto. Qed.

  Lemma latest_run_ext : forall ops R1 R2, (forall o k, R1 o k = R2 o k) ->
    forall o k, fold_left latest_op ops R1 o k = fold_left latest_op ops R2 o k.
  Proof.
    induction ops as [|op ops IH]; intros R1 R2 H; simpl; auto. apply IH.
    intros o' k; destruct op as [o obj|o]; simpl; destruct (oeqb o' o); auto.
  Qed.

  Theorem index_refines : forall ops idx, WF idx -> Forall (@op_wf O K V) ops ->
    exists idx', gops_run idx ops = Ok idx' /\ WF idx' /\
                 forall o k, abs idx' o k = fold_left spec_op ops (abs idx) o k.
  Proof.
    induction ops as [|op ops IH]; intros idx HW Hf.
    - exists idx; simpl; auto.
    - inversion Hf as [|? ? Hop Hf']; subst.
      destruct (gop_run_ok op idx HW Hop) as (idx1 & E1 & HW1 & G1).
      destruct (IH idx1 HW1 Hf') as (idx2 & E2 & HW2 & G2).
      exists idx2. simpl. rewrite E1; simpl. split; [exact E2 | split; [exact HW2|]].
      intros o k. rewrite G2. apply spec_run_ext. exact G1.
  Qed.

  (* with an equality test that only accepts identical values the guard is invisible: exactly the latest results *)
  Theorem index_refines_latest : (forall a b, veqb a b = true -> a = b) ->
    forall ops idx, WF idx -> Forall (@op_wf O K V) ops ->
    exists idx', gops_run idx ops = Ok idx' /\ WF idx' /\
                 forall o k, abs idx' o k = fold_left latest_op ops (abs idx) o k.
  Proof.
    intros Hv ops idx HW Hf. destruct (index_refines ops idx HW Hf) as (idx' & E & HW' & G).
    exists idx'; split; [exact E | split; [exact HW'|]]. intros o k; rewrite G. clear G E HW' idx' HW Hf.
    generalize (abs idx). induction ops as [|op ops IH]; intro R; simpl; auto.
    rewrite IH. apply latest_run_ext. intros o' k'. destruct op as [o1 obj|o1]; simpl; destruct (oeqb o' o1); auto.
    destruct (aget keqb k' obj) as [v|]; auto. f_equal. unfold Index.upd_val.
    destruct (R o1 k') as [v'|]; auto. destruct (veqb v' v) eqn:E; auto.
  Qed.

  (* in general the stored value is ==-equivalent to the latest one *)
  Lemma upd_val_rel : forall old v, upd_val old v = v \/ veqb (upd_val old v) v = true.
  Proof. intros [v'|] v; unfold Index.upd_val; auto. destruct (veqb v' v) eqn:E; auto. Qed.

  (* reverse index consistent, no empty store, keys listed = keys inhabited: on every reachable index *)
  Theorem reachable_wf : forall ops idx', Forall (@op_wf O K V) ops -> gops_run index_empty ops = Ok idx' -> WF idx'.
  Proof.
    intros ops idx' Hf E. destruct (index_refines ops index_empty WF_empty Hf) as (i & E' & HW & _).
    rewrite E in E'; injection E' as <-; exact HW.
  Qed.

  Theorem never_raises : forall ops, Forall (@op_wf O K V) ops -> exists idx', gops_run index_empty ops = Ok idx'.
  Proof. intros ops Hf. destruct (index_refines ops index_empty WF_empty Hf) as (i & E' & _). eauto. Qed.

  Lemma view_keys_inhabited : forall idx, WF idx ->
    forall k, In k (view_keys idx) <-> exists o, abs idx o k <> None.
  Proof.
    intros idx (H1 & _ & _) k; unfold view_keys, Index.abs, get_val. split.
    - intro Hin. destruct (aget keqb k (items idx)) as [st|] eqn:E.
      + pose proof (H1 _ _ E) as Hne. destruct st as [|[o v] st]; [contradiction|].
        exists o. simpl. rewrite (eqb_refl oeqb oeqb_spec). discriminate.
      + apply aget_none_iff in E; auto. contradiction.
    - intros [o Ho]. destruct (aget keqb k (items idx)) as [st|] eqn:E; [|contradiction].
      apply (aget_in keqb keqb_spec) in E. apply (in_map fst) in E. exact E.
  Qed.
End IndexLemmas.

(* ---------- OperatorIndexers.replace: the outcome table ---------- *)
Section IndexersLemmas.
  Context {O K V : Type} (oeqb : O -> O -> bool) (keqb : K -> K -> bool) (veqb : V -> V -> bool) (knone : K).
  Notation effect := (outcome_effect oeqb keqb veqb knone).
  Notation sget := (aget String.eqb).

  Lemma apply_outcomes_table : forall o outs ixs ixs1, NoDup (map fst outs) ->
    apply_outcomes oeqb keqb veqb knone o outs ixs = Ok ixs1 ->
    forall h idx, sget h ixs = Some idx ->
    exists idx1, sget h ixs1 = Some idx1 /\
      match sget h outs with
      | Some oc => effect o (Some oc) idx = Ok idx1
      | None => idx1 = idx
      end.
  Proof.
    intros o outs; induction outs as [|[h0 oc] t IH]; intros ixs ixs1 Hnd E h idx Hg.
    - simpl in E; injection E as <-. exists idx; split; [exact Hg | reflexivity].
    - inversion Hnd as [|? ? Hn0 Hnd']; subst. cbn [apply_outcomes] in E. cbn [aget].
      destruct (sget h0 ixs) as [idx0|] eqn:E0.
      + destruct (match oc with OExc => @indexer_discard O K V oeqb keqb o idx0
                              | ORes x => indexer_replace oeqb keqb veqb knone o x idx0
                              | OKeep => Ok idx0 end) as [idx0'| | |] eqn:Er; simpl in E; try discriminate.
        destruct (String.eqb h h0) eqn:Eh.
        * apply String.eqb_eq in Eh; subst h0. rewrite E0 in Hg; injection Hg as <-.
          assert (Hg2 : sget h (aset String.eqb h idx0' ixs) = Some idx0') by (apply aget_aset_same; apply String.eqb_eq).
          destruct (IH _ _ Hnd' E h idx0' Hg2) as (idx1 & G1 & G2).
          assert (Hnone : sget h t = None) by (apply aget_none_iff; [apply String.eqb_eq | exact Hn0]).
          rewrite Hnone in G2; subst idx1. exists idx0'; split; [exact G1|].
          destruct oc; exact Er.
        * assert (Hg2 : sget h (aset String.eqb h0 idx0' ixs) = Some idx).
          { rewrite aget_aset_other; [exact Hg | apply String.eqb_eq |].
            intro; subst. rewrite String.eqb_refl in Eh; discriminate. }
          apply (IH _ _ Hnd' E h idx Hg2).
      + destruct (String.eqb h h0) eqn:Eh.
        * apply String.eqb_eq in Eh; subst h0. congruence.
        * destruct oc; try discriminate. apply (IH _ _ Hnd' E h idx Hg).
  Qed.

  Lemma purge_absent_table : forall o outs ixs1 ixs',
    purge_absent oeqb keqb o outs ixs1 = Ok ixs' ->
    forall h idx1, sget h ixs1 = Some idx1 ->
    exists idx', sget h ixs' = Some idx' /\
      match sget h outs with
      | Some _ => idx' = idx1
      | None => @indexer_discard O K V oeqb keqb o idx1 = Ok idx'
      end.
  Proof.
    intros o outs ixs1; induction ixs1 as [|[h0 idx0] t IH]; intros ixs' E h idx1 Hg; [discriminate|].
    cbn [purge_absent] in E.
    destruct (match sget h0 outs with Some _ => Ok idx0 | None => @indexer_discard O K V oeqb keqb o idx0 end)
      as [idx0'| | |] eqn:Er; simpl in E; try discriminate.
    destruct (purge_absent oeqb keqb o outs t) as [t'| | |] eqn:Et; simpl in E; try discriminate.
    injection E as <-. cbn [aget] in Hg |- *. destruct (String.eqb h h0) eqn:Eh.
    - apply String.eqb_eq in Eh; subst h0. injection Hg as <-. exists idx0'; split; [reflexivity|].
      destruct (sget h outs); [injection Er as <-; reflexivity | exact Er].
    - apply (IH _ eq_refl h idx1 Hg).
  Qed.

  Theorem indexers_table : forall o outs ixs ixs', NoDup (map fst outs) ->
    indexers_replace oeqb keqb veqb knone o outs ixs = Ok ixs' ->
    forall h idx, sget h ixs = Some idx ->
    exists idx', sget h ixs' = Some idx' /\ effect o (sget h outs) idx = Ok idx'.
  Proof.
    intros o outs ixs ixs' Hnd E h idx Hg. unfold indexers_replace in E.
    destruct (apply_outcomes oeqb keqb veqb knone o outs ixs) as [ixs1| | |] eqn:E1; simpl in E; try discriminate.
    destruct (apply_outcomes_table o outs ixs ixs1 Hnd E1 h idx Hg) as (idx1 & G1 & G2).
    destruct (purge_absent_table o outs ixs1 ixs' E h idx1 G1) as (idx' & G3 & G4).
    exists idx'; split; [exact G3|].
    destruct (sget h outs) as [oc|]; [subst idx'; exact G2 | subst idx1; exact G4].
  Qed.

  (* DELETED: every index forgets the object *)
  Theorem indexers_discard_table : forall o ixs ixs', indexers_discard oeqb keqb o ixs = Ok ixs' ->
    forall h idx, sget h ixs = Some idx ->
    exists idx', sget h ixs' = Some idx' /\ @indexer_discard O K V oeqb keqb o idx = Ok idx'.
  Proof.
    intros o ixs; induction ixs as [|[h0 idx0] t IH]; intros ixs' E h idx Hg; [discriminate|].
    cbn [indexers_discard] in E.
    destruct (@indexer_discard O K V oeqb keqb o idx0) as [idx0'| | |] eqn:Er; simpl in E; try discriminate.
    destruct (indexers_discard oeqb keqb o t) as [t'| | |] eqn:Et; simpl in E; try discriminate.
    injection E as <-. cbn [aget] in Hg |- *. destruct (String.eqb h h0) eqn:Eh.
    - injection Hg as <-. exists idx0'; auto.
    - apply (IH _ eq_refl h idx Hg).
  Qed.

  (* what execute_handler_once makes of the index function's behaviour (the documented rules) *)
  Lemma exec_once_rule : forall now h s a,
    (match h_retries h with Some r => (r <=? s_retries s)%Z | None => false end) = false ->
    fst (@exec_once K V now h s a) =
      match a with
      | AResult r => ORes r
      | ANone => OKeep
      | ATemp _ | APerm => OExc
      | AArb => match h_errors h with None | Some EIgnored => OKeep | _ => OExc end
      end.
  Proof.
    intros now h s a Hr; unfold exec_once; rewrite Hr.
    destruct a; auto.
    - destruct (h_retries h) as [r|]; [destruct (r <=? s_retries s + 1)%Z|]; reflexivity.
    - destruct (h_errors h) as [[| |]|]; auto.
      destruct (h_retries h) as [r|]; [destruct (r <=? s_retries s + 1)%Z|]; reflexivity.
  Qed.

  Lemma exec_once_exhausted : forall now h s a,
    (match h_retries h with Some r => (r <=? s_retries s)%Z | None => false end) = true ->
    fst (@exec_once K V now h s a) = OExc.
  Proof. intros now h s a Hr; unfold exec_once; rewrite Hr; reflexivity. Qed.
End IndexersLemmas.

(* ---------- the instance run against the code: Python's == is not identity ---------- *)
Lemma ikey_eqb_spec : forall a b, ikey_eqb a b = true <-> a = b.
Proof.
  intros [|x|x|x1 x2] [|y|y|y1 y2]; simpl; split; intro H; try discriminate; auto.
  - apply String.eqb_eq in H; subst; auto.
  - injection H as <-; apply String.eqb_refl.
  - apply Z.eqb_eq in H; subst; auto.
  - injection H as <-; apply Z.eqb_refl.
  - apply andb_true_iff in H; destruct H as [H1 H2]. apply String.eqb_eq in H1, H2; subst; auto.
  - injection H as <- <-; rewrite !String.eqb_refl; auto.
Qed.

Definition true_then_one : list (gop nat ikey json) :=
  [GReplace 0%nat [(KNone, JNum 1)]; GReplace 0%nat [(KNone, JBool true)]].

Lemma latest_refuted :
  exists ops idx', Forall (@op_wf nat ikey json) ops /\
    gops_run Nat.eqb ikey_eqb py_eqb index_empty ops = Ok idx' /\
    exists o k, abs Nat.eqb ikey_eqb idx' o k <> fold_left (latest_op Nat.eqb ikey_eqb) ops (abs Nat.eqb ikey_eqb index_empty) o k.
Proof.
  exists true_then_one. eexists. split; [|split].
  - repeat constructor; simpl; auto.
  - vm_compute. reflexivity.
  - exists 0%nat, KNone. vm_compute. discriminate.
Qed.
