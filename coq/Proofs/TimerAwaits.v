(* S-tie for C10: the await skeleton of kopf/_core/engines/daemons.py:_timer, re-extracted from the
   current source on every run (Gen/Awaits.v, harness/kv/awaits.py), equals the granularity that
   Model/Timer.v assumes:
   - the only suspension points are the aiotime.sleep calls, execute_handlers_once and patch_and_check;
   - between the idle check (idle_wait loop + stopped_check) and `started = clock()` and the invocation
     (execute_handlers_once) there is no suspension point;
   - the if/elif chain after the patch is: not done -> sleep; sharp -> passed, remaining, sleep;
     interval -> sleep; idle-only -> loop of sleeps; else break. *)
From Coq Require Import List String.
From KV Require Import Gen.Awaits.
Import ListNotations.
Open Scope string_scope.

Definition expected_awaits_timer : list sk :=
  [SMark "initial_delay_check"; SIf [SAwait "aiotime.sleep"] nil; SMark "no_state_yet"; SMark "main_loop";
   SLoop [SMark "idle_check";
          SIf [SMark "idle_wait"; SLoop [SMark "idle_delay"; SAwait "aiotime.sleep"];
               SMark "stopped_check"; SIf [SContinue] nil] nil;
          (* the state (and with it the base of the handler's timeout) is created AFTER the idle wait *)
          SMark "reset_if_done"; SIf [SMark "fresh_state"] nil;
          SMark "started";
          SAwait "execution.execute_handlers_once";
          SMark "with_outcomes";
          SAwait "application.patch_and_check";
          SMark "not_done";
          SIf [SAwait "aiotime.sleep"]
              [SMark "sharp_check";
               SIf [SMark "passed"; SMark "remaining"; SAwait "aiotime.sleep"]
                   [SMark "interval_check";
                    SIf [SAwait "aiotime.sleep"]
                        [SMark "idle_check";
                         SIf [SMark "idle_only_wait"; SLoop [SAwait "aiotime.sleep"]] [SBreak]]]]]].

Lemma awaits_timer_ok : awaits_timer = expected_awaits_timer.
Proof. reflexivity. Qed.
