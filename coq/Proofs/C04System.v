(* C04 (system part): system metadata, the status stanza and apiVersion never count as a change;
   payload fields always do; annotations under a marked prefix of another operator do not.
   Facts about Model/Essence.v [essence] = DiffBaseStorage.build then ProgressStorage.clear. *)
From Coq Require Import ZArith NArith List String Bool Ascii Lia.
From KV Require Import Base.Json Base.Dicts Model.Keys Model.Storage Model.Essence.
Import ListNotations.
Open Scope string_scope.
Open Scope list_scope.

(* ---------- association lists ---------- *)
Lemma sy_lookup_set_same : forall (V : Type) k (v : V) l, lookup k (set k v l) = Some v.
Proof.
  induction l as [|[k' v'] l IH]; simpl.
  - rewrite String.eqb_refl. reflexivity.
  - destruct (String.eqb k k') eqn:E; simpl.
    + rewrite String.eqb_refl. reflexivity.
    + rewrite E. exact IH.
Qed.

Lemma sy_lookup_set_other : forall (V : Type) k k' (v : V) l, k <> k' -> lookup k (set k' v l) = lookup k l.
Proof.
  intros V k k' v l Hn. induction l as [|[k2 v2] l IH]; simpl.
  - apply String.eqb_neq in Hn. rewrite Hn. reflexivity.
  - destruct (String.eqb k' k2) eqn:E; simpl.
    + apply String.eqb_eq in E. subst k2. apply String.eqb_neq in Hn. rewrite Hn. reflexivity.
    + destruct (String.eqb k k2); [reflexivity | exact IH].
Qed.

Lemma sy_lookup_del_same : forall (V : Type) k (l : list (string * V)), lookup k (del k l) = None.
Proof.
  induction l as [|[k' v'] l IH]; simpl; [reflexivity|].
  destruct (String.eqb k k') eqn:E; simpl; [exact IH | rewrite E; exact IH].
Qed.

Lemma sy_lookup_del_other : forall (V : Type) k k' (l : list (string * V)), k <> k' -> lookup k (del k' l) = lookup k l.
Proof.
  intros V k k' l Hn. induction l as [|[k2 v2] l IH]; simpl; [reflexivity|].
  destruct (String.eqb k' k2) eqn:E; simpl.
  - apply String.eqb_eq in E. subst k2. apply String.eqb_neq in Hn. rewrite Hn. exact IH.
  - destruct (String.eqb k k2); [reflexivity | exact IH].
Qed.

Lemma sy_del_set_same : forall (V : Type) k (v : V) l, del k (set k v l) = del k l.
Proof.
  induction l as [|[k' v'] l IH]; simpl.
  - rewrite String.eqb_refl. reflexivity.
  - destruct (String.eqb k k') eqn:E; simpl.
    + rewrite String.eqb_refl. reflexivity.
    + rewrite E. rewrite IH. reflexivity.
Qed.

Lemma sy_del_set_other : forall (V : Type) k k' (v : V) l, k <> k' -> del k (set k' v l) = set k' v (del k l).
Proof.
  intros V k k' v l Hn. induction l as [|[k2 v2] l IH]; simpl.
  - apply String.eqb_neq in Hn. rewrite Hn. reflexivity.
  - destruct (String.eqb k' k2) eqn:E; simpl.
    + apply String.eqb_eq in E. subst k2. pose proof Hn as Hn'. apply String.eqb_neq in Hn'. rewrite Hn'.
      simpl. rewrite String.eqb_refl. reflexivity.
    + destruct (String.eqb k k2) eqn:E2; simpl.
      * exact IH.
      * rewrite E. rewrite IH. reflexivity.
Qed.

Lemma sy_del_del_comm : forall (V : Type) k k' (l : list (string * V)), del k (del k' l) = del k' (del k l).
Proof.
  induction l as [|[k2 v2] l IH]; simpl; [reflexivity|].
  destruct (String.eqb k' k2) eqn:E; destruct (String.eqb k k2) eqn:E2; simpl;
    rewrite ?E, ?E2; rewrite ?IH; reflexivity.
Qed.

Lemma sy_del_del_same : forall (V : Type) k (l : list (string * V)), del k (del k l) = del k l.
Proof.
  induction l as [|[k2 v2] l IH]; simpl; [reflexivity|].
  destruct (String.eqb k k2) eqn:E; simpl; rewrite ?E; rewrite ?IH; reflexivity.
Qed.

(* ---------- the stripped body (the first line of DiffBaseStorage.build) ---------- *)
Definition sy_strip (kvs : obj) : obj :=
  del "status" (del "metadata" (del "kind" (del "apiVersion" kvs))).

Definition sy_md_labels : path := ["metadata"; "labels"].
Definition sy_md_anns : path := ["metadata"; "annotations"].

(* cherrypick depends on the source only through resolve_strict on the fields
   (the empty path makes both sides a ValueError in ensure) *)
Lemma sy_cherrypick_cong : forall b1 b2 fields dst,
  (forall f, In f fields -> f = [] \/ resolve_strict b1 f = resolve_strict b2 f) ->
  cherrypick b1 dst fields = cherrypick b2 dst fields.
Proof.
  intros b1 b2 fields. induction fields as [|f fs IH]; intros dst H; [reflexivity|].
  assert (Hfs : forall f', In f' fs -> f' = [] \/ resolve_strict b1 f' = resolve_strict b2 f')
    by (intros; apply H; right; assumption).
  destruct (H f (or_introl eq_refl)) as [E|E].
  - subst f. reflexivity.
  - simpl. rewrite E. destruct (resolve_strict b2 f); try reflexivity.
    + destruct (ensure dst f a); simpl; try reflexivity. apply IH, Hfs.
    + apply IH, Hfs.
Qed.

Lemma sy_base_build_cong : forall ign kvs1 kvs2 extra,
  sy_strip kvs1 = sy_strip kvs2 ->
  resolve_strict (JObj kvs1) sy_md_labels = resolve_strict (JObj kvs2) sy_md_labels ->
  resolve_strict (JObj kvs1) sy_md_anns = resolve_strict (JObj kvs2) sy_md_anns ->
  (forall f, In f extra -> f = [] \/ resolve_strict (JObj kvs1) f = resolve_strict (JObj kvs2) f) ->
  base_build ign (JObj kvs1) extra = base_build ign (JObj kvs2) extra.
Proof.
  intros ign kvs1 kvs2 extra Hs Hl Ha He.
  unfold base_build. fold (sy_strip kvs1). fold (sy_strip kvs2). rewrite Hs.
  rewrite (sy_cherrypick_cong (JObj kvs1) (JObj kvs2)).
  2:{ intros f [<-|[<-|[]]]; right; assumption. }
  destruct (cherrypick (JObj kvs2) (JObj (sy_strip kvs2)) _) as [e| | |]; try reflexivity.
  cbv beta iota delta [bind].
  match goal with |- match ?X with _ => _ end = _ => destruct X as [anns| | |]; try reflexivity end.
  match goal with |- match ?X with _ => _ end = _ => destruct X as [e2| | |]; try reflexivity end.
  rewrite (sy_cherrypick_cong (JObj kvs1) (JObj kvs2) extra e2 He).
  reflexivity.
Qed.

Lemma sy_dbuild_cong : forall dg ds kvs1 kvs2 extra,
  sy_strip kvs1 = sy_strip kvs2 ->
  resolve_strict (JObj kvs1) sy_md_labels = resolve_strict (JObj kvs2) sy_md_labels ->
  resolve_strict (JObj kvs1) sy_md_anns = resolve_strict (JObj kvs2) sy_md_anns ->
  is_drs_body (JObj kvs1) = is_drs_body (JObj kvs2) ->
  (forall f, In f extra -> f = [] \/ resolve_strict (JObj kvs1) f = resolve_strict (JObj kvs2) f) ->
  dbuild dg ds (JObj kvs1) extra = dbuild dg ds (JObj kvs2) extra.
Proof.
  intros dg ds kvs1 kvs2 extra Hs Hl Ha Hd He.
  destruct ds as [prefix key v1 ign | field ign | l]; cbn [dbuild];
    rewrite (sy_base_build_cong _ kvs1 kvs2 extra Hs Hl Ha He); try reflexivity.
  destruct (base_build ign (JObj kvs2) extra); cbn [bind]; try reflexivity.
  unfold full_keys. rewrite Hd. reflexivity.
Qed.

Lemma sy_essence_cong : forall dg ds ps kvs1 kvs2 extra,
  sy_strip kvs1 = sy_strip kvs2 ->
  resolve_strict (JObj kvs1) sy_md_labels = resolve_strict (JObj kvs2) sy_md_labels ->
  resolve_strict (JObj kvs1) sy_md_anns = resolve_strict (JObj kvs2) sy_md_anns ->
  is_drs_body (JObj kvs1) = is_drs_body (JObj kvs2) ->
  (forall f, In f extra -> f = [] \/ resolve_strict (JObj kvs1) f = resolve_strict (JObj kvs2) f) ->
  essence dg ds ps (JObj kvs1) extra = essence dg ds ps (JObj kvs2) extra.
Proof.
  intros. unfold essence. rewrite (sy_dbuild_cong dg ds kvs1 kvs2 extra); auto.
Qed.

Lemma sy_resolve_strict_head : forall kvs1 kvs2 h p,
  lookup h kvs1 = lookup h kvs2 ->
  resolve_strict (JObj kvs1) (h :: p) = resolve_strict (JObj kvs2) (h :: p).
Proof. intros. simpl. rewrite H. reflexivity. Qed.

Lemma sy_is_drs_cong : forall kvs1 kvs2,
  lookup "kind" kvs1 = lookup "kind" kvs2 ->
  resolve (JObj kvs1) ["metadata"; "ownerReferences"] = resolve (JObj kvs2) ["metadata"; "ownerReferences"] ->
  is_drs_body (JObj kvs1) = is_drs_body (JObj kvs2).
Proof. intros kvs1 kvs2 Hk Hr. unfold is_drs_body. rewrite Hk, Hr. reflexivity. Qed.

(* two bodies that agree on everything but one top-level key k0 (not kind/metadata), which is
   stripped anyway and not asked for by extra fields, have the same essence *)
Lemma sy_top_invisible : forall dg ds ps kvs1 kvs2 k0 extra,
  k0 <> "metadata" -> k0 <> "kind" ->
  (forall k, k <> k0 -> lookup k kvs1 = lookup k kvs2) ->
  sy_strip kvs1 = sy_strip kvs2 ->
  (forall f, In f extra -> hd_error f <> Some k0) ->
  essence dg ds ps (JObj kvs1) extra = essence dg ds ps (JObj kvs2) extra.
Proof.
  intros dg ds ps kvs1 kvs2 k0 extra Hm Hk Hl Hs He.
  assert (Hmd : lookup "metadata" kvs1 = lookup "metadata" kvs2) by (apply Hl; congruence).
  apply sy_essence_cong; auto.
  - apply sy_resolve_strict_head, Hmd.
  - apply sy_resolve_strict_head, Hmd.
  - apply sy_is_drs_cong.
    + apply Hl. congruence.
    + simpl. rewrite Hmd. reflexivity.
  - intros f Hf. destruct f as [|h p]; [left; reflexivity | right].
    apply sy_resolve_strict_head, Hl. intro E. subst h. apply (He _ Hf). reflexivity.
Qed.

Theorem system_status_invisible : forall dg ds ps kvs s extra,
  (forall f, In f extra -> hd_error f <> Some "status") ->
  essence dg ds ps (JObj (set "status" s kvs)) extra = essence dg ds ps (JObj kvs) extra.
Proof.
  intros. apply sy_top_invisible with (k0 := "status"); auto; try discriminate.
  - intros k Hk. apply sy_lookup_set_other, Hk.
  - unfold sy_strip.
    rewrite (sy_del_set_other _ "apiVersion" "status") by discriminate.
    rewrite (sy_del_set_other _ "kind" "status") by discriminate.
    rewrite (sy_del_set_other _ "metadata" "status") by discriminate.
    apply sy_del_set_same.
Qed.

Theorem system_status_del_invisible : forall dg ds ps kvs extra,
  (forall f, In f extra -> hd_error f <> Some "status") ->
  essence dg ds ps (JObj (del "status" kvs)) extra = essence dg ds ps (JObj kvs) extra.
Proof.
  intros. apply sy_top_invisible with (k0 := "status"); auto; try discriminate.
  - intros k Hk. apply sy_lookup_del_other, Hk.
  - unfold sy_strip.
    rewrite (sy_del_del_comm _ "apiVersion" "status").
    rewrite (sy_del_del_comm _ "kind" "status").
    rewrite (sy_del_del_comm _ "metadata" "status").
    apply sy_del_del_same.
Qed.

Theorem system_apiversion_invisible : forall dg ds ps kvs s extra,
  (forall f, In f extra -> hd_error f <> Some "apiVersion") ->
  essence dg ds ps (JObj (set "apiVersion" s kvs)) extra = essence dg ds ps (JObj kvs) extra.
Proof.
  intros. apply sy_top_invisible with (k0 := "apiVersion"); auto; try discriminate.
  - intros k Hk. apply sy_lookup_set_other, Hk.
  - unfold sy_strip. rewrite sy_del_set_same. reflexivity.
Qed.

Theorem system_apiversion_del_invisible : forall dg ds ps kvs extra,
  (forall f, In f extra -> hd_error f <> Some "apiVersion") ->
  essence dg ds ps (JObj (del "apiVersion" kvs)) extra = essence dg ds ps (JObj kvs) extra.
Proof.
  intros. apply sy_top_invisible with (k0 := "apiVersion"); auto; try discriminate.
  - intros k Hk. apply sy_lookup_del_other, Hk.
  - unfold sy_strip. rewrite sy_del_del_same. reflexivity.
Qed.

(* system metadata: any metadata key but labels / annotations / ownerReferences *)
Lemma sy_metadata_cong : forall dg ds ps kvs md md' extra,
  lookup "metadata" kvs = Some (JObj md) ->
  lookup "labels" md' = lookup "labels" md ->
  lookup "annotations" md' = lookup "annotations" md ->
  lookup "ownerReferences" md' = lookup "ownerReferences" md ->
  (forall f, In f extra -> hd_error f <> Some "metadata") ->
  essence dg ds ps (JObj (set "metadata" (JObj md') kvs)) extra = essence dg ds ps (JObj kvs) extra.
Proof.
  intros dg ds ps kvs md md' extra Hmd Hl Ha Ho He.
  apply sy_essence_cong.
  - unfold sy_strip.
    rewrite (sy_del_set_other _ "apiVersion" "metadata") by discriminate.
    rewrite (sy_del_set_other _ "kind" "metadata") by discriminate.
    rewrite sy_del_set_same. reflexivity.
  - unfold sy_md_labels. simpl. rewrite sy_lookup_set_same, Hmd, Hl. reflexivity.
  - unfold sy_md_anns. simpl. rewrite sy_lookup_set_same, Hmd, Ha. reflexivity.
  - apply sy_is_drs_cong.
    + apply sy_lookup_set_other. discriminate.
    + simpl. rewrite sy_lookup_set_same, Hmd, Ho. reflexivity.
  - intros f Hf. destruct f as [|h p]; [left; reflexivity | right].
    apply sy_resolve_strict_head, sy_lookup_set_other. intro E. subst h. apply (He _ Hf). reflexivity.
Qed.

Theorem system_metadata_invisible : forall dg ds ps kvs md k v extra,
  lookup "metadata" kvs = Some (JObj md) ->
  k <> "labels" -> k <> "annotations" -> k <> "ownerReferences" ->
  (forall f, In f extra -> hd_error f <> Some "metadata") ->
  essence dg ds ps (JObj (set "metadata" (JObj (set k v md)) kvs)) extra = essence dg ds ps (JObj kvs) extra.
Proof.
  intros. apply sy_metadata_cong with (md := md); auto; apply sy_lookup_set_other; congruence.
Qed.

Theorem system_metadata_del_invisible : forall dg ds ps kvs md k extra,
  lookup "metadata" kvs = Some (JObj md) ->
  k <> "labels" -> k <> "annotations" -> k <> "ownerReferences" ->
  (forall f, In f extra -> hd_error f <> Some "metadata") ->
  essence dg ds ps (JObj (set "metadata" (JObj (del k md)) kvs)) extra = essence dg ds ps (JObj kvs) extra.
Proof.
  intros. apply sy_metadata_cong with (md := md); auto; apply sy_lookup_del_other; congruence.
Qed.

(* ---------- generic plumbing: bind, the nested storages, the stages of build ---------- *)
Lemma sy_bind_ok : forall (A B : Type) (r : res A) (f : A -> res B) b,
  bind r f = Ok b -> exists a, r = Ok a /\ f a = Ok b.
Proof. intros A B r f b H. destruct r; simpl in H; try discriminate. exists a. split; [reflexivity | exact H]. Qed.

Lemma sy_bind_ext : forall (A B : Type) (r : res A) (f g : A -> res B),
  (forall a, f a = g a) -> bind r f = bind r g.
Proof. intros A B r f g H. destruct r; simpl; auto. Qed.

Fixpoint sy_ds_ind (P : dstorage -> Prop)
  (HA : forall prefix key v1 ign, P (DAnn prefix key v1 ign))
  (HS : forall field ign, P (DStatus field ign))
  (HM : forall l, Forall P l -> P (DMulti l)) (s : dstorage) : P s :=
  match s with
  | DAnn a b c d => HA a b c d
  | DStatus f i => HS f i
  | DMulti l => HM l ((fix go (l : list dstorage) : Forall P l :=
                         match l with
                         | [] => Forall_nil _
                         | x :: l' => Forall_cons _ (sy_ds_ind P HA HS HM x) (go l')
                         end) l)
  end.

Fixpoint sy_ps_ind (P : pstorage -> Prop)
  (HA : forall prefix v1 verbose tk, P (PAnn prefix v1 verbose tk))
  (HS : forall field tf nowrite, P (PStatus field tf nowrite))
  (HM : forall l, Forall P l -> P (PMulti l)) (s : pstorage) : P s :=
  match s with
  | PAnn a b c d => HA a b c d
  | PStatus f t n => HS f t n
  | PMulti l => HM l ((fix go (l : list pstorage) : Forall P l :=
                         match l with
                         | [] => Forall_nil _
                         | x :: l' => Forall_cons _ (sy_ps_ind P HA HS HM x) (go l')
                         end) l)
  end.

(* the local loops of DMulti / PMulti as standalone fixpoints *)
Fixpoint sy_dgo (dg : chars -> list N) (extra : list path) (l : list dstorage) (e : json) : res json :=
  match l with
  | [] => Ok e
  | s' :: l' => bind (dbuild dg s' e extra) (sy_dgo dg extra l')
  end.

Fixpoint sy_pgo (l : list pstorage) (e : json) : res json :=
  match l with
  | [] => Ok e
  | s' :: l' => bind (pclear s' e) (sy_pgo l')
  end.

Lemma sy_dbuild_multi : forall dg l b extra,
  dbuild dg (DMulti l) b extra = bind (base_build [] b extra) (sy_dgo dg extra l).
Proof.
  intros. cbn [dbuild]. apply sy_bind_ext. intro e. revert e.
  induction l as [|s l IH]; intro e; [reflexivity|].
  cbn [sy_dgo]. apply sy_bind_ext. exact IH.
Qed.

Lemma sy_pclear_multi : forall l e, pclear (PMulti l) e = sy_pgo l e.
Proof.
  intros l. cbn [pclear]. induction l as [|s l IH]; intro e; [reflexivity|].
  cbn [sy_pgo]. apply sy_bind_ext. exact IH.
Qed.

(* a reflexive, transitive relation kept by every element of a loop is kept by the loop *)
Lemma sy_dgo_rel : forall (R : json -> json -> Prop) dg extra,
  (forall e, R e e) -> (forall a b c, R a b -> R b c -> R a c) ->
  forall l, Forall (fun s => forall e e', dbuild dg s e extra = Ok e' -> R e e') l ->
  forall e e', sy_dgo dg extra l e = Ok e' -> R e e'.
Proof.
  intros R dg extra Hr Ht l Hl. induction Hl as [|s l Hs Hl IH]; intros e e' H.
  - simpl in H. inversion H. apply Hr.
  - cbn [sy_dgo] in H. apply sy_bind_ok in H. destruct H as [e1 [H1 H2]].
    eapply Ht; [apply Hs, H1 | apply IH, H2].
Qed.

Lemma sy_pgo_rel : forall (R : json -> json -> Prop),
  (forall e, R e e) -> (forall a b c, R a b -> R b c -> R a c) ->
  forall l, Forall (fun s => forall e e', pclear s e = Ok e' -> R e e') l ->
  forall e e', sy_pgo l e = Ok e' -> R e e'.
Proof.
  intros R Hr Ht l Hl. induction Hl as [|s l Hs Hl IH]; intros e e' H.
  - simpl in H. inversion H. apply Hr.
  - cbn [sy_pgo] in H. apply sy_bind_ok in H. destruct H as [e1 [H1 H2]].
    eapply Ht; [apply Hs, H1 | apply IH, H2].
Qed.

(* the stages of the base build *)
Definition sy_anns_of (e : json) : res obj :=
  match e with
  | JObj ekvs => match lookup "metadata" ekvs with
                 | None => Ok []
                 | Some md => get_obj md "annotations"
                 end
  | _ => ErrType
  end.

Definition sy_drop (anns : obj) (k : string) : bool :=
  existsb (fun p => under_prefix p k) (marked_prefixes (keys anns)) || String.eqb k last_applied.

Definition sy_filter_stage (e : json) (anns : obj) : res json :=
  if existsb (fun kv => sy_drop anns (fst kv)) anns
  then ensure e sy_md_anns (JObj (filter (fun kv => negb (sy_drop anns (fst kv))) anns))
  else Ok e.

Definition sy_ign_step (acc : res json) (f : path) : res json :=
  bind acc (fun e => match remove e f with ErrType => Ok e | r => r end).

Definition sy_ign_fold (ign : list path) (e : json) : res json := fold_left sy_ign_step ign (Ok e).

Lemma sy_base_build_unfold : forall ign kvs extra,
  base_build ign (JObj kvs) extra =
  bind (cherrypick (JObj kvs) (JObj (sy_strip kvs)) [sy_md_labels; sy_md_anns]) (fun e1 =>
  bind (sy_anns_of e1) (fun anns =>
  bind (sy_filter_stage e1 anns) (fun e2 =>
  bind (cherrypick (JObj kvs) e2 extra) (fun e3 =>
  bind (remove_empty_stanzas e3) (fun e4 => sy_ign_fold ign e4))))).
Proof. reflexivity. Qed.

Lemma sy_base_build_inv : forall ign b extra e,
  base_build ign b extra = Ok e ->
  exists kvs e1 anns e2 e3 e4,
    b = JObj kvs /\
    cherrypick (JObj kvs) (JObj (sy_strip kvs)) [sy_md_labels; sy_md_anns] = Ok e1 /\
    sy_anns_of e1 = Ok anns /\
    sy_filter_stage e1 anns = Ok e2 /\
    cherrypick (JObj kvs) e2 extra = Ok e3 /\
    remove_empty_stanzas e3 = Ok e4 /\
    sy_ign_fold ign e4 = Ok e.
Proof.
  intros ign b extra e H. destruct b; try discriminate H.
  rewrite sy_base_build_unfold in H.
  apply sy_bind_ok in H. destruct H as [e1 [H1 H]].
  apply sy_bind_ok in H. destruct H as [anns [H2 H]].
  apply sy_bind_ok in H. destruct H as [e2 [H3 H]].
  apply sy_bind_ok in H. destruct H as [e3 [H4 H]].
  apply sy_bind_ok in H. destruct H as [e4 [H5 H]].
  exists kvs, e1, anns, e2, e3, e4. repeat split; assumption.
Qed.

Lemma sy_ign_fold_err : forall ign (r : res json), (forall e, r <> Ok e) -> forall e, fold_left sy_ign_step ign r <> Ok e.
Proof.
  induction ign as [|f fs IH]; intros r Hr e; simpl; [apply Hr|].
  apply IH. intros e0. destruct r; simpl; try discriminate. exfalso. apply (Hr a). reflexivity.
Qed.

Lemma sy_ign_fold_rel : forall (R : json -> json -> Prop) ign,
  (forall e, R e e) -> (forall a b c, R a b -> R b c -> R a c) ->
  (forall f e e', In f ign -> remove e f = Ok e' -> R e e') ->
  forall e e', sy_ign_fold ign e = Ok e' -> R e e'.
Proof.
  intros R ign Hr Ht. unfold sy_ign_fold. induction ign as [|f fs IH]; intros Hrm e e' H.
  - simpl in H. inversion H. apply Hr.
  - simpl in H. destruct (remove e f) as [e1| | |] eqn:E.
    + eapply Ht; [apply (Hrm f); [left; reflexivity | exact E]|].
      apply IH; [intros; eapply Hrm; [right; eassumption | eassumption] | exact H].
    + exfalso. revert H. apply sy_ign_fold_err. discriminate.
    + apply IH; [intros; eapply Hrm; [right; eassumption | eassumption] | exact H].
    + exfalso. revert H. apply sy_ign_fold_err. discriminate.
Qed.

(* ---------- frame lemmas: a top-level key k is not touched ---------- *)
Definition sy_top (k : string) (j : json) : option (option json) :=
  match j with JObj kvs => Some (lookup k kvs) | _ => None end.

Lemma sy_ensure_top : forall k h p d v d',
  h <> k -> ensure d (h :: p) v = Ok d' -> sy_top k d' = sy_top k d.
Proof.
  intros k h p d v d' Hn H. assert (Hn' : k <> h) by congruence.
  destruct p as [|h2 p'].
  - simpl in H. destruct d; try discriminate H. inversion H. simpl.
    rewrite sy_lookup_set_other by exact Hn'. reflexivity.
  - cbn [ensure] in H. destruct d; try discriminate H.
    apply sy_bind_ok in H. destruct H as [sub' [_ H]]. inversion H. simpl.
    rewrite sy_lookup_set_other by exact Hn'. reflexivity.
Qed.

Lemma sy_cherrypick_top : forall k src fields dst d',
  (forall f, In f fields -> hd_error f <> Some k) ->
  cherrypick src dst fields = Ok d' -> sy_top k d' = sy_top k dst.
Proof.
  intros k src fields. induction fields as [|f fs IH]; intros dst d' Hf H.
  - simpl in H. inversion H. reflexivity.
  - assert (Hfs : forall f', In f' fs -> hd_error f' <> Some k) by (intros; apply Hf; right; assumption).
    cbn [cherrypick] in H. destruct f as [|h p]; [discriminate H|].
    destruct (resolve_strict src (h :: p)) as [v| | |]; try discriminate H.
    + apply sy_bind_ok in H. destruct H as [d1 [H1 H2]].
      rewrite (IH _ _ Hfs H2). eapply sy_ensure_top; [|exact H1].
      intro E. subst h. apply (Hf (k :: p)); [left; reflexivity | reflexivity].
    + apply (IH _ _ Hfs H).
Qed.

Lemma sy_remove_top : forall k h p d d',
  h <> k -> remove d (h :: p) = Ok d' -> sy_top k d' = sy_top k d.
Proof.
  intros k h p d d' Hn H. assert (Hn' : k <> h) by congruence.
  destruct p as [|h2 p'].
  - simpl in H. destruct d; try discriminate H. inversion H. simpl.
    rewrite sy_lookup_del_other by exact Hn'. reflexivity.
  - cbn [remove] in H. destruct d; try discriminate H.
    destruct (lookup h kvs) as [sub|]; [|inversion H; reflexivity].
    apply sy_bind_ok in H. destruct H as [sub' [_ H]].
    destruct (is_empty_obj sub'); inversion H; simpl.
    + rewrite sy_lookup_del_other by exact Hn'. reflexivity.
    + rewrite sy_lookup_set_other by exact Hn'. reflexivity.
Qed.

Lemma sy_remove_annotations_top : forall k e rm e',
  k <> "metadata" -> remove_annotations e rm = Ok e' -> sy_top k e' = sy_top k e.
Proof.
  intros k e rm e' Hn H. unfold remove_annotations in H.
  destruct e; try discriminate H.
  destruct (lookup "metadata" kvs) as [md|]; [|inversion H; reflexivity].
  apply sy_bind_ok in H. destruct H as [anns [_ H]].
  destruct (existsb _ anns); [|inversion H; reflexivity].
  destruct md; try discriminate H. inversion H. simpl.
  rewrite sy_lookup_set_other by exact Hn. reflexivity.
Qed.

Lemma sy_drop_if_falsy_in_lookup : forall k outer inner kvs kvs',
  k <> outer -> drop_if_falsy_in outer inner kvs = Ok kvs' -> lookup k kvs' = lookup k kvs.
Proof.
  intros k outer inner kvs kvs' Hn H. unfold drop_if_falsy_in in H.
  destruct (lookup outer kvs) as [o|]; [|inversion H; reflexivity].
  destruct o; try discriminate H.
  destruct (lookup inner kvs0) as [v|]; [|inversion H; reflexivity].
  destruct (is_falsy v); inversion H; [|reflexivity].
  apply sy_lookup_set_other, Hn.
Qed.

Lemma sy_drop_if_falsy_lookup : forall k k0 kvs,
  k <> k0 -> lookup k (drop_if_falsy k0 kvs) = lookup k kvs.
Proof.
  intros k k0 kvs Hn. unfold drop_if_falsy.
  destruct (lookup k0 kvs) as [v|]; [|reflexivity].
  destruct (is_falsy v); [|reflexivity]. apply sy_lookup_del_other, Hn.
Qed.

Lemma sy_res_top : forall k e e',
  k <> "metadata" -> k <> "status" -> remove_empty_stanzas e = Ok e' -> sy_top k e' = sy_top k e.
Proof.
  intros k e e' Hm Hs H. unfold remove_empty_stanzas in H.
  destruct e; try discriminate H.
  apply sy_bind_ok in H. destruct H as [k1 [H1 H]].
  apply sy_bind_ok in H. destruct H as [k2 [H2 H]].
  inversion H. simpl.
  rewrite sy_drop_if_falsy_lookup by exact Hs.
  rewrite sy_drop_if_falsy_lookup by exact Hm.
  rewrite (sy_drop_if_falsy_in_lookup _ _ _ _ _ Hm H2).
  rewrite (sy_drop_if_falsy_in_lookup _ _ _ _ _ Hm H1). reflexivity.
Qed.

(* ---------- "only removes": absent paths stay absent ---------- *)
Definition sy_le (e e' : json) : Prop := forall p, resolve e p = None -> resolve e' p = None.

Lemma sy_le_refl : forall e, sy_le e e.
Proof. intros e p H. exact H. Qed.

Lemma sy_le_trans : forall a b c, sy_le a b -> sy_le b c -> sy_le a c.
Proof. intros a b c H1 H2 p H. apply H2, H1, H. Qed.

Lemma sy_le_set : forall k kvs v v',
  lookup k kvs = Some v -> sy_le v v' -> sy_le (JObj kvs) (JObj (set k v' kvs)).
Proof.
  intros k kvs v v' Hl Hle p H. destruct p as [|h p']; [discriminate H|].
  simpl in *. destruct (String.eqb_spec h k) as [E|E].
  - subst h. rewrite sy_lookup_set_same. rewrite Hl in H. apply Hle, H.
  - rewrite sy_lookup_set_other by exact E. exact H.
Qed.

Lemma sy_le_del : forall k kvs, sy_le (JObj kvs) (JObj (del k kvs)).
Proof.
  intros k kvs p H. destruct p as [|h p']; [discriminate H|].
  simpl in *. destruct (String.eqb_spec h k) as [E|E].
  - subst h. rewrite sy_lookup_del_same. reflexivity.
  - rewrite sy_lookup_del_other by exact E. exact H.
Qed.

Lemma sy_remove_le : forall f e e', remove e f = Ok e' -> sy_le e e'.
Proof.
  induction f as [|k f IH]; intros e e' H; [discriminate H|].
  destruct f as [|k2 f'].
  - simpl in H. destruct e; try discriminate H. inversion H. apply sy_le_del.
  - cbn [remove] in H. destruct e; try discriminate H.
    destruct (lookup k kvs) as [sub|] eqn:El; [|inversion H; apply sy_le_refl].
    apply sy_bind_ok in H. destruct H as [sub' [H1 H]].
    destruct (is_empty_obj sub'); inversion H.
    + apply sy_le_del.
    + eapply sy_le_set; [exact El | apply IH, H1].
Qed.

Lemma sy_lookup_filter : forall (V : Type) (p : string -> bool) k (l : list (string * V)),
  lookup k (filter (fun kv => p (fst kv)) l) = if p k then lookup k l else None.
Proof.
  intros V p k l. induction l as [|[k' v'] l IH]; simpl.
  - destruct (p k); reflexivity.
  - destruct (p k') eqn:Ep; simpl.
    + destruct (String.eqb_spec k k') as [E|E].
      * subst k'. rewrite Ep. reflexivity.
      * exact IH.
    + destruct (String.eqb_spec k k') as [E|E].
      * subst k'. rewrite Ep in *. exact IH.
      * exact IH.
Qed.

Lemma sy_le_filter : forall (p : string -> bool) (l : obj),
  sy_le (JObj l) (JObj (filter (fun kv => p (fst kv)) l)).
Proof.
  intros p l q H. destruct q as [|h q']; [discriminate H|].
  simpl in *. rewrite sy_lookup_filter. destruct (p h); [exact H | reflexivity].
Qed.

Lemma sy_remove_annotations_le : forall e rm e', remove_annotations e rm = Ok e' -> sy_le e e'.
Proof.
  intros e rm e' H. unfold remove_annotations in H.
  destruct e; try discriminate H.
  destruct (lookup "metadata" kvs) as [md|] eqn:Em; [|inversion H; apply sy_le_refl].
  apply sy_bind_ok in H. destruct H as [anns [Ha H]].
  destruct (existsb _ anns) eqn:Ex; [|inversion H; apply sy_le_refl].
  destruct md as [| | | | |mkvs|]; try discriminate H. inversion H.
  eapply sy_le_set; [exact Em|].
  simpl in Ha. destruct (lookup "annotations" mkvs) as [a|] eqn:Ea.
  - destruct a; try discriminate Ha. inversion Ha. subst.
    eapply sy_le_set; [exact Ea|].
    apply (sy_le_filter (fun k => negb (rm k))).
  - inversion Ha. subst anns. discriminate Ex.
Qed.

Lemma sy_drop_if_falsy_in_le : forall outer inner kvs kvs',
  drop_if_falsy_in outer inner kvs = Ok kvs' -> sy_le (JObj kvs) (JObj kvs').
Proof.
  intros outer inner kvs kvs' H. unfold drop_if_falsy_in in H.
  destruct (lookup outer kvs) as [o|] eqn:Eo; [|inversion H; apply sy_le_refl].
  destruct o; try discriminate H.
  destruct (lookup inner kvs0) as [v|]; [|inversion H; apply sy_le_refl].
  destruct (is_falsy v); inversion H; [|apply sy_le_refl].
  eapply sy_le_set; [exact Eo | apply sy_le_del].
Qed.

Lemma sy_drop_if_falsy_le : forall k kvs, sy_le (JObj kvs) (JObj (drop_if_falsy k kvs)).
Proof.
  intros k kvs. unfold drop_if_falsy.
  destruct (lookup k kvs) as [v|]; [|apply sy_le_refl].
  destruct (is_falsy v); [apply sy_le_del | apply sy_le_refl].
Qed.

Lemma sy_res_le : forall e e', remove_empty_stanzas e = Ok e' -> sy_le e e'.
Proof.
  intros e e' H. unfold remove_empty_stanzas in H.
  destruct e; try discriminate H.
  apply sy_bind_ok in H. destruct H as [k1 [H1 H]].
  apply sy_bind_ok in H. destruct H as [k2 [H2 H]].
  inversion H.
  eapply sy_le_trans; [eapply sy_drop_if_falsy_in_le, H1|].
  eapply sy_le_trans; [eapply sy_drop_if_falsy_in_le, H2|].
  eapply sy_le_trans; [apply sy_drop_if_falsy_le | apply sy_drop_if_falsy_le].
Qed.

Lemma sy_pclear_le : forall ps e e', pclear ps e = Ok e' -> sy_le e e'.
Proof.
  induction ps using sy_ps_ind; intros e e' Hc.
  - cbn [pclear] in Hc. apply sy_bind_ok in Hc. destruct Hc as [e1 [H1 H2]].
    eapply sy_le_trans; [eapply sy_remove_annotations_le, H1 | apply sy_res_le, H2].
  - cbn [pclear] in Hc. apply sy_bind_ok in Hc. destruct Hc as [e1 [H1 H2]].
    eapply sy_le_trans; [eapply sy_remove_le, H1 | apply sy_res_le, H2].
  - rewrite sy_pclear_multi in Hc. revert e e' Hc.
    apply sy_pgo_rel; [apply sy_le_refl | apply sy_le_trans | exact H].
Qed.

(* ---------- annotations under a marked prefix ---------- *)
Definition sy_A (j : string) (e : json) : Prop := resolve e ["metadata"; "annotations"; j] = None.

Definition sy_M (j : string) (b : json) : Prop :=
  exists anns q, resolve b sy_md_anns = Some (JObj anns) /\
                 In q (marked_prefixes (keys anns)) /\ under_prefix q j = true.

Lemma sy_strip_no_metadata : forall kvs, lookup "metadata" (sy_strip kvs) = None.
Proof.
  intros. unfold sy_strip. rewrite sy_lookup_del_other by discriminate. apply sy_lookup_del_same.
Qed.

Lemma sy_cherrypick_md : forall kvs e0 e1,
  lookup "metadata" e0 = None ->
  cherrypick (JObj kvs) (JObj e0) [sy_md_labels; sy_md_anns] = Ok e1 ->
  resolve e1 sy_md_anns = resolve (JObj kvs) sy_md_anns.
Proof.
  intros kvs e0 e1 H0 H. unfold sy_md_labels, sy_md_anns in *.
  cbn [cherrypick resolve_strict] in H. cbn [resolve].
  destruct (lookup "metadata" kvs) as [md|].
  2:{ inversion H. subst e1. rewrite H0. reflexivity. }
  destruct md as [| | | | |mkvs|]; try discriminate H.
  destruct (lookup "labels" mkvs) as [lv|].
  - cbn [ensure bind] in H. rewrite H0 in H. cbn [bind] in H.
    rewrite sy_lookup_set_same in H.
    destruct (lookup "annotations" mkvs) as [av|].
    + cbn [bind] in H. inversion H. subst e1.
      rewrite !sy_lookup_set_same. reflexivity.
    + inversion H. subst e1. rewrite sy_lookup_set_same. reflexivity.
  - destruct (lookup "annotations" mkvs) as [av|].
    + cbn [ensure bind] in H. rewrite H0 in H. cbn [bind] in H. inversion H. subst e1.
      rewrite !sy_lookup_set_same. reflexivity.
    + inversion H. subst e1. rewrite H0. reflexivity.
Qed.

Lemma sy_A_via : forall j e,
  resolve e ["metadata"; "annotations"; j] =
  match resolve e sy_md_anns with Some v => resolve v [j] | None => None end.
Proof.
  intros j e. destruct e; try reflexivity. unfold sy_md_anns. simpl.
  destruct (lookup "metadata" kvs) as [md|]; [|reflexivity].
  destruct md; try reflexivity.
  destruct (lookup "annotations" kvs0); reflexivity.
Qed.

Lemma sy_A_top : forall j e e',
  sy_top "metadata" e' = sy_top "metadata" e -> sy_A j e -> sy_A j e'.
Proof.
  unfold sy_A. intros j e e' Ht H.
  destruct e, e'; try discriminate Ht; try reflexivity.
  simpl in *. inversion Ht as [Hl]. rewrite Hl. exact H.
Qed.

Lemma sy_A_le : forall j e e', sy_le e e' -> sy_A j e -> sy_A j e'.
Proof. unfold sy_A. intros j e e' Hle H. apply Hle, H. Qed.

Lemma sy_anns_of_spec : forall e anns,
  sy_anns_of e = Ok anns ->
  resolve e sy_md_anns = Some (JObj anns) \/ (resolve e sy_md_anns = None /\ anns = []).
Proof.
  intros e anns H. unfold sy_anns_of in H. destruct e; try discriminate H.
  unfold sy_md_anns. simpl.
  destruct (lookup "metadata" kvs) as [md|]; [|inversion H; right; split; reflexivity].
  unfold get_obj in H. destruct md; try discriminate H.
  destruct (lookup "annotations" kvs0) as [a|]; [|inversion H; right; split; reflexivity].
  destruct a; try discriminate H. inversion H. left. reflexivity.
Qed.

Lemma sy_ensure_resolve : forall p d v d', ensure d p v = Ok d' -> resolve d' p = Some v.
Proof.
  induction p as [|k p IH]; intros d v d' H; [discriminate H|].
  destruct p as [|k2 p'].
  - simpl in H. destruct d; try discriminate H. inversion H. simpl.
    rewrite sy_lookup_set_same. reflexivity.
  - cbn [ensure] in H. destruct d; try discriminate H.
    apply sy_bind_ok in H. destruct H as [sub' [H1 H]]. inversion H.
    cbn [resolve]. rewrite sy_lookup_set_same. apply (IH _ _ _ H1).
Qed.

Lemma sy_existsb_false_lookup : forall (p : string -> bool) j (l : obj),
  existsb (fun kv => p (fst kv)) l = false -> p j = true -> lookup j l = None.
Proof.
  intros p j l. induction l as [|[k v] l IH]; intros H Hp; [reflexivity|].
  simpl in *. apply orb_false_elim in H. destruct H as [H1 H2].
  destruct (String.eqb_spec j k) as [E|E].
  - subst k. rewrite Hp in H1. discriminate H1.
  - apply IH; assumption.
Qed.

Lemma sy_filter_stage_A : forall j e1 anns e2,
  sy_filter_stage e1 anns = Ok e2 ->
  resolve e1 sy_md_anns = Some (JObj anns) \/ (resolve e1 sy_md_anns = None /\ anns = []) ->
  lookup j anns = None \/ sy_drop anns j = true ->
  sy_A j e2.
Proof.
  intros j e1 anns e2 H Hs Hj. unfold sy_A. rewrite sy_A_via.
  unfold sy_filter_stage in H. destruct (existsb _ anns) eqn:Ex.
  - rewrite (sy_ensure_resolve _ _ _ _ H). simpl.
    rewrite (sy_lookup_filter json (fun k => negb (sy_drop anns k))).
    destruct Hj as [Hj|Hj]; rewrite Hj; [destruct (negb _)|]; reflexivity.
  - inversion H. subst e2. destruct Hs as [Hs|[Hs _]]; rewrite Hs; [|reflexivity].
    simpl. destruct Hj as [Hj|Hj]; [rewrite Hj; reflexivity|].
    rewrite (sy_existsb_false_lookup (sy_drop anns) j anns Ex Hj). reflexivity.
Qed.

Lemma sy_base_build_A : forall j ign b extra e,
  (forall f, In f extra -> hd_error f <> Some "metadata") ->
  base_build ign b extra = Ok e ->
  sy_A j b \/ sy_M j b -> sy_A j e.
Proof.
  intros j ign b extra e He H Hb.
  apply sy_base_build_inv in H.
  destruct H as [kvs [e1 [anns [e2 [e3 [e4 [Eb [H1 [H2 [H3 [H4 [H5 H6]]]]]]]]]]]]. subst b.
  pose proof (sy_cherrypick_md _ _ _ (sy_strip_no_metadata kvs) H1) as Hmd.
  pose proof (sy_anns_of_spec _ _ H2) as Hs.
  assert (A2 : sy_A j e2).
  { apply (sy_filter_stage_A j e1 anns e2 H3 Hs).
    destruct Hb as [Ha|[anns0 [q [Hr [Hq Hu]]]]].
    - left. unfold sy_A in Ha. rewrite sy_A_via in Ha. rewrite <- Hmd in Ha.
      destruct Hs as [Hs|[Hs Hn]].
      + rewrite Hs in Ha. simpl in Ha. destruct (lookup j anns); [discriminate Ha | reflexivity].
      + subst anns. reflexivity.
    - right. rewrite <- Hmd in Hr. destruct Hs as [Hs|[Hs _]]; rewrite Hs in Hr; [|discriminate Hr].
      inversion Hr. subst anns0. unfold sy_drop. apply orb_true_intro. left.
      apply existsb_exists. exists q. split; assumption. }
  assert (A3 : sy_A j e3).
  { eapply sy_A_top; [|exact A2]. eapply sy_cherrypick_top; [exact He | exact H4]. }
  assert (A4 : sy_A j e4) by (eapply sy_A_le; [apply sy_res_le, H5 | exact A3]).
  eapply sy_A_le; [|exact A4].
  revert H6. apply sy_ign_fold_rel; [apply sy_le_refl | apply sy_le_trans|].
  intros f x x' _ Hx. eapply sy_remove_le, Hx.
Qed.

Lemma sy_dbuild_A : forall dg j extra,
  (forall f, In f extra -> hd_error f <> Some "metadata") ->
  forall ds b e, dbuild dg ds b extra = Ok e -> sy_A j b \/ sy_M j b -> sy_A j e.
Proof.
  intros dg j extra He. induction ds using sy_ds_ind; intros b e Hd Hb.
  - cbn [dbuild] in Hd. apply sy_bind_ok in Hd. destruct Hd as [e1 [H1 H2]].
    apply sy_bind_ok in H2. destruct H2 as [e2 [H2 H3]].
    pose proof (sy_base_build_A j _ _ _ _ He H1 Hb) as A1.
    eapply sy_A_le; [apply sy_res_le, H3|].
    eapply sy_A_le; [eapply sy_remove_annotations_le, H2 | exact A1].
  - cbn [dbuild] in Hd. apply sy_bind_ok in Hd. destruct Hd as [e1 [H1 H2]].
    pose proof (sy_base_build_A j _ _ _ _ He H1 Hb) as A1.
    eapply sy_A_le; [eapply sy_remove_le, H2 | exact A1].
  - rewrite sy_dbuild_multi in Hd. apply sy_bind_ok in Hd. destruct Hd as [e1 [H1 H2]].
    pose proof (sy_base_build_A j _ _ _ _ He H1 Hb) as A1.
    clear H1. revert e1 e H2 A1.
    apply (sy_dgo_rel (fun x y => sy_A j x -> sy_A j y)); [auto | auto|].
    eapply Forall_impl; [|exact H]. intros s IHs x y Hxy Ax. eapply IHs; [exact Hxy | left; exact Ax].
Qed.

Theorem marked_annotation_absent : forall dg ds ps kvs md anns q j extra e,
  lookup "metadata" kvs = Some (JObj md) ->
  lookup "annotations" md = Some (JObj anns) ->
  In q (marked_prefixes (keys anns)) ->
  under_prefix q j = true ->
  (forall f, In f extra -> hd_error f <> Some "metadata") ->
  essence dg ds ps (JObj kvs) extra = Ok e ->
  resolve e ["metadata"; "annotations"; j] = None.
Proof.
  intros dg ds ps kvs md anns q j extra e Hm Ha Hq Hu He H.
  unfold essence in H. apply sy_bind_ok in H. destruct H as [e1 [H1 H2]].
  change (sy_A j e). eapply sy_A_le; [eapply sy_pclear_le, H2|].
  eapply sy_dbuild_A; [exact He | exact H1|].
  right. exists anns, q. split; [|split; assumption].
  unfold sy_md_anns. simpl. rewrite Hm, Ha. reflexivity.
Qed.

(* ---------- which keys mark a prefix ---------- *)
Fixpoint no_slash (s : string) : bool :=
  match s with
  | EmptyString => true
  | String c s' => negb (Ascii.eqb c "/") && no_slash s'
  end.

Lemma sy_split_slash_app : forall q n,
  no_slash q = true -> split_slash (q ++ "/" ++ n)%string = Some (q, n).
Proof.
  induction q as [|c q IH]; intros n H.
  - reflexivity.
  - simpl in H. apply andb_prop in H. destruct H as [Hc Hq].
    change ((String c q ++ "/" ++ n)%string) with (String c (q ++ "/" ++ n)%string).
    cbn [split_slash]. destruct (Ascii.eqb c "/"); [discriminate Hc|].
    rewrite (IH n Hq). reflexivity.
Qed.

Lemma marker_marks : forall q,
  no_slash q = true -> key_marks_prefix (q ++ "/" ++ marker_name)%string = Some q.
Proof.
  intros q H. unfold key_marks_prefix. rewrite (sy_split_slash_app q marker_name H).
  rewrite String.eqb_refl. reflexivity.
Qed.

Lemma known_prefix_marks : forall n,
  key_marks_prefix (known_prefix ++ "/" ++ n)%string = Some known_prefix.
Proof.
  intros n. unfold key_marks_prefix.
  rewrite (sy_split_slash_app known_prefix n) by reflexivity.
  rewrite String.eqb_refl. destruct (String.eqb n marker_name); reflexivity.
Qed.

(* a marker annotation of another operator among the annotations makes its prefix marked *)
Lemma sy_marked_in : forall k q (ks : list string),
  In k ks -> key_marks_prefix k = Some q -> In q (marked_prefixes ks).
Proof.
  intros k q ks. induction ks as [|k' ks IH]; intros Hin Hk; [destruct Hin|].
  cbn [marked_prefixes]. destruct Hin as [E|Hin].
  - subst k'. rewrite Hk. left. reflexivity.
  - destruct (key_marks_prefix k'); [right|]; apply IH; assumption.
Qed.

(* ---------- payload fields are visible ---------- *)
Fixpoint sy_ds_fields (ds : dstorage) : list path :=
  match ds with
  | DAnn _ _ _ ign => ign
  | DStatus f ign => f :: ign
  | DMulti l => flat_map sy_ds_fields l
  end.

Fixpoint sy_ps_fields (ps : pstorage) : list path :=
  match ps with
  | PAnn _ _ _ _ => []
  | PStatus f _ _ => [f]
  | PMulti l => flat_map sy_ps_fields l
  end.

(* no extra field, no ignored field / status field of a diff-base storage, no status field of a
   progress storage starts with k.  (The empty path needs no exclusion: with it build/clear raise
   ValueError, so the essence is not Ok.) *)
Definition fields_avoid (k : string) (ds : dstorage) (ps : pstorage) (extra : list path) : Prop :=
  forall f, In f (extra ++ sy_ds_fields ds ++ sy_ps_fields ps) -> hd_error f <> Some k.

Definition sy_avoid (k : string) (fs : list path) : Prop := forall f, In f fs -> hd_error f <> Some k.

Lemma sy_remove_avoid_top : forall k f e e',
  hd_error f <> Some k -> remove e f = Ok e' -> sy_top k e' = sy_top k e.
Proof.
  intros k f e e' Hf H. destruct f as [|h p]; [discriminate H|].
  eapply sy_remove_top; [|exact H]. intro E. subst h. apply Hf. reflexivity.
Qed.

Lemma sy_base_build_top : forall k ign b extra e,
  k <> "apiVersion" -> k <> "kind" -> k <> "metadata" -> k <> "status" ->
  sy_avoid k extra -> sy_avoid k ign ->
  base_build ign b extra = Ok e -> sy_top k e = sy_top k b.
Proof.
  intros k ign b extra e Ka Kk Km Ks He Hi H.
  apply sy_base_build_inv in H.
  destruct H as [kvs [e1 [anns [e2 [e3 [e4 [Eb [H1 [H2 [H3 [H4 [H5 H6]]]]]]]]]]]]. subst b.
  assert (T1 : sy_top k e1 = sy_top k (JObj kvs)).
  { assert (Hmd : sy_avoid k [sy_md_labels; sy_md_anns]).
    { intros f [<-|[<-|[]]]; simpl; congruence. }
    rewrite (sy_cherrypick_top k _ _ _ _ Hmd H1).
    simpl. unfold sy_strip. rewrite !sy_lookup_del_other by assumption. reflexivity. }
  assert (T2 : sy_top k e2 = sy_top k e1).
  { unfold sy_filter_stage in H3. destruct (existsb _ anns); [|inversion H3; reflexivity].
    eapply sy_ensure_top; [|exact H3]. congruence. }
  assert (T3 : sy_top k e3 = sy_top k e2) by (eapply sy_cherrypick_top; [exact He | exact H4]).
  assert (T4 : sy_top k e4 = sy_top k e3) by (apply sy_res_top; assumption).
  rewrite <- T1, <- T2, <- T3, <- T4.
  revert H6. apply (sy_ign_fold_rel (fun x y => sy_top k y = sy_top k x)); [reflexivity | congruence|].
  intros f x x' Hf Hx. eapply sy_remove_avoid_top; [apply Hi, Hf | exact Hx].
Qed.

Lemma sy_dbuild_top : forall dg k extra,
  k <> "apiVersion" -> k <> "kind" -> k <> "metadata" -> k <> "status" ->
  sy_avoid k extra ->
  forall ds b e, sy_avoid k (sy_ds_fields ds) -> dbuild dg ds b extra = Ok e -> sy_top k e = sy_top k b.
Proof.
  intros dg k extra Ka Kk Km Ks He. induction ds using sy_ds_ind; intros b e Hf Hd.
  - cbn [dbuild] in Hd. apply sy_bind_ok in Hd. destruct Hd as [e1 [H1 H2]].
    apply sy_bind_ok in H2. destruct H2 as [e2 [H2 H3]].
    rewrite (sy_res_top k _ _ Km Ks H3), (sy_remove_annotations_top k _ _ _ Km H2).
    exact (sy_base_build_top k ign b extra e1 Ka Kk Km Ks He Hf H1).
  - cbn [dbuild] in Hd. apply sy_bind_ok in Hd. destruct Hd as [e1 [H1 H2]].
    rewrite (sy_remove_avoid_top k _ _ _ (Hf _ (or_introl eq_refl)) H2).
    apply (sy_base_build_top k ign b extra e1 Ka Kk Km Ks He); [|exact H1].
    intros f Hin. apply Hf. right. exact Hin.
  - rewrite sy_dbuild_multi in Hd. apply sy_bind_ok in Hd. destruct Hd as [e1 [H1 H2]].
    rewrite <- (sy_base_build_top k [] b extra e1); auto; [|intros f []].
    clear H1. revert e1 e H2.
    apply (sy_dgo_rel (fun x y => sy_top k y = sy_top k x)); [reflexivity | congruence|].
    apply Forall_forall. intros s Hs x y Hxy.
    rewrite Forall_forall in H. apply (H s Hs); [|exact Hxy].
    intros f Hin. apply Hf. cbn [sy_ds_fields]. apply in_flat_map. exists s. split; assumption.
Qed.

Lemma sy_pclear_top : forall k,
  k <> "metadata" -> k <> "status" ->
  forall ps e e', sy_avoid k (sy_ps_fields ps) -> pclear ps e = Ok e' -> sy_top k e' = sy_top k e.
Proof.
  intros k Km Ks. induction ps using sy_ps_ind; intros e e' Hf Hc.
  - cbn [pclear] in Hc. apply sy_bind_ok in Hc. destruct Hc as [e1 [H1 H2]].
    rewrite (sy_res_top k _ _ Km Ks H2). apply (sy_remove_annotations_top k _ _ _ Km H1).
  - cbn [pclear] in Hc. apply sy_bind_ok in Hc. destruct Hc as [e1 [H1 H2]].
    rewrite (sy_res_top k _ _ Km Ks H2).
    apply (sy_remove_avoid_top k _ _ _ (Hf _ (or_introl eq_refl)) H1).
  - rewrite sy_pclear_multi in Hc. revert e e' Hc.
    apply (sy_pgo_rel (fun x y => sy_top k y = sy_top k x)); [reflexivity | congruence|].
    apply Forall_forall. intros s Hs x y Hxy.
    rewrite Forall_forall in H. apply (H s Hs); [|exact Hxy].
    intros f Hin. apply Hf. cbn [sy_ps_fields]. apply in_flat_map. exists s. split; assumption.
Qed.

Lemma sy_essence_top : forall dg ds ps b k extra e,
  k <> "apiVersion" -> k <> "kind" -> k <> "metadata" -> k <> "status" ->
  fields_avoid k ds ps extra ->
  essence dg ds ps b extra = Ok e -> sy_top k e = sy_top k b.
Proof.
  intros dg ds ps b k extra e Ka Kk Km Ks Hf H.
  unfold essence in H. apply sy_bind_ok in H. destruct H as [e1 [H1 H2]].
  rewrite (sy_pclear_top k Km Ks ps e1 e); [| |exact H2].
  - eapply sy_dbuild_top; [| | | | |  |exact H1]; auto.
    + intros f Hin. apply Hf. apply in_or_app. left. exact Hin.
    + intros f Hin. apply Hf. apply in_or_app. right. apply in_or_app. left. exact Hin.
  - intros f Hin. apply Hf. apply in_or_app. right. apply in_or_app. right. exact Hin.
Qed.

Theorem payload_visible : forall dg ds ps kvs k extra e,
  k <> "apiVersion" -> k <> "kind" -> k <> "metadata" -> k <> "status" ->
  fields_avoid k ds ps extra ->
  essence dg ds ps (JObj kvs) extra = Ok e ->
  exists ekvs, e = JObj ekvs /\ lookup k ekvs = lookup k kvs.
Proof.
  intros dg ds ps kvs k extra e Ka Kk Km Ks Hf H.
  pose proof (sy_essence_top _ _ _ _ _ _ _ Ka Kk Km Ks Hf H) as T.
  destruct e; try discriminate T. exists kvs0. split; [reflexivity|].
  simpl in T. inversion T. reflexivity.
Qed.

Corollary payload_change_visible : forall dg ds ps kvs kvs' k extra e e',
  k <> "apiVersion" -> k <> "kind" -> k <> "metadata" -> k <> "status" ->
  fields_avoid k ds ps extra ->
  lookup k kvs <> lookup k kvs' ->
  essence dg ds ps (JObj kvs) extra = Ok e ->
  essence dg ds ps (JObj kvs') extra = Ok e' ->
  e <> e'.
Proof.
  intros dg ds ps kvs kvs' k extra e e' Ka Kk Km Ks Hf Hd H H' E.
  destruct (payload_visible _ _ _ _ _ _ _ Ka Kk Km Ks Hf H) as [x [Ex Lx]].
  destruct (payload_visible _ _ _ _ _ _ _ Ka Kk Km Ks Hf H') as [y [Ey Ly]].
  rewrite Ex, Ey in E. inversion E. subst y. apply Hd. congruence.
Qed.

(* ---------- sanity: the hypotheses are satisfiable (default-like configuration) ---------- *)
Lemma sy_fields_avoid_default : forall k prefix key v1 verbose tk f tf,
  k <> "status" ->
  fields_avoid k (DAnn prefix key v1 []) (smart prefix v1 verbose tk ("status" :: f) tf) [].
Proof.
  intros k prefix key v1 verbose tk f tf Hk g Hin. simpl in Hin.
  destruct Hin as [<-|[]]. simpl. congruence.
Qed.

Definition sy_dg0 : chars -> list N := fun _ => [0; 0; 0; 0]%N.

Definition sy_body0 : obj :=
  [("apiVersion", JStr "v1"); ("kind", JStr "KopfExample");
   ("metadata", JObj [("name", JStr "x"); ("resourceVersion", JStr "1");
                      ("annotations", JObj [("other.example.com/kopf-managed", JStr "yes");
                                            ("other.example.com/last-handled-configuration", JStr "{}");
                                            ("mine", JStr "m")])]);
   ("spec", JObj [("field", JNum 1)]);
   ("status", JObj [("kopf", JObj [])])].

Example sy_essence0 :
  essence sy_dg0 (DAnn "kopf.dev" "last-handled-configuration" true [])
          (smart "kopf.dev" true false "touch-dummy" ["status"; "kopf"; "progress"] ["status"; "kopf"; "dummy"])
          (JObj sy_body0) [] =
  Ok (JObj [("spec", JObj [("field", JNum 1)]);
            ("metadata", JObj [("annotations", JObj [("mine", JStr "m")])])]).
Proof. vm_compute. reflexivity. Qed.

Print Assumptions system_status_invisible.
Print Assumptions system_status_del_invisible.
Print Assumptions system_apiversion_invisible.
Print Assumptions system_apiversion_del_invisible.
Print Assumptions system_metadata_invisible.
Print Assumptions system_metadata_del_invisible.
Print Assumptions marked_annotation_absent.
Print Assumptions marker_marks.
Print Assumptions known_prefix_marks.
Print Assumptions payload_visible.
Print Assumptions payload_change_visible.
