(* C19 — lemmas about Model/Watch.v: the client LTS of infinite_watch and the closed system
   client x server.  All statements are for every label list (induction), every retry budget. *)
From Coq Require Import ZArith List String Bool Lia.
From KV Require Import Model.Watch.
Import ListNotations.
Open Scope Z_scope.

(* ---------- small facts ---------- *)

Lemma orv_eqb_eq : forall a b, orv_eqb a b = true <-> a = b.
Proof.
  intros [x|] [y|]; cbn; try (split; congruence).
  rewrite Z.eqb_eq. split; congruence.
Qed.

Lemma etype_eqb_eq : forall a b, etype_eqb a b = true <-> a = b.
Proof. intros [] []; cbn; split; congruence. Qed.

Ltac crack :=
  repeat match goal with
  | H : Some _ = Some _ |- _ => injection H as <-
  | H : None = Some _ |- _ => discriminate H
  | H : context [match ?x with _ => _ end] |- _ => destruct x eqn:?; cbn in H
  | H : context [if ?x then _ else _] |- _ => destruct x eqn:?; cbn in H
  end.

(* crun over an appended trace *)
Lemma crun_app : forall n tr1 tr2 s, crun n s (tr1 ++ tr2) =
  match crun n s tr1 with Some s1 => crun n s1 tr2 | None => None end.
Proof.
  induction tr1 as [| l tr1 IH]; intros tr2 s; cbn; [reflexivity |].
  destruct (cstep n s l); [apply IH | reflexivity].
Qed.

(* a generic invariant principle *)
Lemma crun_inv : forall n (P : cstate -> Prop),
  (forall s l s', P s -> cstep n s l = Some s' -> P s') ->
  forall tr s s', P s -> crun n s tr = Some s' -> P s'.
Proof.
  intros n P Hstep; induction tr as [| l tr IH]; intros s s' HP Hr; cbn in Hr.
  - injection Hr as <-; assumption.
  - destruct (cstep n s l) eqn:E; [| discriminate]. eapply IH; [| eassumption]. eapply Hstep; eassumption.
Qed.

(* ==========================================================================================
   resumed from the latest version seen
   ========================================================================================== *)

(* the property's own reading of "the latest version seen": the version of the last listing,
   replaced by that of every later ADDED/MODIFIED/DELETED/BOOKMARK line which carries one *)
Definition lat_step (v : option Z) (l : label) : option Z :=
  match l with
  | LListOk orv _ => orv
  | LLine (LnEv _ orv _) => adv v orv
  | _ => v
  end.

Definition latest_from (v : option Z) (tr : list label) : option Z := fold_left lat_step tr v.
Definition latest (tr : list label) : option Z := latest_from None tr.

Definition pos_is (s : cstate) (v : option Z) : Prop :=
  forall rv, position (ph s) = Some rv -> rv = v.

Lemma pos_step : forall n s l s' v, pos_is s v -> cstep n s l = Some s' -> pos_is s' (lat_step v l).
Proof.
  intros n [p pa st] l s' v HP Hs. unfold pos_is in *. cbn [ph] in HP.
  unfold cstep in Hs; cbn [ph paused stopper] in Hs.
  destruct l; destruct p; cbn in Hs; crack; cbn [ph position lat_step]; intros rv0 Hrv;
    try discriminate; try (injection Hrv as <-); try (apply HP; reflexivity);
    try reflexivity.
  all: try (destruct f; cbn in Hrv; try discriminate; injection Hrv as <-; apply HP; reflexivity).
  all: try (rewrite (HP _ eq_refl); reflexivity).
  all: try (destruct st; cbn in Hrv; injection Hrv as <-; apply HP; reflexivity).
Qed.

Lemma pos_run : forall n tr s s' v, pos_is s v -> crun n s tr = Some s' -> pos_is s' (latest_from v tr).
Proof.
  induction tr as [| l tr IH]; intros s s' v HP Hr; cbn in Hr.
  - injection Hr as <-; exact HP.
  - destruct (cstep n s l) eqn:E; [| discriminate]. cbn. eapply IH; [| eassumption]. eapply pos_step; eassumption.
Qed.

Lemma watch_since_is_position : forall n s since s', cstep n s (LReqWatch since) = Some s' ->
  position (ph s) = Some since.
Proof.
  intros n [p pa st] since s' Hs. unfold cstep in Hs; cbn [ph paused stopper] in Hs.
  destruct p; cbn in Hs; crack; cbn; f_equal; symmetry; apply orv_eqb_eq; assumption.
Qed.

Lemma resume_from_latest : forall n pa tr s since s',
  crun n (cinit pa) tr = Some s -> cstep n s (LReqWatch since) = Some s' -> since = latest tr.
Proof.
  intros n pa tr s since s' Hr Hs.
  assert (HP : pos_is s (latest tr)).
  { eapply pos_run; [| eassumption]. intros rv H; cbn in H; discriminate. }
  apply HP. eapply watch_since_is_position; eassumption.
Qed.

(* ==========================================================================================
   an unknown ERROR is never silently skipped
   ========================================================================================== *)

Definition env_or_raise (l : label) : Prop := l = LPause \/ l = LResume \/ l = LRaised.

Definition failing (s : cstate) : Prop := ph s = PFail \/ ph s = PDead.

Lemma failing_step : forall n s l s', failing s -> cstep n s l = Some s' -> env_or_raise l /\ failing s'.
Proof.
  intros n [p pa st] l s' [H | H] Hs; cbn in H; subst p; unfold cstep in Hs; cbn in Hs;
    destruct l; cbn in Hs; try discriminate; crack; unfold env_or_raise, failing; cbn; tauto.
Qed.

Lemma failing_run : forall n tr s s', failing s -> crun n s tr = Some s' -> Forall env_or_raise tr /\ failing s'.
Proof.
  induction tr as [| l tr IH]; intros s s' HF Hr; cbn in Hr.
  - injection Hr as <-. split; [constructor | assumption].
  - destruct (cstep n s l) eqn:E; [| discriminate].
    destruct (failing_step _ _ _ _ HF E) as [Hl HF']. destruct (IH _ _ HF' Hr) as [Ht HF''].
    split; [constructor; assumption | assumption].
Qed.

Lemma dead_is_silent : forall n s l s', ph s = PDead -> cstep n s l = Some s' -> (l = LPause \/ l = LResume) /\ ph s' = PDead.
Proof.
  intros n [p pa st] l s' H Hs; cbn in H; subst p; unfold cstep in Hs; cbn in Hs;
    destruct l; cbn in Hs; try discriminate; crack; cbn; tauto.
Qed.

Lemma error_line_fails : forall n s code s', code <> 410 -> cstep n s (LLine (LnErr code)) = Some s' -> ph s' = PFail.
Proof.
  intros n [p pa st] code s' Hc Hs. unfold cstep in Hs; cbn in Hs.
  destruct p; cbn in Hs; try discriminate. crack; cbn; try reflexivity.
  apply Z.eqb_eq in Heqb0. contradiction.
Qed.

Lemma unknown_error_raises : forall n s code s1 tr s',
  code <> 410 -> cstep n s (LLine (LnErr code)) = Some s1 -> crun n s1 tr = Some s' ->
  Forall env_or_raise tr /\ failing s'.
Proof.
  intros n s code s1 tr s' Hc Hs Hr. eapply failing_run; [| eassumption]. left. eapply error_line_fails; eassumption.
Qed.

(* the first thing the consumer sees after it is the exception: nothing is yielded, nothing requested *)
Lemma fail_then_only_raise : forall n s l s', ph s = PFail -> cstep n s l = Some s' ->
  l = LPause \/ l = LResume \/ (l = LRaised /\ ph s' = PDead).
Proof.
  intros n [p pa st] l s' H Hs; cbn in H; subst p; unfold cstep in Hs; cbn in Hs;
    destruct l; cbn in Hs; try discriminate; crack; cbn; tauto.
Qed.

(* ==========================================================================================
   pause: no new request while paused; a fresh listing after it
   ========================================================================================== *)

(* "the current stream, if any, is finished": its pause-waiter fired, or there is none *)
Definition finished (s : cstate) : Prop := has_waiter (ph s) = true -> stopper s = true.

Definition pause_inv (s : cstate) : Prop :=
  (paused s = true -> finished s) /\
  (forall rv y, ph s = PGot rv y -> stopper s = false) /\
  (forall k, ph s = PList k -> (0 < k)%nat) /\
  (forall rv k, ph s = PWatch rv k -> (0 < k)%nat).

Lemma pause_inv_init : forall pa, pause_inv (cinit pa).
Proof.
  intros pa; unfold pause_inv, finished; cbn. repeat split; intros; discriminate.
Qed.

Lemma pause_inv_step : forall n s l s', pause_inv s -> cstep n s l = Some s' -> pause_inv s'.
Proof.
  intros n [p pa st] l s' [H1 [H2 [H3 H4]]] Hs. unfold finished in *; cbn [ph paused stopper] in *.
  unfold cstep in Hs; cbn [ph paused stopper] in Hs.
  destruct l; destruct p; cbn in Hs; crack; unfold pause_inv, finished; cbn [ph paused stopper mk];
    (split; [| split; [| split]]); intros; try discriminate; try lia;
    try (apply H1; [assumption | reflexivity]);
    try (match goal with H : PGot _ _ = PGot _ _ |- _ => clear H end);
    try reflexivity; try (eapply H2; reflexivity); try (eapply H3; reflexivity); try (eapply H4; reflexivity).
  all: try (destruct st; cbn; try reflexivity; cbn in *; try discriminate).
  all: try (destruct f; cbn in *; try discriminate; try (apply H1; [assumption | reflexivity])).
  all: try (match goal with H : _ = PList _ |- _ => injection H as <-; lia end).
  all: try (match goal with H : _ = PWatch _ _ |- _ => injection H as <- <-; lia end).
  all: try (match goal with H : true = true -> _ = true |- _ => specialize (H eq_refl); cbn in H; try discriminate end).
  all: try (specialize (H1 eq_refl eq_refl); discriminate).
  all: try (apply H1; auto).
  all: try (eapply H3; eassumption).
  all: try (eapply H4; eassumption).
  all: try (subst pa; discriminate).
Qed.

Lemma pause_inv_run : forall n pa tr s, crun n (cinit pa) tr = Some s -> pause_inv s.
Proof.
  intros n pa tr s H. eapply (crun_inv n pause_inv); [apply pause_inv_step | apply pause_inv_init | eassumption].
Qed.

(* requests accepted while paused are re-sent attempts of api.request's retry loop *)
Lemma paused_only_retries : forall n pa tr s l s',
  crun n (cinit pa) tr = Some s -> paused s = true -> cstep n s l = Some s' ->
  (l = LReqList -> exists k, ph s = PList (S k)) /\
  (forall since, l = LReqWatch since -> exists rv k, ph s = PWatch rv (S k)).
Proof.
  intros n pa tr [p pau st] l s' Hr Hp Hs. apply pause_inv_run in Hr. destruct Hr as [H1 [_ [H3 H4]]].
  cbn in Hp; subst pau. unfold finished in H1; cbn [ph paused stopper] in *. specialize (H1 eq_refl).
  unfold cstep in Hs; cbn [ph paused stopper] in Hs. split.
  - intros ->. destruct p; cbn in Hs; try discriminate.
    + destruct k; [specialize (H3 0%nat eq_refl); lia | eexists; reflexivity].
    + rewrite andb_false_r in Hs. discriminate.
  - intros since ->. destruct p; cbn in Hs; try discriminate.
    + specialize (H1 eq_refl). rewrite H1 in Hs. discriminate.
    + destruct k; [specialize (H4 rv 0%nat eq_refl); lia | eexists; eexists; reflexivity].
Qed.

(* with no retry budget nothing at all is requested while paused *)
Lemma paused_no_requests_no_retries : forall pa tr s l s',
  crun 0 (cinit pa) tr = Some s -> paused s = true -> cstep 0 s l = Some s' ->
  l <> LReqList /\ forall since, l <> LReqWatch since.
Proof.
  intros pa tr s l s' Hr Hp Hs.
  assert (NoRetry : forall tr s, crun 0 (cinit pa) tr = Some s ->
            (forall k, ph s <> PList k) /\ (forall rv k, ph s <> PWatch rv k)).
  { intros tr0 s0 H0. eapply (crun_inv 0 (fun s => (forall k, ph s <> PList k) /\ (forall rv k, ph s <> PWatch rv k))); [| | exact H0].
    - intros [p pa0 st] l0 s0' [A B] Hs0. unfold cstep in Hs0; cbn [ph paused stopper] in Hs0.
      destruct l0; destruct p; cbn in Hs0; crack; cbn; split; intros; try discriminate;
        try (apply A); try (apply B).
      all: try (rewrite andb_false_r in *; discriminate).
      all: try (destruct f; cbn; discriminate).
      all: try (destruct st; discriminate).
    - cbn. split; intros; discriminate. }
  destruct (NoRetry _ _ Hr) as [A B].
  destruct (paused_only_retries _ _ _ _ _ _ Hr Hp Hs) as [C D]. split.
  - intros ->. destruct (C eq_refl) as [k Hk]. apply (A _ Hk).
  - intros since ->. destruct (D since eq_refl) as [rv [k Hk]]. apply (B _ _ Hk).
Qed.

(* the full statement is false of the faithful model: a failed LIST is re-sent while paused *)
Lemma paused_request_witness :
  exists s, crun 1 (cinit false) [LReqList; LFault FConn; LPause] = Some s /\ paused s = true /\
            cstep 1 s LReqList <> None.
Proof. eexists; split; [vm_compute; reflexivity | split; [reflexivity | vm_compute; discriminate]]. Qed.

(* after a pause nothing of the old stream is consumed and no new watch is started before a LIST *)
Lemma finished_step : forall n s l s', finished s -> cstep n s l = Some s' -> l <> LReqList -> finished s'.
Proof.
  intros n [p pa st] l s' HF Hs Hl. unfold finished in *; cbn [ph paused stopper] in *.
  unfold cstep in Hs; cbn [ph paused stopper] in Hs.
  destruct l; try congruence; destruct p; cbn in Hs; crack; cbn [ph stopper mk has_waiter]; intros;
    try discriminate; try (apply HF; reflexivity); try (rewrite (HF eq_refl); reflexivity).
  all: try (specialize (HF eq_refl); congruence).
  all: try (destruct f; cbn in *; try discriminate; apply HF; reflexivity).
Qed.

Lemma finished_run : forall n tr s s', finished s -> crun n s tr = Some s' -> ~ In LReqList tr -> finished s'.
Proof.
  induction tr as [| l tr IH]; intros s s' HF Hr Hn; cbn in Hr.
  - injection Hr as <-; assumption.
  - destruct (cstep n s l) eqn:E; [| discriminate].
    eapply IH; [| eassumption |]; [eapply finished_step; try eassumption |]; intros H; apply Hn; [left | right]; auto.
Qed.

Lemma finished_blocks : forall n s, finished s ->
  (forall ln, cstep n s (LLine ln) = None) /\
  (forall since s', cstep n s (LReqWatch since) = Some s' -> exists rv k, ph s = PWatch rv k) /\
  (forall s', cstep n s LWatchOk = Some s' -> exists rv, ph s' = PLoop rv).
Proof.
  intros n [p pa st] HF. unfold finished in HF; cbn [ph stopper] in HF. unfold cstep; cbn [ph paused stopper].
  split; [| split].
  - intros ln. destruct p; cbn; try reflexivity. rewrite (HF eq_refl). reflexivity.
  - intros since s' Hs. destruct p; cbn in Hs; try discriminate.
    + rewrite (HF eq_refl) in Hs. discriminate.
    + eexists; eexists; reflexivity.
  - intros s' Hs. destruct p; cbn in Hs; try discriminate. rewrite (HF eq_refl) in Hs.
    injection Hs as <-. eexists; reflexivity.
Qed.

Lemma fresh_list_on_resume : forall n pa tr1 s1 tr2 s2,
  crun n (cinit pa) tr1 = Some s1 -> paused s1 = true ->
  crun n s1 (LResume :: tr2) = Some s2 -> ~ In LReqList tr2 ->
  (forall ln, cstep n s2 (LLine ln) = None) /\
  (forall since s', cstep n s2 (LReqWatch since) = Some s' -> exists rv k, ph s2 = PWatch rv k) /\
  (forall s', cstep n s2 LWatchOk = Some s' -> exists rv, ph s' = PLoop rv).
Proof.
  intros n pa tr1 s1 tr2 s2 H1 Hp H2 Hn. apply finished_blocks.
  apply pause_inv_run in H1. destruct H1 as [HF _]. specialize (HF Hp).
  eapply finished_run; [exact HF | exact H2 |]. intros [H | H]; [discriminate | contradiction].
Qed.

(* and the first LIST after it starts a brand-new stream: the request goes out un-paused *)
Lemma list_request_unpaused_or_retry : forall n pa tr s s',
  crun n (cinit pa) tr = Some s -> cstep n s LReqList = Some s' ->
  (paused s = false /\ ph s' = PListWait 0 /\ stopper s' = false) \/ (exists k, ph s = PList (S k)).
Proof.
  intros n pa tr [p pau st] s' Hr Hs. apply pause_inv_run in Hr. destruct Hr as [_ [_ [H3 _]]].
  unfold cstep in Hs; cbn [ph paused stopper] in *. destruct p; cbn in Hs; try discriminate; crack; cbn.
  - left; auto.
  - right. destruct k; [specialize (H3 0%nat eq_refl); lia | eexists; reflexivity].
  - left. apply andb_true_iff in Heqb. destruct Heqb as [_ Hb]. apply negb_true_iff in Hb. auto.
Qed.

(* ---------- HTTP-level 410 on the watch request (observation O3) vs the in-stream 410 ---------- *)

Lemma http_410_corner : forall n rv k pa st,
  cstep n (mk (PWatchWait rv k) pa st) (LFault F4xx) = Some (mk PFail pa st) /\
  cstep n (mk (POpen rv) pa false) (LLine (LnErr 410)) = Some (mk PIdle pa false).
Proof. intros; split; reflexivity. Qed.

(* unknown event types are skipped and do not move the version *)
Lemma unknown_type_skipped : forall n rv pa,
  cstep n (mk (POpen rv) pa false) (LLine LnUnknown) = Some (mk (POpen rv) pa false).
Proof. reflexivity. Qed.

(* a line that was accepted is handed to the consumer before anything else happens *)
Lemma got_then_yield : forall n s l s' rv y, ph s = PGot rv y -> cstep n s l = Some s' ->
  l = LYield y /\ ph s' = POpen rv.
Proof.
  intros n [p pa st] l s' rv y H Hs; cbn in H; subst p. unfold cstep in Hs; cbn in Hs.
  destruct l; cbn in Hs; try discriminate; try (destruct e; discriminate).
  destruct y0; try discriminate; destruct y; try discriminate.
  crack. apply andb_true_iff in Heqb. destruct Heqb as [Hab Hc]. apply andb_true_iff in Hab. destruct Hab as [Ha Hb].
  apply etype_eqb_eq in Ha. apply String.eqb_eq in Hb. apply orv_eqb_eq in Hc. subst. split; reflexivity.
Qed.

(* ==========================================================================================
   iter_jsonlines: the lines do not depend on how the bytes are chunked
   ========================================================================================== *)

Definition nonl (l : list Z) : Prop := forall b, In b l -> b <> 10.

Lemma scan_app : forall a b acc,
  scan (a ++ b) acc = let (ls, r) := scan a acc in let (ls', r') := scan b r in (ls ++ ls', r').
Proof.
  induction a as [| x a IH]; intros b acc; cbn.
  - destruct (scan b acc); reflexivity.
  - destruct (Z.eqb x 10).
    + rewrite IH. destruct (scan a []) as [ls r]. destruct (scan b r) as [ls' r'].
      destruct acc; reflexivity.
    + apply IH.
Qed.

Lemma scan_nonl : forall l acc, nonl l -> scan l acc = ([], acc ++ l).
Proof.
  induction l as [| x l IH]; intros acc H; cbn.
  - rewrite app_nil_r; reflexivity.
  - assert (E : Z.eqb x 10 = false) by (apply Z.eqb_neq, H; left; reflexivity). rewrite E.
    rewrite IH; [rewrite <- app_assoc; reflexivity |]. intros b Hb; apply H; right; assumption.
Qed.

Lemma scan_rest_nonl : forall l acc, nonl acc -> nonl (snd (scan l acc)).
Proof.
  induction l as [| x l IH]; intros acc H; cbn; [assumption |].
  destruct (Z.eqb x 10) eqn:E.
  - specialize (IH [] (fun b (Hb : In b []) => match Hb with end)). destruct (scan l []) as [ls r]. exact IH.
  - apply IH. intros b Hb. apply in_app_or in Hb. destruct Hb as [Hb | [<- | []]]; [apply H; assumption |].
    apply Z.eqb_neq; assumption.
Qed.

Lemma feed_concat : forall chunks buffer, nonl buffer ->
  feed chunks buffer = let (ls, r) := scan (buffer ++ List.concat chunks) [] in ls ++ match r with [] => [] | _ => [r] end.
Proof.
  induction chunks as [| d rest IH]; intros buffer H; cbn.
  - rewrite app_nil_r. rewrite (scan_nonl _ _ H). reflexivity.
  - rewrite app_assoc. rewrite (scan_app (buffer ++ d) (List.concat rest) []).
    pose proof (scan_rest_nonl (buffer ++ d) [] (fun b (Hb : In b []) => match Hb with end)) as Hr.
    destruct (scan (buffer ++ d) []) as [ls r]. cbn in Hr.
    rewrite (IH r Hr).
    rewrite (scan_app r (List.concat rest) []). rewrite (scan_nonl r [] Hr). cbn [app].
    destruct (scan (List.concat rest) r) as [ls' r']. rewrite app_assoc. reflexivity.
Qed.

Lemma jsonlines_chunking : forall chunks, jsonlines chunks = jsonlines [List.concat chunks].
Proof.
  intros chunks. unfold jsonlines.
  rewrite (feed_concat chunks [] (fun b (Hb : In b []) => match Hb with end)).
  rewrite (feed_concat [List.concat chunks] [] (fun b (Hb : In b []) => match Hb with end)).
  cbn [List.concat]. rewrite app_nil_r. reflexivity.
Qed.

(* the lines are exactly the non-empty newline-separated pieces: no line is lost, split or merged *)
Lemma jsonlines_of_lines : forall ls, (forall l, In l ls -> nonl l /\ l <> []) ->
  jsonlines [List.concat (map (fun l => l ++ [10]) ls)] = ls.
Proof.
  intros ls H. unfold jsonlines. cbn [feed app].
  assert (G : forall ls, (forall l, In l ls -> nonl l /\ l <> []) ->
              scan (List.concat (map (fun l => l ++ [10]) ls)) [] = (ls, [])).
  { clear. induction ls as [| l ls IH]; intros H; cbn; [reflexivity |].
    destruct (H l (or_introl eq_refl)) as [Hn Hne].
    rewrite <- app_assoc. rewrite scan_app. rewrite (scan_nonl l [] Hn). cbn [app].
    change ([10] ++ List.concat (map (fun l0 => l0 ++ [10]) ls)) with (10 :: List.concat (map (fun l0 => l0 ++ [10]) ls)).
    cbn [scan]. rewrite Z.eqb_refl. rewrite IH; [| intros l0 Hl0; apply H; right; assumption].
    destruct l; [contradiction | reflexivity]. }
  rewrite (G ls H). cbn. rewrite app_nil_r. reflexivity.
Qed.
