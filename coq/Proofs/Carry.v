(* C08 — lemmas about Model/Carry.v: carried transformations are neither lost nor duplicated. *)
From Coq Require Import List Arith Bool Lia.
From KV Require Import Model.Carry.
Import ListNotations.

Lemma cy_known_in s x : In x (cy_known s) <-> In x (cy_mem s) \/ In x (cy_applied s) \/ In x (cy_sat s).
Proof. unfold cy_known. rewrite !in_app_iff. tauto. Qed.

(* ---------- never lost ---------- *)
Lemma cy_step_known s l s' :
  cy_step s l = Some s' -> cy_keeps l = true -> forall x, In x (cy_known s) -> In x (cy_known s').
Proof.
  destruct l as [new o]. unfold cy_step. intros H Hk x Hx. apply cy_known_in in Hx. apply cy_known_in.
  destruct o as [| |landed|landed| | |]; try discriminate Hk.
  - injection H as <-. simpl. rewrite !in_app_iff. tauto.
  - injection H as <-. simpl. rewrite !in_app_iff. tauto.
  - injection H as <-. simpl. destruct landed; rewrite !in_app_iff; tauto.
  - injection H as <-. simpl. destruct landed; rewrite ?in_app_iff; tauto.
  - destruct new; [injection H as <-; exact Hx | discriminate].
Qed.

Theorem cy_never_lost tr : forall s s',
  cy_run s tr = Some s' -> forallb cy_keeps tr = true ->
  forall x, In x (cy_known s) -> In x (cy_known s').
Proof.
  induction tr as [|l tr IH]; intros s s' H Hk x Hx; simpl in *.
  - injection H as <-. exact Hx.
  - apply andb_true_iff in Hk. destruct Hk as [Hk1 Hk2].
    destruct (cy_step s l) as [s1|] eqn:E; [|discriminate].
    eapply IH; [exact H | exact Hk2 | eapply cy_step_known; eassumption].
Qed.

Lemma cy_run_app tr1 : forall tr2 s, cy_run s (tr1 ++ tr2) =
  match cy_run s tr1 with Some s1 => cy_run s1 tr2 | None => None end.
Proof.
  induction tr1 as [|l tr1 IH]; intros tr2 s; simpl; [reflexivity|].
  destruct (cy_step s l); [apply IH | reflexivity].
Qed.

(* what a conflict (422) puts into the memory is, after ANY further cycles that keep the object, still carried,
   or was applied, or was found satisfied *)
Theorem cy_carried_never_lost tr1 new landed tr2 s0 s' :
  cy_run s0 (tr1 ++ Cyc new (OConflict landed) :: tr2) = Some s' ->
  forallb cy_keeps tr2 = true ->
  forall x, In x new -> In x (cy_mem s') \/ In x (cy_applied s') \/ In x (cy_sat s').
Proof.
  intros H Hk x Hx. rewrite cy_run_app in H. destruct (cy_run s0 tr1) as [s1|]; [|discriminate].
  simpl in H. apply cy_known_in. eapply cy_never_lost; [exact H | exact Hk|].
  apply cy_known_in. left. simpl. apply in_or_app. right. exact Hx.
Qed.

(* ---------- progress ---------- *)
Theorem cy_applied_delivers s new :
  exists s', cy_step s (Cyc new OApplied) = Some s' /\ cy_mem s' = [] /\
             (forall x, In x (cy_mem s) \/ In x new -> In x (cy_applied s')) /\ cy_sat s' = cy_sat s.
Proof.
  eexists. split; [reflexivity|]. simpl. split; [reflexivity|]. split; [|reflexivity].
  intros x Hx. rewrite !in_app_iff. tauto.
Qed.

(* ---------- not duplicated ---------- *)
Lemma cy_nodup_spec l : cy_nodup l = true -> NoDup l.
Proof.
  induction l as [|x l IH]; simpl; intros H; [constructor|].
  apply andb_true_iff in H. destruct H as [H1 H2]. constructor; [|apply IH; exact H2].
  intros Hin. apply negb_true_iff in H1. assert (existsb (Nat.eqb x) l = true); [|congruence].
  apply existsb_exists. exists x. split; [exact Hin | apply Nat.eqb_refl].
Qed.

Lemma cy_disjoint_spec a b : cy_disjoint a b = true -> forall x, In x a -> ~ In x b.
Proof.
  unfold cy_disjoint. intros H x Ha Hb. rewrite forallb_forall in H. specialize (H x Ha).
  apply negb_true_iff in H. assert (existsb (Nat.eqb x) b = true); [|congruence].
  apply existsb_exists. exists x. split; [exact Hb | apply Nat.eqb_refl].
Qed.

Definition cy_once (l : list nat) : Prop := forall x, count_occ Nat.eq_dec l x <= 1.
Lemma cy_once_nodup l : cy_once l <-> NoDup l.
Proof. unfold cy_once. symmetry. apply NoDup_count_occ. Qed.

Lemma cy_step_once s l s' :
  cy_fresh s l = true -> cy_clean l = true -> cy_step s l = Some s' -> cy_once (cy_known s) -> cy_once (cy_known s').
Proof.
  destruct l as [new o]. unfold cy_fresh, cy_new. intros Hf Hc H Ho x.
  apply andb_true_iff in Hf. destruct Hf as [Hn Hd].
  assert (Hx : count_occ Nat.eq_dec (cy_known s) x + count_occ Nat.eq_dec new x <= 1).
  { pose proof (proj2 (cy_once_nodup new) (cy_nodup_spec _ Hn) x) as H1. specialize (Ho x).
    destruct (in_dec Nat.eq_dec x new) as [Hi|Hi].
    - pose proof (cy_disjoint_spec _ _ Hd x Hi) as Hnk.
      rewrite (proj1 (count_occ_not_In Nat.eq_dec (cy_known s) x) Hnk). lia.
    - rewrite (proj1 (count_occ_not_In Nat.eq_dec new x) Hi). lia. }
  unfold cy_known in *. unfold cy_step in H.
  destruct o as [| |landed|landed| | |]; try (destruct landed; try discriminate Hc).
  all: try (injection H as <-; simpl; rewrite ?count_occ_app in *; simpl; lia).
  destruct new; [injection H as <-; rewrite ?count_occ_app in *; simpl in *; lia | discriminate].
Qed.

(* with fresh function identities and no batch accepted-and-then-reported-failed: every identity is, at any time,
   at most once in (memory ++ applications ++ satisfied): a carried fn leaves the memory exactly when it is
   applied (or found satisfied), and is applied at most once *)
Theorem cy_not_duplicated tr : forall s s',
  cy_run_fresh s tr = Some s' -> forallb cy_clean tr = true -> NoDup (cy_known s) -> NoDup (cy_known s').
Proof.
  induction tr as [|l tr IH]; intros s s' H Hc Hn; simpl in *.
  - injection H as <-. exact Hn.
  - apply andb_true_iff in Hc. destruct Hc as [Hc1 Hc2].
    destruct (cy_fresh s l) eqn:Ef; [|discriminate].
    destruct (cy_step s l) as [s1|] eqn:E; [|discriminate].
    eapply IH; [exact H | exact Hc2|]. apply cy_once_nodup. eapply cy_step_once; try eassumption. apply cy_once_nodup. exact Hn.
Qed.

Lemma cy_run_fresh_run tr : forall s s', cy_run_fresh s tr = Some s' -> cy_run s tr = Some s'.
Proof.
  induction tr as [|l tr IH]; intros s s' H; simpl in *; [exact H|].
  destruct (cy_fresh s l); [|discriminate]. destruct (cy_step s l); [apply IH; exact H | discriminate].
Qed.

Lemma cy_run_fresh_app tr1 : forall tr2 s, cy_run_fresh s (tr1 ++ tr2) =
  match cy_run_fresh s tr1 with Some s1 => cy_run_fresh s1 tr2 | None => None end.
Proof.
  induction tr1 as [|l tr1 IH]; intros tr2 s; simpl; [reflexivity|].
  destruct (cy_fresh s l); [|reflexivity]. destruct (cy_step s l); [apply IH | reflexivity].
Qed.

(* exactly once: what a 422 made the memory carry is, after any further cycles (object kept, no batch accepted and
   reported failed), in exactly one place — still carried, or applied once, or found satisfied — and once *)
Theorem cy_exactly_once tr1 new tr2 s' :
  cy_run_fresh cy_init (tr1 ++ Cyc new (OConflict false) :: tr2) = Some s' ->
  forallb cy_clean tr1 = true -> forallb cy_clean tr2 = true -> forallb cy_keeps tr2 = true ->
  forall x, In x new -> count_occ Nat.eq_dec (cy_mem s' ++ cy_applied s' ++ cy_sat s') x = 1.
Proof.
  intros H Hc1 Hc2 Hk x Hx.
  assert (Hnd : NoDup (cy_known s')).
  { eapply cy_not_duplicated; [exact H | | constructor].
    rewrite forallb_app. simpl. rewrite Hc1, Hc2. reflexivity. }
  assert (Hin : In x (cy_known s')).
  { apply cy_known_in. eapply cy_carried_never_lost; [apply cy_run_fresh_run; exact H | exact Hk | exact Hx]. }
  pose proof (proj1 (NoDup_count_occ Nat.eq_dec _) Hnd x) as Hle.
  pose proof (proj1 (count_occ_In Nat.eq_dec _ x) Hin) as Hge. unfold cy_known in *. lia.
Qed.

(* ---------- what the faithful model refutes ---------- *)
(* "applied at most once" is false when a batch is accepted by the server and the call still fails (the /status batch
   or the response is lost afterwards): the memory keeps the fns and the next cycle applies them again *)
Theorem cy_not_duplicated_refuted :
  exists tr s', cy_run_fresh cy_init tr = Some s' /\ forallb cy_keeps tr = true /\
                count_occ Nat.eq_dec (cy_applied s') 1 = 2.
Proof.
  exists [Cyc [1] (OConflict false); Cyc [] (ORaised true); Cyc [] OApplied]. eexists. repeat split.
Qed.

(* ---------- examples ---------- *)
(* 422, then a cycle that dies of an exception, then an undisturbed one: delivered, once, memory empty *)
Example cy_ex_conflict_raised_applied :
  cy_run_fresh cy_init [Cyc [7] (OConflict false); Cyc [] (ORaised false); Cyc [] OApplied] = Some (mkCy [] [7] []).
Proof. reflexivity. Qed.

(* 422, throttled (skipped) cycles, then delivered *)
Example cy_ex_conflict_skipped_applied :
  cy_run_fresh cy_init [Cyc [7] (OConflict false); Cyc [] (ORaised false); Cyc [] OSkipped; Cyc [] OSkipped; Cyc [8] OApplied]
  = Some (mkCy [] [7; 8] []).
Proof. reflexivity. Qed.

(* a fn appended in a cycle that dies of an exception never enters the memory (observation; a 5xx is outside the
   quantifier of C08): it is delivered only if its handler appends it again *)
Example cy_ex_new_fn_dropped_by_raise :
  cy_run_fresh cy_init [Cyc [7] (ORaised false); Cyc [] OApplied] = Some (mkCy [] [] []).
Proof. reflexivity. Qed.

(* the hypotheses of the theorems are satisfiable together *)
Example cy_ex_hypotheses :
  let tr2 := [Cyc [2] (ORaised false); Cyc [] OSkipped; Cyc [3] (OConflict false); Cyc [] OApplied; Cyc [4] ONoops] in
  forallb cy_clean tr2 = true /\ forallb cy_keeps tr2 = true /\
  cy_run_fresh cy_init ([Cyc [0] OApplied] ++ Cyc [1] (OConflict false) :: tr2) = Some (mkCy [] [0; 1; 3] [4]).
Proof. repeat split. Qed.
