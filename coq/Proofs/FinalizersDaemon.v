(* C06 — proofs about Model/FinalizersDaemon.v: the staged stop of a daemon and the life-cycle LTS with a clock. *)
From Coq Require Import ZArith List String Bool Ascii Arith Lia.
From KV Require Import Base.Json Base.Dicts Model.Finalizers Model.FinalizersDaemon Proofs.Finalizers Proofs.FinalizersLts.
Import ListNotations.
Open Scope string_scope.
Open Scope list_scope.
Open Scope Z_scope.

(* ---------- one call of stop_daemons on one daemon: for ALL configurations, times, stoppers, oracles ---------- *)
Definition fd_age (now : Z) (w : fd_stopper) : Z := now - (match w_when w with Some x => x | None => now end).

Ltac fd_cases h y w done0 i1 i2 i3 :=
  unfold fd_stop; fold (fd_age);
  destruct (d_backoff h) as [b|]; destruct (d_timeout h) as [t|]; simpl fd_or0;
  destruct (w_sig w) eqn:Esig; destruct (w_canc w) eqn:Ecanc; destruct (fd_has w y); simpl negb; cbv iota;
  destruct done0; destruct i1; simpl orb; cbv iota;
  repeat match goal with
         | |- context [?a <? ?b] => let E := fresh "E" in destruct (a <? b) eqn:E; [apply Z.ltb_lt in E | apply Z.ltb_ge in E]
         end;
  simpl.

(* abandoned only after the timeouts: a timeout is configured and the stopper is at least backoff+timeout old *)
Lemma fd_stop_abandoned : forall h y now w done0 i1 i2 i3,
  r_out (fd_stop h y now w done0 i1 i2 i3) = SAbandoned ->
  exists t, d_timeout h = Some t /\ t + fd_or0 (d_backoff h) <= fd_age now w /\
            (forall b, d_backoff h = Some b -> b <= fd_age now w) /\
            w_aband (r_w (fd_stop h y now w done0 i1 i2 i3)) = true /\
            r_delays (fd_stop h y now w done0 i1 i2 i3) = [].
Proof.
  intros h y now w done0 i1 i2 i3. unfold fd_age.
  set (age := now - match w_when w with Some x => x | None => now end).
  unfold fd_stop. fold age.
  destruct (d_backoff h) as [b|]; destruct (d_timeout h) as [t|]; simpl fd_or0;
    destruct (w_sig w) eqn:Esig; destruct (w_canc w) eqn:Ecanc; destruct (fd_has w y); simpl negb; cbv iota; destruct done0; destruct i1; simpl orb; cbv iota; simpl; rewrite ?Esig, ?Ecanc; simpl;
    repeat match goal with
           | |- context [?a <? ?b] => let E := fresh "E" in destruct (a <? b) eqn:E; [apply Z.ltb_lt in E | apply Z.ltb_ge in E]
           end; simpl;
    repeat match goal with
           | |- context [if ?c then _ else _] => destruct c; simpl
           end;
    intros H; try discriminate H;
    eexists; (split; [reflexivity|]); (split; [lia|]); (split; [intros b0 Hb; try discriminate Hb; try (injection Hb as <-); lia|]); split; reflexivity.
Qed.

(* the task is cancelled only once the backoff is over, and before backoff+timeout *)
Lemma fd_stop_cancelled : forall h y now w done0 i1 i2 i3,
  r_cancel (fd_stop h y now w done0 i1 i2 i3) = true ->
  fd_or0 (d_backoff h) <= fd_age now w \/ d_backoff h = None.
Proof.
  intros h y now w done0 i1 i2 i3. unfold fd_age.
  set (age := now - match w_when w with Some x => x | None => now end).
  unfold fd_stop. fold age.
  destruct (d_backoff h) as [b|]; [|right; reflexivity]. left. revert H. simpl fd_or0.
  destruct (d_timeout h) as [t|];
    destruct (w_sig w) eqn:Esig; destruct (w_canc w) eqn:Ecanc; destruct (fd_has w y); simpl negb; cbv iota; destruct done0; destruct i1; simpl orb; cbv iota; simpl; rewrite ?Esig, ?Ecanc; simpl;
    repeat match goal with
           | |- context [?a <? ?b] => let E := fresh "E" in destruct (a <? b) eqn:E; [apply Z.ltb_lt in E | apply Z.ltb_ge in E]
           end; simpl;
    repeat match goal with
           | |- context [if ?c then _ else _] => destruct c; simpl
           end;
    intros H; try discriminate H; lia.
Qed.

(* "still stopping" always reports a delay; "exited"/"abandoned" never do *)
Lemma fd_stop_delays : forall h y now w done0 i1 i2 i3,
  (r_out (fd_stop h y now w done0 i1 i2 i3) = SStill <-> r_delays (fd_stop h y now w done0 i1 i2 i3) <> []).
Proof.
  intros h y now w done0 i1 i2 i3. unfold fd_stop.
  destruct (d_backoff h) as [b|]; destruct (d_timeout h) as [t|]; simpl fd_or0;
    destruct (w_sig w) eqn:Esig; destruct (w_canc w) eqn:Ecanc; destruct (fd_has w y); simpl negb; cbv iota; destruct done0; destruct i1; simpl orb; cbv iota; simpl; rewrite ?Esig, ?Ecanc; simpl;
    repeat match goal with
           | |- context [if ?c then _ else _] => destruct c; simpl
           end;
    split; intros H; try discriminate H; try congruence; try reflexivity.
Qed.

(* never early: while the task keeps running (no instant exit) and its timeouts are not exhausted - or it has no
   timeout at all - every call reports a delay *)
Lemma fd_stop_holds : forall h y now w,
  (forall t, d_timeout h = Some t -> fd_age now w < t + fd_or0 (d_backoff h)) ->
  r_out (fd_stop h y now w false false false false) = SStill.
Proof.
  intros h y now w. unfold fd_age.
  set (age := now - match w_when w with Some x => x | None => now end).
  unfold fd_stop. fold age. intros Ht.
  destruct (d_backoff h) as [b|]; destruct (d_timeout h) as [t|]; simpl fd_or0 in *;
    try specialize (Ht _ eq_refl);
    destruct (w_sig w) eqn:Esig; destruct (w_canc w) eqn:Ecanc; destruct (fd_has w y); simpl negb; cbv iota; simpl; rewrite ?Esig, ?Ecanc; simpl;
    repeat match goal with
           | |- context [?a <? ?b] => let E := fresh "E" in destruct (a <? b) eqn:E; [apply Z.ltb_lt in E | apply Z.ltb_ge in E]
           end; simpl;
    repeat match goal with
           | |- context [if ?c then _ else _] => destruct c; simpl
           end; try reflexivity; lia.
Qed.

(* eventually: once backoff+timeout have elapsed since the stopper was first set, no delay is reported any more *)
Lemma fd_stop_exhausted : forall h y now w done0 i1 i2 i3 t,
  d_timeout h = Some t -> 0 <= t -> t + fd_or0 (d_backoff h) <= fd_age now w ->
  r_delays (fd_stop h y now w done0 i1 i2 i3) = [].
Proof.
  intros h y now w done0 i1 i2 i3 t Ht H0. unfold fd_age.
  set (age := now - match w_when w with Some x => x | None => now end).
  unfold fd_stop. fold age. rewrite Ht. intros Ha.
  destruct (d_backoff h) as [b|]; simpl fd_or0 in *;
    destruct (w_sig w) eqn:Esig; destruct (w_canc w) eqn:Ecanc; destruct (fd_has w y); simpl negb; cbv iota; destruct done0; destruct i1; simpl orb; cbv iota; simpl; rewrite ?Esig, ?Ecanc; simpl;
    repeat match goal with
           | |- context [?a <? ?b] => let E := fresh "E" in destruct (a <? b) eqn:E; [apply Z.ltb_lt in E | apply Z.ltb_ge in E]
           end; simpl;
    repeat match goal with
           | |- context [if ?c then _ else _] => destruct c; simpl
           end; try reflexivity; lia.
Qed.

(* `when` is set once and never moved *)
Lemma fd_stop_when : forall h y now w done0 i1 i2 i3,
  w_when (r_w (fd_stop h y now w done0 i1 i2 i3)) = Some (match w_when w with Some x => x | None => now end) \/
  (w_when (r_w (fd_stop h y now w done0 i1 i2 i3)) = w_when w /\ fd_has w y = true).
Proof.
  intros h y now w done0 i1 i2 i3. unfold fd_stop.
  destruct (d_backoff h) as [b|]; destruct (d_timeout h) as [t|]; simpl fd_or0;
    destruct (w_sig w) eqn:Esig; destruct (w_canc w) eqn:Ecanc; destruct (fd_has w y); simpl negb; cbv iota; destruct done0; destruct i1; simpl orb; cbv iota; simpl; rewrite ?Esig, ?Ecanc; simpl;
    repeat match goal with
           | |- context [if ?c then _ else _] => destruct c; simpl
           end; auto.
Qed.

(* non-vacuity of the stages: daemon with backoff 5 and timeout 10, flagged at 100 *)
Definition fd_ex_h : fd_hcfg := {| d_backoff := Some 5; d_timeout := Some 10; d_polling := 60 |}.
Definition fd_ex_w : fd_stopper := fd_set_why fd_fresh WDeleted 100.
Example fd_ex_signal : r_out (fd_stop fd_ex_h WDeleted 102 fd_ex_w false false false false) = SStill /\
                       r_delays (fd_stop fd_ex_h WDeleted 102 fd_ex_w false false false false) = [3].
Proof. split; reflexivity. Qed.
Example fd_ex_cancel : r_cancel (fd_stop fd_ex_h WDeleted 105 fd_ex_w false false false false) = true /\
                       r_delays (fd_stop fd_ex_h WDeleted 105 fd_ex_w false false false false) = [10].
Proof. split; reflexivity. Qed.
Example fd_ex_abandon : r_out (fd_stop fd_ex_h WDeleted 115 fd_ex_w false false false false) = SAbandoned.
Proof. reflexivity. Qed.
Example fd_ex_not_yet : r_out (fd_stop fd_ex_h WDeleted 114 fd_ex_w false false false false) = SStill.
Proof. reflexivity. Qed.

(* ---------- the timed LTS refines the untimed one ---------- *)
Lemma fd_step_base : forall h c s l s', fd_step h c s l = Some s' ->
  fl_run c (fb s) (fd_base_labels h c s l) = Some (fb s').
Proof.
  intros h c s l s' Hs. destruct l as [dt | b i1 i2 i3]; unfold fd_step in Hs.
  - destruct (0 <=? dt); [|discriminate]. injection Hs as <-. reflexivity.
  - destruct b; cbv beta iota in Hs; unfold fd_base_labels; cbv beta iota;
      try (destruct (fl_step c (fb s) _) as [b'|] eqn:Eb; [|discriminate]; injection Hs as <-; unfold fl_run; rewrite Eb; reflexivity).
    (* LCycle *)
    destruct (p_view (fb s)) as [v|] eqn:Ev; [|discriminate].
    destruct (fd_stop_called c (fb s) v) as [y|].
    + destruct (fl_step c (fb s) (LCycle _)) as [b'|] eqn:Eb; [|discriminate]. injection Hs as <-. unfold fl_run. rewrite Eb. reflexivity.
    + destruct (fl_step c (fb s) (LCycle k)) as [b'|] eqn:Eb; [|discriminate]. injection Hs as <-. unfold fl_run. rewrite Eb. reflexivity.
Qed.

Lemma fl_run_app : forall c a b s s1 s2, fl_run c s a = Some s1 -> fl_run c s1 b = Some s2 -> fl_run c s (a ++ b) = Some s2.
Proof.
  intros c a. induction a as [|l a IH]; intros b s s1 s2 H1 H2; simpl in *.
  - injection H1 as <-. exact H2.
  - destruct (fl_step c s l) as [s'|]; [|discriminate]. eapply IH; eauto.
Qed.

Lemma fd_base_labels_calm : forall h c s l, fd_calm l = true -> forallb fl_calm (fd_base_labels h c s l) = true.
Proof.
  intros h c s l Hc. destruct l as [dt | b i1 i2 i3]; [reflexivity|]. simpl in Hc.
  destruct b; simpl; try discriminate Hc; try reflexivity.
  destruct (p_view (fb s)) as [v|]; [|reflexivity]. destruct (fd_stop_called c (fb s) v); reflexivity.
Qed.

Lemma fd_run_base : forall h c tr s s', fd_run h c s tr = Some s' ->
  exists btr, fl_run c (fb s) btr = Some (fb s') /\ (forallb fd_calm tr = true -> forallb fl_calm btr = true).
Proof.
  intros h c tr. induction tr as [|l tr IH]; intros s s' Hr; simpl in Hr.
  - injection Hr as <-. exists []. split; reflexivity.
  - destruct (fd_step h c s l) as [s1|] eqn:Es; [|discriminate].
    destruct (IH s1 s' Hr) as [btr [H1 H2]].
    exists (fd_base_labels h c s l ++ btr). split.
    + eapply fl_run_app; [apply fd_step_base; exact Es | exact H1].
    + simpl. intros Hc. apply andb_prop in Hc. destruct Hc as [Hc1 Hc2].
      rewrite forallb_app, (fd_base_labels_calm _ _ _ _ Hc1), (H2 Hc2). reflexivity.
Qed.

(* ---------- abandoned only after the timeouts, cancelled only after the backoff: ALL timed histories ---------- *)
Definition InvT (h : fd_hcfg) (s : fd_state) : Prop :=
  (w_when (f_w s) = None -> f_w s = fd_fresh) /\
  (fl_daemon_live (p_daemon (fb s)) = true -> f_aband_at s = None) /\
  (forall w, w_when (f_w s) = Some w -> w <= f_now s) /\
  (p_daemon (fb s) = DAbandoned ->
     exists t w a, d_timeout h = Some t /\ w_when (f_w s) = Some w /\ f_aband_at s = Some a /\
                   w + t + fd_or0 (d_backoff h) <= a /\ a <= f_now s) /\
  (forall x, f_cancel_at s = Some x ->
     exists w, w_when (f_w s) = Some w /\ (w + fd_or0 (d_backoff h) <= x \/ d_backoff h = None) /\ w <= x /\ x <= f_now s).

Lemma InvT_init : forall h c fins a b t0, InvT h (fd_init c fins a b t0).
Proof. intros. unfold InvT, fd_init; simpl. repeat split; intros; try discriminate; reflexivity. Qed.

(* the daemon after a cycle of the untimed LTS *)
Lemma fl_cycle_daemon : forall c s v k,
  p_daemon (fl_cycle c s v k) = if v_alive v then fst (fl_spawning c v (p_daemon s) (p_forever s) (k_stop k)) else DIdle.
Proof.
  intros c s v k. destruct (v_alive v) eqn:Hal.
  - destruct (fl_cycle_alive c s v k Hal) as [_ [_ [C3 _]]]. exact C3.
  - unfold fl_cycle. rewrite Hal. reflexivity.
Qed.

Lemma fl_spawning_abandoned : forall c v d forever stop,
  fst (fl_spawning c v d forever stop) = DAbandoned -> d = DAbandoned \/ stop = SAbandoned.
Proof.
  intros c v d forever stop. unfold fl_spawning, fl_staged.
  destruct (v_deleting v); [|destruct (c_dmn c && v_mdmn v && negb forever)]; destruct d, stop; simpl; intros H; try discriminate H; auto.
Qed.

Lemma fl_spawning_uncalled : forall c s v k, fd_stop_called c s v = None -> v_alive v = true ->
  fst (fl_spawning c v (p_daemon s) (p_forever s) (k_stop k)) = DAbandoned -> p_daemon s = DAbandoned.
Proof.
  intros c s v k. unfold fd_stop_called, fl_spawning, fl_staged. intros Hc Hal. rewrite Hal in Hc. simpl in Hc.
  destruct (p_daemon s); simpl in *; auto;
    destruct (v_deleting v); try discriminate Hc;
    destruct (c_dmn c && v_mdmn v && negb (p_forever s)); try discriminate Hc; simpl; intros H; try discriminate H; auto.
Qed.

Lemma fl_step_daemon_other : forall c s l s', fl_step c s l = Some s' -> (forall k, l <> LCycle k) ->
  p_daemon s' = DAbandoned -> p_daemon s = DAbandoned.
Proof.
  intros c s l s' Hs Hl. destruct l; simpl in Hs.
  - destruct (v_alive (sv s) && _); [|discriminate]. injection Hs as <-. auto.
  - destruct (v_alive (sv s)); [|discriminate]. injection Hs as <-. auto.
  - destruct (v_alive (sv s) && _); [|discriminate]. injection Hs as <-. auto.
  - injection Hs as <-. auto.
  - exfalso. exact (Hl k eq_refl).
  - destruct (p_flight s); try discriminate. destruct (v_alive (sv s)); injection Hs as <-; auto.
  - destruct (p_flight s) as [| |fresh fns]; try discriminate. injection Hs as <-. unfold fl_json.
    destruct (fl_eqb _ _); [auto|]. destruct (negb _); [auto|]. destruct (_ && _)%bool; auto.
  - destruct (p_daemon s); try discriminate; injection Hs as <-; simpl; intros H; discriminate H.
  - injection Hs as <-. simpl. intros H; discriminate H.
Qed.

Lemma fd_stop_called_in_dict : forall c s v y, fd_stop_called c s v = Some y -> fd_in_dict (p_daemon s) = true /\ v_alive v = true.
Proof.
  intros c s v y. unfold fd_stop_called. destruct (v_alive v); simpl; [|intros H; discriminate H].
  destruct (fd_in_dict (p_daemon s)); simpl; [auto | intros H; discriminate H].
Qed.

Lemma fl_spawning_stays_live : forall c v d forever stop,
  fl_daemon_live (fst (fl_spawning c v d forever stop)) = true -> fd_in_dict d = true -> fl_daemon_live d = true.
Proof.
  intros c v d forever stop. unfold fl_spawning, fl_staged.
  destruct (v_deleting v); [|destruct (c_dmn c && v_mdmn v && negb forever)%bool]; destruct d, stop; simpl; intros H1 H2;
    try discriminate H1; try discriminate H2; auto.
Qed.

Lemma fd_stop_flags : forall h y now w done0 i1 i2 i3,
  (w_when w = None -> w = fd_fresh) -> w_when (r_w (fd_stop h y now w done0 i1 i2 i3)) <> None.
Proof.
  intros h y now w done0 i1 i2 i3 H0.
  assert (Hy : fd_has w y = true -> w_when w <> None).
  { intros Hh Hn. rewrite (H0 Hn) in Hh. destruct y; discriminate Hh. }
  unfold fd_stop.
  destruct (d_backoff h) as [b|]; destruct (d_timeout h) as [t|]; simpl fd_or0;
    destruct (w_sig w) eqn:Esig; destruct (w_canc w) eqn:Ecanc; destruct (fd_has w y); simpl negb; cbv iota; destruct done0; destruct i1; simpl orb; cbv iota; simpl; rewrite ?Esig, ?Ecanc; simpl;
    repeat match goal with
           | |- context [if ?c then _ else _] => destruct c; simpl
           end; try (intros H; discriminate H); try (apply Hy; reflexivity).
Qed.

Lemma fl_spawning_called_abandon : forall c s v y, fd_stop_called c s v = Some y ->
  fl_daemon_live (fst (fl_spawning c v (p_daemon s) (p_forever s) SAbandoned)) = false.
Proof.
  intros c s v y. unfold fd_stop_called, fl_spawning, fl_staged.
  destruct (v_alive v); simpl; destruct (p_daemon s); simpl; destruct (v_deleting v); simpl;
    destruct (c_dmn c && v_mdmn v && negb (p_forever s))%bool; simpl; intros H; try discriminate H; reflexivity.
Qed.

Lemma InvT_step : forall h c s l s', InvT h s -> fd_step h c s l = Some s' -> InvT h s'.
Proof.
  intros h c s l s' [T0 [T4 [T1 [T2 T3]]]] Hs. destruct l as [dt | b i1 i2 i3]; unfold fd_step in Hs.
  - (* TTick *)
    destruct (0 <=? dt) eqn:E; [|discriminate]. apply Z.leb_le in E. injection Hs as <-. unfold InvT; simpl.
    split; [exact T0|]. split; [exact T4|].
    split; [intros w Hw; specialize (T1 w Hw); lia|]. split.
    + intros Hd. destruct (T2 Hd) as [t [w [a [H1 [H2 [H3 [H4 H5]]]]]]]. exists t, w, a. repeat split; auto. lia.
    + intros x Hx. destruct (T3 x Hx) as [w [H1 [H2 [H3 H4]]]]. exists w. repeat split; auto. lia.
  - assert (Hother : forall b',
              (p_daemon b' = DAbandoned -> p_daemon (fb s) = DAbandoned) ->
              (fl_daemon_live (p_daemon b') = true -> fl_daemon_live (p_daemon (fb s)) = true) ->
              InvT h {| fb := b'; f_now := f_now s; f_w := f_w s; f_aband_at := f_aband_at s; f_cancel_at := f_cancel_at s |}).
    { intros b' Hab Hlive. unfold InvT; simpl. split; [exact T0|]. split; [intros Hl; apply T4; apply Hlive; exact Hl|].
      split; [exact T1|]. split; [|exact T3].
      intros Hd. apply T2. apply Hab. exact Hd. }
    destruct b; cbv beta iota in Hs.
    1-4,6-9: destruct (fl_step c (fb s) _) as [b'|] eqn:Eb; [|discriminate]; injection Hs as <-;
             apply Hother; [eapply fl_step_daemon_other; [exact Eb | intros k0 Hk; discriminate Hk] |].
    1-8: simpl in Eb.
    + destruct (v_alive (sv (fb s)) && _)%bool; [|discriminate]. injection Eb as <-. auto.
    + destruct (v_alive (sv (fb s))); [|discriminate]. injection Eb as <-. auto.
    + destruct (v_alive (sv (fb s)) && _)%bool; [|discriminate]. injection Eb as <-. auto.
    + injection Eb as <-. auto.
    + destruct (p_flight (fb s)); try discriminate. destruct (v_alive (sv (fb s))); injection Eb as <-; auto.
    + destruct (p_flight (fb s)) as [| |fresh fns]; try discriminate. injection Eb as <-. unfold fl_json.
      destruct (fl_eqb _ _); [auto|]. destruct (negb _); [auto|]. destruct (_ && _)%bool; auto.
    + destruct (p_daemon (fb s)); try discriminate; injection Eb as <-; simpl; intros H; discriminate H.
    + injection Eb as <-. simpl. intros H; discriminate H.
    + (* LCycle *)
    destruct (p_view (fb s)) as [v|] eqn:Ev; [|discriminate].
    destruct (fd_stop_called c (fb s) v) as [y|] eqn:Ec.
    * set (r := fd_stop h y (f_now s) (f_w s) false i1 i2 i3) in *.
      destruct (fl_step c (fb s) (LCycle (fd_with_stop k (r_out r)))) as [b'|] eqn:Eb; [|discriminate]. injection Hs as <-.
      simpl in Eb. rewrite Ev in Eb. destruct (p_flight (fb s)); try discriminate. injection Eb as <-.
      destruct (fd_stop_called_in_dict _ _ _ _ Ec) as [Hdict Hal].
      pose proof (fd_stop_flags h y (f_now s) (f_w s) false i1 i2 i3 T0) as Hnn. fold r in Hnn.
      assert (Hwq : w_when (r_w r) = Some (match w_when (f_w s) with Some x => x | None => f_now s end)).
      { destruct (fd_stop_when h y (f_now s) (f_w s) false i1 i2 i3) as [Hq | [Hq Hy]]; fold r in Hq; [exact Hq|].
        rewrite Hq. destruct (w_when (f_w s)) eqn:E0; [reflexivity|]. exfalso. apply Hnn. rewrite Hq. reflexivity. }
      unfold InvT; simpl.
      split; [intros Hn; exfalso; exact (Hnn Hn)|].
      split.
      { (* live -> no abandonment recorded *)
        rewrite fl_cycle_daemon, Hal. simpl k_stop. intros Hl.
        pose proof (fl_spawning_stays_live _ _ _ _ _ Hl Hdict) as Hl0.
        destruct (r_out r) eqn:Eout; try (apply T4; exact Hl0).
        exfalso. rewrite (fl_spawning_called_abandon _ _ _ _ Ec) in Hl. discriminate Hl. }
      split.
      { intros w' Hw'. rewrite Hwq in Hw'. injection Hw' as <-. destruct (w_when (f_w s)) as [w0|] eqn:E0; [apply T1; reflexivity | lia]. }
      split.
      -- (* abandoned *)
        rewrite fl_cycle_daemon, Hal. simpl k_stop. intros Hd.
        assert (Hkeep : p_daemon (fb s) = DAbandoned ->
                  exists t w a, d_timeout h = Some t /\ w_when (r_w r) = Some w /\
                    match r_out r with SAbandoned => fd_first (f_aband_at s) (f_now s) | _ => f_aband_at s end = Some a /\
                    w + t + fd_or0 (d_backoff h) <= a /\ a <= f_now s).
        { intros Hd0. destruct (T2 Hd0) as [t [w [a [H1 [H2 [H3 [H4 H5]]]]]]]. exists t, w, a.
          split; [exact H1|]. split; [rewrite Hwq, H2; reflexivity|]. split; [rewrite H3; destruct (r_out r); reflexivity|]. auto. }
        destruct (r_out r) eqn:Eout.
        ++ apply fl_spawning_abandoned in Hd. destruct Hd as [Hd|Hd]; [exact (Hkeep Hd) | discriminate Hd].
        ++ apply fl_spawning_abandoned in Hd. destruct Hd as [Hd|Hd]; [exact (Hkeep Hd) | discriminate Hd].
        ++ destruct (p_daemon (fb s)) eqn:Edm; try discriminate Hdict.
           ** (* DLive: newly abandoned *)
              destruct (fd_stop_abandoned h y (f_now s) (f_w s) false i1 i2 i3 Eout) as [t [Ht [Hage _]]].
              unfold fd_age in Hage. rewrite (T4 eq_refl). simpl fd_first.
              exists t, (match w_when (f_w s) with Some x => x | None => f_now s end), (f_now s).
              split; [exact Ht|]. split; [exact Hwq|]. split; [reflexivity|]. split; lia.
           ** destruct (fd_stop_abandoned h y (f_now s) (f_w s) false i1 i2 i3 Eout) as [t [Ht [Hage _]]].
              unfold fd_age in Hage. rewrite (T4 eq_refl). simpl fd_first.
              exists t, (match w_when (f_w s) with Some x => x | None => f_now s end), (f_now s).
              split; [exact Ht|]. split; [exact Hwq|]. split; [reflexivity|]. split; lia.
           ** exact (Hkeep eq_refl).
      -- (* cancelled *)
        intros x Hx. destruct (r_cancel r) eqn:Ecn.
        ++ destruct (f_cancel_at s) as [x0|] eqn:Ex0; simpl in Hx; injection Hx as <-.
           ** destruct (T3 x0 eq_refl) as [w [H1 [H2 [H3 H4]]]]. exists w. split; [rewrite Hwq, H1; reflexivity|]. auto.
           ** pose proof (fd_stop_cancelled h y (f_now s) (f_w s) false i1 i2 i3 Ecn) as Hb. unfold fd_age in Hb.
              exists (match w_when (f_w s) with Some x => x | None => f_now s end). split; [exact Hwq|].
              assert (Hle : match w_when (f_w s) with Some x => x | None => f_now s end <= f_now s).
              { destruct (w_when (f_w s)) as [w0|] eqn:E0; [apply T1; reflexivity | lia]. }
              split; [destruct Hb as [Hb|Hb]; [left; lia | right; exact Hb]|]. split; lia.
        ++ destruct (T3 x Hx) as [w [H1 [H2 [H3 H4]]]]. exists w. split; [rewrite Hwq, H1; reflexivity|]. auto.
    * destruct (fl_step c (fb s) (LCycle k)) as [b'|] eqn:Eb; [|discriminate]. injection Hs as <-.
      simpl in Eb. rewrite Ev in Eb. destruct (p_flight (fb s)); try discriminate. injection Eb as <-.
      set (spawned := (negb (fd_in_dict (p_daemon (fb s))) && fd_in_dict (p_daemon (fl_cycle c (fb s) v k)))%bool).
      unfold InvT; simpl. destruct spawned eqn:Esp.
      -- split; [reflexivity|]. split; [reflexivity|].
         split; [intros w Hw; discriminate Hw|]. split; [|intros x Hx; discriminate Hx].
         intros Hd. exfalso. rewrite fl_cycle_daemon in Hd. destruct (v_alive v) eqn:Hal.
         ++ pose proof (fl_spawning_uncalled c (fb s) v k Ec Hal Hd) as H0. unfold spawned in Esp. rewrite H0 in Esp. discriminate Esp.
         ++ discriminate Hd.
      -- split; [exact T0|]. split.
         { intros Hl. apply T4. rewrite fl_cycle_daemon in Hl. destruct (v_alive v) eqn:Hal; [|discriminate Hl].
           assert (Hd' : fd_in_dict (p_daemon (fl_cycle c (fb s) v k)) = true).
           { rewrite fl_cycle_daemon, Hal. destruct (fst (fl_spawning c v (p_daemon (fb s)) (p_forever (fb s)) (k_stop k))); simpl in *; auto; discriminate Hl. }
           unfold spawned in Esp. rewrite Hd' in Esp. rewrite andb_true_r in Esp. apply negb_false_iff in Esp.
           exact (fl_spawning_stays_live _ _ _ _ _ Hl Esp). }
         split; [exact T1|]. split; [|exact T3]. intros Hd. apply T2.
         rewrite fl_cycle_daemon in Hd. destruct (v_alive v) eqn:Hal; [|discriminate Hd].
         exact (fl_spawning_uncalled c (fb s) v k Ec Hal Hd).
Qed.

Lemma InvT_run : forall h c tr s s', InvT h s -> fd_run h c s tr = Some s' -> InvT h s'.
Proof.
  intros h c tr. induction tr as [|l tr IH]; intros s s' HT Hr; simpl in Hr.
  - injection Hr as <-. exact HT.
  - destruct (fd_step h c s l) as [s1|] eqn:Es; [|discriminate]. apply (IH s1 s'); [eapply InvT_step; eauto | exact Hr].
Qed.

(* In EVERY timed history (any configuration, filters changing, ids shared or not): whenever the daemon counts as
   abandoned, a cancellation_timeout is configured and the abandonment was declared no earlier than
   cancellation_backoff + cancellation_timeout after its stopper was first set; and its task was never cancelled
   before the backoff was over. *)
Theorem fd_abandoned_after_timeouts : forall h c fins a b t0 tr s,
  fd_run h c (fd_init c fins a b t0) tr = Some s ->
  (p_daemon (fb s) = DAbandoned ->
     exists t w ab, d_timeout h = Some t /\ w_when (f_w s) = Some w /\ f_aband_at s = Some ab /\
                    w + t + fd_or0 (d_backoff h) <= ab /\ ab <= f_now s) /\
  (forall x, f_cancel_at s = Some x ->
     exists w, w_when (f_w s) = Some w /\ (w + fd_or0 (d_backoff h) <= x \/ d_backoff h = None) /\ w <= x /\ x <= f_now s).
Proof.
  intros h c fins a b t0 tr s Hr.
  destruct (InvT_run h c tr _ s (InvT_init h c fins a b t0) Hr) as [_ [_ [_ [T2 T3]]]]. split; assumption.
Qed.

(* never released early, with the daemon clause in full: after any calm timed history with unshared ids, an accepted
   request that takes the own finalizer off finds H (if it matches) finished for the deletion, and D either without a
   task (never started, exited, or stopped and gone) or abandoned no earlier than backoff+timeout after its stop *)
Theorem fd_not_released_early : forall h c, c_shared c = false -> forall fins a b t0 tr s s' i1 i2 i3,
  forallb fd_calm tr = true -> fd_run h c (fd_init c fins a b t0) tr = Some s ->
  fd_step h c s (TBase LJson i1 i2 i3) = Some s' -> fl_releases c (fb s) (fb s') = true ->
  (c_del c = true -> v_mdel (sv (fb s)) = true -> g_done (fb s) = true) /\
  (fd_in_dict (p_daemon (fb s)) = false \/
   (p_daemon (fb s) = DAbandoned /\
    exists t w ab, d_timeout h = Some t /\ w_when (f_w s) = Some w /\ f_aband_at s = Some ab /\
                   w + t + fd_or0 (d_backoff h) <= ab /\ ab <= f_now s)).
Proof.
  intros h c Hsh fins a b t0 tr s s' i1 i2 i3 Hc Hr Hs Hrel.
  destruct (fd_run_base h c tr _ s Hr) as [btr [Hb Hcalm]]. simpl in Hb.
  assert (Hbs : fl_step c (fb s) LJson = Some (fb s')).
  { pose proof (fd_step_base h c s _ s' Hs) as Hq. unfold fd_base_labels, fl_run in Hq.
    destruct (fl_step c (fb s) LJson) as [b'|]; [exact Hq | discriminate Hq]. }
  destruct (fl_not_released_early_partial c Hsh fins a b btr (fb s) (fb s') (Hcalm Hc) Hb Hbs Hrel) as [P1 P2].
  split; [exact P1|].
  destruct (p_daemon (fb s)) eqn:Ed; simpl in P2; try discriminate P2; try (left; reflexivity).
  right. split; [reflexivity|].
  destruct (fd_abandoned_after_timeouts h c fins a b t0 tr s Hr) as [T2 _]. exact (T2 Ed).
Qed.

(* non-vacuity: a calm timed history in which the daemon ignores the flag and the cancellation, is abandoned exactly
   at backoff+timeout, and only then the finalizer goes *)
Definition fd_ex_cfg : fl_cfg := {| c_own := "kopf"; c_del := false; c_dmn := true; c_shared := false |}.
Definition fd_ex_k : fl_orc :=
  {| k_spawn_others := []; k_chg_others := []; k_low_empty := true; k_ctime := CtNone; k_timed_out := true;
     k_sdelays_others := []; k_cdelays_others := []; k_h_finishes := false; k_other_rec := false; k_extra_merge := false;
     k_stop := SStill |}.
Definition fd_cy : fd_label := TBase (LCycle fd_ex_k) false false false.
Definition fd_b (l : fl_label) : fd_label := TBase l false false false.
Definition fd_ex_trace : list fd_label :=
  [fd_b LEvent; fd_cy; fd_b LJson;                         (* daemon spawned, finalizer added *)
   fd_b LDelete; fd_b LEvent; fd_cy;                       (* t=0: flagged + signalled, delay 5 *)
   TTick 5; fd_b LEvent; fd_cy;                            (* t=5: cancelled, delay 10 *)
   TTick 9; fd_b LEvent; fd_cy;                            (* t=14: still within the timeout: held *)
   TTick 1; fd_b LEvent; fd_cy].                           (* t=15: abandoned; release decided *)

Example fd_ex_history :
  exists s s', forallb fd_calm fd_ex_trace = true /\
    fd_run fd_ex_h fd_ex_cfg (fd_init fd_ex_cfg [] false true 0) fd_ex_trace = Some s /\
    fd_step fd_ex_h fd_ex_cfg s (fd_b LJson) = Some s' /\ fl_releases fd_ex_cfg (fb s) (fb s') = true /\
    p_daemon (fb s) = DAbandoned /\ f_aband_at s = Some 15 /\ f_cancel_at s = Some 5 /\ w_when (f_w s) = Some 0.
Proof. eexists; eexists. split; [reflexivity|]. split; [vm_compute; reflexivity|]. split; [vm_compute; reflexivity|]. vm_compute. auto. Qed.

(* ... and one tick earlier the finalizer is still there and a delay of 1 is reported *)
Example fd_ex_held :
  exists s, fd_run fd_ex_h fd_ex_cfg (fd_init fd_ex_cfg [] false true 0) (firstn 12 fd_ex_trace) = Some s /\
    p_daemon (fb s) = DStopping /\ fl_mem "kopf" (v_fins (sv (fb s))) = true /\ p_flight (fb s) = FNone /\ p_carried (fb s) = [].
Proof. eexists. split; [vm_compute; reflexivity|]. vm_compute. auto. Qed.

(* ---------- released eventually, with the clock: once backoff+timeout are over the daemon stops holding ---------- *)
Lemma fd_step_generic : forall h c s l b' i1 i2 i3, (forall k, l <> LCycle k) -> fl_step c (fb s) l = Some b' ->
  fd_step h c s (TBase l i1 i2 i3) =
  Some {| fb := b'; f_now := f_now s; f_w := f_w s; f_aband_at := f_aband_at s; f_cancel_at := f_cancel_at s |}.
Proof.
  intros h c s l b' i1 i2 i3 Hn Hb. unfold fd_step. destruct l; try (rewrite Hb; reflexivity).
  exfalso. exact (Hn k eq_refl).
Qed.

Lemma fl_staged_quiet : forall stop d, stop <> SStill -> snd (fl_staged stop d) = [].
Proof. intros stop d H. destruct stop, d; simpl; try reflexivity; exfalso; apply H; reflexivity. Qed.

(* From EVERY timed state in which the operator is idle with nothing carried and the object is being deleted and held:
   if D has a cancellation_timeout and, after dt more seconds, its stopper is (or would be) at least backoff+timeout
   old, then letting that time pass, delivering the event and running one cycle (other handlers quiet, view
   consistent) with its two requests takes the own finalizer off - whatever the daemon task does. *)
Theorem fd_released_after_timeouts : forall h c s t dt i1 i2 i3,
  p_flight (fb s) = FNone -> p_carried (fb s) = [] ->
  v_alive (sv (fb s)) = true -> v_deleting (sv (fb s)) = true -> fl_mem (c_own c) (v_fins (sv (fb s))) = true ->
  d_timeout h = Some t -> 0 <= t -> 0 <= dt ->
  t + fd_or0 (d_backoff h) <= fd_age (f_now s + dt) (f_w s) ->
  exists s', fd_run h c s [TTick dt; TBase LEvent false false false; TBase (LCycle (fl_k_quiet_stop SStill)) i1 i2 i3;
                           TBase LMerge false false false; TBase LJson false false false] = Some s' /\
             fl_mem (c_own c) (v_fins (sv (fb s'))) = false /\
             v_fins (sv (fb s')) = fl_foreign (c_own c) (v_fins (sv (fb s))).
Proof.
  intros h c s t dt i1 i2 i3 Hf Hc Hal Hdel Hown Ht Ht0 Hdt Hage.
  set (s0 := {| fb := fb s; f_now := f_now s + dt; f_w := f_w s; f_aband_at := f_aband_at s; f_cancel_at := f_cancel_at s |}).
  assert (E0 : fd_step h c s (TTick dt) = Some s0).
  { unfold fd_step. destruct (0 <=? dt) eqn:E; [reflexivity | apply Z.leb_gt in E; lia]. }
  (* which stop outcome the cycle will see *)
  set (b1 := fl_set_op (fb s) (Some (sv (fb s))) (p_carried (fb s)) (p_flight (fb s))).
  assert (Eb1 : fl_step c (fb s) LEvent = Some b1) by reflexivity.
  set (stop := match fd_stop_called c b1 (sv (fb s)) with
               | Some y => r_out (fd_stop h y (f_now s + dt) (f_w s) false i1 i2 i3)
               | None => SStill
               end).
  assert (Hquiet : snd (fl_spawning c (sv (fb s)) (p_daemon (fb s)) (p_forever (fb s)) stop) = []).
  { unfold fl_spawning. rewrite Hdel. unfold stop.
    destruct (fd_stop_called c b1 (sv (fb s))) as [y|] eqn:Ec.
    - apply fl_staged_quiet. intros Hst.
      apply (proj1 (fd_stop_delays h y (f_now s + dt) (f_w s) false i1 i2 i3)) in Hst. apply Hst.
      exact (fd_stop_exhausted h y (f_now s + dt) (f_w s) false i1 i2 i3 t Ht Ht0 Hage).
    - unfold fd_stop_called in Ec. rewrite Hal in Ec. simpl in Ec. change (p_daemon b1) with (p_daemon (fb s)) in Ec.
      rewrite Hdel in Ec. destruct (p_daemon (fb s)); simpl in *; try discriminate Ec; reflexivity. }
  destruct (fl_released_eventually_stop c (fb s) stop Hf Hc Hal Hdel Hown Hquiet) as [bz [Hrun [R1 [R2 _]]]].
  unfold fl_run in Hrun. rewrite Eb1 in Hrun.
  destruct (fl_step c b1 (LCycle (fl_k_quiet_stop stop))) as [b2|] eqn:Eb2; [|discriminate Hrun].
  destruct (fl_step c b2 LMerge) as [b3|] eqn:Eb3; [|discriminate Hrun].
  destruct (fl_step c b3 LJson) as [b4|] eqn:Eb4; [|discriminate Hrun]. injection Hrun as <-.
  (* the timed steps *)
  set (s1 := {| fb := b1; f_now := f_now s0; f_w := f_w s0; f_aband_at := f_aband_at s0; f_cancel_at := f_cancel_at s0 |}).
  assert (E1 : fd_step h c s0 (TBase LEvent false false false) = Some s1).
  { apply fd_step_generic; [intros k0 Hk; discriminate Hk | exact Eb1]. }
  assert (E2 : exists s2, fd_step h c s1 (TBase (LCycle (fl_k_quiet_stop SStill)) i1 i2 i3) = Some s2 /\ fb s2 = b2).
  { unfold fd_step. change (fb s1) with b1. change (p_view b1) with (Some (sv (fb s))).
    unfold stop in Eb2. change (f_now s1) with (f_now s + dt). change (f_w s1) with (f_w s).
    cbv iota beta.
    destruct (fd_stop_called c b1 (sv (fb s))) as [y|] eqn:Ec.
    - assert (Hk : forall st, fd_with_stop (fl_k_quiet_stop SStill) st = fl_k_quiet_stop st) by reflexivity.
      rewrite Hk. cbv zeta. rewrite Eb2. eexists; split; reflexivity.
    - rewrite Eb2. eexists; split; reflexivity. }
  destruct E2 as [s2 [E2 Hb2]].
  assert (E3 : fd_step h c s2 (TBase LMerge false false false) =
               Some {| fb := b3; f_now := f_now s2; f_w := f_w s2; f_aband_at := f_aband_at s2; f_cancel_at := f_cancel_at s2 |}).
  { apply fd_step_generic; [intros k0 Hk; discriminate Hk | rewrite Hb2; exact Eb3]. }
  set (s3 := {| fb := b3; f_now := f_now s2; f_w := f_w s2; f_aband_at := f_aband_at s2; f_cancel_at := f_cancel_at s2 |}) in *.
  assert (E4 : fd_step h c s3 (TBase LJson false false false) =
               Some {| fb := b4; f_now := f_now s3; f_w := f_w s3; f_aband_at := f_aband_at s3; f_cancel_at := f_cancel_at s3 |}).
  { apply fd_step_generic; [intros k0 Hk; discriminate Hk | exact Eb4]. }
  eexists. split.
  - unfold fd_run. rewrite E0, E1, E2, E3, E4. reflexivity.
  - simpl. split; assumption.
Qed.

(* non-vacuity of fd_released_after_timeouts: the state at t=14 of the example history (daemon stopping since 0,
   backoff 5 + timeout 10) satisfies its hypotheses with dt = 1 *)
Example fd_ex_released_hyps :
  exists s, fd_run fd_ex_h fd_ex_cfg (fd_init fd_ex_cfg [] false true 0) (firstn 12 fd_ex_trace) = Some s /\
    p_flight (fb s) = FNone /\ p_carried (fb s) = [] /\ v_alive (sv (fb s)) = true /\ v_deleting (sv (fb s)) = true /\
    fl_mem (c_own fd_ex_cfg) (v_fins (sv (fb s))) = true /\ d_timeout fd_ex_h = Some 10 /\
    10 + fd_or0 (d_backoff fd_ex_h) <= fd_age (f_now s + 1) (f_w s) /\ fl_daemon_live (p_daemon (fb s)) = true.
Proof. eexists. split; [vm_compute; reflexivity|]. vm_compute. repeat split; try reflexivity; intros H; discriminate H. Qed.
