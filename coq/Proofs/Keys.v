(* Facts about annotation-name forming (Model/Keys.v). *)
From Coq Require Import ZArith NArith List String Bool Ascii Lia.
From KV Require Import Base.Json Model.Keys.
Import ListNotations.
Open Scope list_scope.

Definition valid_digest (d : list N) : Prop :=
  exists b0 b1 b2 b3, d = [b0; b1; b2; b3] /\ (b0 < 256 /\ b1 < 256 /\ b2 < 256 /\ b3 < 256)%N.

(* ---------- the base64 alphabet ---------- *)

Definition all64 : list N := map N.of_nat (seq 0 64).

Lemma all64_complete n : (n < 64)%N -> In n all64.
Proof.
  intro H. unfold all64. apply in_map_iff. exists (N.to_nat n). split.
  - apply N2Nat.id.
  - apply in_seq. lia.
Qed.

Lemma b64char_name_char n : (n < 64)%N -> is_name_char (b64char n) = true.
Proof.
  intro H. apply all64_complete in H.
  assert (A : forallb (fun n => is_name_char (b64char n)) all64 = true) by (vm_compute; reflexivity).
  rewrite forallb_forall in A. exact (A n H).
Qed.

Lemma b64char_inj n m : (n < 64)%N -> (m < 64)%N -> b64char n = b64char m -> n = m.
Proof.
  intros Hn Hm E. apply all64_complete in Hn. apply all64_complete in Hm.
  assert (A : forallb (fun n => forallb (fun m =>
              negb (Ascii.eqb (b64char n) (b64char m)) || N.eqb n m) all64) all64 = true)
    by (vm_compute; reflexivity).
  rewrite forallb_forall in A. specialize (A n Hn). rewrite forallb_forall in A.
  specialize (A m Hm). rewrite E, Ascii.eqb_refl in A. cbn in A. apply N.eqb_eq. exact A.
Qed.

Lemma last_sextet_cases b3 :
  ((b3 mod 4) * 16 = 0 \/ (b3 mod 4) * 16 = 16 \/ (b3 mod 4) * 16 = 32 \/ (b3 mod 4) * 16 = 48)%N.
Proof.
  assert (H : (b3 mod 4 < 4)%N) by (apply N.mod_lt; discriminate).
  remember (b3 mod 4)%N as m. clear Heqm.
  assert (m = 0 \/ m = 1 \/ m = 2 \/ m = 3)%N as [E|[E|[E|E]]] by lia; subst m; cbn; auto.
Qed.

(* lia is not asked to reason about / and mod: the needed facts are stated, then the
   quotients and remainders are abstracted into fresh variables. *)
Ltac abstract_divmod :=
  repeat match goal with
         | |- context [(?a mod ?b)%N] => let m := fresh "m" in let E := fresh in remember (a mod b)%N as m eqn:E; clear E
         | H : context [(?a mod ?b)%N] |- _ => let m := fresh "m" in let E := fresh in remember (a mod b)%N as m eqn:E; clear E
         | |- context [(?a / ?b)%N] => let q := fresh "q" in let E := fresh in remember (a / b)%N as q eqn:E; clear E
         | H : context [(?a / ?b)%N] |- _ => let q := fresh "q" in let E := fresh in remember (a / b)%N as q eqn:E; clear E
         end.

Lemma sextets_lt d : valid_digest d -> Forall (fun s => (s < 64)%N) (sextets d).
Proof.
  intros (b0 & b1 & b2 & b3 & -> & H0 & H1 & H2 & H3). unfold sextets.
  assert (b0 mod 4 < 4)%N by (apply N.mod_lt; discriminate).
  assert (b1 mod 16 < 16)%N by (apply N.mod_lt; discriminate).
  assert (b2 mod 64 < 64)%N by (apply N.mod_lt; discriminate).
  assert (b3 mod 4 < 4)%N by (apply N.mod_lt; discriminate).
  assert (b0 / 4 < 64)%N by (apply N.div_lt_upper_bound; lia).
  assert (b1 / 16 < 16)%N by (apply N.div_lt_upper_bound; lia).
  assert (b2 / 64 < 4)%N by (apply N.div_lt_upper_bound; lia).
  assert (b3 / 4 < 64)%N by (apply N.div_lt_upper_bound; lia).
  abstract_divmod.
  repeat constructor; lia.
Qed.

(* make_suffix: always '-' followed by the six base64 characters, the padding stripped and
   nothing else, because the last sextet is one of A Q g w. *)
Lemma suffix_shape d :
  valid_digest d -> suffix_of d = "-"%char :: map b64char (sextets d).
Proof.
  intros (b0 & b1 & b2 & b3 & -> & _).
  unfold suffix_of, rstrip, b64_4, sextets.
  cbn [map app rev].
  destruct (last_sextet_cases b3) as [E|[E|[E|E]]]; rewrite E; reflexivity.
Qed.

Lemma suffix_len d : valid_digest d -> List.length (suffix_of d) = 7%nat.
Proof.
  intro H. rewrite (suffix_shape d H). destruct H as (b0 & b1 & b2 & b3 & -> & _). reflexivity.
Qed.

Lemma suffix_name_chars d : valid_digest d -> forallb is_name_char (suffix_of d) = true.
Proof.
  intro H. rewrite (suffix_shape d H). cbn [forallb]. apply andb_true_intro. split; [reflexivity|].
  apply forallb_forall. intros c Hc. apply in_map_iff in Hc. destruct Hc as (s & <- & Hs).
  apply b64char_name_char. pose proof (sextets_lt d H) as F. rewrite Forall_forall in F. auto.
Qed.

Lemma suffix_last_alnum d c : valid_digest d -> is_alnum (last (suffix_of d) c) = true.
Proof.
  intro H. rewrite (suffix_shape d H). destruct H as (b0 & b1 & b2 & b3 & -> & _).
  unfold sextets. cbn [map last].
  destruct (last_sextet_cases b3) as [E|[E|[E|E]]]; rewrite E; reflexivity.
Qed.

(* the suffix determines the digest: distinctness of long names reduces exactly to the hash *)
Lemma sextets_inj d d' : valid_digest d -> valid_digest d' -> sextets d = sextets d' -> d = d'.
Proof.
  intros (a0 & a1 & a2 & a3 & -> & Ha0 & Ha1 & Ha2 & Ha3) (b0 & b1 & b2 & b3 & -> & Hb0 & Hb1 & Hb2 & Hb3).
  unfold sextets. intro E. injection E as E0 E1 E2 E3 E4 E5.
  pose proof (N.div_mod a0 4). pose proof (N.div_mod b0 4).
  pose proof (N.div_mod a1 16). pose proof (N.div_mod b1 16).
  pose proof (N.div_mod a2 64). pose proof (N.div_mod b2 64).
  pose proof (N.div_mod a3 4). pose proof (N.div_mod b3 4).
  assert (a0 mod 4 < 4)%N by (apply N.mod_lt; discriminate).
  assert (b0 mod 4 < 4)%N by (apply N.mod_lt; discriminate).
  assert (a1 mod 16 < 16)%N by (apply N.mod_lt; discriminate).
  assert (b1 mod 16 < 16)%N by (apply N.mod_lt; discriminate).
  assert (a2 mod 64 < 64)%N by (apply N.mod_lt; discriminate).
  assert (b2 mod 64 < 64)%N by (apply N.mod_lt; discriminate).
  assert (a3 mod 4 < 4)%N by (apply N.mod_lt; discriminate).
  assert (b3 mod 4 < 4)%N by (apply N.mod_lt; discriminate).
  assert (a1 / 16 < 16)%N by (apply N.div_lt_upper_bound; lia).
  assert (b1 / 16 < 16)%N by (apply N.div_lt_upper_bound; lia).
  assert (a2 / 64 < 4)%N by (apply N.div_lt_upper_bound; lia).
  assert (b2 / 64 < 4)%N by (apply N.div_lt_upper_bound; lia).
  abstract_divmod.
  assert (a0 = b0) by lia. assert (a1 = b1) by lia. assert (a2 = b2) by lia. assert (a3 = b3) by lia.
  congruence.
Qed.

Lemma map_inj_on {A B} (f : A -> B) (P : A -> Prop) l l' :
  (forall x y, P x -> P y -> f x = f y -> x = y) ->
  Forall P l -> Forall P l' -> map f l = map f l' -> l = l'.
Proof.
  intros Hinj. revert l'. induction l as [|x l IH]; intros [|y l'] Hl Hl' E; try discriminate; auto.
  cbn in E. injection E as E1 E2. inversion Hl; inversion Hl'; subst. f_equal; auto.
Qed.

Lemma suffix_inj d d' : valid_digest d -> valid_digest d' -> suffix_of d = suffix_of d' -> d = d'.
Proof.
  intros H H' E. rewrite (suffix_shape d H), (suffix_shape d' H') in E. injection E as E.
  apply sextets_inj; auto.
  eapply (map_inj_on b64char (fun s => (s < 64)%N)); eauto using sextets_lt.
  intros; apply b64char_inj; auto.
Qed.

(* ---------- safe keys ---------- *)

Lemma safe_char_name c : is_id_char c = true -> is_name_char (safe_char c) = true.
Proof.
  unfold is_id_char, safe_char, is_name_char, ceqb. intro H.
  destruct (Ascii.eqb c "/") eqn:E1; [reflexivity|].
  destruct (Ascii.eqb c "<") eqn:E2; [reflexivity|].
  destruct (Ascii.eqb c ">") eqn:E3; [reflexivity|].
  rewrite !orb_false_r in H.
  destruct (is_alnum c); cbn in *; [reflexivity|].
  destruct (Ascii.eqb c "_"); cbn in *; [rewrite orb_true_r; reflexivity|].
  destruct (Ascii.eqb c "."); cbn in *; [rewrite !orb_true_r; reflexivity|].
  rewrite H. reflexivity.
Qed.

Lemma safe_char_alnum c : is_alnum c = true -> safe_char c = c.
Proof.
  unfold safe_char, ceqb. intro H.
  destruct (Ascii.eqb c "/") eqn:E1; [apply Ascii.eqb_eq in E1; subst; discriminate|].
  destruct (Ascii.eqb c "<") eqn:E2; [apply Ascii.eqb_eq in E2; subst; discriminate|].
  destruct (Ascii.eqb c ">") eqn:E3; [apply Ascii.eqb_eq in E3; subst; discriminate|].
  reflexivity.
Qed.

Lemma make_safe_len k : List.length (make_safe k) = List.length k.
Proof. apply map_length. Qed.

Lemma make_safe_name_chars k :
  forallb is_id_char k = true -> forallb is_name_char (make_safe k) = true.
Proof.
  unfold make_safe. rewrite !forallb_forall. intros H c Hc.
  apply in_map_iff in Hc. destruct Hc as (x & <- & Hx). apply safe_char_name. auto.
Qed.

Lemma forallb_firstn {A} (p : A -> bool) n l : forallb p l = true -> forallb p (firstn n l) = true.
Proof.
  rewrite !forallb_forall. intros H x Hx. apply H.
  rewrite <- (firstn_skipn n l). apply in_or_app. left. exact Hx.
Qed.

Lemma py_take_nonneg n s : (0 <= n)%Z -> py_take n s = firstn (Z.to_nat n) s.
Proof. intro H. unfold py_take. destruct (0 <=? n)%Z eqn:E; [reflexivity|lia]. Qed.

(* ---------- v2 names ---------- *)
Section V2.
  Variable dg : chars -> list N.
  Hypothesis dg_valid : forall k, valid_digest (dg k).

  Lemma v2_name_short k : (List.length k <= 63)%nat -> v2_name dg k = make_safe k.
  Proof.
    intro H. unfold v2_name.
    destruct (63 <? List.length k)%nat eqn:E; [apply Nat.ltb_lt in E; lia|].
    cbn [List.length]. rewrite app_nil_r. rewrite py_take_nonneg by lia.
    apply firstn_all2. rewrite make_safe_len. cbn. lia.
  Qed.

  Lemma v2_name_long k :
    (63 < List.length k)%nat -> v2_name dg k = firstn 56 (make_safe k) ++ suffix_of (dg k).
  Proof.
    intro H. unfold v2_name.
    destruct (63 <? List.length k)%nat eqn:E; [|apply Nat.ltb_ge in E; lia].
    rewrite (suffix_len _ (dg_valid k)). rewrite py_take_nonneg by (cbn; lia). reflexivity.
  Qed.

  Lemma v2_name_length k : (List.length (v2_name dg k) <= 63)%nat.
  Proof.
    destruct (Nat.le_gt_cases (List.length k) 63) as [H|H].
    - rewrite v2_name_short by exact H. rewrite make_safe_len. exact H.
    - rewrite v2_name_long by exact H. rewrite app_length, (suffix_len _ (dg_valid k)).
      pose proof (firstn_le_length 56 (make_safe k)). lia.
  Qed.

  Lemma v2_name_long_length k : (63 < List.length k)%nat -> List.length (v2_name dg k) = 63%nat.
  Proof.
    intro H. rewrite v2_name_long by exact H. rewrite app_length, (suffix_len _ (dg_valid k)).
    rewrite firstn_length, make_safe_len. lia.
  Qed.

  Lemma v2_name_charset k :
    forallb is_id_char k = true -> forallb is_name_char (v2_name dg k) = true.
  Proof.
    intro H. destruct (Nat.le_gt_cases (List.length k) 63) as [L|L].
    - rewrite v2_name_short by exact L. apply make_safe_name_chars; exact H.
    - rewrite v2_name_long by exact L. rewrite forallb_app. apply andb_true_intro. split.
      + apply forallb_firstn. apply make_safe_name_chars; exact H.
      + apply suffix_name_chars. apply dg_valid.
  Qed.

  Lemma last_map {A B} (f : A -> B) l d : l <> [] -> last (map f l) (f d) = f (last l d).
  Proof.
    induction l as [|x l IH]; [congruence|]. intros _. destruct l as [|y l]; [reflexivity|].
    change (last (map f (x :: y :: l)) (f d)) with (last (map f (y :: l)) (f d)).
    change (last (x :: y :: l) d) with (last (y :: l) d). apply IH. discriminate.
  Qed.

  Lemma last_app_nonempty {A} (l l' : list A) d : l' <> [] -> last (l ++ l') d = last l' d.
  Proof.
    intro H. induction l as [|x l IH]; [reflexivity|].
    cbn [app]. destruct (l ++ l') as [|y r] eqn:E.
    - destruct l; cbn in E; [congruence|discriminate].
    - exact IH.
  Qed.

  (* Valid Kubernetes name under the guard: the id starts with an alphanumeric and, when it is
     short enough not to be hashed, also ends with one. *)
  Lemma v2_name_valid_partial c k :
    forallb is_id_char (c :: k) = true ->
    is_alnum c = true ->
    ((List.length (c :: k) <= 63)%nat -> is_alnum (last (c :: k) c) = true) ->
    valid_name (v2_name dg (c :: k)) = true.
  Proof.
    intros Hid Hc Hlast.
    pose proof (v2_name_length (c :: k)) as Hlen.
    pose proof (v2_name_charset (c :: k) Hid) as Hcs.
    destruct (Nat.le_gt_cases (List.length (c :: k)) 63) as [L|L].
    - rewrite v2_name_short in * by exact L.
      specialize (Hlast L).
      unfold make_safe in *. cbn [map] in *. unfold valid_name.
      rewrite Hcs. apply Nat.leb_le in Hlen. rewrite Hlen. cbn [andb].
      change (safe_char c :: map safe_char k) with (map safe_char (c :: k)).
      rewrite last_map by discriminate.
      rewrite (safe_char_alnum _ Hlast), Hlast, (safe_char_alnum c Hc), Hc. reflexivity.
    - rewrite v2_name_long in * by exact L.
      unfold make_safe in *. cbn [map] in *.
      change (firstn 56 (safe_char c :: map safe_char k))
        with (safe_char c :: firstn 55 (map safe_char k)) in *.
      cbn [app] in *. unfold valid_name.
      rewrite Hcs. apply Nat.leb_le in Hlen. rewrite Hlen. cbn [andb].
      rewrite (safe_char_alnum c Hc), Hc. cbn [andb].
      rewrite app_comm_cons. rewrite last_app_nonempty.
      + apply suffix_last_alnum. apply dg_valid.
      + intro E. pose proof (suffix_len _ (dg_valid (c :: k))) as S. rewrite E in S. discriminate.
  Qed.

  (* Long ids that share a prefix: equal generated names force equal cut prefixes AND equal
     digests; i.e. distinctness of names reduces exactly to distinctness of the hash. *)
  Lemma v2_long_equal_names k k' :
    (63 < List.length k)%nat -> (63 < List.length k')%nat ->
    v2_name dg k = v2_name dg k' ->
    firstn 56 (make_safe k) = firstn 56 (make_safe k') /\ dg k = dg k'.
  Proof.
    intros L L' E. rewrite !v2_name_long in E by assumption.
    assert (H56 : List.length (firstn 56 (make_safe k)) = List.length (firstn 56 (make_safe k'))).
    { rewrite !firstn_length, !make_safe_len. lia. }
    apply app_eq_app in E. destruct E as (l & [[E1 E2]|[E1 E2]]).
    - assert (l = []). { rewrite E1, app_length in H56. destruct l; [reflexivity|cbn in H56; lia]. }
      subst l. rewrite app_nil_r in E1. cbn in E2. split; [congruence|].
      apply suffix_inj; auto.
    - assert (l = []). { rewrite E1, app_length in H56. destruct l; [reflexivity|cbn in H56; lia]. }
      subst l. rewrite app_nil_r in E1. cbn in E2. split; [congruence|].
      apply suffix_inj; auto.
  Qed.

  Lemma v2_long_distinct k k' :
    (63 < List.length k)%nat -> (63 < List.length k')%nat ->
    dg k <> dg k' -> v2_name dg k <> v2_name dg k'.
  Proof. intros L L' D E. apply D. eapply v2_long_equal_names; eauto. Qed.
End V2.

(* The full statement "every generated name is a valid Kubernetes name" is false of the
   faithful model: ids that begin (or, when short, end) with a non-alphanumeric. *)
Definition const_dg (_ : chars) : list N := [0; 0; 0; 0]%N.

Lemma const_dg_valid k : valid_digest (const_dg k).
Proof. exists 0%N, 0%N, 0%N, 0%N. repeat split; reflexivity. Qed.

Lemma v2_name_valid_refuted :
  exists k, forallb is_id_char k = true /\ k <> [] /\ valid_name (v2_name const_dg k) = false.
Proof. exists (chars_of "_private"). repeat split; [discriminate]. Qed.

(* ---------- v1 names ---------- *)
Section V1.
  Variable dg : chars -> list N.
  Hypothesis dg_valid : forall k, valid_digest (dg k).

  (* With a prefix short enough to leave room for the hash suffix (len(prefix)+1+7 <= 63),
     the whole v1 key (prefix + '/' + name) is at most 63 characters. *)
  Lemma v1_key_length prefix k :
    prefix <> [] -> (List.length prefix + 1 + 7 <= 63)%nat ->
    (List.length (v1_key dg prefix k) <= 63)%nat.
  Proof.
    intros Hp Hroom. unfold v1_key, v1_name.
    assert (Hpre : List.length (pre_of prefix) = (List.length prefix + 1)%nat).
    { unfold pre_of. destruct prefix; [congruence|]. rewrite app_length. reflexivity. }
    rewrite app_length, Hpre.
    destruct (Z.of_nat (List.length (make_safe k)) <=? 63 - Z.of_nat (List.length prefix + 1))%Z eqn:E.
    - cbn [List.length]. rewrite Z.sub_0_r, app_nil_r, py_take_nonneg by lia.
      rewrite firstn_length. lia.
    - rewrite (suffix_len _ (dg_valid _)). rewrite py_take_nonneg by lia.
      rewrite app_length, firstn_length, (suffix_len _ (dg_valid _)). lia.
  Qed.
End V1.

(* Beyond that prefix length the v1 slicing index goes negative (Python's s[:-n]) and the name
   is no longer bounded: a witness with a 57-character prefix. *)
Lemma v1_key_length_refuted :
  exists prefix k, prefix <> [] /\ (List.length prefix <= 189)%nat /\
                   (63 < List.length (v1_name const_dg prefix k))%nat.
Proof.
  exists (repeat "p"%char 57), (repeat "k"%char 100).
  split; [discriminate|]. split; [cbn; lia|]. vm_compute. lia.
Qed.
