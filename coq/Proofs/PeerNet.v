(* Invariants of the N-operator network (Model/PeerNet.v), for ALL label sequences. *)
From Coq Require Import ZArith List String Bool Lia.
From KV Require Import Base.Json Model.Peering Model.PeerNet Proofs.Peering.
Import ListNotations.
Open Scope string_scope.
Open Scope Z_scope.
Open Scope list_scope.

(* ---------- time ---------- *)
Lemma dl_at_mono : forall r now t, now <= t -> dl_at now r <= dl_at t r.
Proof. intros r now t H. unfold dl_at. destruct (r_seen r); lia. Qed.

Lemma live_anti : forall r now t, now <= t -> t < dl_at t r -> now < dl_at now r.
Proof. intros r now t H. unfold dl_at. destruct (r_seen r); lia. Qed.

Lemma is_blocker_anti : forall i p now t kv, now <= t -> is_blocker i p t kv = true -> is_blocker i p now kv = true.
Proof.
  intros i p now t kv H B. unfold is_blocker in *.
  apply andb_prop in B as [B B3]. apply andb_prop in B as [B1 B2]. rewrite B1, B3. simpl.
  apply Z.ltb_lt in B2. rewrite andb_true_r. apply Z.ltb_lt. eapply live_anti; eauto.
Qed.

Lemma has_blocker_anti : forall i p now t st, now <= t -> has_blocker i p t st = true -> has_blocker i p now st = true.
Proof.
  intros i p now t st H B. unfold has_blocker in *. apply existsb_exists in B as (kv & Hin & Hb).
  apply existsb_exists. exists kv; split; auto. eapply is_blocker_anti; eauto.
Qed.

(* ---------- records as Peers ---------- *)
Lemma blocker_apeer : forall i o now kv,
  blocker (cfg_of i o) (apeer now kv) <-> is_blocker i (op_prio o) now kv = true.
Proof.
  intros i o now kv. unfold blocker, is_blocker, apeer, dl_at, cfg_of; simpl. split.
  - intros (Hd & Hi & z & Hz & Hle). injection Hz as <-.
    apply Z.leb_gt in Hd. apply String.eqb_neq in Hi. rewrite Hi. simpl.
    apply andb_true_intro; split; [apply Z.ltb_lt; lia | apply Z.leb_le; lia].
  - intros H. apply andb_prop in H as [H H3]. apply andb_prop in H as [H1 H2].
    apply negb_true_iff in H1. apply String.eqb_neq in H1. apply Z.ltb_lt in H2. apply Z.leb_le in H3.
    repeat split; auto.
    + apply Z.leb_gt. lia.
    + exists (r_prio (snd kv)); split; auto.
Qed.

Lemma live_numeric : forall me now st,
  Forall (fun p => num_of (p_prio p) <> None) (live_of me (map (apeer now) st)).
Proof.
  intros me now st. apply Forall_forall. intros p Hp. unfold live_of in Hp. apply filter_In in Hp as [Hp _].
  apply in_map_iff in Hp as (kv & <- & _). simpl. discriminate.
Qed.

(* the decision on abstract records, in the property's own terms *)
Lemma decide_abs : forall i o now st t out,
  decide_peers (cfg_of i o) (Some t) (map (apeer now) st) = POk out ->
  o_toggle out = Some (has_blocker i (op_prio o) now st) /\
  (has_blocker i (op_prio o) now st = false -> o_wake out = None) /\
  (has_blocker i (op_prio o) now st = true ->
     exists w kv, o_wake out = Some w /\ In kv st /\ is_blocker i (op_prio o) now kv = true /\ w = dl_at now (snd kv) /\
       forall kv', In kv' st -> is_blocker i (op_prio o) now kv' = true -> w <= dl_at now (snd kv')) /\
  (forall id, In id (o_clean out) <-> exists kv, In kv st /\ fst kv = id /\ dl_at now (snd kv) <= now).
Proof.
  intros i o now st t out H.
  pose proof (paused_iff_blocker _ _ _ _ H) as HP.
  pose proof (wake_is_min_deadline _ _ _ _ H) as [HW1 HW2].
  assert (HB : has_blocker i (op_prio o) now st = true <-> exists p, In p (map (apeer now) st) /\ blocker (cfg_of i o) p).
  { unfold has_blocker. rewrite existsb_exists. split.
    - intros (kv & Hin & Hb). exists (apeer now kv). split; [now apply in_map | now apply blocker_apeer].
    - intros (p & Hin & Hb). apply in_map_iff in Hin as (kv & <- & Hin). exists kv; split; auto. now apply blocker_apeer. }
  repeat split.
  - destruct (toggle_is_some _ _ _ _ H) as [b Hb]. rewrite Hb. f_equal.
    destruct (has_blocker i (op_prio o) now st) eqn:E.
    + destruct b; auto. assert (X : o_toggle out = Some true) by (apply HP, HB; reflexivity). congruence.
    + destruct b; auto. rewrite Hb in HP. assert (X : true = true) by reflexivity.
      apply (f_equal Some) in X. apply HP in X. apply HB in X. congruence.
  - intros E. apply HW1. intros X. apply HB in X. congruence.
  - intros E. destruct (o_wake out) as [w|] eqn:EW.
    + destruct (HW2 w eq_refl) as [(p & Hin & Hb & Hdl) Hmin].
      apply in_map_iff in Hin as (kv & <- & Hin). exists w, kv. repeat split; auto.
      * now apply blocker_apeer.
      * intros kv' Hin' Hb'. apply (Hmin (apeer now kv')); [now apply in_map | now apply blocker_apeer].
    + exfalso. assert (N : ~ exists p, In p (map (apeer now) st) /\ blocker (cfg_of i o) p) by now apply HW1.
      apply N, HB, E.
  - intros Hin. apply (clean_iff_dead _ _ _ _ H eq_refl) in Hin as (p & Hp & Hd & Hid).
    apply in_map_iff in Hp as (kv & <- & Hkv). exists kv. repeat split; auto.
    unfold apeer in Hd; simpl in Hd. apply Z.leb_le in Hd. exact Hd.
  - intros (kv & Hkv & Hid & Hd). apply (clean_iff_dead _ _ _ _ H eq_refl). exists (apeer now kv).
    repeat split; [now apply in_map | | exact Hid]. unfold apeer; simpl. apply Z.leb_le. exact Hd.
Qed.

Lemma decide_abs_total : forall i o now st t, exists out, decide_peers (cfg_of i o) (Some t) (map (apeer now) st) = POk out.
Proof. intros. apply decide_total. apply live_numeric. Qed.

(* ---------- assoc lists ---------- *)
Lemma del_not_in : forall (V : Type) k (v : V) l, ~ In (k, v) (del k l).
Proof.
  induction l as [|[k' v'] l IH]; simpl; [tauto|].
  destruct (String.eqb k k') eqn:E; [exact IH|]. intros [H | H]; [|now apply IH].
  injection H as -> _. rewrite String.eqb_refl in E. discriminate.
Qed.

Lemma in_del : forall (V : Type) k j (v : V) l, In (j, v) (del k l) -> In (j, v) l.
Proof.
  induction l as [|[k' v'] l IH]; simpl; [tauto|].
  destruct (String.eqb k k'); [auto|]. intros [H | H]; [now left | right; auto].
Qed.

(* ---------- the invariant ---------- *)
Definition op_ok (now : Z) (ver : nat) (st : astatus) (i : string) (o : opst) : Prop :=
  is_up o = true -> op_listed o = true ->
  match op_inbox o with
  | [] =>
      if op_toggle o
      then exists w kv, op_wake o = Some w /\ In kv st /\ fst kv <> i /\ op_prio o <= r_prio (snd kv) /\ w <= dl_at now (snd kv)
      else has_blocker i (op_prio o) now st = false
  | ib => exists pre, ib = pre ++ [(ver, st)]
  end.

Definition Inv (s : net) : Prop := forall i, op_ok (n_now s) (n_ver s) (n_status s) i (n_ops s i).

Lemma op_ok_vacuous : forall now ver st i o, is_up o && op_listed o = false -> op_ok now ver st i o.
Proof. intros now ver st i o H U L. rewrite U, L in H. discriminate. Qed.

Lemma op_ok_pushed : forall now ver st i o, op_ok now ver st i (with_inbox o (op_inbox o ++ [(ver, st)])).
Proof.
  intros now ver st i o _ _. simpl. destruct (op_inbox o) as [|x ib] eqn:E; simpl.
  - exists []. reflexivity.
  - exists (x :: ib). reflexivity.
Qed.

Lemma Inv_commit : forall s st' ops, Inv (commit s st' ops).
Proof.
  intros s st' ops i. unfold commit, push; simpl.
  destruct (is_up (ops i) && op_listed (ops i)) eqn:E.
  - apply op_ok_pushed.
  - now apply op_ok_vacuous.
Qed.

Lemma Inv_commit_ka : forall s st' ops ka, Inv (with_ka (commit s st' ops) ka).
Proof. intros s st' ops ka i. exact (Inv_commit s st' ops i). Qed.

Lemma Inv0 : forall t0, Inv (net0 t0).
Proof. intros t0 i. apply op_ok_vacuous. reflexivity. Qed.

Lemma upd_same : forall f i o, upd f i o i = o.
Proof. intros; unfold upd. now rewrite String.eqb_refl. Qed.
Lemma upd_other : forall f i o k, k <> i -> upd f i o k = f k.
Proof. intros f i o k H; unfold upd. apply String.eqb_neq in H. now rewrite H. Qed.

Lemma app_single_inv : forall (A : Type) (pre : list A) x y, [y] = pre ++ [x] -> pre = [] /\ y = x.
Proof.
  intros A [|a pre] x y H; simpl in H.
  - injection H as ->. auto.
  - injection H as _ H. destruct pre; discriminate.
Qed.

Lemma app_cons_inv : forall (A : Type) (pre : list A) x y z rest, y :: z :: rest = pre ++ [x] ->
  exists pre', z :: rest = pre' ++ [x].
Proof.
  intros A [|a pre] x y z rest H; simpl in H.
  - discriminate.
  - injection H as _ H. exists pre. exact H.
Qed.

Lemma step_inv : forall s l s', Inv s -> step s l = Some s' -> Inv s'.
Proof.
  intros s l s' I H. destruct l; simpl in H.
  - (* Tick *)
    destruct ((n_now s <? t) && tick_ok s t) eqn:E; [|discriminate]. injection H as <-.
    apply andb_prop in E as [E _]. apply Z.ltb_lt in E.
    intros i U L. specialize (I i U L). simpl in *.
    destruct (op_inbox (n_ops s i)); [|exact I].
    destruct (op_toggle (n_ops s i)).
    + destruct I as (w & kv & Hw & Hin & Hne & Hp & Hle). exists w, kv. repeat split; auto.
      pose proof (dl_at_mono (snd kv) (n_now s) t). lia.
    + destruct (has_blocker i (op_prio (n_ops s i)) t (n_status s)) eqn:B; [|reflexivity].
      apply (has_blocker_anti _ _ (n_now s)) in B; [congruence | lia].
  - (* Start *)
    destruct (is_alive (n_ops s i)); [discriminate|]. injection H as <-.
    intros k; simpl. destruct (String.eqb k i) eqn:E.
    + apply String.eqb_eq in E; subst k. rewrite upd_same. now apply op_ok_vacuous.
    + apply String.eqb_neq in E. rewrite upd_other by exact E. apply I.
  - (* List *)
    destruct (is_up (n_ops s i) && negb (op_listed (n_ops s i))); [|discriminate]. injection H as <-.
    intros k; simpl. destruct (String.eqb k i) eqn:E.
    + apply String.eqb_eq in E; subst k. rewrite upd_same. intros _ _. simpl. exists []. reflexivity.
    + apply String.eqb_neq in E. rewrite upd_other by exact E. apply I.
  - (* Keepalive *)
    destruct (_ && _); [|discriminate]. injection H as <-. apply Inv_commit_ka.
  - (* Observe *)
    destruct (negb (is_alive (n_ops s i) && op_listed (n_ops s i))) eqn:EA; [discriminate|].
    destruct (op_inbox (n_ops s i)) as [|[v snap] rest] eqn:EI; [discriminate|].
    destruct (negb (Nat.eqb v ver)); [discriminate|].
    destruct (decide_peers _ _ _) as [out|] eqn:ED; [|discriminate].
    destruct (negb _) eqn:EC in H; [discriminate|].
    apply negb_false_iff in EC. apply andb_prop in EC as [_ ET].
    destruct cleaned as [|c cl].
    + injection H as <-. intros k; simpl. destruct (String.eqb k i) eqn:E.
      * apply String.eqb_eq in E; subst k. rewrite upd_same. intros U L. simpl in *.
        assert (U0 : is_up (n_ops s i) = true) by (unfold is_up in *; exact U).
        assert (L0 : op_listed (n_ops s i) = true).
        { apply negb_false_iff in EA. apply andb_prop in EA as [_ X]. exact X. }
        specialize (I i U0 L0). rewrite EI in I. destruct I as (pre & Hpre).
        destruct rest as [|r rest'].
        -- apply app_single_inv in Hpre as [_ Hx]. injection Hx as -> ->.
           destruct (decide_abs _ _ _ _ _ _ ED) as (HT & HN & HB & _).
           rewrite HT in ET. simpl in ET. apply eqb_prop in ET. subst toggle.
           destruct (has_blocker i (op_prio (n_ops s i)) (n_now s) (n_status s)) eqn:B; [|reflexivity].
           destruct (HB eq_refl) as (w & kv & Hw & Hin & Hb & Hdl & _). exists w, kv.
           unfold is_blocker in Hb. apply andb_prop in Hb as [Hb H3]. apply andb_prop in Hb as [H1 H2].
           apply negb_true_iff in H1. apply String.eqb_neq in H1. apply Z.leb_le in H3.
           repeat split; auto. lia.
        -- apply app_cons_inv in Hpre. exact Hpre.
      * apply String.eqb_neq in E. rewrite upd_other by exact E. apply I.
    + injection H as <-. apply Inv_commit.
  - (* Wake *)
    destruct (negb (is_alive (n_ops s i))); [discriminate|].
    destruct (op_wake (n_ops s i)) as [w|]; [|discriminate].
    destruct (w <=? n_now s); [|discriminate]. injection H as <-. apply Inv_commit.
  - (* Exit *)
    destruct (is_up (n_ops s i)); [|discriminate]. injection H as <-. apply Inv_commit_ka.
  - (* Gone *)
    destruct (op_phase (n_ops s i)) eqn:EP; try discriminate. injection H as <-.
    intros k; simpl. destruct (String.eqb k i) eqn:E.
    + apply String.eqb_eq in E; subst k. rewrite upd_same. now apply op_ok_vacuous.
    + apply String.eqb_neq in E. rewrite upd_other by exact E. apply I.
  - (* Kill *)
    destruct (is_alive (n_ops s i)); [|discriminate]. injection H as <-.
    intros k; simpl. destruct (String.eqb k i) eqn:E.
    + apply String.eqb_eq in E; subst k. rewrite upd_same. now apply op_ok_vacuous.
    + apply String.eqb_neq in E. rewrite upd_other by exact E. apply I.
  - (* Foreign *)
    destruct (is_alive (n_ops s j)); [discriminate|]. injection H as <-. apply Inv_commit.
  - (* Check *)
    destruct (astatus_eqb st (n_status s) && astatus_eqb (n_status s) st); [|discriminate]. now injection H as <-.
Qed.

Lemma run_inv : forall tr s s', Inv s -> run s tr = Some s' -> Inv s'.
Proof.
  induction tr as [|l tr IH]; simpl; intros s s' I H.
  - now injection H as <-.
  - destruct (step s l) as [s1|] eqn:E; [|discriminate]. eapply IH; [eapply step_inv; eauto | exact H].
Qed.

Theorem reachable_inv : forall t0 tr s, run (net0 t0) tr = Some s -> Inv s.
Proof. intros t0 tr s H. eapply run_inv; [apply Inv0 | exact H]. Qed.

(* ---------- consequences ---------- *)
(* an operator that has processed everything delivered and whose armed sleep is not due *)
Definition synced (s : net) (i : string) : Prop :=
  is_up (n_ops s i) = true /\ op_listed (n_ops s i) = true /\ op_inbox (n_ops s i) = [] /\
  forall w, op_wake (n_ops s i) = Some w -> n_now s < w.

Theorem toggle_correct : forall t0 tr s i, run (net0 t0) tr = Some s -> synced s i ->
  op_toggle (n_ops s i) = has_blocker i (op_prio (n_ops s i)) (n_now s) (n_status s).
Proof.
  intros t0 tr s i R (U & L & IB & W). pose proof (reachable_inv _ _ _ R i U L) as I. rewrite IB in I.
  destruct (op_toggle (n_ops s i)).
  - destruct I as (w & kv & Hw & Hin & Hne & Hp & Hle). symmetry. unfold has_blocker. apply existsb_exists.
    exists kv; split; auto. unfold is_blocker. apply String.eqb_neq in Hne. rewrite Hne. simpl.
    specialize (W w Hw). apply andb_true_intro; split; [apply Z.ltb_lt; lia | apply Z.leb_le; lia].
  - now rewrite I.
Qed.

(* paused although every blocker has expired  =>  the wake-up is due: LWake is enabled, time cannot pass *)
Theorem wake_due : forall t0 tr s i, run (net0 t0) tr = Some s ->
  is_up (n_ops s i) = true -> op_listed (n_ops s i) = true -> op_inbox (n_ops s i) = [] ->
  op_toggle (n_ops s i) = true -> has_blocker i (op_prio (n_ops s i)) (n_now s) (n_status s) = false ->
  exists w, op_wake (n_ops s i) = Some w /\ w <= n_now s /\ exists s', step s (LWake i) = Some s'.
Proof.
  intros t0 tr s i R U L IB T B. pose proof (reachable_inv _ _ _ R i U L) as I. rewrite IB, T in I.
  destruct I as (w & kv & Hw & Hin & Hne & Hp & Hle).
  assert (Hdue : w <= n_now s).
  { destruct (Z.le_gt_cases w (n_now s)) as [|G]; [assumption|]. exfalso.
    assert (X : has_blocker i (op_prio (n_ops s i)) (n_now s) (n_status s) = true).
    { unfold has_blocker. apply existsb_exists. exists kv; split; auto. unfold is_blocker.
      apply String.eqb_neq in Hne. rewrite Hne. simpl.
      apply andb_true_intro; split; [apply Z.ltb_lt; lia | apply Z.leb_le; lia]. }
    congruence. }
  exists w. repeat split; auto. simpl.
  assert (A : is_alive (n_ops s i) = true) by (unfold is_up in U; unfold is_alive; destruct (op_phase (n_ops s i)); congruence).
  rewrite A, Hw. simpl. apply Z.leb_le in Hdue. rewrite Hdue. eauto.
Qed.

(* Exactly the top one is active.  [ids]: the running operators; they see each other: every one
   of them has a live record carrying its priority, and every live record is one of theirs. *)
Section Top.
  Variables (t0 : Z) (tr : list label) (s : net) (ids : list string).
  Hypothesis R : run (net0 t0) tr = Some s.
  Hypothesis Hsync : forall i, In i ids -> synced s i.
  Hypothesis Hown : forall i, In i ids -> exists r, In (i, r) (n_status s) /\ r_prio r = op_prio (n_ops s i) /\ n_now s < dl_at (n_now s) r.
  Hypothesis Hlive : forall j r, In (j, r) (n_status s) -> n_now s < dl_at (n_now s) r -> In j ids /\ r_prio r = op_prio (n_ops s j).

  Theorem active_iff_top : forall i, In i ids ->
    (op_toggle (n_ops s i) = false <-> forall j, In j ids -> j <> i -> op_prio (n_ops s j) < op_prio (n_ops s i)).
  Proof.
    intros i Hi. rewrite (toggle_correct _ _ _ _ R (Hsync i Hi)). split.
    - intros B j Hj Hne. destruct (Hown j Hj) as (r & Hin & Hp & Hl).
      unfold has_blocker in B. destruct (Z.lt_ge_cases (op_prio (n_ops s j)) (op_prio (n_ops s i))) as [|G]; [assumption|].
      exfalso. assert (X : existsb (is_blocker i (op_prio (n_ops s i)) (n_now s)) (n_status s) = true).
      { apply existsb_exists. exists (j, r); split; auto. unfold is_blocker; simpl.
        apply String.eqb_neq in Hne. rewrite Hne. simpl.
        apply andb_true_intro; split; [apply Z.ltb_lt; lia | apply Z.leb_le; lia]. }
      congruence.
    - intros Hlow. destruct (has_blocker i (op_prio (n_ops s i)) (n_now s) (n_status s)) eqn:B; [|reflexivity].
      exfalso. unfold has_blocker in B. apply existsb_exists in B as ([j r] & Hin & Hb).
      unfold is_blocker in Hb; simpl in Hb. apply andb_prop in Hb as [Hb H3]. apply andb_prop in Hb as [H1 H2].
      apply negb_true_iff in H1. apply String.eqb_neq in H1. apply Z.ltb_lt in H2. apply Z.leb_le in H3.
      destruct (Hlive j r Hin H2) as [Hj Hp]. specialize (Hlow j Hj H1). lia.
  Qed.

  (* at most one is active; with distinct priorities the maximal one is *)
  Theorem at_most_one_active : forall i j, In i ids -> In j ids ->
    op_toggle (n_ops s i) = false -> op_toggle (n_ops s j) = false -> i = j.
  Proof.
    intros i j Hi Hj Ti Tj. destruct (string_dec i j) as [|N]; [assumption|]. exfalso.
    pose proof (proj1 (active_iff_top i Hi) Ti j Hj (fun e => N (eq_sym e))).
    pose proof (proj1 (active_iff_top j Hj) Tj i Hi N). lia.
  Qed.

  Theorem equal_priority_conflict : forall i j, In i ids -> In j ids -> i <> j ->
    op_prio (n_ops s i) = op_prio (n_ops s j) ->
    op_toggle (n_ops s i) = true /\ op_toggle (n_ops s j) = true.
  Proof.
    intros i j Hi Hj N E. split.
    - destruct (op_toggle (n_ops s i)) eqn:T; [reflexivity|]. exfalso.
      pose proof (proj1 (active_iff_top i Hi) T j Hj (fun e => N (eq_sym e))). lia.
    - destruct (op_toggle (n_ops s j)) eqn:T; [reflexivity|]. exfalso.
      pose proof (proj1 (active_iff_top j Hj) T i Hi N). lia.
  Qed.
End Top.

(* ---------- exit, kill, clean ---------- *)
Theorem exit_withdraws : forall s i s', step s (LExit i) = Some s' ->
  (forall r, ~ In (i, r) (n_status s')) /\ op_phase (n_ops s' i) = Exiting.
Proof.
  intros s i s' H. simpl in H. destruct (is_up (n_ops s i)) eqn:U; [|discriminate]. injection H as <-. split.
  - intros r. simpl. unfold touched. rewrite touch_exit_removes. apply del_not_in.
  - simpl. unfold push. rewrite upd_same. simpl. reflexivity.
Qed.

(* an exiting operator without an armed sleep and without undelivered events cannot write any more *)
Theorem exiting_idle_is_silent : forall s i, op_phase (n_ops s i) = Exiting ->
  op_wake (n_ops s i) = None -> op_inbox (n_ops s i) = [] ->
  step s (LWake i) = None /\ (forall j, step s (LKeepalive i j) = None) /\ step s (LExit i) = None /\
  forall v c t, step s (LObserve i v c t) = None.
Proof.
  intros s i P W IB. simpl. unfold is_up, is_alive. rewrite P, W, IB. simpl.
  repeat split; auto. intros v c t. destruct (op_listed (n_ops s i)); reflexivity.
Qed.

Theorem kill_keeps_record : forall s i s', step s (LKill i) = Some s' -> n_status s' = n_status s /\ op_phase (n_ops s' i) = Down.
Proof.
  intros s i s' H. simpl in H. destruct (is_alive (n_ops s i)); [|discriminate]. injection H as <-.
  simpl. rewrite upd_same. auto.
Qed.

Lemma in_dels : forall ids (st : astatus) j r, In (j, r) (dels ids st) -> In (j, r) st /\ ~ In j ids.
Proof.
  induction ids as [|k ids IH]; simpl; intros st j r H; [tauto|].
  apply IH in H as [H N]. split; [eapply in_del; eauto|].
  intros [-> | X]; [|tauto]. eapply del_not_in; eauto.
Qed.

(* after an operator has processed an event, none of the ids it reported as cleaned is left *)
Theorem observe_cleans : forall s i v cleaned tg s', step s (LObserve i v cleaned tg) = Some s' ->
  forall id r, In id cleaned -> ~ In (id, r) (n_status s').
Proof.
  intros s i v cleaned tg s' H id r Hid Hin. simpl in H.
  destruct (negb _); [discriminate|].
  destruct (op_inbox (n_ops s i)) as [|[v' snap] rest]; [discriminate|].
  destruct (negb _); [discriminate|].
  destruct (decide_peers _ _ _) as [out|]; [|discriminate].
  destruct (negb _); [discriminate|].
  destruct cleaned as [|c cl]; [destruct Hid|].
  injection H as <-. unfold commit in Hin. cbn [n_status] in Hin. apply in_dels in Hin as [D N].
  destruct Hid as [-> | Hid]; [eapply del_not_in; exact D | now apply N].
Qed.

(* the ids cleaned are exactly the records that are expired IN THE SNAPSHOT PROCESSED *)
Theorem observe_cleans_expired_of_snapshot : forall s i v cleaned tg s' snap rest,
  step s (LObserve i v cleaned tg) = Some s' -> op_inbox (n_ops s i) = (v, snap) :: rest ->
  forall id, In id cleaned <-> exists r, In (id, r) snap /\ dl_at (n_now s) r <= n_now s.
Proof.
  intros s i v cleaned tg s' snap rest H IB id. simpl in H.
  destruct (negb _); [discriminate|]. rewrite IB in H.
  destruct (negb (Nat.eqb v v)); [discriminate|].
  destruct (decide_peers _ _ _) as [out|] eqn:ED; [|discriminate].
  destruct (negb _) eqn:EC in H; [discriminate|].
  apply negb_false_iff in EC. apply andb_prop in EC as [EC _].
  assert (E : o_clean out = cleaned).
  { clear -EC. revert cleaned EC. induction (o_clean out) as [|a l IH]; intros [|b m] H; simpl in H; try discriminate; auto.
    apply andb_prop in H as [H1 H2]. apply String.eqb_eq in H1. subst. f_equal. now apply IH. }
  destruct (decide_abs _ _ _ _ _ _ ED) as (_ & _ & _ & HC). rewrite <- E, HC. split.
  - intros ([j r] & Hin & Hid & Hd). simpl in *. subst j. eauto.
  - intros (r & Hin & Hd). exists (id, r). auto.
Qed.

(* ... hence: when the snapshot is the current object, only expired records are removed *)
Theorem clean_only_expired_when_current : forall t0 tr s i v cleaned tg s' snap,
  run (net0 t0) tr = Some s -> is_up (n_ops s i) = true ->
  step s (LObserve i v cleaned tg) = Some s' -> op_inbox (n_ops s i) = [(v, snap)] ->
  forall id, In id cleaned -> exists r, In (id, r) (n_status s) /\ dl_at (n_now s) r <= n_now s.
Proof.
  intros t0 tr s i v cleaned tg s' snap R U H IB id Hid.
  assert (L : op_listed (n_ops s i) = true).
  { simpl in H. destruct (is_alive (n_ops s i) && op_listed (n_ops s i)) eqn:E; [|discriminate].
    apply andb_prop in E as [_ E]. exact E. }
  pose proof (reachable_inv _ _ _ R i U L) as I. rewrite IB in I. destruct I as (pre & Hpre).
  apply app_single_inv in Hpre as [_ Hx]. injection Hx as -> ->.
  apply (observe_cleans_expired_of_snapshot _ _ _ _ _ _ _ _ H IB). exact Hid.
Qed.

(* ---------- witnesses (vm_compute) ---------- *)
Definition live_rec (now : Z) (st : astatus) (i : string) : bool :=
  existsb (fun kv => String.eqb (fst kv) i && (now <? dl_at now (snd kv))) st.

(* F1301: op-b is killed, its record expires at 13 s; op-a wakes and touches itself; op-b restarts and
   re-registers; op-a then processes its OWN touch event (version 4, older than the re-registration)
   and cleans op-b: a live record is removed. *)
Definition tr_stale_clean : list label :=
  [ LStart "a" 0 20 false; LKeepalive "a" 7; LList "a"; LObserve "a" 1 [] false;
    LTick 1000; LStart "b" 20 12 false; LKeepalive "b" 7; LList "b"; LObserve "b" 2 [] false;
    LObserve "a" 2 [] true; LTick 2000; LKill "b";
    LTick 13000; LWake "a"; LKeepalive "a" 7; LStart "b" 20 12 false; LKeepalive "b" 7; LTick 13375 ].

Definition phase_eqb (a b : phase) : bool :=
  match a, b with Down, Down | Up, Up | Exiting, Exiting => true | _, _ => false end.
Lemma phase_eqb_eq : forall a b, phase_eqb a b = true -> a = b.
Proof. destruct a, b; simpl; intros H; try reflexivity; discriminate. Qed.

Definition stale_clean_check : bool :=
  match run (net0 0) tr_stale_clean with
  | Some s =>
      match step s (LObserve "a" 3 ["b"] false) with
      | Some s' =>
          is_up (n_ops s "b") && live_rec (n_now s) (n_status s) "b" &&
          negb (live_rec (n_now s') (n_status s') "b") &&
          is_up (n_ops s' "a") && is_up (n_ops s' "b") &&
          negb (op_toggle (n_ops s' "a")) && negb (op_toggle (n_ops s' "b")) &&
          negb (op_prio (n_ops s' "a") =? op_prio (n_ops s' "b"))
      | None => false
      end
  | None => false
  end.

Lemma stale_clean_witness :
  exists s s', run (net0 0) tr_stale_clean = Some s /\
    is_up (n_ops s "b") = true /\ live_rec (n_now s) (n_status s) "b" = true /\
    step s (LObserve "a" 3 ["b"] false) = Some s' /\
    live_rec (n_now s') (n_status s') "b" = false /\
    (* both are now running un-paused although they have different priorities *)
    is_up (n_ops s' "a") = true /\ is_up (n_ops s' "b") = true /\
    op_toggle (n_ops s' "a") = false /\ op_toggle (n_ops s' "b") = false /\
    op_prio (n_ops s' "a") <> op_prio (n_ops s' "b").
Proof.
  assert (C : stale_clean_check = true) by (vm_compute; reflexivity).
  unfold stale_clean_check in C.
  destruct (run (net0 0) tr_stale_clean) as [s|] eqn:R; [|discriminate].
  destruct (step s (LObserve "a" 3 ["b"] false)) as [s'|] eqn:S; [|discriminate].
  repeat (apply andb_prop in C as [C ?]).
  exists s, s'. repeat match goal with H : negb _ = true |- _ => apply negb_true_iff in H end.
  split; [reflexivity|]. split; [assumption|]. split; [assumption|]. split; [exact S|].
  repeat split; auto. now apply Z.eqb_neq.
Qed.

(* F1302: the paused op-c exits gracefully at 11 s (record removed), its draining worker wakes at 12 s
   (deadline of the killed op-b) and re-registers op-c; the process is gone, the record lives on. *)
Definition tr_touch_after_exit : list label :=
  [ LStart "b" 100 12 false; LKeepalive "b" 5; LList "b"; LObserve "b" 1 [] false;
    LTick 1000; LStart "c" 10 12 false; LKeepalive "c" 5; LList "c"; LObserve "b" 2 [] false;
    LObserve "c" 2 [] true; LTick 2000; LKill "b"; LTick 8000; LKeepalive "c" 5; LObserve "c" 3 [] true;
    LTick 11000; LExit "c" ].

Definition touch_after_exit_check : bool :=
  match run (net0 0) tr_touch_after_exit with
  | Some s1 =>
      match run s1 [LTick 12000; LWake "c"; LGone "c"] with
      | Some s2 => negb (live_rec (n_now s1) (n_status s1) "c") && phase_eqb (op_phase (n_ops s2 "c")) Down &&
                   live_rec (n_now s2) (n_status s2) "c"
      | None => false
      end
  | None => false
  end.

Lemma touch_after_exit_witness :
  exists s1 s2, run (net0 0) tr_touch_after_exit = Some s1 /\ live_rec (n_now s1) (n_status s1) "c" = false /\
    run s1 [LTick 12000; LWake "c"; LGone "c"] = Some s2 /\
    op_phase (n_ops s2 "c") = Down /\ live_rec (n_now s2) (n_status s2) "c" = true.
Proof.
  assert (C : touch_after_exit_check = true) by (vm_compute; reflexivity).
  unfold touch_after_exit_check in C.
  destruct (run (net0 0) tr_touch_after_exit) as [s1|] eqn:R1; [|discriminate].
  destruct (run s1 [LTick 12000; LWake "c"; LGone "c"]) as [s2|] eqn:R2; [|discriminate].
  repeat (apply andb_prop in C as [C ?]).
  exists s1, s2. apply negb_true_iff in C.
  split; [reflexivity|]. split; [assumption|]. split; [exact R2|]. split; [now apply phase_eqb_eq | assumption].
Qed.

(* non-vacuity of the Top section: two operators that see each other, both synced *)
Definition tr_two_ops : list label :=
  [ LStart "a" 0 60 false; LKeepalive "a" 5; LList "a"; LObserve "a" 1 [] false;
    LTick 1000; LStart "b" 100 60 false; LKeepalive "b" 5; LList "b"; LObserve "b" 2 [] false;
    LObserve "a" 2 [] true; LTick 5000 ].

(* the hypotheses of the Top section, decidable for a concrete state *)
Definition synced_b (s : net) (i : string) : bool :=
  is_up (n_ops s i) && op_listed (n_ops s i) && match op_inbox (n_ops s i) with [] => true | _ => false end &&
  match op_wake (n_ops s i) with Some w => n_now s <? w | None => true end.
Definition own_b (s : net) (i : string) : bool :=
  existsb (fun kv => String.eqb (fst kv) i && (r_prio (snd kv) =? op_prio (n_ops s i)) && (n_now s <? dl_at (n_now s) (snd kv))) (n_status s).
Definition live_known_b (s : net) (ids : list string) : bool :=
  forallb (fun kv => negb (n_now s <? dl_at (n_now s) (snd kv)) ||
                     (mem_str (fst kv) ids && (r_prio (snd kv) =? op_prio (n_ops s (fst kv))))) (n_status s).

Lemma synced_b_ok : forall s i, synced_b s i = true -> synced s i.
Proof.
  intros s i H. unfold synced_b in H. repeat (apply andb_prop in H as [H ?]).
  repeat split; auto.
  - destruct (op_inbox (n_ops s i)); [reflexivity | discriminate].
  - intros w E. rewrite E in *. now apply Z.ltb_lt.
Qed.

Lemma own_b_ok : forall s i, own_b s i = true ->
  exists r, In (i, r) (n_status s) /\ r_prio r = op_prio (n_ops s i) /\ n_now s < dl_at (n_now s) r.
Proof.
  intros s i H. unfold own_b in H. apply existsb_exists in H as ([j r] & Hin & H). simpl in H.
  repeat (apply andb_prop in H as [H ?]). apply String.eqb_eq in H. subst j.
  exists r. repeat split; auto; [now apply Z.eqb_eq | now apply Z.ltb_lt].
Qed.

Lemma mem_str_In : forall k l, mem_str k l = true -> In k l.
Proof.
  intros k l H. unfold mem_str in H. apply existsb_exists in H as (x & Hin & E). apply String.eqb_eq in E. now subst.
Qed.

Lemma live_known_b_ok : forall s ids, live_known_b s ids = true ->
  forall j r, In (j, r) (n_status s) -> n_now s < dl_at (n_now s) r -> In j ids /\ r_prio r = op_prio (n_ops s j).
Proof.
  intros s ids H j r Hin Hl. unfold live_known_b in H. rewrite forallb_forall in H. specialize (H _ Hin). simpl in H.
  apply orb_prop in H as [H | H].
  - apply negb_true_iff in H. apply Z.ltb_ge in H. lia.
  - apply andb_prop in H as [H1 H2]. split; [now apply mem_str_In | now apply Z.eqb_eq].
Qed.

Definition two_ops_check : bool :=
  match run (net0 0) tr_two_ops with
  | Some s => synced_b s "a" && synced_b s "b" && own_b s "a" && own_b s "b" && live_known_b s ["a"; "b"] &&
              op_toggle (n_ops s "a") && negb (op_toggle (n_ops s "b"))
  | None => false
  end.

Lemma two_ops_example :
  exists s, run (net0 0) tr_two_ops = Some s /\
    (forall i, In i ["a"; "b"] -> synced s i) /\
    (forall i, In i ["a"; "b"] -> exists r, In (i, r) (n_status s) /\ r_prio r = op_prio (n_ops s i) /\ n_now s < dl_at (n_now s) r) /\
    (forall j r, In (j, r) (n_status s) -> n_now s < dl_at (n_now s) r -> In j ["a"; "b"] /\ r_prio r = op_prio (n_ops s j)) /\
    op_toggle (n_ops s "a") = true /\ op_toggle (n_ops s "b") = false.
Proof.
  assert (C : two_ops_check = true) by (vm_compute; reflexivity).
  unfold two_ops_check in C. destruct (run (net0 0) tr_two_ops) as [s|]; [|discriminate].
  apply andb_prop in C as [C H6]. apply andb_prop in C as [C H5]. apply andb_prop in C as [C H4].
  apply andb_prop in C as [C H3]. apply andb_prop in C as [C H2]. apply andb_prop in C as [C H1]. exists s. split; [reflexivity|].
  split; [|split; [|split; [|split]]].
  - intros i [<- | [<- | []]]; now apply synced_b_ok.
  - intros i [<- | [<- | []]]; now apply own_b_ok.
  - now apply live_known_b_ok.
  - assumption.
  - now apply negb_true_iff.
Qed.
