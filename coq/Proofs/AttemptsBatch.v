(* C11 — several handlers per batch: every handler's projection is a run of the generic driver, for EVERY lifecycle
   that picks distinct handlers among the awakened ones; the three lifecycles of lifecycles.py do; the run_activity
   loop over several handlers is accepted; the parent of sub-handlers is re-entered exactly when the first of its
   pending sub-handlers is due. *)
From Coq Require Import ZArith List Bool Arith Lia.
From KV Require Import Model.Outcome Model.Attempts Model.AttemptsBatch Proofs.Outcome.
Import ListNotations.
Open Scope Z_scope.

(* ------------------------------------------------------------------ exec_plan *)

Lemma exec_rx_irrelevant : forall e c n rc rx rx' r,
  snd (exec e c n rc rx r) = false -> exec e c n rc rx' r = exec e c n rc rx r.
Proof. intros e c n rc rx rx' r. unfold exec. destruct (strict c n rc); simpl; [reflexivity | discriminate]. Qed.

Lemma exec_plan_spec : forall e slots plan cursor,
  cursor <= snd (exec_plan e slots cursor plan) /\
  forall x, In x (fst (exec_plan e slots cursor plan)) ->
    cursor <= x_tc x /\ x_tc x <= x_tx x /\ x_tx x <= snd (exec_plan e slots cursor plan) /\
    In (x_idx x) plan /\
    exists sl, nth_error slots (x_idx x) = Some sl /\
      x_r x = fst (next_act (b_sc sl)) /\
      (x_out x, x_called x) = exec e (b_cfg sl) (s_retries (b_hs sl)) (runtime (x_tc x) (b_hs sl))
                                   (runtime (x_tx x) (b_hs sl)) (x_r x).
Proof.
  intros e slots plan; induction plan as [|i rest IH]; intros cursor; simpl.
  - split; [lia | intros x []].
  - destruct (nth_error slots i) as [sl|] eqn:E.
    + set (r := fst (next_act (b_sc sl))). set (tx := cursor + Z.max 0 (snd (next_act (b_sc sl)))).
      set (oc := exec e (b_cfg sl) (s_retries (b_hs sl)) (runtime cursor (b_hs sl)) (runtime tx (b_hs sl)) r).
      set (cursor' := if snd oc then tx else cursor).
      assert (Hc : cursor <= cursor') by (unfold cursor', tx; destruct (snd oc); lia).
      destruct (IH cursor') as [H1 H2]. simpl. split; [lia |].
      intros x [<- | Hx]; simpl.
      * split; [lia |]. split; [exact Hc |]. split; [exact H1 |]. split; [left; reflexivity |].
        exists sl. split; [exact E |]. split; [reflexivity |].
        unfold cursor'. destruct (snd oc) eqn:S.
        -- fold oc. rewrite <- S. destruct oc; reflexivity.
        -- assert (Heq : exec e (b_cfg sl) (s_retries (b_hs sl)) (runtime cursor (b_hs sl)) (runtime cursor (b_hs sl)) r = oc)
             by (apply exec_rx_irrelevant; exact S).
           rewrite Heq, <- S. destruct oc; reflexivity.
      * destruct (H2 x Hx) as [A [B [C [D F]]]]. split; [lia |]. split; [exact B |]. split; [exact C |].
        split; [right; exact D | exact F].
    + destruct (IH cursor) as [H1 H2]. split; [exact H1 |].
      intros x Hx. destruct (H2 x Hx) as [A [B [C [D F]]]]. repeat split; auto.
Qed.

(* ------------------------------------------------------------------ projection onto one handler *)

Definition Proj (e : env) (clk : Z) (sl : bslot) : Prop :=
  exists t0 tr c0, run e (b_cfg sl) (init t0) tr = Some (mkD (b_hs sl) c0 (b_log sl) []) /\ c0 <= clk /\
                   forallb is_tick tr = true.

Lemma Proj_mono : forall e clk clk' sl, clk <= clk' -> Proj e clk sl -> Proj e clk' sl.
Proof. intros e clk clk' sl H [t0 [tr [c0 [A [B C]]]]]. exists t0, tr, c0. repeat split; auto. lia. Qed.

Lemma Forall_map_idx : forall (A B : Type) (Q : B -> Prop) (f : nat -> A -> B) (l : list A) (k : nat),
  (forall j a, nth_error l j = Some a -> Q (f (k + j)%nat a)) -> Forall Q (map_idx f k l).
Proof.
  intros A B Q f l; induction l as [|a l IH]; intros k H; simpl; constructor.
  - specialize (H 0%nat a eq_refl). rewrite Nat.add_0_r in H. exact H.
  - apply IH. intros j b Hj. specialize (H (S j) b Hj). rewrite Nat.add_succ_r in H. exact H.
Qed.

Lemma forallb_awake : forall ta slots plan i, forallb (awake_at ta slots) plan = true -> In i plan -> awake_at ta slots i = true.
Proof. intros ta slots plan i H Hi. rewrite forallb_forall in H. apply H. exact Hi. Qed.

Lemma map_idx_cfg : forall te xs l k, map b_cfg (map_idx (apply_out te xs) k l) = map b_cfg l.
Proof.
  intros te xs l; induction l as [|a l IH]; intros k; simpl; [reflexivity |].
  rewrite IH. f_equal. unfold apply_out. destruct (find_exec k xs); reflexivity.
Qed.

Lemma bstep_proj : forall e s l s', Forall (Proj e (bs_clock s)) (bs_slots s) -> bstep e s l = Some s' ->
  Forall (Proj e (bs_clock s')) (bs_slots s') /\ bs_clock s <= bs_clock s' /\
  map b_cfg (bs_slots s') = map b_cfg (bs_slots s).
Proof.
  intros e s [ta plan] s' HP Hs. unfold bstep in Hs.
  destruct ((bs_clock s <=? ta) && plan_ok ta (bs_slots s) plan) eqn:G; [| discriminate].
  apply andb_prop in G; destruct G as [G1 G2]. apply Z.leb_le in G1.
  unfold plan_ok in G2. apply andb_prop in G2; destruct G2 as [_ Haw].
  injection Hs as <-. simpl.
  destruct (exec_plan_spec e (bs_slots s) plan ta) as [Hte Hx].
  set (xs := fst (exec_plan e (bs_slots s) ta plan)) in *.
  set (te := snd (exec_plan e (bs_slots s) ta plan)) in *.
  split; [| split; [lia |]].
  - apply Forall_map_idx. intros j sl Hj. simpl.
    assert (HPj : Proj e (bs_clock s) sl).
    { rewrite Forall_forall in HP. apply HP. eapply nth_error_In; eauto. }
    unfold apply_out. destruct (find_exec j xs) as [x|] eqn:F.
    + apply find_some in F. destruct F as [Hin Hidx]. apply Nat.eqb_eq in Hidx.
      destruct (Hx x Hin) as [A [B [C [D [sl' [E1 [E2 E3]]]]]]].
      rewrite Hidx, Hj in E1. injection E1 as <-.
      assert (Hawj : awakened ta (b_hs sl) = true).
      { pose proof (forallb_awake _ _ _ _ Haw D) as W. unfold awake_at in W. rewrite Hidx, Hj in W. exact W. }
      destruct HPj as [t0 [tr [c0 [R [Hc0 Htk]]]]].
      exists t0, (tr ++ [Tick ta (x_tc x) (x_tx x) te (x_r x)]), te. simpl.
      split; [| split; [lia | rewrite forallb_app, Htk; reflexivity]].
      rewrite run_app, R. cbn [run]. unfold step. cbn [d_clock d_hs d_log d_past].
      assert (G : (c0 <=? ta) && (ta <=? x_tc x) && (x_tc x <=? x_tx x) && (x_tx x <=? te) = true).
      { repeat (apply andb_true_intro; split); apply Z.leb_le; lia. }
      rewrite G, Hawj, <- E3. reflexivity.
    + eapply Proj_mono; [| exact HPj]. lia.
  - apply map_idx_cfg.
Qed.

Lemma brun_proj : forall e tr s s', Forall (Proj e (bs_clock s)) (bs_slots s) -> brun e s tr = Some s' ->
  Forall (Proj e (bs_clock s')) (bs_slots s') /\ map b_cfg (bs_slots s') = map b_cfg (bs_slots s).
Proof.
  intros e tr; induction tr as [|l tr IH]; intros s s' HP Hr; simpl in Hr.
  - injection Hr as <-. auto.
  - destruct (bstep e s l) as [s1|] eqn:Hs; [| discriminate].
    destruct (bstep_proj _ _ _ _ HP Hs) as [H1 [_ H3]].
    destruct (IH s1 s' H1 Hr) as [K1 K2]. split; [exact K1 | congruence].
Qed.

Lemma binit_proj : forall e t0 hs, Forall (Proj e t0) (bs_slots (binit t0 hs)).
Proof.
  intros e t0 hs. unfold binit. simpl. apply Forall_forall. intros sl Hin. apply in_map_iff in Hin.
  destruct Hin as [cs [<- _]]. exists t0, [], t0. simpl. repeat split; try reflexivity; lia.
Qed.

Lemma Proj_lifetime : forall e clk sl, Proj e clk sl ->
  lifetime_ok e (b_cfg sl) (b_log sl) /\
  (finished (b_hs sl) = true -> forall t, awakened t (b_hs sl) = false).
Proof.
  intros e clk sl [t0 [tr [c0 [R _]]]]. split.
  - apply (inv_lifetime e (b_cfg sl) (mkD (b_hs sl) c0 (b_log sl) [])).
    eapply run_inv; [apply inv_init | exact R].
  - intros Hf t. apply finished_not_awakened. exact Hf.
Qed.

(* every handler of every batch run, under EVERY lifecycle, obeys the policy *)
Lemma batch_lifetimes : forall e t0 hs tr s, brun e (binit t0 hs) tr = Some s ->
  Forall (fun sl => lifetime_ok e (b_cfg sl) (b_log sl)) (bs_slots s) /\
  map b_cfg (bs_slots s) = map fst hs.
Proof.
  intros e t0 hs tr s Hr.
  destruct (brun_proj e tr (binit t0 hs) s (binit_proj e t0 hs) Hr) as [HP Hc]. split.
  - eapply Forall_impl; [| exact HP]. intros sl H. apply (Proj_lifetime _ _ _ H).
  - rewrite Hc. unfold binit. simpl. rewrite map_map. reflexivity.
Qed.

(* ------------------------------------------------------------------ the lifecycles of lifecycles.py are plan_ok *)

Lemma nodupb_of_NoDup : forall l, NoDup l -> nodupb l = true.
Proof.
  induction 1 as [|x l Hn _ IH]; simpl; [reflexivity |]. rewrite IH, andb_true_r.
  apply negb_true_iff. destruct (existsb (Nat.eqb x) l) eqn:E; [| reflexivity].
  apply existsb_exists in E. destruct E as [y [Hy Heq]]. apply Nat.eqb_eq in Heq. subst y. contradiction.
Qed.

Lemma todo_ok : forall ta slots, plan_ok ta slots (todo ta slots) = true.
Proof.
  intros ta slots. unfold plan_ok, todo. apply andb_true_intro; split.
  - apply nodupb_of_NoDup. apply NoDup_filter. apply seq_NoDup.
  - apply forallb_forall. intros i Hi. apply filter_In in Hi. destruct Hi as [_ H]. exact H.
Qed.

Lemma plan_ok_single : forall ta slots td i, plan_ok ta slots td = true -> In i td -> plan_ok ta slots [i] = true.
Proof.
  intros ta slots td i H Hi. unfold plan_ok in *. apply andb_prop in H; destruct H as [_ H].
  simpl. rewrite (forallb_awake _ _ _ _ H Hi). reflexivity.
Qed.

Lemma argmin_in : forall slots l best, In (argmin_retries slots best l) (best :: l).
Proof.
  intros slots l; induction l as [|i l IH]; intros best; simpl; [left; reflexivity |].
  destruct (IH (if retries_at slots i <? retries_at slots best then i else best)) as [H | H].
  - destruct (retries_at slots i <? retries_at slots best); [right; left; exact H | left; exact H].
  - right; right; exact H.
Qed.

Lemma choose_ok : forall lc ta slots, plan_ok ta slots (choose lc slots (todo ta slots)) = true.
Proof.
  intros lc ta slots. pose proof (todo_ok ta slots) as H. destruct lc; simpl.
  - exact H.
  - destruct (todo ta slots) as [|i l] eqn:E; [reflexivity |]. simpl.
    apply (plan_ok_single ta slots (i :: l) i H). left; reflexivity.
  - destruct (todo ta slots) as [|i l] eqn:E; [reflexivity |].
    apply (plan_ok_single ta slots (i :: l) _ H). apply argmin_in.
Qed.

(* run_activity over several handlers: accepted by the batch LTS *)
Lemma mact_accepted : forall fuel e lc now slots clk, clk <= now ->
  exists s', brun e (mkB slots clk) (mact_trace fuel e lc now slots) = Some s'.
Proof.
  induction fuel as [|f IH]; intros e lc now slots clk Hc.
  - eexists; reflexivity.
  - cbn [mact_trace]. destruct (st_done (map b_hs slots)); [eexists; reflexivity |].
    cbn [brun]. unfold bstep. cbn [bs_clock bs_slots].
    assert (G : (clk <=? now) && plan_ok now slots (choose lc slots (todo now slots)) = true).
    { apply andb_true_intro; split; [apply Z.leb_le; exact Hc | apply choose_ok]. }
    rewrite G. apply IH. apply sleep_to_ge.
Qed.

Lemma multi_activity_ok : forall fuel e lc t0 hs,
  exists s, brun e (binit t0 hs) (mact_trace fuel e lc t0 (bs_slots (binit t0 hs))) = Some s /\
            Forall (fun sl => lifetime_ok e (b_cfg sl) (b_log sl)) (bs_slots s) /\
            map b_cfg (bs_slots s) = map fst hs.
Proof.
  intros. destruct (mact_accepted fuel e lc t0 (bs_slots (binit t0 hs)) t0 (Z.le_refl _)) as [s Hr].
  change (mkB (bs_slots (binit t0 hs)) t0) with (binit t0 hs) in Hr.
  exists s. split; [exact Hr |]. apply (batch_lifetimes e t0 hs _ s Hr).
Qed.

(* ------------------------------------------------------------------ sub-handlers: the parent *)

Lemma zmin_list_spec : forall l m, zmin_list l = Some m -> In m l /\ forall y, In y l -> m <= y.
Proof.
  induction l as [|x l IH]; intros m H; simpl in H; [discriminate |].
  destruct (zmin_list l) as [m'|] eqn:E.
  - injection H as <-. destruct (IH m' eq_refl) as [Hin Hle]. split.
    + destruct (Z.min_spec x m') as [[_ ->] | [_ ->]]; [left; reflexivity | right; exact Hin].
    + intros y [<- | Hy]; [lia | specialize (Hle y Hy); lia].
  - injection H as <-. destruct l as [|z l]; [| simpl in E; destruct (zmin_list l); discriminate].
    split; [left; reflexivity | intros y [<- | []]; lia].
Qed.

Lemma zmin_list_some : forall l, l <> [] -> exists m, zmin_list l = Some m.
Proof. intros [|x l] H; [contradiction |]. simpl. destruct (zmin_list l); eexists; reflexivity. Qed.

Definition pending (s : hstate) : bool := s_active s && negb (finished s).
Definition due_in (te : Z) (s : hstate) : Z := match s_delayed s with Some d => Z.max 0 (d - te) | None => 0 end.

Lemma not_done_pending : forall l, st_done l = false -> filter pending l <> [].
Proof.
  induction l as [|s l IH]; simpl; [discriminate |]. unfold pending at 1.
  destruct (s_active s); simpl; [| exact IH].
  destruct (finished s); simpl; [exact IH | discriminate].
Qed.

Lemma pending_awake : forall te t s, te <= t -> pending s = true -> (due_in te s <= t - te <-> awakened t s = true).
Proof.
  intros te t s Hle Hp. unfold pending in Hp. apply andb_prop in Hp; destruct Hp as [_ Hf]. apply negb_true_iff in Hf.
  rewrite awakened_spec. unfold due_in. destruct (s_delayed s) as [d|]; split.
  - intros H. split; [exact Hf |]. intros d' Hd; injection Hd as <-. lia.
  - intros [_ H]. specialize (H d eq_refl). lia.
  - intros _. split; [exact Hf | intros d Hd; discriminate].
  - intros _. lia.
Qed.

(* `if not state.done: raise HandlerChildrenRetry(delay=state.delay)`: the parent stays unfinished and is
   awakened again EXACTLY when one of its pending sub-handlers is; once all are done it returns *)
Lemma parent_follows_children : forall e c n rx te children parent,
  (st_done children = true -> sub_raise te children = ROk) /\
  (st_done children = false ->
     let parent' := with_outcome te parent (classify e c n rx (sub_raise te children)) in
     finished parent' = false /\ s_retries parent' = s_retries parent + 1 /\
     forall t, te <= t ->
       (awakened t parent' = true <-> exists ch, In ch children /\ s_active ch = true /\ awakened t ch = true)).
Proof.
  intros e c n rx te children parent. unfold sub_raise. split; [intros ->; reflexivity |].
  intros Hnd. rewrite Hnd. cbv zeta. simpl classify.
  split; [reflexivity |]. split; [reflexivity |].
  intros t Hle.
  assert (Hd : st_delays te children = map (due_in te) (filter pending children)) by reflexivity.
  destruct (zmin_list_some (map (due_in te) (filter pending children))) as [m Hm].
  { intro H. apply map_eq_nil in H. exact (not_done_pending _ Hnd H). }
  destruct (zmin_list_spec _ _ Hm) as [Hin Hmin].
  unfold st_delay. rewrite Hd, Hm. rewrite awakened_spec. unfold with_outcome; simpl. split.
  - intros [_ H]. specialize (H (te + m) eq_refl).
    apply in_map_iff in Hin. destruct Hin as [ch [Hdue Hch]]. apply filter_In in Hch. destruct Hch as [Hc Hp].
    exists ch. split; [exact Hc |]. split; [unfold pending in Hp; apply andb_prop in Hp; tauto |].
    apply (pending_awake te t ch Hle Hp). lia.
  - intros [ch [Hc [Ha Haw]]]. split; [reflexivity |]. intros d Hd'. injection Hd' as <-.
    assert (Hp : pending ch = true).
    { unfold pending. rewrite Ha. rewrite (awakened_unfinished _ _ Haw). reflexivity. }
    assert (Hdue : due_in te ch <= t - te) by (apply (pending_awake te t ch Hle Hp); exact Haw).
    specialize (Hmin (due_in te ch)). assert (In (due_in te ch) (map (due_in te) (filter pending children))).
    { apply in_map. apply filter_In. split; assumption. }
    specialize (Hmin H). lia.
Qed.

(* non-vacuity: two handlers, all_at_once: the second one's outcome is folded in when the whole batch is over *)
Example batch_example :
  let e := mkEnv MTemporary 1000 in
  match brun e (binit 0 [(mkCfg None None None None, [(RTemp (Some 500), 250)]); (mkCfg None None (Some 1) None, [(RArb, 500)])])
             (mact_trace 5 e LAllAtOnce 0 (bs_slots (binit 0 [(mkCfg None None None None, [(RTemp (Some 500), 250)]);
                                                               (mkCfg None None (Some 1) None, [(RArb, 500)])]))) with
  | Some s => map (fun sl => map obs_of (rev (b_log sl))) (bs_slots s) = [[(0, 0, 750); (1250, 1, 1250)]; [(250, 0, 750)]]
  | None => False
  end.
Proof. vm_compute. reflexivity. Qed.

Example parent_example :
  let kids := [mkHS true 0 None (Some 2000) 1 false false; mkHS true 0 None (Some 1500) 1 false false;
               mkHS true 0 (Some 900) None 1 true false] in
  sub_raise 1000 kids = RChild (Some 500) /\ st_done kids = false.
Proof. vm_compute. split; reflexivity. Qed.
