(* Lemmas about Model/Consistency.v (C07). *)
From Coq Require Import ZArith String Bool List Lia.
From KV Require Import Model.Consistency.
Import ListNotations.
Open Scope Z_scope.

(* the worker's locals represent exactly the outstanding own patch of the specification *)
Definition Rel (T : Z) (w : wst) (o : option (rv * Z)) : Prop :=
  match o with
  | None => expected w = None /\ deadline w = None
  | Some (r, tp) => expected w = Some r /\ deadline w = Some (tp + T)
  end.

Lemma rel_init : forall T, Rel T w0 None.
Proof. intros. split; reflexivity. Qed.

Lemma rel_event : forall T w o v, Rel T w o -> Rel T (on_event w v) (spec_event o v).
Proof.
  intros T w o v R. unfold on_event, spec_event. destruct o as [[r tp]|].
  - destruct R as [E D]. rewrite E. destruct v as [y|]; [|split; assumption].
    destruct (String.eqb r y); [split; reflexivity|split; assumption].
  - destruct R as [E D]. rewrite E. split; assumption.
Qed.

Lemma rel_patch : forall T w o n t, Rel T w o -> Rel T (on_processed T t w n) (spec_patch T o n t).
Proof.
  intros T w o n t R. unfold on_processed, spec_patch. destruct n as [r|]; [|exact R].
  destruct (Z.eqb T 0); [exact R|]. split; reflexivity.
Qed.

(* the gate: if change handlers run, nothing is outstanding or the timeout has elapsed *)
Lemma gate_barrier : forall T w o p, Rel T w o -> runs_handlers (gin_of w p) = true ->
  allowed T o (o_until (gate (gin_of w p))).
Proof.
  intros T w o p R H. destruct o as [[r tp]|]; [|exact I].
  destruct R as [_ D]. unfold runs_handlers in H.
  apply andb_prop in H. destruct H as [H HG]. apply andb_prop in H. destruct H as [HGO HR].
  apply negb_true_iff in HG.
  unfold gate, gin_of in *. cbn [g_required g_gone g_ctime g_pie g_pne g_now g_press o_go o_until o_slept] in *.
  rewrite D in *. rewrite HR, HG in *. cbn [orb andb negb] in *.
  destruct (p_pne p && negb (tp + T =? 0)) eqn:S; cbn [andb] in HGO |- *.
  - destruct (tp + T - p_begin p <=? 0) eqn:L.
    + apply Z.leb_le in L. simpl. lia.
    + destruct (p_press p) as [x|]; simpl.
      * destruct (x <? tp + T); simpl in *; [discriminate|lia].
      * lia.
  - simpl in HGO. discriminate.
Qed.

Theorem barrier : forall T l w o, Rel T w o ->
  Forall (fun x => allowed T (snd x) (fst x)) (exec T w o l).
Proof.
  intros T l. induction l as [|p l IH]; intros w o R; simpl; [constructor|].
  pose proof (rel_event T w o (p_rv p) R) as R1.
  apply Forall_app. split.
  - destruct (runs_handlers (gin_of (on_event w (p_rv p)) p)) eqn:E; [|constructor].
    constructor; [|constructor]. simpl. apply gate_barrier; assumption.
  - apply IH. apply rel_patch. exact R1.
Qed.

Theorem barrier_from_start : forall T l,
  Forall (fun x => allowed T (snd x) (fst x)) (exec T w0 None l).
Proof. intros. apply barrier. apply rel_init. Qed.

(* a non-empty carried patch: no handlers, no waiting *)
Theorem skip_when_pending_patch : forall g, g_required g = true ->
  (g_pie g = false -> o_go (gate g) = false) /\ (g_pne g = false -> o_slept (gate g) = false).
Proof.
  intros g R. unfold gate. cbn [o_go o_slept]. rewrite R. split; intros E; rewrite E.
  - rewrite andb_false_r. reflexivity.
  - rewrite andb_false_r. reflexivity.
Qed.

(* the low-level part is neither delayed by nor dependent on the barrier *)
Theorem low_level_not_delayed : forall g,
  c_low_at (cycle g) = g_now g /\
  (forall ct press, c_low_at (cycle (mkG (g_required g) (g_gone g) ct (g_pie g) (g_pne g) (g_now g) press)) = c_low_at (cycle g)) /\
  (g_required g = false -> gate g = mkO false (g_now g) true).
Proof.
  intros g. split; [reflexivity|]. split; [reflexivity|].
  intros R. unfold gate. rewrite R. reflexivity.
Qed.

(* the finaliser is released after the gate only; with a changing cause that means: consistent *)
Theorem release_partial : forall T w o p del ong blk nod, Rel T w o ->
  p_required p = true -> p_gone p = false ->
  releases (gin_of w p) del ong blk nod = true -> allowed T o (o_until (gate (gin_of w p))).
Proof.
  intros T w o p del ong blk nod R HR HG H. apply gate_barrier; [exact R|].
  unfold releases in H. unfold runs_handlers. cbn [gin_of g_required g_gone].
  rewrite HR, HG. destruct (o_go (gate (gin_of w p))); [reflexivity|discriminate].
Qed.

Theorem release_refuted : exists T w o p, Rel T w o /\ releases (gin_of w p) false true true true = true /\
  ~ allowed T o (o_until (gate (gin_of w p))).
Proof.
  exists 24, (mkW (Some "7"%string) (Some 124)), (Some ("7"%string, 100)),
         (mkP (Some "6"%string) 101 false false true true None None 101).
  split; [split; reflexivity|]. split; [reflexivity|]. simpl. lia.
Qed.

(* worker-side facts *)
Theorem echo_clears : forall w r, expected w = Some r -> on_event w (Some r) = w0.
Proof. intros w r E. unfold on_event. rewrite E, String.eqb_refl. reflexivity. Qed.

Theorem foreign_keeps : forall w v, (forall r, expected w = Some r -> v <> Some r) -> on_event w v = w.
Proof.
  intros w v H. unfold on_event. destruct (expected w) as [x|] eqn:E; [|reflexivity].
  destruct v as [y|]; [|reflexivity]. destruct (String.eqb x y) eqn:Q; [|reflexivity].
  apply String.eqb_eq in Q. subst. exfalso. apply (H y); reflexivity.
Qed.

Theorem worker_outlives_deadline : forall idle now w d, deadline w = Some d ->
  d <= now + wait_timeout idle now w /\ idle <= wait_timeout idle now w.
Proof. intros idle now w d E. unfold wait_timeout. rewrite E. lia. Qed.

(* the finalizer pre-step: exhaustive table *)
Theorem pre_gate_table : forall c m b o,
  pre_gate c m b o =
    if m && negb b && negb o then (false, true) else if negb m && b then (false, true) else (c, false).
Proof. reflexivity. Qed.

(* ---------- non-vacuity ---------- *)
(* T = 3 s = 24/8.  Event rv5 processed at t=80, handler patches -> rv7 at t=80.  Foreign rv6 arrives at 88:
   the gate sleeps, is woken by the echo's arrival (pressure at 96) -> no handlers.  Echo rv7 at 96: handlers run. *)
Definition ex_steps : list pstep :=
  [mkP (Some "5"%string) 80 true false true true None (Some "7"%string) 80;
   mkP (Some "6"%string) 88 true false true true (Some 96) None 96;
   mkP (Some "7"%string) 96 true false true true None None 96].

Example ex_echo : exec 24 w0 None ex_steps = [(80, None); (96, None)].
Proof. vm_compute. reflexivity. Qed.

(* the echo never arrives: the foreign event's handlers run exactly when the timeout elapses *)
Definition ex_steps_late : list pstep :=
  [mkP (Some "5"%string) 80 true false true true None (Some "7"%string) 80;
   mkP (Some "6"%string) 88 true false true true None None 104].

Example ex_timeout : exec 24 w0 None ex_steps_late = [(80, None); (104, Some ("7"%string, 80))].
Proof. vm_compute. reflexivity. Qed.
