(* Lemmas about Model/Consistency.v (C07). *)
From Coq Require Import ZArith String Bool List Lia.
From KV Require Import Model.Consistency.
Import ListNotations.
Open Scope Z_scope.

(* the worker's locals represent exactly the outstanding own patch of the specification *)
Definition Rel (T : Z) (w : wst) (o : option (rv * Z)) : Prop :=
  match o with
  | None => expected w = None /\ deadline w = None
  | Some (r, tp) => expected w = Some r /\ deadline w = Some (tp + T)
  end.

Lemma rel_init : forall T, Rel T w0 None.
Proof. intros. split; reflexivity. Qed.

Lemma rel_event : forall T w o v, Rel T w o -> Rel T (on_event w v) (spec_event o v).
Proof.
  intros T w o v R. unfold on_event, spec_event. destruct o as [[r tp]|].
  - destruct R as [E D]. rewrite E. destruct v as [y|]; [|split; assumption].
    destruct (String.eqb r y); [split; reflexivity|split; assumption].
  - destruct R as [E D]. rewrite E. split; assumption.
Qed.

Lemma rel_patch : forall T w o n t, Rel T w o -> Rel T (on_processed T t w n) (spec_patch T o n t).
Proof.
  intros T w o n t R. unfold on_processed, spec_patch. destruct n as [r|]; [|exact R].
  destruct (Z.eqb T 0); [exact R|]. split; reflexivity.
Qed.

(* the gate: if change handlers run, nothing is outstanding or the timeout has elapsed *)
Lemma gate_barrier : forall T w o p, Rel T w o -> runs_handlers (gin_of w p) = true ->
  allowed T o (o_until (gate (gin_of w p))).
Proof.
  intros T w o p R H. destruct o as [[r tp]|]; [|exact I].
  destruct R as [_ D]. unfold runs_handlers in H.
  apply andb_prop in H. destruct H as [H HG]. apply andb_prop in H. destruct H as [HGO HR].
  apply negb_true_iff in HG.
  unfold gate, gin_of in *. cbn [g_required g_gone g_ctime g_pie g_pne g_now g_press o_go o_until o_slept] in *.
  rewrite D in *. rewrite HR, HG in *. cbn [orb andb negb] in *.
  destruct (p_pne p && negb (tp + T =? 0)) eqn:S; cbn [andb] in HGO |- *.
  - destruct (tp + T - p_begin p <=? 0) eqn:L.
    + apply Z.leb_le in L. simpl. lia.
    + destruct (p_press p) as [x|]; simpl.
      * destruct (x <? tp + T); simpl in *; [discriminate|lia].
      * lia.
  - simpl in HGO. discriminate.
Qed.

Theorem barrier : forall T l w o, Rel T w o ->
  Forall (fun x => allowed T (snd x) (fst x)) (exec T w o l).
Proof.
  intros T l. induction l as [|p l IH]; intros w o R; simpl; [constructor|].
  pose proof (rel_event T w o (p_rv p) R) as R1.
  apply Forall_app. split.
  - destruct (runs_handlers (gin_of (on_event w (p_rv p)) p)) eqn:E; [|constructor].
    constructor; [|constructor]. simpl. apply gate_barrier; assumption.
  - apply IH. apply rel_patch. exact R1.
Qed.

Theorem barrier_from_start : forall T l,
  Forall (fun x => allowed T (snd x) (fst x)) (exec T w0 None l).
Proof. intros. apply barrier. apply rel_init. Qed.

(* a non-empty carried patch: no handlers, no waiting *)
Theorem skip_when_pending_patch : forall g, g_required g = true ->
  (g_pie g = false -> o_go (gate g) = false) /\ (g_pne g = false -> o_slept (gate g) = false).
Proof.
  intros g R. unfold gate. cbn [o_go o_slept]. rewrite R. split; intros E; rewrite E.
  - rewrite andb_false_r. reflexivity.
  - rewrite andb_false_r. reflexivity.
Qed.

(* the low-level part is neither delayed by nor dependent on the barrier *)
Theorem low_level_not_delayed : forall g,
  c_low_at (cycle g) = g_now g /\
  (forall ct press, c_low_at (cycle (mkG (g_required g) (g_gone g) ct (g_pie g) (g_pne g) (g_now g) press)) = c_low_at (cycle g)) /\
  (g_required g = false -> gate g = mkO false (g_now g) true).
Proof.
  intros g. split; [reflexivity|]. split; [reflexivity|].
  intros R. unfold gate. rewrite R. reflexivity.
Qed.

(* the finaliser is released after the gate only; with a changing cause that means: consistent *)
Theorem release_partial : forall T w o p del ong blk nod, Rel T w o ->
  p_required p = true -> p_gone p = false ->
  releases (gin_of w p) del ong blk nod = true -> allowed T o (o_until (gate (gin_of w p))).
Proof.
  intros T w o p del ong blk nod R HR HG H. apply gate_barrier; [exact R|].
  unfold releases in H. unfold runs_handlers. cbn [gin_of g_required g_gone].
  rewrite HR, HG. destruct (o_go (gate (gin_of w p))); [reflexivity|discriminate].
Qed.

Theorem release_refuted : exists T w o p, Rel T w o /\ releases (gin_of w p) false true true true = true /\
  ~ allowed T o (o_until (gate (gin_of w p))).
Proof.
  exists 24, (mkW (Some "7"%string) (Some 124)), (Some ("7"%string, 100)),
         (mkP (Some "6"%string) 101 false false true true None None 101).
  split; [split; reflexivity|]. split; [reflexivity|]. simpl. lia.
Qed.

(* worker-side facts *)
Theorem echo_clears : forall w r, expected w = Some r -> on_event w (Some r) = w0.
Proof. intros w r E. unfold on_event. rewrite E, String.eqb_refl. reflexivity. Qed.

Theorem foreign_keeps : forall w v, (forall r, expected w = Some r -> v <> Some r) -> on_event w v = w.
Proof.
  intros w v H. unfold on_event. destruct (expected w) as [x|] eqn:E; [|reflexivity].
  destruct v as [y|]; [|reflexivity]. destruct (String.eqb x y) eqn:Q; [|reflexivity].
  apply String.eqb_eq in Q. subst. exfalso. apply (H y); reflexivity.
Qed.

Theorem worker_outlives_deadline : forall idle now w d, deadline w = Some d ->
  d <= now + wait_timeout idle now w /\ idle <= wait_timeout idle now w.
Proof. intros idle now w d E. unfold wait_timeout. rewrite E. lia. Qed.

(* the finalizer pre-step: exhaustive table *)
Theorem pre_gate_table : forall c m b o,
  pre_gate c m b o =
    if m && negb b && negb o then (false, true) else if negb m && b then (false, true) else (c, false).
Proof. reflexivity. Qed.

(* ---------- non-vacuity ---------- *)
(* T = 3 s = 24/8.  Event rv5 processed at t=80, handler patches -> rv7 at t=80.  Foreign rv6 arrives at 88:
   the gate sleeps, is woken by the echo's arrival (pressure at 96) -> no handlers.  Echo rv7 at 96: handlers run. *)
Definition ex_steps : list pstep :=
  [mkP (Some "5"%string) 80 true false true true None (Some "7"%string) 80;
   mkP (Some "6"%string) 88 true false true true (Some 96) None 96;
   mkP (Some "7"%string) 96 true false true true None None 96].

Example ex_echo : exec 24 w0 None ex_steps = [(80, None); (96, None)].
Proof. vm_compute. reflexivity. Qed.

(* the echo never arrives: the foreign event's handlers run exactly when the timeout elapses *)
Definition ex_steps_late : list pstep :=
  [mkP (Some "5"%string) 80 true false true true None (Some "7"%string) 80;
   mkP (Some "6"%string) 88 true false true true None None 104].

Example ex_timeout : exec 24 w0 None ex_steps_late = [(80, None); (104, Some ("7"%string, 80))].
Proof. vm_compute. reflexivity. Qed.

(* =====================================================================================
   The property in its own words (views and versions), under in-order delivery
   ===================================================================================== *)
Section Views.
Variable ver : rv -> Z.

(* the last own patch is either still outstanding, or its echo was delivered: then everything delivered
   since (in order) is at least as new *)
Definition link (o last : option (rv * Z)) (cur : Z) : Prop :=
  match last with
  | None => o = None
  | Some (r, tp) => o = Some (r, tp) \/ (o = None /\ ver r <= cur)
  end.

Lemma link_event : forall o last cur y, cur <= ver y -> link o last cur ->
  link (spec_event o (Some y)) last (ver y).
Proof.
  intros o last cur y L K. unfold link in *. destruct last as [[r tp]|].
  - destruct K as [->|[-> V]].
    + simpl. destruct (String.eqb r y) eqn:Q.
      * apply String.eqb_eq in Q. subst. right. split; [reflexivity|lia].
      * left. reflexivity.
    + right. split; [reflexivity|lia].
  - subst. reflexivity.
Qed.

Lemma link_patch : forall T o last cur n t,
  link o last cur -> link (spec_patch T o n t) (last_patch T last n t) cur.
Proof.
  intros T o last cur n t K. unfold spec_patch, last_patch. destruct n as [r|]; [|exact K].
  destruct (Z.eqb T 0); [exact K|]. left. reflexivity.
Qed.

Theorem barrier_views_gen : forall T l w o last cur, Rel T w o -> link o last cur ->
  delivered_in_order ver cur l -> Forall (view_ok ver T) (exec_views T w last l).
Proof.
  intros T l. induction l as [|p l IH]; intros w o last cur R K D; simpl; [constructor|].
  destruct D as (y & EY & LE & D').
  pose proof (rel_event T w o (p_rv p) R) as R1. rewrite EY in *.
  pose proof (link_event o last cur y LE K) as K1.
  apply Forall_app. split.
  - destruct (runs_handlers (gin_of (on_event w (Some y)) p)) eqn:E; [|constructor].
    constructor; [|constructor]. unfold view_ok. destruct last as [[r tp]|]; [|exact I].
    pose proof (gate_barrier T _ _ p R1 E) as A. unfold link in K1. destruct K1 as [Q|[Q V]]; rewrite Q in A; simpl in A.
    + right. exact A.
    + left. exact V.
  - eapply IH; [apply rel_patch; exact R1|apply link_patch; exact K1|exact D'].
Qed.

Theorem barrier_views : forall T l cur, delivered_in_order ver cur l ->
  Forall (view_ok ver T) (exec_views T w0 None l).
Proof. intros T l cur D. eapply barrier_views_gen; [apply rel_init|reflexivity|exact D]. Qed.
End Views.

(* ---------- the gate never holds anything longer than needed ---------- *)
Theorem gate_bounded : forall g,
  g_now g <= o_until (gate g) /\
  o_until (gate g) <= Z.max (g_now g) (match g_ctime g with Some t => t | None => g_now g end).
Proof.
  intros g. unfold gate. cbn [o_until].
  destruct (g_required g && negb (match g_ctime g with None => true | Some _ => false end || g_required g && g_gone g)
            && g_pne g && match g_ctime g with Some t => negb (t =? 0) | None => false end) eqn:S.
  - destruct (g_ctime g) as [ct|]; [|rewrite !andb_false_r in S; discriminate].
    destruct (ct - g_now g <=? 0) eqn:L; [lia|]. apply Z.leb_gt in L.
    destruct (g_press g) as [tp|]; [destruct (tp <? ct) eqn:Q; [apply Z.ltb_lt in Q|]|]; lia.
  - destruct (g_ctime g); lia.
Qed.

(* a new event (it sets stream_pressure at tp) ends the wait at once: whatever is processed next — the raw-event
   handlers, the indexing and the daemon/timer spawning of the NEXT event — is not held back by the barrier *)
Theorem next_event_not_delayed : forall g tp, g_press g = Some tp ->
  o_until (gate g) <= Z.max (g_now g) tp.
Proof.
  intros g tp E. unfold gate. cbn [o_until]. rewrite E.
  destruct (g_required g && negb (match g_ctime g with None => true | Some _ => false end || g_required g && g_gone g)
            && g_pne g && match g_ctime g with Some t => negb (t =? 0) | None => false end) eqn:S; [|lia].
  destruct (g_ctime g) as [ct|]; [|rewrite !andb_false_r in S; discriminate].
  destruct (ct - g_now g <=? 0) eqn:L; [lia|]. apply Z.leb_gt in L.
  destruct (tp <? ct) eqn:Q; [lia|]. apply Z.ltb_ge in Q. lia.
Qed.

(* ---------- non-vacuity ---------- *)
Definition ver10 (r : rv) : Z :=
  if String.eqb r "5" then 5 else if String.eqb r "6" then 6 else if String.eqb r "7" then 7 else 0.

Example ex_views_in_order : delivered_in_order ver10 0 ex_steps /\ delivered_in_order ver10 0 ex_steps_late.
Proof. split; simpl; repeat (eexists; split; [reflexivity|split; [vm_compute; discriminate|]]); exact I. Qed.

Example ex_views : exec_views 24 w0 None ex_steps = [(80, Some "5"%string, None); (96, Some "7"%string, Some ("7"%string, 80))]
  /\ exec_views 24 w0 None ex_steps_late = [(80, Some "5"%string, None); (104, Some "6"%string, Some ("7"%string, 80))].
Proof. split; vm_compute; reflexivity. Qed.

Example ex_interrupt : let g := mkG true false (Some 124) true true 100 (Some 110) in
  o_slept (gate g) = true /\ o_until (gate g) = 110 /\ o_go (gate g) = false.
Proof. vm_compute. repeat split. Qed.

Example ex_views_all :
  delivered_in_order ver10 0 ex_steps /\ delivered_in_order ver10 0 ex_steps_late /\
  exec_views 24 w0 None ex_steps = [(80, Some "5"%string, None); (96, Some "7"%string, Some ("7"%string, 80))] /\
  exec_views 24 w0 None ex_steps_late = [(80, Some "5"%string, None); (104, Some "6"%string, Some ("7"%string, 80))].
Proof. exact (conj (proj1 ex_views_in_order) (conj (proj2 ex_views_in_order) ex_views)). Qed.

(* =====================================================================================
   apply(): the version reported to the worker is the version of the LAST response of the cycle
   ===================================================================================== *)
Theorem apply_reports_last_write : forall a, apply_rv a = last (apply_responses a) None.
Proof.
  intros a. unfold apply_rv, apply_responses.
  destruct (a_patch a), (a_touches a); reflexivity.
Qed.

Theorem apply_none_iff_nothing_sent : forall a, apply_responses a = [] -> apply_rv a = None.
Proof. intros a E. rewrite apply_reports_last_write, E. reflexivity. Qed.

(* every request that carries an object version is reported unless a later request follows *)
Theorem apply_any_write_reported : forall a r, last (apply_responses a) None = Some r -> apply_rv a = Some r.
Proof. intros a r E. rewrite apply_reports_last_write. exact E. Qed.

(* the touch-dummy patch after a full sleep is a write like any other *)
Theorem apply_touch_reported : forall a, a_touches a = true -> apply_rv a = a_resp2 a.
Proof. intros a E. unfold apply_rv. rewrite E. reflexivity. Qed.

Example ex_apply_touch :
  let a := mkA false (Some 4) false None (Some "9"%string) in
  a_sleeps a = Some 4 /\ a_touches a = true /\ apply_responses a = [Some "9"%string] /\ apply_rv a = Some "9"%string.
Proof. vm_compute. repeat split. Qed.

Example ex_apply_interrupted :
  let a := mkA false (Some 4) true None (Some "9"%string) in
  a_touches a = false /\ apply_responses a = [] /\ apply_rv a = None.
Proof. vm_compute. repeat split. Qed.

(* The barrier when the processor's result comes from apply(): a cycle is a processed event whose
   `p_patched` is what apply() reports for the requests the cycle sent.  Then "the operator's last write"
   of the barrier theorems is the last response of the last cycle that sent anything. *)
Definition cycle_writes (p : pstep) (a : ain) : Prop := p_patched p = apply_rv a.

Theorem cycle_reports_its_last_write : forall p a, cycle_writes p a ->
  p_patched p = last (apply_responses a) None.
Proof. intros p a H. rewrite H. apply apply_reports_last_write. Qed.

(* ---------- how the processor's wait can end ---------- *)
(* If the gate waits at all (with time left), it is left either by stream_pressure — then the state is NOT taken
   for consistent: no change handlers — or exactly at consistency_time.  No other delay (daemon/timer re-checks
   returned by process_spawning_cause, handler delays) is an input of `gate`, so none can end it: gate_case_sp
   computes the same wait for every list of spawning delays. *)
Theorem wait_ends_by_pressure_or_deadline : forall g ct, g_ctime g = Some ct -> o_slept (gate g) = true ->
  g_now g < ct ->
  (exists tp, g_press g = Some tp /\ tp < ct /\ o_until (gate g) = Z.max (g_now g) tp /\
              (g_required g = true -> o_go (gate g) = false))
  \/ (o_until (gate g) = ct /\ (forall tp, g_press g = Some tp -> ct <= tp)).
Proof.
  intros g ct E S L. unfold gate in *. cbn [o_slept o_until o_go] in *. rewrite E in *. rewrite S.
  assert (D : (ct - g_now g <=? 0) = false) by (apply Z.leb_gt; lia). rewrite D.
  destruct (g_press g) as [tp|].
  - destruct (tp <? ct) eqn:Q.
    + left. exists tp. apply Z.ltb_lt in Q. repeat split; auto. intros R. rewrite R. reflexivity.
    + right. apply Z.ltb_ge in Q. split; [reflexivity|]. intros tp' H. injection H as <-. exact Q.
  - right. split; [reflexivity|]. intros tp H. discriminate.
Qed.

Theorem wait_ignores_other_delays : forall d1 d2 c go m b o ct pie low now press,
  match gate_case_sp d1 c go m b o ct pie low now press, gate_case_sp d2 c go m b o ct pie low now press with
  | (s1, u1, r1, m1, _), (s2, u2, r2, m2, _) => s1 = s2 /\ u1 = u2 /\ r1 = r2 /\ m1 = m2
  end.
Proof. intros. unfold gate_case_sp. repeat split. Qed.

Example ex_wait_deadline : let g := mkG true false (Some 124) true true 100 None in
  o_slept (gate g) = true /\ o_until (gate g) = 124 /\ o_go (gate g) = true.
Proof. vm_compute. repeat split. Qed.
