(* History-level invariant of the closed loop (Model/CycleWorld.v): absent process deaths and absent
   releases of the consistency barrier by timeout, change handlers only ever run on a view whose
   progress records are the CURRENT ones of the server — for every interleaving of external edits,
   time, worker cycles, sleeps and daemon exits.  (C02 "no re-run of finished handlers" and C07
   "never on a view older than the own last write", at the level of whole histories.) *)
From Coq Require Import Arith List Bool Lia Sorted.
From KV Require Import Model.CycleWorld Proofs.CycleWorld.
Import ListNotations.

Section Once.
  Variable hc hu : list hid.
  Variable lc : lifecycle.
  Variable T : nat.

  Notation step := (step hc hu lc T).
  Notation cycle := (cycle hc hu lc T).
  Notation process_at := (process_at hc hu lc).

  (* ---- strict steps: the exclusions of the property text ---- *)
  (* no crash / lost response: no Kill, Start, Relist, no lost writes; no echo delay beyond the timeout:
     the worker never waits out the deadline, and time never passes the deadline while the echo is pending *)
  Definition strict (w : world) (l : label) : Prop :=
    match l with
    | Edit _ | Tick _ | Fire | DaemonExit => True
    | Proc _ waited lost =>
        waited = false /\ lost = 0 /\
        match m_queue (w_mem w) with
        | v :: _ => match expect_after_event (w_mem w) v with Some (_, dl) => w_now w < dl | None => True end
        | [] => True
        end
    | Kill | Start _ | Relist => False
    end.

  Definition fresh_enough (e : option (nat * nat)) (v : obj) : Prop :=
    match e with None => True | Some (rv, _) => rv <= o_rv v end.

  Definition Inv (w : world) : Prop :=
    m_up (w_mem w) = true
    /\ StronglySorted (fun a b => o_rv a < o_rv b) (m_queue (w_mem w))
    /\ Forall (fun v => o_rv v <= o_rv (w_srv w)) (m_queue (w_mem w))
    /\ Forall (fun v => fresh_enough (m_expected (w_mem w)) v -> o_recs v = o_recs (w_srv w)) (m_queue (w_mem w)).

  (* ---- generic list facts ---- *)
  Lemma sorted_app_one (q : list obj) (x : obj) :
    StronglySorted (fun a b => o_rv a < o_rv b) q -> Forall (fun v => o_rv v < o_rv x) q ->
    StronglySorted (fun a b => o_rv a < o_rv b) (q ++ [x]).
  Proof.
    induction q as [|y q IH]; intros S F; cbn.
    - constructor; constructor.
    - inversion S as [|? ? S' Fy]; subst. inversion F as [|? ? Fx F']; subst.
      constructor; [apply IH; assumption|].
      apply Forall_app. split; [exact Fy|constructor; [exact Fx|constructor]].
  Qed.

  Lemma sorted_app (q evs : list obj) (b : nat) :
    StronglySorted (fun a b => o_rv a < o_rv b) q -> Forall (fun v => o_rv v <= b) q ->
    Forall (fun e => b < o_rv e) evs -> StronglySorted (fun a b => o_rv a < o_rv b) evs ->
    StronglySorted (fun a b => o_rv a < o_rv b) (q ++ evs).
  Proof.
    intros S F Fe Se. induction q as [|y r IH]; cbn; [exact Se|].
    inversion S as [|? ? S' Fy]; subst. inversion F as [|? ? Ly F']; subst.
    constructor; [apply IH; assumption|].
    apply Forall_app. split; [exact Fy|]. eapply Forall_impl; [|exact Fe]. cbn. intros; lia.
  Qed.

  (* ---- what a cycle does to the server and the queue ---- *)
  (* the three stages, abstractly: every emitted event is the snapshot of the server after it, versions only
     grow by one per event, and the records of the final server are those of every emitted event *)
  Definition evs_ok (s : obj) (evs : list obj) (s' : obj) : Prop :=
    (evs = [] /\ s' = s) \/ (evs = [s'] /\ o_rv s' = S (o_rv s)).

  Lemma stage_merge_ok d alive s v :
    let '(s1, ev1, fresh) := stage_merge hc hu d alive s v in
    evs_ok s ev1 s1 /\ (fresh = s1 \/ (fresh = v /\ ev1 = [])).
  Proof.
    unfold stage_merge. destruct (has_merge d && alive).
    - destruct (same_content hc hu s (apply_merge hc hu d s)).
      + split; [left; tauto|left; reflexivity].
      + split; [right; split; reflexivity|left; reflexivity].
    - split; [left; tauto|right; tauto].
  Qed.

  Lemma stage_fns_ok d alive s1 fresh :
    let '(s2, ev2, c) := stage_fns d alive s1 fresh in
    evs_ok s1 ev2 s2 /\ o_recs s2 = o_recs s1.
  Proof.
    unfold stage_fns. destruct (d_fns d); [split; [left; tauto|reflexivity]|].
    destruct (negb alive); [split; [left; tauto|reflexivity]|].
    destruct (Bool.eqb _ _); [split; [left; tauto|reflexivity]|].
    destruct (Nat.eqb _ _); split; try reflexivity; [right; split; reflexivity|left; tauto].
  Qed.

  Lemma stage_sleep_ok d p alive now s2 :
    let '(s3, ev3, t) := stage_sleep d p alive now s2 in
    evs_ok s2 ev3 s3 /\ o_recs s3 = o_recs s2.
  Proof.
    unfold stage_sleep. destruct (min_list (d_delays d)); [|split; [left; tauto|reflexivity]].
    destruct (p || negb alive); [split; [left; tauto|reflexivity]|].
    destruct (Nat.eqb n 0); split; try reflexivity; [right; split; reflexivity|left; tauto].
  Qed.

  (* the shape of the world after a cycle *)
  Lemma cycle_shape w v rest oracle waited lost :
    let w' := cycle w v rest oracle waited lost in
    exists evs,
      m_queue (w_mem w') = rest ++ evs
      /\ m_up (w_mem w') = true
      /\ o_rv (w_srv w) <= o_rv (w_srv w')
      /\ Forall (fun e => o_rv (w_srv w) < o_rv e /\ o_rv e <= o_rv (w_srv w') /\ o_recs e = o_recs (w_srv w')) evs
      /\ StronglySorted (fun a b => o_rv a < o_rv b) evs
      /\ (evs = [] -> w_srv w' = w_srv w /\ m_expected (w_mem w') = expect_after_event (w_mem w) v)
      /\ (evs <> [] -> exists dl, m_expected (w_mem w') = Some (o_rv (w_srv w'), dl)).
  Proof.
    unfold CycleWorld.cycle.
    set (d := process_at _ _ _ _ _ _ _).
    pose proof (stage_merge_ok d (negb (Nat.eqb lost 1)) (w_srv w) v) as H1.
    destruct (stage_merge hc hu d (negb (Nat.eqb lost 1)) (w_srv w) v) as [[s1 ev1] fresh].
    destruct H1 as (E1 & _).
    pose proof (stage_fns_ok d (negb (Nat.eqb lost 1) && negb (Nat.eqb lost 2)) s1 fresh) as H2.
    destruct (stage_fns d (negb (Nat.eqb lost 1) && negb (Nat.eqb lost 2)) s1 fresh) as [[s2 ev2] c].
    destruct H2 as (E2 & R2).
    match goal with |- context [stage_sleep d ?p ?a ?n s2] =>
      pose proof (stage_sleep_ok d p a n s2) as H3; destruct (stage_sleep d p a n s2) as [[s3 ev3] t] end.
    destruct H3 as (E3 & R3).
    cbn [w_mem w_srv m_queue m_up m_expected].
    exists (ev1 ++ ev2 ++ ev3).
    destruct E1 as [[-> ->]|[-> V1]]; destruct E2 as [[-> ->]|[-> V2]]; destruct E3 as [[-> ->]|[-> V3]];
      cbn [app]; repeat split; try lia; try congruence;
      try (intros _; eexists; reflexivity);
      repeat (constructor; repeat split; try lia; try congruence).
  Qed.

  (* ---- the invariant ---- *)
  Lemma inv_enqueue w x :
    Inv w -> o_rv x = S (o_rv (w_srv w)) -> o_recs x = o_recs (w_srv w) ->
    forall srv', o_rv srv' = o_rv x -> o_recs srv' = o_recs (w_srv w) ->
    Inv (mkWorld srv' (enqueue (w_mem w) [x]) (w_need_fin w) (w_now w) (w_log w)).
  Proof.
    intros (U & S & F & R) Vx Rx srv' Vs Rs. unfold Inv, enqueue. rewrite U. cbn.
    repeat split.
    - apply sorted_app_one; [exact S|]. eapply Forall_impl; [|exact F]. cbn. intros; lia.
    - apply Forall_app. split; [eapply Forall_impl; [|exact F]; cbn; intros; lia|constructor; [lia|constructor]].
    - apply Forall_app. split.
      + eapply Forall_impl; [|exact R]. cbn. intros a Ha Fa. rewrite Rs. apply Ha. exact Fa.
      + constructor; [intros _; congruence|constructor].
  Qed.

  Lemma inv_step w l w' : Inv w -> strict w l -> step w l = Some w' -> Inv w'.
  Proof.
    intros I St Sp. destruct l as [e|d|o waited lost| | | | |]; cbn in St; try contradiction.
    - (* Edit *)
      cbn in Sp. injection Sp as <-.
      apply (inv_enqueue w (bump (w_srv w) e) I); reflexivity.
    - (* Tick *)
      cbn in Sp. injection Sp as <-. exact I.
    - (* Proc *)
      destruct St as (-> & -> & Tm). destruct I as (U & S & F & R).
      cbn in Sp. rewrite U in Sp. destruct (m_queue (w_mem w)) as [|v rest] eqn:Q; [discriminate|].
      cbn [andb] in Sp.
      match type of Sp with (if ?c then _ else _) = _ => destruct c; [|discriminate] end.
      injection Sp as <-.
      set (w0 := mkWorld (w_srv w) (mkMem true rest (m_carried (w_mem w)) None (m_expected (w_mem w)) (m_initial (w_mem w)))
                         (w_need_fin w) (w_now w) (w_log w)).
      destruct (cycle_shape w0 v rest (oracle_of o) false 0) as (evs & Qe & Up & Vle & Fe & Se & E0 & E1).
      remember (cycle w0 v rest (oracle_of o) false 0) as wc eqn:Hwc. clear Hwc.
      inversion S as [|? ? S' Fv]; subst. inversion F as [|? ? Lv F']; subst. inversion R as [|? ? Rv R']; subst.
      unfold Inv. rewrite Qe, Up. cbn [w_srv w_mem m_expected w0] in *. clear w0.
      repeat split.
      + (* sorted *)
        apply (sorted_app rest evs (o_rv (w_srv w))); [exact S'|exact F'| |exact Se].
        eapply Forall_impl; [|exact Fe]. cbn. tauto.
      + (* versions bounded *)
        apply Forall_app. split; [eapply Forall_impl; [|exact F']; cbn; intros; lia|].
        eapply Forall_impl; [|exact Fe]. cbn. tauto.
      + (* records of fresh views are current *)
        apply Forall_app. split.
        * destruct evs as [|e0 evs'].
          -- destruct (E0 eq_refl) as (Es & Ex). rewrite Es, Ex.
             unfold expect_after_event. cbn [m_expected w_mem].
             eapply Forall_impl; [|exact (Forall_and R' Fv)]. cbn.
             intros a (Ha & Hv) Fa. apply Ha.
             destruct (m_expected (w_mem w)) as [[rv dl]|]; [|exact I]. cbn.
             destruct (Nat.eqb rv (o_rv v)) eqn:Ev; [apply Nat.eqb_eq in Ev; lia|exact Fa].
          -- destruct (E1 ltac:(discriminate)) as (dl & Ex). rewrite Ex.
             eapply Forall_impl; [|exact F']. cbn. intros a La Fa. exfalso.
             inversion Fe as [|? ? (A & B & _) _]; subst. lia.
        * eapply Forall_impl; [|exact Fe]. cbn. intros a (_ & _ & Ra) _. exact Ra.
    - (* Fire *)
      destruct I as (U & S & F & R). cbn in Sp. rewrite U in Sp.
      destruct (m_timer (w_mem w)); [|discriminate]. destruct (m_queue (w_mem w)); [|discriminate].
      destruct (n <=? w_now w); [|discriminate]. injection Sp as <-.
      unfold Inv. cbn. repeat split; repeat constructor; cbn; auto.
    - (* DaemonExit *)
      cbn in Sp. injection Sp as <-. exact I.
  Qed.
End Once.

(* ---------- consequences ---------- *)
Section Consequences.
  Variable hc hu : list hid.
  Variable lc : lifecycle.
  Variable T : nat.

  Notation step := (step hc hu lc T).
  Notation cycle := (cycle hc hu lc T).
  Notation process_at := (process_at hc hu lc).
  Notation changing := (changing hc hu lc).

  (* an inconsistent worker invokes nothing *)
  Lemma inconsistent_invokes_nothing init now nf carried v oracle :
    d_invoked (process_at init now nf carried false v oracle) = [].
  Proof.
    unfold CycleWorld.process_at.
    destruct (nf && negb (o_fin v)); [reflexivity|].
    destruct (negb nf && o_fin v); [reflexivity|].
    destruct (match cause_at init v with Noop => false | _ => has_handlers hc hu end); reflexivity.
  Qed.

  (* whatever a cycle invokes is invoked by the change handling of the view *)
  Lemma process_invoked_subset init now nf carried c v oracle x :
    In x (d_invoked (process_at init now nf carried c v oracle)) -> In x (d_invoked (changing now v oracle)).
  Proof.
    unfold CycleWorld.process_at.
    destruct (nf && negb (o_fin v)); [cbn; tauto|].
    destruct (negb nf && o_fin v); [cbn; tauto|].
    destruct (match cause_at init v with Noop => false | _ => has_handlers hc hu end); [|cbn; tauto].
    destruct (negb (c && match carried with [] => true | _ => false end)); cbn [andb]; [cbn; tauto|].
    destruct (cause_at init v); cbn; tauto.
  Qed.

  Lemma cycle_log w v rest oracle waited lost :
    exists init now nf carried c,
      w_log (cycle w v rest oracle waited lost)
      = w_log w ++ map (fun x => (fst (fst x), snd (fst x), o_ess v, snd x))
                       (d_invoked (process_at init now nf carried c v oracle))
      /\ (waited = false -> pending_at (w_now w) (expect_after_event (w_mem w) v) = true -> c = false)
      /\ now = (match expect_after_event (w_mem w) v with
                | Some (_, dl) => if pending_at (w_now w) (expect_after_event (w_mem w) v) && waited then dl else w_now w
                | None => w_now w end).
  Proof.
    unfold CycleWorld.cycle.
    set (d := CycleWorld.process_at _ _ _ _ _ _ _ _ _ _).
    destruct (stage_merge hc hu d (negb (Nat.eqb lost 1)) (w_srv w) v) as [[s1 ev1] fresh].
    destruct (stage_fns d (negb (Nat.eqb lost 1) && negb (Nat.eqb lost 2)) s1 fresh) as [[s2 ev2] c'].
    match goal with |- context [stage_sleep d ?p ?a ?n s2] => destruct (stage_sleep d p a n s2) as [[s3 ev3] t] end.
    cbn [w_log]. do 5 eexists. split; [reflexivity|]. split; [|reflexivity].
    intros -> P. rewrite P. reflexivity.
  Qed.

  (* Theorem (step level): in a world satisfying the invariant, a strict worker cycle invokes a handler only if
     the SERVER's current record of it is not finished, and hands it the server's current retry count. *)
  Lemma invoked_on_current_progress w o waited lost w' h r e out :
    Inv w -> strict w (Proc o waited lost) -> step w (Proc o waited lost) = Some w' ->
    In (h, r, e, out) (skipn (List.length (w_log w)) (w_log w')) ->
    (forall ok, rget h (o_recs (w_srv w)) <> Some (HDone ok))
    /\ r = retries_of (match rget h (o_recs (w_srv w)) with Some s => s | None => HOpen 0 0 end).
  Proof.
    intros (U & S & F & R) (-> & -> & Tm) Sp I.
    cbn in Sp. rewrite U in Sp. destruct (m_queue (w_mem w)) as [|v rest] eqn:Q; [discriminate|].
    cbn [andb] in Sp.
    match type of Sp with (if ?c then _ else _) = _ => destruct c; [|discriminate] end.
    injection Sp as <-.
    set (w0 := mkWorld (w_srv w) (mkMem true rest (m_carried (w_mem w)) None (m_expected (w_mem w)) (m_initial (w_mem w)))
                       (w_need_fin w) (w_now w) (w_log w)) in *.
    destruct (cycle_log w0 v rest (oracle_of o) false 0) as (init & now & nf & carried & c & L & Cf & Nw).
    rewrite L in I. cbn [w_log w0] in I. rewrite skipn_app, skipn_all, Nat.sub_diag in I. cbn [app skipn] in I.
    apply in_map_iff in I. destruct I as (x & E & Ix). injection E as <- <- <- <-.
    (* the worker was consistent: otherwise nothing is invoked *)
    assert (Fresh : fresh_enough (m_expected (w_mem w)) v).
    { unfold fresh_enough. destruct (m_expected (w_mem w)) as [[rv dl]|] eqn:Ex; [|exact Logic.I].
      destruct (Nat.eqb rv (o_rv v)) eqn:Ev; [apply Nat.eqb_eq in Ev; lia|].
      exfalso. unfold expect_after_event in *. cbn [m_expected w_mem w0] in *. rewrite Ex, Ev in *.
      assert (c = false) as ->.
      { apply Cf; [reflexivity|]. unfold pending_at. apply Nat.ltb_lt. exact Tm. }
      rewrite inconsistent_invokes_nothing in Ix. destruct Ix. }
    inversion R as [|? ? Rv _]; subst. specialize (Rv Fresh).
    apply process_invoked_subset in Ix.
    destruct x as [[h' r'] o']. cbn [fst snd] in *.
    apply (invoked_only_unfinished hc hu lc 0) in Ix. destruct Ix as (_ & A & Er & _).
    unfold hstate in A, Er. rewrite <- Rv. split.
    - intros ok Eq. rewrite Eq in A. discriminate.
    - exact Er.
  Qed.

  (* the invariant holds when an operator process has just listed the object ... *)
  Lemma inv_after_start w nf w' : step w (Start nf) = Some w' -> Inv w'.
  Proof.
    cbn. destruct (m_up (w_mem w)); [discriminate|]. intro E. injection E as <-.
    unfold Inv. cbn. repeat split; repeat constructor; auto.
  Qed.

  (* ... and in every world reached from there by strict steps *)
  Inductive strict_reach : world -> Prop :=
  | sr_start w nf w' : step w (Start nf) = Some w' -> strict_reach w'
  | sr_step w l w' : strict_reach w -> strict w l -> step w l = Some w' -> strict_reach w'.

  Lemma strict_reach_inv w : strict_reach w -> Inv w.
  Proof.
    induction 1 as [w nf w' E|w l w' _ IH St Sp]; [eapply inv_after_start; eauto|eapply inv_step; eauto].
  Qed.
End Consequences.
