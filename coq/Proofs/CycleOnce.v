(* History-level invariant of the closed loop (Model/CycleWorld.v): absent process deaths and absent
   releases of the consistency barrier by timeout, change handlers only ever run on a view whose
   progress records are the CURRENT ones of the server — for every interleaving of external edits,
   time, worker cycles, sleeps and daemon exits.  (C02 "no re-run of finished handlers" and C07
   "never on a view older than the own last write", at the level of whole histories.) *)
From Coq Require Import Arith List Bool Lia Sorted.
From KV Require Import Model.CycleWorld Proofs.CycleWorld.
Import ListNotations.

Section Once.
  Variable hc hu : list hid.
  Variable lc : lifecycle.
  Variable T : nat.

  Notation step := (step hc hu lc T).
  Notation cycle := (cycle hc hu lc T).
  Notation process_at := (process_at hc hu lc).

  (* ---- strict steps: the exclusions of the property text ---- *)
  (* no crash / lost response: no Kill, Start, Relist, no lost writes; no echo delay beyond the timeout:
     the worker never waits out the deadline, and time never passes the deadline while the echo is pending *)
  Definition strict (w : world) (l : label) : Prop :=
    match l with
    | Edit _ | Tick _ | Fire | DaemonExit => True
    | Proc _ waited lost =>
        waited = false /\ lost = 0 /\
        match m_queue (w_mem w) with
        | v :: _ => match expect_after_event (w_mem w) v with Some (_, dl) => w_now w < dl | None => True end
        | [] => True
        end
    | Kill | Start _ | Relist => False
    end.

  Definition fresh_enough (e : option (nat * nat)) (v : obj) : Prop :=
    match e with None => True | Some (rv, _) => rv <= o_rv v end.

  Definition Inv (w : world) : Prop :=
    m_up (w_mem w) = true
    /\ StronglySorted (fun a b => o_rv a < o_rv b) (m_queue (w_mem w))
    /\ Forall (fun v => o_rv v <= o_rv (w_srv w)) (m_queue (w_mem w))
    /\ Forall (fun v => fresh_enough (m_expected (w_mem w)) v -> o_recs v = o_recs (w_srv w)) (m_queue (w_mem w)).

  (* ---- generic list facts ---- *)
  Lemma sorted_app_one (q : list obj) (x : obj) :
    StronglySorted (fun a b => o_rv a < o_rv b) q -> Forall (fun v => o_rv v < o_rv x) q ->
    StronglySorted (fun a b => o_rv a < o_rv b) (q ++ [x]).
  Proof.
    induction q as [|y q IH]; intros S F; cbn.
    - constructor; constructor.
    - inversion S as [|? ? S' Fy]; subst. inversion F as [|? ? Fx F']; subst.
      constructor; [apply IH; assumption|].
      apply Forall_app. split; [exact Fy|constructor; [exact Fx|constructor]].
  Qed.

  Lemma sorted_app (q evs : list obj) (b : nat) :
    StronglySorted (fun a b => o_rv a < o_rv b) q -> Forall (fun v => o_rv v <= b) q ->
    Forall (fun e => b < o_rv e) evs -> StronglySorted (fun a b => o_rv a < o_rv b) evs ->
    StronglySorted (fun a b => o_rv a < o_rv b) (q ++ evs).
  Proof.
    intros S F Fe Se. induction q as [|y r IH]; cbn; [exact Se|].
    inversion S as [|? ? S' Fy]; subst. inversion F as [|? ? Ly F']; subst.
    constructor; [apply IH; assumption|].
    apply Forall_app. split; [exact Fy|]. eapply Forall_impl; [|exact Fe]. cbn. intros; lia.
  Qed.

  (* ---- what a cycle does to the server and the queue ---- *)
  (* the three stages, abstractly: every emitted event is the snapshot of the server after it, versions only
     grow by one per event, and the records of the final server are those of every emitted event *)
  Definition evs_ok (s : obj) (evs : list obj) (s' : obj) : Prop :=
    (evs = [] /\ s' = s) \/ (evs = [s'] /\ o_rv s' = S (o_rv s)).

  Lemma stage_merge_ok d alive s v :
    let '(s1, ev1, fresh) := stage_merge hc hu d alive s v in
    evs_ok s ev1 s1 /\ (fresh = s1 \/ (fresh = v /\ ev1 = [])).
  Proof.
    unfold stage_merge. destruct (has_merge d && alive).
    - destruct (same_content hc hu s (apply_merge hc hu d s)).
      + split; [left; tauto|left; reflexivity].
      + split; [right; split; reflexivity|left; reflexivity].
    - split; [left; tauto|right; tauto].
  Qed.

  Lemma stage_fns_ok d alive s1 fresh :
    let '(s2, ev2, c) := stage_fns d alive s1 fresh in
    evs_ok s1 ev2 s2 /\ o_recs s2 = o_recs s1.
  Proof.
    unfold stage_fns. destruct (d_fns d); [split; [left; tauto|reflexivity]|].
    destruct (negb alive); [split; [left; tauto|reflexivity]|].
    destruct (Bool.eqb _ _); [split; [left; tauto|reflexivity]|].
    destruct (Nat.eqb _ _); split; try reflexivity; [right; split; reflexivity|left; tauto].
  Qed.

  Lemma stage_sleep_ok d p alive now s2 :
    let '(s3, ev3, t) := stage_sleep d p alive now s2 in
    evs_ok s2 ev3 s3 /\ o_recs s3 = o_recs s2.
  Proof.
    unfold stage_sleep. destruct (min_list (d_delays d)); [|split; [left; tauto|reflexivity]].
    destruct (p || negb alive); [split; [left; tauto|reflexivity]|].
    destruct (Nat.eqb n 0); split; try reflexivity; [right; split; reflexivity|left; tauto].
  Qed.

  (* the shape of the world after a cycle *)
  Lemma cycle_shape w v rest oracle waited lost :
    let w' := cycle w v rest oracle waited lost in
    exists evs,
      m_queue (w_mem w') = rest ++ evs
      /\ m_up (w_mem w') = true
      /\ o_rv (w_srv w) <= o_rv (w_srv w')
      /\ Forall (fun e => o_rv (w_srv w) < o_rv e /\ o_rv e <= o_rv (w_srv w') /\ o_recs e = o_recs (w_srv w')) evs
      /\ StronglySorted (fun a b => o_rv a < o_rv b) evs
      /\ (evs = [] -> w_srv w' = w_srv w /\ m_expected (w_mem w') = expect_after_event (w_mem w) v)
      /\ (evs <> [] -> exists dl, m_expected (w_mem w') = Some (o_rv (w_srv w'), dl)).
  Proof.
    unfold CycleWorld.cycle.
    set (d := process_at _ _ _ _ _ _ _).
    pose proof (stage_merge_ok d (negb (Nat.eqb lost 1)) (w_srv w) v) as H1.
    destruct (stage_merge hc hu d (negb (Nat.eqb lost 1)) (w_srv w) v) as [[s1 ev1] fresh].
    destruct H1 as (E1 & _).
    pose proof (stage_fns_ok d (negb (Nat.eqb lost 1) && negb (Nat.eqb lost 2)) s1 fresh) as H2.
    destruct (stage_fns d (negb (Nat.eqb lost 1) && negb (Nat.eqb lost 2)) s1 fresh) as [[s2 ev2] c].
    destruct H2 as (E2 & R2).
    match goal with |- context [stage_sleep d ?p ?a ?n s2] =>
      pose proof (stage_sleep_ok d p a n s2) as H3; destruct (stage_sleep d p a n s2) as [[s3 ev3] t] end.
    destruct H3 as (E3 & R3).
    cbn [w_mem w_srv m_queue m_up m_expected].
    exists (ev1 ++ ev2 ++ ev3).
    destruct E1 as [[-> ->]|[-> V1]]; destruct E2 as [[-> ->]|[-> V2]]; destruct E3 as [[-> ->]|[-> V3]];
      cbn [app]; repeat split; try lia; try congruence;
      try (intros _; eexists; reflexivity);
      repeat (constructor; repeat split; try lia; try congruence).
  Qed.

  (* ---- the invariant ---- *)
  Lemma inv_enqueue w x :
    Inv w -> o_rv x = S (o_rv (w_srv w)) -> o_recs x = o_recs (w_srv w) ->
    forall srv', o_rv srv' = o_rv x -> o_recs srv' = o_recs (w_srv w) ->
    Inv (mkWorld srv' (enqueue (w_mem w) [x]) (w_need_fin w) (w_now w) (w_log w)).
  Proof.
    intros (U & S & F & R) Vx Rx srv' Vs Rs. unfold Inv, enqueue. rewrite U. cbn.
    repeat split.
    - apply sorted_app_one; [exact S|]. eapply Forall_impl; [|exact F]. cbn. intros; lia.
    - apply Forall_app. split; [eapply Forall_impl; [|exact F]; cbn; intros; lia|constructor; [lia|constructor]].
    - apply Forall_app. split.
      + eapply Forall_impl; [|exact R]. cbn. intros a Ha Fa. rewrite Rs. apply Ha. exact Fa.
      + constructor; [intros _; congruence|constructor].
  Qed.

  Lemma inv_step w l w' : Inv w -> strict w l -> step w l = Some w' -> Inv w'.
  Proof.
    intros I St Sp. destruct l as [e|d|o waited lost| | | | |]; cbn in St; try contradiction.
    - (* Edit *)
      cbn in Sp. injection Sp as <-.
      apply (inv_enqueue w (bump (w_srv w) e) I); reflexivity.
    - (* Tick *)
      cbn in Sp. injection Sp as <-. exact I.
    - (* Proc *)
      destruct St as (-> & -> & Tm). destruct I as (U & S & F & R).
      cbn in Sp. rewrite U in Sp. destruct (m_queue (w_mem w)) as [|v rest] eqn:Q; [discriminate|].
      cbn [andb] in Sp.
      match type of Sp with (if ?c then _ else _) = _ => destruct c; [|discriminate] end.
      injection Sp as <-.
      set (w0 := mkWorld (w_srv w) (mkMem true rest (m_carried (w_mem w)) None (m_expected (w_mem w)) (m_initial (w_mem w)))
                         (w_need_fin w) (w_now w) (w_log w)).
      destruct (cycle_shape w0 v rest (oracle_of o) false 0) as (evs & Qe & Up & Vle & Fe & Se & E0 & E1).
      remember (cycle w0 v rest (oracle_of o) false 0) as wc eqn:Hwc. clear Hwc.
      inversion S as [|? ? S' Fv]; subst. inversion F as [|? ? Lv F']; subst. inversion R as [|? ? Rv R']; subst.
      unfold Inv. rewrite Qe, Up. cbn [w_srv w_mem m_expected w0] in *. clear w0.
      repeat split.
      + (* sorted *)
        apply (sorted_app rest evs (o_rv (w_srv w))); [exact S'|exact F'| |exact Se].
        eapply Forall_impl; [|exact Fe]. cbn. tauto.
      + (* versions bounded *)
        apply Forall_app. split; [eapply Forall_impl; [|exact F']; cbn; intros; lia|].
        eapply Forall_impl; [|exact Fe]. cbn. tauto.
      + (* records of fresh views are current *)
        apply Forall_app. split.
        * destruct evs as [|e0 evs'].
          -- destruct (E0 eq_refl) as (Es & Ex). rewrite Es, Ex.
             unfold expect_after_event. cbn [m_expected w_mem].
             eapply Forall_impl; [|exact (Forall_and R' Fv)]. cbn.
             intros a (Ha & Hv) Fa. apply Ha.
             destruct (m_expected (w_mem w)) as [[rv dl]|]; [|exact I]. cbn.
             destruct (Nat.eqb rv (o_rv v)) eqn:Ev; [apply Nat.eqb_eq in Ev; lia|exact Fa].
          -- destruct (E1 ltac:(discriminate)) as (dl & Ex). rewrite Ex.
             eapply Forall_impl; [|exact F']. cbn. intros a La Fa. exfalso.
             inversion Fe as [|? ? (A & B & _) _]; subst. lia.
        * eapply Forall_impl; [|exact Fe]. cbn. intros a (_ & _ & Ra) _. exact Ra.
    - (* Fire *)
      destruct I as (U & S & F & R). cbn in Sp. rewrite U in Sp.
      destruct (m_timer (w_mem w)); [|discriminate]. destruct (m_queue (w_mem w)); [|discriminate].
      destruct (n <=? w_now w); [|discriminate]. injection Sp as <-.
      unfold Inv. cbn. repeat split; repeat constructor; cbn; auto.
    - (* DaemonExit *)
      cbn in Sp. injection Sp as <-. exact I.
  Qed.
End Once.

(* ---------- consequences ---------- *)
Section Consequences.
  Variable hc hu : list hid.
  Variable lc : lifecycle.
  Variable T : nat.

  Notation step := (step hc hu lc T).
  Notation cycle := (cycle hc hu lc T).
  Notation process_at := (process_at hc hu lc).
  Notation changing := (changing hc hu lc).

  (* an inconsistent worker invokes nothing *)
  Lemma inconsistent_invokes_nothing init now nf carried v oracle :
    d_invoked (process_at init now nf carried false v oracle) = [].
  Proof.
    unfold CycleWorld.process_at.
    destruct (nf && negb (o_fin v)); [reflexivity|].
    destruct (negb nf && o_fin v); [reflexivity|].
    destruct (match cause_at init v with Noop => false | _ => has_handlers hc hu end); reflexivity.
  Qed.

  (* whatever a cycle invokes is invoked by the change handling of the view *)
  Lemma process_invoked_subset init now nf carried c v oracle x :
    In x (d_invoked (process_at init now nf carried c v oracle)) -> In x (d_invoked (changing now v oracle)).
  Proof.
    unfold CycleWorld.process_at.
    destruct (nf && negb (o_fin v)); [cbn; tauto|].
    destruct (negb nf && o_fin v); [cbn; tauto|].
    destruct (match cause_at init v with Noop => false | _ => has_handlers hc hu end); [|cbn; tauto].
    destruct (negb (c && match carried with [] => true | _ => false end)); cbn [andb]; [cbn; tauto|].
    destruct (cause_at init v); cbn; tauto.
  Qed.

  Lemma cycle_log w v rest oracle waited lost :
    exists init now nf carried c,
      w_log (cycle w v rest oracle waited lost)
      = w_log w ++ map (fun x => (fst (fst x), snd (fst x), o_ess v, snd x))
                       (d_invoked (process_at init now nf carried c v oracle))
      /\ (waited = false -> pending_at (w_now w) (expect_after_event (w_mem w) v) = true -> c = false)
      /\ now = (match expect_after_event (w_mem w) v with
                | Some (_, dl) => if pending_at (w_now w) (expect_after_event (w_mem w) v) && waited then dl else w_now w
                | None => w_now w end).
  Proof.
    unfold CycleWorld.cycle.
    set (d := CycleWorld.process_at _ _ _ _ _ _ _ _ _ _).
    destruct (stage_merge hc hu d (negb (Nat.eqb lost 1)) (w_srv w) v) as [[s1 ev1] fresh].
    destruct (stage_fns d (negb (Nat.eqb lost 1) && negb (Nat.eqb lost 2)) s1 fresh) as [[s2 ev2] c'].
    match goal with |- context [stage_sleep d ?p ?a ?n s2] => destruct (stage_sleep d p a n s2) as [[s3 ev3] t] end.
    cbn [w_log]. do 5 eexists. split; [reflexivity|]. split; [|reflexivity].
    intros -> P. rewrite P. reflexivity.
  Qed.

  (* Theorem (step level): in a world satisfying the invariant, a strict worker cycle invokes a handler only if
     the SERVER's current record of it is not finished, and hands it the server's current retry count. *)
  Lemma invoked_on_current_progress w o waited lost w' h r e out :
    Inv w -> strict w (Proc o waited lost) -> step w (Proc o waited lost) = Some w' ->
    In (h, r, e, out) (skipn (List.length (w_log w)) (w_log w')) ->
    (forall ok, rget h (o_recs (w_srv w)) <> Some (HDone ok))
    /\ r = retries_of (match rget h (o_recs (w_srv w)) with Some s => s | None => HOpen 0 0 end).
  Proof.
    intros (U & S & F & R) (-> & -> & Tm) Sp I.
    cbn in Sp. rewrite U in Sp. destruct (m_queue (w_mem w)) as [|v rest] eqn:Q; [discriminate|].
    cbn [andb] in Sp.
    match type of Sp with (if ?c then _ else _) = _ => destruct c; [|discriminate] end.
    injection Sp as <-.
    set (w0 := mkWorld (w_srv w) (mkMem true rest (m_carried (w_mem w)) None (m_expected (w_mem w)) (m_initial (w_mem w)))
                       (w_need_fin w) (w_now w) (w_log w)) in *.
    destruct (cycle_log w0 v rest (oracle_of o) false 0) as (init & now & nf & carried & c & L & Cf & Nw).
    rewrite L in I. cbn [w_log w0] in I. rewrite skipn_app, skipn_all, Nat.sub_diag in I. cbn [app skipn] in I.
    apply in_map_iff in I. destruct I as (x & E & Ix). injection E as <- <- <- <-.
    (* the worker was consistent: otherwise nothing is invoked *)
    assert (Fresh : fresh_enough (m_expected (w_mem w)) v).
    { unfold fresh_enough. destruct (m_expected (w_mem w)) as [[rv dl]|] eqn:Ex; [|exact Logic.I].
      destruct (Nat.eqb rv (o_rv v)) eqn:Ev; [apply Nat.eqb_eq in Ev; lia|].
      exfalso. unfold expect_after_event in *. cbn [m_expected w_mem w0] in *. rewrite Ex, Ev in *.
      assert (c = false) as ->.
      { apply Cf; [reflexivity|]. unfold pending_at. apply Nat.ltb_lt. exact Tm. }
      rewrite inconsistent_invokes_nothing in Ix. destruct Ix. }
    inversion R as [|? ? Rv _]; subst. specialize (Rv Fresh).
    apply process_invoked_subset in Ix.
    destruct x as [[h' r'] o']. cbn [fst snd] in *.
    apply (invoked_only_unfinished hc hu lc 0) in Ix. destruct Ix as (_ & A & Er & _).
    unfold hstate in A, Er. rewrite <- Rv. split.
    - intros ok Eq. rewrite Eq in A. discriminate.
    - exact Er.
  Qed.

  (* the invariant holds when an operator process has just listed the object ... *)
  Lemma inv_after_start w nf w' : step w (Start nf) = Some w' -> Inv w'.
  Proof.
    cbn. destruct (m_up (w_mem w)); [discriminate|]. intro E. injection E as <-.
    unfold Inv. cbn. repeat split; repeat constructor; auto.
  Qed.

  (* ... and in every world reached from there by strict steps *)
  Inductive strict_reach : world -> Prop :=
  | sr_start w nf w' : step w (Start nf) = Some w' -> strict_reach w'
  | sr_step w l w' : strict_reach w -> strict w l -> step w l = Some w' -> strict_reach w'.

  Lemma strict_reach_inv w : strict_reach w -> Inv w.
  Proof.
    induction 1 as [w nf w' E|w l w' _ IH St Sp]; [eapply inv_after_start; eauto|eapply inv_step; eauto].
  Qed.
End Consequences.

(* ---------- at most one success per handler between two purges of its record ---------- *)
Section AtMostOnce.
  Variable hc hu : list hid.
  Variable lc : lifecycle.
  Variable T : nat.
  Hypothesis ids_unique : NoDup (hc ++ hu).

  Notation step := (step hc hu lc T).
  Notation cycle := (cycle hc hu lc T).
  Notation process_at := (process_at hc hu lc).
  Notation changing := (changing hc hu lc).
  Notation planned := (planned hc hu lc).
  Notation selected := (selected hc hu).

  (* ---- records under rset / rdel ---- *)
  Lemma rget_rset_same h v r : rget h (rset h v r) = Some v.
  Proof. unfold rset. cbn. rewrite Nat.eqb_refl. reflexivity. Qed.

  Lemma rget_rdel_other h k r : h <> k -> rget h (rdel k r) = rget h r.
  Proof.
    intro N. induction r as [|[a b] r IH]; cbn; [reflexivity|].
    destruct (Nat.eqb k a) eqn:E.
    - apply Nat.eqb_eq in E. subst a. apply Nat.eqb_neq in N. rewrite N. exact IH.
    - cbn. destruct (Nat.eqb h a); [reflexivity|exact IH].
  Qed.

  Lemma rget_rdel_same h r : rget h (rdel h r) = None.
  Proof.
    induction r as [|[a b] r IH]; cbn; [reflexivity|].
    destruct (Nat.eqb h a) eqn:E; [exact IH|]. cbn. rewrite E. exact IH.
  Qed.

  Lemma rget_rset_other h k v r : h <> k -> rget h (rset k v r) = rget h r.
  Proof.
    intro N. unfold rset. cbn. apply Nat.eqb_neq in N. rewrite N. apply rget_rdel_other. apply Nat.eqb_neq. exact N.
  Qed.

  Lemma rget_fold_rset_absent h (l : list (hid * hst)) r :
    ~ In h (map fst l) -> rget h (fold_left (fun r kv => rset (fst kv) (snd kv) r) l r) = rget h r.
  Proof.
    revert r. induction l as [|[k v] l IH]; intros r NI; cbn; [reflexivity|].
    rewrite IH; [|intro; apply NI; right; assumption].
    apply rget_rset_other. intro; subst; apply NI; left; reflexivity.
  Qed.

  Lemma rget_fold_rset_present h v (l : list (hid * hst)) r :
    NoDup (map fst l) -> In (h, v) l -> rget h (fold_left (fun r kv => rset (fst kv) (snd kv) r) l r) = Some v.
  Proof.
    revert r. induction l as [|[k w] l IH]; intros r ND I; [destruct I|].
    cbn in ND. inversion ND as [|? ? NI ND']; subst. cbn [fold_left fst snd].
    destruct I as [E|I].
    - injection E as -> ->. rewrite rget_fold_rset_absent by exact NI. apply rget_rset_same.
    - apply IH; assumption.
  Qed.

  Lemma rget_fold_rdel h (l : list hid) r :
    rget h (fold_left (fun r k => rdel k r) l r) = if existsb (Nat.eqb h) l then None else rget h r.
  Proof.
    revert r. induction l as [|k l IH]; intro r; cbn; [reflexivity|].
    rewrite IH. destruct (Nat.eqb h k) eqn:E.
    - apply Nat.eqb_eq in E. subst k. cbn. destruct (existsb (Nat.eqb h) l); [reflexivity|apply rget_rdel_same].
    - cbn. destruct (existsb (Nat.eqb h) l); [reflexivity|]. apply rget_rdel_other. apply Nat.eqb_neq. exact E.
  Qed.

  (* ---- what the merge part of a decision does to ONE handler's record ---- *)
  Definition stored_for (d : decision) (h : hid) : option hst :=
    match find (fun kv => Nat.eqb h (fst kv)) (d_store d) with Some kv => Some (snd kv) | None => None end.

  Lemma apply_merge_rget d s h :
    NoDup (map fst (d_store d)) ->
    rget h (o_recs (apply_merge hc hu d s)) =
    if d_purge d && existsb (Nat.eqb h) (owned hc hu) then None
    else match stored_for d h with Some v => Some v | None => rget h (o_recs s) end.
  Proof.
    intro ND. unfold apply_merge. cbn [o_recs].
    assert (St : rget h (fold_left (fun r kv => rset (fst kv) (snd kv) r) (d_store d) (o_recs s))
                 = match stored_for d h with Some v => Some v | None => rget h (o_recs s) end).
    { unfold stored_for. destruct (find (fun kv => Nat.eqb h (fst kv)) (d_store d)) as [[k v]|] eqn:F.
      - apply find_some in F. destruct F as (I & E). cbn in E. apply Nat.eqb_eq in E. subst k.
        apply rget_fold_rset_present; assumption.
      - apply rget_fold_rset_absent. intro I. apply in_map_iff in I. destruct I as ([k v] & E & I). cbn in E. subst k.
        pose proof (find_none _ _ F _ I) as X. cbn in X. rewrite Nat.eqb_refl in X. discriminate. }
    destruct (d_purge d); cbn [andb]; [|exact St].
    rewrite rget_fold_rdel. destruct (existsb (Nat.eqb h) (owned hc hu)); [reflexivity|exact St].
  Qed.
End AtMostOnce.

Section AtMostOnce2.
  Variable hc hu : list hid.
  Variable lc : lifecycle.
  Variable T : nat.
  Hypothesis ids_unique : NoDup (hc ++ hu).

  Notation step := (step hc hu lc T).
  Notation cycle := (cycle hc hu lc T).
  Notation process_at := (process_at hc hu lc).
  Notation changing := (changing hc hu lc).
  Notation planned := (planned hc hu lc).
  Notation selected := (selected hc hu).
  Notation state_after := (state_after hc hu lc).

  (* the record part of a decision is either empty, or a purge without stores (resume), or the change handling's *)
  Lemma process_store_cases init now nf carried c v oracle :
    let d := process_at init now nf carried c v oracle in
    (d_store d = [] /\ d_invoked d = [])
    \/ (c = true /\ d_store d = d_store (changing now v oracle) /\ d_purge d = d_purge (changing now v oracle)
        /\ d_invoked d = d_invoked (changing now v oracle)).
  Proof.
    unfold CycleWorld.process_at.
    destruct (nf && negb (o_fin v)); [left; split; reflexivity|].
    destruct (negb nf && o_fin v); [left; split; reflexivity|].
    destruct (match cause_at init v with Noop => false | _ => has_handlers hc hu end); [|left; split; reflexivity].
    destruct c; cbn [andb negb]; [|left; split; reflexivity].
    destruct carried; cbn [negb]; [|left; split; reflexivity].
    destruct (cause_at init v); cbn; try (right; repeat split; reflexivity).
    left. split; reflexivity.
  Qed.

  Lemma selected_owned v h : In h (selected v) -> In h (owned hc hu).
  Proof.
    unfold CycleWorld.selected, owned. destruct (cause_of v); cbn; intro H; try tauto; apply in_or_app; tauto.
  Qed.

  Lemma nodup_app_l {A} (a b : list A) : NoDup (a ++ b) -> NoDup a.
  Proof.
    induction a as [|x a IH]; cbn; intro H; [constructor|].
    inversion H as [|? ? NI ND]; subst. constructor; [|apply IH; exact ND].
    intro I. apply NI. apply in_or_app. left. exact I.
  Qed.

  Lemma nodup_app_r {A} (a b : list A) : NoDup (a ++ b) -> NoDup b.
  Proof.
    induction a as [|x a IH]; cbn; intro H; [exact H|]. inversion H; subst. apply IH. assumption.
  Qed.

  Lemma selected_nodup v : NoDup (selected v).
  Proof.
    unfold CycleWorld.selected. destruct (cause_of v); try constructor.
    - exact (nodup_app_l _ _ ids_unique).
    - exact (nodup_app_r _ _ ids_unique).
  Qed.

  Lemma nodup_filter {A} (f : A -> bool) l : NoDup l -> NoDup (filter f l).
  Proof. apply NoDup_filter. Qed.

  Lemma changing_store_nodup now v oracle : NoDup (map fst (d_store (changing now v oracle))).
  Proof.
    unfold CycleWorld.changing. destruct (selected v) eqn:S; [constructor|].
    destruct (all_done hc hu lc now v oracle); [constructor|]. cbn [d_store].
    rewrite map_map. cbn [fst]. rewrite map_id. apply NoDup_filter. rewrite <- S. apply selected_nodup.
  Qed.

  (* a handler whose record in the view is finished is neither stored nor invoked *)
  Lemma changing_keeps_finished now v oracle h ok :
    rget h (o_recs v) = Some (HDone ok) -> stored_for (changing now v oracle) h = None.
  Proof.
    intro R. unfold stored_for.
    destruct (find (fun kv => Nat.eqb h (fst kv)) (d_store (changing now v oracle))) as [[k s]|] eqn:F; [|reflexivity].
    exfalso. apply find_some in F. destruct F as (I & E). cbn in E. apply Nat.eqb_eq in E. subst k.
    unfold CycleWorld.changing in I. destruct (selected v) eqn:S; [destruct I|].
    destruct (all_done hc hu lc now v oracle); [destruct I|]. cbn [d_store] in I.
    apply in_map_iff in I. destruct I as (x & Ex & Ix). injection Ex as -> _.
    apply filter_In in Ix. destruct Ix as (_ & B). rewrite R in B. rewrite orb_false_r in B.
    apply existsb_exists in B. destruct B as (y & Iy & Ey). apply Nat.eqb_eq in Ey. subst y.
    apply (planned_awake hc hu lc) in Iy. destruct Iy as (A & _). unfold hstate in A. rewrite R in A. discriminate.
  Qed.

  (* a handler invoked with OK is stored as finished, or everything is purged *)
  Lemma changing_ok_recorded now v oracle h r :
    In (h, r, OK) (d_invoked (changing now v oracle)) ->
    (d_purge (changing now v oracle) = true /\ In h (owned hc hu))
    \/ stored_for (changing now v oracle) h = Some (HDone true).
  Proof.
    intro I. pose proof I as I0. apply (invoked_only_unfinished hc hu lc 0) in I0. destruct I0 as (Sel & _ & _ & Eo).
    unfold CycleWorld.changing in *. destruct (selected v) eqn:S; [destruct I|].
    destruct (all_done hc hu lc now v oracle) eqn:D.
    - left. split; [reflexivity|]. apply selected_owned with v. rewrite S. exact Sel.
    - right. cbn [d_invoked d_store] in *. apply in_map_iff in I. destruct I as (x & Ex & Ix). injection Ex as -> _ Eok.
      unfold stored_for.
      assert (Iin : In (h, state_after now v oracle h)
                       (map (fun h0 => (h0, state_after now v oracle h0))
                            (filter (fun h0 => existsb (Nat.eqb h0) (planned now v)
                                               || match rget h0 (o_recs v) with None => true | Some _ => false end) (h0 :: l)))).
      { apply in_map_iff. exists h. split; [reflexivity|]. apply filter_In. split; [exact Sel|].
        apply orb_true_iff. left. apply existsb_exists. exists h. split; [exact Ix|apply Nat.eqb_refl]. }
      destruct (find (fun kv => Nat.eqb h (fst kv)) _) as [[k s]|] eqn:F.
      + apply find_some in F. destruct F as (If & Ef). cbn in Ef. apply Nat.eqb_eq in Ef. subst k.
        (* unique keys: the found entry is the one for h *)
        assert (ND : NoDup (map fst (map (fun h0 => (h0, state_after now v oracle h0))
                            (filter (fun h0 => existsb (Nat.eqb h0) (planned now v)
                                               || match rget h0 (o_recs v) with None => true | Some _ => false end) (h0 :: l))))).
        { rewrite map_map. cbn [fst]. rewrite map_id. apply NoDup_filter. rewrite <- S. apply selected_nodup. }
        assert (s = state_after now v oracle h) as ->.
        { clear - If Iin ND. induction (map _ _) as [|[a b] m IH]; [destruct If|].
          cbn in ND. inversion ND as [|? ? NI ND']; subst.
          destruct If as [E1|I1]; destruct Iin as [E2|I2].
          - congruence.
          - injection E1 as -> ->. exfalso. apply NI. apply in_map_iff. eexists. split; [|exact I2]. reflexivity.
          - injection E2 as -> ->. exfalso. apply NI. apply in_map_iff. eexists. split; [|exact I1]. reflexivity.
          - apply IH; assumption. }
        unfold CycleWorld.state_after.
        assert (existsb (Nat.eqb h) (planned now v) = true) as Ep.
        { apply existsb_exists. exists h. split; [exact Ix|apply Nat.eqb_refl]. }
        rewrite Ep, Eok. reflexivity.
      + exfalso. pose proof (find_none _ _ F _ Iin) as X. cbn in X. rewrite Nat.eqb_refl in X. discriminate.
  Qed.
End AtMostOnce2.

Section AtMostOnce3.
  Variable hc hu : list hid.
  Variable lc : lifecycle.
  Variable T : nat.
  Hypothesis ids_unique : NoDup (hc ++ hu).

  Notation step := (step hc hu lc T).
  Notation cycle := (cycle hc hu lc T).
  Notation process_at := (process_at hc hu lc).
  Notation changing := (changing hc hu lc).

  Lemma recs_eqb_rget a b h : recs_eqb hc hu a b = true -> In h (owned hc hu) -> rget h a = rget h b.
  Proof.
    unfold recs_eqb. rewrite forallb_forall. intros H I. specialize (H h I).
    destruct (rget h a) as [[r d|x]|], (rget h b) as [[r' d'|y]|]; try discriminate; try reflexivity.
    - apply andb_true_iff in H. destruct H as [E1 E2]. apply Nat.eqb_eq in E1, E2. congruence.
    - apply Bool.eqb_prop in H. congruence.
  Qed.

  (* one cycle (nothing lost): its log and what it does to the records of the owned handlers, for the SAME decision *)
  Lemma cycle_spec w v rest oracle waited :
    exists init now nf carried c,
      let d := process_at init now nf carried c v oracle in
      w_log (cycle w v rest oracle waited 0)
      = w_log w ++ map (fun x => (fst (fst x), snd (fst x), o_ess v, snd x)) (d_invoked d)
      /\ (waited = false -> pending_at (w_now w) (expect_after_event (w_mem w) v) = true -> c = false)
      /\ (forall h, In h (owned hc hu) ->
            rget h (o_recs (w_srv (cycle w v rest oracle waited 0)))
            = if has_merge d then rget h (o_recs (apply_merge hc hu d (w_srv w))) else rget h (o_recs (w_srv w))).
  Proof.
    exists (m_initial (w_mem w)),
           (match expect_after_event (w_mem w) v with
            | Some (_, dl) => if pending_at (w_now w) (expect_after_event (w_mem w) v) && waited then dl else w_now w
            | None => w_now w end),
           (w_need_fin w), (m_carried (w_mem w)),
           (negb (pending_at (w_now w) (expect_after_event (w_mem w) v)) || waited).
    unfold CycleWorld.cycle. cbn [Nat.eqb negb andb]. cbn zeta.
    set (d := CycleWorld.process_at _ _ _ _ _ _ _ _ _ _).
    pose proof (stage_fns_ok d true) as F2. pose proof (stage_sleep_ok d) as F3.
    unfold stage_merge. cbn [andb].
    destruct (has_merge d) eqn:HM; cbn [andb].
    - destruct (same_content hc hu (w_srv w) (apply_merge hc hu d (w_srv w))) eqn:SC.
      + specialize (F2 (w_srv w) (w_srv w)).
        destruct (stage_fns d true (w_srv w) (w_srv w)) as [[s2 ev2] c']. destruct F2 as (_ & R2).
        match goal with |- context [stage_sleep d ?p ?a ?n s2] => specialize (F3 p a n s2); destruct (stage_sleep d p a n s2) as [[s3 ev3] t] end.
        destruct F3 as (_ & R3). cbn [w_log w_srv]. split; [reflexivity|]. split; [intros -> P; rewrite P; reflexivity|].
        intros h Ih. rewrite R3, R2. unfold same_content in SC. apply andb_true_iff in SC. destruct SC as (SC & _).
        apply andb_true_iff in SC. destruct SC as (SC & _). apply andb_true_iff in SC. destruct SC as (_ & RE).
        apply recs_eqb_rget; assumption.
      + specialize (F2 (apply_merge hc hu d (w_srv w)) (apply_merge hc hu d (w_srv w))).
        destruct (stage_fns d true (apply_merge hc hu d (w_srv w)) (apply_merge hc hu d (w_srv w))) as [[s2 ev2] c']. destruct F2 as (_ & R2).
        match goal with |- context [stage_sleep d ?p ?a ?n s2] => specialize (F3 p a n s2); destruct (stage_sleep d p a n s2) as [[s3 ev3] t] end.
        destruct F3 as (_ & R3). cbn [w_log w_srv]. split; [reflexivity|]. split; [intros -> P; rewrite P; reflexivity|].
        intros h _. rewrite R3, R2. reflexivity.
    - specialize (F2 (w_srv w) v).
      destruct (stage_fns d true (w_srv w) v) as [[s2 ev2] c']. destruct F2 as (_ & R2).
      match goal with |- context [stage_sleep d ?p ?a ?n s2] => specialize (F3 p a n s2); destruct (stage_sleep d p a n s2) as [[s3 ev3] t] end.
      destruct F3 as (_ & R3). cbn [w_log w_srv]. split; [reflexivity|]. split; [intros -> P; rewrite P; reflexivity|].
      intros h _. rewrite R3, R2. reflexivity.
  Qed.
End AtMostOnce3.

Section AtMostOnce4.
  Variable hc hu : list hid.
  Variable lc : lifecycle.
  Variable T : nat.
  Hypothesis ids_unique : NoDup (hc ++ hu).

  Notation step := (step hc hu lc T).
  Notation cycle := (cycle hc hu lc T).
  Notation process_at := (process_at hc hu lc).
  Notation changing := (changing hc hu lc).
  Notation planned := (planned hc hu lc).

  Definition is_ok (o : outcome) : bool := match o with OK => true | _ => false end.

  (* successful invocations of h among log entries *)
  Definition oks (h : hid) (entries : list (hid * nat * nat * outcome)) : nat :=
    List.length (filter (fun x => Nat.eqb h (fst (fst (fst x))) && is_ok (snd x)) entries).

  Definition new_log (w w' : world) := skipn (List.length (w_log w)) (w_log w').

  Lemma plan_nodup now v l : NoDup l -> NoDup (plan lc now v l).
  Proof.
    intro ND. unfold plan. destruct lc, l as [|x l']; try exact ND; try (constructor; fail);
      (constructor; [intros []|constructor]).
  Qed.

  Lemma planned_nodup now v : NoDup (planned now v).
  Proof.
    unfold CycleWorld.planned. apply plan_nodup. unfold todo. apply NoDup_filter. apply selected_nodup. exact ids_unique.
  Qed.

  Lemma oks_changing_le_one now v oracle h e :
    oks h (map (fun x => (fst (fst x), snd (fst x), e, snd x)) (d_invoked (changing now v oracle))) <= 1.
  Proof.
    assert (G : forall l, NoDup l ->
              List.length (filter (fun x : hid * nat * nat * outcome => Nat.eqb h (fst (fst (fst x))) && is_ok (snd x))
                 (map (fun x : hid * nat * outcome => (fst (fst x), snd (fst x), e, snd x))
                      (map (fun h0 => (h0, retries_of (hstate now v h0), oracle h0)) l))) <= 1).
    { induction l as [|a l IH]; intro ND; cbn; [lia|]. inversion ND as [|? ? NI ND']; subst.
      destruct (Nat.eqb h a) eqn:E; cbn [andb].
      - apply Nat.eqb_eq in E. subst a. destruct (is_ok (oracle h)); cbn [List.length].
        + assert (Z : forall l', ~ In h l' ->
                   filter (fun x : hid * nat * nat * outcome => Nat.eqb h (fst (fst (fst x))) && is_ok (snd x))
                     (map (fun x : hid * nat * outcome => (fst (fst x), snd (fst x), e, snd x))
                          (map (fun h0 => (h0, retries_of (hstate now v h0), oracle h0)) l')) = []).
          { induction l' as [|b l' IH']; intro N; cbn; [reflexivity|].
            destruct (Nat.eqb h b) eqn:Eb; [apply Nat.eqb_eq in Eb; subst; exfalso; apply N; left; reflexivity|].
            cbn. apply IH'. intro; apply N; right; assumption. }
          rewrite (Z l NI). cbn. lia.
        + apply IH. exact ND'.
      - apply IH. exact ND'. }
    unfold oks, CycleWorld.changing. destruct (selected hc hu v); [cbn; lia|].
    destruct (all_done hc hu lc now v oracle); cbn [d_invoked]; apply G; apply planned_nodup.
  Qed.

  (* ---- what a strict worker cycle does to one owned handler ---- *)
  Lemma proc_facts w o w' h :
    Inv w -> strict w (Proc o false 0) -> step w (Proc o false 0) = Some w' -> In h (owned hc hu) ->
    (forall ok, rget h (o_recs (w_srv w)) = Some (HDone ok) ->
        (rget h (o_recs (w_srv w')) = Some (HDone ok) \/ rget h (o_recs (w_srv w')) = None) /\ oks h (new_log w w') = 0)
    /\ oks h (new_log w w') <= 1
    /\ (0 < oks h (new_log w w') -> rget h (o_recs (w_srv w')) = Some (HDone true) \/ rget h (o_recs (w_srv w')) = None).
  Proof.
    intros I St Sp Ih. pose proof I as (U & S & F & R). destruct St as (_ & _ & Tm).
    pose proof Sp as Sp0.
    cbn in Sp. rewrite U in Sp. destruct (m_queue (w_mem w)) as [|v rest] eqn:Q; [discriminate|].
    cbn [andb] in Sp.
    match type of Sp with (if ?c then _ else _) = _ => destruct c; [|discriminate] end.
    injection Sp as <-.
    set (w0 := mkWorld (w_srv w) (mkMem true rest (m_carried (w_mem w)) None (m_expected (w_mem w)) (m_initial (w_mem w)))
                       (w_need_fin w) (w_now w) (w_log w)) in *.
    destruct (cycle_spec hc hu lc T w0 v rest (oracle_of o) false) as (init & now & nf & carried & c & L & Cf & Rc).
    cbn zeta in *. set (d := process_at init now nf carried c v (oracle_of o)) in *.
    specialize (Rc h Ih). cbn [w_srv w_log w0] in *.
    assert (NL : new_log w (cycle w0 v rest (oracle_of o) false 0)
                 = map (fun x => (fst (fst x), snd (fst x), o_ess v, snd x)) (d_invoked d)).
    { unfold new_log. rewrite L. rewrite skipn_app, skipn_all, Nat.sub_diag. reflexivity. }
    rewrite NL.
    (* was the worker consistent?  if the decision is the change handling's, the view's records are current *)
    destruct (process_store_cases hc hu lc init now nf carried c v (oracle_of o)) as [(Es & Ei)|(Ec & Es & Ep & Ei)]; fold d in Es, Ei.
    - (* nothing stored, nothing invoked *)
      rewrite Ei. cbn [map]. unfold oks at 1 2 3. cbn [filter List.length].
      assert (K : rget h (o_recs (w_srv (cycle w0 v rest (oracle_of o) false 0)))
                  = rget h (o_recs (w_srv w)) \/ rget h (o_recs (w_srv (cycle w0 v rest (oracle_of o) false 0))) = None).
      { rewrite Rc. destruct (has_merge d); [|left; reflexivity].
        rewrite (apply_merge_rget hc hu) by (rewrite Es; constructor).
        unfold stored_for. rewrite Es. cbn [find].
        destruct (d_purge d && existsb (Nat.eqb h) (owned hc hu)); [right|left]; reflexivity. }
      split; [|split; [lia|intro P; lia]].
      intros ok E. split; [|reflexivity]. destruct K as [K|K]; [left; congruence|right; exact K].
    - (* the change handling ran: consistent, so the head view is fresh *)
      fold d in Ep.
      assert (Fresh : fresh_enough (m_expected (w_mem w)) v).
      { unfold fresh_enough. destruct (m_expected (w_mem w)) as [[rv dl]|] eqn:Ex; [|exact Logic.I].
        destruct (Nat.eqb rv (o_rv v)) eqn:Ev; [apply Nat.eqb_eq in Ev; lia|].
        exfalso. unfold expect_after_event in *. cbn [m_expected w_mem w0] in *. rewrite Ex, Ev in *.
        assert (c = false); [|congruence].
        apply Cf; [reflexivity|]. unfold pending_at. apply Nat.ltb_lt. exact Tm. }
      inversion R as [|? ? Rv _]; subst. specialize (Rv Fresh).
      assert (ND : NoDup (map fst (d_store d))) by (rewrite Es; apply changing_store_nodup; exact ids_unique).
      rewrite Ei.
      assert (HM : 0 < oks h (map (fun x => (fst (fst x), snd (fst x), o_ess v, snd x)) (d_invoked (changing now v (oracle_of o))))
                   -> has_merge d = true /\ exists r, In (h, r, OK) (d_invoked (changing now v (oracle_of o)))).
      { unfold oks. intro P.
        destruct (filter _ _) as [|x xs] eqn:Fl; [cbn in P; lia|].
        assert (In x (x :: xs)) as Ix by (left; reflexivity). rewrite <- Fl in Ix.
        apply filter_In in Ix. destruct Ix as (Im & B). apply andb_true_iff in B. destruct B as (B1 & B2).
        apply in_map_iff in Im. destruct Im as ([[h' r'] o'] & Ex & Iy). subst x. cbn in B1, B2.
        apply Nat.eqb_eq in B1. subst h'. destruct o'; try discriminate.
        split; [|exists r'; exact Iy].
        destruct (changing_ok_recorded hc hu lc ids_unique now v (oracle_of o) h r' Iy) as [(Pp & _)|St].
        - unfold has_merge. rewrite Ep, Pp. destruct (d_store d); reflexivity.
        - unfold has_merge. unfold stored_for in St. rewrite <- Es in St.
          destruct (d_store d); [cbn in St; discriminate|reflexivity]. }
      split; [|split].
      + (* finished stays finished, and is not invoked *)
        intros ok E. rewrite <- Rv in E. split.
        * rewrite Rc. destruct (has_merge d); [|left; rewrite <- Rv; exact E].
          rewrite (apply_merge_rget hc hu) by exact ND.
          unfold stored_for. rewrite Es. fold (stored_for (changing now v (oracle_of o)) h).
          rewrite (changing_keeps_finished hc hu lc now v (oracle_of o) h ok E).
          destruct (d_purge d && existsb (Nat.eqb h) (owned hc hu)); [right; reflexivity|left; rewrite <- Rv; exact E].
        * destruct (oks h _) eqn:Ok; [reflexivity|]. exfalso.
          destruct (HM ltac:(lia)) as (_ & r & Iy).
          apply (finished_never_invoked hc hu lc 0 now v (oracle_of o) h ok r OK E Iy).
      + apply oks_changing_le_one.
      + intro P. destruct (HM P) as (Hm & r & Iy). rewrite Rc, Hm.
        rewrite (apply_merge_rget hc hu) by exact ND.
        destruct (changing_ok_recorded hc hu lc ids_unique now v (oracle_of o) h r Iy) as [(Pp & Io)|St].
        * rewrite Ep, Pp. cbn [andb].
          assert (existsb (Nat.eqb h) (owned hc hu) = true) as ->.
          { apply existsb_exists. exists h. split; [exact Io|apply Nat.eqb_refl]. }
          right. reflexivity.
        * unfold stored_for in *. rewrite Es, St.
          destruct (d_purge d && existsb (Nat.eqb h) (owned hc hu)); [right|left]; reflexivity.
  Qed.
End AtMostOnce4.

(* ---------- the theorem: at most one success between two purges, for every strict history ---------- *)
Section AtMostOnceTheorem.
  Variable hc hu : list hid.
  Variable lc : lifecycle.
  Variable T : nat.
  Hypothesis ids_unique : NoDup (hc ++ hu).

  Notation step := (step hc hu lc T).

  (* strict histories, with a ghost counter per handler: successes since its record was last absent on the server *)
  Inductive counted : world -> (hid -> nat) -> Prop :=
  | c_start w nf w' : step w (Start nf) = Some w' -> counted w' (fun _ => 0)
  | c_step w c l w' : counted w c -> strict w l -> step w l = Some w' ->
      counted w' (fun h => match rget h (o_recs (w_srv w')) with
                           | None => 0
                           | Some _ => c h + oks h (new_log w w')
                           end).

  Lemma counted_reach w c : counted w c -> strict_reach hc hu lc T w.
  Proof. induction 1; [eapply sr_start; eauto|eapply sr_step; eauto]. Qed.

  Lemma non_proc_step_keeps w l w' :
    strict w l -> step w l = Some w' -> (forall o wt lost, l <> Proc o wt lost) ->
    o_recs (w_srv w') = o_recs (w_srv w) /\ new_log w w' = [].
  Proof.
    intros St Sp NP. destruct l; cbn in St; try contradiction; try (exfalso; eapply NP; reflexivity).
    - cbn in Sp. injection Sp as <-. cbn. unfold new_log. cbn. rewrite skipn_all. split; reflexivity.
    - cbn in Sp. injection Sp as <-. unfold new_log. cbn. rewrite skipn_all. split; reflexivity.
    - cbn in Sp. destruct (m_up (w_mem w)); [|discriminate]. destruct (m_timer (w_mem w)); [|discriminate].
      destruct (m_queue (w_mem w)); [|discriminate]. destruct (n <=? w_now w); [|discriminate].
      injection Sp as <-. unfold new_log. cbn. rewrite skipn_all. split; reflexivity.
    - cbn in Sp. injection Sp as <-. unfold new_log. cbn. rewrite skipn_all. split; reflexivity.
  Qed.

  Theorem at_most_one_success_between_purges w c :
    counted w c -> forall h, In h (owned hc hu) ->
    c h <= 1 /\ (c h = 1 -> rget h (o_recs (w_srv w)) = Some (HDone true)).
  Proof.
    induction 1 as [w nf w' E|w c l w' Cn IH St Sp]; intros h Ih; [split; [lia|intro; lia]|].
    specialize (IH h Ih). destruct IH as (Le & One).
    pose proof (strict_reach_inv hc hu lc T w (counted_reach w c Cn)) as I.
    destruct l as [e|d|o wt lost| | | | |];
      try (destruct (non_proc_step_keeps w _ w' St Sp ltac:(intros; discriminate)) as (Er & En);
           rewrite Er, En; unfold oks; cbn [filter List.length];
           destruct (rget h (o_recs (w_srv w))) eqn:G; [rewrite Nat.add_0_r; split; [exact Le|exact One]|split; [lia|intro; lia]]).
    (* a worker cycle *)
    pose proof St as (-> & -> & _).
    destruct (proc_facts hc hu lc T ids_unique w o w' h I St Sp Ih) as (Keep & Le1 & Okd).
    destruct (rget h (o_recs (w_srv w'))) as [s'|] eqn:G'; [|split; [lia|intro; lia]].
    destruct (Nat.eq_dec (c h) 1) as [C1|C0].
    - (* already succeeded: the record is finished, so no further success *)
      destruct (Keep true (One C1)) as ([K|K] & Z); [|congruence].
      rewrite Z, C1. split; [lia|]. intros _. congruence.
    - assert (c h = 0) as -> by lia. cbn [Nat.add]. split; [exact Le1|].
      intro E1. destruct (Okd ltac:(lia)) as [K|K]; congruence.
  Qed.
End AtMostOnceTheorem.
