(* C04 — another Kopf operator's writes, after the fix of F5 (kopf commit e6fe434): every prefix a storage of
   this framework writes under is detectable after its first store (marker written, or known without a marker),
   hence its annotations never reach another operator's essence. *)
From Coq Require Import ZArith NArith List String Bool Ascii Lia.
From KV Require Import Base.Json Base.Dicts Model.Keys Model.Storage Model.Essence Model.OwnWrites.
From KV Require Import Proofs.C04Own Proofs.C04Bridge Proofs.C04System.
Import ListNotations.
Open Scope string_scope.
Open Scope list_scope.

Notation nslash := C04Own.no_slash.

(* ---------- which keys mark their prefix ---------- *)
Lemma ot_marker_marks : forall P, nslash P = true -> key_marks_prefix (P ++ "/" ++ marker_name) = Some P.
Proof.
  intros P Hs. unfold key_marks_prefix. rewrite (ow_split_slash_app P marker_name Hs).
  now rewrite String.eqb_refl.
Qed.

Lemma ot_known_marks : forall P n, nslash P = true -> known_without_marker P = true ->
  key_marks_prefix (P ++ "/" ++ n) = Some P.
Proof.
  intros P n Hs Hk. unfold key_marks_prefix. rewrite (ow_split_slash_app P n Hs).
  destruct (String.eqb n marker_name); auto.
  unfold known_without_marker in Hk. apply orb_true_iff in Hk as [Hk|Hk]; rewrite Hk; auto.
  destruct (String.eqb P known_prefix); auto.
Qed.

Lemma ot_marked_in : forall k q (ks : list string),
  In k ks -> key_marks_prefix k = Some q -> In q (marked_prefixes ks).
Proof.
  intros k q ks. induction ks as [|k' ks IH]; intros Hin Hk; [destruct Hin|].
  simpl. destruct Hin as [->|Hin].
  - rewrite Hk. now left.
  - destruct (key_marks_prefix k'); [right|]; auto.
Qed.

(* ---------- the patch written by ensure_all on the empty patch, in closed form ---------- *)
Definition ot_setall (v : json) (ks : list string) (pa : obj) : obj := fold_left (fun acc k => set k v acc) ks pa.

Lemma ot_ensure_all_ann : forall ks pa v, ensure_all (ann_patch pa) ks v = Ok (ann_patch (ot_setall v ks pa)).
Proof.
  induction ks as [|k ks IH]; intros pa v; cbn [ensure_all ot_setall fold_left]; auto.
  rewrite br_ensure_ann. cbn [bind]. apply IH.
Qed.

Lemma ot_ensure_all_empty : forall k ks v, ensure_all (JObj []) (k :: ks) v = Ok (ann_patch (ot_setall v (k :: ks) [])).
Proof.
  intros. cbn [ensure_all]. rewrite br_ensure_empty. cbn [bind]. rewrite ot_ensure_all_ann. reflexivity.
Qed.

Lemma ot_keys_set_mono : forall k (v : json) l j, In j (keys l) -> In j (keys (set k v l)).
Proof. intros k v l j H. rewrite ow_keys_set. destruct (has k l); auto. apply in_or_app; now left. Qed.

Lemma ot_keys_set_self : forall k (v : json) l, In k (keys (set k v l)).
Proof.
  intros k v l. rewrite ow_keys_set. destruct (has k l) eqn:E.
  - unfold has in E. destruct (lookup k l) eqn:El; [|discriminate].
    clear E. induction l as [|[a b] l IH]; simpl in *; [discriminate|].
    destruct (String.eqb k a) eqn:Ea; [left; symmetry; now apply String.eqb_eq|right; auto].
  - apply in_or_app. right. now left.
Qed.

Lemma ot_setall_keys : forall v ks pa j, In j ks \/ In j (keys pa) -> In j (keys (ot_setall v ks pa)).
Proof.
  induction ks as [|k ks IH]; intros pa j H; cbn [ot_setall fold_left].
  - destruct H as [[]|H]; auto.
  - apply IH. destruct H as [[->|H]|H]; auto.
    + right. apply ot_keys_set_self.
    + right. now apply ot_keys_set_mono.
Qed.

Lemma ot_setall_keys_inv : forall v ks pa j, In j (keys (ot_setall v ks pa)) -> In j ks \/ In j (keys pa).
Proof.
  induction ks as [|k ks IH]; intros pa j H; cbn [ot_setall fold_left] in H; auto.
  apply IH in H as [H|H]; [left; now right|].
  apply br_keys_set_in in H as [->|H]; [left; now left|now right].
Qed.

Lemma ot_setall_scalar : forall v ks pa, is_obj v = false -> scalar_vals pa -> scalar_vals (ot_setall v ks pa).
Proof. induction ks as [|k ks IH]; intros pa Hv H; cbn [ot_setall fold_left]; auto. apply IH; auto. now apply br_scalar_set. Qed.

Lemma ot_setall_nonnull : forall v ks pa, v <> JNull -> nonnull_vals pa -> nonnull_vals (ot_setall v ks pa).
Proof. induction ks as [|k ks IH]; intros pa Hv H; cbn [ot_setall fold_left]; auto. apply IH; auto. now apply br_nonnull_set. Qed.

(* ---------- _store_marker after the fix: the prefix is detectable afterwards ---------- *)
Definition ot_marker (P : string) : string := P ++ "/" ++ marker_name.

Lemma ot_store_marker : forall P kvs md A pa p,
  lookup "metadata" kvs = Some (JObj md) -> lookup "annotations" md = Some (JObj A) ->
  store_marker P (JObj kvs) (ann_patch pa) = Ok p ->
  exists pa', p = ann_patch pa' /\ (pa' = pa \/ pa' = set (ot_marker P) (JStr "yes") pa) /\
    (P = "" \/ known_without_marker P = true \/ In (ot_marker P) (keys A) \/ In (ot_marker P) (keys pa')).
Proof.
  intros P kvs md A pa p Hm Ha H. unfold store_marker in H.
  destruct (String.eqb P "") eqn:EP.
  { apply String.eqb_eq in EP. cbn [negb andb] in H. injection H as <-. exists pa. auto. }
  destruct (known_without_marker P) eqn:EK.
  { cbn [negb andb] in H. injection H as <-. exists pa. auto. }
  cbn [negb andb] in H. fold (ot_marker P) in H.
  cbn [resolve_strict] in H. rewrite Hm, Ha in H.
  unfold ann_patch in H. cbn [lookup String.eqb Ascii.eqb Bool.eqb] in H.
  change (JObj [("metadata", JObj [("annotations", JObj pa)])]) with (ann_patch pa) in H.
  destruct (lookup (ot_marker P) A) eqn:EA.
  - assert (In (ot_marker P) (keys A)).
    { clear -EA. induction A as [|[a b] A IH]; simpl in *; [discriminate|].
      destruct (String.eqb (ot_marker P) a) eqn:E; [left; symmetry; now apply String.eqb_eq|right; auto]. }
    destruct (lookup (ot_marker P) pa); injection H as <-; exists pa; auto 6.
  - destruct (lookup (ot_marker P) pa) eqn:Ep.
    + injection H as <-. exists pa. split; auto. split; auto. right. right. right.
      clear -Ep. induction pa as [|[a b] pa IH]; simpl in *; [discriminate|].
      destruct (String.eqb (ot_marker P) a) eqn:E; [left; symmetry; now apply String.eqb_eq|right; auto].
    + change (ensure (ann_patch pa) (ann_path (ot_marker P)) (JStr "yes") = Ok p) in H.
      rewrite br_ensure_ann in H. injection H as <-.
      exists (set (ot_marker P) (JStr "yes") pa). split; auto. split; auto.
      right. right. right. apply ot_keys_set_self.
Qed.

(* ---------- keys survive an update without nulls ---------- *)
Lemma ot_upd_keys : forall pa A j, nonnull_vals pa -> In j (keys A) \/ In j (keys pa) -> In j (keys (upd_ann pa A)).
Proof.
  unfold upd_ann. induction pa as [|[k v] pa IH]; intros A j Hn H; cbn [fold_left].
  - destruct H as [H|[]]; auto.
  - unfold nonnull_vals in Hn. cbn [forallb snd] in Hn. apply andb_true_iff in Hn as [Hv Hn].
    cbn [fst snd]. apply IH; auto.
    destruct v; try discriminate Hv;
      (destruct H as [H|[<-|H]]; [left; now apply ot_keys_set_mono | left; apply ot_keys_set_self | now right]).
Qed.

(* the shape of a store patch (progress record or last-handled state): annotations under P/, no nulls,
   and the prefix is detectable in the body after the merge *)
Definition ot_store_patch (P : string) (A pa : obj) : Prop :=
  scalar_vals pa /\ nonnull_vals pa /\ (forall k, In k (keys pa) -> under_prefix P k = true) /\
  In P (marked_prefixes (keys (upd_ann pa A))).

Lemma ot_store_shape : forall P kvs md A ks v p,
  P <> "" -> nslash P = true ->
  lookup "metadata" kvs = Some (JObj md) -> lookup "annotations" md = Some (JObj A) ->
  ks <> [] -> (forall k, In k ks -> under_prefix P k = true) -> is_obj v = false -> v <> JNull ->
  bind (ensure_all (JObj []) ks v) (store_marker P (JObj kvs)) = Ok p ->
  exists pa, p = ann_patch pa /\ ot_store_patch P A pa.
Proof.
  intros P kvs md A ks v p HP Hs Hm Ha Hks Hu Hv Hnn H.
  destruct ks as [|k0 ks]; [congruence|]. rewrite ot_ensure_all_empty in H. cbn [bind] in H.
  set (pa1 := ot_setall v (k0 :: ks) []) in *.
  assert (S1 : scalar_vals pa1) by (apply ot_setall_scalar; auto; reflexivity).
  assert (N1 : nonnull_vals pa1) by (apply ot_setall_nonnull; auto; reflexivity).
  assert (U1 : forall k, In k (keys pa1) -> under_prefix P k = true).
  { intros k Hk. apply ot_setall_keys_inv in Hk as [Hk|[]]. auto. }
  assert (K0 : In k0 (keys pa1)) by (apply ot_setall_keys; left; now left).
  destruct (ot_store_marker P kvs md A pa1 p Hm Ha H) as [pa [-> [Hpa Hd]]].
  exists pa. split; [reflexivity|].
  assert (S : scalar_vals pa) by (destruct Hpa as [->| ->]; auto; apply br_scalar_set; auto).
  assert (N : nonnull_vals pa) by (destruct Hpa as [->| ->]; auto; apply br_nonnull_set; auto; discriminate).
  assert (U : forall k, In k (keys pa) -> under_prefix P k = true).
  { destruct Hpa as [->| ->]; auto. intros k Hk. apply br_keys_set_in in Hk as [->|Hk]; auto. apply ow_marker_under. }
  assert (K : In k0 (keys pa)) by (destruct Hpa as [->| ->]; auto; now apply ot_keys_set_mono).
  repeat split; auto.
  destruct Hd as [E|[Hk|[Hk|Hk]]]; [congruence| | |].
  - (* known without a marker: the record key itself marks the prefix *)
    destruct (ow_under_prefix_split P k0 (Hu k0 (or_introl eq_refl))) as [n E].
    eapply ot_marked_in; [apply (ot_upd_keys pa A k0 N); right; exact K|].
    rewrite E. now apply ot_known_marks.
  - eapply ot_marked_in; [apply (ot_upd_keys pa A _ N); left; exact Hk|]. now apply ot_marker_marks.
  - eapply ot_marked_in; [apply (ot_upd_keys pa A _ N); right; exact Hk|]. now apply ot_marker_marks.
Qed.

Theorem ot_pstore_shape : forall dg P pv1 verbose tk hkey record kvs md A p,
  P <> "" -> nslash P = true ->
  lookup "metadata" kvs = Some (JObj md) -> lookup "annotations" md = Some (JObj A) ->
  pstore dg (PAnn P pv1 verbose tk) hkey record (JObj kvs) (JObj []) = Ok p ->
  exists pa, p = ann_patch pa /\ ot_store_patch P A pa.
Proof.
  intros dg P pv1 verbose tk hkey record kvs md A p HP Hs Hm Ha H. cbn [pstore] in H.
  refine (ot_store_shape P kvs md A _ _ p HP Hs Hm Ha _ _ _ _ H).
  - apply br_full_keys_nonempty.
  - intros k Hk. eapply ow_full_keys_under; eauto.
  - reflexivity.
  - discriminate.
Qed.

Theorem ot_dstore_shape : forall dg P key v1 ign e kvs md A p,
  P <> "" -> nslash P = true ->
  lookup "metadata" kvs = Some (JObj md) -> lookup "annotations" md = Some (JObj A) ->
  dstore dg (DAnn P key v1 ign) (JObj kvs) (JObj []) e = Ok p ->
  exists pa, p = ann_patch pa /\ ot_store_patch P A pa.
Proof.
  intros dg P key v1 ign e kvs md A p HP Hs Hm Ha H. cbn [dstore] in H.
  refine (ot_store_shape P kvs md A _ _ p HP Hs Hm Ha _ _ _ _ H).
  - apply br_full_keys_nonempty.
  - intros k Hk. eapply ow_full_keys_under; eauto.
  - reflexivity.
  - discriminate.
Qed.

(* ---------- detectability: after its first store the prefix is marked on the object ---------- *)
Theorem prefix_detectable_after_store : forall dg P pv1 verbose tk hkey record kvs md A p,
  P <> "" -> nslash P = true ->
  lookup "metadata" kvs = Some (JObj md) -> lookup "annotations" md = Some (JObj A) ->
  pstore dg (PAnn P pv1 verbose tk) hkey record (JObj kvs) (JObj []) = Ok p ->
  exists A', merge (JObj kvs) p = body_with kvs md A' /\ In P (marked_prefixes (keys A')).
Proof.
  intros dg P pv1 verbose tk hkey record kvs md A p HP Hs Hm Ha H.
  destruct (ot_pstore_shape _ _ _ _ _ _ _ _ _ _ _ HP Hs Hm Ha H) as [pa [-> [S [N [U D]]]]].
  exists (upd_ann pa A). split; auto. now apply br_merge_ann.
Qed.

Theorem prefix_detectable_after_diffbase_store : forall dg P key v1 ign e kvs md A p,
  P <> "" -> nslash P = true ->
  lookup "metadata" kvs = Some (JObj md) -> lookup "annotations" md = Some (JObj A) ->
  dstore dg (DAnn P key v1 ign) (JObj kvs) (JObj []) e = Ok p ->
  exists A', merge (JObj kvs) p = body_with kvs md A' /\ In P (marked_prefixes (keys A')).
Proof.
  intros dg P key v1 ign e kvs md A p HP Hs Hm Ha H.
  destruct (ot_dstore_shape _ _ _ _ _ _ _ _ _ _ HP Hs Hm Ha H) as [pa [-> [S [N [U D]]]]].
  exists (upd_ann pa A). split; auto. now apply br_merge_ann.
Qed.

(* ---------- consequence 1 (every configuration of the observing operator): nothing under the other
   operator's prefix reaches the essence once it has stored anything ---------- *)
Lemma ot_body_with_lookup : forall kvs md A,
  exists md', lookup "metadata" (set "metadata" (JObj (set "annotations" (JObj A) md)) kvs) = Some (JObj md')
              /\ lookup "annotations" md' = Some (JObj A).
Proof. intros. eexists. split; [apply ow_lookup_set_same|apply ow_lookup_set_same]. Qed.

Theorem other_operator_absent_after_store : forall dg' P pv1 verbose tk hkey record kvs md A p dg ds ps extra e j,
  P <> "" -> nslash P = true ->
  lookup "metadata" kvs = Some (JObj md) -> lookup "annotations" md = Some (JObj A) ->
  pstore dg' (PAnn P pv1 verbose tk) hkey record (JObj kvs) (JObj []) = Ok p ->
  (forall f, In f extra -> hd_error f <> Some "metadata") ->
  essence dg ds ps (merge (JObj kvs) p) extra = Ok e ->
  under_prefix P j = true ->
  resolve e ["metadata"; "annotations"; j] = None.
Proof.
  intros dg' P pv1 verbose tk hkey record kvs md A p dg ds ps extra e j HP Hs Hm Ha H Hx He Hj.
  destruct (prefix_detectable_after_store _ _ _ _ _ _ _ _ _ _ _ HP Hs Hm Ha H) as [A' [E D]].
  rewrite E in He. unfold body_with in He.
  destruct (ot_body_with_lookup kvs md A') as [md' [L1 L2]].
  eapply marked_annotation_absent; eauto.
Qed.

Theorem other_operator_absent_after_diffbase_store : forall dg' P key v1 ign e0 kvs md A p dg ds ps extra e j,
  P <> "" -> nslash P = true ->
  lookup "metadata" kvs = Some (JObj md) -> lookup "annotations" md = Some (JObj A) ->
  dstore dg' (DAnn P key v1 ign) (JObj kvs) (JObj []) e0 = Ok p ->
  (forall f, In f extra -> hd_error f <> Some "metadata") ->
  essence dg ds ps (merge (JObj kvs) p) extra = Ok e ->
  under_prefix P j = true ->
  resolve e ["metadata"; "annotations"; j] = None.
Proof.
  intros dg' P key v1 ign e0 kvs md A p dg ds ps extra e j HP Hs Hm Ha H Hx He Hj.
  destruct (prefix_detectable_after_diffbase_store _ _ _ _ _ _ _ _ _ _ HP Hs Hm Ha H) as [A' [E D]].
  rewrite E in He. unfold body_with in He.
  destruct (ot_body_with_lookup kvs md A') as [md' [L1 L2]].
  eapply marked_annotation_absent; eauto.
Qed.

(* ---------- consequence 2 (annotation storages of the observing operator): the essence is UNCHANGED ---------- *)
Lemma ot_filter_upd : forall (f : string -> bool) pa (A : obj),
  (forall k, In k (keys pa) -> f k = false) ->
  filter (fun kv => f (fst kv)) (upd_ann pa A) = filter (fun kv => f (fst kv)) A.
Proof.
  unfold upd_ann. induction pa as [|[k v] pa IH]; intros A H; cbn [fold_left]; auto.
  rewrite IH by (intros j Hj; apply H; now right).
  cbn [fst snd]. assert (Hk : f k = false) by (apply H; now left).
  destruct v; try apply ow_filter_set_invisible; auto. now apply ow_filter_del_invisible.
Qed.

Lemma ot_hidp_upd : forall P pa (A : obj) j,
  nslash P = true -> (forall k, In k (keys pa) -> under_prefix P k = true) -> under_prefix P j = false ->
  ow_hidp (upd_ann pa A) j = ow_hidp A j.
Proof.
  unfold upd_ann. intros P pa. induction pa as [|[k v] pa IH]; intros A j Hs Hu Hj; cbn [fold_left]; auto.
  rewrite IH by (auto; intros i Hi; apply Hu; now right).
  cbn [fst snd]. assert (Hk : under_prefix P k = true) by (apply Hu; now left).
  assert (Hm : ow_marks_over k j = false).
  { destruct (ow_marks_over k j) eqn:E; auto. rewrite (ow_marks_over_P' P k j Hs Hk E) in Hj. discriminate. }
  assert (Hset : forall w, ow_hidp (set k w A) j = ow_hidp A j).
  { intros w. rewrite ow_hidp_set, Hm. now rewrite andb_false_r, orb_false_r. }
  destruct v; auto.
  destruct (ow_hidp A j) eqn:E.
  - destruct (ow_hidp_del_ge k A j E) as [H|H]; auto. congruence.
  - destruct (ow_hidp (del k A) j) eqn:E'; auto. rewrite (ow_hidp_del_le k A j E') in E. discriminate.
Qed.

(* guard = F41: nothing under P/ was visible before (true in particular when the object carries nothing
   under P/ yet, or when P is already marked) *)
Theorem other_operator_patch_invisible : forall dg Q key v1 Q' pv1 verbose tk kvs md A P pa,
  Q' <> "" -> lookup "metadata" kvs = Some (JObj md) -> lookup "annotations" md = Some (JObj A) ->
  nslash P = true -> scalar_vals pa -> (forall k, In k (keys pa) -> under_prefix P k = true) ->
  In P (marked_prefixes (keys (upd_ann pa A))) ->
  (forall j, In j (keys A) -> under_prefix P j = true ->
     vis Q' (full_keys dg Q v1 (body_with kvs md A) key) A j = false) ->
  essence dg (DAnn Q key v1 []) (PAnn Q' pv1 verbose tk) (merge (JObj kvs) (ann_patch pa)) []
  = essence dg (DAnn Q key v1 []) (PAnn Q' pv1 verbose tk) (JObj kvs) [].
Proof.
  intros dg Q key v1 Q' pv1 verbose tk kvs md A P pa HQ Hm Ha Hs Hsc Hu HD Hg.
  rewrite (br_merge_ann kvs md A pa Hm Ha Hsc).
  rewrite <- (br_body_with_id kvs md A Hm Ha).
  apply essence_ann_congr; auto.
  rewrite (ow_full_keys_indep dg Q v1 kvs md (upd_ann pa A) A key).
  set (ks := full_keys dg Q v1 (body_with kvs md A) key) in *.
  rewrite (ot_filter_upd (vis Q' ks (upd_ann pa A)) pa A).
  2:{ intros k Hk. apply ow_vis_hidp. eapply ow_hidp_in; eauto. }
  apply filter_ext_in. intros [j x] Hin. cbn [fst].
  destruct (under_prefix P j) eqn:Ej.
  - rewrite (ow_vis_hidp Q' ks (upd_ann pa A) j) by (eapply ow_hidp_in; eauto).
    symmetry. apply Hg; auto. unfold keys. change j with (fst (j, x)). now apply in_map.
  - apply ow_vis_eq_of_hidp. now apply (ot_hidp_upd P).
Qed.

Theorem other_operator_store_invisible : forall dg Q key v1 Q' pv1 verbose tk kvs md A dg' P pv1' verbose' tk' hkey record p,
  Q' <> "" -> P <> "" -> nslash P = true ->
  lookup "metadata" kvs = Some (JObj md) -> lookup "annotations" md = Some (JObj A) ->
  (forall j, In j (keys A) -> under_prefix P j = true ->
     vis Q' (full_keys dg Q v1 (body_with kvs md A) key) A j = false) ->
  pstore dg' (PAnn P pv1' verbose' tk') hkey record (JObj kvs) (JObj []) = Ok p ->
  essence dg (DAnn Q key v1 []) (PAnn Q' pv1 verbose tk) (merge (JObj kvs) p) []
  = essence dg (DAnn Q key v1 []) (PAnn Q' pv1 verbose tk) (JObj kvs) [].
Proof.
  intros dg Q key v1 Q' pv1 verbose tk kvs md A dg' P pv1' verbose' tk' hkey record p HQ HP Hs Hm Ha Hg H.
  destruct (ot_pstore_shape _ _ _ _ _ _ _ _ _ _ _ HP Hs Hm Ha H) as [pa [-> [S [N [U D]]]]].
  eapply other_operator_patch_invisible; eauto.
Qed.

Theorem other_operator_diffbase_store_invisible : forall dg Q key v1 Q' pv1 verbose tk kvs md A dg' P key' v1' ign e0 p,
  Q' <> "" -> P <> "" -> nslash P = true ->
  lookup "metadata" kvs = Some (JObj md) -> lookup "annotations" md = Some (JObj A) ->
  (forall j, In j (keys A) -> under_prefix P j = true ->
     vis Q' (full_keys dg Q v1 (body_with kvs md A) key) A j = false) ->
  dstore dg' (DAnn P key' v1' ign) (JObj kvs) (JObj []) e0 = Ok p ->
  essence dg (DAnn Q key v1 []) (PAnn Q' pv1 verbose tk) (merge (JObj kvs) p) []
  = essence dg (DAnn Q key v1 []) (PAnn Q' pv1 verbose tk) (JObj kvs) [].
Proof.
  intros dg Q key v1 Q' pv1 verbose tk kvs md A dg' P key' v1' ign e0 p HQ HP Hs Hm Ha Hg H.
  destruct (ot_dstore_shape _ _ _ _ _ _ _ _ _ _ HP Hs Hm Ha H) as [pa [-> [S [N [U D]]]]].
  eapply other_operator_patch_invisible; eauto.
Qed.

(* the two situations that occur in a life of an object: first contact (nothing under P/ yet) ... *)
Corollary other_operator_first_store_invisible : forall dg Q key v1 Q' pv1 verbose tk kvs md A dg' P pv1' verbose' tk' hkey record p,
  Q' <> "" -> P <> "" -> nslash P = true ->
  lookup "metadata" kvs = Some (JObj md) -> lookup "annotations" md = Some (JObj A) ->
  (forall j, In j (keys A) -> under_prefix P j = false) ->
  pstore dg' (PAnn P pv1' verbose' tk') hkey record (JObj kvs) (JObj []) = Ok p ->
  essence dg (DAnn Q key v1 []) (PAnn Q' pv1 verbose tk) (merge (JObj kvs) p) []
  = essence dg (DAnn Q key v1 []) (PAnn Q' pv1 verbose tk) (JObj kvs) [].
Proof.
  intros. eapply other_operator_store_invisible; eauto.
  intros j Hj Hu. rewrite H4 in Hu; auto. discriminate.
Qed.

(* ... and every later store (P is marked by then: prefix_detectable_after_store) *)
Corollary other_operator_later_store_invisible : forall dg Q key v1 Q' pv1 verbose tk kvs md A dg' P pv1' verbose' tk' hkey record p,
  Q' <> "" -> P <> "" -> nslash P = true ->
  lookup "metadata" kvs = Some (JObj md) -> lookup "annotations" md = Some (JObj A) ->
  In P (marked_prefixes (keys A)) ->
  pstore dg' (PAnn P pv1' verbose' tk') hkey record (JObj kvs) (JObj []) = Ok p ->
  essence dg (DAnn Q key v1 []) (PAnn Q' pv1 verbose tk) (merge (JObj kvs) p) []
  = essence dg (DAnn Q key v1 []) (PAnn Q' pv1 verbose tk) (JObj kvs) [].
Proof.
  intros. eapply other_operator_store_invisible; eauto.
  intros j Hj Hu. apply ow_vis_hidp. eapply ow_hidp_in; eauto.
Qed.

(* the prefix that F5 was about *)
Example kopf_dev_is_marked : forall body, store_marker "kopf.dev" body (JObj [])
  = match resolve_strict body ["metadata"; "annotations"; "kopf.dev/kopf-managed"] with
    | ErrType => ErrType
    | ErrKey => Ok (ann_patch [("kopf.dev/kopf-managed", JStr "yes")])
    | _ => Ok (JObj [])
    end.
Proof. intros. unfold store_marker. vm_compute known_without_marker. cbn [negb andb String.eqb].
  change ("kopf.dev" ++ "/" ++ marker_name)%string with "kopf.dev/kopf-managed".
  destruct (resolve_strict body _); reflexivity. Qed.
