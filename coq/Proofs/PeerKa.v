(* keepalive() as a task with requests in flight (Model/PeerKa.v): exit from ANY state withdraws the record. *)
From Coq Require Import List Bool.
From KV Require Import Model.PeerKa.
Import ListNotations.

(* what holds in every reachable state *)
Definition kinv (s : kst) : Prop :=
  match k_ph s with
  | KNew => k_rec s = false /\ k_req s = None /\ k_wfail s = false
  | KTouch => exists a, k_req s = Some (false, a)
  | KSleep => k_req s = None
  | KFinal => exists a, k_req s = Some (true, a) /\ (a = true -> k_rec s = false)
  | KEnd => (exists a, k_req s = Some (true, a) /\ (a = true -> k_rec s = false)) \/
            (k_req s = None /\ (k_wfail s = false -> k_rec s = false))
  end.

Lemma kinv0 : kinv k0.
Proof. unfold kinv; simpl. repeat split. Qed.

Lemma kstep_inv : forall pos s l s', kinv s -> kstep pos s l = Some s' -> kinv s'.
Proof.
  intros pos [ph rc rq wf] l s' I H. unfold kinv in *. simpl in *.
  destruct l, ph, rq as [[[|] [|]]|]; simpl in H; try discriminate; injection H as <-; simpl in *;
    repeat match goal with
           | H : exists _, _ |- _ => destruct H
           | H : _ /\ _ |- _ => destruct H
           | H : _ \/ _ |- _ => destruct H
           | H : Some _ = Some _ |- _ => injection H as ?; subst
           | H : Some _ = None |- _ => discriminate H
           | H : None = Some _ |- _ => discriminate H
           end; subst; try congruence;
    try solve [ eauto | left; eauto | right; split; [reflexivity | intros; discriminate] | right; auto
              | eexists; split; [reflexivity | intros; auto; discriminate] ].
Qed.

Lemma krun_inv : forall pos tr s s', kinv s -> krun pos s tr = Some s' -> kinv s'.
Proof.
  induction tr as [|l tr IH]; simpl; intros s s' I H; [now injection H as <-|].
  destruct (kstep pos s l) as [s1|] eqn:E; [|discriminate]. eapply IH; [eapply kstep_inv; eauto | exact H].
Qed.

(* After keepalive() has ended — by cancellation at any await (also while a PATCH is in flight, applied or
   not), by a failing touch, from any state — once no request is in flight any more and no withdrawal
   request has failed, the server holds no record of this identity. *)
Theorem ended_means_withdrawn : forall pos tr s, krun pos k0 tr = Some s ->
  k_ph s = KEnd -> k_req s = None -> k_wfail s = false -> k_rec s = false.
Proof.
  intros pos tr s R P Q W. pose proof (krun_inv pos tr k0 s kinv0 R) as I. unfold kinv in I. rewrite P in I.
  destruct I as [(a & E & _) | (_ & H)]; [congruence | auto].
Qed.

(* the withdrawal is ISSUED the moment the task is cancelled or its touch fails, in every state in
   which it has ever run: requests in flight included *)
Theorem exit_issues_withdrawal : forall pos tr s l s', krun pos k0 tr = Some s ->
  (l = KCancel \/ l = KFail) -> (k_ph s = KTouch \/ k_ph s = KSleep) -> kstep pos s l = Some s' ->
  k_ph s' = KFinal /\ k_req s' = Some (true, false).
Proof.
  intros pos tr [ph rc rq wf] l s' R L P H. pose proof (krun_inv pos tr k0 _ kinv0 R) as I. unfold kinv in I. simpl in *.
  destruct L as [-> | ->], P as [-> | ->]; simpl in *.
  - destruct I as (a & ->). simpl in H. injection H as <-. auto.
  - subst rq. simpl in H. injection H as <-. auto.
  - destruct I as (a & ->). simpl in H. injection H as <-. auto.
  - subst rq. simpl in H. discriminate.
Qed.

(* cancellation is possible at every await of a task that has not ended, and the withdrawal in flight
   can always be applied and answered: then the record is gone *)
Theorem cancel_enabled : forall pos tr s, krun pos k0 tr = Some s -> k_ph s <> KEnd ->
  exists s', kstep pos s KCancel = Some s'.
Proof.
  intros pos tr [ph rc rq wf] R P. pose proof (krun_inv pos tr k0 _ kinv0 R) as I. unfold kinv in I. simpl in *.
  destruct ph; simpl in *; try congruence.
  - destruct I as (_ & -> & _). eauto.
  - destruct I as (a & ->). eauto.
  - subst rq. eauto.
  - destruct I as (a & -> & _). eauto.
Qed.

Theorem withdrawal_completes : forall pos tr s a, krun pos k0 tr = Some s -> k_req s = Some (true, a) ->
  exists tr' s', krun pos s tr' = Some s' /\ k_ph s' = KEnd /\ k_req s' = None /\ k_rec s' = false /\ k_wfail s' = k_wfail s.
Proof.
  intros pos tr [ph rc rq wf] a R Q. pose proof (krun_inv pos tr k0 _ kinv0 R) as I. unfold kinv in I. simpl in *. subst rq.
  destruct ph; simpl in *.
  - destruct I as (_ & X & _). discriminate.
  - destruct I as (b & X). discriminate.
  - discriminate.
  - destruct I as (b & X & Hr). injection X as <-. destruct a.
    + exists [KReturn]. eexists. simpl. repeat split; auto.
    + exists [KApply; KReturn]. eexists. simpl. repeat split; auto.
  - destruct I as [(b & X & Hr) | (X & _)]; [|discriminate]. injection X as <-. destruct a.
    + exists [KReturn]. eexists. simpl. repeat split; auto.
    + exists [KApply; KReturn]. eexists. simpl. repeat split; auto.
Qed.

(* non-vacuity: stopped while the FIRST announcement is in flight, applied but not answered *)
Example cancelled_during_first_touch :
  exists s, krun true k0 [KCall; KApply; KCancel; KCallW; KApply; KReturn; KDone] = Some s /\
            k_ph s = KEnd /\ k_req s = None /\ k_wfail s = false /\ k_rec s = false.
Proof. eexists. split; [vm_compute; reflexivity|]. repeat split. Qed.

(* ... and in that very state, before the withdrawal, the record IS there *)
Example first_touch_applied_unanswered :
  exists s, krun true k0 [KCall; KApply] = Some s /\ k_ph s = KTouch /\ k_rec s = true /\ k_req s = Some (false, true).
Proof. eexists. split; [vm_compute; reflexivity|]. repeat split. Qed.
