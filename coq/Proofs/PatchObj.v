(* C08 — lemmas about Model/PatchObj.v *)
From Coq Require Import ZArith List String Bool Ascii Arith Lia Sorted.
From KV Require Import Base.Json Base.Dicts Model.JsonPatch Model.PatchObj.
Import ListNotations.
Open Scope string_scope.
Open Scope list_scope.

(* destruct the scrutinee of some match in the goal *)
Ltac po_case :=
  match goal with
  | |- context [match ?x with _ => _ end] =>
      lazymatch x with
      | context [match _ with _ => _ end] => fail
      | _ => let E := fresh "E" in destruct x eqn:E
      end
  end.

Section Generic.
  Variable S : Type.
  Variable serve : S -> po_req -> po_resp * S.
  Variable diff : json -> json -> list jop.

  Lemma po_replay_app (s : S) (qs : list po_req) (q : po_req) :
    po_replay serve s (qs ++ [q]) =
    let (rs, s1) := po_replay serve s qs in let (r, s2) := serve s1 q in (rs ++ [r], s2).
  Proof.
    revert s; induction qs as [|q0 qs IH]; intros s; simpl.
    - destruct (serve s q); reflexivity.
    - destruct (serve s q0) as [r0 s0]. rewrite IH.
      destruct (po_replay serve s0 qs) as [rs s1]. destruct (serve s1 q); reflexivity.
  Qed.

  Definition acc_ok (s0 : S) (a : po_acc S) : Prop :=
    po_replay serve s0 (map fst (a_log a)) = (map snd (a_log a), a_srv a).
  Definition res_ok (s0 : S) (r : po_result S) : Prop :=
    po_replay serve s0 (map fst (r_log r)) = (map snd (r_log r), r_srv r).

  Lemma call_ok s0 a q jb fns k :
    acc_ok s0 a -> (forall a', acc_ok s0 a' -> res_ok s0 (k a')) -> res_ok s0 (po_call S serve a q jb fns k).
  Proof.
    intros Ha Hk. unfold po_call. destruct (serve (a_srv a) q) as [resp s'] eqn:E.
    assert (Hn : forall r, po_replay serve s0 (map fst (a_log a ++ [(q, r)])) =
                           let (r', s2) := serve (a_srv a) q in (map snd (a_log a) ++ [r'], s2)).
    { intros r. rewrite map_app. simpl. rewrite po_replay_app. unfold acc_ok in Ha. rewrite Ha. reflexivity. }
    destruct resp; [apply Hk; unfold acc_ok | unfold res_ok | destruct jb; unfold res_ok | unfold res_ok];
      simpl; rewrite Hn, E, map_app; reflexivity.
  Qed.

  Lemma finish_ok s0 a o : acc_ok s0 a -> res_ok s0 (po_finish S a o).
  Proof. intros H; exact H. Qed.

  Lemma json_status_ok s0 fns sops a fresh : acc_ok s0 a -> res_ok s0 (po_json_status S serve fns sops a fresh).
  Proof.
    intros Ha. unfold po_json_status. destruct sops; [apply finish_ok; exact Ha|].
    destruct (po_rv_of fresh); try (apply finish_ok; exact Ha).
    apply call_ok; [exact Ha|]. intros a' Ha'. apply finish_ok; exact Ha'.
  Qed.

  Lemma json_phase_ok s0 has_sub fns orig a : acc_ok s0 a -> res_ok s0 (po_json_phase S serve diff has_sub fns orig a).
  Proof.
    intros Ha. unfold po_json_phase.
    destruct (po_as_json_patch diff fns (po_fresh (a_patched a) orig)); try (apply finish_ok; exact Ha).
    destruct (po_body_ops has_sub a0); [apply json_status_ok; exact Ha|].
    destruct (po_rv_of _); try (apply finish_ok; exact Ha).
    apply call_ok; [exact Ha|]. intros a' Ha'. apply json_status_ok; exact Ha'.
  Qed.

  Lemma merge_status_ok s0 has_sub sp fns orig a : acc_ok s0 a -> res_ok s0 (po_merge_status S serve diff has_sub sp fns orig a).
  Proof.
    intros Ha. unfold po_merge_status. destruct sp; [|apply json_phase_ok; exact Ha].
    apply call_ok; [exact Ha|]. intros a' Ha'. apply json_phase_ok; exact Ha'.
  Qed.

  (* the log of patch_obj is exactly the dialogue with the server *)
  Theorem po_log_replay has_sub patch fns orig s0 :
    res_ok s0 (patch_obj S serve diff has_sub patch fns orig s0).
  Proof.
    unfold patch_obj. destruct (po_split has_sub patch) as [bp sp].
    assert (H0 : acc_ok s0 (mkAcc s0 [] None)) by reflexivity.
    destruct bp; [apply merge_status_ok; exact H0|].
    apply call_ok; [exact H0|]. intros a' Ha'. apply merge_status_ok; exact Ha'.
  Qed.
End Generic.

(* ---------- small facts ---------- *)
Lemma po_lookup_del_same {V} k (l : list (string * V)) : lookup k (del k l) = None.
Proof.
  induction l as [|[k' v] l IH]; simpl; [reflexivity|].
  destruct (String.eqb k k') eqn:E; [exact IH|]. simpl. rewrite E. exact IH.
Qed.

Lemma po_forallb_filter {A} (f : A -> bool) l : forallb f (filter f l) = true.
Proof. induction l as [|x l IH]; simpl; [reflexivity|]. destruct (f x) eqn:E; simpl; [rewrite E|]; exact IH. Qed.

Lemma po_body_ops_nostatus ops : forallb (fun o => negb (po_is_status_op o)) (po_body_ops true ops) = true.
Proof. unfold po_body_ops. apply po_forallb_filter. Qed.
Lemma po_status_ops_status ops : forallb po_is_status_op (po_status_ops true ops) = true.
Proof. unfold po_status_ops. apply po_forallb_filter. Qed.
Lemma po_status_ops_nosub ops : po_status_ops false ops = [].
Proof. reflexivity. Qed.

(* ---------- the split rule ---------- *)
Definition po_slot (q : po_req) : nat :=
  match rq_url q, rq_payload q with
  | UMain, PMerge _ => 0 | UStatus, PMerge _ => 1 | UMain, PJson _ => 2 | UStatus, PJson _ => 3
  end.

Definition po_req_wellformed (q : po_req) : Prop :=
  rq_method q = "patch" /\
  rq_ctype q = match rq_payload q with PMerge _ => po_ct_merge | PJson _ => po_ct_json end.

Definition po_req_wellsplit (has_sub : bool) (patch : obj) (q : po_req) : Prop :=
  match rq_url q, rq_payload q with
  | UMain, PMerge j =>
      j = JObj (if has_sub then del "status" patch else patch) /\
      (has_sub = true -> forall kvs, j = JObj kvs -> lookup "status" kvs = None)
  | UStatus, PMerge j =>
      has_sub = true /\ exists v, lookup "status" patch = Some v /\ j = JObj [("status", v)]
  | UMain, PJson ops =>
      exists rv rest, ops = po_test rv :: rest /\ rest <> [] /\
                      (has_sub = true -> forallb (fun o => negb (po_is_status_op o)) rest = true)
  | UStatus, PJson ops =>
      has_sub = true /\ exists rv rest, ops = po_test rv :: rest /\ rest <> [] /\ forallb po_is_status_op rest = true
  end.

Definition po_split_ok (has_sub : bool) (patch : obj) (qs : list po_req) : Prop :=
  StronglySorted lt (map po_slot qs) /\
  (forall q, In q qs -> po_req_wellformed q) /\
  (has_sub = false -> forall q, In q qs -> rq_url q = UMain) /\
  (forall q, In q qs -> po_req_wellsplit has_sub patch q).

Ltac po_unfold :=
  unfold patch_obj, po_merge_status, po_json_phase, po_json_status, po_call, po_finish in *.

Ltac po_explode := po_unfold; repeat (po_case; cbn [a_log a_srv a_patched r_log r_out r_srv app map fst snd] in *).

Section Split.
  Variable S : Type.
  Variable serve : S -> po_req -> po_resp * S.
  Variable diff : json -> json -> list jop.

  Lemma po_split_main has_sub patch bp sp :
    po_split has_sub patch = (bp, sp) -> po_req_wellsplit has_sub patch (po_merge_req UMain (JObj bp)).
  Proof.
    unfold po_split. destruct has_sub; intros H; injection H as <- <-; simpl; split; try reflexivity.
    - intros _ kvs E. injection E as <-. apply po_lookup_del_same.
    - intros E; discriminate.
  Qed.

  Lemma po_split_status has_sub patch bp j :
    po_split has_sub patch = (bp, Some j) -> po_req_wellsplit has_sub patch (po_merge_req UStatus j) /\ has_sub = true.
  Proof.
    unfold po_split. destruct has_sub; [|intros H; discriminate].
    destruct (lookup "status" patch) as [v|] eqn:E; [|intros H; discriminate].
    intros H; injection H as <- <-; unfold po_req_wellsplit, po_merge_req; cbn [rq_url rq_payload].
    split; [split; [reflexivity | eexists; split; [exact E | reflexivity]] | reflexivity].
  Qed.

  Lemma po_ws_body_json has_sub patch ops rv o l :
    po_body_ops has_sub ops = o :: l -> po_req_wellsplit has_sub patch (po_json_req UMain (po_test rv :: o :: l)).
  Proof.
    intros E. simpl. exists rv, (o :: l). split; [reflexivity|]. split; [discriminate|].
    intros ->. rewrite <- E. apply po_body_ops_nostatus.
  Qed.

  Lemma po_ws_status_json has_sub patch ops rv o l :
    po_status_ops has_sub ops = o :: l ->
    po_req_wellsplit has_sub patch (po_json_req UStatus (po_test rv :: o :: l)) /\ has_sub = true.
  Proof.
    intros E. destruct has_sub; [|discriminate]. split; [|reflexivity]. simpl. split; [reflexivity|].
    exists rv, (o :: l). split; [reflexivity|]. split; [discriminate|]. rewrite <- E. apply po_status_ops_status.
  Qed.

  Theorem po_split_thm has_sub patch fns orig s0 :
    po_split_ok has_sub patch (map fst (r_log (patch_obj S serve diff has_sub patch fns orig s0))).
  Proof.
    unfold po_split_ok.
    destruct (po_split has_sub patch) as [bp sp] eqn:Esplit.
    pose proof (po_split_main has_sub patch bp sp Esplit) as Hmain.
    assert (Hstat : forall j, sp = Some j -> po_req_wellsplit has_sub patch (po_merge_req UStatus j) /\ has_sub = true).
    { intros j ->. eapply po_split_status; exact Esplit. }
    pose proof (po_ws_body_json has_sub patch) as Hbj.
    pose proof (po_ws_status_json has_sub patch) as Hsj.
    unfold patch_obj. rewrite Esplit. clear Esplit.
    po_explode.
    all: repeat match goal with
         | H : forall j, Some ?x = Some j -> _ |- _ => specialize (H x eq_refl); destruct H as [? ?]
         | H : forall j, None = Some j -> _ |- _ => clear H
         end.
    all: repeat match goal with
         | E : po_body_ops _ _ = _ :: _ |- _ => let H := fresh "Hb" in pose proof (fun rv => Hbj _ rv _ _ E) as H; clear E
         | E : po_status_ops _ _ = _ :: _ |- _ =>
             let H := fresh "Hs" in pose proof (fun rv => Hsj _ rv _ _ E) as H; clear E
         end.
    all: clear Hbj Hsj.
    all: split; [cbn; repeat constructor; cbn; lia|].
    all: split; [cbn; intros q Hq; repeat (destruct Hq as [<-|Hq]; [split; reflexivity|]); destruct Hq|].
    all: split.
    all: try (intros Hsub q Hq; cbn in Hq;
              repeat (destruct Hq as [<-|Hq]; [try reflexivity; exfalso;
                repeat match goal with H : forall rv, _ /\ _ = true |- _ => destruct (H JNull) as [_ ?]; clear H end; congruence|]);
              destruct Hq).
    all: try (intros q Hq; cbn in Hq;
              repeat (destruct Hq as [<-|Hq]; [first [assumption | match goal with H : forall rv, _ |- _ => apply H end]|]); destruct Hq).
  Qed.
End Split.

(* ---------- how a call ends ---------- *)
(* every entry but the last one is a success: patch_obj stops at the first response that is not one *)
Fixpoint po_stops (log : list (po_req * po_resp)) : bool :=
  match log with
  | [] => true
  | [_] => true
  | (_, ROk _) :: rest => po_stops rest
  | _ => false
  end.

Definition po_is_json (q : po_req) : bool := match rq_payload q with PJson _ => true | PMerge _ => false end.

(* the body of the last successful response *)
Fixpoint po_last_ok (log : list (po_req * po_resp)) : option json :=
  match log with
  | [] => None
  | (_, ROk b) :: rest => match po_last_ok rest with Some b' => Some b' | None => Some b end
  | _ :: rest => po_last_ok rest
  end.

Definition po_all_ok (log : list (po_req * po_resp)) : bool :=
  forallb (fun x => match snd x with ROk _ => true | _ => false end) log.

Section Outcomes.
  Variable S : Type.
  Variable serve : S -> po_req -> po_resp * S.
  Variable diff : json -> json -> list jop.

  Definition po_outcome_ok (fns : list pfn) (r : po_result S) : Prop :=
    po_stops (r_log r) = true /\
    (* 404 anywhere: silent end *)
    (forall q, In (q, RNotFound) (r_log r) -> r_out r = Returned None None) /\
    (* 422 on a JSON batch: the last successful body and exactly the fns are returned *)
    (forall q, In (q, RUnprocessable) (r_log r) -> po_is_json q = true ->
               r_out r = Returned (po_last_ok (r_log r)) (Some fns)) /\
    (* 422 on a merge-patch, any other API error: escalates *)
    (forall q, In (q, RUnprocessable) (r_log r) -> po_is_json q = false -> r_out r = Raised (EApi 422)) /\
    (forall q c, In (q, RFail c) (r_log r) -> r_out r = Raised (EApi c)) /\
    (* a remaining patch is returned only after a 422 on a JSON batch, and it is exactly the fns *)
    (forall b rem, r_out r = Returned b (Some rem) ->
                   rem = fns /\ exists pre q, r_log r = pre ++ [(q, RUnprocessable)] /\ po_is_json q = true) /\
    (* undisturbed: everything was accepted -> nothing remains, the last body is returned *)
    (po_all_ok (r_log r) = true -> forall b rem, r_out r = Returned b rem -> rem = None /\ b = po_last_ok (r_log r)).

  Theorem po_outcome_thm has_sub patch fns orig s0 :
    po_outcome_ok fns (patch_obj S serve diff has_sub patch fns orig s0).
  Proof.
    unfold po_outcome_ok.
    unfold patch_obj. destruct (po_split has_sub patch) as [bp sp].
    po_explode.
    all: split; [reflexivity|].
    all: split; [intros q Hq; cbn in Hq; repeat (destruct Hq as [Hq|Hq]; [try congruence|]); try destruct Hq; reflexivity|].
    all: split; [intros q Hq Hj; cbn in Hq;
                 repeat (destruct Hq as [Hq|Hq]; [try congruence; injection Hq as <-; try discriminate Hj; try reflexivity|]);
                 try destruct Hq|].
    all: split; [intros q Hq Hj; cbn in Hq;
                 repeat (destruct Hq as [Hq|Hq]; [try congruence; injection Hq as <-; try discriminate Hj; try reflexivity|]);
                 try destruct Hq|].
    all: split; [intros q c Hq; cbn in Hq;
                 repeat (destruct Hq as [Hq|Hq]; [try congruence; injection Hq as <- <-; reflexivity|]);
                 try destruct Hq|].
    all: split; [intros b rem Hr; first [discriminate Hr |
                 injection Hr as <- <-; split; [reflexivity|];
                 first [ eexists [], _; split; reflexivity
                       | eexists [_], _; split; reflexivity
                       | eexists [_; _], _; split; reflexivity
                       | eexists [_; _; _], _; split; reflexivity ]]|].
    all: intros Hok b rem Hr; first [discriminate Hok | discriminate Hr | injection Hr as <- <-; split; reflexivity].
  Qed.
End Outcomes.

(* ---------- the stateful server ---------- *)
Lemma po_lookup_set_same {V} k (v : V) l : lookup k (set k v l) = Some v.
Proof.
  induction l as [|[k' v'] l IH]; simpl.
  - rewrite String.eqb_refl. reflexivity.
  - destruct (String.eqb k k') eqn:E; simpl; [rewrite String.eqb_refl; reflexivity | rewrite E; exact IH].
Qed.

Lemma po_set_nonempty {V} k (v : V) l : set k v l <> [].
Proof. destruct l as [|[k' v'] l]; simpl; [discriminate|]. destruct (String.eqb k k'); discriminate. Qed.

Lemma po_stamp_shape v b : exists kvs m, po_stamp v b = JObj kvs /\ kvs <> [] /\
                                        lookup "metadata" kvs = Some (JObj m) /\ lookup "resourceVersion" m = Some v.
Proof.
  unfold po_stamp, po_set_meta. destruct b; try (eexists _, _; repeat split; try reflexivity; discriminate).
  eexists _, _. split; [reflexivity|]. split; [apply po_set_nonempty|].
  split; [apply po_lookup_set_same | apply po_lookup_set_same].
Qed.

Lemma po_stamp_truthy v b : po_truthy (po_stamp v b) = true.
Proof. destruct (po_stamp_shape v b) as (kvs & m & -> & Hne & _). destruct kvs; [contradiction|reflexivity]. Qed.

Lemma po_stamp_rv_of v b : po_rv_of (Some (po_stamp v b)) = Ok v.
Proof.
  unfold po_rv_of, po_meta_of. rewrite po_stamp_truthy.
  destruct (po_stamp_shape v b) as (kvs & m & -> & _ & Hm & Hv). rewrite Hm. simpl. rewrite Hv. reflexivity.
Qed.

Lemma po_stamp_get v b : jp_get (po_stamp v b) ["metadata"; "resourceVersion"] = Some v.
Proof. destruct (po_stamp_shape v b) as (kvs & m & -> & _ & Hm & Hv). simpl. rewrite Hm, Hv. reflexivity. Qed.

Lemma po_rv_path_parse : jp_parse po_rv_path = Some ["metadata"; "resourceVersion"].
Proof. reflexivity. Qed.

(* a batch guarded by the test is accepted only on a document whose version equals the tested one *)
Lemma po_test_batch v rest old cand :
  apply_ops (po_test v :: rest) old = Some cand ->
  exists x, jp_get old ["metadata"; "resourceVersion"] = Some x /\ jeqb x v = true /\ apply_ops rest old = Some cand.
Proof.
  change (apply_ops (po_test v :: rest) old) with (obind (apply_op old (po_test v)) (apply_ops rest)).
  unfold po_test, apply_op. rewrite po_rv_path_parse. cbn [obind].
  destruct (jp_get old ["metadata"; "resourceVersion"]) as [x|]; [|discriminate].
  cbn [obind]. destruct (jeqb x v) eqn:E; [|discriminate]. cbn [obind]. intros H. exists x. repeat split; assumption.
Qed.

Section WorldFacts.
  Variable rvs : nat -> json.
  Variable post : json -> json -> json.
  Variable has_sub : bool.
  Variable slip : nat.
  Variable foreign : option json -> option json.
  Hypothesis rvs_inj : forall a b, jeqb (rvs a) (rvs b) = true -> a = b.

  Notation wserve := (po_wserve rvs post has_sub slip foreign).

  Definition po_stamped (w : po_world) : Prop :=
    forall o, w_obj w = Some o -> exists b, o = po_stamp (rvs (w_ctr w)) b.

  Lemma po_wforeign_stamped w : po_stamped w -> po_stamped (po_wforeign rvs foreign w).
  Proof.
    intros H. unfold po_wforeign. destruct (foreign (w_obj w)) as [o|]; intros o' E; simpl in *; [|discriminate].
    injection E as <-. eexists; reflexivity.
  Qed.

  (* one request against the server *)
  Lemma po_wstep w q resp w' :
    wserve w q = (resp, w') -> po_stamped w ->
    let w1 := if Nat.eqb (w_seen w) slip then po_wforeign rvs foreign w else w in
    po_stamped w' /\ w_seen w' = Datatypes.S (w_seen w) /\
    match resp with
    | ROk new =>
        exists old cand, w_obj w1 = Some old /\ po_candidate old (rq_payload q) = Some cand /\
                         new = po_stamp (rvs (Datatypes.S (w_ctr w1))) (post old (po_pick has_sub (rq_url q) old cand)) /\
                         w_obj w' = Some new /\ w_ctr w' = Datatypes.S (w_ctr w1) /\
                         w_hist w' = w_hist w ++ [mkWe (Some old) q (ROk new) (Some new)]
    | RNotFound => w_obj w1 = None /\ w_obj w' = None /\ w_hist w' = w_hist w ++ [mkWe None q RNotFound None]
    | RUnprocessable =>
        exists old, w_obj w1 = Some old /\ po_candidate old (rq_payload q) = None /\ w_obj w' = Some old /\
                    w_ctr w' = w_ctr w1 /\ w_hist w' = w_hist w ++ [mkWe (Some old) q RUnprocessable (Some old)]
    | RFail _ => False
    end.
  Proof.
    intros E Hst. cbv zeta. unfold po_wserve in E.
    set (w1 := if Nat.eqb (w_seen w) slip then po_wforeign rvs foreign w else w) in *.
    assert (Hst1 : po_stamped w1).
    { subst w1. destruct (Nat.eqb (w_seen w) slip); [apply po_wforeign_stamped|]; exact Hst. }
    assert (Hseen : w_seen w1 = w_seen w /\ w_hist w1 = w_hist w).
    { subst w1. destruct (Nat.eqb (w_seen w) slip); [|split; reflexivity].
      unfold po_wforeign. destruct (foreign (w_obj w)); split; reflexivity. }
    destruct Hseen as [Hs Hh].
    destruct (w_obj w1) as [old|] eqn:Eo.
    - destruct (po_candidate old (rq_payload q)) as [cand|] eqn:Ec; injection E as <- <-; simpl.
      + split; [intros o Ho; simpl in Ho; injection Ho as <-; eexists; reflexivity|].
        split; [rewrite Hs; reflexivity|]. exists old, cand. rewrite Hh. repeat split; reflexivity || assumption.
      + split; [intros o Ho; simpl in Ho; injection Ho as <-; apply Hst1; exact Eo|].
        split; [rewrite Hs; reflexivity|]. exists old. rewrite Hh. repeat split; reflexivity || assumption.
    - injection E as <- <-; simpl. split; [intros o Ho; discriminate|]. split; [rewrite Hs; reflexivity|].
      rewrite Hh. repeat split; reflexivity.
  Qed.

  (* a JSON batch which tests the version of the body [seen] the operator holds, sent when the server
     held exactly [seen]: accepted -> no foreign write came in between and the rest applies to [seen] itself *)
  Lemma po_wstep_json w u rest seen resp w' :
    po_stamped w -> w_obj w = Some seen ->
    wserve w (po_json_req u (po_test (rvs (w_ctr w)) :: rest)) = (resp, w') ->
    match resp with
    | ROk new =>
        exists cand, apply_ops rest seen = Some cand /\
                     new = po_stamp (rvs (Datatypes.S (w_ctr w))) (post seen (po_pick has_sub u seen cand)) /\
                     w_hist w' = w_hist w ++ [mkWe (Some seen) (po_json_req u (po_test (rvs (w_ctr w)) :: rest)) (ROk new) (Some new)] /\
                     po_stamped w' /\ w_obj w' = Some new
    | _ => exists before, w_hist w' = w_hist w ++ [mkWe before (po_json_req u (po_test (rvs (w_ctr w)) :: rest)) resp before] /\ w_obj w' = before
    end.
  Proof.
    intros Hst Hobj E. pose proof (po_wstep _ _ _ _ E Hst) as (Hst' & _ & H). cbv zeta in H.
    destruct resp as [new| | |c]; try contradiction.
    - destruct H as (old & cand & Ho & Hc & -> & Ho' & Hctr & Hh).
      simpl in Hc. apply po_test_batch in Hc. destruct Hc as (x & Hx & Hj & Hrest).
      destruct (Nat.eqb (w_seen w) slip) eqn:Es.
      + (* a foreign write came first: the tested version cannot be the current one *)
        exfalso. unfold po_wforeign in Ho. destruct (foreign (w_obj w)) as [o'|]; simpl in Ho; [|discriminate].
        injection Ho as <-. rewrite po_stamp_get in Hx. injection Hx as <-.
        apply rvs_inj in Hj. lia.
      + rewrite Hobj in Ho. injection Ho as <-. exists cand. repeat split; assumption.
    - destruct H as (Ho & Ho' & Hh). exists None. split; assumption.
    - destruct H as (old & Ho & _ & Ho' & _ & Hh). exists (Some old). split; assumption.
  Qed.
End WorldFacts.

Lemma po_body_ops_nil hs : po_body_ops hs [] = [].
Proof. destruct hs; reflexivity. Qed.

Lemma po_as_json_inv diff fns b ops :
  po_as_json_patch diff fns (Some b) = Ok ops -> ops <> [] ->
  exists to_be, po_run_fns fns b = Ok to_be /\ ops = diff b to_be.
Proof.
  unfold po_as_json_patch. destruct b; try discriminate. destruct fns as [|f fns].
  - intros H; injection H as <-. intros H; contradiction.
  - destruct (po_run_fns (f :: fns) (JObj kvs)) as [tb| | |]; simpl; try discriminate.
    intros H _. injection H as <-. exists tb. split; reflexivity.
Qed.

(* ---------- patch_obj against the stateful server: atomicity of the JSON batches ---------- *)
Section Atomic.
  Variable rvs : nat -> json.
  Variable post : json -> json -> json.
  Variable has_sub : bool.
  Variable slip : nat.
  Variable foreign : option json -> option json.
  Variable diff : json -> json -> list jop.
  Hypothesis rvs_inj : forall a b, jeqb (rvs a) (rvs b) = true -> a = b.

  Notation wserve := (po_wserve rvs post has_sub slip foreign).
  Notation stamped := (po_stamped rvs).

  (* where the ops of a /status batch come from: computed (together with the body ops) from the body [fresh] the operator held
     before the JSON phase; [seen], the body whose version the /status batch tests, is [fresh] itself or what the server
     answered to the body batch computed from [fresh] *)
  Definition po_status_src (fns : list pfn) (seen : json) (rest : list jop) : Prop :=
    exists fresh to_be,
      po_run_fns fns fresh = Ok to_be /\ rest = po_status_ops has_sub (diff fresh to_be) /\
      (seen = fresh \/
       exists cand n, apply_ops (po_body_ops has_sub (diff fresh to_be)) fresh = Some cand /\
                      seen = po_stamp (rvs n) (post fresh (po_pick has_sub UMain fresh cand))).

  (* what the history of the server says about one JSON batch *)
  Definition po_entry_ok (fns : list pfn) (e : po_wentry) : Prop :=
    match rq_payload (we_req e) with
    | PMerge _ => True
    | PJson ops =>
        exists rv rest, ops = po_test rv :: rest /\
        match we_resp e with
        | ROk new =>
            (* accepted: the server held exactly the body [seen] whose version was tested; the batch was
               applied to it and to nothing else *)
            exists seen cand n,
              we_before e = Some seen /\ po_rv_of (Some seen) = Ok rv /\
              apply_ops rest seen = Some cand /\
              new = po_stamp (rvs n) (post seen (po_pick has_sub (rq_url (we_req e)) seen cand)) /\
              we_after e = Some new /\
              (rq_url (we_req e) = UMain ->
               exists to_be, po_run_fns fns seen = Ok to_be /\ rest = po_body_ops has_sub (diff seen to_be)) /\
              (rq_url (we_req e) = UStatus -> po_status_src fns seen rest)
        | _ => we_after e = we_before e       (* rejected: the server object is not changed by it *)
        end
    end.

  Definition po_entries_ok fns (w : po_world) : Prop := forall e, In e (w_hist w) -> po_entry_ok fns e.

  Lemma po_stamped_rv w seen : stamped w -> w_obj w = Some seen ->
    po_rv_of (Some seen) = Ok (rvs (w_ctr w)) /\ po_truthy seen = true.
  Proof.
    intros Hst Ho. destruct (Hst _ Ho) as [b ->]. split; [apply po_stamp_rv_of | apply po_stamp_truthy].
  Qed.

  Lemma po_entries_snoc fns w w' e :
    po_entries_ok fns w -> w_hist w' = w_hist w ++ [e] -> po_entry_ok fns e -> po_entries_ok fns w'.
  Proof.
    intros H Hh He x Hx. rewrite Hh in Hx. apply in_app_or in Hx. destruct Hx as [Hx|[<-|[]]]; [apply H; exact Hx | exact He].
  Qed.

  Lemma po_atomic_status fns sops a seen :
    stamped (a_srv a) -> po_entries_ok fns (a_srv a) -> w_obj (a_srv a) = Some seen ->
    (sops <> [] -> po_status_src fns seen sops) ->
    po_entries_ok fns (r_srv (po_json_status po_world wserve fns sops a (Some seen))).
  Proof.
    intros Hst Hen Ho Hsrc. unfold po_json_status. destruct sops as [|o l]; [exact Hen|].
    assert (Hsrc' : po_status_src fns seen (o :: l)) by (apply Hsrc; discriminate).
    destruct (po_stamped_rv _ _ Hst Ho) as [Hrv _]. rewrite Hrv.
    unfold po_call. destruct (wserve (a_srv a) _) as [resp w'] eqn:E.
    pose proof (po_wstep_json rvs post has_sub slip foreign rvs_inj _ _ _ _ _ _ Hst Ho E) as H.
    destruct resp as [new| | |c]; cbn [r_srv po_finish a_srv].
    - destruct H as (cand & Hc & Hn & Hh & _ & _). eapply po_entries_snoc; [exact Hen | exact Hh|].
      unfold po_entry_ok; cbn. eexists _, _. split; [reflexivity|].
      exists seen, cand, (Datatypes.S (w_ctr (a_srv a))). repeat split; try assumption; [intros H'; discriminate | intros _; exact Hsrc'].
    - destruct H as (bf & Hh & _). eapply po_entries_snoc; [exact Hen | exact Hh|].
      unfold po_entry_ok; cbn. eexists _, _. split; reflexivity.
    - destruct H as (bf & Hh & _). eapply po_entries_snoc; [exact Hen | exact Hh|].
      unfold po_entry_ok; cbn. eexists _, _. split; reflexivity.
    - destruct H as (bf & Hh & _). eapply po_entries_snoc; [exact Hen | exact Hh|].
      unfold po_entry_ok; cbn. eexists _, _. split; reflexivity.
  Qed.

  Lemma po_atomic_phase fns orig a seen :
    stamped (a_srv a) -> po_entries_ok fns (a_srv a) -> w_obj (a_srv a) = Some seen ->
    po_fresh (a_patched a) orig = Some seen ->
    po_entries_ok fns (r_srv (po_json_phase po_world wserve diff has_sub fns orig a)).
  Proof.
    intros Hst Hen Ho Hf. unfold po_json_phase. rewrite Hf.
    destruct (po_as_json_patch diff fns (Some seen)) as [ops| | |] eqn:Eops; try exact Hen.
    assert (Hsrc0 : po_status_ops has_sub ops <> [] -> exists to_be, po_run_fns fns seen = Ok to_be /\ ops = diff seen to_be).
    { intros Hne. apply (po_as_json_inv _ _ _ _ Eops). intros ->. apply Hne. destruct has_sub; reflexivity. }
    destruct (po_body_ops has_sub ops) as [|o l] eqn:Eb.
    { apply po_atomic_status; try assumption. intros Hne. destruct (Hsrc0 Hne) as (to_be & Hrun & Hops).
      exists seen, to_be. split; [exact Hrun|]. split; [rewrite Hops; reflexivity | left; reflexivity]. }
    destruct (po_stamped_rv _ _ Hst Ho) as [Hrv _]. rewrite Hrv.
    unfold po_call. destruct (wserve (a_srv a) _) as [resp w'] eqn:E.
    pose proof (po_wstep_json rvs post has_sub slip foreign rvs_inj _ _ _ _ _ _ Hst Ho E) as H.
    assert (Hne : ops <> []). { intros ->. rewrite po_body_ops_nil in Eb. discriminate. }
    destruct (po_as_json_inv _ _ _ _ Eops Hne) as (to_be & Hrun & Hops).
    destruct resp as [new| | |c]; cbn [r_srv po_finish a_srv].
    - destruct H as (cand & Hc & Hn & Hh & Hst' & Ho').
      apply po_atomic_status; cbn [a_srv a_patched]; try assumption.
      + eapply po_entries_snoc; [exact Hen | exact Hh|].
        unfold po_entry_ok; cbn. eexists _, _. split; [reflexivity|].
        exists seen, cand, (Datatypes.S (w_ctr (a_srv a))). repeat split; try assumption.
        * intros _. exists to_be. split; [exact Hrun|]. rewrite <- Eb, Hops. reflexivity.
        * intros H'; discriminate.
      + intros _. exists seen, to_be. split; [exact Hrun|]. split; [rewrite Hops; reflexivity|]. right.
        exists cand, (Datatypes.S (w_ctr (a_srv a))). split; [rewrite <- Hops, Eb; exact Hc | exact Hn].
    - destruct H as (bf & Hh & _). eapply po_entries_snoc; [exact Hen | exact Hh|].
      unfold po_entry_ok; cbn. eexists _, _. split; reflexivity.
    - destruct H as (bf & Hh & _). eapply po_entries_snoc; [exact Hen | exact Hh|].
      unfold po_entry_ok; cbn. eexists _, _. split; reflexivity.
    - destruct H as (bf & Hh & _). eapply po_entries_snoc; [exact Hen | exact Hh|].
      unfold po_entry_ok; cbn. eexists _, _. split; reflexivity.
  Qed.

  (* a merge-patch request in front: whatever it does, the JSON phase starts from the server's own answer *)
  Lemma po_atomic_merge_call fns orig a u j (k : po_acc po_world -> po_result po_world) :
    stamped (a_srv a) -> po_entries_ok fns (a_srv a) ->
    (forall a' seen, stamped (a_srv a') -> po_entries_ok fns (a_srv a') -> w_obj (a_srv a') = Some seen ->
                     po_fresh (a_patched a') orig = Some seen -> po_entries_ok fns (r_srv (k a'))) ->
    po_entries_ok fns (r_srv (po_call po_world wserve a (po_merge_req u j) false fns k)).
  Proof.
    intros Hst Hen Hk. unfold po_call. destruct (wserve (a_srv a) _) as [resp w'] eqn:E.
    pose proof (po_wstep rvs post has_sub slip foreign _ _ _ _ E Hst) as (Hst' & _ & H). cbv zeta in H.
    destruct resp as [new| | |c]; cbn [r_srv]; try contradiction.
    - destruct H as (old & cand & _ & _ & Hn & Ho' & _ & Hh).
      apply (Hk _ new); cbn [a_srv a_patched]; try assumption.
      + eapply po_entries_snoc; [exact Hen | exact Hh | exact I].
      + unfold po_fresh. rewrite Hn, po_stamp_truthy. reflexivity.
    - destruct H as (_ & _ & Hh). eapply po_entries_snoc; [exact Hen | exact Hh | exact I].
    - destruct H as (old & _ & _ & _ & _ & Hh). eapply po_entries_snoc; [exact Hen | exact Hh | exact I].
  Qed.

  Theorem po_atomic_thm patch fns b0 c0 :
    let obj0 := po_stamp (rvs c0) b0 in
    let r := patch_obj po_world wserve diff has_sub patch fns (Some obj0) (mkW (Some obj0) c0 0 []) in
    forall e, In e (w_hist (r_srv r)) -> po_entry_ok fns e.
  Proof.
    intros obj0 r. subst r. unfold patch_obj. destruct (po_split has_sub patch) as [bp sp].
    set (w0 := mkW (Some obj0) c0 0 []).
    assert (Hst0 : stamped w0). { intros o Ho. simpl in Ho. injection Ho as <-. eexists; reflexivity. }
    assert (Hen0 : po_entries_ok fns w0). { intros e []. }
    assert (Hms : forall a seen, stamped (a_srv a) -> po_entries_ok fns (a_srv a) -> w_obj (a_srv a) = Some seen ->
                                 po_fresh (a_patched a) (Some obj0) = Some seen ->
                                 po_entries_ok fns (r_srv (po_merge_status po_world wserve diff has_sub sp fns (Some obj0) a))).
    { intros a seen Hst Hen Ho Hf. unfold po_merge_status. destruct sp as [j|].
      - apply (po_atomic_merge_call fns (Some obj0)); try assumption. intros a' seen' H1 H2 H3 H4. eapply po_atomic_phase; eassumption.
      - eapply po_atomic_phase; eassumption. }
    destruct bp as [|kv bp].
    - apply (Hms _ obj0); try assumption; reflexivity.
    - apply (po_atomic_merge_call fns (Some obj0)); assumption.
  Qed.
End Atomic.

(* ---------- nothing of the merge-patch is lost by the split ---------- *)
Lemma po_lookup_del_other {V} k k' (l : list (string * V)) : String.eqb k k' = false -> lookup k (del k' l) = lookup k l.
Proof.
  intros Hk. induction l as [|[k2 v] l IH]; simpl; [reflexivity|].
  destruct (String.eqb k' k2) eqn:E2.
  - apply String.eqb_eq in E2. subst k2. rewrite Hk. exact IH.
  - simpl. destruct (String.eqb k k2); [reflexivity | exact IH].
Qed.

(* every key of the patch is in exactly one of the two merge payloads (since the repair of F801 also `status: None`) *)
Theorem po_split_cover has_sub patch bp sp k v :
  po_split has_sub patch = (bp, sp) -> lookup k patch = Some v ->
  (if has_sub && String.eqb k "status" then sp = Some (JObj [("status", v)]) /\ lookup k bp = None
   else lookup k bp = Some v).
Proof.
  unfold po_split. destruct has_sub; intros H Hl; injection H as <- <-; simpl.
  - destruct (String.eqb k "status") eqn:Ek.
    + apply String.eqb_eq in Ek. subst k. rewrite Hl. split; [reflexivity | apply po_lookup_del_same].
    + rewrite po_lookup_del_other; assumption.
  - exact Hl.
Qed.

(* regression (the old witness of F801): `status: None` with a status subresource is planned for /status as {"status": null};
   the examples with a server are further down: po_ex_status_null_plan, _scripted, _removed *)
Example po_status_null_split :
  po_split true [("status", JNull)] = ([], Some (JObj [("status", JNull)])) /\
  po_split true [("metadata", JObj []); ("status", JNull)] = ([("metadata", JObj [])], Some (JObj [("status", JNull)])) /\
  po_split false [("status", JNull)] = ([("status", JNull)], None).
Proof. repeat split. Qed.

(* ---------- which requests are sent when nothing goes wrong ---------- *)
Definition po_merge_plan (has_sub : bool) (patch : obj) : list po_req :=
  let (bp, sp) := po_split has_sub patch in
  (match bp with [] => [] | _ => [po_merge_req UMain (JObj bp)] end) ++
  (match sp with Some j => [po_merge_req UStatus j] | None => [] end).

Section Plan.
  Variable S : Type.
  Variable serve : S -> po_req -> po_resp * S.
  Variable diff : json -> json -> list jop.

  (* if every request was accepted, every planned merge-patch request was sent (and nothing else as a merge-patch) *)
  Theorem po_merges_sent has_sub patch fns orig s0 :
    let r := patch_obj S serve diff has_sub patch fns orig s0 in
    po_all_ok (r_log r) = true ->
    filter (fun q => negb (po_is_json q)) (map fst (r_log r)) = po_merge_plan has_sub patch.
  Proof.
    cbv zeta. unfold po_merge_plan, patch_obj. destruct (po_split has_sub patch) as [bp sp].
    po_explode; intros Hok; try discriminate Hok; reflexivity.
  Qed.
End Plan.

(* ---------- F6: merge-patches carry no precondition ---------- *)
Definition po_ex_rvs (n : nat) : json := JNum (Z.of_nat n).
Lemma po_ex_rvs_inj a b : jeqb (po_ex_rvs a) (po_ex_rvs b) = true -> a = b.
Proof. simpl. intros H. apply Z.eqb_eq in H. lia. Qed.

Definition po_ex_obj (uid : string) : json :=
  JObj [("metadata", JObj [("uid", JStr uid)]); ("spec", JObj [("a", JNum 1)])].
Definition po_ex_recreate (o : option json) : option json := Some (po_ex_obj "uid-2").
Definition po_ex_diff (a b : json) : list jop := [OReplace "" b].
Definition po_ex_patch : obj := [("status", JObj [("handled-for", JStr "uid-1")])].

Theorem po_wrong_object :
  let obj0 := po_stamp (po_ex_rvs 0) (po_ex_obj "uid-1") in
  let r := patch_obj po_world (po_wserve po_ex_rvs (fun _ c => c) false 0 po_ex_recreate) po_ex_diff false
                     po_ex_patch [] (Some obj0) (mkW (Some obj0) 0 0 []) in
  exists q new, r_log r = [(q, ROk new)] /\ po_is_json q = false /\
                po_uid_field obj0 = Some (JStr "uid-1") /\ po_uid_field new = Some (JStr "uid-2") /\
                w_obj (r_srv r) = Some new /\
                po_status_of new = Some (JObj [("handled-for", JStr "uid-1")]) /\
                r_out r = Returned (Some new) None.
Proof. cbv zeta. eexists _, _. vm_compute. repeat split. Qed.

Lemma po_test_pass v x rest old :
  jp_get old ["metadata"; "resourceVersion"] = Some x -> jeqb x v = true ->
  apply_ops (po_test v :: rest) old = apply_ops rest old.
Proof.
  intros Hx Hj.
  change (apply_ops (po_test v :: rest) old) with (obind (apply_op old (po_test v)) (apply_ops rest)).
  unfold po_test, apply_op. rewrite po_rv_path_parse. cbn [obind]. rewrite Hx. cbn [obind]. rewrite Hj. reflexivity.
Qed.

(* ---------- completeness, no status subresource, nobody else writes ---------- *)
Section Complete.
  Variable rvs : nat -> json.
  Variable post : json -> json -> json.
  Variable slip : nat.
  Variable foreign : option json -> option json.
  Variable diff : json -> json -> list jop.
  Hypothesis rvs_refl : forall n, jeqb (rvs n) (rvs n) = true.
  Hypothesis diff_law : forall a b, apply_ops (diff a b) a = Some b.     (* the law of jsonpatch.from_diff (C18) *)

  Theorem po_complete_nosub patch fns b0 c0 to_be :
    patch <> [] -> slip <> 0 -> slip <> 1 ->
    let obj0 := po_stamp (rvs c0) b0 in
    let new1 := po_stamp (rvs (Datatypes.S c0)) (post obj0 (merge obj0 (JObj patch))) in
    po_run_fns fns new1 = Ok to_be ->
    let r := patch_obj po_world (po_wserve rvs post false slip foreign) diff false patch fns (Some obj0)
                       (mkW (Some obj0) c0 0 []) in
    let final := match fns, diff new1 to_be with
                 | [], _ | _, [] => new1
                 | _, _ => po_stamp (rvs (Datatypes.S (Datatypes.S c0))) (post new1 to_be)
                 end in
    w_obj (r_srv r) = Some final /\ r_out r = Returned (Some final) None /\ po_all_ok (r_log r) = true.
  Proof.
    intros Hp Hs0 Hs1 obj0 new1 Hrun. cbv zeta.
    match goal with |- w_obj (r_srv ?r) = Some ?f /\ _ =>
      cut (exists log w, r = mkRes (Returned (Some f) None) log w /\ w_obj w = Some f /\ po_all_ok log = true);
      [intros (log & w & -> & Hw & Hl); repeat split; assumption|]
    end.
    destruct patch as [|kv p]; [contradiction|].
    unfold patch_obj, po_split. unfold po_call at 1. cbn [a_srv a_log a_patched].
    unfold po_wserve at 1. cbn [w_seen w_obj w_ctr w_hist].
    destruct (Nat.eqb 0 slip) eqn:E0; [apply Nat.eqb_eq in E0; congruence|].
    cbn [w_obj po_candidate rq_payload po_merge_req rq_url po_pick w_ctr w_seen w_hist].
    fold obj0. fold new1.
    unfold po_merge_status, po_json_phase. cbn [a_patched a_srv a_log].
    assert (Ht : po_truthy new1 = true) by apply po_stamp_truthy.
    assert (Hrv : po_rv_of (Some new1) = Ok (rvs (Datatypes.S c0))) by apply po_stamp_rv_of.
    unfold po_fresh. rewrite !Ht.
    destruct (po_stamp_shape (rvs (Datatypes.S c0)) (post obj0 (merge obj0 (JObj (kv :: p))))) as (kvs & m & Hshape & _).
    fold new1 in Hshape.
    unfold po_as_json_patch. rewrite Hshape. rewrite <- Hshape.
    destruct fns as [|f fns'].
    - eexists _, _. split; [reflexivity|]. split; reflexivity.
    - rewrite Hrun. cbn [bind]. unfold po_body_ops at 1. unfold po_body_ops at 1.
      destruct (diff new1 to_be) as [|o l] eqn:Ed.
      + eexists _, _. split; [reflexivity|]. split; reflexivity.
      + rewrite Hrv.
        unfold po_call at 1. cbn [a_srv a_log a_patched].
        unfold po_wserve at 1. cbn [w_seen w_obj w_ctr w_hist].
        destruct (Nat.eqb 1 slip) eqn:E1; [apply Nat.eqb_eq in E1; congruence|].
        cbn [w_obj po_candidate rq_payload po_json_req rq_url po_pick w_ctr w_seen w_hist].
        rewrite (po_test_pass _ (rvs (Datatypes.S c0))); [| unfold new1; apply po_stamp_get | apply rvs_refl].
        rewrite <- Ed, diff_law.
        eexists _, _. split; [reflexivity|]. split; reflexivity.
  Qed.
End Complete.


(* ---------- partial: a write lands on the object it was computed for as long as the uid behind the name is stable ---------- *)
Lemma po_lookup_set_other {V} k k' (v : V) l : String.eqb k k' = false -> lookup k (set k' v l) = lookup k l.
Proof.
  intros Hk. induction l as [|[k2 v2] l IH]; simpl.
  - rewrite Hk. reflexivity.
  - destruct (String.eqb k' k2) eqn:E2; simpl.
    + apply String.eqb_eq in E2. subst k2. rewrite Hk. reflexivity.
    + destruct (String.eqb k k2); [reflexivity | exact IH].
Qed.

Lemma po_stamp_uid v b : po_uid_field b <> None -> po_uid_field (po_stamp v b) = po_uid_field b.
Proof.
  unfold po_uid_field, po_meta_field, po_stamp, po_set_meta. destruct b; try (intros H; contradiction).
  rewrite po_lookup_set_same. rewrite po_lookup_set_other by reflexivity.
  destruct (lookup "metadata" kvs) as [[]|]; try (intros H; contradiction). reflexivity.
Qed.

Section SameObject.
  Variable rvs : nat -> json.
  Variable post : json -> json -> json.
  Variable has_sub : bool.
  Variable slip : nat.
  Variable foreign : option json -> option json.
  Variable diff : json -> json -> list jop.
  Variable uid : json.
  (* the API server never changes the uid of an object; the other writer does not replace the object by another one *)
  Hypothesis post_uid : forall old cand, po_uid_field old = Some uid -> po_uid_field (post old cand) = Some uid.
  Hypothesis foreign_uid : forall o o', (forall x, o = Some x -> po_uid_field x = Some uid) -> foreign o = Some o' ->
                                        po_uid_field o' = Some uid.

  Notation wserve := (po_wserve rvs post has_sub slip foreign).

  Definition po_uid_inv (w : po_world) : Prop := forall o, w_obj w = Some o -> po_uid_field o = Some uid.

  Lemma po_uid_step w q resp w' :
    po_uid_inv w -> wserve w q = (resp, w') ->
    po_uid_inv w' /\ (forall new, resp = ROk new -> po_uid_field new = Some uid).
  Proof.
    intros Hi E. unfold po_wserve in E.
    set (w1 := if Nat.eqb (w_seen w) slip then po_wforeign rvs foreign w else w) in *.
    assert (H1 : po_uid_inv w1).
    { subst w1. destruct (Nat.eqb (w_seen w) slip); [|exact Hi]. unfold po_wforeign.
      destruct (foreign (w_obj w)) as [o'|] eqn:Ef; intros x Hx; simpl in Hx; [|discriminate].
      injection Hx as <-. pose proof (foreign_uid _ _ Hi Ef) as Hu. rewrite po_stamp_uid; [exact Hu | rewrite Hu; discriminate]. }
    destruct (w_obj w1) as [old|] eqn:Eo.
    - destruct (po_candidate old (rq_payload q)) as [cand|]; injection E as <- <-.
      + assert (Hn : po_uid_field (po_stamp (rvs (Datatypes.S (w_ctr w1))) (post old (po_pick has_sub (rq_url q) old cand))) = Some uid).
        { pose proof (post_uid old (po_pick has_sub (rq_url q) old cand) (H1 _ Eo)) as Hu.
          rewrite po_stamp_uid; [exact Hu | rewrite Hu; discriminate]. }
        split; [intros x Hx; simpl in Hx; injection Hx as <-; exact Hn | intros new Hr; injection Hr as <-; exact Hn].
      + split; [intros x Hx; simpl in Hx; injection Hx as <-; apply H1; exact Eo | intros new Hr; discriminate].
    - injection E as <- <-. split; [intros x Hx; discriminate | intros new Hr; discriminate].
  Qed.

  Lemma po_uid_replay qs : forall w rs w',
    po_uid_inv w -> po_replay wserve w qs = (rs, w') ->
    po_uid_inv w' /\ forall new, In (ROk new) rs -> po_uid_field new = Some uid.
  Proof.
    induction qs as [|q qs IH]; intros w rs w' Hi E; simpl in E.
    - injection E as <- <-. split; [exact Hi | intros new []].
    - destruct (wserve w q) as [r s1] eqn:E1. destruct (po_replay wserve s1 qs) as [rs' s2] eqn:E2.
      injection E as <- <-. destruct (po_uid_step _ _ _ _ Hi E1) as [Hi1 Hr1].
      destruct (IH _ _ _ Hi1 E2) as [Hi2 Hr2]. split; [exact Hi2|].
      intros new [Hn|Hn]; [apply Hr1; exact Hn | apply Hr2; exact Hn].
  Qed.

  Theorem po_same_object patch fns orig obj0 c0 :
    po_uid_field obj0 = Some uid ->
    let r := patch_obj po_world wserve diff has_sub patch fns orig (mkW (Some obj0) c0 0 []) in
    (forall q new, In (q, ROk new) (r_log r) -> po_uid_field new = Some uid) /\
    (forall o, w_obj (r_srv r) = Some o -> po_uid_field o = Some uid).
  Proof.
    intros Hu r.
    pose proof (po_log_replay po_world wserve diff has_sub patch fns orig (mkW (Some obj0) c0 0 [])) as Hrep.
    unfold res_ok in Hrep. fold r in Hrep.
    assert (Hi0 : po_uid_inv (mkW (Some obj0) c0 0 [])). { intros o Ho. simpl in Ho. injection Ho as <-. exact Hu. }
    destruct (po_uid_replay _ _ _ _ Hi0 Hrep) as [Hi Hr]. split; [|exact Hi].
    intros q new Hin. apply Hr. change (ROk new) with (snd (q, ROk new)). apply in_map. exact Hin.
  Qed.
End SameObject.

(* ---------- non-vacuity: the hypotheses about the server are satisfiable ---------- *)
Example po_ex_rvs_refl : forall n, jeqb (po_ex_rvs n) (po_ex_rvs n) = true.
Proof. intros n. simpl. apply Z.eqb_refl. Qed.

Example po_ex_diff_law : forall a b, apply_ops (po_ex_diff a b) a = Some b.
Proof. intros a b. reflexivity. Qed.

(* a full run with all four requests against the stateful server: accepted, complete *)
Definition po_ex_fns : list pfn :=
  [mkFn 0 (po_fn_add2 "metadata" "finalizers" (JStr "fin")); mkFn 1 (po_fn_set2 "status" "y" (JNum 2))].
Definition po_ex_realdiff (a b : json) : list jop :=
  [OAdd "/metadata/finalizers" (JList [JStr "fin"]); OAdd "/status/y" (JNum 2)].

Example po_ex_four_requests :
  let obj0 := po_stamp (po_ex_rvs 0) (po_ex_obj "uid-1") in
  let r := patch_obj po_world (po_wserve po_ex_rvs (fun _ c => c) true 9 (fun o => o)) po_ex_realdiff true
                     [("spec", JObj [("b", JNum 2)]); ("status", JObj [("s", JNum 1)])] po_ex_fns (Some obj0)
                     (mkW (Some obj0) 0 0 []) in
  map po_slot (map fst (r_log r)) = [0; 1; 2; 3]%nat /\ po_all_ok (r_log r) = true /\
  exists final, r_out r = Returned (Some final) None /\ w_obj (r_srv r) = Some final /\
                jp_get final ["metadata"; "finalizers"] = Some (JList [JStr "fin"]) /\
                jp_get final ["status"] = Some (JObj [("s", JNum 1); ("y", JNum 2)]) /\
                jp_get final ["spec"; "b"] = Some (JNum 2).
Proof. cbv zeta. split; [vm_compute; reflexivity|]. split; [vm_compute; reflexivity|]. eexists. vm_compute. repeat split. Qed.

(* the same run with a foreign write slipped in before the JSON batch: rejected, nothing written, fns carried *)
Example po_ex_conflict :
  let obj0 := po_stamp (po_ex_rvs 0) (po_ex_obj "uid-1") in
  let edit := fun o => match o with Some b => Some (po_set_meta "foreign" (JStr "w") b) | None => None end in
  let r := patch_obj po_world (po_wserve po_ex_rvs (fun _ c => c) true 2 edit) po_ex_realdiff true
                     [("spec", JObj [("b", JNum 2)]); ("status", JObj [("s", JNum 1)])] po_ex_fns (Some obj0)
                     (mkW (Some obj0) 0 0 []) in
  map po_slot (map fst (r_log r)) = [0; 1; 2]%nat /\
  (exists b, r_out r = Returned (Some b) (Some po_ex_fns)) /\
  exists final, w_obj (r_srv r) = Some final /\ jp_get final ["metadata"; "finalizers"] = None /\
                jp_get final ["metadata"; "foreign"] = Some (JStr "w").
Proof. cbv zeta. split; [vm_compute; reflexivity|]. split; eexists; vm_compute; repeat split. Qed.

(* ---------- application.apply: patch / sleep / touch ---------- *)
Section ApplyDecision.
  Variable S : Type.
  Variable serve : S -> po_req -> po_resp * S.
  Variable diff : json -> json -> list jop.

  Theorem po_apply_decision has_sub patch0 clear fns orig delays woken touch_patch s0 r :
    po_apply S serve diff has_sub patch0 clear fns orig delays woken touch_patch s0 = ApOk r ->
    let p := po_patch_truthy patch0 fns in
    (ap_applied r = true <-> (p = false /\ po_min delays = None)) /\
    (ap_slept r <> None -> p = false) /\
    (ap_touched r = true -> p = false /\ exists d, po_min delays = Some d /\ (woken = false \/ (d <= 0)%Z)) /\
    (p = false -> po_min delays <> None -> ap_touched r = true \/ (woken = true /\ ap_slept r <> None)).
  Proof.
    unfold po_apply. set (p := po_patch_truthy patch0 fns).
    destruct (po_patch_and_check S serve diff has_sub (if p then clear patch0 else patch0) fns orig s0) as [rv rem log s|]; [|discriminate].
    destruct (po_min delays) as [d|].
    - destruct p; cbn [andb orb negb].
      + destruct (Z.eqb d 0) eqn:Ed; cbn [negb andb orb].
        * apply Z.eqb_eq in Ed. subst d. cbn.
          intros H; injection H as <-; cbn. repeat split; try (intros; discriminate); try (intros [? ?]; discriminate); intros; congruence.
        * intros H; injection H as <-; cbn. repeat split; try (intros; discriminate); try (intros [? ?]; discriminate); intros; congruence.
      + rewrite Bool.andb_false_r. cbn [andb orb]. destruct (Z.ltb po_keepalive d) eqn:E1; [|destruct (Z.ltb 0 d) eqn:E2].
        * destruct woken; cbn [andb orb].
          -- intros H; injection H as <-; cbn. repeat split; try (intros; discriminate); try (intros [? ?]; discriminate).
             intros _ _. right. split; [reflexivity | discriminate].
          -- destruct (po_patch_and_check S serve diff has_sub touch_patch [] None s) as [rv2 rem2 log2 s2|]; [|discriminate].
             intros H; injection H as <-; cbn. repeat split; try (intros; discriminate); try (intros [? ?]; discriminate).
             ++ exists d. split; [reflexivity | left; reflexivity].
             ++ intros _ _. left; reflexivity.
        * destruct woken; cbn [andb orb].
          -- intros H; injection H as <-; cbn. repeat split; try (intros; discriminate); try (intros [? ?]; discriminate).
             intros _ _. right. split; [reflexivity | discriminate].
          -- destruct (po_patch_and_check S serve diff has_sub touch_patch [] None s) as [rv2 rem2 log2 s2|]; [|discriminate].
             intros H; injection H as <-; cbn. repeat split; try (intros; discriminate); try (intros [? ?]; discriminate).
             ++ exists d. split; [reflexivity | left; reflexivity].
             ++ intros _ _. left; reflexivity.
        * cbn [andb orb].
          destruct (po_patch_and_check S serve diff has_sub touch_patch [] None s) as [rv2 rem2 log2 s2|]; [|discriminate].
          intros H; injection H as <-; cbn. repeat split; try (intros; discriminate); try (intros [? ?]; discriminate).
          -- exists d. split; [reflexivity | right; apply Z.ltb_ge; exact E2].
          -- intros _ _. left; reflexivity.
    - intros H; injection H as <-; cbn. destruct p; cbn; repeat split; try (intros; discriminate); try (intros [? ?]; discriminate);
        try (intros; congruence); try reflexivity.
  Qed.
End ApplyDecision.

(* ---------- the named corollaries ---------- *)
Section Corollaries.
  Variable S : Type.
  Variable serve : S -> po_req -> po_resp * S.
  Variable diff : json -> json -> list jop.

  Corollary po_404_silent has_sub patch fns orig s0 :
    let r := patch_obj S serve diff has_sub patch fns orig s0 in
    forall q, In (q, RNotFound) (r_log r) ->
              r_out r = Returned None None /\ po_stops (r_log r) = true.
  Proof.
    intros r q H. destruct (po_outcome_thm S serve diff has_sub patch fns orig s0) as (Hs & H404 & _).
    split; [apply (H404 q H) | exact Hs].
  Qed.

  Corollary po_fns_carried has_sub patch fns orig s0 :
    let r := patch_obj S serve diff has_sub patch fns orig s0 in
    (forall q, In (q, RUnprocessable) (r_log r) -> po_is_json q = true ->
               r_out r = Returned (po_last_ok (r_log r)) (Some fns) /\ po_stops (r_log r) = true) /\
    (forall b rem, r_out r = Returned b (Some rem) ->
                   rem = fns /\ exists pre q, r_log r = pre ++ [(q, RUnprocessable)] /\ po_is_json q = true) /\
    (po_all_ok (r_log r) = true -> forall b rem, r_out r = Returned b rem -> rem = None).
  Proof.
    intros r. destruct (po_outcome_thm S serve diff has_sub patch fns orig s0) as (Hs & _ & H422 & _ & _ & Hrem & Hok).
    split; [intros q H Hj; split; [apply (H422 q H Hj) | exact Hs]|]. split; [exact Hrem|].
    intros Ha b rem Hr. apply (Hok Ha b rem Hr).
  Qed.
End Corollaries.

(* ---------- regression for F801 (repaired by kopf commit 0a8dc55) ---------- *)
Example po_ex_status_null_plan :
  po_merge_plan true [("status", JNull)] = [po_merge_req UStatus (JObj [("status", JNull)])] /\
  po_merge_plan true [("metadata", JObj [("labels", JObj [("l", JStr "w")])]); ("status", JNull)] =
    [po_merge_req UMain (JObj [("metadata", JObj [("labels", JObj [("l", JStr "w")])])]);
     po_merge_req UStatus (JObj [("status", JNull)])] /\
  po_merge_plan false [("status", JNull)] = [po_merge_req UMain (JObj [("status", JNull)])].
Proof. repeat split. Qed.

(* a scripted server: exactly one request, to /status, carrying {"status": null} *)
Example po_ex_status_null_scripted :
  let r := patch_obj po_script po_scripted po_ex_diff true [("status", JNull)] [] None [ROk (JObj [])] in
  r_log r = [(po_merge_req UStatus (JObj [("status", JNull)]), ROk (JObj []))] /\ r_out r = Returned (Some (JObj [])) None.
Proof. vm_compute. split; reflexivity. Qed.

(* the stateful server: the status is gone afterwards, with and without the subresource *)
Example po_ex_status_null_removed :
  let b0 := JObj [("metadata", JObj [("uid", JStr "uid-1")]); ("spec", JObj [("a", JNum 1)]); ("status", JObj [("old", JNum 0)])] in
  let obj0 := po_stamp (po_ex_rvs 0) b0 in
  forall has_sub,
    let r := patch_obj po_world (po_wserve po_ex_rvs (fun _ c => c) has_sub 9 (fun o => o)) po_ex_diff has_sub
                       [("status", JNull)] [] (Some obj0) (mkW (Some obj0) 0 0 []) in
    po_status_of obj0 = Some (JObj [("old", JNum 0)]) /\
    map po_slot (map fst (r_log r)) = [if has_sub then 1 else 0]%nat /\ po_all_ok (r_log r) = true /\
    exists final, w_obj (r_srv r) = Some final /\ po_status_of final = None /\
                  jp_get final ["spec"; "a"] = Some (JNum 1).
Proof. cbv zeta. intros [|]; (split; [reflexivity|]; split; [vm_compute; reflexivity|]; split; [vm_compute; reflexivity|]; eexists; vm_compute; repeat split). Qed.

(* ---------- completeness with a status subresource: key by key ---------- *)
Fixpoint po_mgo (pkvs : list (string * json)) (t : obj) : obj :=
  match pkvs with
  | [] => t
  | (k, JNull) :: rest => po_mgo rest (del k t)
  | (k, v) :: rest => po_mgo rest (set k (merge (match lookup k t with Some tv => tv | None => JNull end) v) t)
  end.

Definition po_kvs (j : json) : obj := match j with JObj kvs => kvs | _ => [] end.
Definition po_top (k : string) (j : json) : option json := lookup k (po_kvs j).

Lemma po_merge_obj t p : merge t (JObj p) = JObj (po_mgo p (po_kvs t)).
Proof.
  unfold po_kvs. simpl. f_equal.
Qed.

Lemma po_lookup_notin {V} k (l : list (string * V)) : ~ In k (map fst l) -> lookup k l = None.
Proof.
  induction l as [|[k' v] l IH]; simpl; intros H; [reflexivity|].
  destruct (String.eqb k k') eqn:E; [apply String.eqb_eq in E; subst; exfalso; apply H; left; reflexivity|].
  apply IH. intros Hin. apply H. right. exact Hin.
Qed.

(* RFC 7386 on an object, key by key (the patch has unique keys) *)
Lemma po_mgo_lookup p : NoDup (map fst p) -> forall t k,
  lookup k (po_mgo p t) =
  match lookup k p with
  | None => lookup k t
  | Some JNull => None
  | Some v => Some (merge (match lookup k t with Some tv => tv | None => JNull end) v)
  end.
Proof.
  induction p as [|[k0 v0] p IH]; intros Hnd t k; [reflexivity|].
  simpl map in Hnd. inversion Hnd as [|? ? Hnotin Hnd']; subst.
  assert (Hrest : forall t', lookup k0 (po_mgo p t') = lookup k0 t').
  { intros t'. rewrite (IH Hnd'). rewrite (po_lookup_notin _ _ Hnotin). reflexivity. }
  cbn [lookup]. destruct (String.eqb k k0) eqn:E.
  - apply String.eqb_eq in E. subst k.
    destruct v0; cbn [po_mgo]; rewrite Hrest; first [apply po_lookup_del_same | apply po_lookup_set_same].
  - destruct v0; cbn [po_mgo]; rewrite (IH Hnd');
      first [rewrite (po_lookup_del_other _ _ _ E) | rewrite (po_lookup_set_other _ _ _ _ E)]; reflexivity.
Qed.

Lemma po_top_merge p : NoDup (map fst p) -> forall t k,
  po_top k (merge t (JObj p)) =
  match lookup k p with
  | None => po_top k t
  | Some JNull => None
  | Some v => Some (merge (match po_top k t with Some tv => tv | None => JNull end) v)
  end.
Proof. intros Hnd t k. rewrite po_merge_obj. unfold po_top. cbn [po_kvs]. apply po_mgo_lookup. exact Hnd. Qed.

Lemma po_top_with_status st j k :
  po_top k (po_with_status st j) = if String.eqb k "status" then match j with JObj _ => st | _ => None end else po_top k j.
Proof.
  unfold po_top, po_with_status. destruct j; cbn [po_kvs]; try (destruct (String.eqb k "status"); reflexivity).
  destruct (String.eqb k "status") eqn:E.
  - apply String.eqb_eq in E. subst k. destruct st; [apply po_lookup_set_same | apply po_lookup_del_same].
  - destruct st; [apply po_lookup_set_other | apply po_lookup_del_other]; exact E.
Qed.

Lemma po_top_stamp v b k : String.eqb k "metadata" = false -> po_top k (po_stamp v b) = po_top k b.
Proof.
  intros E. unfold po_top, po_stamp, po_set_meta. destruct b; cbn [po_kvs lookup]; try (rewrite E; reflexivity).
  apply po_lookup_set_other. exact E.
Qed.

Lemma po_meta_stamp v b k : String.eqb k "resourceVersion" = false -> po_meta_field k (po_stamp v b) = po_meta_field k b.
Proof.
  intros E. unfold po_meta_field, po_stamp, po_set_meta. destruct b; cbn [lookup String.eqb]; try (simpl; rewrite E; reflexivity).
  rewrite po_lookup_set_same. rewrite (po_lookup_set_other _ _ _ _ E).
  destruct (lookup "metadata" kvs) as [[]|]; reflexivity.
Qed.

Lemma po_meta_top k j : po_meta_field k j = match po_top "metadata" j with Some (JObj m) => lookup k m | _ => None end.
Proof. unfold po_meta_field, po_top. destruct j; reflexivity. Qed.

Lemma po_is_obj_merge t p : exists kvs, merge t (JObj p) = JObj kvs.
Proof. rewrite po_merge_obj. eexists; reflexivity. Qed.

Section CompleteSub.
  Variable rvs : nat -> json.
  Variable slip : nat.
  Variable foreign : option json -> option json.
  Variable diff : json -> json -> list jop.
  Notation post := (fun (_ c : json) => c).
  Notation wserve := (po_wserve rvs post true slip foreign).

  (* what one accepted write leaves on the plain RFC server with a status subresource *)
  Definition po_write (u : po_url) (old payload : json) (n : nat) : json :=
    po_stamp (rvs n) (po_pick true u old (merge old payload)).

  Lemma po_wserve_quiet w old u j :
    w_obj w = Some old -> Nat.eqb (w_seen w) slip = false ->
    wserve w (po_merge_req u j) =
    (ROk (po_write u old j (Datatypes.S (w_ctr w))),
     mkW (Some (po_write u old j (Datatypes.S (w_ctr w)))) (Datatypes.S (w_ctr w)) (Datatypes.S (w_seen w))
         (w_hist w ++ [mkWe (Some old) (po_merge_req u j) (ROk (po_write u old j (Datatypes.S (w_ctr w)))) (Some (po_write u old j (Datatypes.S (w_ctr w))))])).
  Proof. intros Ho Es. unfold po_wserve. rewrite Es, Ho. reflexivity. Qed.

  (* key by key: the main write takes everything but the status from the merge, the /status write only the status *)
  Lemma po_write_main_top old bp n k : NoDup (map fst bp) -> String.eqb k "metadata" = false ->
    po_top k (po_write UMain old (JObj bp) n) =
    if String.eqb k "status" then po_top "status" old else po_top k (merge old (JObj bp)).
  Proof.
    intros Hnd Ek. unfold po_write. rewrite (po_top_stamp _ _ _ Ek). cbn [po_pick]. rewrite po_top_with_status.
    destruct (po_is_obj_merge old bp) as [kvs ->]. destruct (String.eqb k "status") eqn:Es; [|reflexivity].
    unfold po_status_of, po_top. destruct old; reflexivity.
  Qed.

  Lemma po_write_status_top old v n k : (exists okvs, old = JObj okvs) -> String.eqb k "metadata" = false ->
    po_top k (po_write UStatus old (JObj [("status", v)]) n) =
    if String.eqb k "status" then po_top "status" (merge old (JObj [("status", v)])) else po_top k old.
  Proof.
    intros [okvs ->] Ek. unfold po_write. rewrite (po_top_stamp _ _ _ Ek). cbn [po_pick]. rewrite po_top_with_status.
    destruct (String.eqb k "status") eqn:Es; [|reflexivity].
    destruct (po_is_obj_merge (JObj okvs) [("status", v)]) as [kvs E]. rewrite E. reflexivity.
  Qed.

  Lemma po_nodup_del {V} k (l : list (string * V)) : NoDup (map fst l) -> NoDup (map fst (del k l)).
  Proof.
    induction l as [|[k' v] l IH]; simpl; intros H; [constructor|]. inversion H as [|? ? Hn Hd]; subst.
    destruct (String.eqb k k'); [apply IH; exact Hd|]. simpl. constructor; [|apply IH; exact Hd].
    intros Hin. apply Hn. clear - Hin. induction l as [|[k2 v2] l IHl]; simpl in *; [exact Hin|].
    destruct (String.eqb k k2); [right; apply IHl; exact Hin|]. simpl in Hin. destruct Hin as [<-|Hin]; [left; reflexivity | right; apply IHl; exact Hin].
  Qed.

  Lemma po_meta_with_status st j k : po_meta_field k (po_with_status st j) = po_meta_field k j.
  Proof. rewrite !po_meta_top. rewrite po_top_with_status. reflexivity. Qed.

  Section Keys.
    Variable patch : obj.
    Variable obj0 : json.
    Hypothesis Hnd : NoDup (map fst patch).
    Hypothesis Hobj : exists okvs, obj0 = JObj okvs.
    Let bp := del "status" patch.
    Let ref := merge obj0 (JObj patch).

    Lemma po_bp_key k : String.eqb k "status" = false -> lookup k bp = lookup k patch.
    Proof. intros E. apply po_lookup_del_other. exact E. Qed.

    (* after the main write: everything but the status is as in the reference; the status is still the old one *)
    Lemma po_after_main n k : String.eqb k "metadata" = false ->
      po_top k (po_write UMain obj0 (JObj bp) n) = if String.eqb k "status" then po_top "status" obj0 else po_top k ref.
    Proof.
      intros Ek. rewrite po_write_main_top; [|apply po_nodup_del; exact Hnd | exact Ek].
      destruct (String.eqb k "status") eqn:Es; [reflexivity|].
      unfold ref. rewrite !po_top_merge; [|exact Hnd | apply po_nodup_del; exact Hnd]. rewrite (po_bp_key _ Es). reflexivity.
    Qed.

    Lemma po_after_main_meta n k : String.eqb k "resourceVersion" = false ->
      po_meta_field k (po_write UMain obj0 (JObj bp) n) = po_meta_field k ref.
    Proof.
      intros Ek. unfold po_write. rewrite (po_meta_stamp _ _ _ Ek). cbn [po_pick]. rewrite po_meta_with_status.
      rewrite !po_meta_top. unfold ref. rewrite !po_top_merge; [|exact Hnd | apply po_nodup_del; exact Hnd].
      rewrite (po_bp_key "metadata" eq_refl). reflexivity.
    Qed.

    (* the /status write on a body [old] which has the old status: the status becomes the reference's *)
    Lemma po_after_status old v n k :
      (exists okvs, old = JObj okvs) -> lookup "status" patch = Some v -> po_top "status" old = po_top "status" obj0 ->
      String.eqb k "metadata" = false ->
      po_top k (po_write UStatus old (JObj [("status", v)]) n) = if String.eqb k "status" then po_top "status" ref else po_top k old.
    Proof.
      intros Ho Hv Hst Ek. rewrite (po_write_status_top _ _ _ _ Ho Ek). destruct (String.eqb k "status"); [|reflexivity].
      unfold ref. rewrite !po_top_merge; [|exact Hnd | repeat constructor; intros []]. rewrite Hv. cbn [lookup String.eqb Ascii.eqb Bool.eqb].
      simpl lookup. rewrite Hst. reflexivity.
    Qed.

    Lemma po_after_status_meta old v n k : String.eqb k "resourceVersion" = false ->
      po_meta_field k (po_write UStatus old (JObj [("status", v)]) n) = po_meta_field k old.
    Proof.
      intros Ek. unfold po_write. rewrite (po_meta_stamp _ _ _ Ek). cbn [po_pick]. apply po_meta_with_status.
    Qed.

    Lemma po_ref_no_status k : lookup "status" patch = None -> String.eqb k "status" = true -> po_top k ref = po_top "status" obj0.
    Proof. intros Hn Ek. apply String.eqb_eq in Ek. subst k. unfold ref. rewrite po_top_merge; [|exact Hnd]. rewrite Hn. reflexivity. Qed.

    Lemma po_ref_only_status k : bp = [] -> String.eqb k "status" = false -> po_top k ref = po_top k obj0.
    Proof.
      intros Hb Ek. unfold ref. rewrite po_top_merge; [|exact Hnd]. rewrite <- (po_bp_key _ Ek), Hb. reflexivity.
    Qed.
  End Keys.

  (* what patch_obj does after the merge phase when there are no transformations *)
  Lemma po_json_phase_nofns orig (a : po_acc po_world) b :
    a_patched a = Some b -> po_truthy b = true -> (exists kvs, b = JObj kvs) ->
    po_json_phase po_world wserve diff true [] orig a = mkRes (Returned (Some b) None) (a_log a) (a_srv a).
  Proof.
    intros Hp Ht [kvs ->]. unfold po_json_phase. rewrite Hp. unfold po_fresh. rewrite Ht.
    cbn [po_as_json_patch po_body_ops po_status_ops filter po_json_status po_finish]. rewrite Hp. reflexivity.
  Qed.

  Lemma po_write_obj u old j n : exists kvs, po_write u old j n = JObj kvs.
  Proof. unfold po_write. destruct (po_stamp_shape (rvs n) (po_pick true u old (merge old j))) as (kvs & m & E & _). exists kvs. exact E. Qed.

  Theorem po_complete_sub patch b0 c0 :
    patch <> [] -> NoDup (map fst patch) -> slip <> 0 -> slip <> 1 ->
    let obj0 := po_stamp (rvs c0) b0 in
    let r := patch_obj po_world wserve diff true patch [] (Some obj0) (mkW (Some obj0) c0 0 []) in
    exists final,
      w_obj (r_srv r) = Some final /\ r_out r = Returned (Some final) None /\ po_all_ok (r_log r) = true /\
      (forall k, String.eqb k "metadata" = false -> po_top k final = po_top k (merge obj0 (JObj patch))) /\
      (forall k, String.eqb k "resourceVersion" = false -> po_meta_field k final = po_meta_field k (merge obj0 (JObj patch))).
  Proof.
    intros Hp Hnd Hs0 Hs1 obj0. cbv zeta.
    assert (Hobj : exists okvs, obj0 = JObj okvs).
    { destruct (po_stamp_shape (rvs c0) b0) as (kvs & m & E & _). exists kvs. exact E. }
    assert (E0 : Nat.eqb 0 slip = false) by (apply Nat.eqb_neq; congruence).
    assert (E1 : Nat.eqb 1 slip = false) by (apply Nat.eqb_neq; congruence).
    match goal with |- exists final, w_obj (r_srv ?r) = _ /\ _ =>
      cut (exists final log w, r = mkRes (Returned (Some final) None) log w /\ w_obj w = Some final /\ po_all_ok log = true /\
             (forall k, String.eqb k "metadata" = false -> po_top k final = po_top k (merge obj0 (JObj patch))) /\
             (forall k, String.eqb k "resourceVersion" = false -> po_meta_field k final = po_meta_field k (merge obj0 (JObj patch))));
      [intros (final & log & w & -> & Hw & Hl & Hk & Hm); exists final; repeat split; assumption|]
    end.
    unfold patch_obj, po_split. set (bp := del "status" patch).
    destruct (lookup "status" patch) as [v|] eqn:Ev; destruct bp as [|kv bp'] eqn:Ebp.
    - (* only the status *)
      unfold po_merge_status, po_call. cbn [a_srv a_log a_patched].
      rewrite (po_wserve_quiet _ obj0); [|reflexivity | exact E0]. cbn [w_ctr w_seen w_hist app].
      rewrite (po_json_phase_nofns _ _ (po_write UStatus obj0 (JObj [("status", v)]) (Datatypes.S c0)));
        [|reflexivity | apply po_stamp_truthy | apply po_write_obj].
      eexists _, _, _. split; [reflexivity|]. split; [reflexivity|]. split; [reflexivity|]. split.
      + intros k Ek. rewrite (po_after_status patch obj0 Hnd obj0 v _ k Hobj Ev eq_refl Ek).
        destruct (String.eqb k "status") eqn:Es; [apply String.eqb_eq in Es; subst k; reflexivity|].
        symmetry. apply po_ref_only_status; assumption.
      + intros k Ek. rewrite po_after_status_meta by exact Ek.
        rewrite !po_meta_top. rewrite (po_ref_only_status patch obj0 Hnd "metadata" Ebp eq_refl). reflexivity.
    - (* the body, then the status *)
      unfold po_call at 1. cbn [a_srv a_log a_patched].
      rewrite (po_wserve_quiet _ obj0); [|reflexivity | exact E0]. cbn [w_ctr w_seen w_hist app].
      unfold po_merge_status, po_call. cbn [a_srv a_log a_patched].
      set (new1 := po_write UMain obj0 (JObj (kv :: bp')) (Datatypes.S c0)).
      rewrite (po_wserve_quiet _ new1); [|reflexivity | exact E1]. cbn [w_ctr w_seen w_hist app].
      rewrite (po_json_phase_nofns _ _ (po_write UStatus new1 (JObj [("status", v)]) (Datatypes.S (Datatypes.S c0))));
        [|reflexivity | apply po_stamp_truthy | apply po_write_obj].
      eexists _, _, _. split; [reflexivity|]. split; [reflexivity|]. split; [reflexivity|].
      assert (Hn1 : forall k, String.eqb k "metadata" = false ->
                              po_top k new1 = if String.eqb k "status" then po_top "status" obj0 else po_top k (merge obj0 (JObj patch))).
      { intros k Ek. unfold new1. rewrite <- Ebp. apply po_after_main; assumption. }
      split.
      + intros k Ek. rewrite (po_after_status patch obj0 Hnd new1 v _ k (po_write_obj _ _ _ _) Ev (Hn1 "status" eq_refl) Ek).
        destruct (String.eqb k "status") eqn:Es; [apply String.eqb_eq in Es; subst k; reflexivity|].
        rewrite (Hn1 k Ek), Es. reflexivity.
      + intros k Ek. rewrite po_after_status_meta by exact Ek. unfold new1. rewrite <- Ebp. apply po_after_main_meta; assumption.
    - (* nothing at all: excluded *)
      exfalso. apply Hp. destruct patch as [|[k0 v0] p]; [reflexivity|]. exfalso.
      unfold bp in Ebp. cbn [del lookup] in Ebp, Ev. destruct (String.eqb "status" k0) eqn:E; [discriminate Ev | discriminate Ebp].
    - (* only the body *)
      unfold po_call at 1. cbn [a_srv a_log a_patched].
      rewrite (po_wserve_quiet _ obj0); [|reflexivity | exact E0]. cbn [w_ctr w_seen w_hist app].
      unfold po_merge_status.
      rewrite (po_json_phase_nofns _ _ (po_write UMain obj0 (JObj (kv :: bp')) (Datatypes.S c0)));
        [|reflexivity | apply po_stamp_truthy | apply po_write_obj].
      eexists _, _, _. split; [reflexivity|]. split; [reflexivity|]. split; [reflexivity|]. split.
      + intros k Ek. rewrite <- Ebp. rewrite (po_after_main patch obj0 Hnd _ k Ek).
        destruct (String.eqb k "status") eqn:Es; [symmetry; apply po_ref_no_status; assumption | reflexivity].
      + intros k Ek. rewrite <- Ebp. apply po_after_main_meta; assumption.
  Qed.
End CompleteSub.

(* ---------- a call with transformations only: every write lands on the body the operator holds, whoever else writes ---------- *)
Section Held.
  Variable rvs : nat -> json.
  Variable post : json -> json -> json.
  Variable has_sub : bool.
  Variable slip : nat.
  Variable foreign : option json -> option json.
  Variable diff : json -> json -> list jop.
  Hypothesis rvs_inj : forall a b, jeqb (rvs a) (rvs b) = true -> a = b.
  Variable P : json -> Prop.                   (* any property of bodies which the server's own write pipeline preserves *)
  Hypothesis P_post : forall seen cand u n, P seen -> P (po_stamp (rvs n) (post seen (po_pick has_sub u seen cand))).

  Notation wserve := (po_wserve rvs post has_sub slip foreign).
  Notation stamped := (po_stamped rvs).

  Definition po_entry_P (e : po_wentry) : Prop :=
    match we_resp e with
    | ROk new => exists seen, we_before e = Some seen /\ P seen /\ P new
    | _ => we_after e = we_before e
    end.
  Definition po_entries_P (w : po_world) : Prop := forall e, In e (w_hist w) -> po_entry_P e.

  Lemma po_entriesP_snoc w w' e : po_entries_P w -> w_hist w' = w_hist w ++ [e] -> po_entry_P e -> po_entries_P w'.
  Proof. intros H Hh He x Hx. rewrite Hh in Hx. apply in_app_or in Hx. destruct Hx as [Hx|[<-|[]]]; [apply H; exact Hx | exact He]. Qed.

  Lemma po_held_step a u rest seen (k : po_acc po_world -> po_result po_world) fns :
    stamped (a_srv a) -> po_entries_P (a_srv a) -> w_obj (a_srv a) = Some seen -> P seen ->
    (forall a' new, stamped (a_srv a') -> po_entries_P (a_srv a') -> w_obj (a_srv a') = Some new -> a_patched a' = Some new -> P new ->
                    po_entries_P (r_srv (k a'))) ->
    po_entries_P (r_srv (po_call po_world wserve a (po_json_req u (po_test (rvs (w_ctr (a_srv a))) :: rest)) true fns k)).
  Proof.
    intros Hst Hen Ho Hp Hk. unfold po_call. destruct (wserve (a_srv a) _) as [resp w'] eqn:E.
    pose proof (po_wstep_json rvs post has_sub slip foreign rvs_inj _ _ _ _ _ _ Hst Ho E) as H.
    destruct resp as [new| | |c]; cbn [r_srv].
    - destruct H as (cand & Hc & Hn & Hh & Hst' & Ho').
      assert (Hpn : P new) by (rewrite Hn; apply P_post; exact Hp).
      apply (Hk _ new); cbn [a_srv a_patched]; try assumption; try reflexivity.
      eapply po_entriesP_snoc; [exact Hen | exact Hh|]. unfold po_entry_P; cbn. exists seen. repeat split; assumption.
    - destruct H as (bf & Hh & _). eapply po_entriesP_snoc; [exact Hen | exact Hh | reflexivity].
    - destruct H as (bf & Hh & _). eapply po_entriesP_snoc; [exact Hen | exact Hh | reflexivity].
    - destruct H as (bf & Hh & _). eapply po_entriesP_snoc; [exact Hen | exact Hh | reflexivity].
  Qed.

  Lemma po_held_status fns sops a seen :
    stamped (a_srv a) -> po_entries_P (a_srv a) -> w_obj (a_srv a) = Some seen -> P seen ->
    po_entries_P (r_srv (po_json_status po_world wserve fns sops a (Some seen))).
  Proof.
    intros Hst Hen Ho Hp. unfold po_json_status. destruct sops as [|o l]; [exact Hen|].
    destruct (Hst _ Ho) as [b Hb]. rewrite Hb at 1. rewrite po_stamp_rv_of.
    apply (po_held_step a UStatus (o :: l) seen); try assumption. intros a' new _ Hen' _ _ _. exact Hen'.
  Qed.

  Theorem po_fns_only_held fns b0 c0 :
    let obj0 := po_stamp (rvs c0) b0 in
    P obj0 ->
    let r := patch_obj po_world wserve diff has_sub [] fns (Some obj0) (mkW (Some obj0) c0 0 []) in
    (forall e, In e (w_hist (r_srv r)) -> po_entry_P e) /\
    (forall q, In q (map fst (r_log r)) -> po_is_json q = true).
  Proof.
    intros obj0 Hp0 r. split.
    - subst r. unfold patch_obj. replace (po_split has_sub []) with (@nil (string * json), @None json) by (destruct has_sub; reflexivity).
      unfold po_merge_status, po_json_phase. cbn [a_patched a_srv]. unfold po_fresh.
      set (w0 := mkW (Some obj0) c0 0 []).
      assert (Hst0 : stamped w0). { intros o Ho. simpl in Ho. injection Ho as <-. eexists; reflexivity. }
      assert (Hen0 : po_entries_P w0). { intros e []. }
      destruct (po_as_json_patch diff fns (Some obj0)) as [ops| | |]; try exact Hen0.
      destruct (po_body_ops has_sub ops) as [|o l]; [apply (po_held_status fns _ (mkAcc w0 [] None) obj0); try assumption; reflexivity|].
      unfold obj0 at 1. rewrite po_stamp_rv_of.
      apply (po_held_step (mkAcc w0 [] None) UMain (o :: l) obj0); try assumption; try reflexivity.
      intros a' new Hst' Hen' Ho' Hpa Hpn. rewrite Hpa. apply po_held_status; assumption.
    - subst r. unfold patch_obj. replace (po_split has_sub []) with (@nil (string * json), @None json) by (destruct has_sub; reflexivity).
      po_explode; intros q Hq; cbn in Hq; repeat (destruct Hq as [<-|Hq]; [reflexivity|]); destruct Hq.
  Qed.
End Held.

(* instance: the uid.  Whoever else writes (edit, delete, delete-and-recreate under the same name), a call that carries
   transformations only never writes to an object with another uid than the one it was computed for *)
Theorem po_fns_only_same_object rvs post has_sub slip foreign diff uid :
  (forall a b, jeqb (rvs a) (rvs b) = true -> a = b) ->
  (forall old cand, po_uid_field old = Some uid -> po_uid_field (post old cand) = Some uid) ->
  forall fns b0 c0,
    let obj0 := po_stamp (rvs c0) b0 in
    po_uid_field obj0 = Some uid ->
    let r := patch_obj po_world (po_wserve rvs post has_sub slip foreign) diff has_sub [] fns (Some obj0) (mkW (Some obj0) c0 0 []) in
    forall e, In e (w_hist (r_srv r)) ->
      match we_resp e with
      | ROk new => exists seen, we_before e = Some seen /\ po_uid_field seen = Some uid /\ po_uid_field new = Some uid
      | _ => we_after e = we_before e
      end.
Proof.
  intros Hinj Hpost fns b0 c0 obj0 Hu r e He.
  refine (proj1 (po_fns_only_held rvs post has_sub slip foreign diff Hinj (fun b => po_uid_field b = Some uid) _ fns b0 c0 Hu) e He).
  intros seen cand u n Hs. pose proof (Hpost seen (po_pick has_sub u seen cand) Hs) as H.
  rewrite po_stamp_uid; [exact H | rewrite H; discriminate].
Qed.

(* ---------- a vanished object ends patch_and_check silently as well ---------- *)
Corollary po_pc_404_silent S serve diff has_sub patch fns orig (s0 : S) q :
  po_patch_truthy patch fns = true ->
  let r := patch_obj S serve diff has_sub patch fns orig s0 in
  In (q, RNotFound) (r_log r) ->
  po_patch_and_check S serve diff has_sub patch fns orig s0 = PcOk None None (r_log r) (r_srv r).
Proof.
  intros Ht r Hin. unfold po_patch_and_check. rewrite Ht. fold r.
  destruct (po_404_silent S serve diff has_sub patch fns orig s0 q Hin) as [Ho _]. fold r in Ho. rewrite Ho. reflexivity.
Qed.

(* ---------- non-vacuity of the new theorems ---------- *)
Lemma po_set_meta_uid u b : po_uid_field (po_set_meta "uid" u b) = Some u.
Proof.
  unfold po_uid_field, po_meta_field, po_set_meta. destruct b; try reflexivity.
  rewrite po_lookup_set_same. apply po_lookup_set_same.
Qed.

(* a server pipeline which keeps the uid whatever the candidate says (the hypothesis of the same-object theorems) *)
Definition po_ex_post (old cand : json) : json :=
  match po_uid_field old with Some u => po_set_meta "uid" u cand | None => cand end.
Example po_ex_post_uid : forall uid old cand, po_uid_field old = Some uid -> po_uid_field (po_ex_post old cand) = Some uid.
Proof. intros uid old cand H. unfold po_ex_post. rewrite H. apply po_set_meta_uid. Qed.

(* transformations only, the object is recreated under the same name before the JSON batch: rejected, nothing written to uid-2 *)
Example po_ex_fns_only_recreated :
  let obj0 := po_stamp (po_ex_rvs 0) (po_ex_obj "uid-1") in
  let r := patch_obj po_world (po_wserve po_ex_rvs po_ex_post false 0 po_ex_recreate) po_ex_realdiff false [] po_ex_fns (Some obj0)
                     (mkW (Some obj0) 0 0 []) in
  (exists b, r_out r = Returned b (Some po_ex_fns)) /\
  exists e, w_hist (r_srv r) = [e] /\ we_resp e = RUnprocessable /\ we_after e = we_before e /\
            exists o2, we_before e = Some o2 /\ po_uid_field o2 = Some (JStr "uid-2").
Proof. cbv zeta. split; [eexists; vm_compute; reflexivity|]. eexists. vm_compute. repeat split. eexists. split; reflexivity. Qed.

(* merge-patch with a status subresource against the plain server: the hypotheses of po_complete_sub hold and both writes happen *)
Example po_ex_complete_sub :
  let patch := [("spec", JObj [("b", JNum 2)]); ("status", JObj [("s", JNum 1); ("old", JNull)]); ("metadata", JObj [("labels", JObj [("l", JStr "w")])])] in
  let b0 := JObj [("metadata", JObj [("uid", JStr "uid-1")]); ("spec", JObj [("a", JNum 1)]); ("status", JObj [("old", JNum 0)])] in
  let obj0 := po_stamp (po_ex_rvs 0) b0 in
  let r := patch_obj po_world (po_wserve po_ex_rvs (fun _ c => c) true 9 (fun o => o)) po_ex_diff true patch [] (Some obj0) (mkW (Some obj0) 0 0 []) in
  patch <> [] /\ NoDup (map fst patch) /\ map po_slot (map fst (r_log r)) = [0; 1]%nat /\
  exists final, w_obj (r_srv r) = Some final /\
                po_top "status" final = Some (JObj [("s", JNum 1)]) /\ po_top "status" (merge obj0 (JObj patch)) = Some (JObj [("s", JNum 1)]) /\
                po_top "spec" final = po_top "spec" (merge obj0 (JObj patch)) /\ po_meta_field "labels" final = Some (JObj [("l", JStr "w")]).
Proof.
  cbv zeta. split; [discriminate|]. split; [repeat constructor; simpl; intuition discriminate|]. split; [vm_compute; reflexivity|].
  eexists. vm_compute. repeat split.
Qed.

(* ---------- a limit of the split by destination path (candidate finding, reported; not a theorem of C08) ---------- *)
(* a transformation which moves a value from the spec into the status: from_diff answers one `move` op whose PATH is under
   /status; with a status subresource it goes to /status only, where the removal of the source is not persisted — every request
   is accepted, nothing is carried, and the spec still holds the value *)
Example po_ex_move_across_split :
  let b0 := JObj [("metadata", JObj [("uid", JStr "uid-1")]); ("spec", JObj [("token", JStr "t")]); ("status", JObj [])] in
  let obj0 := po_stamp (po_ex_rvs 0) b0 in
  let to_be := JObj [("metadata", JObj [("uid", JStr "uid-1"); ("resourceVersion", JNum 0)]); ("spec", JObj []); ("status", JObj [("token", JStr "t")])] in
  let fn := mkFn 0 (fun _ => Ok to_be) in
  let diff := fun _ _ => [OMove "/spec/token" "/status/token"] in
  apply_ops (diff obj0 to_be) obj0 = Some to_be /\
  forall has_sub,
    let r := patch_obj po_world (po_wserve po_ex_rvs (fun _ c => c) has_sub 9 (fun o => o)) diff has_sub [] [fn] (Some obj0) (mkW (Some obj0) 0 0 []) in
    po_all_ok (r_log r) = true /\ (exists b, r_out r = Returned b None) /\
    exists final, w_obj (r_srv r) = Some final /\ jp_get final ["status"; "token"] = Some (JStr "t") /\
                  jp_get final ["spec"; "token"] = (if has_sub then Some (JStr "t") else None).
Proof.
  cbv zeta. split; [vm_compute; reflexivity|].
  intros [|]; (split; [vm_compute; reflexivity|]; split; [eexists; vm_compute; reflexivity|]; eexists; vm_compute; repeat split).
Qed.

(* ---------- transformations under a status subresource: complete when the ops stay on one side of the split ---------- *)
Lemma po_filter_all {A} (p : A -> bool) l : filter p l = [] -> filter (fun x => negb (p x)) l = l.
Proof.
  induction l as [|x l IH]; simpl; intros H; [reflexivity|]. destruct (p x); [discriminate|]. simpl. f_equal. apply IH. exact H.
Qed.
Lemma po_filter_none {A} (p : A -> bool) l : filter (fun x => negb (p x)) l = [] -> filter p l = l.
Proof.
  induction l as [|x l IH]; simpl; intros H; [reflexivity|]. destruct (p x); simpl in *; [f_equal; apply IH; exact H | discriminate].
Qed.

Section CompleteSubFns.
  Variable rvs : nat -> json.
  Variable slip : nat.
  Variable foreign : option json -> option json.
  Variable diff : json -> json -> list jop.
  Hypothesis rvs_refl : forall n, jeqb (rvs n) (rvs n) = true.
  Hypothesis diff_law : forall a b, apply_ops (diff a b) a = Some b.
  Notation wserve := (po_wserve rvs (fun _ c => c) true slip foreign).

  (* transformations only, status subresource, plain server, nobody else writes, and all the ops of from_diff lie on ONE side of
     the /status split: the one JSON batch carries the whole diff, the server computes the full result [to_be] and persists the
     addressed side of it *)
  Theorem po_complete_sub_fns fns b0 c0 to_be :
    slip <> 0 ->
    let obj0 := po_stamp (rvs c0) b0 in
    po_run_fns fns obj0 = Ok to_be -> fns <> [] ->
    let ops := diff obj0 to_be in
    po_status_ops true ops = [] \/ po_body_ops true ops = [] ->
    let r := patch_obj po_world wserve diff true [] fns (Some obj0) (mkW (Some obj0) c0 0 []) in
    let final := match ops with
                 | [] => obj0
                 | _ => match po_status_ops true ops with
                        | [] => po_stamp (rvs (Datatypes.S c0)) (po_with_status (po_status_of obj0) to_be)    (* main URL *)
                        | _ => po_stamp (rvs (Datatypes.S c0)) (po_with_status (po_status_of to_be) obj0)     (* /status *)
                        end
                 end in
    w_obj (r_srv r) = Some final /\ (exists b, r_out r = Returned b None) /\ po_all_ok (r_log r) = true.
  Proof.
    intros Hs0 obj0 Hrun Hfns ops Hside. cbv zeta.
    assert (E0 : Nat.eqb 0 slip = false) by (apply Nat.eqb_neq; congruence).
    match goal with |- w_obj (r_srv ?r) = Some ?f /\ _ =>
      cut (exists b log w, r = mkRes (Returned b None) log w /\ w_obj w = Some f /\ po_all_ok log = true);
      [intros (b & log & w & -> & Hw & Hl); split; [exact Hw|]; split; [exists b; reflexivity | exact Hl]|]
    end.
    unfold patch_obj. cbn [po_split lookup del]. unfold po_merge_status, po_json_phase. cbn [a_patched a_srv a_log]. unfold po_fresh.
    destruct (po_stamp_shape (rvs c0) b0) as (kvs & m & Hshape & _). fold obj0 in Hshape.
    unfold po_as_json_patch. rewrite Hshape. rewrite <- Hshape.
    destruct fns as [|f fns']; [contradiction|]. rewrite Hrun. cbn [bind]. fold ops.
    assert (Hrv : po_rv_of (Some obj0) = Ok (rvs c0)) by apply po_stamp_rv_of.
    assert (Hget : jp_get obj0 ["metadata"; "resourceVersion"] = Some (rvs c0)) by apply po_stamp_get.
    destruct ops as [|o l] eqn:Eops.
    - cbn. eexists _, _, _. split; [reflexivity|]. split; reflexivity.
    - destruct Hside as [Hst|Hbo].
      + (* everything goes to the main URL *)
        assert (Hb : po_body_ops true (o :: l) = o :: l) by (unfold po_body_ops; apply po_filter_all; exact Hst).
        rewrite Hb, Hst, Hrv. unfold po_call. cbn [a_srv a_log a_patched]. unfold po_wserve at 1. cbn [w_seen w_obj w_ctr w_hist].
        rewrite E0. cbn [w_obj po_candidate rq_payload po_json_req rq_url po_pick w_ctr w_seen w_hist].
        rewrite (po_test_pass _ (rvs c0)); [|exact Hget | apply rvs_refl].
        rewrite <- Eops. unfold ops. rewrite diff_law.
        cbn [po_json_status po_finish a_patched a_log a_srv]. eexists _, _, _. split; [reflexivity|]. split; reflexivity.
      + (* everything goes to /status *)
        assert (Hs : po_status_ops true (o :: l) = o :: l) by (unfold po_status_ops; apply po_filter_none; exact Hbo).
        rewrite Hbo, Hs. unfold po_json_status. rewrite Hrv. unfold po_call. cbn [a_srv a_log a_patched]. unfold po_wserve at 1.
        cbn [w_seen w_obj w_ctr w_hist]. rewrite E0. cbn [w_obj po_candidate rq_payload po_json_req rq_url po_pick w_ctr w_seen w_hist].
        rewrite (po_test_pass _ (rvs c0)); [|exact Hget | apply rvs_refl].
        rewrite <- Eops. unfold ops. rewrite diff_law.
        cbn [po_finish a_patched a_log a_srv]. eexists _, _, _. split; [reflexivity|]. split; reflexivity.
  Qed.
End CompleteSubFns.

(* a one-sided instance: the hypotheses of po_complete_sub_fns are satisfiable (a status edit only) *)
Example po_ex_one_sided :
  let obj0 := po_stamp (po_ex_rvs 0) (po_ex_obj "uid-1") in
  let fns := [mkFn 1 (po_fn_set2 "status" "y" (JNum 2))] in
  let diff := fun (a b : json) => [OReplace "" b] in
  exists to_be, po_run_fns fns obj0 = Ok to_be /\ fns <> [] /\ diff obj0 to_be <> [] /\
                po_body_ops true [OAdd "/status" (JObj [("y", JNum 2)])] = [] /\
                po_status_ops true [OAdd "/metadata/finalizers" (JList [JStr "fin"])] = [].
Proof. cbv zeta. eexists. split; [vm_compute; reflexivity|]. repeat split; discriminate. Qed.

(* ---------- the merge-patch requests do not depend on the body the patch was accumulated against ---------- *)
(* whatever the handled body [orig] says (e.g. that a field already has the value the patch sets), whatever the transformations and the
   server: when nothing is refused, the merge-patch requests are the split of the accumulated patch, field for field *)
Corollary po_merges_irrespective_of_body S serve diff has_sub patch fns fns' orig orig' (s0 s0' : S) :
  let r := patch_obj S serve diff has_sub patch fns orig s0 in
  let r' := patch_obj S serve diff has_sub patch fns' orig' s0' in
  po_all_ok (r_log r) = true -> po_all_ok (r_log r') = true ->
  filter (fun q => negb (po_is_json q)) (map fst (r_log r)) = filter (fun q => negb (po_is_json q)) (map fst (r_log r')).
Proof.
  intros r r' H H'. unfold r, r'.
  rewrite (po_merges_sent S serve diff has_sub patch fns orig s0 H), (po_merges_sent S serve diff has_sub patch fns' orig' s0' H'). reflexivity.
Qed.
