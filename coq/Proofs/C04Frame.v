(* C04 (frame theorem): exactly what the essence of a body depends on.
   [essence_frame]: the essence is a function of (1) the payload = the body without
   apiVersion / kind / metadata / status, (2) metadata.labels, (3) metadata.annotations,
   (4) the ReplicaSet-of-a-Deployment bit (which only selects annotation key names), and
   (5) the values of the handlers' extra fields.  Nothing else of the body is looked at.
   Corollaries: kind, ANY simultaneous change of system metadata, EVERY merge-patch confined to
   the status stanza, the finalizer functions.  Observation: an extra field that runs through a
   non-mapping makes the essence fail (TypeError). *)
From Coq Require Import ZArith NArith List String Bool Ascii Lia.
From KV Require Import Base.Json Base.Dicts Model.Keys Model.Storage Model.Essence Model.OwnWrites Proofs.C04System.
Import ListNotations.
Open Scope string_scope.
Open Scope list_scope.

(* ---------- 1. the frame theorem ---------- *)
Lemma fr_cherrypick_ext : forall src src' fields dst,
  (forall f, In f fields -> resolve_strict src f = resolve_strict src' f) ->
  cherrypick src dst fields = cherrypick src' dst fields.
Proof.
  intros src src' fields. induction fields as [|f fs IH]; intros dst H; [reflexivity|].
  cbn [cherrypick]. rewrite (H f (or_introl eq_refl)).
  assert (Hfs : forall f', In f' fs -> resolve_strict src f' = resolve_strict src' f')
    by (intros; apply H; right; assumption).
  destruct (resolve_strict src' f); try reflexivity.
  - destruct (ensure dst f a); cbn [bind]; try reflexivity. apply IH, Hfs.
  - apply IH, Hfs.
Qed.

Theorem essence_frame : forall dg ds ps kvs kvs' extra,
  sy_strip kvs = sy_strip kvs' ->
  resolve_strict (JObj kvs) ["metadata"; "labels"] = resolve_strict (JObj kvs') ["metadata"; "labels"] ->
  resolve_strict (JObj kvs) ["metadata"; "annotations"] = resolve_strict (JObj kvs') ["metadata"; "annotations"] ->
  is_drs_body (JObj kvs) = is_drs_body (JObj kvs') ->
  (forall f, In f extra -> resolve_strict (JObj kvs) f = resolve_strict (JObj kvs') f) ->
  essence dg ds ps (JObj kvs) extra = essence dg ds ps (JObj kvs') extra.
Proof.
  intros dg ds ps kvs kvs' extra Hs Hl Ha Hd He.
  apply sy_essence_cong; try assumption.
  intros f Hf. right. apply He, Hf.
Qed.

(* the payload really is what base_build starts from *)
Lemma fr_strip_is_build_start : forall kvs,
  sy_strip kvs = del "status" (del "metadata" (del "kind" (del "apiVersion" kvs))).
Proof. reflexivity. Qed.

(* ---------- the stripped payload under changes of the four system keys ---------- *)
Lemma fr_strip_set_kind : forall v kvs, sy_strip (set "kind" v kvs) = sy_strip kvs.
Proof.
  intros. unfold sy_strip.
  rewrite (sy_del_set_other _ "apiVersion" "kind") by discriminate.
  rewrite sy_del_set_same. reflexivity.
Qed.

Lemma fr_strip_set_md : forall v kvs, sy_strip (set "metadata" v kvs) = sy_strip kvs.
Proof.
  intros. unfold sy_strip.
  rewrite (sy_del_set_other _ "apiVersion" "metadata") by discriminate.
  rewrite (sy_del_set_other _ "kind" "metadata") by discriminate.
  rewrite sy_del_set_same. reflexivity.
Qed.

Lemma fr_strip_del_md : forall kvs, sy_strip (del "metadata" kvs) = sy_strip kvs.
Proof.
  intros. unfold sy_strip.
  rewrite (sy_del_del_comm _ "apiVersion" "metadata").
  rewrite (sy_del_del_comm _ "kind" "metadata").
  rewrite sy_del_del_same. reflexivity.
Qed.

Lemma fr_strip_set_status : forall v kvs, sy_strip (set "status" v kvs) = sy_strip kvs.
Proof.
  intros. unfold sy_strip.
  rewrite (sy_del_set_other _ "apiVersion" "status") by discriminate.
  rewrite (sy_del_set_other _ "kind" "status") by discriminate.
  rewrite (sy_del_set_other _ "metadata" "status") by discriminate.
  apply sy_del_set_same.
Qed.

Lemma fr_strip_del_status : forall kvs, sy_strip (del "status" kvs) = sy_strip kvs.
Proof.
  intros. unfold sy_strip.
  rewrite (sy_del_del_comm _ "apiVersion" "status").
  rewrite (sy_del_del_comm _ "kind" "status").
  rewrite (sy_del_del_comm _ "metadata" "status").
  apply sy_del_del_same.
Qed.

(* extra fields that do not start with k do not see a change of the top-level key k *)
Lemma fr_extra_avoid : forall k kvs kvs' extra,
  (forall k', k' <> k -> lookup k' kvs = lookup k' kvs') ->
  (forall f, In f extra -> hd_error f <> Some k) ->
  forall f, In f extra -> f = [] \/ resolve_strict (JObj kvs) f = resolve_strict (JObj kvs') f.
Proof.
  intros k kvs kvs' extra Hk He f Hf. destruct f as [|h p]; [left; reflexivity | right].
  apply sy_resolve_strict_head, Hk. intro E. subst h. apply (He _ Hf). reflexivity.
Qed.

(* ---------- 2. corollaries ---------- *)
Theorem system_kind_invisible : forall dg ds ps kvs k' extra,
  is_drs_body (JObj (set "kind" k' kvs)) = is_drs_body (JObj kvs) ->
  (forall f, In f extra -> hd_error f <> Some "kind") ->
  essence dg ds ps (JObj (set "kind" k' kvs)) extra = essence dg ds ps (JObj kvs) extra.
Proof.
  intros dg ds ps kvs k' extra Hd He.
  assert (Hk : forall k, k <> "kind" -> lookup k (set "kind" k' kvs) = lookup k kvs)
    by (intros; apply sy_lookup_set_other; assumption).
  apply sy_essence_cong.
  - apply fr_strip_set_kind.
  - apply sy_resolve_strict_head, Hk. discriminate.
  - apply sy_resolve_strict_head, Hk. discriminate.
  - exact Hd.
  - apply (fr_extra_avoid "kind"); assumption.
Qed.

Theorem system_metadata_general : forall dg ds ps kvs md md' extra,
  lookup "metadata" kvs = Some (JObj md) ->
  lookup "labels" md' = lookup "labels" md ->
  lookup "annotations" md' = lookup "annotations" md ->
  is_drs_body (JObj (set "metadata" (JObj md') kvs)) = is_drs_body (JObj kvs) ->
  (forall f, In f extra -> hd_error f <> Some "metadata") ->
  essence dg ds ps (JObj (set "metadata" (JObj md') kvs)) extra = essence dg ds ps (JObj kvs) extra.
Proof.
  intros dg ds ps kvs md md' extra Hmd Hl Ha Hd He.
  apply sy_essence_cong.
  - apply fr_strip_set_md.
  - unfold sy_md_labels. cbn [resolve_strict]. rewrite sy_lookup_set_same, Hmd, Hl. reflexivity.
  - unfold sy_md_anns. cbn [resolve_strict]. rewrite sy_lookup_set_same, Hmd, Ha. reflexivity.
  - exact Hd.
  - apply (fr_extra_avoid "metadata"); [|exact He].
    intros; apply sy_lookup_set_other; assumption.
Qed.

(* the server-side result of a merge-patch that has only the "status" key *)
Lemma fr_merge_status : forall kvs sp,
  merge (JObj kvs) (JObj [("status", sp)]) =
  match sp with
  | JNull => JObj (del "status" kvs)
  | _ => JObj (set "status" (merge (match lookup "status" kvs with Some tv => tv | None => JNull end) sp) kvs)
  end.
Proof. intros kvs sp. destruct sp; reflexivity. Qed.

Lemma fr_merge_status_shape : forall kvs sp,
  exists kvs', merge (JObj kvs) (JObj [("status", sp)]) = JObj kvs' /\
               sy_strip kvs' = sy_strip kvs /\
               (forall k, k <> "status" -> lookup k kvs' = lookup k kvs).
Proof.
  intros kvs sp. rewrite fr_merge_status.
  destruct sp; eexists; (split; [reflexivity|]); split;
    try apply fr_strip_set_status; try apply fr_strip_del_status;
    intros k Hk; try (apply sy_lookup_set_other; exact Hk); apply sy_lookup_del_other; exact Hk.
Qed.

Lemma fr_status_patch_cong : forall dg ds ps kvs sp extra,
  (forall f, In f extra -> f = [] \/
     resolve_strict (merge (JObj kvs) (JObj [("status", sp)])) f = resolve_strict (JObj kvs) f) ->
  essence dg ds ps (merge (JObj kvs) (JObj [("status", sp)])) extra = essence dg ds ps (JObj kvs) extra.
Proof.
  intros dg ds ps kvs sp extra He.
  destruct (fr_merge_status_shape kvs sp) as [kvs' [E [Hs Hk]]]. rewrite E in *.
  apply sy_essence_cong.
  - exact Hs.
  - apply sy_resolve_strict_head, Hk. discriminate.
  - apply sy_resolve_strict_head, Hk. discriminate.
  - apply sy_is_drs_cong; [apply Hk; discriminate|].
    cbn [resolve]. rewrite (Hk "metadata") by discriminate. reflexivity.
  - exact He.
Qed.

Theorem status_patch_invisible : forall dg ds ps kvs sp extra,
  (forall f, In f extra -> hd_error f <> Some "status") ->
  essence dg ds ps (merge (JObj kvs) (JObj [("status", sp)])) extra = essence dg ds ps (JObj kvs) extra.
Proof.
  intros dg ds ps kvs sp extra He. apply fr_status_patch_cong.
  destruct (fr_merge_status_shape kvs sp) as [kvs' [E [_ Hk]]]. rewrite E.
  apply (fr_extra_avoid "status"); assumption.
Qed.

Theorem status_patch_invisible_fields : forall dg ds ps kvs sp extra,
  (forall f, In f extra ->
     resolve_strict (merge (JObj kvs) (JObj [("status", sp)])) f = resolve_strict (JObj kvs) f) ->
  essence dg ds ps (merge (JObj kvs) (JObj [("status", sp)])) extra = essence dg ds ps (JObj kvs) extra.
Proof.
  intros dg ds ps kvs sp extra He. apply fr_status_patch_cong.
  intros f Hf. right. apply He, Hf.
Qed.

(* ---------- 3. finalizers ---------- *)
(* metadata read as  body.get('metadata', {}) : an absent metadata and an empty one are the same *)
Lemma fr_get_md_strict : forall kvs md x p,
  get_obj (JObj kvs) "metadata" = Ok md ->
  resolve_strict (JObj kvs) ("metadata" :: x :: p) =
  match lookup x md with Some v => resolve_strict v p | None => ErrKey end.
Proof.
  intros kvs md x p H. unfold get_obj in H. cbn [resolve_strict].
  destruct (lookup "metadata" kvs) as [m|].
  - destruct m; try discriminate H. inversion H. subst. reflexivity.
  - inversion H. reflexivity.
Qed.

Lemma fr_get_md_resolve : forall kvs md x,
  get_obj (JObj kvs) "metadata" = Ok md ->
  resolve (JObj kvs) ["metadata"; x] = match lookup x md with Some v => Some v | None => None end.
Proof.
  intros kvs md x H. unfold get_obj in H. cbn [resolve].
  destruct (lookup "metadata" kvs) as [m|].
  - destruct m; try discriminate H. inversion H. subst. reflexivity.
  - inversion H. reflexivity.
Qed.

(* two bodies that differ only in their metadata (absent = empty), the two metadata agreeing on
   labels, annotations and ownerReferences, have the same essence *)
Lemma fr_md_frame : forall dg ds ps kvs kvs' md md' extra,
  sy_strip kvs = sy_strip kvs' ->
  (forall k, k <> "metadata" -> lookup k kvs = lookup k kvs') ->
  get_obj (JObj kvs) "metadata" = Ok md ->
  get_obj (JObj kvs') "metadata" = Ok md' ->
  lookup "labels" md = lookup "labels" md' ->
  lookup "annotations" md = lookup "annotations" md' ->
  lookup "ownerReferences" md = lookup "ownerReferences" md' ->
  (forall f, In f extra -> hd_error f <> Some "metadata") ->
  essence dg ds ps (JObj kvs) extra = essence dg ds ps (JObj kvs') extra.
Proof.
  intros dg ds ps kvs kvs' md md' extra Hs Hk Hm Hm' Hl Ha Ho He.
  apply sy_essence_cong.
  - exact Hs.
  - unfold sy_md_labels. rewrite (fr_get_md_strict _ _ _ _ Hm), (fr_get_md_strict _ _ _ _ Hm'), Hl. reflexivity.
  - unfold sy_md_anns. rewrite (fr_get_md_strict _ _ _ _ Hm), (fr_get_md_strict _ _ _ _ Hm'), Ha. reflexivity.
  - apply sy_is_drs_cong; [apply Hk; discriminate|].
    rewrite (fr_get_md_resolve _ _ _ Hm), (fr_get_md_resolve _ _ _ Hm'), Ho. reflexivity.
  - apply (fr_extra_avoid "metadata"); assumption.
Qed.

Theorem finalizer_block_invisible : forall dg ds ps fin body body' extra,
  (forall f, In f extra -> hd_error f <> Some "metadata") ->
  fin_block fin body = Ok body' ->
  essence dg ds ps body' extra = essence dg ds ps body extra.
Proof.
  intros dg ds ps fin body body' extra He H. unfold fin_block in H.
  destruct body as [| | | | |kvs|]; try discriminate H.
  apply sy_bind_ok in H. destruct H as [md [Hmd H]].
  apply sy_bind_ok in H. destruct H as [fins [Hf H]].
  destruct (str_in fin fins); [inversion H; reflexivity|].
  inversion H. subst body'. clear H.
  eapply fr_md_frame with (md' := md).
  - apply fr_strip_set_md.
  - intros k Hk. apply sy_lookup_set_other, Hk.
  - unfold get_obj. rewrite sy_lookup_set_same. reflexivity.
  - exact Hmd.
  - apply sy_lookup_set_other. discriminate.
  - apply sy_lookup_set_other. discriminate.
  - apply sy_lookup_set_other. discriminate.
  - exact He.
Qed.

(* the metadata that allow_deletion leaves *)
Definition fr_md2 (fin : string) (fins : list json) (md : obj) : obj :=
  let fins' := filter (fun j => match j with JStr t => negb (String.eqb fin t) | _ => true end) fins in
  let md1 := if str_in fin fins then set "finalizers" (JList fins') md else md in
  match lookup "finalizers" md1 with
  | Some f => if is_falsy f then del "finalizers" md1 else md1
  | None => md1
  end.

Lemma fr_fin_allow_unfold : forall fin kvs,
  fin_allow fin (JObj kvs) =
  bind (get_obj (JObj kvs) "metadata") (fun md =>
  bind (get_list md "finalizers") (fun fins =>
    match lookup "metadata" kvs with
    | None => Ok (JObj kvs)
    | Some _ => Ok (JObj (match fr_md2 fin fins md with
                          | [] => del "metadata" kvs
                          | _ => set "metadata" (JObj (fr_md2 fin fins md)) kvs
                          end))
    end)).
Proof. reflexivity. Qed.

Lemma fr_md2_lookup : forall fin fins md x,
  x <> "finalizers" -> lookup x (fr_md2 fin fins md) = lookup x md.
Proof.
  intros fin fins md x Hx. unfold fr_md2. cbv zeta.
  destruct (str_in fin fins).
  - destruct (lookup "finalizers" _) as [f|]; [destruct (is_falsy f)|];
      rewrite ?sy_lookup_del_other by exact Hx; apply sy_lookup_set_other, Hx.
  - destruct (lookup "finalizers" md) as [f|]; [destruct (is_falsy f)|];
      rewrite ?sy_lookup_del_other by exact Hx; reflexivity.
Qed.

Theorem finalizer_allow_invisible : forall dg ds ps fin body body' extra,
  (forall f, In f extra -> hd_error f <> Some "metadata") ->
  fin_allow fin body = Ok body' ->
  essence dg ds ps body' extra = essence dg ds ps body extra.
Proof.
  intros dg ds ps fin body body' extra He H.
  destruct body as [| | | | |kvs|]; try discriminate H.
  rewrite fr_fin_allow_unfold in H.
  apply sy_bind_ok in H. destruct H as [md [Hmd H]].
  apply sy_bind_ok in H. destruct H as [fins [Hf H]].
  revert H. destruct (lookup "metadata" kvs) as [m|]; intro H; [|inversion H; reflexivity].
  pose proof (fr_md2_lookup fin fins md) as Hl.
  remember (fr_md2 fin fins md) as md2 eqn:E2. clear E2.
  inversion H. subst body'. clear H.
  eapply fr_md_frame with (md := md2) (md' := md).
  - destruct md2; [apply fr_strip_del_md | apply fr_strip_set_md].
  - intros k Hk. destruct md2; [apply sy_lookup_del_other | apply sy_lookup_set_other]; exact Hk.
  - unfold get_obj. destruct md2; [rewrite sy_lookup_del_same | rewrite sy_lookup_set_same]; reflexivity.
  - exact Hmd.
  - apply Hl. discriminate.
  - apply Hl. discriminate.
  - apply Hl. discriminate.
  - exact He.
Qed.

(* ---------- 4. observation: a field path through a non-mapping value ---------- *)
Lemma fr_cherrypick_errtype : forall src fields f,
  In f fields -> resolve_strict src f = ErrType ->
  forall dst d, cherrypick src dst fields <> Ok d.
Proof.
  intros src fields. induction fields as [|a fs IH]; intros f Hin Hr dst d; [destruct Hin|].
  cbn [cherrypick]. destruct Hin as [E|Hin].
  - subst a. rewrite Hr. discriminate.
  - destruct (resolve_strict src a) as [v| | |]; try discriminate.
    + destruct (ensure dst a v); cbn [bind]; try discriminate. apply (IH f Hin Hr).
    + apply (IH f Hin Hr).
Qed.

Lemma fr_dbuild_base : forall dg ds b extra e,
  dbuild dg ds b extra = Ok e -> exists ign e1, base_build ign b extra = Ok e1.
Proof.
  intros dg ds b extra e H.
  destruct ds as [prefix key v1 ign | field ign | l]; cbn [dbuild] in H;
    apply sy_bind_ok in H; destruct H as [e1 [H1 _]]; eauto.
Qed.

Theorem field_through_nonmapping_fails : forall dg ds ps kvs extra f,
  In f extra -> resolve_strict (JObj kvs) f = ErrType ->
  forall e, essence dg ds ps (JObj kvs) extra <> Ok e.
Proof.
  intros dg ds ps kvs extra f Hin Hr e H.
  unfold essence in H. apply sy_bind_ok in H. destruct H as [e1 [H1 _]].
  apply fr_dbuild_base in H1. destruct H1 as [ign [e0 H1]].
  apply sy_base_build_inv in H1.
  destruct H1 as [kvs0 [x1 [anns [x2 [x3 [x4 [Eb [_ [_ [_ [H4 _]]]]]]]]]]].
  inversion Eb. subst kvs0.
  exact (fr_cherrypick_errtype _ _ _ Hin Hr _ _ H4).
Qed.

(* ---------- examples (non-vacuity) ---------- *)
Definition fr_dg := table_dg [].
Definition fr_ds := DAnn "kopf.zalando.org" "last-handled-configuration" true [].
Definition fr_ps := smart "kopf.zalando.org" true false "touch-dummy" ["status"; "kopf"; "progress"] ["status"; "kopf"; "dummy"].

Definition fr_marker : string := "kopf.zalando.org/KopfFinalizerMarker".

Definition fr_md0 : obj :=
  [("name", JStr "x"); ("namespace", JStr "default"); ("uid", JStr "u-1");
   ("resourceVersion", JStr "100"); ("generation", JNum 1);
   ("creationTimestamp", JStr "2020-01-01T00:00:00Z");
   ("labels", JObj [("app", JStr "demo")]);
   ("annotations", JObj [("mine", JStr "m");
                         ("kopf.zalando.org/last-handled-configuration", JEnc (JObj [("spec", JObj [("field", JNum 1)])]))]);
   ("managedFields", JList [JObj [("manager", JStr "kubectl")]])].

(* resourceVersion + generation + managedFields + finalizers + deletionTimestamp at once *)
Definition fr_md1 : obj :=
  [("name", JStr "x"); ("namespace", JStr "default"); ("uid", JStr "u-1");
   ("resourceVersion", JStr "101"); ("generation", JNum 2);
   ("creationTimestamp", JStr "2020-01-01T00:00:00Z");
   ("labels", JObj [("app", JStr "demo")]);
   ("annotations", JObj [("mine", JStr "m");
                         ("kopf.zalando.org/last-handled-configuration", JEnc (JObj [("spec", JObj [("field", JNum 1)])]))]);
   ("managedFields", JList [JObj [("manager", JStr "kubectl")]; JObj [("manager", JStr "kopf")]]);
   ("finalizers", JList [JStr fr_marker]);
   ("deletionTimestamp", JStr "2020-01-02T00:00:00Z")].

Definition fr_kvs0 : obj :=
  [("apiVersion", JStr "kopf.dev/v1"); ("kind", JStr "KopfExample");
   ("metadata", JObj fr_md0);
   ("spec", JObj [("field", JNum 1); ("items", JList [JNum 1; JNum 2])]);
   ("status", JObj [("kopf", JObj [("progress", JObj [])]); ("create_fn", JObj [("message", JStr "hello")])])].

(* everything but the payload, the labels and the annotations changed at once *)
Definition fr_kvs1 : obj :=
  [("kind", JStr "KopfExampleV2"); ("apiVersion", JStr "kopf.dev/v2");
   ("spec", JObj [("field", JNum 1); ("items", JList [JNum 1; JNum 2])]);
   ("metadata", JObj fr_md1)].

Definition fr_extra : list path := [["spec"; "field"]; ["spec"; "absent"]].

Definition fr_essence0 : json :=
  JObj [("spec", JObj [("field", JNum 1); ("items", JList [JNum 1; JNum 2])]);
        ("metadata", JObj [("labels", JObj [("app", JStr "demo")]);
                           ("annotations", JObj [("mine", JStr "m")])])].

Example fr_ex_frame_hyps :
  fr_kvs0 <> fr_kvs1 /\
  sy_strip fr_kvs0 = sy_strip fr_kvs1 /\
  resolve_strict (JObj fr_kvs0) ["metadata"; "labels"] = resolve_strict (JObj fr_kvs1) ["metadata"; "labels"] /\
  resolve_strict (JObj fr_kvs0) ["metadata"; "annotations"] = resolve_strict (JObj fr_kvs1) ["metadata"; "annotations"] /\
  is_drs_body (JObj fr_kvs0) = is_drs_body (JObj fr_kvs1) /\
  (forall f, In f fr_extra -> resolve_strict (JObj fr_kvs0) f = resolve_strict (JObj fr_kvs1) f).
Proof.
  split; [discriminate|]. repeat split.
  intros f [<-|[<-|[]]]; reflexivity.
Qed.

Example fr_ex_frame :
  essence fr_dg fr_ds fr_ps (JObj fr_kvs0) fr_extra = essence fr_dg fr_ds fr_ps (JObj fr_kvs1) fr_extra /\
  essence fr_dg fr_ds fr_ps (JObj fr_kvs0) fr_extra = Ok fr_essence0.
Proof.
  split; [|vm_compute; reflexivity].
  destruct fr_ex_frame_hyps as [_ [H1 [H2 [H3 [H4 H5]]]]].
  apply essence_frame; assumption.
Qed.

(* kind *)
Example fr_ex_kind :
  essence fr_dg fr_ds fr_ps (JObj (set "kind" (JStr "Other") fr_kvs0)) fr_extra = Ok fr_essence0.
Proof.
  rewrite system_kind_invisible.
  - vm_compute. reflexivity.
  - reflexivity.
  - intros f [<-|[<-|[]]]; discriminate.
Qed.

(* any simultaneous change of system metadata *)
Example fr_ex_metadata_general :
  set "metadata" (JObj fr_md1) fr_kvs0 <> fr_kvs0 /\
  essence fr_dg fr_ds fr_ps (JObj (set "metadata" (JObj fr_md1) fr_kvs0)) fr_extra = Ok fr_essence0.
Proof.
  split; [discriminate|].
  rewrite (system_metadata_general fr_dg fr_ds fr_ps fr_kvs0 fr_md0 fr_md1).
  - vm_compute. reflexivity.
  - reflexivity.
  - reflexivity.
  - reflexivity.
  - reflexivity.
  - intros f [<-|[<-|[]]]; discriminate.
Qed.

(* a status patch: a progress record stored, a handler result, the dummy touched, one key purged *)
Definition fr_sp : json :=
  JObj [("kopf", JObj [("progress", JObj [("create_fn", JObj [("retries", JNum 1); ("success", JBool true)])]);
                       ("dummy", JStr "2020-01-01T00:00:01Z")]);
        ("create_fn", JNull);
        ("update_fn", JObj [("message", JStr "done")])].

Example fr_ex_status_patch :
  merge (JObj fr_kvs0) (JObj [("status", fr_sp)]) <> JObj fr_kvs0 /\
  essence fr_dg fr_ds fr_ps (merge (JObj fr_kvs0) (JObj [("status", fr_sp)])) fr_extra = Ok fr_essence0.
Proof.
  split; [vm_compute; discriminate|].
  rewrite status_patch_invisible.
  - vm_compute. reflexivity.
  - intros f [<-|[<-|[]]]; discriminate.
Qed.

(* the same for the purely-status configuration (status diff-base + status progress storages) *)
Example fr_ex_status_patch_status_storages :
  essence fr_dg (DStatus ["status"; "kopf"; "last-handled-configuration"] [])
          (PStatus ["status"; "kopf"; "progress"] ["status"; "kopf"; "dummy"] false)
          (merge (JObj fr_kvs0) (JObj [("status", JNull)])) fr_extra =
  essence fr_dg (DStatus ["status"; "kopf"; "last-handled-configuration"] [])
          (PStatus ["status"; "kopf"; "progress"] ["status"; "kopf"; "dummy"] false)
          (JObj fr_kvs0) fr_extra.
Proof. apply status_patch_invisible. intros f [<-|[<-|[]]]; discriminate. Qed.

(* a handler with a field inside status that does not see the change *)
Example fr_ex_status_patch_fields :
  essence fr_dg fr_ds fr_ps (merge (JObj fr_kvs0) (JObj [("status", fr_sp)])) [["status"; "kopf"; "progress"; "other_fn"]; ["spec"; "field"]] =
  essence fr_dg fr_ds fr_ps (JObj fr_kvs0) [["status"; "kopf"; "progress"; "other_fn"]; ["spec"; "field"]].
Proof. apply status_patch_invisible_fields. intros f [<-|[<-|[]]]; reflexivity. Qed.

(* finalizers *)
Example fr_ex_fin_block :
  exists body', fin_block fr_marker (JObj fr_kvs0) = Ok body' /\ body' <> JObj fr_kvs0 /\
                essence fr_dg fr_ds fr_ps body' fr_extra = Ok fr_essence0.
Proof.
  eexists. split; [vm_compute; reflexivity|]. split; [discriminate|].
  vm_compute. reflexivity.
Qed.

Example fr_ex_fin_block_thm : forall body',
  fin_block fr_marker (JObj fr_kvs0) = Ok body' ->
  essence fr_dg fr_ds fr_ps body' fr_extra = Ok fr_essence0.
Proof.
  intros body' H.
  assert (He : forall f, In f fr_extra -> hd_error f <> Some "metadata")
    by (intros f [<-|[<-|[]]]; discriminate).
  rewrite (finalizer_block_invisible _ _ _ _ _ _ _ He H).
  vm_compute. reflexivity.
Qed.

(* allow_deletion on a body whose metadata holds the finalizer only: the whole metadata key goes *)
Definition fr_kvs2 : obj :=
  [("apiVersion", JStr "v1"); ("kind", JStr "KopfExample");
   ("metadata", JObj [("finalizers", JList [JStr fr_marker])]);
   ("spec", JObj [("field", JNum 1)])].

Example fr_ex_fin_allow :
  fin_allow fr_marker (JObj fr_kvs2) = Ok (JObj (del "metadata" fr_kvs2)) /\
  fin_allow fr_marker (JObj fr_kvs1) =
    Ok (JObj (set "metadata" (JObj (del "finalizers" fr_md1)) fr_kvs1)) /\
  essence fr_dg fr_ds fr_ps (JObj (del "metadata" fr_kvs2)) fr_extra = essence fr_dg fr_ds fr_ps (JObj fr_kvs2) fr_extra /\
  essence fr_dg fr_ds fr_ps (JObj fr_kvs2) fr_extra = Ok (JObj [("spec", JObj [("field", JNum 1)])]).
Proof.
  split; [vm_compute; reflexivity|]. split; [vm_compute; reflexivity|].
  split; [|vm_compute; reflexivity].
  apply (finalizer_allow_invisible _ _ _ fr_marker).
  - intros f [<-|[<-|[]]]; discriminate.
  - vm_compute. reflexivity.
Qed.

(* the observation: {spec: {struct: null}} with a handler field spec.struct.other *)
Example fr_ex_nonmapping :
  essence fr_dg fr_ds fr_ps (JObj [("spec", JObj [("struct", JNull)])]) [["spec"; "struct"; "other"]] = ErrType.
Proof. vm_compute. reflexivity. Qed.

Example fr_ex_nonmapping_thm : forall e,
  essence fr_dg fr_ds fr_ps (JObj [("spec", JObj [("struct", JNull)])]) [["spec"; "struct"; "other"]] <> Ok e.
Proof.
  apply (field_through_nonmapping_fails _ _ _ _ _ ["spec"; "struct"; "other"]).
  - left. reflexivity.
  - reflexivity.
Qed.

Print Assumptions essence_frame.
Print Assumptions system_kind_invisible.
Print Assumptions system_metadata_general.
Print Assumptions status_patch_invisible.
Print Assumptions status_patch_invisible_fields.
Print Assumptions finalizer_block_invisible.
Print Assumptions finalizer_allow_invisible.
Print Assumptions field_through_nonmapping_fails.
Print Assumptions fr_ex_frame.
Print Assumptions fr_ex_fin_allow.
