(* Proofs about Model/Match.v: the code-shaped match/prematch against the docs-shaped relation,
   the selected list as a registration-ordered filter, de-duplication, and selection-level stealth. *)
From Coq Require Import ZArith List String Bool Lia.
From KV Require Import Base.Json Base.Dicts Model.Match.
Import ListNotations.
Open Scope string_scope.
Open Scope list_scope.

(* ---------------------------------------------------------------------------------------- *)
(* 1. single criteria: boolean functions of the code vs the documented relation             *)
(* ---------------------------------------------------------------------------------------- *)

Lemma value_on_holds : forall c k v,
  value_on c k v = true <-> Holds c (value_crit k) v.
Proof.
  intros c k v; destruct k as [|x| | |f]; cbn [value_on value_crit].
  - destruct v; cbn; split; intro H; try discriminate; try constructor. inversion H.
  - destruct v as [w|]; split; intro H.
    + now constructor.
    + now inversion H.
    + discriminate.
    + inversion H.
  - destruct v; cbn; split; intro H; try discriminate; try constructor. inversion H.
  - destruct v; cbn; split; intro H; try discriminate; try constructor. inversion H.
  - split; intro H; [constructor; exact H | inversion H; subst; assumption].
Qed.

Lemma side_on_holds : forall c k v,
  side_on c k v = true <-> SideHolds c k v.
Proof.
  intros c k v; destruct k as [|x| | |f]; cbn [side_on].
  - split; intros; [constructor | reflexivity].
  - destruct v as [w|]; split; intro H.
    + apply S_specified; [discriminate | now constructor].
    + inversion H as [|? ? ? HH]; subst. now inversion HH.
    + discriminate.
    + inversion H as [|? ? ? HH]; subst. inversion HH.
  - destruct v; cbn; split; intro H; try discriminate.
    + apply S_specified; [discriminate | constructor].
    + reflexivity.
    + inversion H as [|? ? ? HH]; subst. inversion HH.
  - destruct v; cbn; split; intro H; try discriminate.
    + inversion H as [|? ? ? HH]; subst. inversion HH.
    + apply S_specified; [discriminate | constructor].
    + reflexivity.
  - split; intro H.
    + apply S_specified; [discriminate | constructor; exact H].
    + inversion H as [|? ? ? HH]; subst. inversion HH; subst. assumption.
Qed.

Lemma meta_item_holds : forall c content key k,
  k <> CNone ->
  (meta_item c content key k = true <-> Holds c k (lookup key content)).
Proof.
  intros c content key k Hk; destruct k as [|x| | |f]; cbn [meta_item]; [congruence | | | |].
  - destruct (lookup key content) as [w|]; split; intro H.
    + now constructor.
    + now inversion H.
    + discriminate.
    + inversion H.
  - unfold has. destruct (lookup key content); split; intro H; try discriminate; try constructor. inversion H.
  - unfold has. destruct (lookup key content); cbn; split; intro H; try discriminate; try constructor. inversion H.
  - destruct (lookup key content) as [w|]; split; intro H.
    + constructor; exact H.
    + inversion H; subst; assumption.
    + constructor; exact H.
    + inversion H; subst; assumption.
Qed.

Lemma meta_forallb_holds : forall c content pattern,
  Forall (fun kv => crit_specified (snd kv)) pattern ->
  (forallb (fun kv => meta_item c content (fst kv) (snd kv)) pattern = true <-> MetaHolds c pattern content).
Proof.
  intros c content pattern Hwf. unfold MetaHolds.
  induction pattern as [|[k v] rest IH]; cbn.
  - split; intros; [constructor | reflexivity].
  - inversion Hwf as [|? ? Hv Hrest]; subst. cbn in Hv.
    rewrite andb_true_iff, (meta_item_holds c content k v Hv), (IH Hrest).
    split.
    + intros [H1 H2]; constructor; assumption.
    + intro H; inversion H; subst; split; assumption.
Qed.

(* ---------------------------------------------------------------------------------------- *)
(* 2. on a well-formed body the conjunction is a plain boolean conjunction (no exception)    *)
(* ---------------------------------------------------------------------------------------- *)

Definition meta_b (c : cause) (pattern : list (string * crit)) (which : string) : bool :=
  forallb (fun kv => meta_item c (meta_of c which) (fst kv) (snd kv)) pattern.

Lemma matches_metadata_ok : forall c pattern which l,
  meta_content (c_body c) which = Ok l ->
  matches_metadata c pattern which = Ok (meta_b c pattern which).
Proof.
  intros c pattern which l H. unfold matches_metadata, meta_b, meta_of. rewrite H.
  destruct pattern; reflexivity.
Qed.

Lemma meta_content_kwargs : forall c which l,
  meta_content (c_body c) which = Ok l -> kwargs_ok c = Ok true.
Proof.
  intros c which l. unfold meta_content, kwargs_ok.
  destruct (c_body c) as [| | | | |b|]; try discriminate.
  destruct (lookup "metadata" b) as [m|]; [|reflexivity].
  destruct m; try discriminate; reflexivity.
Qed.

Lemma with_kwargs_ok : forall need c b, kwargs_ok c = Ok true -> with_kwargs need c b = Ok b.
Proof. intros need c b H. unfold with_kwargs. rewrite H. destruct need; reflexivity. Qed.

Lemma andr_ok : forall a b, andr (Ok a) (Ok b) = Ok (a && b).
Proof. intros [] b; reflexivity. Qed.

Definition matches_b (h : hdecl) (c : cause) : bool :=
  matches_resource h (c_resource c) && (meta_b c (h_labels h) "labels" && (meta_b c (h_annotations h) "annotations"
  && (matches_field_values h c && (matches_field_changes h c && matches_when h c)))).

Definition prematches_b (h : hdecl) (c : cause) : bool :=
  matches_resource h (c_resource c) && (meta_b c (h_labels h) "labels" && (meta_b c (h_annotations h) "annotations"
  && (matches_field_values h c && matches_when h c))).

Lemma matches_total : forall h c, body_ok c -> matches h c = Ok (matches_b h c).
Proof.
  intros h c [[l Hl] [a Ha]]. unfold matches, matches_b.
  rewrite (matches_metadata_ok c _ _ l Hl), (matches_metadata_ok c _ _ a Ha).
  rewrite !(with_kwargs_ok _ c _ (meta_content_kwargs c _ l Hl)).
  now rewrite !andr_ok.
Qed.

Lemma prematches_total : forall h c, body_ok c -> prematches h c = Ok (prematches_b h c).
Proof.
  intros h c [[l Hl] [a Ha]]. unfold prematches, prematches_b.
  rewrite (matches_metadata_ok c _ _ l Hl), (matches_metadata_ok c _ _ a Ha).
  rewrite !(with_kwargs_ok _ c _ (meta_content_kwargs c _ l Hl)).
  now rewrite !andr_ok.
Qed.

(* ---------------------------------------------------------------------------------------- *)
(* 3. field criteria                                                                         *)
(* ---------------------------------------------------------------------------------------- *)

Lemma updating_dec : forall h c, {updating h c} + {~ updating h c}.
Proof.
  intros h c. unfold updating.
  destruct (h_is_changing h), (is_changing c), (h_needs_change h);
    try (left; repeat split; reflexivity); right; intros (A & B & C); discriminate.
Qed.

(* update handlers: the code is the documented semantics *)
Lemma field_update_iff : forall h c p,
  h_field h = Some p -> updating h c ->
  (matches_field_values h c && matches_field_changes h c = true <-> FieldHolds h c).
Proof.
  intros h c p Hp (Hh & Hc & Hn).
  unfold matches_field_values, matches_field_changes, field_values. rewrite Hp, Hh, Hc, Hn. cbn [negb existsb orb].
  set (old := resolve_opt (c_old c) p). set (new := resolve_opt (c_new c) p).
  rewrite orb_false_r.
  rewrite !andb_true_iff, orb_true_iff, negb_true_iff.
  rewrite (value_on_holds c (h_value h) new), (value_on_holds c (h_value h) old).
  rewrite (side_on_holds c (h_old h) old), (side_on_holds c (h_new h) new).
  split.
  - intros ([Hnew|Hold] & (Haff & Ho) & Hnw); eapply F_update; eauto; repeat split; auto.
  - intro H. inversion H as [Hnone | p' Hp' _ Hv Haff Ho Hnw | p' Hp' Hnu _].
    + congruence.
    + rewrite Hp in Hp'; injection Hp' as <-. fold old new in Hv, Haff, Ho, Hnw.
      repeat split; auto. tauto.
    + exfalso; apply Hnu; repeat split; assumption.
Qed.

(* all other handlers, as the code behaves: the value criterion on the new OR the old state *)
Lemma field_other_changing : forall h c p,
  h_field h = Some p -> h_is_changing h = true -> is_changing c = true -> h_needs_change h = false ->
  h_old h = CNone -> h_new h = CNone ->
  matches_field_values h c && matches_field_changes h c
  = value_on c (h_value h) (resolve_opt (c_new c) p) || value_on c (h_value h) (resolve_opt (c_old c) p).
Proof.
  intros h c p Hp Hh Hc Hn Ho Hnw.
  unfold matches_field_values, matches_field_changes, field_values. rewrite Hp, Hh, Hc, Hn, Ho, Hnw. cbn.
  now rewrite orb_false_r, andb_true_r.
Qed.

Lemma field_other_static : forall h c p,
  h_field h = Some p -> is_changing c = false ->
  matches_field_values h c && matches_field_changes h c = value_on c (h_value h) (resolve (c_body c) p).
Proof.
  intros h c p Hp Hc.
  unfold matches_field_values, matches_field_changes, field_values. rewrite Hp, Hc. cbn.
  rewrite orb_false_r. destruct (h_is_changing h); cbn; now rewrite andb_true_r.
Qed.

Lemma field_nofield : forall h c, h_field h = None ->
  matches_field_values h c && matches_field_changes h c = true.
Proof.
  intros h c Hp. unfold matches_field_values, matches_field_changes. rewrite Hp.
  destruct (h_is_changing h), (is_changing c); reflexivity.
Qed.

Lemma field_iff : forall h c,
  wf_decl h -> class_agree h c -> essence_ok h c -> old_silent h c ->
  (matches_field_values h c && matches_field_changes h c = true <-> FieldHolds h c).
Proof.
  intros h c Hwf Hcl Hess Hsilent.
  destruct (h_field h) as [p|] eqn:Hp.
  2:{ rewrite (field_nofield h c Hp). split; intros; [now apply F_nofield | reflexivity]. }
  destruct (updating_dec h c) as [Hu|Hnu].
  { exact (field_update_iff h c p Hp Hu). }
  destruct (is_changing c) eqn:Hc.
  - (* create / resume / delete handlers on a changing cause *)
    assert (Hh : h_is_changing h = true) by (unfold class_agree in Hcl; congruence).
    assert (Hn : h_needs_change h = false).
    { destruct (h_needs_change h) eqn:E; [|reflexivity]. exfalso; apply Hnu; repeat split; assumption. }
    destruct (wf_oldnew h Hwf Hn) as [Ho Hnw].
    rewrite (field_other_changing h c p Hp Hh Hc Hn Ho Hnw).
    specialize (Hess Hc p Hp). specialize (Hsilent Hc Hn p Hp).
    rewrite orb_true_iff.
    split.
    + intros [H|H]; [|apply Hsilent in H]; eapply F_current; eauto;
        rewrite <- Hess; apply (value_on_holds c _ _); assumption.
    + intro H. inversion H as [Hnone | p' Hp' Hu' | p' Hp' _ Hv]; [congruence | contradiction |].
      rewrite Hp in Hp'; injection Hp' as <-. left.
      apply (value_on_holds c _ _). rewrite Hess. exact Hv.
  - rewrite (field_other_static h c p Hp Hc).
    rewrite (value_on_holds c _ _).
    split.
    + intro H; eapply F_current; eauto.
    + intro H. inversion H as [Hnone | p' Hp' Hu' | p' Hp' _ Hv]; [congruence | contradiction |].
      rewrite Hp in Hp'; injection Hp' as <-. exact Hv.
Qed.

(* ---------------------------------------------------------------------------------------- *)
(* 4. match <-> documented semantics                                                         *)
(* ---------------------------------------------------------------------------------------- *)

Lemma when_iff : forall h c, matches_when h c = true <-> WhenHolds h c.
Proof. intros h c. unfold matches_when, WhenHolds. destruct (h_when h); tauto. Qed.

Theorem match_iff_spec_partial : forall h c,
  wf_decl h -> body_ok c -> class_agree h c -> essence_ok h c -> old_silent h c ->
  (matches h c = Ok true <-> Matches h c).
Proof.
  intros h c Hwf Hbody Hcl Hess Hsilent.
  rewrite (matches_total h c Hbody). unfold matches_b.
  assert (HL := meta_forallb_holds c (meta_of c "labels") (h_labels h) (wf_labels h Hwf)).
  assert (HA := meta_forallb_holds c (meta_of c "annotations") (h_annotations h) (wf_annotations h Hwf)).
  assert (HF := field_iff h c Hwf Hcl Hess Hsilent).
  assert (HW := when_iff h c).
  fold (meta_b c (h_labels h) "labels") in HL. fold (meta_b c (h_annotations h) "annotations") in HA.
  split.
  - intro H. injection H as H.
    repeat (apply andb_true_iff in H; destruct H as [? H]).
    constructor; try tauto.
    apply HF. apply andb_true_iff; split; assumption.
  - intros [M1 M2 M3 M4 M5]. f_equal.
    apply HF in M4. apply andb_true_iff in M4 as [M4 M4'].
    rewrite M1, (proj2 HL M2), (proj2 HA M3), M4, M4', (proj2 HW M5). reflexivity.
Qed.

(* the guards are satisfiable and the equivalence is not vacuous: see the Examples at the end *)

(* -- corollaries: where the guard [old_silent] is free -- *)
Lemma old_silent_update : forall h c, h_needs_change h = true -> old_silent h c.
Proof. intros h c H _ H'; congruence. Qed.

Lemma old_silent_static : forall h c, is_changing c = false -> old_silent h c.
Proof. intros h c H H'; congruence. Qed.

Lemma old_silent_unchanged : forall h c,
  (forall p, h_field h = Some p -> resolve_opt (c_old c) p = resolve_opt (c_new c) p) -> old_silent h c.
Proof. intros h c H _ _ p Hp. rewrite (H p Hp). auto. Qed.

(* creation (no old state): free unless the criterion is ABSENT or a callback *)
Lemma old_silent_create : forall h c,
  c_old c = None ->
  match h_value h with CAbsent | CCb _ => False | _ => True end ->
  old_silent h c.
Proof.
  intros h c Hold Hk _ _ p _. rewrite Hold. cbn.
  destruct (h_value h); cbn; try discriminate; contradiction.
Qed.

(* ---------------------------------------------------------------------------------------- *)
(* 5. refutations of the unguarded statement (the model mirrors the code)                    *)
(* ---------------------------------------------------------------------------------------- *)
Definition ex_resource : resource :=
  {| r_group := "kopf.dev"; r_version := "v1"; r_kind := "KopfExample"; r_plural := "kopfexamples";
     r_singular := "kopfexample"; r_shortcuts := ["kex"]; r_categories := ["all"]; r_preferred := true |}.
Definition ex_sel : selector := {| s_group := None; s_version := None; s_name := SAny "kopfexamples" |}.
Definition ex_spec (f : option json) : json :=
  JObj [("spec", JObj (match f with Some v => [("f", v)] | None => [] end ++ [("g", JNum 0)]))].
Definition ex_body (f : option json) : json :=
  JObj [("metadata", JObj [("name", JStr "x")]);
        ("spec", JObj (match f with Some v => [("f", v)] | None => [] end ++ [("g", JNum 0)]))].
Definition ex_changing (r : reason) (old : option json) (f : option json) : cause :=
  {| c_class := CChanging; c_resource := ex_resource; c_body := ex_body f; c_old := old;
     c_new := Some (ex_spec f); c_reason := r; c_initial := false |}.
Definition ex_watching (f : option json) : cause :=
  {| c_class := CWatching; c_resource := ex_resource; c_body := ex_body f; c_old := None;
     c_new := None; c_reason := RNoop; c_initial := false |}.

(* @kopf.on.create('kopfexamples', field='spec.f', value=kopf.ABSENT)  -- the docs' own example *)
Definition ex_create_absent : hdecl :=
  decorate DCreate "created_without_field" 0 ex_sel [] [] None (Some ["spec"; "f"]) CAbsent CNone CNone.
(* an object created WITH spec.f = 2 *)
Definition ex_created_with_f : cause := ex_changing RCreate None (Some (JNum 2)).

Lemma ex_wf : forall k id fn f v o n, wf_decl (decorate k id fn ex_sel [] [] None f v
                                                 (match k with DUpdate | DField => o | _ => CNone end)
                                                 (match k with DUpdate | DField => n | _ => CNone end)).
Proof. intros. constructor; cbn; try constructor; destruct k; cbn; intros; try discriminate; auto. Qed.

Lemma ex_body_ok_changing : forall r old f, body_ok (ex_changing r old f).
Proof. intros. split; eexists; reflexivity. Qed.
Lemma ex_body_ok_watching : forall f, body_ok (ex_watching f).
Proof. intros. split; eexists; reflexivity. Qed.

Theorem match_iff_spec_refuted :
  exists h c, wf_decl h /\ body_ok c /\ class_agree h c /\ essence_ok h c /\
              matches h c = Ok true /\ ~ Matches h c.
Proof.
  exists ex_create_absent, ex_created_with_f.
  split; [exact (ex_wf DCreate _ _ _ _ CNone CNone)|].
  split; [apply ex_body_ok_changing|].
  split; [reflexivity|].
  split; [intros _ p Hp; injection Hp as <-; reflexivity|].
  split; [reflexivity|].
  intros [_ _ _ HF _].
  inversion HF as [Hnone | p Hp Hu | p Hp _ Hv].
  - discriminate.
  - destruct Hu as (_ & _ & Hn). discriminate.
  - injection Hp as <-. cbn in Hv. inversion Hv.
Qed.

(* @kopf.on.event('kopfexamples', field='spec.f', value=lambda v, **_: v is None), object without spec.f *)
Definition ex_event_isnone : hdecl :=
  decorate DEvent "e" 0 ex_sel [] [] None (Some ["spec"; "f"]) (CCb cb_is_none) CNone CNone.



(* ---------------------------------------------------------------------------------------- *)
(* 6. update handlers: value on old OR new, old=/new= each on its side, and the field differs *)
(* ---------------------------------------------------------------------------------------- *)
Theorem update_field_semantics : forall h c p,
  body_ok c -> h_field h = Some p -> updating h c ->
  let old := resolve_opt (c_old c) p in
  let new := resolve_opt (c_new c) p in
  (matches h c = Ok true <->
     matches_resource h (c_resource c) = true /\ meta_b c (h_labels h) "labels" = true /\
     meta_b c (h_annotations h) "annotations" = true /\ WhenHolds h c /\
     (Holds c (value_crit (h_value h)) old \/ Holds c (value_crit (h_value h)) new) /\
     affected old new /\ SideHolds c (h_old h) old /\ SideHolds c (h_new h) new).
Proof.
  intros h c p Hbody Hp Hu old new.
  rewrite (matches_total h c Hbody). unfold matches_b.
  pose proof (field_update_iff h c p Hp Hu) as HF.
  pose proof (when_iff h c) as HW.
  split.
  - intro H. injection H as H.
    repeat (apply andb_true_iff in H; destruct H as [? H]).
    assert (HFH : FieldHolds h c) by (apply HF; apply andb_true_iff; split; assumption).
    inversion HFH as [Hnone | p' Hp' _ Hv Haff Ho Hnw | p' Hp' Hnu _]; [congruence | | contradiction].
    rewrite Hp in Hp'; injection Hp' as <-.
    repeat split; auto; tauto.
  - intros (M1 & M2 & M3 & M5 & Hv & Haff & Ho & Hnw). f_equal.
    assert (HFH : FieldHolds h c) by (eapply F_update; eauto).
    apply HF in HFH. apply andb_true_iff in HFH as [M4 M4'].
    rewrite M1, M2, M3, M4, M4', (proj2 HW M5). reflexivity.
Qed.

(* the three situations the design names *)
Definition ex_update (v o n : crit) : hdecl :=
  decorate DUpdate "u" 0 ex_sel [] [] None (Some ["spec"; "f"]) v o n.
Definition ex_upd (old new : option json) (g_old : Z) : cause :=
  {| c_class := CChanging; c_resource := ex_resource; c_body := ex_body new;
     c_old := Some (JObj [("spec", JObj (match old with Some v => [("f", v)] | None => [] end ++ [("g", JNum g_old)]))]);
     c_new := Some (ex_spec new); c_reason := RUpdate; c_initial := false |}.

Lemma ex_removed_field :   (* value=1 holds on the old side only; old=1 new=ABSENT *)
  matches (ex_update (CVal (JNum 1)) CNone CNone) (ex_upd (Some (JNum 1)) None 0) = Ok true /\
  matches (ex_update CNone (CVal (JNum 1)) CAbsent) (ex_upd (Some (JNum 1)) None 0) = Ok true /\
  matches (ex_update CNone CNone CPresent) (ex_upd (Some (JNum 1)) None 0) = Ok false.
Proof. repeat split; reflexivity. Qed.

Lemma ex_added_field :
  matches (ex_update (CVal (JNum 1)) CNone CNone) (ex_upd None (Some (JNum 1)) 0) = Ok true /\
  matches (ex_update CNone CAbsent CPresent) (ex_upd None (Some (JNum 1)) 0) = Ok true /\
  matches (ex_update CNone CPresent CNone) (ex_upd None (Some (JNum 1)) 0) = Ok false.
Proof. repeat split; reflexivity. Qed.

Lemma ex_unchanged_field_changed_sibling :   (* spec.g changed 5 -> 0, spec.f stays 1: no update handler on spec.f *)
  matches (ex_update (CVal (JNum 1)) CNone CNone) (ex_upd (Some (JNum 1)) (Some (JNum 1)) 5) = Ok false /\
  matches (ex_update CNone CNone CNone) (ex_upd (Some (JNum 1)) (Some (JNum 1)) 5) = Ok false /\
  prematches (ex_update (CVal (JNum 1)) CNone CNone) (ex_upd (Some (JNum 1)) (Some (JNum 1)) 5) = Ok true.
Proof. repeat split; reflexivity. Qed.

(* regression for the repaired F15b (commit b981eb5): the callback gets None for the absent field, so the
   handler matches, as documented; and it cannot tell an absent field from a null one *)
Lemma callback_absent_regression :
  matches ex_event_isnone (ex_watching None) = Ok true /\ Matches ex_event_isnone (ex_watching None) /\
  matches ex_event_isnone (ex_watching (Some JNull)) = Ok true /\
  matches ex_event_isnone (ex_watching (Some (JNum 0))) = Ok false /\
  matches (decorate DEvent "e" 0 ex_sel [] [] None (Some ["spec"; "f"]) (CCb cb_not_none) CNone CNone)
          (ex_watching None) = Ok false /\
  matches (decorate DEvent "e" 0 ex_sel [] [] None (Some ["spec"; "f"]) (CCb cb_truthy) CNone CNone)
          (ex_watching None) = Ok false /\
  matches (decorate DUpdate "u" 0 ex_sel [] [] None (Some ["spec"; "f"]) CNone (CCb cb_is_none) (CCb (cb_eq (JNum 0))))
          (ex_upd None (Some (JNum 0)) 0) = Ok true.
Proof.
  split; [reflexivity|]. split; [|repeat split; reflexivity].
  constructor.
  - reflexivity.
  - constructor.
  - constructor.
  - eapply F_current; [reflexivity | intros (_ & H & _); discriminate |].
    cbn. constructor. reflexivity.
  - exact I.
Qed.

(* ---------------------------------------------------------------------------------------- *)
(* 7. other handlers: the current state only?                                                *)
(* ---------------------------------------------------------------------------------------- *)
(* event / daemon / timer / index: yes *)
Theorem non_update_current_only_static : forall h c p,
  body_ok c -> is_changing c = false -> h_field h = Some p ->
  (matches h c = Ok true <->
     matches_resource h (c_resource c) = true /\ meta_b c (h_labels h) "labels" = true /\
     meta_b c (h_annotations h) "annotations" = true /\ WhenHolds h c /\
     Holds c (value_crit (h_value h)) (resolve (c_body c) p)).
Proof.
  intros h c p Hbody Hc Hp.
  rewrite (matches_total h c Hbody). unfold matches_b.
  pose proof (field_other_static h c p Hp Hc) as HF.
  pose proof (when_iff h c) as HW.
  pose proof (value_on_holds c (h_value h) (resolve (c_body c) p)) as HV.
  split.
  - intro H. injection H as H.
    repeat (apply andb_true_iff in H; destruct H as [? H]).
    repeat split; auto; try tauto.
    apply HV. rewrite <- HF. apply andb_true_iff; split; assumption.
  - intros (M1 & M2 & M3 & M5 & Hv). f_equal.
    apply HV in Hv. rewrite <- HF in Hv. apply andb_true_iff in Hv as [M4 M4'].
    rewrite M1, M2, M3, M4, M4', (proj2 HW M5). reflexivity.
Qed.

(* create / resume / delete: as the code behaves, the new OR the old state *)
Theorem non_update_current_only_partial : forall h c p,
  wf_decl h -> body_ok c -> h_is_changing h = true -> is_changing c = true -> h_needs_change h = false ->
  h_field h = Some p ->
  (matches h c = Ok true <->
     matches_resource h (c_resource c) = true /\ meta_b c (h_labels h) "labels" = true /\
     meta_b c (h_annotations h) "annotations" = true /\ WhenHolds h c /\
     (Holds c (value_crit (h_value h)) (resolve_opt (c_new c) p) \/
      Holds c (value_crit (h_value h)) (resolve_opt (c_old c) p))).
Proof.
  intros h c p Hwf Hbody Hh Hc Hn Hp.
  destruct (wf_oldnew h Hwf Hn) as [Ho Hnw].
  rewrite (matches_total h c Hbody). unfold matches_b.
  pose proof (field_other_changing h c p Hp Hh Hc Hn Ho Hnw) as HF.
  pose proof (when_iff h c) as HW.
  pose proof (value_on_holds c (h_value h) (resolve_opt (c_new c) p)) as HV1.
  pose proof (value_on_holds c (h_value h) (resolve_opt (c_old c) p)) as HV2.
  split.
  - intro H. injection H as H.
    repeat (apply andb_true_iff in H; destruct H as [? H]).
    repeat split; auto; try tauto.
    rewrite <- HV1, <- HV2. apply orb_true_iff. rewrite <- HF. apply andb_true_iff; split; assumption.
  - intros (M1 & M2 & M3 & M5 & Hv). f_equal.
    rewrite <- HV1, <- HV2 in Hv. apply orb_true_iff in Hv. rewrite <- HF in Hv. apply andb_true_iff in Hv as [M4 M4'].
    rewrite M1, M2, M3, M4, M4', (proj2 HW M5). reflexivity.
Qed.

(* ... hence "the current ---and only--- state" is false for them *)
Theorem non_update_current_only_refuted :
  exists h c p, wf_decl h /\ body_ok c /\ essence_ok h c /\ h_field h = Some p /\ ~ updating h c /\
                matches h c = Ok true /\ ~ Holds c (value_crit (h_value h)) (resolve (c_body c) p).
Proof.
  exists (decorate (DDelete true) "d" 0 ex_sel [] [] None (Some ["spec"; "f"]) (CVal (JNum 1)) CNone CNone),
         (ex_changing RDelete (Some (ex_spec (Some (JNum 1)))) (Some (JNum 2))), ["spec"; "f"].
  split; [exact (ex_wf (DDelete true) _ _ _ _ CNone CNone)|].
  split; [apply ex_body_ok_changing|].
  split; [intros _ p Hp; injection Hp as <-; reflexivity|].
  split; [reflexivity|].
  split; [intros (_ & _ & H); discriminate|].
  split; [reflexivity|].
  cbn. intro H. inversion H as [x w Hpy| | |]. discriminate.
Qed.

(* ---------------------------------------------------------------------------------------- *)
(* 8. match implies prematch; prematch is match without the transition part                  *)
(* ---------------------------------------------------------------------------------------- *)
Lemma andr_true : forall a b, andr a b = Ok true <-> a = Ok true /\ b = Ok true.
Proof.
  intros a b. destruct a as [[]| | |]; cbn; split; try (intros [H _]; discriminate); try discriminate; auto.
  intros [_ H]; exact H.
Qed.

Theorem match_implies_prematch : forall h c, matches h c = Ok true -> prematches h c = Ok true.
Proof.
  intros h c. unfold matches, prematches. rewrite !andr_true.
  intros (A & B & C & D & E & F). auto.
Qed.

Theorem match_is_prematch_and_changes : forall h c,
  matches h c = Ok true <-> prematches h c = Ok true /\ matches_field_changes h c = true.
Proof.
  intros h c. unfold matches, prematches. rewrite !andr_true.
  split.
  - intros (A & B & C & D & E & F). injection E as E. auto 10.
  - intros ((A & B & C & D & F) & E). rewrite E. auto 10.
Qed.

(* ---------------------------------------------------------------------------------------- *)
(* 9. the selected list                                                                      *)
(* ---------------------------------------------------------------------------------------- *)
Definition selected_b (excl : list string) (c : cause) (h : hdecl) : bool :=
  match selects excl h c with Ok true => true | _ => false end.

Lemma iter_handlers_filter : forall excl hs c l,
  iter_handlers excl hs c = Ok l -> l = filter (selected_b excl c) hs.
Proof.
  intros excl hs c; induction hs as [|h hs IH]; intros l H; cbn in *.
  - injection H as <-; reflexivity.
  - unfold selected_b at 1.
    destruct (selects excl h c) as [b| | |]; cbn in H; try discriminate.
    destruct (iter_handlers excl hs c) as [rest| | |]; cbn in H; try discriminate.
    injection H as <-. rewrite (IH rest eq_refl). destruct b; reflexivity.
Qed.

Lemma iter_handlers_all_ok : forall excl hs c l,
  iter_handlers excl hs c = Ok l -> forall h, In h hs -> exists b, selects excl h c = Ok b.
Proof.
  intros excl hs c; induction hs as [|h hs IH]; intros l H h' Hin; cbn in *; [contradiction|].
  destruct (selects excl h c) as [b| | |] eqn:E; cbn in H; try discriminate.
  destruct (iter_handlers excl hs c) as [rest| | |]; cbn in H; try discriminate.
  destruct Hin as [<-|Hin]; [eauto | eapply IH; eauto].
Qed.

(* the cause-kind gate of ChangingRegistry.iter_handlers *)
Definition cause_gate (h : hdecl) (c : cause) : res bool :=
  match c_class c with
  | CChanging =>
      if match h_reason h with None => true | Some r => reason_eqb r (c_reason c) end then
        if h_initial h && negb (c_initial c) then Ok false
        else if h_initial h then bind (cause_deleted c) (fun d => Ok (negb (d && negb (h_deleted h))))
        else Ok true
      else Ok false
  | _ => Ok true
  end.

Lemma selects_true_iff : forall excl h c,
  selects excl h c = Ok true <->
  mem_str (h_id h) excl = false /\ cause_gate h c = Ok true /\ matches h c = Ok true.
Proof.
  intros excl h c. unfold selects, cause_gate.
  destruct (mem_str (h_id h) excl); [split; [discriminate | intros [H _]; discriminate]|].
  destruct (c_class c); try (split; [intro H; auto | intros (_ & _ & H); exact H]).
  destruct (match h_reason h with None => true | Some r => reason_eqb r (c_reason c) end);
    [|split; [discriminate | intros (_ & H & _); discriminate]].
  destruct (h_initial h); cbn [andb].
  - destruct (negb (c_initial c)); [split; [discriminate | intros (_ & H & _); discriminate]|].
    destruct (cause_deleted c) as [d| | |]; cbn;
      try (split; [discriminate | intros (_ & H & _); discriminate]).
    destruct d, (h_deleted h); cbn; split; try discriminate; auto; try (intros (_ & H & _); discriminate);
      try (intros (_ & _ & H); exact H).
  - cbn. split; [auto | intros (_ & _ & H); exact H].
Qed.

Theorem selected_set : forall excl hs c l,
  get_handlers excl hs c = Ok l ->
  l = deduplicated (filter (selected_b excl c) hs) /\
  (forall h, In h (filter (selected_b excl c) hs) <->
             In h hs /\ mem_str (h_id h) excl = false /\ cause_gate h c = Ok true /\ matches h c = Ok true).
Proof.
  intros excl hs c l H. unfold get_handlers in H.
  destruct (iter_handlers excl hs c) as [l0| | |] eqn:E; cbn in H; try discriminate.
  injection H as <-. rewrite (iter_handlers_filter _ _ _ _ E). split; [reflexivity|].
  intro h. rewrite filter_In. unfold selected_b.
  rewrite <- selects_true_iff.
  destruct (selects excl h c) as [[]| | |]; split; intros [A B]; split; auto; discriminate.
Qed.

(* ---------------------------------------------------------------------------------------- *)
(* 10. de-duplication                                                                        *)
(* ---------------------------------------------------------------------------------------- *)
Lemma hkey_eqb_eq : forall a b, hkey_eqb a b = true <-> a = b.
Proof.
  intros [n s] [m t]. unfold hkey_eqb; cbn. rewrite andb_true_iff, Nat.eqb_eq, String.eqb_eq.
  split; [intros [-> ->]; reflexivity | intros H; injection H; auto].
Qed.

Lemma seen_in : forall k seen, existsb (hkey_eqb k) seen = true <-> In k seen.
Proof.
  intros k seen. rewrite existsb_exists. split.
  - intros (x & Hin & He). apply hkey_eqb_eq in He. now subst.
  - intro H. exists k. split; [assumption | now apply hkey_eqb_eq].
Qed.

Lemma dedup_from_in : forall hs seen h, In h (dedup_from seen hs) -> In h hs /\ ~ In (hkey_of h) seen.
Proof.
  induction hs as [|x hs IH]; intros seen h H; cbn in *; [contradiction|].
  destruct (existsb (hkey_eqb (hkey_of x)) seen) eqn:E.
  - destruct (IH _ _ H); auto.
  - destruct H as [<-|H].
    + split; [auto|]. intro Hin. apply seen_in in Hin. congruence.
    + destruct (IH _ _ H) as [A B]. split; [auto|]. intro Hin. apply B. now right.
Qed.

Lemma dedup_from_nodup : forall hs seen, NoDup (map hkey_of (dedup_from seen hs)).
Proof.
  induction hs as [|x hs IH]; intros seen; cbn; [constructor|].
  destruct (existsb (hkey_eqb (hkey_of x)) seen); [apply IH|].
  cbn. constructor; [|apply IH].
  intro Hin. apply in_map_iff in Hin as (y & Hy & Hin).
  apply dedup_from_in in Hin as [_ Hn]. apply Hn. left. auto.
Qed.

Lemma dedup_from_keys : forall hs seen k,
  In k (map hkey_of hs) -> In k seen \/ In k (map hkey_of (dedup_from seen hs)).
Proof.
  induction hs as [|x hs IH]; intros seen k H; cbn in *; [contradiction|].
  destruct (existsb (hkey_eqb (hkey_of x)) seen) eqn:E.
  - destruct H as [<-|H]; [left; now apply seen_in | now apply IH].
  - destruct H as [<-|H]; [right; now left|].
    destruct (IH (hkey_of x :: seen) k H) as [[<-|A]|B]; [right; now left | now left | right; now right].
Qed.

Lemma dedup_from_id : forall hs seen,
  NoDup (map hkey_of hs) -> (forall h, In h hs -> ~ In (hkey_of h) seen) -> dedup_from seen hs = hs.
Proof.
  induction hs as [|x hs IH]; intros seen Hnd Hs; cbn; [reflexivity|].
  destruct (existsb (hkey_eqb (hkey_of x)) seen) eqn:E.
  - apply seen_in in E. exfalso. apply (Hs x); [now left | assumption].
  - f_equal. cbn in Hnd. inversion Hnd as [|? ? Hnotin Hnd']; subst. apply IH; [assumption|].
    intros h Hin [Heq|Hk].
    + apply Hnotin. rewrite Heq. apply in_map. assumption.
    + apply (Hs h); [now right | assumption].
Qed.

(* the first occurrence of each key survives *)
Lemma dedup_from_first : forall pre x post seen,
  ~ In (hkey_of x) seen -> ~ In (hkey_of x) (map hkey_of pre) -> In x (dedup_from seen (pre ++ x :: post)).
Proof.
  induction pre as [|y pre IH]; intros x post seen Hs Hp; cbn.
  - destruct (existsb (hkey_eqb (hkey_of x)) seen) eqn:E; [apply seen_in in E; contradiction | now left].
  - cbn in Hp. destruct (existsb (hkey_eqb (hkey_of y)) seen).
    + apply IH; tauto.
    + right. apply IH; [|tauto]. intros [A|A]; [apply Hp; now left | contradiction].
Qed.

Theorem dedup_spec : forall l,
  NoDup (map hkey_of (deduplicated l)) /\
  (forall h, In h (deduplicated l) -> In h l) /\
  (forall k, In k (map hkey_of l) <-> In k (map hkey_of (deduplicated l))) /\
  (NoDup (map hkey_of l) -> deduplicated l = l) /\
  (forall pre x post, l = pre ++ x :: post -> ~ In (hkey_of x) (map hkey_of pre) -> In x (deduplicated l)).
Proof.
  intro l. unfold deduplicated. split; [apply dedup_from_nodup|].
  split; [intros h H; now apply dedup_from_in in H|].
  split.
  - intro k; split; intro H.
    + destruct (dedup_from_keys l [] k H) as [[]|]; assumption.
    + apply in_map_iff in H as (h & <- & Hin). apply in_map. now apply dedup_from_in in Hin.
  - split.
    + intro H; apply dedup_from_id; [assumption | intros h _ []].
    + intros pre x post -> Hp. apply dedup_from_first; [intros [] | assumption].
Qed.

(* same function, same id: once; same function on two fields (two ids): both *)
Definition ex_twice : list hdecl :=
  [ decorate (DResume false) "fn" 0 ex_sel [] [] None None CNone CNone CNone;
    decorate DCreate "fn" 0 ex_sel [] [] None None CNone CNone CNone;
    decorate DField "fn" 0 ex_sel [] [] None (Some ["spec"; "f"]) CNone CNone CNone;
    decorate DField "fn" 0 ex_sel [] [] None (Some ["spec"; "g"]) CNone CNone CNone ].
Lemma ex_dedup :
  rids (get_handlers [] ex_twice
         {| c_class := CChanging; c_resource := ex_resource; c_body := ex_body (Some (JNum 1)); c_old := None;
            c_new := Some (ex_spec (Some (JNum 1))); c_reason := RCreate; c_initial := true |})
  = Ok ["fn"; "fn/spec.f"; "fn/spec.g"].
Proof. reflexivity. Qed.

(* ---------------------------------------------------------------------------------------- *)
(* 11. stealth, at the level of selection                                                    *)
(* ---------------------------------------------------------------------------------------- *)
Lemma registry_prematch_false : forall hs c,
  registry_prematch hs c = Ok false -> forall h, In h hs -> prematches h c = Ok false.
Proof.
  induction hs as [|x hs IH]; intros c H h Hin; [destruct Hin|].
  cbn [registry_prematch] in H.
  destruct (prematches x c) as [[]| | |] eqn:E; cbn [bind] in H; try discriminate.
  destruct Hin as [<-|Hin]; [assumption | now apply IH].
Qed.

(* out of scope => no changing handler is selected, whatever the cause, and no finaliser is required *)
Theorem stealth_selection : forall hs c,
  registry_prematch hs c = Ok false ->
  (forall excl l, get_handlers excl hs c = Ok l -> l = []) /\
  (forall excl, requires_finalizer true excl hs c = Ok false).
Proof.
  intros hs c H. pose proof (registry_prematch_false hs c H) as Hall. split.
  - intros excl l Hg. destruct (selected_set excl hs c l Hg) as [-> Hin].
    assert (Hnil : filter (selected_b excl c) hs = []).
    { destruct (filter (selected_b excl c) hs) as [|h rest] eqn:E; [reflexivity|]. exfalso.
      assert (Hh : In h (h :: rest)) by now left.
      apply Hin in Hh as (Hhs & _ & _ & Hm). apply match_implies_prematch in Hm.
      rewrite (Hall h Hhs) in Hm. discriminate. }
    rewrite Hnil. reflexivity.
  - intro excl. clear H. induction hs as [|x hs IH]; cbn [requires_finalizer]; [reflexivity|].
    assert (IH' := IH (fun h Hin => Hall h (or_intror Hin))).
    destruct (mem_str (h_id x) excl); [exact IH'|].
    destruct (h_requires_finalizer x); [|exact IH'].
    rewrite (Hall x (or_introl eq_refl)). cbn [bind]. exact IH'.
Qed.

(* event / daemon / timer / index registries: nothing matches => nothing is selected, no finaliser *)
Theorem nothing_matches_nothing_selected : forall hs c,
  c_class c <> CChanging ->
  (forall h, In h hs -> matches h c = Ok false) ->
  (forall excl, get_handlers excl hs c = Ok []) /\
  (forall excl, requires_finalizer false excl hs c = Ok false).
Proof.
  intros hs c Hc Hall. split; intro excl.
  - unfold get_handlers.
    assert (Hi : iter_handlers excl hs c = Ok []).
    { induction hs as [|x hs IH]; cbn [iter_handlers]; [reflexivity|].
      rewrite (IH (fun h Hin => Hall h (or_intror Hin))).
      unfold selects. destruct (mem_str (h_id x) excl); [reflexivity|].
      destruct (c_class c); try contradiction; rewrite (Hall x (or_introl eq_refl)); reflexivity. }
    rewrite Hi. reflexivity.
  - induction hs as [|x hs IH]; cbn [requires_finalizer]; [reflexivity|].
    assert (IH' := IH (fun h Hin => Hall h (or_intror Hin))).
    destruct (mem_str (h_id x) excl); [exact IH'|].
    destruct (h_requires_finalizer x); [|exact IH'].
    rewrite (Hall x (or_introl eq_refl)). cbn [bind]. exact IH'.
Qed.

(* ---------------------------------------------------------------------------------------- *)
(* 12. non-vacuity                                                                           *)
(* ---------------------------------------------------------------------------------------- *)
(* all guards of match_iff_spec_partial hold together, with a field, a value callback, labels and when=,
   on both sides of the equivalence *)
Definition ex_guarded : hdecl :=
  decorate DUpdate "u" 0 ex_sel [("l1", CPresent)] [("a1", CAbsent)] (Some (when_const true))
           (Some ["spec"; "f"]) CNone (CCb (cb_eq (JNum 1))) CPresent.
Definition ex_guarded_cause (new : option json) : cause :=
  {| c_class := CChanging; c_resource := ex_resource;
     c_body := JObj [("metadata", JObj [("name", JStr "x"); ("labels", JObj [("l1", JStr "")])]);
                     ("spec", JObj (match new with Some v => [("f", v)] | None => [] end ++ [("g", JNum 0)]))];
     c_old := Some (ex_spec (Some (JNum 1))); c_new := Some (ex_spec new); c_reason := RUpdate; c_initial := false |}.

Lemma ex_guards : forall new,
  wf_decl ex_guarded /\ body_ok (ex_guarded_cause new) /\ class_agree ex_guarded (ex_guarded_cause new) /\
  essence_ok ex_guarded (ex_guarded_cause new) /\
  old_silent ex_guarded (ex_guarded_cause new).
Proof.
  intro new. split.
  { constructor; cbn; repeat constructor; try discriminate. }
  split; [split; eexists; reflexivity|].
  split; [reflexivity|].
  split; [intros _ p Hp; injection Hp as <-; destruct new; reflexivity|].
  apply old_silent_update. reflexivity.
Qed.

Lemma ex_guarded_both :
  matches ex_guarded (ex_guarded_cause (Some (JNum 2))) = Ok true /\
  matches ex_guarded (ex_guarded_cause (Some (JNum 1))) = Ok false /\
  matches ex_guarded (ex_guarded_cause None) = Ok false.
Proof. repeat split; reflexivity. Qed.

(* the stealth premise is satisfiable with a non-empty registry; and it matters: with the label present the
   same registry selects a handler *)
Definition ex_labelled : list hdecl :=
  [ decorate DCreate "c" 0 ex_sel [("l1", CVal (JStr "v"))] [] None None CNone CNone CNone;
    decorate (DDelete false) "d" 1 ex_sel [("l1", CVal (JStr "v"))] [] None None CNone CNone CNone ].
Lemma ex_stealth_premise :
  registry_prematch ex_labelled (ex_changing RCreate None None) = Ok false /\
  registry_prematch ex_labelled (ex_guarded_cause None) = Ok false /\
  rids (get_handlers [] ex_labelled
     {| c_class := CChanging; c_resource := ex_resource;
        c_body := JObj [("metadata", JObj [("labels", JObj [("l1", JStr "v")])])];
        c_old := None; c_new := Some (JObj []); c_reason := RCreate; c_initial := false |}) = Ok ["c"].
Proof. repeat split; reflexivity. Qed.

(* malformed metadata: the exception is visible, in Python's order of evaluation *)
Lemma ex_errors :
  let bad := {| c_class := CWatching; c_resource := ex_resource; c_body := JObj [("metadata", JObj [("labels", JNull)])];
                c_old := None; c_new := None; c_reason := RNoop; c_initial := false |} in
  matches (decorate DEvent "e" 0 ex_sel [("l1", CPresent)] [] None None CNone CNone CNone) bad = ErrType /\
  matches (decorate DEvent "e" 0 ex_sel [] [("a1", CPresent)] None None CNone CNone CNone) bad = Ok false /\
  matches (decorate DEvent "e" 0 {| s_group := None; s_version := None; s_name := SAny "other" |}
                    [("l1", CPresent)] [] None None CNone CNone CNone) bad = Ok false.
Proof. repeat split; reflexivity. Qed.

(* packaged for Props/C15.v *)
Lemma old_silent_cases : forall h c,
  (h_needs_change h = true -> old_silent h c) /\
  (is_changing c = false -> old_silent h c) /\
  ((forall p, h_field h = Some p -> resolve_opt (c_old c) p = resolve_opt (c_new c) p) -> old_silent h c) /\
  (c_old c = None -> match h_value h with CAbsent | CCb _ => False | _ => True end -> old_silent h c).
Proof.
  intros h c. split; [exact (old_silent_update h c)|]. split; [exact (old_silent_static h c)|].
  split; [exact (old_silent_unchanged h c) | exact (old_silent_create h c)].
Qed.

Lemma match_total_both : forall h c, body_ok c ->
  matches h c = Ok (matches_b h c) /\ prematches h c = Ok (prematches_b h c).
Proof. intros h c H; split; [exact (matches_total h c H) | exact (prematches_total h c H)]. Qed.

(* ---------------------------------------------------------------------------------------- *)
(* 13. de-duplication is about ANY position, not about neighbours                            *)
(* ---------------------------------------------------------------------------------------- *)
Inductive subseq {A} : list A -> list A -> Prop :=
| sub_nil : subseq [] []
| sub_skip : forall x l m, subseq l m -> subseq l (x :: m)
| sub_keep : forall x l m, subseq l m -> subseq (x :: l) (x :: m).

Lemma dedup_from_subseq : forall hs seen, subseq (dedup_from seen hs) hs.
Proof.
  induction hs as [|x hs IH]; intros seen; cbn; [constructor|].
  destruct (existsb (hkey_eqb (hkey_of x)) seen); [apply sub_skip | apply sub_keep]; apply IH.
Qed.

(* every survivor sits at the first position of its key *)
Lemma dedup_from_is_first : forall hs seen h,
  In h (dedup_from seen hs) ->
  exists pre post, hs = pre ++ h :: post /\ ~ In (hkey_of h) (map hkey_of pre) /\ ~ In (hkey_of h) seen.
Proof.
  induction hs as [|x hs IH]; intros seen h H; cbn in H; [contradiction|].
  destruct (existsb (hkey_eqb (hkey_of x)) seen) eqn:E.
  - destruct (IH _ _ H) as (pre & post & -> & Hp & Hs).
    exists (x :: pre), post. split; [reflexivity|]. split; [|assumption].
    cbn. intros [Heq|Hin]; [|contradiction]. apply Hs. rewrite <- Heq. now apply seen_in.
  - destruct H as [<-|H].
    + exists [], hs. split; [reflexivity|]. split; [intros []|]. intro Hin. apply seen_in in Hin. congruence.
    + destruct (IH _ _ H) as (pre & post & -> & Hp & Hs).
      exists (x :: pre), post. split; [reflexivity|]. split.
      * cbn. intros [Heq|Hin]; [|contradiction]. apply Hs. now left.
      * intro Hin. apply Hs. now right.
Qed.

Definition occurrences (k : hkey) (l : list hdecl) : nat :=
  List.length (filter (fun h => hkey_eqb (hkey_of h) k) l).

Lemma occurrences_nodup : forall l k,
  NoDup (map hkey_of l) -> In k (map hkey_of l) -> occurrences k l = 1%nat.
Proof.
  unfold occurrences. induction l as [|x l IH]; intros k Hnd Hin; cbn in *; [contradiction|].
  inversion Hnd as [|? ? Hnotin Hnd']; subst.
  destruct (hkey_eqb (hkey_of x) k) eqn:E.
  - apply hkey_eqb_eq in E. subst k. cbn. f_equal.
    assert (Hnone : forall m, ~ In (hkey_of x) (map hkey_of m) ->
                              filter (fun h => hkey_eqb (hkey_of h) (hkey_of x)) m = []).
    { induction m as [|y m IHm]; intro Hm; cbn; [reflexivity|].
      destruct (hkey_eqb (hkey_of y) (hkey_of x)) eqn:E2.
      - apply hkey_eqb_eq in E2. exfalso. apply Hm. left. assumption.
      - apply IHm. intro Hin'. apply Hm. now right. }
    rewrite (Hnone l Hnotin). reflexivity.
  - destruct Hin as [Heq|Hin].
    + subst k. assert (hkey_eqb (hkey_of x) (hkey_of x) = true) by now apply hkey_eqb_eq. congruence.
    + apply IH; assumption.
Qed.

(* wherever and however often a (function, id) pair is registered: exactly one entry, the one at its first position,
   in the order of registration *)
Theorem dedup_any_position : forall l,
  subseq (deduplicated l) l /\
  (forall h, In h (deduplicated l) <->
             exists pre post, l = pre ++ h :: post /\ ~ In (hkey_of h) (map hkey_of pre)) /\
  (forall h, In h l -> occurrences (hkey_of h) (deduplicated l) = 1%nat).
Proof.
  intro l. destruct (dedup_spec l) as (Hnd & Hin & Hkeys & _ & Hfirst).
  split; [apply dedup_from_subseq|]. split.
  - intro h. split.
    + intro H. destruct (dedup_from_is_first l [] h H) as (pre & post & E & Hp & _). eauto.
    + intros (pre & post & E & Hp). eapply Hfirst; eauto.
  - intros h H. apply occurrences_nodup; [assumption|]. apply Hkeys. now apply in_map.
Qed.

(* non-adjacent repetitions: [A; B; A], [A; B; A; B], [A; B; C; A] with update + resume registrations of one function *)
Definition ex_A (k : dkind) : hdecl := decorate k "a" 0 ex_sel [] [] None None CNone CNone CNone.
Definition ex_B (k : dkind) : hdecl := decorate k "b" 1 ex_sel [] [] None None CNone CNone CNone.
Definition ex_downtime_update : cause :=
  {| c_class := CChanging; c_resource := ex_resource; c_body := ex_body (Some (JNum 2));
     c_old := Some (ex_spec (Some (JNum 1))); c_new := Some (ex_spec (Some (JNum 2))); c_reason := RUpdate; c_initial := true |}.
Lemma ex_dedup_nonadjacent :
  rids (get_handlers [] [ex_A DUpdate; ex_B DUpdate; ex_A (DResume false)] ex_downtime_update) = Ok ["a"; "b"] /\
  rids (get_handlers [] [ex_A DUpdate; ex_B DUpdate; ex_A (DResume false); ex_B (DResume false)] ex_downtime_update) = Ok ["a"; "b"] /\
  rids (get_handlers [] [ex_A DUpdate; ex_B DUpdate; ex_B DField; ex_A DUpdate; ex_A (DResume false)] ex_downtime_update) = Ok ["a"; "b"] /\
  (* same id, another function: both stay *)
  rids (get_handlers [] [ex_A DUpdate; decorate DUpdate "a" 1 ex_sel [] [] None None CNone CNone CNone; ex_A (DResume false)]
                     ex_downtime_update) = Ok ["a"; "a"].
Proof. repeat split; reflexivity. Qed.

(* ---------------------------------------------------------------------------------------- *)
(* 14. sub-handlers: the row of the decorator table                                           *)
(* ---------------------------------------------------------------------------------------- *)
Theorem subhandler_inherits : forall parent id fn labels annotations when field value old new,
  let s := sub_decorate parent id fn labels annotations when field value old new in
  (* inherited from the parent: only field_needs_change (and the id prefix) *)
  h_needs_change s = h_needs_change parent /\ h_id s = (h_id parent ++ "/" ++ id)%string /\
  (* fixed: a ChangingHandler for any cause kind, not initial, no finaliser, no selector *)
  h_class s = HChanging /\ h_selector s = None /\ h_reason s = None /\ h_initial s = false /\
  h_deleted s = false /\ h_requires_finalizer s = false /\
  (* from the arguments, unchanged *)
  h_fn s = fn /\ h_labels s = labels /\ h_annotations s = annotations /\ h_when s = when /\
  h_field s = field /\ h_value s = value /\ h_old s = old /\ h_new s = new /\
  (* hence: under a parent reacting to changes, on a changing cause, the sub-handler is an update handler as well ... *)
  (forall c, updating s c <-> (is_changing c = true /\ h_needs_change parent = true)) /\
  (* ... and it is selected for every cause kind (the parent has been selected already) *)
  (forall c, cause_gate s c = Ok true).
Proof.
  intros. subst s. unfold sub_decorate, updating, cause_gate; cbn.
  repeat (split; [reflexivity|]). split.
  - intro c. tauto.
  - intro c. destruct (c_class c); reflexivity.
Qed.

(* under a parent made by a top-level decorator, whenever the real decorator accepts the arguments (no TypeError / ValueError):
   the record satisfies wf_decl, so C15_match_iff_spec_partial / C15_update_field_semantics / ... apply to it as to any handler *)
Theorem subhandler_wf : forall k pid pfn sel pl pa pw pf pv po pn id fn labels annotations when field value old new,
  let parent := decorate k pid pfn sel pl pa pw pf pv po pn in
  sub_allowed parent old new = true ->
  Forall (fun kv => crit_specified (snd kv)) labels -> Forall (fun kv => crit_specified (snd kv)) annotations ->
  wf_decl (sub_decorate parent id fn labels annotations when field value old new).
Proof.
  intros k pid pfn sel pl pa pw pf pv po pn id fn labels annotations when field value old new parent Ha Hl Hn.
  constructor; [exact Hl | exact Hn |].
  cbn. intro Hnc. unfold sub_allowed in Ha.
  destruct old, new; try (split; reflexivity); exfalso;
    destruct k; cbn in Ha, Hnc; try discriminate.
Qed.

(* the three situations for a sub-handler with field= under an @on.update parent: changed / unchanged field; and under @on.create *)
Definition ex_sub (k : dkind) (v o n : crit) : hdecl :=
  sub_decorate (decorate k "p" 0 ex_sel [] [] None None CNone CNone CNone) "s" 1 [] [] None (Some ["spec"; "f"]) v o n.
Lemma ex_subhandler :
  matches (ex_sub DUpdate CNone CNone CNone) (ex_upd (Some (JNum 1)) (Some (JNum 2)) 0) = Ok true /\
  matches (ex_sub DUpdate CNone CNone CNone) (ex_upd (Some (JNum 1)) (Some (JNum 1)) 5) = Ok false /\
  matches (ex_sub DUpdate (CVal (JNum 1)) CNone CNone) (ex_upd (Some (JNum 1)) (Some (JNum 1)) 5) = Ok false /\
  matches (ex_sub DField CNone CNone (CVal (JNum 2))) (ex_upd (Some (JNum 1)) (Some (JNum 2)) 0) = Ok true /\
  matches (ex_sub DCreate CNone CNone CNone) (ex_changing RCreate None (Some (JNum 1))) = Ok true /\
  h_id (ex_sub DUpdate CNone CNone CNone) = "p/s" /\
  sub_allowed (decorate DCreate "p" 0 ex_sel [] [] None None CNone CNone CNone) CNone CPresent = false /\
  sub_allowed (decorate DEvent "p" 0 ex_sel [] [] None None CNone CNone CNone) CNone CNone = false.
Proof. repeat split; reflexivity. Qed.
