(* C19 — lemmas about Model/Ensemble.v (orchestration.adjust_tasks as set algebra). *)
From Coq Require Import ZArith List String Bool Lia.
From KV Require Import Model.Ensemble.
Import ListNotations.
Open Scope Z_scope.

(* ---------- decidable equalities ---------- *)

Lemma res_eqb_eq : forall a b, res_eqb a b = true <-> a = b.
Proof.
  intros [ia na] [ib nb]; unfold res_eqb; cbn. rewrite andb_true_iff, Z.eqb_eq, eqb_true_iff.
  split; [intros [-> ->]; reflexivity | intros H; injection H as -> ->; split; reflexivity].
Qed.

Lemma ns_eqb_eq : forall a b, ns_eqb a b = true <-> a = b.
Proof.
  intros [x|] [y|]; cbn; try (split; congruence).
  rewrite String.eqb_eq. split; congruence.
Qed.

Lemma key_eqb_eq : forall a b, key_eqb a b = true <-> a = b.
Proof.
  intros [ra na] [rb nb]; unfold key_eqb; cbn. rewrite andb_true_iff, res_eqb_eq, ns_eqb_eq.
  split; [intros [-> ->]; reflexivity | intros H; injection H as -> ->; split; reflexivity].
Qed.

Lemma key_eqb_refl : forall k, key_eqb k k = true.
Proof. intros k; apply key_eqb_eq; reflexivity. Qed.

Lemma mem_key_In : forall k l, mem_key k l = true <-> In k l.
Proof.
  intros k l; unfold mem_key; rewrite existsb_exists. split.
  - intros [x [Hx He]]. apply key_eqb_eq in He. subst; assumption.
  - intros H; exists k; split; [assumption | apply key_eqb_refl].
Qed.

Lemma mem_key_false : forall k l, mem_key k l = false <-> ~ In k l.
Proof.
  intros k l. rewrite <- mem_key_In. destruct (mem_key k l); split; congruence.
Qed.

Lemma mem_res_In : forall r l, mem_res r l = true <-> In r l.
Proof.
  intros r l; unfold mem_res; rewrite existsb_exists. split.
  - intros [x [Hx He]]. apply res_eqb_eq in He. subst; assumption.
  - intros H; exists r; split; [assumption | apply res_eqb_eq; reflexivity].
Qed.

Lemma mem_ns_In : forall n l, mem_ns n l = true <-> In n l.
Proof.
  intros n l; unfold mem_ns; rewrite existsb_exists. split.
  - intros [x [Hx He]]. apply ns_eqb_eq in He. subst; assumption.
  - intros H; exists n; split; [assumption | apply ns_eqb_eq; reflexivity].
Qed.

(* ---------- add_key / fold ---------- *)

Lemma add_key_In : forall acc k x, In x (add_key acc k) <-> In x acc \/ x = k.
Proof.
  intros acc k x; unfold add_key. destruct (mem_key k acc) eqn:E.
  - apply mem_key_In in E. split; [tauto | intros [H | ->]; assumption].
  - cbn. split; [intros [<- | H]; tauto | intros [H | ->]; tauto].
Qed.

Lemma add_key_NoDup : forall acc k, NoDup acc -> NoDup (add_key acc k).
Proof.
  intros acc k H; unfold add_key. destruct (mem_key k acc) eqn:E; [assumption |].
  constructor; [apply mem_key_false; assumption | assumption].
Qed.

Lemma fold_add_In : forall ks acc x, In x (fold_left add_key ks acc) <-> In x acc \/ In x ks.
Proof.
  induction ks as [| k ks IH]; intros acc x; cbn.
  - tauto.
  - rewrite IH, add_key_In. split; intros H; intuition (subst; auto).
Qed.

Lemma fold_add_NoDup : forall ks acc, NoDup acc -> NoDup (fold_left add_key ks acc).
Proof.
  induction ks as [| k ks IH]; intros acc H; cbn; [assumption |].
  apply IH, add_key_NoDup, H.
Qed.

Lemma fold_add_id : forall ks acc, (forall k, In k ks -> In k acc) -> fold_left add_key ks acc = acc.
Proof.
  induction ks as [| k ks IH]; intros acc H; cbn; [reflexivity |].
  unfold add_key at 2. assert (E : mem_key k acc = true) by (apply mem_key_In, H; left; reflexivity).
  rewrite E. apply IH. intros x Hx; apply H; right; assumption.
Qed.

Lemma filter_id : forall (A : Type) (f : A -> bool) l, (forall x, In x l -> f x = true) -> filter f l = l.
Proof.
  intros A f; induction l as [| a l IH]; intros H; cbn; [reflexivity |].
  rewrite (H a (or_introl eq_refl)). f_equal. apply IH. intros x Hx; apply H; right; assumption.
Qed.

(* ---------- served / wanted ---------- *)

Lemma wanted_In : forall rs nss k, In k (wanted rs nss) <-> exists r n, In r rs /\ In n nss /\ k = mkkey (r, n).
Proof.
  intros rs nss k; unfold wanted. rewrite in_map_iff. split.
  - intros [[r n] [E H]]. apply in_prod_iff in H. exists r, n. intuition.
  - intros [r [n [Hr [Hn E]]]]. exists (r, n). split; [symmetry; assumption | apply in_prod_iff; tauto].
Qed.

Definition key_wf (k : key) : Prop := rns (fst k) = false -> snd k = None.

Lemma mkkey_wf : forall p, key_wf (mkkey p).
Proof. intros [r n]; unfold key_wf, mkkey; cbn. intros ->; reflexivity. Qed.

Lemma wanted_not_redundant_w : forall i k, In k (wanted (watched i) (namespaces i)) -> redundant i k = false.
Proof.
  intros i k H. apply wanted_In in H. destruct H as [r [n [Hr [Hn ->]]]].
  unfold redundant, mkkey; cbn [fst snd].
  assert (E1 : mem_res r (watched i ++ peering i) = true) by (apply mem_res_In, in_or_app; left; assumption).
  rewrite E1. destruct (rns r).
  - assert (E2 : mem_ns n (None :: namespaces i) = true) by (apply mem_ns_In; right; assumption).
    rewrite E2; reflexivity.
  - reflexivity.
Qed.

Lemma wanted_not_redundant_p : forall i k, In k (wanted (peering i) (namespaces i)) -> redundant i k = false.
Proof.
  intros i k H. apply wanted_In in H. destruct H as [r [n [Hr [Hn ->]]]].
  unfold redundant, mkkey; cbn [fst snd].
  assert (E1 : mem_res r (watched i ++ peering i) = true) by (apply mem_res_In, in_or_app; right; assumption).
  rewrite E1. destruct (rns r).
  - assert (E2 : mem_ns n (None :: namespaces i) = true) by (apply mem_ns_In; right; assumption).
    rewrite E2; reflexivity.
  - reflexivity.
Qed.

(* ---------- the peering spawn does not touch the watchers ---------- *)

Lemma spawn_peering_step_watchers : forall e k, watchers (spawn_peering_step e k) = watchers e.
Proof. intros e k; unfold spawn_peering_step. destruct (mem_key k (peerings e)); reflexivity. Qed.

Lemma fold_spawn_peering_watchers : forall ks e, watchers (fold_left spawn_peering_step ks e) = watchers e.
Proof.
  induction ks as [| k ks IH]; intros e; cbn; [reflexivity |].
  rewrite IH. apply spawn_peering_step_watchers.
Qed.

Lemma adjust_watchers : forall i e,
  watchers (adjust i e) = fold_left add_key (served i) (keep i (watchers e)).
Proof.
  intros i e; unfold adjust, spawn_watchers, spawn_peerings, served; cbn [watchers].
  rewrite fold_spawn_peering_watchers. reflexivity.
Qed.

Lemma keep_In : forall i l k, In k (keep i l) <-> In k l /\ redundant i k = false.
Proof.
  intros i l k; unfold keep. rewrite filter_In, negb_true_iff. tauto.
Qed.

(* the exact characterisation of the watcher keys after one adjustment *)
Lemma adjust_watchers_iff : forall i e k,
  In k (watchers (adjust i e)) <-> In k (served i) \/ (In k (watchers e) /\ redundant i k = false).
Proof.
  intros i e k. rewrite adjust_watchers, fold_add_In, keep_In. tauto.
Qed.

(* every served pair has a watcher: unconditional *)
Lemma adjust_covers : forall i e k, In k (served i) -> In k (watchers (adjust i e)).
Proof. intros i e k H; apply adjust_watchers_iff; left; assumption. Qed.

(* one task per key: the key list stays duplicate-free *)
Lemma keep_NoDup : forall i l, NoDup l -> NoDup (keep i l).
Proof. intros i l H; unfold keep; apply NoDup_filter, H. Qed.

Lemma adjust_NoDup : forall i e, NoDup (watchers e) -> NoDup (watchers (adjust i e)).
Proof. intros i e H. rewrite adjust_watchers. apply fold_add_NoDup, keep_NoDup, H. Qed.

Lemma run_adjust_from_NoDup : forall hs e, NoDup (watchers e) ->
  NoDup (watchers (fold_left (fun e i => adjust i e) hs e)).
Proof.
  induction hs as [| i hs IH]; intros e H; cbn; [assumption |]. apply IH, adjust_NoDup, H.
Qed.

Lemma run_adjust_NoDup : forall hs, NoDup (watchers (run_adjust hs)).
Proof. intros hs; unfold run_adjust. apply run_adjust_from_NoDup. cbn. constructor. Qed.

(* cluster-scoped kinds are only ever keyed with namespace None *)
Definition ens_wf (e : ens) : Prop := forall k, In k (watchers e) -> key_wf k.

Lemma adjust_wf : forall i e, ens_wf e -> ens_wf (adjust i e).
Proof.
  intros i e H k Hk. apply adjust_watchers_iff in Hk. destruct Hk as [Hk | [Hk _]].
  - unfold served in Hk. apply wanted_In in Hk. destruct Hk as [r [n [_ [_ ->]]]]. apply mkkey_wf.
  - apply H, Hk.
Qed.

Lemma run_adjust_from_wf : forall hs e, ens_wf e -> ens_wf (fold_left (fun e i => adjust i e) hs e).
Proof.
  induction hs as [| i hs IH]; intros e H; cbn; [assumption |]. apply IH, adjust_wf, H.
Qed.

Lemma run_adjust_wf : forall hs, ens_wf (run_adjust hs).
Proof. intros hs; unfold run_adjust. apply run_adjust_from_wf. intros k []. Qed.

(* ---------- exactly the served pairs, under the three guards ---------- *)

(* G1: some namespace is served, or no cluster-scoped kind has a watcher yet                 (O2)
   G2: cluster-wide serving is still on, or no namespaced kind is watched cluster-wide       (O2b)
   G3: every peering resource is itself watched, or has no watcher                          (P)  *)
Definition guard1 (i : insights) (e : ens) : Prop :=
  namespaces i <> [] \/ (forall k, In k (watchers e) -> rns (fst k) = true).
Definition guard2 (i : insights) (e : ens) : Prop :=
  In None (namespaces i) \/ (forall k, In k (watchers e) -> rns (fst k) = true -> snd k <> None).
Definition guard3 (i : insights) (e : ens) : Prop :=
  forall r, In r (peering i) -> In r (watched i) \/ (forall k, In k (watchers e) -> fst k <> r).

Lemma adjust_exact : forall i e, ens_wf e -> guard1 i e -> guard2 i e -> guard3 i e ->
  forall k, In k (watchers (adjust i e)) <-> In k (served i).
Proof.
  intros i e Hwf G1 G2 G3 k. split; [| apply adjust_covers].
  intros H. apply adjust_watchers_iff in H. destruct H as [H | [Hk Hr]]; [assumption |].
  destruct k as [r ns]. unfold redundant in Hr; cbn [fst snd] in Hr.
  apply orb_false_iff in Hr. destruct Hr as [Hn Hres].
  apply negb_false_iff in Hn. apply negb_false_iff in Hres.
  apply mem_ns_In in Hn. apply mem_res_In in Hres. apply in_app_or in Hres.
  assert (Hw : In r (watched i)).
  { destruct Hres as [Hw | Hp]; [assumption |].
    destruct (G3 r Hp) as [Hw | Hno]; [assumption |]. exfalso. apply (Hno (r, ns) Hk). reflexivity. }
  unfold served. apply wanted_In.
  destruct (rns r) eqn:Er.
  - (* namespaced kind *)
    destruct ns as [s |].
    + exists r, (Some s). split; [assumption |]. split.
      * destruct Hn as [Hn | Hn]; [discriminate | assumption].
      * unfold mkkey; cbn. rewrite Er; reflexivity.
    + destruct G2 as [HN | Hno].
      * exists r, None. split; [assumption |]. split; [assumption |]. unfold mkkey; cbn. rewrite Er; reflexivity.
      * exfalso. apply (Hno (r, None) Hk Er). reflexivity.
  - (* cluster-scoped kind: keyed with None *)
    assert (ns = None) by (apply (Hwf (r, ns) Hk); assumption). subst ns.
    destruct G1 as [Hne | Hall].
    + destruct (namespaces i) as [| n nss] eqn:En; [congruence |].
      exists r, n. split; [assumption |]. split; [left; reflexivity |]. unfold mkkey; cbn. rewrite Er; reflexivity.
    + specialize (Hall (r, None) Hk). cbn in Hall. congruence.
Qed.

(* for every history of insights *)
Lemma history_exact : forall hs i,
  let e := run_adjust hs in
  guard1 i e -> guard2 i e -> guard3 i e ->
  forall k, In k (watchers (run_adjust (hs ++ [i]))) <-> In k (served i).
Proof.
  intros hs i e G1 G2 G3 k. unfold run_adjust. rewrite fold_left_app. cbn.
  apply adjust_exact; try assumption. apply run_adjust_wf.
Qed.

(* ---------- the corners, as witnesses on the faithful model ---------- *)

Definition r_cluster : res := {| rid := 1; rns := false |}.
Definition r_spaced : res := {| rid := 2; rns := true |}.
Definition r_peer : res := {| rid := 100; rns := false |}.

(* O2: a cluster-scoped kind's watcher survives the loss of the last namespace, although it would
   not be started in that situation *)
Lemma cluster_scoped_corner :
  let i1 := {| watched := [r_cluster]; namespaces := [Some "ns1"%string]; peering := [] |} in
  let i2 := {| watched := [r_cluster]; namespaces := []; peering := [] |} in
  served i2 = [] /\ watchers (adjust i2 ens0) = [] /\
  watchers (run_adjust [i1; i2]) = [(r_cluster, None)].
Proof. vm_compute. repeat split; reflexivity. Qed.

Lemma exactness_refuted :
  exists hs i k, In k (watchers (run_adjust (hs ++ [i]))) /\ ~ In k (served i).
Proof.
  exists [{| watched := [r_cluster]; namespaces := [Some "ns1"%string]; peering := [] |}],
         {| watched := [r_cluster]; namespaces := []; peering := [] |}, (r_cluster, None).
  split; [vm_compute; left; reflexivity | vm_compute; tauto].
Qed.

(* O2b: same for a namespaced kind watched cluster-wide when None leaves the namespaces
   (kopf never makes that switch in one process: clusterwide is fixed at start) *)
Lemma clusterwide_switch_corner :
  let i1 := {| watched := [r_spaced]; namespaces := [None]; peering := [] |} in
  let i2 := {| watched := [r_spaced]; namespaces := [Some "ns1"%string]; peering := [] |} in
  keys_same (watchers (run_adjust [i1; i2])) [(r_spaced, None); (r_spaced, Some "ns1"%string)] = true /\
  served i2 = [(r_spaced, Some "ns1"%string)].
Proof. vm_compute. split; reflexivity. Qed.

(* P: a peering resource that stops being watched keeps its watcher *)
Lemma peering_corner :
  let i1 := {| watched := [r_peer]; namespaces := [None]; peering := [r_peer] |} in
  let i2 := {| watched := []; namespaces := [None]; peering := [r_peer] |} in
  watchers (run_adjust [i1; i2]) = [(r_peer, None)] /\ served i2 = [].
Proof. vm_compute. split; reflexivity. Qed.

(* the guards are satisfiable together with a non-trivial change (non-vacuity) *)
Lemma guards_example :
  let i1 := {| watched := [r_cluster; r_spaced]; namespaces := [Some "ns1"; Some "ns2"]%string; peering := [] |} in
  let i2 := {| watched := [r_spaced]; namespaces := [Some "ns2"%string]; peering := [] |} in
  let e := run_adjust [i1] in
  guard1 i2 e /\ guard2 i2 e /\ guard3 i2 e /\
  keys_same (watchers e) [(r_cluster, None); (r_spaced, Some "ns1"); (r_spaced, Some "ns2")]%string = true /\
  watchers (run_adjust [i1; i2]) = [(r_spaced, Some "ns2"%string)].
Proof.
  cbv zeta. split; [left; discriminate |]. split.
  - right. vm_compute. intros k [<- | [<- | [<- | []]]]; cbn; congruence.
  - split; [intros r [] |]. vm_compute. split; reflexivity.
Qed.

(* ---------- idempotence: a second adjustment with the same insights changes nothing ---------- *)

Lemma step_peerings_In : forall e k x,
  In x (peerings (spawn_peering_step e k)) <-> In x (peerings e) \/ x = k.
Proof.
  intros e k x; unfold spawn_peering_step. destruct (mem_key k (peerings e)) eqn:E; cbn.
  - apply mem_key_In in E. split; [tauto | intros [H | ->]; assumption].
  - split; [intros [<- | H]; tauto | intros [H | ->]; tauto].
Qed.

Lemma fold_step_peerings_In : forall ks e x,
  In x (peerings (fold_left spawn_peering_step ks e)) <-> In x (peerings e) \/ In x ks.
Proof.
  induction ks as [| k ks IH]; intros e x; cbn; [tauto |].
  rewrite IH, step_peerings_In. split; intros H; intuition (subst; auto).
Qed.

Lemma step_pingers_In : forall e k x,
  In x (pingers (spawn_peering_step e k)) -> In x (pingers e) \/ x = k.
Proof.
  intros e k x; unfold spawn_peering_step. destruct (mem_key k (peerings e)); cbn; [tauto |].
  intros H; apply add_key_In in H; assumption.
Qed.

Lemma fold_step_pingers_In : forall ks e x,
  In x (pingers (fold_left spawn_peering_step ks e)) -> In x (pingers e) \/ In x ks.
Proof.
  induction ks as [| k ks IH]; intros e x; cbn; [tauto |].
  intros H. apply IH in H. destruct H as [H | H]; [| tauto].
  apply step_pingers_In in H. intuition.
Qed.

Lemma step_conflicts_In : forall e k x,
  In x (conflicts (spawn_peering_step e k)) -> In x (conflicts e) \/ x = k.
Proof.
  intros e k x; unfold spawn_peering_step. destruct (mem_key k (peerings e)); cbn; [tauto |].
  intros H; apply add_key_In in H; assumption.
Qed.

Lemma fold_step_conflicts_In : forall ks e x,
  In x (conflicts (fold_left spawn_peering_step ks e)) -> In x (conflicts e) \/ In x ks.
Proof.
  induction ks as [| k ks IH]; intros e x; cbn; [tauto |].
  intros H. apply IH in H. destruct H as [H | H]; [| tauto].
  apply step_conflicts_In in H. intuition.
Qed.

Lemma fold_step_id : forall ks e, (forall k, In k ks -> In k (peerings e)) -> fold_left spawn_peering_step ks e = e.
Proof.
  induction ks as [| k ks IH]; intros e H; cbn; [reflexivity |].
  assert (E : spawn_peering_step e k = e).
  { unfold spawn_peering_step. assert (M : mem_key k (peerings e) = true) by (apply mem_key_In, H; left; reflexivity).
    rewrite M; reflexivity. }
  rewrite E. apply IH. intros x Hx; apply H; right; assumption.
Qed.

Lemma spawn_watchers_others : forall i e,
  peerings (spawn_watchers i e) = peerings e /\ pingers (spawn_watchers i e) = pingers e /\
  conflicts (spawn_watchers i e) = conflicts e.
Proof. intros; cbn; auto. Qed.

Lemma ens_eq : forall a b, watchers a = watchers b -> peerings a = peerings b -> pingers a = pingers b ->
  conflicts a = conflicts b -> a = b.
Proof. intros [] []; cbn; intros; subst; reflexivity. Qed.

Lemma adjust_idempotent : forall i e, adjust i (adjust i e) = adjust i e.
Proof.
  intros i e. set (e1 := adjust i e).
  (* nothing of e1 is redundant *)
  assert (Hw : forall k, In k (watchers e1) -> redundant i k = false).
  { intros k Hk. apply adjust_watchers_iff in Hk. destruct Hk as [Hk | [_ Hk]]; [| assumption].
    apply wanted_not_redundant_w, Hk. }
  assert (Hp : forall k, In k (peerings e1) -> redundant i k = false).
  { intros k Hk. unfold e1, adjust, spawn_watchers, spawn_peerings in Hk; cbn [peerings] in Hk.
    apply fold_step_peerings_In in Hk. destruct Hk as [Hk | Hk].
    - cbn in Hk. apply keep_In in Hk. apply Hk.
    - apply wanted_not_redundant_p, Hk. }
  assert (Hg : forall k, In k (pingers e1) -> redundant i k = false).
  { intros k Hk. unfold e1, adjust, spawn_watchers, spawn_peerings in Hk; cbn [pingers] in Hk.
    apply fold_step_pingers_In in Hk. destruct Hk as [Hk | Hk].
    - cbn in Hk. apply keep_In in Hk. apply Hk.
    - apply wanted_not_redundant_p, Hk. }
  assert (Hc : forall k, In k (conflicts e1) -> redundant i k = false).
  { intros k Hk. unfold e1, adjust, spawn_watchers, spawn_peerings in Hk; cbn [conflicts] in Hk.
    apply fold_step_conflicts_In in Hk. destruct Hk as [Hk | Hk].
    - cbn in Hk. apply keep_In in Hk. apply Hk.
    - apply wanted_not_redundant_p, Hk. }
  assert (Ht : terminate i e1 = e1).
  { apply ens_eq; cbn; unfold keep; apply filter_id; intros k Hk; apply negb_true_iff; auto. }
  assert (Hs : spawn_peerings i e1 = e1).
  { unfold spawn_peerings. apply fold_step_id. intros k Hk.
    unfold e1, adjust, spawn_watchers, spawn_peerings; cbn [peerings].
    apply fold_step_peerings_In. right; assumption. }
  unfold adjust at 1. fold e1. rewrite Ht, Hs.
  apply ens_eq; try reflexivity. cbn [watchers spawn_watchers].
  apply fold_add_id. intros k Hk. apply adjust_covers. exact Hk.
Qed.

(* ... hence nothing is stopped and nothing is started by it *)
Lemma adjust_again_quiet : forall i e,
  let e1 := adjust i e in
  stopped i (watchers e1) = [] /\ started (watchers (terminate i e1)) (watchers (adjust i e1)) = [].
Proof.
  intros i e e1. split.
  - unfold stopped. assert (H : forall k, In k (watchers e1) -> redundant i k = false).
    { intros k Hk. apply adjust_watchers_iff in Hk. destruct Hk as [Hk | [_ Hk]]; [| assumption].
      apply wanted_not_redundant_w, Hk. }
    induction (watchers e1) as [| a l IH]; cbn; [reflexivity |].
    rewrite (H a (or_introl eq_refl)). apply IH. intros k Hk; apply H; right; assumption.
  - unfold e1. rewrite adjust_idempotent.
    assert (Ht : watchers (terminate i (adjust i e)) = watchers (adjust i e)).
    { cbn. unfold keep. apply filter_id. intros k Hk. apply negb_true_iff.
      apply adjust_watchers_iff in Hk. destruct Hk as [Hk | [_ Hk]]; [| assumption].
      apply wanted_not_redundant_w, Hk. }
    rewrite Ht. unfold started.
    assert (G : forall l0 l1 : list key, (forall x, In x l1 -> In x l0) -> filter (fun k => negb (mem_key k l0)) l1 = []).
    { intros l0; induction l1 as [| b l1 IH1]; intros Hsub; cbn; [reflexivity |].
      assert (M : mem_key b l0 = true) by (apply mem_key_In, Hsub; left; reflexivity).
      rewrite M; cbn. apply IH1. intros x Hx; apply Hsub; right; assumption. }
    apply G. intros x Hx; assumption.
Qed.

(* ---------- revise_namespaces ---------- *)

Lemma revise_one_deleted : forall nss e, is_deleted e = true -> ne_blocked e = false ->
  ~ In (Some (ne_name e)) (revise_one nss e).
Proof.
  intros nss e Hd Hb; unfold revise_one. rewrite Hd, Hb; cbn.
  intros H. apply filter_In in H. destruct H as [_ H].
  assert (E : ns_eqb (Some (ne_name e)) (Some (ne_name e)) = true) by (apply ns_eqb_eq; reflexivity).
  rewrite E in H. discriminate.
Qed.

Lemma revise_one_matched : forall nss e, is_deleted e = false -> ne_matched e = true ->
  In (Some (ne_name e)) (revise_one nss e).
Proof.
  intros nss e Hd Hm; unfold revise_one. rewrite Hd, Hm; cbn.
  destruct (mem_ns (Some (ne_name e)) nss) eqn:E; [apply mem_ns_In; assumption | left; reflexivity].
Qed.

Lemma revise_one_others : forall nss e n, n <> Some (ne_name e) ->
  (In n (revise_one nss e) <-> In n nss).
Proof.
  intros nss e n Hn; unfold revise_one.
  destruct (is_deleted e && ne_blocked e); [tauto |].
  destruct (is_deleted e).
  - rewrite filter_In. split; [tauto |]. intros H; split; [assumption |].
    apply negb_true_iff. destruct (ns_eqb n (Some (ne_name e))) eqn:E; [| reflexivity].
    apply ns_eqb_eq in E. contradiction.
  - destruct (ne_matched e); [| tauto].
    destruct (mem_ns (Some (ne_name e)) nss); [tauto |]. cbn. split; [intros [H | H]; [congruence | assumption] | tauto].
Qed.

Lemma served_pairs_watched : forall hs i k,
  In k (served i) -> In k (watchers (run_adjust (hs ++ [i]))).
Proof.
  intros hs i k H. unfold run_adjust. rewrite fold_left_app. exact (adjust_covers i _ k H).
Qed.

Lemma namespace_insights : forall nss e,
  (is_deleted e = true -> ne_blocked e = false -> ~ In (Some (ne_name e)) (revise_one nss e)) /\
  (is_deleted e = false -> ne_matched e = true -> In (Some (ne_name e)) (revise_one nss e)) /\
  (forall n, n <> Some (ne_name e) -> (In n (revise_one nss e) <-> In n nss)).
Proof.
  intros nss e. exact (conj (revise_one_deleted nss e) (conj (revise_one_matched nss e) (revise_one_others nss e))).
Qed.

(* ---------- exactness from hypotheses on the INPUTS only (no reference to the ensemble's state) ---------- *)

(* every watcher key was a served pair of some insight of the history *)
Lemma watcher_origin : forall hs k, In k (watchers (run_adjust hs)) -> exists j, In j hs /\ In k (served j).
Proof.
  induction hs as [| i hs IH] using rev_ind; intros k Hk.
  - cbn in Hk. contradiction.
  - unfold run_adjust in Hk. rewrite fold_left_app in Hk. cbn in Hk.
    apply adjust_watchers_iff in Hk. destruct Hk as [Hk | [Hk _]].
    + exists i. split; [apply in_or_app; right; left; reflexivity | exact Hk].
    + destruct (IH k Hk) as [j [Hj Hs]]. exists j. split; [apply in_or_app; left; exact Hj | exact Hs].
Qed.

(* H1: some namespace is served now;
   H2: cluster-wide serving (None among the namespaces), once on, is still on
       (kopf: `clusterwide` is fixed for the life of the process);
   H3: a peering resource that was ever watched is still watched
       (kopf: nobody puts handlers on the peering CRD and later takes the CRD's kinds away one by one). *)
Lemma history_exact_inputs : forall hs i,
  namespaces i <> [] ->
  (forall j, In j hs -> In None (namespaces j) -> In None (namespaces i)) ->
  (forall j r, In j hs -> In r (peering i) -> In r (watched j) -> In r (watched i)) ->
  forall k, In k (watchers (run_adjust (hs ++ [i]))) <-> In k (served i).
Proof.
  intros hs i H1 H2 H3. apply history_exact.
  - left; exact H1.
  - destruct (mem_ns None (namespaces i)) eqn:E; [left; apply mem_ns_In; exact E |].
    right. intros k Hk Hr Hn. destruct (watcher_origin hs k Hk) as [j [Hj Hs]].
    unfold served in Hs. apply wanted_In in Hs. destruct Hs as [r [n [Hrw [Hnn ->]]]].
    unfold mkkey in Hr, Hn; cbn in Hr, Hn. rewrite Hr in Hn. subst n.
    assert (In None (namespaces i)) by (apply (H2 j Hj Hnn)).
    apply mem_ns_In in H. congruence.
  - intros r Hp. destruct (mem_res r (watched i)) eqn:E; [left; apply mem_res_In; exact E |].
    right. intros k Hk Hf. destruct (watcher_origin hs k Hk) as [j [Hj Hs]].
    unfold served in Hs. apply wanted_In in Hs. destruct Hs as [r' [n [Hrw [Hnn ->]]]].
    unfold mkkey in Hf; cbn in Hf. subst r'.
    assert (In r (watched i)) by (apply (H3 j r Hj Hp Hrw)).
    apply mem_res_In in H. congruence.
Qed.

Lemma history_inputs_example :
  let i1 := {| watched := [r_cluster; r_spaced]; namespaces := [Some "ns1"; Some "ns2"]%string; peering := [r_peer] |} in
  let i2 := {| watched := [r_cluster]; namespaces := [Some "ns2"; Some "ns3"]%string; peering := [r_peer] |} in
  namespaces i2 <> [] /\
  (forall j, In j [i1] -> In None (namespaces j) -> In None (namespaces i2)) /\
  (forall j r, In j [i1] -> In r (peering i2) -> In r (watched j) -> In r (watched i2)) /\
  watchers (run_adjust [i1; i2]) = [(r_cluster, None)] /\ served i2 = [(r_cluster, None); (r_cluster, None)].
Proof.
  cbv zeta. split; [discriminate |]. split.
  - intros j [<- | []] [H | [H | []]]; discriminate.
  - split.
    + intros j r [<- | []] [<- | []] [H | [H | []]]; discriminate.
    + vm_compute. split; reflexivity.
Qed.

(* ---------- observation._update_resources ---------- *)

Lemma gres_eqb_eq : forall a b, gres_eqb a b = true <-> a = b.
Proof.
  intros [ga ra] [gb rb]; unfold gres_eqb; cbn. rewrite andb_true_iff, String.eqb_eq, res_eqb_eq.
  split; [intros [-> ->]; reflexivity | intros H; injection H as -> ->; split; reflexivity].
Qed.

Lemma mem_gres_In : forall x l, mem_gres x l = true <-> In x l.
Proof.
  intros x l; unfold mem_gres; rewrite existsb_exists. split.
  - intros [y [Hy He]]. apply gres_eqb_eq in He. subst; assumption.
  - intros H; exists x; split; [assumption | apply gres_eqb_eq; reflexivity].
Qed.

(* after a (re)scan of group g: a kind is in the dimension iff the selectors select it from the fresh scan,
   or it belongs to another group and was there before — nothing else changes *)
Lemma update_resources_spec : forall g rs selected x,
  In x (update_resources g rs selected) <-> In x selected \/ (In x rs /\ in_group g x = false).
Proof.
  intros g rs selected x. unfold update_resources.
  assert (G : forall sel acc, In x (fold_left (fun acc x => if mem_gres x acc then acc else x :: acc) sel acc) <-> In x acc \/ In x sel).
  { induction sel as [| y sel IH]; intros acc; cbn; [tauto |]. rewrite IH.
    destruct (mem_gres y acc) eqn:E.
    - apply mem_gres_In in E. split; intros H; intuition (subst; auto).
    - cbn. split; intros H; intuition (subst; auto). }
  rewrite G, filter_In, negb_true_iff. tauto.
Qed.

(* a kind of the rescanned group that is no longer selected (its CRD is gone, or no longer matches) leaves *)
Lemma update_resources_gone : forall g rs selected x,
  in_group g x = true -> ~ In x selected -> ~ In x (update_resources g rs selected).
Proof.
  intros g rs selected x Hg Hn H. apply update_resources_spec in H. destruct H as [H | [_ H]]; [contradiction | congruence].
Qed.

(* ---------- observation._disable_unsuitable_resources (as repaired by 4448d18) ---------- *)

Lemma disable_unsuitable_spec : forall rs nowatch nopatch psel x,
  In x (disable_unsuitable rs nowatch nopatch psel) <->
  In x rs /\ ~ In x nowatch /\ ~ (In x nopatch /\ In x psel).
Proof.
  intros rs nw np ps x. unfold disable_unsuitable. rewrite filter_In, andb_true_iff, !negb_true_iff, andb_false_iff.
  split.
  - intros [Hr [Hw Hp]]. split; [exact Hr |]. split.
    + intros H. apply mem_gres_In in H. congruence.
    + intros [H1 H2]. apply mem_gres_In in H1. apply mem_gres_In in H2. destruct Hp; congruence.
  - intros [Hr [Hw Hp]]. split; [exact Hr |]. split.
    + destruct (mem_gres x nw) eqn:E; [apply mem_gres_In in E; contradiction | reflexivity].
    + destruct (mem_gres x np) eqn:E1; [| left; reflexivity]. destruct (mem_gres x ps) eqn:E2; [| right; reflexivity].
      exfalso. apply Hp. split; apply mem_gres_In; assumption.
Qed.

(* a read-only kind with only event / index handlers stays served whatever else the operator handles *)
Lemma readonly_stays_served : forall rs nowatch nopatch psel x,
  In x rs -> ~ In x nowatch -> ~ In x psel -> In x (disable_unsuitable rs nowatch nopatch psel).
Proof.
  intros rs nw np ps x Hr Hw Hs. apply disable_unsuitable_spec. split; [exact Hr |]. split; [exact Hw |]. intros [_ H]; exact (Hs H).
Qed.

(* a listable/watchable kind without `patch` is dropped iff a state-storing handler selects THAT kind *)
Lemma readonly_dropped_iff : forall rs nowatch nopatch psel x,
  In x rs -> ~ In x nowatch -> In x nopatch ->
  (~ In x (disable_unsuitable rs nowatch nopatch psel) <-> In x psel).
Proof.
  intros rs nw np ps x Hr Hw Hp. rewrite disable_unsuitable_spec. split.
  - intros H. destruct (mem_gres x ps) eqn:E; [apply mem_gres_In; exact E |].
    exfalso. apply H. split; [exact Hr |]. split; [exact Hw |]. intros [_ H2]. apply mem_gres_In in H2. congruence.
  - intros Hs [_ [_ H]]. apply H. split; assumption.
Qed.

(* nothing is ever added, and a resource with all three verbs always stays *)
Lemma disable_unsuitable_frame : forall rs nowatch nopatch psel x,
  (In x (disable_unsuitable rs nowatch nopatch psel) -> In x rs) /\
  (In x rs -> ~ In x nowatch -> ~ In x nopatch -> In x (disable_unsuitable rs nowatch nopatch psel)).
Proof.
  intros rs nw np ps x. split.
  - intros H. apply disable_unsuitable_spec in H. apply H.
  - intros Hr Hw Hp. apply disable_unsuitable_spec. split; [exact Hr |]. split; [exact Hw |]. intros [H _]; exact (Hp H).
Qed.

(* regression example of finding F1902 (fixed by 4448d18): two read-only kinds, x with event handlers only, y with a
   state-storing handler: only y is dropped (before the fix both were: the result was []) *)
Lemma readonly_regression :
  let x := ("a.dev"%string, r_cluster) in let y := ("a.dev"%string, r_spaced) in
  disable_unsuitable [x; y] [] [x; y] [y] = [x] /\ disable_unsuitable [x; y] [] [x] [y] = [x; y].
Proof. vm_compute. split; reflexivity. Qed.

Lemma readonly_hypotheses :
  let x := ("a.dev"%string, r_cluster) in let y := ("a.dev"%string, r_spaced) in
  In x [x; y] /\ ~ In x [] /\ In x [x; y] /\ ~ In x [y] /\ In y [y] /\
  disable_unsuitable [x; y] [] [x; y] [y] = [x].
Proof.
  cbv zeta. split; [left; reflexivity |]. split; [tauto |]. split; [left; reflexivity |]. split.
  - intros [H | []]. discriminate.
  - split; [left; reflexivity | vm_compute; reflexivity].
Qed.
