(* C14 — lemmas about Model/Resume.v.  Generic in the key type of the memories: any key type with a
   correct boolean equality (uid strings in particular). *)
From Coq Require Import ZArith List String Bool Arith Lia.
From KV Require Import Base.Json Base.Dicts Model.Resume.
Import ListNotations.
Open Scope list_scope.

Section ResumeProofs.
  Context {K : Type}.
  Variable keqb : K -> K -> bool.
  Hypothesis keqb_spec : forall a b, keqb a b = true <-> a = b.

  Lemma keqb_refl : forall a, keqb a a = true.
  Proof. intro a. apply keqb_spec. reflexivity. Qed.

  Lemma keqb_false : forall a b, keqb a b = false <-> a <> b.
  Proof.
    intros a b. split.
    - intros H E. apply keqb_spec in E. congruence.
    - intro H. destruct (keqb a b) eqn:E; [apply keqb_spec in E; contradiction | reflexivity].
  Qed.

  Lemma keqb_sym : forall a b, keqb a b = keqb b a.
  Proof.
    intros a b. destruct (keqb a b) eqn:E.
    - apply keqb_spec in E. subst. symmetry. apply keqb_refl.
    - symmetry. apply keqb_false. apply keqb_false in E. congruence.
  Qed.

  Notation find := (rs_find keqb).
  Notation set := (rs_set keqb).
  Notation del := (rs_del keqb).
  Notation step := (rs_step keqb).

  (* ---------- the dict ---------- *)
  Lemma find_set_same : forall k m ms, find k (set k m ms) = Some m.
  Proof.
    intros k m ms. induction ms as [|[k' m'] ms IH]; simpl.
    - rewrite keqb_refl. reflexivity.
    - destruct (keqb k k') eqn:E; simpl; rewrite E; [reflexivity | exact IH].
  Qed.

  Lemma find_set_other : forall k k' m ms, keqb k k' = false -> find k' (set k m ms) = find k' ms.
  Proof.
    intros k k' m ms Hne. induction ms as [|[k2 m2] ms IH]; simpl.
    - rewrite keqb_sym, Hne. reflexivity.
    - destruct (keqb k k2) eqn:E; simpl.
      + apply keqb_spec in E. subst k2. rewrite keqb_sym, Hne. reflexivity.
      + destruct (keqb k' k2); [reflexivity | exact IH].
  Qed.

  Lemma find_del_same : forall k ms, find k (del k ms) = None.
  Proof.
    intros k ms. induction ms as [|[k' m'] ms IH]; simpl; [reflexivity|].
    destruct (keqb k k') eqn:E; simpl; [exact IH | rewrite E; exact IH].
  Qed.

  Lemma find_del_other : forall k k' ms, keqb k k' = false -> find k' (del k ms) = find k' ms.
  Proof.
    intros k k' ms Hne. induction ms as [|[k2 m2] ms IH]; simpl; [reflexivity|].
    destruct (keqb k k2) eqn:E; simpl.
    - apply keqb_spec in E. subst k2. rewrite keqb_sym, Hne. exact IH.
    - destruct (keqb k' k2); [reflexivity | exact IH].
  Qed.

  (* ---------- the step, in terms of the recalled memory ---------- *)
  (* the memory object that recall returns *)
  Definition recalled (ms : rs_mems K) (i : rs_in K) : rs_mem :=
    match find (in_key i) ms with
    | Some m => m
    | None => {| rs_noticed := rs_is_listed (in_evt i); rs_handled := false |}
    end.

  Definition initial_of (m : rs_mem) : bool := rs_noticed m && negb (rs_handled m).

  Definition sel_of (regs : list rs_hdecl) (m : rs_mem) (i : rs_in K) : list rs_hdecl :=
    let ri := rs_detect (in_evt i) (in_view i) (initial_of m) in
    if in_gate i && rs_is_handler_reason (fst ri)
    then rs_get_handlers regs (fst ri) (snd ri) (vw_deleting (in_view i)) (in_match i) else [].

  Lemma step_obs : forall regs ms i,
    let o := snd (step regs ms i) in
    let m := recalled ms i in
    ob_initial0 o = initial_of m /\
    (ob_reason o, ob_initial o) = rs_detect (in_evt i) (in_view i) (initial_of m) /\
    ob_selected o = map hd_ix (sel_of regs m i) /\
    ob_invoked o = rs_invoked i (sel_of regs m i) /\
    ob_handled_after o = (rs_handled m || ob_done o || ob_skip o) /\
    (in_gate i = false -> ob_handled_after o = rs_handled m).
  Proof.
    intros regs ms i. unfold rs_step, rs_recall, recalled, sel_of, initial_of.
    destruct (find (in_key i) ms) as [m|] eqn:F; simpl;
      destruct (rs_detect (in_evt i) (in_view i) _) as [reason initial] eqn:D; simpl;
      (repeat split; try reflexivity);
      intro G; rewrite G; simpl; try rewrite !orb_false_r; reflexivity.
  Qed.

  Lemma step_find_other : forall regs ms i k,
    keqb (in_key i) k = false -> find k (fst (step regs ms i)) = find k ms.
  Proof.
    intros regs ms i k Hne. unfold rs_step, rs_recall, rs_forget.
    destruct (find (in_key i) ms) as [m|] eqn:F; simpl;
      destruct (rs_detect (in_evt i) (in_view i) _) as [reason initial]; simpl.
    - (* existing memory *)
      destruct (rs_is_deleted (in_evt i)); simpl.
      + rewrite F. rewrite find_del_same. simpl. apply find_del_other. exact Hne.
      + rewrite F. simpl. apply find_set_other. exact Hne.
    - (* created *)
      destruct (rs_is_deleted (in_evt i)); simpl.
      + rewrite find_set_same. rewrite find_del_same. simpl.
        rewrite find_del_other by exact Hne. apply find_set_other. exact Hne.
      + rewrite find_set_same. simpl. rewrite find_set_other by exact Hne. apply find_set_other. exact Hne.
  Qed.

  Lemma step_find_same : forall regs ms i,
    find (in_key i) (fst (step regs ms i)) =
    if rs_is_deleted (in_evt i) then None
    else Some {| rs_noticed := rs_noticed (recalled ms i);
                 rs_handled := ob_handled_after (snd (step regs ms i)) |}.
  Proof.
    intros regs ms i. unfold rs_step, rs_recall, rs_forget, recalled.
    destruct (find (in_key i) ms) as [m|] eqn:F; simpl;
      destruct (rs_detect (in_evt i) (in_view i) _) as [reason initial]; simpl.
    - destruct (rs_is_deleted (in_evt i)); simpl.
      + rewrite F. rewrite find_del_same. simpl. apply find_del_same.
      + rewrite F. simpl. apply find_set_same.
    - destruct (rs_is_deleted (in_evt i)); simpl.
      + rewrite find_set_same. rewrite find_del_same. simpl. apply find_del_same.
      + rewrite find_set_same. simpl. apply find_set_same.
  Qed.

  (* ---------- detection and selection facts ---------- *)
  Lemma detect_initial_le : forall e v ini, snd (rs_detect e v ini) = true -> ini = true.
  Proof.
    intros e v ini. unfold rs_detect.
    repeat match goal with |- context [if ?c then _ else _] => destruct c end; simpl; congruence.
  Qed.

  Lemma detect_create_not_initial : forall e v ini, fst (rs_detect e v ini) = RsCreate -> snd (rs_detect e v ini) = false.
  Proof.
    intros e v ini. unfold rs_detect.
    repeat match goal with |- context [if ?c then _ else _] => destruct c end; simpl; congruence.
  Qed.

  Lemma dedup_incl : forall l seen h, In h (rs_dedup seen l) -> In h l.
  Proof.
    induction l as [|x l IH]; simpl; intros seen h H; [contradiction|].
    destruct (existsb _ seen).
    - right. eapply IH. exact H.
    - destruct H as [H|H]; [left; exact H | right; eapply IH; exact H].
  Qed.

  Lemma get_handlers_sound : forall regs r ini del matching h,
    In h (rs_get_handlers regs r ini del matching) ->
    In h regs /\ rs_select r ini del (rs_mem_nat (hd_ix h) matching) h = true.
  Proof.
    intros regs r ini del matching h H. unfold rs_get_handlers in H.
    apply dedup_incl in H. apply filter_In in H. exact H.
  Qed.

  Lemma select_resume_needs_initial : forall r ini del mt h,
    rs_is_resume_handler h = true -> rs_select r ini del mt h = true -> ini = true.
  Proof.
    intros r ini del mt h Hr Hs. unfold rs_select, rs_is_resume_handler in *.
    destruct (rs_reason_ok h r); [|discriminate]. rewrite Hr in Hs. simpl in Hs.
    destruct ini; [reflexivity | discriminate].
  Qed.

  Lemma select_resume_deleting_opted : forall r ini mt h,
    rs_is_resume_handler h = true -> rs_select r ini true mt h = true -> rs_ob (hd_deleted h) = true.
  Proof.
    intros r ini mt h Hr Hs. unfold rs_select, rs_is_resume_handler in *.
    destruct (rs_reason_ok h r); [|discriminate]. rewrite Hr in Hs. simpl in Hs.
    destruct ini; simpl in Hs; [|discriminate].
    destruct (rs_ob (hd_deleted h)); [reflexivity | discriminate].
  Qed.

  (* every filtered registration has a representative with the same (fn, id) after deduplication *)
  Lemma dedup_repr : forall l seen h, In h l ->
    existsb (fun s => Nat.eqb (fst s) (hd_fn h) && Nat.eqb (snd s) (hd_id h)) seen = false ->
    exists h', In h' (rs_dedup seen l) /\ hd_fn h' = hd_fn h /\ hd_id h' = hd_id h.
  Proof.
    induction l as [|x l IH]; simpl; intros seen h Hin Hseen; [contradiction|].
    destruct (existsb (fun s => Nat.eqb (fst s) (hd_fn x) && Nat.eqb (snd s) (hd_id x)) seen) eqn:Ex.
    - destruct Hin as [->|Hin]; [rewrite Ex in Hseen; discriminate|].
      apply IH; assumption.
    - destruct Hin as [->|Hin].
      + exists h. split; [left; reflexivity | split; reflexivity].
      + destruct (Nat.eqb (hd_fn x) (hd_fn h) && Nat.eqb (hd_id x) (hd_id h)) eqn:Same.
        * apply andb_true_iff in Same. destruct Same as [S1 S2].
          apply Nat.eqb_eq in S1. apply Nat.eqb_eq in S2.
          exists x. split; [left; reflexivity | split; assumption].
        * destruct (IH ((hd_fn x, hd_id x) :: seen) h Hin) as [h' [H1 H2]].
          { simpl. rewrite Same. exact Hseen. }
          exists h'. split; [right; exact H1 | exact H2].
  Qed.

  Lemma get_handlers_complete : forall regs r ini del matching h,
    In h regs -> rs_select r ini del (rs_mem_nat (hd_ix h) matching) h = true ->
    exists h', In h' (rs_get_handlers regs r ini del matching) /\ hd_fn h' = hd_fn h /\ hd_id h' = hd_id h.
  Proof.
    intros regs r ini del matching h Hin Hs. unfold rs_get_handlers.
    apply dedup_repr; [|reflexivity]. apply filter_In. split; assumption.
  Qed.

  Lemma select_resume_true : forall r del mt h,
    hd_reason h = None -> rs_is_resume_handler h = true -> mt = true ->
    (del = true -> rs_ob (hd_deleted h) = true) ->
    rs_select r true del mt h = true.
  Proof.
    intros r del mt h Hr Hi Hm Hd. unfold rs_select, rs_reason_ok, rs_is_resume_handler in *.
    rewrite Hr, Hi. simpl. destruct del; simpl; [rewrite (Hd eq_refl); simpl|]; exact Hm.
  Qed.

  (* registrations are identified by hd_ix *)
  Lemma ix_unique : forall regs h h', NoDup (map hd_ix regs) -> In h regs -> In h' regs -> hd_ix h = hd_ix h' -> h = h'.
  Proof.
    induction regs as [|x regs IH]; simpl; intros h h' ND H1 H2 E; [contradiction|].
    inversion ND as [|? ? Hnot ND']; subst.
    destruct H1 as [<-|H1]; destruct H2 as [<-|H2].
    - reflexivity.
    - exfalso. apply Hnot. rewrite E. apply in_map. exact H2.
    - exfalso. apply Hnot. rewrite <- E. apply in_map. exact H1.
    - apply IH; assumption.
  Qed.

  Lemma selected_in : forall regs m i ix, In ix (map hd_ix (sel_of regs m i)) ->
    exists h, In h (sel_of regs m i) /\ hd_ix h = ix.
  Proof. intros regs m i ix H. apply in_map_iff in H. destruct H as [h [E H]]. exists h. split; assumption. Qed.

  Lemma sel_of_sound : forall regs m i h, In h (sel_of regs m i) ->
    In h regs /\
    rs_select (fst (rs_detect (in_evt i) (in_view i) (initial_of m))) (snd (rs_detect (in_evt i) (in_view i) (initial_of m)))
              (vw_deleting (in_view i)) (rs_mem_nat (hd_ix h) (in_match i)) h = true /\
    in_gate i = true /\ rs_is_handler_reason (fst (rs_detect (in_evt i) (in_view i) (initial_of m))) = true.
  Proof.
    intros regs m i h H. unfold sel_of in H.
    destruct (in_gate i && rs_is_handler_reason (fst (rs_detect (in_evt i) (in_view i) (initial_of m)))) eqn:G;
      [|contradiction].
    apply andb_true_iff in G. destruct G as [G1 G2].
    apply get_handlers_sound in H. destruct H as [H1 H2]. repeat split; assumption.
  Qed.

  (* no resume handler is selected when the recalled memory is not "initial" *)
  Lemma no_resume_when_not_initial : forall regs m i h,
    initial_of m = false -> rs_is_resume_handler h = true -> ~ In h (sel_of regs m i).
  Proof.
    intros regs m i h Hi Hr Hin. apply sel_of_sound in Hin. destruct Hin as [_ [Hs _]].
    apply select_resume_needs_initial in Hs; [|exact Hr].
    apply detect_initial_le in Hs. congruence.
  Qed.

  Lemma invoked_in_sel : forall (i : rs_in K) sel ix o, In (ix, o) (rs_invoked i sel) ->
    exists h, In h sel /\ hd_ix h = ix /\ rs_awakened i (hd_id h) = true.
  Proof.
    intros i sel ix o H. unfold rs_invoked in H. apply in_map_iff in H. destruct H as [h [E H]].
    apply filter_In in H. destruct H as [H1 H2]. injection E as E1 E2. exists h. repeat split; assumption.
  Qed.

  Lemma invoked_only_selected : forall regs ms i ix oc,
    In (ix, oc) (ob_invoked (snd (step regs ms i))) -> In ix (ob_selected (snd (step regs ms i))).
  Proof.
    intros regs ms i ix oc H. destruct (step_obs regs ms i) as [_ [_ [Es [Einv _]]]]. rewrite Einv in H. rewrite Es.
    apply invoked_in_sel in H. destruct H as [h [Hsel [Hix _]]]. apply in_map_iff. exists h. split; assumption.
  Qed.

  Lemma succeeded_invoked : forall ix (o : rs_obs), rs_succeeded ix o = true -> exists oc, In (ix, oc) (ob_invoked o).
  Proof.
    intros ix o H. unfold rs_succeeded in H. apply existsb_exists in H. destruct H as [[ix' oc] [Hin H]].
    simpl in H. apply andb_true_iff in H. destruct H as [H _]. apply Nat.eqb_eq in H. subst. exists oc. exact Hin.
  Qed.

  (* a resume registration cannot succeed in a step whose recalled memory is not initial, nor when its
     progress record is finished *)
  Lemma no_success_when_not_initial : forall regs ms i h,
    NoDup (map hd_ix regs) -> In h regs -> rs_is_resume_handler h = true ->
    initial_of (recalled ms i) = false -> rs_succeeded (hd_ix h) (snd (step regs ms i)) = false.
  Proof.
    intros regs ms i h ND Hin Hr Hi.
    destruct (rs_succeeded (hd_ix h) (snd (step regs ms i))) eqn:S; [|reflexivity]. exfalso.
    apply succeeded_invoked in S. destruct S as [oc S].
    destruct (step_obs regs ms i) as [_ [_ [_ [Hinv _]]]]. rewrite Hinv in S.
    apply invoked_in_sel in S. destruct S as [h' [Hsel [Hix _]]].
    assert (In h' regs) by (apply sel_of_sound in Hsel; tauto).
    assert (h' = h) by (eapply ix_unique; eassumption). subst h'.
    eapply no_resume_when_not_initial; eassumption.
  Qed.

  Lemma no_success_when_finished : forall regs ms i h,
    NoDup (map hd_ix regs) -> In h regs ->
    rs_prog_of (in_view i) (hd_id h) = PFinished -> rs_succeeded (hd_ix h) (snd (step regs ms i)) = false.
  Proof.
    intros regs ms i h ND Hin Hp.
    destruct (rs_succeeded (hd_ix h) (snd (step regs ms i))) eqn:S; [|reflexivity]. exfalso.
    apply succeeded_invoked in S. destruct S as [oc S].
    destruct (step_obs regs ms i) as [_ [_ [_ [Hinv _]]]]. rewrite Hinv in S.
    apply invoked_in_sel in S. destruct S as [h' [Hsel [Hix Haw]]].
    assert (In h' regs) by (apply sel_of_sound in Hsel; tauto).
    assert (h' = h) by (eapply ix_unique; eassumption). subst h'.
    unfold rs_awakened in Haw. rewrite Hp in Haw. discriminate.
  Qed.

  Lemma no_success_on_deleted_event : forall regs ms i ix,
    in_evt i = EDeleted -> rs_succeeded ix (snd (step regs ms i)) = false.
  Proof.
    intros regs ms i ix He.
    destruct (rs_succeeded ix (snd (step regs ms i))) eqn:S; [|reflexivity]. exfalso.
    apply succeeded_invoked in S. destruct S as [oc S].
    destruct (step_obs regs ms i) as [_ [_ [_ [Hinv _]]]]. rewrite Hinv in S.
    apply invoked_in_sel in S. destruct S as [h' [Hsel _]].
    apply sel_of_sound in Hsel. destruct Hsel as [_ [_ [_ Hr]]].
    unfold rs_detect in Hr. rewrite He in Hr. simpl in Hr. discriminate.
  Qed.

  (* ---------- runs ---------- *)
  (* the memories after a label list *)
  Fixpoint run (regs : list rs_hdecl) (ms : rs_mems K) (ls : list (rs_label K)) : rs_mems K :=
    match ls with
    | [] => ms
    | LRestart :: ls' => run regs [] ls'
    | LEv i :: ls' => run regs (fst (step regs ms i)) ls'
    end.

  (* what the reactor does with event [b] delivered after the history [pre] since the very first start *)
  Definition obs_at (regs : list rs_hdecl) (pre : list (rs_label K)) (b : rs_in K) : rs_obs :=
    snd (step regs (run regs [] pre) b).

  Lemma run_app : forall regs l1 ms l2, run regs ms (l1 ++ l2) = run regs (run regs ms l1) l2.
  Proof.
    intros regs l1. induction l1 as [|[i|] l1 IH]; intros ms l2; simpl; [reflexivity | apply IH | apply IH].
  Qed.

  Lemma exec_fst : forall regs ls ms e, fst (rs_exec keqb regs ms e ls) = run regs ms ls.
  Proof.
    intros regs ls. induction ls as [|[i|] ls IH]; intros ms e; simpl.
    - reflexivity.
    - destruct (step regs ms i) as [ms' o] eqn:S. specialize (IH ms' e).
      destruct (rs_exec keqb regs ms' e ls) as [msf tr]. simpl in *. exact IH.
    - apply IH.
  Qed.

  Fixpoint epoch_after (e : nat) (ls : list (rs_label K)) : nat :=
    match ls with [] => e | LRestart :: ls' => epoch_after (S e) ls' | LEv _ :: ls' => epoch_after e ls' end.

  Lemma exec_app : forall regs l1 ms e l2,
    snd (rs_exec keqb regs ms e (l1 ++ l2)) =
    snd (rs_exec keqb regs ms e l1) ++ snd (rs_exec keqb regs (run regs ms l1) (epoch_after e l1) l2).
  Proof.
    intros regs l1. induction l1 as [|[i|] l1 IH]; intros ms e l2; simpl.
    - reflexivity.
    - destruct (step regs ms i) as [ms' o] eqn:S. specialize (IH ms' e l2).
      destruct (rs_exec keqb regs ms' e (l1 ++ l2)) as [msf tr].
      destruct (rs_exec keqb regs ms' e l1) as [msf1 tr1]. simpl in *. rewrite IH. reflexivity.
    - apply IH.
  Qed.

  (* the trace is made of obs_at of its prefixes *)
  Lemma trace_snoc : forall regs pre b,
    rs_trace keqb regs (pre ++ [LEv b]) =
    rs_trace keqb regs pre ++ [{| en_epoch := epoch_after 0 pre; en_in := b; en_obs := obs_at regs pre b |}].
  Proof.
    intros regs pre b. unfold rs_trace. rewrite exec_app. f_equal. simpl. unfold obs_at.
    destruct (step regs (run regs [] pre) b) as [ms' o]. reflexivity.
  Qed.

  (* ---------- invariants along quiet stretches ---------- *)
  (* "dead": the memory of k exists and will never be initial again *)
  Definition dead (k : K) (ms : rs_mems K) : Prop :=
    exists m, find k ms = Some m /\ initial_of m = false.

  Lemma handled_monotone : forall regs ms i, rs_handled (recalled ms i) = true -> ob_handled_after (snd (step regs ms i)) = true.
  Proof.
    intros regs ms i H. destruct (step_obs regs ms i) as [_ [_ [_ [_ [Hh _]]]]]. rewrite Hh, H. reflexivity.
  Qed.

  Lemma step_same_mem : forall regs ms i, in_evt i <> EDeleted ->
    find (in_key i) (fst (step regs ms i)) =
    Some {| rs_noticed := rs_noticed (recalled ms i); rs_handled := ob_handled_after (snd (step regs ms i)) |}.
  Proof.
    intros regs ms i H. rewrite step_find_same. destruct (in_evt i); simpl; congruence.
  Qed.

  Lemma recalled_found : forall ms i m, find (in_key i) ms = Some m -> recalled ms i = m.
  Proof. intros ms i m F. unfold recalled. rewrite F. reflexivity. Qed.

  Lemma dead_step : forall regs k ms i,
    (keqb (in_key i) k = true -> in_evt i <> EDeleted) -> dead k ms -> dead k (fst (step regs ms i)).
  Proof.
    intros regs k ms i Hq [m [F D]].
    destruct (keqb (in_key i) k) eqn:E.
    - apply keqb_spec in E. subst k. specialize (Hq eq_refl).
      unfold dead. rewrite step_same_mem by exact Hq. eexists. split; [reflexivity|].
      unfold initial_of in *. simpl. rewrite (recalled_found ms i m F).
      destruct (rs_noticed m); simpl in *; [|reflexivity].
      rewrite handled_monotone; [reflexivity|]. rewrite (recalled_found ms i m F).
      destruct (rs_handled m); simpl in D; congruence.
    - exists m. split; [|exact D]. rewrite step_find_other by exact E. exact F.
  Qed.

  Lemma dead_run : forall regs k l ms, rs_quiet keqb k l -> dead k ms -> dead k (run regs ms l).
  Proof.
    intros regs k l. induction l as [|[i|] l IH]; intros ms Hq Hd; simpl in *.
    - exact Hd.
    - destruct Hq as [Hq1 Hq2]. apply IH; [exact Hq2|]. apply dead_step; assumption.
    - contradiction.
  Qed.

  Lemma dead_not_initial : forall regs k ms i, in_key i = k -> dead k ms -> ob_initial0 (snd (step regs ms i)) = false.
  Proof.
    intros regs k ms i Hk [m [F D]]. destruct (step_obs regs ms i) as [H0 _]. rewrite H0.
    unfold recalled. rewrite Hk, F. exact D.
  Qed.

  (* after a step of k (not DELETED) whose observation is not initial, or which closed a cycle, k is dead *)
  Lemma step_makes_dead : forall regs ms i,
    in_evt i <> EDeleted ->
    ob_initial0 (snd (step regs ms i)) = false \/ ob_handled_after (snd (step regs ms i)) = true ->
    dead (in_key i) (fst (step regs ms i)).
  Proof.
    intros regs ms i Hev H. unfold dead. rewrite step_same_mem by exact Hev.
    eexists. split; [reflexivity|]. unfold initial_of. simpl.
    destruct H as [H|H].
    - destruct (step_obs regs ms i) as [H0 _]. rewrite H0 in H. unfold initial_of in H.
      destruct (rs_noticed (recalled ms i)); simpl in *; [|reflexivity].
      rewrite handled_monotone; [reflexivity|]. destruct (rs_handled (recalled ms i)); simpl in H; congruence.
    - rewrite H. apply andb_false_r.
  Qed.

  Lemma obs_initial_le : forall regs ms i, ob_initial (snd (step regs ms i)) = true -> initial_of (recalled ms i) = true.
  Proof.
    intros regs ms i H. destruct (step_obs regs ms i) as [_ [Ed _]].
    apply (f_equal snd) in Ed. simpl in Ed. rewrite Ed in H. apply detect_initial_le in H. exact H.
  Qed.

  Lemma obs_not_initial : forall regs ms i, initial_of (recalled ms i) = false -> ob_initial (snd (step regs ms i)) = false.
  Proof.
    intros regs ms i H. destruct (ob_initial (snd (step regs ms i))) eqn:I; [|reflexivity].
    apply obs_initial_le in I. congruence.
  Qed.

  (* ----- C14_initial_monotone ----- *)
  Lemma initial_monotone : forall regs pre a l b,
    in_key a = in_key b -> rs_quiet keqb (in_key b) (LEv a :: l) ->
    ob_initial0 (obs_at regs pre a) = false ->
    ob_initial0 (obs_at regs (pre ++ LEv a :: l) b) = false.
  Proof.
    intros regs pre a l b Hk Hq H0. unfold obs_at in *. rewrite run_app. simpl.
    simpl in Hq. destruct Hq as [Hq1 Hq2].
    apply dead_not_initial with (k := in_key b); [reflexivity|].
    apply dead_run; [exact Hq2|]. rewrite <- Hk. apply step_makes_dead.
    - apply Hq1. rewrite Hk. apply keqb_refl.
    - left. exact H0.
  Qed.

  (* ----- once a cycle has closed, no resume handler is selected any more ----- *)
  Lemma closed_cycle_ends_resuming : forall regs pre a l b h,
    in_key a = in_key b -> rs_quiet keqb (in_key b) (LEv a :: l) ->
    ob_handled_after (obs_at regs pre a) = true ->
    NoDup (map hd_ix regs) -> In h regs -> rs_is_resume_handler h = true ->
    ob_initial0 (obs_at regs (pre ++ LEv a :: l) b) = false /\
    ob_initial (obs_at regs (pre ++ LEv a :: l) b) = false /\
    ~ In (hd_ix h) (ob_selected (obs_at regs (pre ++ LEv a :: l) b)).
  Proof.
    intros regs pre a l b h Hk Hq Hh ND Hin Hr. unfold obs_at in *. rewrite run_app. simpl.
    simpl in Hq. destruct Hq as [Hq1 Hq2].
    set (ms2 := run regs (fst (step regs (run regs [] pre) a)) l).
    assert (Hd : dead (in_key b) ms2).
    { apply dead_run; [exact Hq2|]. rewrite <- Hk. apply step_makes_dead.
      - apply Hq1. rewrite Hk. apply keqb_refl.
      - right. exact Hh. }
    assert (H0 : ob_initial0 (snd (step regs ms2 b)) = false) by (eapply dead_not_initial; [reflexivity | exact Hd]).
    destruct (step_obs regs ms2 b) as [E0 [Ed [Es _]]].
    split; [exact H0|]. rewrite E0 in H0. split.
    - apply obs_not_initial. exact H0.
    - rewrite Es. intro Hsel. apply selected_in in Hsel. destruct Hsel as [h' [Hsel Hix]].
      assert (In h' regs) by (apply sel_of_sound in Hsel; tauto).
      assert (h' = h) by (eapply ix_unique; eassumption). subst h'.
      eapply no_resume_when_not_initial; eassumption.
  Qed.

  (* ----- C14_not_for_created_later ----- *)
  Lemma fresh_step_not_listed_dead : forall regs ms a,
    find (in_key a) ms = None -> in_evt a <> EListed -> in_evt a <> EDeleted ->
    ob_initial0 (snd (step regs ms a)) = false.
  Proof.
    intros regs ms a F Hl Hd. destruct (step_obs regs ms a) as [H0 _]. rewrite H0.
    unfold recalled. rewrite F. unfold initial_of. simpl. destruct (in_evt a); simpl; congruence.
  Qed.

  Lemma not_for_created_later : forall regs pre a l b h,
    find (in_key a) (run regs [] pre) = None ->           (* first event of the object in this process *)
    in_evt a <> EListed ->                                  (* ... and it comes from the watch stream *)
    in_key a = in_key b -> rs_quiet keqb (in_key b) (LEv a :: l) ->
    NoDup (map hd_ix regs) -> In h regs -> rs_is_resume_handler h = true ->
    (ob_initial0 (obs_at regs pre a) = false /\ ~ In (hd_ix h) (ob_selected (obs_at regs pre a))) /\
    (ob_initial0 (obs_at regs (pre ++ LEv a :: l) b) = false /\
     ob_initial (obs_at regs (pre ++ LEv a :: l) b) = false /\
     ~ In (hd_ix h) (ob_selected (obs_at regs (pre ++ LEv a :: l) b))).
  Proof.
    intros regs pre a l b h F Hl Hk Hq ND Hin Hr.
    assert (Hd : in_evt a <> EDeleted).
    { simpl in Hq. destruct Hq as [Hq1 _]. apply Hq1. rewrite Hk. apply keqb_refl. }
    assert (H0 : ob_initial0 (obs_at regs pre a) = false) by (apply fresh_step_not_listed_dead; assumption).
    split.
    - split; [exact H0|]. unfold obs_at in *.
      destruct (step_obs regs (run regs [] pre) a) as [E0 [_ [Es _]]]. rewrite Es. intro Hsel.
      apply selected_in in Hsel. destruct Hsel as [h' [Hsel Hix]].
      assert (In h' regs) by (apply sel_of_sound in Hsel; tauto).
      assert (h' = h) by (eapply ix_unique; eassumption). subst h'.
      rewrite E0 in H0. eapply no_resume_when_not_initial; eassumption.
    - assert (M := initial_monotone regs pre a l b Hk Hq H0).
      unfold obs_at in *. set (ms2 := run regs [] (pre ++ LEv a :: l)) in *.
      destruct (step_obs regs ms2 b) as [E0 [Ed [Es _]]].
      split; [exact M|]. rewrite E0 in M. split.
      + apply obs_not_initial. exact M.
      + rewrite Es. intro Hsel. apply selected_in in Hsel. destruct Hsel as [h' [Hsel Hix]].
        assert (In h' regs) by (apply sel_of_sound in Hsel; tauto).
        assert (h' = h) by (eapply ix_unique; eassumption). subst h'.
        eapply no_resume_when_not_initial; eassumption.
  Qed.

  (* ----- C14_not_on_deleting_unless_opted_in (any memories, any event) ----- *)
  Lemma not_on_deleting_unless_opted_in : forall regs ms i h,
    NoDup (map hd_ix regs) -> In h regs -> rs_is_resume_handler h = true ->
    vw_deleting (in_view i) = true ->
    In (hd_ix h) (ob_selected (snd (step regs ms i))) -> rs_ob (hd_deleted h) = true.
  Proof.
    intros regs ms i h ND Hin Hr Hdel Hsel.
    destruct (step_obs regs ms i) as [_ [_ [Es _]]]. rewrite Es in Hsel.
    apply selected_in in Hsel. destruct Hsel as [h' [Hsel Hix]].
    assert (In h' regs) by (apply sel_of_sound in Hsel; tauto).
    assert (h' = h) by (eapply ix_unique; eassumption). subst h'.
    apply sel_of_sound in Hsel. destruct Hsel as [_ [Hs _]]. rewrite Hdel in Hs.
    eapply select_resume_deleting_opted; eassumption.
  Qed.

  (* ----- never mixed into a creation ----- *)
  Lemma never_mixed_into_creation : forall regs ms i h,
    NoDup (map hd_ix regs) -> In h regs -> rs_is_resume_handler h = true ->
    ob_reason (snd (step regs ms i)) = RsCreate ->
    ob_initial (snd (step regs ms i)) = false /\ ~ In (hd_ix h) (ob_selected (snd (step regs ms i))).
  Proof.
    intros regs ms i h ND Hin Hr Hc.
    destruct (step_obs regs ms i) as [_ [Ed [Es _]]].
    assert (Hf : fst (rs_detect (in_evt i) (in_view i) (initial_of (recalled ms i))) = RsCreate) by (rewrite <- Ed; exact Hc).
    assert (Hi : ob_initial (snd (step regs ms i)) = false).
    { apply detect_create_not_initial in Hf. rewrite <- Ed in Hf. exact Hf. }
    split; [exact Hi|]. rewrite Es. intro Hsel. apply selected_in in Hsel. destruct Hsel as [h' [Hsel Hix]].
    assert (In h' regs) by (apply sel_of_sound in Hsel; tauto).
    assert (h' = h) by (eapply ix_unique; eassumption). subst h'.
    apply sel_of_sound in Hsel. destruct Hsel as [_ [Hs _]].
    apply select_resume_needs_initial in Hs; [|exact Hr]. rewrite <- Ed in Hs. simpl in Hs. congruence.
  Qed.

  (* ----- C14_runs_for_preexisting ----- *)
  (* "armed": the memory of k exists, was created by a listing, and no cycle has closed *)
  Definition armed (k : K) (ms : rs_mems K) : Prop :=
    exists m, find k ms = Some m /\ rs_noticed m = true /\ rs_handled m = false.

  (* events of other objects, and events of k that do not reach process_changing_cause *)
  Fixpoint unreached (k : K) (ls : list (rs_label K)) : Prop :=
    match ls with
    | [] => True
    | LRestart :: _ => False
    | LEv i :: ls' => (keqb (in_key i) k = true -> in_evt i <> EDeleted /\ in_gate i = false) /\ unreached k ls'
    end.

  Lemma armed_step : forall regs k ms i,
    (keqb (in_key i) k = true -> in_evt i <> EDeleted /\ in_gate i = false) -> armed k ms -> armed k (fst (step regs ms i)).
  Proof.
    intros regs k ms i Hq [m [F [N H]]].
    destruct (keqb (in_key i) k) eqn:E.
    - apply keqb_spec in E. subst k. destruct (Hq eq_refl) as [Hd Hg].
      unfold armed. rewrite step_same_mem by exact Hd. eexists. split; [reflexivity|]. simpl.
      rewrite (recalled_found ms i m F). split; [exact N|].
      destruct (step_obs regs ms i) as [_ [_ [_ [_ [_ Hu]]]]]. rewrite (Hu Hg).
      rewrite (recalled_found ms i m F). exact H.
    - exists m. split; [|split; assumption]. rewrite step_find_other by exact E. exact F.
  Qed.

  Lemma armed_run : forall regs k l ms, unreached k l -> armed k ms -> armed k (run regs ms l).
  Proof.
    intros regs k l. induction l as [|[i|] l IH]; intros ms Hq Ha; simpl in *.
    - exact Ha.
    - destruct Hq as [Hq1 Hq2]. apply IH; [exact Hq2|]. apply armed_step; assumption.
    - contradiction.
  Qed.

  (* what a reached step does for an object whose recalled memory is initial *)
  Lemma initial_step_selects : forall regs ms b h,
    initial_of (recalled ms b) = true ->
    in_evt b <> EDeleted -> in_gate b = true -> vw_old_none (in_view b) = false ->
    (vw_deleting (in_view b) = true -> vw_blocked (in_view b) = true /\ rs_ob (hd_deleted h) = true) ->
    In h regs -> hd_reason h = None -> rs_is_resume_handler h = true -> rs_mem_nat (hd_ix h) (in_match b) = true ->
    let o := snd (step regs ms b) in
    ob_initial0 o = true /\ ob_initial o = true /\
    ob_reason o = (if vw_deleting (in_view b) then RsDelete else if vw_diff_empty (in_view b) then RsResume else RsUpdate) /\
    exists h', In h' regs /\ hd_fn h' = hd_fn h /\ hd_id h' = hd_id h /\ In (hd_ix h') (ob_selected o) /\
               (rs_awakened b (hd_id h) = true -> In (hd_ix h') (map fst (ob_invoked o))).
  Proof.
    intros regs ms b h Hi Hev Hg Hold Hdel Hin Hre Hr Hm o.
    destruct (step_obs regs ms b) as [E0 [Ed [Es [Einv _]]]]. fold o in E0, Ed, Es, Einv.
    set (m := recalled ms b) in *.
    assert (D : rs_detect (in_evt b) (in_view b) (initial_of m) =
                ((if vw_deleting (in_view b) then RsDelete else if vw_diff_empty (in_view b) then RsResume else RsUpdate), true)).
    { unfold rs_detect. rewrite Hi, Hold.
      destruct (in_evt b) eqn:Ev; try congruence; simpl;
        (destruct (vw_deleting (in_view b)) eqn:Dl; simpl;
         [destruct (Hdel eq_refl) as [Hb _]; rewrite Hb; reflexivity
         | destruct (vw_diff_empty (in_view b)); reflexivity]). }
    rewrite D in Ed. injection Ed as Er Ei.
    split; [rewrite E0; exact Hi|]. split; [exact Ei|]. split; [exact Er|].
    assert (Hh : rs_is_handler_reason (if vw_deleting (in_view b) then RsDelete else if vw_diff_empty (in_view b) then RsResume else RsUpdate) = true)
      by (destruct (vw_deleting (in_view b)), (vw_diff_empty (in_view b)); reflexivity).
    assert (Hsel : sel_of regs m b = rs_get_handlers regs
                     (if vw_deleting (in_view b) then RsDelete else if vw_diff_empty (in_view b) then RsResume else RsUpdate)
                     true (vw_deleting (in_view b)) (in_match b)).
    { unfold sel_of. rewrite D. simpl. rewrite Hg, Hh. reflexivity. }
    destruct (get_handlers_complete regs
                (if vw_deleting (in_view b) then RsDelete else if vw_diff_empty (in_view b) then RsResume else RsUpdate)
                true (vw_deleting (in_view b)) (in_match b) h Hin) as [h' [H1 [H2 H3]]].
    { apply select_resume_true; try assumption. intro Dl. apply (Hdel Dl). }
    exists h'. split; [apply get_handlers_sound in H1; tauto|]. split; [exact H2|]. split; [exact H3|].
    split.
    - rewrite Es, Hsel. apply in_map. exact H1.
    - intro Haw. rewrite Einv, Hsel. unfold rs_invoked. rewrite map_map. simpl.
      apply in_map_iff. exists h'. split; [reflexivity|]. apply filter_In. split; [exact H1|]. rewrite H3. exact Haw.
  Qed.

  Lemma fresh_listed_initial : forall ms b, find (in_key b) ms = None -> in_evt b = EListed -> initial_of (recalled ms b) = true.
  Proof. intros ms b F E. unfold recalled. rewrite F, E. reflexivity. Qed.

  Lemma armed_initial : forall ms b, armed (in_key b) ms -> initial_of (recalled ms b) = true.
  Proof. intros ms b [m [F [N H]]]. unfold recalled. rewrite F. unfold initial_of. rewrite N, H. reflexivity. Qed.

  Lemma fresh_listed_unreached_arms : forall regs ms a,
    find (in_key a) ms = None -> in_evt a = EListed -> in_gate a = false -> armed (in_key a) (fst (step regs ms a)).
  Proof.
    intros regs ms a F E G. unfold armed. rewrite step_same_mem by congruence.
    eexists. split; [reflexivity|]. simpl. unfold recalled. rewrite F, E. simpl. split; [reflexivity|].
    destruct (step_obs regs ms a) as [_ [_ [_ [_ [_ Hu]]]]]. rewrite (Hu G). unfold recalled. rewrite F. reflexivity.
  Qed.

  Definition selects_resume (regs : list rs_hdecl) (b : rs_in K) (h : rs_hdecl) (o : rs_obs) : Prop :=
    ob_initial0 o = true /\ ob_initial o = true /\
    ob_reason o = (if vw_deleting (in_view b) then RsDelete else if vw_diff_empty (in_view b) then RsResume else RsUpdate) /\
    exists h', In h' regs /\ hd_fn h' = hd_fn h /\ hd_id h' = hd_id h /\ In (hd_ix h') (ob_selected o) /\
               (rs_awakened b (hd_id h) = true -> In (hd_ix h') (map fst (ob_invoked o))).

  Lemma runs_for_preexisting : forall regs pre b h,
    find (in_key b) (run regs [] pre) = None ->        (* first event of the object in this process *)
    in_evt b = EListed -> in_gate b = true -> vw_old_none (in_view b) = false ->
    (vw_deleting (in_view b) = true -> vw_blocked (in_view b) = true /\ rs_ob (hd_deleted h) = true) ->
    In h regs -> hd_reason h = None -> rs_is_resume_handler h = true -> rs_mem_nat (hd_ix h) (in_match b) = true ->
    selects_resume regs b h (obs_at regs pre b).
  Proof.
    intros regs pre b h F Ev G Ho Hd Hin Hre Hr Hm. unfold selects_resume, obs_at.
    apply initial_step_selects; try assumption.
    - apply fresh_listed_initial; assumption.
    - congruence.
  Qed.

  Lemma runs_for_preexisting_deferred : forall regs pre a l b h,
    find (in_key a) (run regs [] pre) = None -> in_evt a = EListed -> in_gate a = false ->
    in_key a = in_key b -> unreached (in_key b) l ->
    in_evt b <> EDeleted -> in_gate b = true -> vw_old_none (in_view b) = false ->
    (vw_deleting (in_view b) = true -> vw_blocked (in_view b) = true /\ rs_ob (hd_deleted h) = true) ->
    In h regs -> hd_reason h = None -> rs_is_resume_handler h = true -> rs_mem_nat (hd_ix h) (in_match b) = true ->
    selects_resume regs b h (obs_at regs (pre ++ LEv a :: l) b).
  Proof.
    intros regs pre a l b h F Ev Ga Hk Hu Evb G Ho Hd Hin Hre Hr Hm. unfold selects_resume, obs_at.
    rewrite run_app. simpl.
    apply initial_step_selects; try assumption.
    apply armed_initial. apply armed_run; [exact Hu|]. rewrite <- Hk.
    apply fresh_listed_unreached_arms; assumption.
  Qed.

  (* ---------- at most once ---------- *)
  Notation successes := (rs_successes keqb).
  Notation c02 := (rs_c02_finished_persisted keqb).

  Definition bound (e epoch n : nat) : nat := if Nat.ltb e epoch then 0 else if Nat.eqb e epoch then n else 1.

  Definition phase_inv (k : K) (ms : rs_mems K) (phase : nat) : Prop :=
    2 <= phase -> exists m, find k ms = Some m /\ rs_handled m = true.

  Lemma successes_cons : forall e k ix en tr,
    successes e k ix (en :: tr) = (if rs_entry_counts keqb e k ix en then 1 else 0) + successes e k ix tr.
  Proof. intros. unfold rs_successes. simpl. destruct (rs_entry_counts keqb e k ix en); reflexivity. Qed.

  (* The statement used: a bound that depends on the mode. [n] is what may still happen in the current process. *)
  Definition allowance (gone : bool) (phase : nat) : nat := if gone then 0 else if Nat.eqb phase 0 then 1 else 0.

  Lemma bound_mono : forall e epoch n n', n <= n' -> bound e epoch n <= bound e epoch n'.
  Proof. intros. unfold bound. destruct (Nat.ltb e epoch); [lia|]. destruct (Nat.eqb e epoch); lia. Qed.

  Lemma bound_le_1 : forall e epoch n, n <= 1 -> bound e epoch n <= 1.
  Proof. intros. unfold bound. destruct (Nat.ltb e epoch); [lia|]. destruct (Nat.eqb e epoch); lia. Qed.

  Lemma bound_restart : forall e epoch n, bound e (S epoch) 1 <= bound e epoch n \/ e = epoch.
  Proof.
    intros. unfold bound.
    destruct (Nat.ltb_spec e (S epoch)); destruct (Nat.ltb_spec e epoch); destruct (Nat.eqb_spec e epoch);
      destruct (Nat.eqb_spec e (S epoch)); lia.
  Qed.

  Lemma evt_deleted_dec : forall e : rs_evt, e = EDeleted \/ e <> EDeleted.
  Proof. intro e. destruct e; [right|right|right|left]; congruence. Qed.

  (* one live (not DELETED) event of k: the phase invariant is kept and the budget is respected *)
  Lemma at_most_once_step : forall regs k h ms i phase,
    NoDup (map hd_ix regs) -> In h regs -> rs_is_resume_handler h = true ->
    in_key i = k -> in_evt i <> EDeleted ->
    phase_inv k ms phase ->
    (phase = 1 -> rs_prog_of (in_view i) (hd_id h) = PFinished) ->
    let o := snd (step regs ms i) in
    let phase' := rs_phase_next keqb k (hd_ix h) phase i o in
    phase_inv k (fst (step regs ms i)) phase' /\
    (if rs_succeeded (hd_ix h) o then 1 else 0) + allowance false phase' <= allowance false phase.
  Proof.
    intros regs k h ms i phase ND Hin Hr Hk Hev Hinv Hc o phase'.
    assert (Ek : keqb (in_key i) k = true) by (apply keqb_spec; exact Hk).
    assert (Hinv' : forall ph', (2 <= ph' -> ob_handled_after o = true) -> phase_inv k (fst (step regs ms i)) ph').
    { intros ph' Hh Hge. rewrite <- Hk. rewrite step_same_mem by exact Hev.
      eexists. split; [reflexivity|]. simpl. apply Hh. exact Hge. }
    unfold phase', rs_phase_next. rewrite Ek. fold o.
    destruct phase as [|[|phase]].
    - (* not yet succeeded *)
      destruct (rs_succeeded (hd_ix h) o) eqn:Su.
      + destruct (ob_handled_after o) eqn:Ha.
        * split; [apply Hinv'; intros _; reflexivity | simpl; lia].
        * split; [apply Hinv'; intro; lia | simpl; lia].
      + split; [apply Hinv'; intro; lia | simpl; lia].
    - (* succeeded, cycle open: the record is finished *)
      assert (Hfin : rs_succeeded (hd_ix h) o = false).
      { unfold o. apply no_success_when_finished; [exact ND | exact Hin | apply Hc; reflexivity]. }
      rewrite Hfin. destruct (ob_handled_after o) eqn:Ha.
      + split; [apply Hinv'; intros _; reflexivity | simpl; lia].
      + split; [apply Hinv'; intro; lia | simpl; lia].
    - (* a cycle has closed: the memory says "handled" *)
      destruct (Hinv ltac:(lia)) as [m [Fm Hhm]].
      assert (Hrec : recalled ms i = m) by (apply recalled_found; rewrite Hk; exact Fm).
      assert (Hni : initial_of (recalled ms i) = false) by (rewrite Hrec; unfold initial_of; rewrite Hhm; apply andb_false_r).
      assert (Hfin : rs_succeeded (hd_ix h) o = false) by (unfold o; apply no_success_when_not_initial; assumption).
      assert (Ha : ob_handled_after o = true) by (unfold o; apply handled_monotone; rewrite Hrec; exact Hhm).
      rewrite Hfin. split; [apply Hinv'; intros _; exact Ha | simpl; lia].
  Qed.

  Lemma bound_add : forall e epoch c n n', c + n' <= n -> (if Nat.eqb epoch e then c else 0) + bound e epoch n' <= bound e epoch n.
  Proof.
    intros e epoch c n n' H. unfold bound.
    destruct (Nat.eqb_spec epoch e); destruct (Nat.ltb_spec e epoch); destruct (Nat.eqb_spec e epoch); lia.
  Qed.

  Lemma at_most_once_modes : forall regs k h,
    NoDup (map hd_ix regs) -> In h regs -> rs_is_resume_handler h = true ->
    forall ls ms epoch phase (gone : bool),
      rs_uid_final keqb k ls ->
      c02 regs k (hd_ix h) (hd_id h) ms phase ls ->
      (if gone then rs_no_key keqb k ls else phase_inv k ms phase) ->
      forall e, successes e k (hd_ix h) (snd (rs_exec keqb regs ms epoch ls)) <= bound e epoch (allowance gone phase).
  Proof.
    intros regs k h ND Hin Hr ls.
    induction ls as [|[i|] ls IH]; intros ms epoch phase gone Hu Hc Hm e.
    - simpl. unfold rs_successes. simpl. lia.
    - (* an event *)
      simpl in Hu, Hc. destruct Hu as [Hu1 Hu2].
      simpl. destruct (step regs ms i) as [ms' o] eqn:S. destruct Hc as [Hc1 Hc2].
      assert (So : o = snd (step regs ms i)) by (rewrite S; reflexivity).
      assert (Sm : ms' = fst (step regs ms i)) by (rewrite S; reflexivity).
      destruct (rs_exec keqb regs ms' epoch ls) as [msf tr] eqn:X. simpl.
      assert (Xs : tr = snd (rs_exec keqb regs ms' epoch ls)) by (rewrite X; reflexivity).
      rewrite successes_cons. unfold rs_entry_counts. simpl.
      destruct (keqb (in_key i) k) eqn:Ek.
      + (* an event of k *)
        destruct gone.
        { simpl in Hm. destruct Hm as [Hm _]. congruence. }
        assert (Hk : in_key i = k) by (apply keqb_spec; exact Ek).
        destruct (evt_deleted_dec (in_evt i)) as [Ev|Ev].
        * (* DELETED: nothing succeeds, and no event of k follows in this process *)
          rewrite So. rewrite no_success_on_deleted_event by exact Ev. rewrite andb_false_r. simpl.
          specialize (IH ms' epoch (rs_phase_next keqb k (hd_ix h) phase i o) true Hu2 Hc2 (Hu1 eq_refl Ev) e).
          rewrite <- Xs in IH. simpl in IH. eapply Nat.le_trans; [exact IH|]. apply bound_mono. lia.
        * destruct (at_most_once_step regs k h ms i phase ND Hin Hr Hk Ev Hm (Hc1 eq_refl)) as [Hinv' Hbud].
          rewrite <- So, <- Sm in Hinv'. rewrite <- So in Hbud.
          specialize (IH ms' epoch (rs_phase_next keqb k (hd_ix h) phase i o) false Hu2 Hc2 Hinv' e).
          rewrite <- Xs in IH. rewrite andb_true_r.
          pose proof (bound_add e epoch _ _ _ Hbud) as Hb.
          destruct (Nat.eqb epoch e); destruct (rs_succeeded (hd_ix h) o); simpl in *; lia.
      + (* an event of another object *)
        rewrite andb_false_r. simpl.
        unfold rs_phase_next in Hc2. rewrite Ek in Hc2.
        specialize (IH ms' epoch phase gone Hu2 Hc2).
        rewrite <- Xs in IH. apply IH.
        destruct gone.
        * simpl in Hm. tauto.
        * intro Hge. destruct (Hm Hge) as [m [Fm Hhm]]. exists m. split; [|exact Hhm].
          rewrite Sm. rewrite step_find_other by exact Ek. exact Fm.
    - (* a restart *)
      simpl in Hu, Hc. simpl.
      specialize (IH [] (S epoch) 0 false Hu Hc (fun Hge => ltac:(lia)) e). simpl in IH.
      destruct (bound_restart e epoch (allowance gone phase)) as [B|B].
      + eapply Nat.le_trans; [exact IH | exact B].
      + (* e = epoch: every entry after the restart has a larger epoch *)
        subst e. unfold bound in IH. rewrite (proj2 (Nat.ltb_lt epoch (S epoch))) in IH by lia. lia.
  Qed.

  Lemma at_most_once : forall regs k h ls,
    NoDup (map hd_ix regs) -> In h regs -> rs_is_resume_handler h = true ->
    rs_uid_final keqb k ls ->
    c02 regs k (hd_ix h) (hd_id h) [] 0 ls ->
    forall e, successes e k (hd_ix h) (rs_trace keqb regs ls) <= 1.
  Proof.
    intros regs k h ls ND Hin Hr Hu Hc e. unfold rs_trace.
    eapply Nat.le_trans.
    - apply (at_most_once_modes regs k h ND Hin Hr ls [] 0 0 false Hu Hc). intro Hge. lia.
    - apply bound_le_1. simpl. lia.
  Qed.
End ResumeProofs.

(* ---------- concrete witnesses (keys are uid strings) ---------- *)
Open Scope string_scope.

Lemma string_eqb_spec : forall a b : string, String.eqb a b = true <-> a = b.
Proof. intros a b. apply String.eqb_eq. Qed.

Definition ex_view (diff_empty : bool) (prog : list (nat * rs_prog)) : rs_view :=
  {| vw_old_none := false; vw_diff_empty := diff_empty; vw_deleting := false; vw_blocked := false; vw_prog := prog |}.
Definition ex_in (k : string) (e : rs_evt) (diff_empty : bool) (prog : list (nat * rs_prog)) (awake : list nat)
           (out : list (nat * rs_outcome)) : rs_in string :=
  {| in_key := k; in_evt := e; in_view := ex_view diff_empty prog; in_gate := true; in_match := [0; 1]; in_awake := awake;
     in_out := out |}.

(* two resume handlers; the second keeps failing temporarily *)
Definition ex_regs2 : list rs_hdecl := [rs_on_resume 0 0 0 None; rs_on_resume 1 1 1 None].

(* Without the C02 guarantee (the finished record stays on the object while the cycle is open) the statement is false of
   the model: the record of handler 0 is gone in the second event (lost patch / purge), and it runs to completion again. *)
Definition ex_lost_record : list (rs_label string) :=
  [ LEv (ex_in "u" EListed true [] [] [(1, OTemporary)]);
    LEv (ex_in "u" EModified true [(1, POpen)] [1] [(1, OTemporary)]) ].

Lemma at_most_once_unconditional_refuted :
  exists regs ls k h,
    NoDup (map hd_ix regs) /\ In h regs /\ rs_is_resume_handler h = true /\
    rs_uid_final String.eqb k ls /\
    rs_successes String.eqb 0 k (hd_ix h) (rs_trace String.eqb regs ls) = 2.
Proof.
  exists ex_regs2, ex_lost_record, "u", (rs_on_resume 0 0 0 None).
  split; [repeat constructor; simpl; intuition discriminate|].
  split; [left; reflexivity|]. split; [reflexivity|].
  split; [simpl; repeat split; intros; discriminate|].
  vm_compute. reflexivity.
Qed.

(* Non-vacuity: a history with a 410 re-listing in the middle of a retrying resume handler, a second re-listing after the
   cycle has closed, an edit, and a restart. *)
Definition ex_regs1 : list rs_hdecl := [rs_on_resume 0 0 0 None; rs_on_reason RsUpdate 1 1 1].

Definition ex_410 : list (rs_label string) :=
  [ LEv (ex_in "u" EListed true [] [] [(0, OTemporary)]) ]                       (* start: listed; the handler fails, retry later *)
  ++ [ LEv (ex_in "u" EModified true [(0, POpen)] [] []) ]                       (* own patch echoed; the handler sleeps *)
  ++ rs_relisting [ ex_in "u" EModified true [(0, POpen)] [] [] ]                (* 410 Gone: listed again, still sleeping *)
  ++ [ LEv (ex_in "u" EModified true [(0, POpen)] [0] [(0, OSuccess)]) ]         (* retry: success, the cycle closes *)
  ++ rs_relisting [ ex_in "u" EModified true [] [] [] ]                          (* 410 Gone again *)
  ++ [ LEv (ex_in "u" EModified false [] [] []) ]                                (* an edit *)
  ++ [ LRestart ]
  ++ rs_relisting [ ex_in "u" EModified true [] [] [] ].                         (* the next process resumes it again *)

Definition ex_410_expected : list (nat * rs_reason * bool * list nat * list (nat * rs_outcome) * bool) :=
  [ (0, RsResume, true,  [0], [(0, OTemporary)], false);
    (0, RsResume, true,  [0], [],                false);
    (0, RsResume, true,  [0], [],                false);
    (0, RsResume, true,  [0], [(0, OSuccess)],   true);
    (0, RsNoop,   false, [],  [],                true);
    (0, RsUpdate, false, [1], [(1, OSuccess)],   true);
    (1, RsResume, true,  [0], [(0, OSuccess)],   true) ].

Definition ex_summary (en : rs_entry string) :=
  (en_epoch en, ob_reason (en_obs en), ob_initial (en_obs en), ob_selected (en_obs en), ob_invoked (en_obs en),
   ob_handled_after (en_obs en)).

Lemma ex_410_trace : map ex_summary (rs_trace String.eqb ex_regs1 ex_410) = ex_410_expected.
Proof. vm_compute. reflexivity. Qed.

Lemma ex_410_hypotheses :
  NoDup (map hd_ix ex_regs1) /\
  rs_uid_final String.eqb "u" ex_410 /\
  rs_c02_finished_persisted String.eqb ex_regs1 "u" 0 0 [] 0 ex_410.
Proof.
  split; [repeat constructor; simpl; intuition discriminate|].
  split.
  - simpl. repeat split; intros; discriminate.
  - vm_compute. repeat split; intros; try reflexivity; try discriminate.
Qed.

Lemma ex_410_counts :
  rs_successes String.eqb 0 "u" 0 (rs_trace String.eqb ex_regs1 ex_410) = 1 /\
  rs_successes String.eqb 1 "u" 0 (rs_trace String.eqb ex_regs1 ex_410) = 1.
Proof. split; vm_compute; reflexivity. Qed.

(* Non-vacuity of the deleting clause: an opted-in resume handler IS selected for a deleting object at first sight,
   one that did not opt in is not. *)
Definition ex_regs_del : list rs_hdecl := [rs_on_resume 0 0 0 (Some true); rs_on_resume 1 1 1 None; rs_on_reason RsDelete 2 2 2].
Definition ex_deleting_in : rs_in string :=
  {| in_key := "u"; in_evt := EListed;
     in_view := {| vw_old_none := false; vw_diff_empty := true; vw_deleting := true; vw_blocked := true; vw_prog := [] |};
     in_gate := true; in_match := [0; 1; 2]; in_awake := []; in_out := [] |}.
Lemma ex_deleting_selected :
  let o := snd (rs_step String.eqb ex_regs_del [] ex_deleting_in) in
  ob_reason o = RsDelete /\ ob_initial o = true /\ ob_selected o = [0; 2].
Proof. vm_compute. repeat split. Qed.
