(* C19 — concrete, non-trivial states on which the hypotheses of the property theorems hold (non-vacuity). *)
From Coq Require Import ZArith List String Bool.
From KV Require Import Model.Ensemble Model.Watch Proofs.Ensemble Proofs.Watch Proofs.WatchWorld Proofs.WatchLive.
Import ListNotations.
Open Scope Z_scope.

(* a run with an object, a delivered change, a stream end, and a failed watch request: the client sits in the
   retry back-off (PWatch), not paused, not failed, with a change on the server it has not seen *)
Definition ex_trace : list wlabel :=
  [WChange TAdded "a"; WC LReqList; WC (LListOk (Some 9) [("a"%string, Some 9)]);
   WC (LYield (YItem "a" (Some 9))); WC (LYield YListed); WC (LReqWatch (Some 9)); WC LWatchOk;
   WChange TModified "a"; WC (LLine (LnEv TModified (Some 10) "a")); WC (LYield (YEv TModified (Some 10) "a"));
   WC (LEnd EConn); WC (LReqWatch (Some 10)); WC (LFault F5xx); WChange TDeleted "a"]%string.

Lemma catch_up_hypotheses :
  exists w, wrun 1 (winit false 8) ex_trace = Some w /\ paused (cl w) = false /\ ph (cl w) = PWatch (Some 10) 1 /\
            ph (cl w) <> PFail /\ ph (cl w) <> PDead /\ List.length (log (sv w)) = 3%nat /\ cur (sv w) = 11.
Proof. eexists. split; [vm_compute; reflexivity |]. cbn. repeat split; discriminate. Qed.

(* a watch request is reached with a known "latest version seen" (9 -> 10: the versions gain a digit) *)
Lemma resume_hypotheses :
  exists s s', crun 1 (cinit false) (client_labels (firstn 11 ex_trace)) = Some s /\
               cstep 1 s (LReqWatch (Some 10)) = Some s' /\ latest (client_labels (firstn 11 ex_trace)) = Some 10.
Proof. eexists; eexists. split; [vm_compute; reflexivity |]. split; vm_compute; reflexivity. Qed.

(* an open stream takes an unknown ERROR *)
Lemma error_hypotheses :
  exists s s1, crun 0 (cinit false) (client_labels (firstn 7 ex_trace)) = Some s /\ (500 <> 410) /\
               cstep 0 s (LLine (LnErr 500)) = Some s1 /\ ph s1 = PFail.
Proof. eexists; eexists. split; [vm_compute; reflexivity |]. split; [discriminate |]. split; vm_compute; reflexivity. Qed.

(* paused while the stream is open, then resumed, nothing listed yet *)
Lemma resume_after_pause_hypotheses :
  exists s1 s2, crun 0 (cinit false) (client_labels (firstn 7 ex_trace) ++ [LPause]) = Some s1 /\ paused s1 = true /\
                crun 0 s1 [LResume; LEnd EClosed] = Some s2 /\ ~ In LReqList [LEnd EClosed] /\ ph s2 = PLoop (Some 9) /\ stopper s2 = true.
Proof.
  eexists; eexists. split; [vm_compute; reflexivity |]. split; [reflexivity |]. split; [vm_compute; reflexivity |].
  split; [intros [H | []]; discriminate |]. split; reflexivity.
Qed.

(* chunked bytes: two lines, the first split across chunks, a blank line in between *)
Lemma lines_hypotheses :
  jsonlines [[123; 125]; [10; 10; 49]; [50; 10]] = [[123; 125]; [49; 50]] /\
  (forall l, In l [[123; 125]; [49; 50]] -> nonl l /\ l <> []).
Proof.
  split; [vm_compute; reflexivity |].
  intros l [<- | [<- | []]]; (split; [intros b Hb; cbn in Hb; intuition (subst; discriminate) | discriminate]).
Qed.

(* a group rescan after which one kind of that group is gone and another group is untouched *)
Lemma update_resources_hypotheses :
  let x := ("a.dev"%string, r_cluster) in let y := ("a.dev"%string, r_spaced) in let z := ("b.dev"%string, r_spaced) in
  in_group (Some "a.dev"%string) x = true /\ ~ In x [y] /\
  gres_same (update_resources (Some "a.dev"%string) [x; z] [y]) [y; z] = true.
Proof.
  cbv zeta. split; [reflexivity |]. split; [intros [H | []]; discriminate | vm_compute; reflexivity].
Qed.

(* a served pair exists and is watched after a history with a removal *)
Lemma served_hypotheses :
  let i1 := {| watched := [r_spaced]; namespaces := [Some "ns1"; Some "ns2"]%string; peering := [] |} in
  let i2 := {| watched := [r_spaced; r_cluster]; namespaces := [Some "ns2"%string]; peering := [] |} in
  In (r_spaced, Some "ns2"%string) (served i2) /\ In (r_cluster, None) (served i2) /\
  List.length (watchers (run_adjust [i1])) = 2%nat.
Proof. cbv zeta. split; [vm_compute; tauto |]. split; vm_compute; tauto. Qed.
