(* C19 — progress from EVERY reachable state of the closed system client x server (Model/Watch.v):
   whenever the operator is not paused and the stream has not failed, a fault-free continuation exists
   after which every change the server made has reached the consumer. *)
From Coq Require Import ZArith List String Bool Lia.
From KV Require Import Model.Watch Proofs.Watch Proofs.WatchWorld.
Import ListNotations.
Open Scope Z_scope.

Lemma wrun_app : forall n a b w, wrun n w (a ++ b) = match wrun n w a with Some w1 => wrun n w1 b | None => None end.
Proof.
  induction a as [| l a IH]; intros b w; cbn; [reflexivity |].
  destruct (wstep n w l); [apply IH | reflexivity].
Qed.

Lemma orv_eqb_refl : forall a, orv_eqb a a = true.
Proof. intros a; apply orv_eqb_eq; reflexivity. Qed.

Lemma quiet_yield_items : forall items, forallb quiet (yield_items items ++ [WC (LYield YListed)]) = true.
Proof. induction items as [| it items IH]; cbn; [reflexivity | exact IH]. Qed.

Lemma quiet_deliver : forall cs, forallb quiet (deliver cs) = true.
Proof. induction cs as [| c cs IH]; cbn; [reflexivity | exact IH]. Qed.

(* a PGot state always carries an event (created by an LnEv line only) *)
Definition got_ev (s : cstate) : Prop := forall rv y, ph s = PGot rv y -> exists t o nm, y = YEv t o nm.

Lemma got_ev_run : forall n pa tr s, crun n (cinit pa) tr = Some s -> got_ev s.
Proof.
  intros n pa tr s H. eapply (crun_inv n got_ev); [| | exact H].
  - intros [p pa0 st] l s' HI Hs. unfold got_ev in *; cbn [ph] in *. unfold cstep in Hs; cbn [ph paused stopper] in Hs.
    destruct l; destruct p; cbn in Hs; crack; cbn [ph mk]; intros rvq yq E; try discriminate;
      try (eapply HI; exact E); try (injection E as <- <-; eauto).
    all: try (destruct f; discriminate).
    all: try (destruct st; discriminate).
  - intros rv y E; discriminate.
Qed.

(* ---------- stage 2a: a pending LIST is answered with the current state ---------- *)

Definition list_tail (s : server) : list wlabel :=
  let items := snapshot_of (log s) [] in
  WC (LListOk (Some (cur s)) items) :: yield_items items ++ [WC (LYield YListed)].

Lemma finish_list : forall n pa v0 tr1 w1 k,
  wrun n (winit pa v0) tr1 = Some w1 -> ph (cl w1) = PListWait k ->
  exists w', wrun n w1 (list_tail (sv w1)) = Some w' /\
    ph (cl w') = PLoop (Some (cur (sv w1))) /\ paused (cl w') = paused (cl w1) /\ sv w' = sv w1 /\
    forallb quiet (list_tail (sv w1)) = true /\
    (forall ch, In ch (log (sv w1)) -> c_rv ch <= cur (sv w1)) /\
    (forall ch, In ch (log (sv w1)) -> covered (tr1 ++ list_tail (sv w1)) ch).
Proof.
  intros n pa v0 tr1 [[p pau st] s] k Hr Hp. cbn in Hp. subst p.
  pose proof (winv_run n tr1 [] _ _ (winv_init pa v0) Hr) as [Hb _]. cbn in Hb.
  eexists. split.
  - unfold list_tail. cbn [wrun wstep cl sv]. unfold cstep; cbn [ph paused stopper mk]. cbn [sstep].
    rewrite Z.eqb_refl, items_same_refl. cbn [andb]. apply run_yield_items.
  - cbn. repeat split.
    + apply quiet_yield_items.
    + intros ch Hch. eapply below_In; eassumption.
    + intros ch Hch. left. exists (cur s), (snapshot_of (log s) []). split.
      * apply in_or_app; right. left; reflexivity.
      * eapply below_In; eassumption.
Qed.

(* ---------- stage 2b: an open, live stream receives what the server has ---------- *)

Lemma finish_stream : forall n pa v0 tr1 w1 rv,
  wrun n (winit pa v0) tr1 = Some w1 -> ph (cl w1) = POpen rv -> stopper (cl w1) = false ->
  exists tl w' v', wrun n w1 tl = Some w' /\ forallb quiet tl = true /\
    ph (cl w') = POpen (Some v') /\ paused (cl w') = paused (cl w1) /\
    log (sv w') = log (sv w1) /\ cur (sv w') = cur (sv w1) /\
    (forall ch, In ch (log (sv w1)) -> c_rv ch <= v') /\
    (forall ch, In ch (log (sv w1)) -> covered (tr1 ++ tl) ch).
Proof.
  intros n pa v0 tr1 [[p pau st] [l cu ho cs]] rv Hr Hp Hst. cbn in Hp, Hst. subst p st.
  pose proof (winv_run n tr1 [] _ _ (winv_init pa v0) Hr) as [Hb [_ Hstr]]. cbn in Hb, Hstr.
  destruct (Hstr rv (or_introl eq_refl)) as [v [-> Hcs]]. cbn in Hcs. subst cs.
  assert (Hnb : no_bm l).
  { exact (no_bm_run n tr1 _ _ (fun c (H : In c (log (sv (winit pa v0)))) => match H with end) Hr). }
  destruct (drain_run n (List.length l) l cu ho cu v pau Hb Hnb) as [v' [Hrun [Hnone Hle]]].
  { clear. induction l as [| c l IH]; cbn; [lia |]. destruct (Z.ltb v (c_rv c)); lia. }
  exists (deliver (drain (List.length l) l v)). eexists. exists v'.
  split; [exact Hrun |]. split; [apply quiet_deliver |]. cbn [cl sv ph log cur mk paused].
  assert (Hall : forall ch, In ch l -> c_rv ch <= v').
  { pose proof (next_after_spec l cu v' Hb) as Hs. rewrite Hnone in Hs. exact Hs. }
  repeat split; try reflexivity; try exact Hall.
  intros ch Hch.
  assert (Hr2 : wrun n (winit pa v0) (tr1 ++ deliver (drain (List.length l) l v)) =
                Some {| cl := mk (POpen (Some v')) pau false; sv := {| log := l; cur := cu; horizon := ho; cursor := Some v' |} |}).
  { rewrite wrun_app, Hr. exact Hrun. }
  destruct (no_change_skipped n pa v0 _ _ (Some v') Hr2 eq_refl) as [v2 [E [_ Hcov]]]. injection E as <-.
  apply Hcov; [exact Hch | apply Hall; exact Hch].
Qed.

(* ---------- stage 1: from any live, un-paused state to a pending LIST or an open live stream ---------- *)

Definition same_data (a b : server) : Prop := log a = log b /\ cur a = cur b.

Definition anchored (w : world) : Prop :=
  (exists k, ph (cl w) = PListWait k) \/ (exists rv, ph (cl w) = POpen rv /\ stopper (cl w) = false).

Lemma to_anchor : forall n w,
  paused (cl w) = false -> ph (cl w) <> PFail -> ph (cl w) <> PDead ->
  (forall rv y, ph (cl w) = PGot rv y -> stopper (cl w) = false /\ exists t o nm, y = YEv t o nm) ->
  exists p w1, wrun n w p = Some w1 /\ forallb quiet p = true /\ same_data (sv w1) (sv w) /\
               paused (cl w1) = false /\ anchored w1.
Proof.
  intros n [[p pa st] s] Hpa Hf Hd Hg. cbn in Hpa, Hf, Hd, Hg. subst pa.
  (* the common tail from the head of the watch loop *)
  assert (Loop : forall rv, exists p w1, wrun n {| cl := mk (PLoop rv) false st; sv := s |} p = Some w1 /\ forallb quiet p = true /\
                   same_data (sv w1) s /\ paused (cl w1) = false /\ anchored w1).
  { intros rv. destruct st.
    - exists [WC LReqList]. eexists. split; [cbn; reflexivity |]. cbn. repeat split. left; eexists; reflexivity.
    - exists [WC (LReqWatch rv); WC LWatchOk]. eexists. split.
      + cbn [wrun wstep cl sv]. unfold cstep; cbn [ph paused stopper mk]. rewrite orv_eqb_refl. cbn. reflexivity.
      + cbn. repeat split. right; eexists; split; reflexivity. }
  destruct p.
  - (* PIdle *) exists [WC LReqList]. eexists. split; [cbn; reflexivity |]. cbn. repeat split. left; eexists; reflexivity.
  - (* PList *) exists [WC LReqList]. eexists. split; [cbn; reflexivity |]. cbn. repeat split. left; eexists; reflexivity.
  - (* PListWait *) exists []. eexists. split; [reflexivity |]. cbn. repeat split. left; eexists; reflexivity.
  - (* PItems *)
    destruct (Loop rv) as [p [w1 [Hrun [Hq [Hsd [Hp1 Ha]]]]]].
    exists ((yield_items rest ++ [WC (LYield YListed)]) ++ p), w1. split.
    + rewrite wrun_app. rewrite run_yield_items. exact Hrun.
    + split; [rewrite forallb_app, quiet_yield_items, Hq; reflexivity |]. auto.
  - (* PLoop *) exact (Loop rv).
  - (* PWatch *)
    destruct st.
    + exists [WC (LReqWatch rv); WC LWatchOk; WC LReqList]. eexists. split.
      * cbn [wrun wstep cl sv]. unfold cstep; cbn [ph paused stopper mk]. rewrite orv_eqb_refl. cbn. reflexivity.
      * cbn. repeat split. left; eexists; reflexivity.
    + exists [WC (LReqWatch rv); WC LWatchOk]. eexists. split.
      * cbn [wrun wstep cl sv]. unfold cstep; cbn [ph paused stopper mk]. rewrite orv_eqb_refl. cbn. reflexivity.
      * cbn. repeat split. right; eexists; split; reflexivity.
  - (* PWatchWait *)
    destruct st.
    + exists [WC LWatchOk; WC LReqList]. eexists. split; [cbn; reflexivity |]. cbn. repeat split. left; eexists; reflexivity.
    + exists [WC LWatchOk]. eexists. split; [cbn; reflexivity |]. cbn. repeat split. right; eexists; split; reflexivity.
  - (* POpen *)
    destruct st.
    + exists [WC (LEnd EClosed); WC LReqList]. eexists. split; [cbn; reflexivity |]. cbn. repeat split. left; eexists; reflexivity.
    + exists []. eexists. split; [reflexivity |]. cbn. repeat split. right; eexists; split; reflexivity.
  - (* PGot *)
    destruct (Hg rv y eq_refl) as [Hst [t [o [nm ->]]]]. cbn in Hst. subst st.
    exists [WC (LYield (YEv t o nm))]. eexists. split.
    + cbn [wrun wstep cl sv]. unfold cstep; cbn [ph paused stopper mk].
      assert (E1 : etype_eqb t t = true) by (apply etype_eqb_eq; reflexivity). rewrite E1, String.eqb_refl, orv_eqb_refl. cbn. reflexivity.
    + cbn. repeat split. right; eexists; split; reflexivity.
  - contradiction.
  - contradiction.
Qed.

(* ---------- the theorem ---------- *)

Theorem catch_up : forall n pa v0 tr w,
  wrun n (winit pa v0) tr = Some w ->
  paused (cl w) = false -> ph (cl w) <> PFail -> ph (cl w) <> PDead ->
  exists tr' w' v',
    wrun n w tr' = Some w' /\ forallb quiet tr' = true /\
    log (sv w') = log (sv w) /\ cur (sv w') = cur (sv w) /\ paused (cl w') = false /\
    position (ph (cl w')) = Some (Some v') /\
    (forall ch, In ch (log (sv w')) -> c_rv ch <= v') /\
    (forall ch, In ch (log (sv w')) -> covered (tr ++ tr') ch).
Proof.
  intros n pa v0 tr w Hr Hpa Hf Hd.
  assert (Hg : forall rv y, ph (cl w) = PGot rv y -> stopper (cl w) = false /\ exists t o nm, y = YEv t o nm).
  { intros rv y E. pose proof (wrun_client _ _ _ _ Hr) as Hc. cbn in Hc. split.
    - destruct (pause_inv_run _ _ _ _ Hc) as [_ [H2 _]]. eapply H2; exact E.
    - eapply (got_ev_run _ _ _ _ Hc); exact E. }
  destruct (to_anchor n w Hpa Hf Hd Hg) as [p [w1 [Hrun1 [Hq1 [[Hl1 Hc1] [Hp1 Ha]]]]]].
  assert (Hr1 : wrun n (winit pa v0) (tr ++ p) = Some w1) by (rewrite wrun_app, Hr; exact Hrun1).
  destruct Ha as [[k Hk] | [rv [Ho Hst]]].
  - destruct (finish_list n pa v0 _ _ k Hr1 Hk) as [w' [Hrun2 [Hph [Hpa2 [Hsv [Hq2 [Hle Hcov]]]]]]].
    exists (p ++ list_tail (sv w1)), w', (cur (sv w1)).
    split; [rewrite wrun_app, Hrun1; exact Hrun2 |].
    split; [rewrite forallb_app, Hq1, Hq2; reflexivity |].
    rewrite Hsv. split; [exact Hl1 |]. split; [exact Hc1 |]. split; [congruence |].
    split; [rewrite Hph; reflexivity |]. split; [exact Hle |].
    intros ch Hch. rewrite app_assoc. apply Hcov; exact Hch.
  - destruct (finish_stream n pa v0 _ _ rv Hr1 Ho Hst) as [tl [w' [v' [Hrun2 [Hq2 [Hph [Hpa2 [Hl2 [Hc2 [Hle Hcov]]]]]]]]]].
    exists (p ++ tl), w', v'.
    split; [rewrite wrun_app, Hrun1; exact Hrun2 |].
    split; [rewrite forallb_app, Hq1, Hq2; reflexivity |].
    split; [congruence |]. split; [congruence |]. split; [congruence |].
    split; [rewrite Hph; reflexivity |].
    rewrite Hl2. split; [exact Hle |].
    intros ch Hch. rewrite app_assoc. apply Hcov; exact Hch.
Qed.

(* after a Resume the theorem applies at once: watching restarts (with a listing whenever the old stream was
   closed by the pause, see fresh_list_on_resume) and catches up *)
Corollary resume_catches_up : forall n pa v0 tr w w1,
  wrun n (winit pa v0) tr = Some w -> paused (cl w) = true -> ph (cl w) <> PFail -> ph (cl w) <> PDead ->
  wstep n w (WC LResume) = Some w1 ->
  exists tr' w' v',
    wrun n w1 tr' = Some w' /\ forallb quiet tr' = true /\
    log (sv w') = log (sv w) /\ position (ph (cl w')) = Some (Some v') /\
    (forall ch, In ch (log (sv w')) -> c_rv ch <= v') /\
    (forall ch, In ch (log (sv w')) -> covered (tr ++ WC LResume :: tr') ch).
Proof.
  intros n pa v0 tr w w1 Hr Hpa Hf Hd Hs.
  assert (Hr1 : wrun n (winit pa v0) (tr ++ [WC LResume]) = Some w1) by (rewrite wrun_app, Hr; cbn [wrun]; rewrite Hs; reflexivity).
  destruct w as [[p pau st] s]. cbn in Hpa, Hf, Hd. subst pau.
  assert (Hw1 : cl w1 = mk p false st /\ sv w1 = s).
  { cbn in Hs. unfold cstep in Hs; cbn [ph paused stopper] in Hs.
    destruct p; cbn in Hs; try (injection Hs as <-; split; reflexivity).
    exfalso. pose proof (wrun_client _ _ _ _ Hr) as Hc. cbn in Hc.
    destruct (pause_inv_run _ _ _ _ Hc) as [H1 [H2 _]]. unfold finished in H1; cbn in H1, H2.
    specialize (H1 eq_refl eq_refl). specialize (H2 rv y eq_refl). congruence. }
  destruct Hw1 as [Hc1 Hs1].
  destruct (catch_up n pa v0 _ _ Hr1) as [tr' [w' [v' [Hrun [Hq [Hl [_ [_ [Hpos [Hle Hcov]]]]]]]]]].
  - rewrite Hc1; reflexivity.
  - rewrite Hc1; exact Hf.
  - rewrite Hc1; exact Hd.
  - exists tr', w', v'. split; [exact Hrun |]. split; [exact Hq |]. rewrite Hs1 in Hl. cbn [sv].
    split; [exact Hl |]. split; [exact Hpos |]. split; [exact Hle |].
    intros ch Hch. rewrite <- app_assoc in Hcov. apply Hcov; exact Hch.
Qed.
