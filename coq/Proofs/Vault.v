(* C12 — invariants of Model/Vault.v (credentials.Vault + auth.authenticated + authenticator). *)
From Coq Require Import ZArith List Bool Lia Arith.
From KV Require Import Model.Vault.
Import ListNotations.

(* ---------- association lists ---------- *)

Lemma lookupn_in : forall {A} k (l : list (nat * A)) v, lookupn k l = Some v -> In (k, v) l.
Proof.
  intros A k l. induction l as [|[k' v'] l IH]; intros v H; simpl in H; [discriminate|].
  destruct (Nat.eqb k k') eqn:E.
  - apply Nat.eqb_eq in E. subst. injection H as <-. left; reflexivity.
  - right. apply IH. exact H.
Qed.

Lemma in_setn : forall {A} k (v : A) l k' v', In (k', v') (setn k v l) -> (k' = k /\ v' = v) \/ In (k', v') l.
Proof.
  intros A k v l. induction l as [|[k0 v0] l IH]; intros k' v' H; simpl in H.
  - destruct H as [H|[]]. injection H as <- <-. left; auto.
  - destruct (Nat.eqb k k0) eqn:E.
    + destruct H as [H|H]; [injection H as <- <-; left; auto|right; right; exact H].
    + destruct H as [H|H]; [right; left; exact H|].
      destruct (IH _ _ H) as [H1|H1]; [left; exact H1|right; right; exact H1].
Qed.

Lemma lookupn_setn : forall {A} k (v : A) l k', lookupn k' (setn k v l) = if Nat.eqb k' k then Some v else lookupn k' l.
Proof.
  intros A k v l. induction l as [|[k0 v0] l IH]; intros k'; simpl.
  - destruct (Nat.eqb k' k); reflexivity.
  - destruct (Nat.eqb k k0) eqn:E; simpl.
    + apply Nat.eqb_eq in E. subst k0. destruct (Nat.eqb k' k); reflexivity.
    + destruct (Nat.eqb k' k0) eqn:E2.
      * apply Nat.eqb_eq in E2. subst k0. destruct (Nat.eqb k' k) eqn:E3; [|reflexivity].
        apply Nat.eqb_eq in E3. subst. rewrite Nat.eqb_refl in E. discriminate.
      * apply IH.
Qed.

Lemma in_deln : forall {A} k (l : list (nat * A)) k' v', In (k', v') (deln k l) -> In (k', v') l /\ k' <> k.
Proof.
  intros A k l. induction l as [|[k0 v0] l IH]; intros k' v' H; simpl in H; [contradiction|].
  destruct (Nat.eqb k k0) eqn:E.
  - destruct (IH _ _ H) as [H1 H2]. split; [right; exact H1|exact H2].
  - destruct H as [H|H].
    + injection H as <- <-. split; [left; reflexivity|]. intros ->. rewrite Nat.eqb_refl in E. discriminate.
    + destruct (IH _ _ H) as [H1 H2]. split; [right; exact H1|exact H2].
Qed.

Lemma lookupn_deln : forall {A} k (l : list (nat * A)) k', lookupn k' (deln k l) = if Nat.eqb k' k then None else lookupn k' l.
Proof.
  intros A k l. induction l as [|[k0 v0] l IH]; intros k'; simpl.
  - destruct (Nat.eqb k' k); reflexivity.
  - destruct (Nat.eqb k k0) eqn:E.
    + apply Nat.eqb_eq in E. subst k0. rewrite IH. destruct (Nat.eqb k' k); reflexivity.
    + simpl. destruct (Nat.eqb k' k0) eqn:E2.
      * apply Nat.eqb_eq in E2. subst k0. rewrite Nat.eqb_sym in E. rewrite E. reflexivity.
      * apply IH.
Qed.

Lemma hist_setn : forall k v iv k', hist k' (setn k v iv) = if Nat.eqb k' k then v else hist k' iv.
Proof. intros. unfold hist. rewrite lookupn_setn. destruct (Nat.eqb k' k); reflexivity. Qed.

Lemma last2_length : forall {A} (l : list A), length (last2 l) <= 2.
Proof. intros A l. unfold last2. rewrite skipn_length. lia. Qed.

Lemma is_empty_nil : forall {A} (l : list A), is_empty l = true -> l = [].
Proof. intros A [|a l] H; [reflexivity|discriminate]. Qed.

Lemma is_empty_length : forall {A} (l : list A), is_empty l = Nat.eqb (length l) 0.
Proof. intros A [|a l]; reflexivity. Qed.

Lemma in_keys : forall {A} (k : nat) (v : A) (l : list (nat * A)), In (k, v) l -> In k (map fst l).
Proof. intros A k v l H. apply (in_map (@fst nat A)) in H. exact H. Qed.

Lemma nodup_lookupn : forall {A} (l : list (nat * A)) k v, NoDup (map fst l) -> In (k, v) l -> lookupn k l = Some v.
Proof.
  intros A l. induction l as [|[k0 v0] l IH]; intros k v Hnd Hin; simpl in *; [contradiction|].
  inversion Hnd as [|? ? Hnot Hnd']; subst.
  destruct Hin as [Heq|Hin].
  - injection Heq as -> ->. rewrite Nat.eqb_refl. reflexivity.
  - destruct (Nat.eqb k k0) eqn:E.
    + apply Nat.eqb_eq in E. subst. exfalso. apply Hnot. eapply in_keys; eauto.
    + apply IH; assumption.
Qed.

Lemma keys_setn : forall {A} k (v : A) (l : list (nat * A)) k', In k' (map fst (setn k v l)) -> k' = k \/ In k' (map fst l).
Proof.
  intros A k v l. induction l as [|[k0 v0] l IH]; intros k' H; simpl in *.
  - destruct H as [H|[]]. left; auto.
  - destruct (Nat.eqb k k0) eqn:E; simpl in H.
    + apply Nat.eqb_eq in E. subst. destruct H as [H|H]; [left; auto|right; right; exact H].
    + destruct H as [H|H]; [right; left; exact H|]. destruct (IH _ H) as [H1|H1]; [left; exact H1|right; right; exact H1].
Qed.

Lemma nodup_setn : forall {A} k (v : A) (l : list (nat * A)), NoDup (map fst l) -> NoDup (map fst (setn k v l)).
Proof.
  intros A k v l. induction l as [|[k0 v0] l IH]; intros Hnd; simpl.
  - constructor; [intros []|constructor].
  - inversion Hnd as [|? ? Hnot Hnd']; subst. destruct (Nat.eqb k k0) eqn:E; simpl.
    + apply Nat.eqb_eq in E. subst. constructor; assumption.
    + constructor; [|apply IH; exact Hnd'].
      intros Hin. destruct (keys_setn _ _ _ _ Hin) as [H1|H1]; [subst; rewrite Nat.eqb_refl in E; discriminate|contradiction].
Qed.

Lemma keys_deln : forall {A} k (l : list (nat * A)) k', In k' (map fst (deln k l)) -> In k' (map fst l).
Proof.
  intros A k l. induction l as [|[k0 v0] l IH]; intros k' H; simpl in *; [contradiction|].
  destruct (Nat.eqb k k0); simpl in H; [right; apply IH; exact H|].
  destruct H as [H|H]; [left; exact H|right; apply IH; exact H].
Qed.

Lemma nodup_deln : forall {A} k (l : list (nat * A)), NoDup (map fst l) -> NoDup (map fst (deln k l)).
Proof.
  intros A k l. induction l as [|[k0 v0] l IH]; intros Hnd; simpl; [constructor|].
  inversion Hnd as [|? ? Hnot Hnd']; subst. destruct (Nat.eqb k k0); simpl; [apply IH; exact Hnd'|].
  constructor; [|apply IH; exact Hnd']. intros Hin. apply Hnot. eapply keys_deln; eauto.
Qed.

Lemma nodup_filter_keys : forall {A} (f : nat * A -> bool) (l : list (nat * A)), NoDup (map fst l) -> NoDup (map fst (filter f l)).
Proof.
  intros A f l. induction l as [|x l IH]; intros Hnd; simpl; [constructor|].
  inversion Hnd as [|? ? Hnot Hnd']; subst. destruct (f x); simpl; [|apply IH; exact Hnd'].
  constructor; [|apply IH; exact Hnd']. intros Hin. apply Hnot.
  apply in_map_iff in Hin. destruct Hin as (y & Hy & Hin). apply filter_In in Hin. destruct Hin as [Hin _].
  apply in_map_iff. exists y. auto.
Qed.

Lemma filter_len_le : forall {A} (f : A -> bool) l, length (filter f l) <= length l.
Proof. intros A f l. induction l as [|x l IH]; simpl; [lia|]. destruct (f x); simpl; lia. Qed.

Lemma filter_length_same : forall {A} (f : A -> bool) l, length (filter f l) = length l -> filter f l = l.
Proof.
  intros A f l. induction l as [|x l IH]; intros H; simpl in *; [reflexivity|].
  destruct (f x); simpl in H.
  - f_equal. apply IH. lia.
  - pose proof (filter_len_le f l). lia.
Qed.

(* ---------- _update_converted keeps the pool well-formed ---------- *)

Definition CurOK (c : list (nat * item)) (n : nat) (iv : list (nat * list item)) (invd : list nat) : Prop :=
  (forall k it, In (k, it) c -> iid it < n) /\
  (forall k1 i1 k2 i2, In (k1, i1) c -> In (k2, i2) c -> iid i1 = iid i2 -> k1 = k2) /\
  (forall k it, In (k, it) c -> ~ In (iid it) invd) /\
  (forall k it, lookupn k c = Some it -> cred_in (cred it) (hist k iv) = false) /\
  NoDup (map fst c).

Lemma update_converted_ok : forall src c n iv invd c' n',
  (forall id, In id invd -> id < n) ->
  CurOK c n iv invd -> update_converted src c iv n = (c', n') ->
  CurOK c' n' iv invd /\ n <= n' /\ (forall k it, In (k, it) c' -> In (k, it) c \/ n <= iid it).
Proof.
  induction src as [|[[[k cr] p] e] src IH]; intros c n iv invd c' n' Hinvd HC H; simpl in H.
  - injection H as <- <-. split; [exact HC|]. split; [lia|]. intros; left; assumption.
  - destruct (cred_in cr (hist k iv)) eqn:Ecr.
    + apply (IH _ _ _ _ _ _ Hinvd HC H).
    + destruct HC as (H1 & H2 & H3 & H4 & H5).
      assert (HC' : CurOK (setn k {| iid := n; cred := cr; prio := p; exp := e |} c) (S n) iv invd).
      { split; [|split; [|split; [|split]]].
        - intros k0 it Hin. destruct (in_setn _ _ _ _ _ Hin) as [[_ ->]|Hin']; [simpl; lia|].
          specialize (H1 _ _ Hin'). lia.
        - intros k1 i1 k2 i2 Hi1 Hi2 Heq.
          destruct (in_setn _ _ _ _ _ Hi1) as [[-> ->]|Hi1']; destruct (in_setn _ _ _ _ _ Hi2) as [[-> ->]|Hi2'].
          + reflexivity.
          + simpl in Heq. specialize (H1 _ _ Hi2'). lia.
          + simpl in Heq. specialize (H1 _ _ Hi1'). lia.
          + eapply H2; eauto.
        - intros k0 it Hin. destruct (in_setn _ _ _ _ _ Hin) as [[_ ->]|Hin'].
          + simpl. intros Hbad. specialize (Hinvd _ Hbad). lia.
          + eapply H3; eauto.
        - intros k0 it Hl. rewrite lookupn_setn in Hl. destruct (Nat.eqb k0 k) eqn:E.
          + apply Nat.eqb_eq in E. subst k0. injection Hl as <-. simpl. exact Ecr.
          + apply H4. exact Hl.
        - apply nodup_setn. exact H5. }
      assert (Hinvd' : forall id, In id invd -> id < S n) by (intros id Hid; specialize (Hinvd _ Hid); lia).
      destruct (IH _ _ _ _ _ _ Hinvd' HC' H) as (Hok & Hle & Horig). split; [exact Hok|]. split; [lia|].
      intros k0 it Hin. destruct (Horig _ _ Hin) as [Hin'|Hge]; [|right; lia].
      destruct (in_setn _ _ _ _ _ Hin') as [[_ ->]|Hin'']; [right; simpl; lia|left; exact Hin''].
Qed.

(* ---------- the invariant ---------- *)

Definition b2n (b : bool) : nat := if b then 1 else 0.

Record Inv (e0 : nat) (s : vstate) : Prop := {
  I_cur : CurOK (cur s) (nextid s) (inv s) (invalidated s);
  I_inv_lt : forall id, In id (invalidated s) -> id < nextid s;
  I_nodup : NoDup (invalidated s);
  I_hist : forall k, length (hist k (inv s)) <= 3;
  I_busy : busy s = true -> ready s = false;
  I_count : flips s = wakes s + b2n (negb (ready s || busy s));
  I_credit : flips s + b2n (ready s && is_empty (cur s)) <= length (invalidated s) + barren s + expirations s + e0
}.

Definition e0_of (src : list (nat * Z * Z * option Z)) : nat := b2n (is_empty (fst (update_converted src [] [] 0))).

Lemma CurOK_nil : forall iv invd, CurOK [] 0 iv invd.
Proof. intros. repeat split; intros; simpl in *; try contradiction; try discriminate. constructor. Qed.

Lemma Inv_init : forall src, Inv (e0_of src) (init src).
Proof.
  intros src. unfold init, e0_of.
  destruct (update_converted src [] [] 0) as [c n] eqn:H.
  destruct (update_converted_ok src [] 0 [] [] c n (fun id (Hf : In id []) => match Hf with end) (CurOK_nil _ _) H) as [Hok _].
  constructor; simpl.
  - exact Hok.
  - intros id [].
  - constructor.
  - intros k. unfold hist. simpl. lia.
  - discriminate.
  - destruct (is_empty c); reflexivity.
  - destruct (is_empty c); simpl; lia.
Qed.

(* steps that only change a requester's state keep the invariant *)
Lemma Inv_set_req : forall e0 s r x, Inv e0 s -> Inv e0 (set_req s r x).
Proof. intros e0 s r x [HC Hlt Hnd Hh Hb Hcnt Hcr]. constructor; simpl; assumption. Qed.

Lemma CurOK_sub : forall c c' n iv invd,
  CurOK c n iv invd -> (forall k it, In (k, it) c' -> In (k, it) c) -> NoDup (map fst c') -> CurOK c' n iv invd.
Proof.
  intros c c' n iv invd (H1 & H2 & H3 & H4 & H5) Hsub Hnd.
  split; [|split; [|split; [|split]]]; eauto.
  - intros k it Hl. apply H4. apply nodup_lookupn; [exact H5|]. apply Hsub. apply lookupn_in. exact Hl.
Qed.

Lemma Inv_step : forall e0 s l s', Inv e0 s -> step s l = Some s' -> Inv e0 s'.
Proof.
  intros e0 s l s' HI H.
  destruct l as [r now blocked|r o|r k id|r|r|r blocked|r o|r again| |src]; simpl in H.
  - (* Expire *)
    destruct HI as [HC Hlt Hnd Hh Hb Hcnt Hcr].
    destruct (rget r s); try discriminate. destruct (ready s) eqn:Er; [|discriminate].
    set (c' := drop_expired now (cur s)) in *.
    assert (Hsub : forall k it, In (k, it) c' -> In (k, it) (cur s)).
    { intros k it Hin. unfold c', drop_expired in Hin. apply filter_In in Hin. tauto. }
    assert (HC' : CurOK c' (nextid s) (inv s) (invalidated s)).
    { eapply CurOK_sub; [exact HC|exact Hsub|]. apply nodup_filter_keys. destruct HC as (_ & _ & _ & _ & H5). exact H5. }
    assert (Hbz : busy s = false) by (destruct (busy s); [specialize (Hb eq_refl); discriminate|reflexivity]).
    destruct (negb (Nat.eqb (length c') (length (cur s))) && is_empty c') eqn:Ew;
      destruct blocked; simpl in H; try discriminate; injection H as <-; constructor; simpl; try assumption;
      try (intros; reflexivity); try (intros Hx; rewrite Hbz in Hx; discriminate);
      try (rewrite Hbz in *; simpl in *; lia).
    (* not waiting: either nothing was dropped, or something is left *)
    apply andb_false_iff in Ew. destruct Ew as [Ew|Ew].
    + apply negb_false_iff in Ew. apply Nat.eqb_eq in Ew.
      assert (Hsame : c' = cur s) by (apply filter_length_same; exact Ew). rewrite Hsame. exact Hcr.
    + rewrite Ew. simpl. destruct (is_empty (cur s)); simpl in *; lia.
  - (* WakeExp *)
    destruct (rget r s); try discriminate.
    match type of H with (if ?c then _ else _) = _ => destruct c end; [|discriminate].
    injection H as <-. apply Inv_set_req. exact HI.
  - (* Select *)
    destruct (rget r s); try discriminate. destruct (lookupn k (cur s)); try discriminate.
    match type of H with (if ?c then _ else _) = _ => destruct c end; [|discriminate].
    injection H as <-. apply Inv_set_req. exact HI.
  - (* SelectErr *)
    destruct (rget r s); try discriminate.
    match type of H with (if ?c then _ else _) = _ => destruct c end; [|discriminate].
    injection H as <-. exact HI.
  - (* Done *)
    destruct (rget r s); try discriminate. injection H as <-. apply Inv_set_req. exact HI.
  - (* Invalidate *)
    destruct HI as [HC Hlt Hnd Hh Hb Hcnt Hcr].
    destruct (rget r s) as [| |k it| |]; try discriminate.
    destruct (lookupn k (cur s)) as [it'|] eqn:Hl.
    + destruct (Nat.eqb (iid it') (iid it)) eqn:Eid.
      * (* effective *)
        apply Nat.eqb_eq in Eid.
        destruct (Bool.eqb blocked (is_empty (deln k (cur s)))); [|discriminate].
        injection H as <-.
        destruct HC as (H1 & H2 & H3 & H4 & H5).
        pose proof (lookupn_in _ _ _ Hl) as Hin'.
        constructor; simpl.
        -- split; [|split; [|split; [|split]]].
           ++ intros k0 it0 Hin. destruct (in_deln _ _ _ _ Hin) as [Hin0 _]. eapply H1; eauto.
           ++ intros k1 i1 k2 i2 Hi1 Hi2. destruct (in_deln _ _ _ _ Hi1) as [Hi1' _].
              destruct (in_deln _ _ _ _ Hi2) as [Hi2' _]. eapply H2; eauto.
           ++ intros k0 it0 Hin. destruct (in_deln _ _ _ _ Hin) as [Hin0 Hne].
              intros [Hbad|Hbad]; [|eapply H3; eauto].
              apply Hne. eapply (H2 k0 it0 k it'); eauto. congruence.
           ++ intros k0 it0 Hl0. rewrite lookupn_deln in Hl0. destruct (Nat.eqb k0 k) eqn:E; [discriminate|].
              rewrite hist_setn. rewrite E. apply H4. exact Hl0.
           ++ apply nodup_deln. exact H5.
        -- intros id0 [<-|Hid]; [rewrite <- Eid; eapply H1; eauto|apply Hlt; exact Hid].
        -- constructor; [|exact Hnd]. rewrite <- Eid. eapply H3; eauto.
        -- intros k0. rewrite hist_setn. destruct (Nat.eqb k0 k); [|apply Hh].
           rewrite app_length. pose proof (last2_length (hist k (inv s))). simpl. lia.
        -- intros Hbz. specialize (Hb Hbz). destruct (is_empty (deln k (cur s))); [reflexivity|exact Hb].
        -- destruct (is_empty (deln k (cur s))); simpl.
           ++ destruct (ready s) eqn:Er; simpl.
              ** destruct (busy s) eqn:Eb; [specialize (Hb eq_refl); discriminate|]. simpl in *. lia.
              ** exact Hcnt.
           ++ exact Hcnt.
        -- destruct (is_empty (deln k (cur s))) eqn:Ee; simpl.
           ++ destruct (ready s); simpl in *; lia.
           ++ rewrite andb_false_r. simpl.
              destruct (ready s && is_empty (cur s)); simpl in *; lia.
      * (* identity differs: nothing removed *)
        destruct (Bool.eqb blocked (is_empty (cur s))); [|discriminate].
        injection H as <-. constructor; simpl; try assumption.
        -- intros Hbz. specialize (Hb Hbz). destruct (is_empty (cur s)); [reflexivity|exact Hb].
        -- destruct (is_empty (cur s)); simpl; [|exact Hcnt].
           destruct (ready s) eqn:Er; simpl; [|exact Hcnt].
           destruct (busy s) eqn:Eb; [specialize (Hb eq_refl); discriminate|]. simpl in *. lia.
        -- destruct (is_empty (cur s)) eqn:Ee; simpl.
           ++ destruct (ready s); simpl in *; lia.
           ++ rewrite andb_false_r in *. simpl in *. lia.
    + (* key gone: nothing removed *)
      destruct (Bool.eqb blocked (is_empty (cur s))); [|discriminate].
      injection H as <-. constructor; simpl; try assumption.
      -- intros Hbz. specialize (Hb Hbz). destruct (is_empty (cur s)); [reflexivity|exact Hb].
      -- destruct (is_empty (cur s)); simpl; [|exact Hcnt].
         destruct (ready s) eqn:Er; simpl; [|exact Hcnt].
         destruct (busy s) eqn:Eb; [specialize (Hb eq_refl); discriminate|]. simpl in *. lia.
      -- destruct (is_empty (cur s)) eqn:Ee; simpl.
         ++ destruct (ready s); simpl in *; lia.
         ++ rewrite andb_false_r in *. simpl in *. lia.
  - (* Wake *)
    destruct (rget r s); try discriminate.
    match type of H with (if ?c then _ else _) = _ => destruct c end; [|discriminate].
    injection H as <-. apply Inv_set_req. exact HI.
  - (* Recheck *)
    destruct (rget r s); try discriminate.
    match type of H with (if ?c then _ else _) = _ => destruct c end; [|discriminate].
    injection H as <-. apply Inv_set_req. exact HI.
  - (* WakeEmpty *)
    destruct HI as [HC Hlt Hnd Hh Hb Hcnt Hcr].
    destruct (negb (ready s) && negb (busy s)) eqn:E; [|discriminate].
    apply andb_true_iff in E. destruct E as [E1 E2]. apply negb_true_iff in E1. apply negb_true_iff in E2.
    injection H as <-. constructor; simpl; try assumption.
    + reflexivity.
    + rewrite E1, E2 in Hcnt. simpl in Hcnt. lia.
    + rewrite E1 in Hcr. simpl in Hcr. exact Hcr.
  - (* Populate *)
    destruct HI as [HC Hlt Hnd Hh Hb Hcnt Hcr].
    destruct (busy s) eqn:Eb; [|discriminate]. specialize (Hb eq_refl).
    destruct (update_converted src (cur s) (inv s) (nextid s)) as [c' n'] eqn:Hu.
    injection H as <-.
    destruct (update_converted_ok _ _ _ _ _ _ _ Hlt HC Hu) as (Hok & Hle & _).
    constructor; simpl; try assumption.
    + intros id Hid. specialize (Hlt _ Hid). lia.
    + discriminate.
    + rewrite Hb in Hcnt. simpl in Hcnt. exact Hcnt.
    + rewrite Hb in Hcr. simpl in Hcr. destruct (is_empty c'); simpl; lia.
Qed.

Lemma Inv_run : forall e0 tr s s', Inv e0 s -> run s tr = Some s' -> Inv e0 s'.
Proof.
  intros e0 tr. induction tr as [|l tr IH]; intros s s' HI H; simpl in H.
  - injection H as <-. exact HI.
  - destruct (step s l) as [s1|] eqn:Hs; [|discriminate]. eapply IH; [eapply Inv_step; eauto|exact H].
Qed.

Lemma reachable_inv : forall src tr s, run (init src) tr = Some s -> Inv (e0_of src) s.
Proof. intros src tr s H. eapply Inv_run; [apply Inv_init|exact H]. Qed.

(* ---------- what the requesters hold ---------- *)

Definition held (x : rstate) : option (nat * item) :=
  match x with RHold k it | RBlocked k it | RAfter k it => Some (k, it) | _ => None end.

Definition gone (x : rstate) : option (nat * item) :=
  match x with RBlocked k it | RAfter k it => Some (k, it) | _ => None end.

(* an item a requester holds is an old identity, unique to its key; once the requester has been through
   invalidate() that identity is nowhere in the pool any more (and never comes back) *)
Definition HInv (s : vstate) : Prop :=
  (forall r k it, held (rget r s) = Some (k, it) ->
     iid it < nextid s /\ forall k' it', In (k', it') (cur s) -> iid it' = iid it -> k' = k) /\
  (forall r k it, gone (rget r s) = Some (k, it) ->
     forall k' it', In (k', it') (cur s) -> iid it' <> iid it).

Lemma rget_set : forall s r x r' (s' : vstate),
  req s' = with_req s r x -> rget r' s' = if Nat.eqb r' r then x else rget r' s.
Proof.
  intros s r x r' s' H. unfold rget. rewrite H. unfold with_req. rewrite lookupn_setn.
  destruct (Nat.eqb r' r); reflexivity.
Qed.

Lemma HInv_change : forall s s' r0 x,
  HInv s ->
  (forall k it, In (k, it) (cur s') -> In (k, it) (cur s)) -> nextid s' = nextid s ->
  req s' = with_req s r0 x ->
  (forall k it, held x = Some (k, it) ->
     iid it < nextid s /\ forall k' it', In (k', it') (cur s') -> iid it' = iid it -> k' = k) ->
  (forall k it, gone x = Some (k, it) -> forall k' it', In (k', it') (cur s') -> iid it' <> iid it) ->
  HInv s'.
Proof.
  intros s s' r0 x [Hh Hg] Hsub Hn Hreq Hxh Hxg. split.
  - intros r k it H. rewrite (rget_set s r0 x r s' Hreq) in H. rewrite Hn.
    destruct (Nat.eqb r r0); [exact (Hxh k it H)|].
    destruct (Hh r k it H) as [H1 H2]. split; [exact H1|]. intros k' it' Hin. apply H2. apply Hsub. exact Hin.
  - intros r k it H. rewrite (rget_set s r0 x r s' Hreq) in H.
    destruct (Nat.eqb r r0); [exact (Hxg k it H)|].
    intros k' it' Hin. apply (Hg r k it H k' it'). apply Hsub. exact Hin.
Qed.

Lemma HInv_same_req : forall s s',
  HInv s -> (forall k it, In (k, it) (cur s') -> In (k, it) (cur s)) -> nextid s' = nextid s -> req s' = req s -> HInv s'.
Proof.
  intros s s' [Hh Hg] Hsub Hn Hreq.
  assert (Hr : forall r, rget r s' = rget r s) by (intros r; unfold rget; rewrite Hreq; reflexivity).
  split.
  - intros r k it H. rewrite Hr in H. rewrite Hn. destruct (Hh r k it H) as [H1 H2]. split; [exact H1|].
    intros k' it' Hin. apply H2. apply Hsub. exact Hin.
  - intros r k it H. rewrite Hr in H. intros k' it' Hin. apply (Hg r k it H k' it'). apply Hsub. exact Hin.
Qed.

Lemma HInv_init : forall src, HInv (init src).
Proof.
  intros src. unfold init. destruct (update_converted src [] [] 0) as [c n].
  split; intros r k it H; unfold rget in H; simpl in H; discriminate.
Qed.

Lemma HInv_step : forall e0 s l s', Inv e0 s -> HInv s -> step s l = Some s' -> HInv s'.
Proof.
  intros e0 s l s' HI HH H. pose proof HH as [Hh Hg].
  destruct HI as [(H1 & H2 & H3 & H4 & H5) Hlt _ _ _ _ _].
  destruct l as [r now blocked|r o|r k id|r|r|r blocked|r o|r again| |src]; simpl in H.
  - (* Expire *)
    destruct (rget r s); try discriminate. destruct (ready s); [|discriminate].
    match type of H with (if ?c then _ else _) = _ => destruct c end; [|discriminate].
    injection H as <-.
    eapply (HInv_change s _ r); [exact HH| | reflexivity | reflexivity | |].
    + simpl. intros k it Hin. unfold drop_expired in Hin. apply filter_In in Hin. tauto.
    + intros k it Hx. destruct (_ && _); discriminate.
    + intros k it Hx. destruct (_ && _); discriminate.
  - (* WakeExp *)
    destruct (rget r s); try discriminate.
    match type of H with (if ?c then _ else _) = _ => destruct c end; [|discriminate].
    injection H as <-.
    eapply (HInv_change s _ r); [exact HH|simpl; auto|reflexivity|reflexivity| |];
      intros k it Hx; destruct (ready s); discriminate.
  - (* Select *)
    destruct (rget r s); try discriminate. destruct (lookupn k (cur s)) as [it|] eqn:Hl; try discriminate.
    match type of H with (if ?c then _ else _) = _ => destruct c end; [|discriminate].
    injection H as <-. pose proof (lookupn_in _ _ _ Hl) as Hin.
    eapply (HInv_change s _ r); [exact HH|simpl; auto|reflexivity|reflexivity| |].
    + intros k0 it0 Hx. simpl in Hx. injection Hx as <- <-. split; [exact (H1 _ _ Hin)|].
      simpl. intros k' it' Hin' Heq. exact (H2 _ _ _ _ Hin' Hin Heq).
    + intros k0 it0 Hx. discriminate.
  - (* SelectErr *)
    destruct (rget r s); try discriminate.
    match type of H with (if ?c then _ else _) = _ => destruct c end; [|discriminate].
    injection H as <-. exact HH.
  - (* Done *)
    destruct (rget r s); try discriminate. injection H as <-.
    eapply (HInv_change s _ r); [exact HH|simpl; auto|reflexivity|reflexivity| |]; intros k0 it0 Hx; discriminate.
  - (* Invalidate *)
    destruct (rget r s) as [| |k it| |] eqn:Er; try discriminate.
    assert (Hheld : held (rget r s) = Some (k, it)) by (rewrite Er; reflexivity).
    destruct (Hh r k it Hheld) as [Hlt' Huq].
    destruct (lookupn k (cur s)) as [it'|] eqn:Hl.
    + destruct (Nat.eqb (iid it') (iid it)) eqn:Eid.
      * match type of H with (if ?c then _ else _) = _ => destruct c end; [|discriminate].
        injection H as <-.
        eapply (HInv_change s _ r); [exact HH| |reflexivity|reflexivity| |].
        -- simpl. intros k0 it0 Hin. apply in_deln in Hin. tauto.
        -- intros k0 it0 Hx. assert (Some (k0, it0) = Some (k, it)) as Hy by (destruct (is_empty _); simpl in Hx; congruence).
           injection Hy as -> ->. split; [exact Hlt'|]. simpl. intros k' it0 Hin. apply in_deln in Hin. apply Huq. tauto.
        -- intros k0 it0 Hx. assert (Some (k0, it0) = Some (k, it)) as Hy by (destruct (is_empty _); simpl in Hx; congruence).
           injection Hy as -> ->. simpl. intros k' it0 Hin Heq. apply in_deln in Hin. destruct Hin as [Hin Hne].
           apply Hne. eapply Huq; eauto.
      * match type of H with (if ?c then _ else _) = _ => destruct c end; [|discriminate].
        injection H as <-.
        eapply (HInv_change s _ r); [exact HH|simpl; auto|reflexivity|reflexivity| |].
        -- intros k0 it0 Hx. assert (Some (k0, it0) = Some (k, it)) as Hy by (destruct (is_empty _); simpl in Hx; congruence).
           injection Hy as -> ->. split; [exact Hlt'|exact Huq].
        -- intros k0 it0 Hx. assert (Some (k0, it0) = Some (k, it)) as Hy by (destruct (is_empty _); simpl in Hx; congruence).
           injection Hy as -> ->. simpl. intros k' it0 Hin Heq.
           assert (k' = k) by (eapply Huq; eauto). subst k'.
           rewrite (nodup_lookupn _ _ _ H5 Hin) in Hl. injection Hl as ->.
           rewrite Heq, Nat.eqb_refl in Eid. discriminate.
    + match type of H with (if ?c then _ else _) = _ => destruct c end; [|discriminate].
      injection H as <-.
      eapply (HInv_change s _ r); [exact HH|simpl; auto|reflexivity|reflexivity| |].
      * intros k0 it0 Hx. assert (Some (k0, it0) = Some (k, it)) as Hy by (destruct (is_empty _); simpl in Hx; congruence).
        injection Hy as -> ->. split; [exact Hlt'|exact Huq].
      * intros k0 it0 Hx. assert (Some (k0, it0) = Some (k, it)) as Hy by (destruct (is_empty _); simpl in Hx; congruence).
        injection Hy as -> ->. simpl. intros k' it0 Hin Heq.
        assert (k' = k) by (eapply Huq; eauto). subst k'.
        rewrite (nodup_lookupn _ _ _ H5 Hin) in Hl. discriminate.
  - (* Wake *)
    destruct (rget r s) as [| | |k it|] eqn:Er; try discriminate.
    assert (Hheld : held (rget r s) = Some (k, it)) by (rewrite Er; reflexivity).
    assert (Hgone : gone (rget r s) = Some (k, it)) by (rewrite Er; reflexivity).
    match type of H with (if ?c then _ else _) = _ => destruct c end; [|discriminate].
    injection H as <-.
    eapply (HInv_change s _ r); [exact HH|simpl; auto|reflexivity|reflexivity| |].
    + intros k0 it0 Hx. assert (Some (k0, it0) = Some (k, it)) as Hy
        by (destruct (ready s); [destruct (is_empty (cur s))|]; simpl in Hx; congruence).
      injection Hy as -> ->. apply (Hh r k it Hheld).
    + intros k0 it0 Hx. assert (Some (k0, it0) = Some (k, it)) as Hy
        by (destruct (ready s); [destruct (is_empty (cur s))|]; simpl in Hx; congruence).
      injection Hy as -> ->. apply (Hg r k it Hgone).
  - (* Recheck *)
    destruct (rget r s); try discriminate.
    match type of H with (if ?c then _ else _) = _ => destruct c end; [|discriminate].
    injection H as <-.
    eapply (HInv_change s _ r); [exact HH|simpl; auto|reflexivity|reflexivity| |]; intros k0 it0 Hx; discriminate.
  - (* WakeEmpty *)
    match type of H with (if ?c then _ else _) = _ => destruct c end; [|discriminate].
    injection H as <-. eapply HInv_same_req; [exact HH|simpl; auto|reflexivity|reflexivity].
  - (* Populate *)
    destruct (busy s); [|discriminate].
    destruct (update_converted src (cur s) (inv s) (nextid s)) as [c' n'] eqn:Hu.
    injection H as <-.
    destruct (update_converted_ok _ _ _ _ _ _ _ Hlt (conj H1 (conj H2 (conj H3 (conj H4 H5)))) Hu) as (_ & Hle & Horig).
    split.
    + intros r k it Hx. change (rget r (upd s c' (inv s) true false n' (req s) (wakes s) (flips s) (invalidated s)
                                         (if is_empty c' then S (barren s) else barren s) (expirations s)))
                          with (rget r s) in Hx.
      destruct (Hh r k it Hx) as [Ha Hb]. simpl. split; [lia|].
      intros k' it' Hin Heq. destruct (Horig _ _ Hin) as [Hin'|Hge]; [eapply Hb; eauto|lia].
    + intros r k it Hx. change (rget r (upd s c' (inv s) true false n' (req s) (wakes s) (flips s) (invalidated s)
                                         (if is_empty c' then S (barren s) else barren s) (expirations s)))
                          with (rget r s) in Hx.
      simpl. intros k' it' Hin Heq. destruct (Horig _ _ Hin) as [Hin'|Hge]; [eapply (Hg r k it Hx); eauto|].
      assert (Hheld : held (rget r s) = Some (k, it)) by (destruct (rget r s); simpl in *; congruence).
      destruct (Hh r k it Hheld) as [Ha _]. lia.
Qed.

Lemma both_run : forall e0 tr s s', Inv e0 s -> HInv s -> run s tr = Some s' -> Inv e0 s' /\ HInv s'.
Proof.
  intros e0 tr. induction tr as [|l tr IH]; intros s s' HI HH H; simpl in H.
  - injection H as <-. auto.
  - destruct (step s l) as [s1|] eqn:Hs; [|discriminate].
    eapply IH; [eapply Inv_step; eauto|eapply HInv_step; eauto|exact H].
Qed.

Lemma reachable_hinv : forall src tr s, run (init src) tr = Some s -> HInv s.
Proof. intros src tr s H. eapply both_run; [apply Inv_init|apply HInv_init|exact H]. Qed.

(* ---------- the theorems ---------- *)

Lemma rget_set_req : forall s r x r', rget r' (set_req s r x) = if Nat.eqb r' r then x else rget r' s.
Proof. intros. apply (rget_set s r x r' (set_req s r x)). reflexivity. Qed.

(* Re-authentication episodes are bounded by the number of DISTINCT item identities that were
   invalidated (+ logins that produced nothing usable, + expirations that emptied the vault, + the
   initial login of an empty vault), however many requesters report the failure of the same item. *)
Lemma single_reauth : forall src tr s,
  run (init src) tr = Some s ->
  wakes s <= length (invalidated s) + barren s + expirations s + e0_of src /\ NoDup (invalidated s).
Proof.
  intros src tr s H. destruct (reachable_inv _ _ _ H) as [_ _ Hnd _ _ Hcnt Hcr]. split; [|exact Hnd].
  destruct (ready s && is_empty (cur s)); simpl in Hcr; lia.
Qed.

(* a selected item is never one that was invalidated; selection needs a ready vault *)
Lemma select_fresh : forall src tr s r k id s',
  run (init src) tr = Some s -> step s (Select r k id) = Some s' ->
  ~ In id (invalidated s) /\ ready s = true /\
  exists it, lookupn k (cur s) = Some it /\ iid it = id /\ rget r s' = RHold k it.
Proof.
  intros src tr s r k id s' Hrun H. destruct (reachable_inv _ _ _ Hrun) as [(H1 & H2 & H3 & H4 & H5) _ _ _ _ _ _].
  simpl in H. destruct (rget r s); try discriminate. destruct (lookupn k (cur s)) as [it|] eqn:Hl; try discriminate.
  destruct (ready s) eqn:Er; simpl in H; [|discriminate].
  destruct (Nat.eqb (iid it) id) eqn:Eid; simpl in H; [|discriminate].
  destruct (top_prio (cur s) (prio it)); [|discriminate].
  apply Nat.eqb_eq in Eid. injection H as <-. split; [|split; [reflexivity|]].
  - rewrite <- Eid. eapply H3. eapply lookupn_in; eauto.
  - exists it. split; [reflexivity|]. split; [exact Eid|]. rewrite rget_set_req, Nat.eqb_refl. reflexivity.
Qed.

(* a requester blocked in invalidate() resumes only when the vault is ready again and non-empty;
   until then it cannot select anything *)
Lemma blocked_until_ready : forall s r k it,
  rget r s = RBlocked k it ->
  (forall k' id, step s (Select r k' id) = None) /\
  (forall s', step s (Wake r WResumed) = Some s' -> ready s = true /\ cur s <> [] /\ rget r s' = RAfter k it).
Proof.
  intros s r k it Hb. split.
  - intros k' id. simpl. rewrite Hb. reflexivity.
  - intros s' H. simpl in H. rewrite Hb in H. unfold wake_expect in H.
    destruct (ready s) eqn:Er; [|discriminate].
    destruct (cur s) as [|x c] eqn:Ec; simpl in H; [discriminate|].
    injection H as <-. repeat split; [discriminate|]. rewrite rget_set_req, Nat.eqb_refl. reflexivity.
Qed.

(* ---------- progress of the requesters that reported a failure ---------- *)

(* whoever reports a failed item while nothing else is left WAITS (never fails on the spot);
   if something is left it goes on at once, to the re-check of _items *)
Lemma report_waits : forall s r b s',
  step s (Invalidate r b) = Some s' ->
  exists k it, rget r s = RHold k it /\
  (cur s' = [] -> b = true /\ rget r s' = RBlocked k it /\ ready s' = false) /\
  (cur s' <> [] -> b = false /\ rget r s' = RAfter k it).
Proof.
  intros s r b s' H. simpl in H. destruct (rget r s) as [| |k it| |] eqn:Er; try discriminate.
  exists k, it. split; [reflexivity|].
  match type of H with
  | (if Bool.eqb b (is_empty ?c) then _ else _) = _ => destruct (is_empty c) eqn:Ee; destruct b; simpl in H; try discriminate
  end; injection H as <-; simpl; split; intros Hc;
  try (rewrite Hc in Ee; discriminate);
  try (apply is_empty_nil in Ee; congruence);
  (split; [reflexivity|]); try split; try reflexivity;
  unfold rget; simpl; unfold with_req; rewrite lookupn_setn, Nat.eqb_refl; reflexivity.
Qed.

(* a blocked requester stays blocked, whatever the others and the authenticator do ... *)
Lemma blocked_stays : forall s r k it l s',
  rget r s = RBlocked k it -> step s l = Some s' -> (forall o, l <> Wake r o) -> rget r s' = RBlocked k it.
Proof.
  intros s r k it l s' Hb H Hne.
  assert (Hother : forall r0 x, (forall k0 i0, rget r0 s <> RBlocked k0 i0) -> rget r (set_req s r0 x) = RBlocked k it).
  { intros r0 x Hr0. rewrite rget_set_req.
    destruct (Nat.eqb r r0) eqn:E; [apply Nat.eqb_eq in E; subst; exfalso; eapply Hr0; eauto|exact Hb]. }
  destruct l as [r0 now blocked|r0 o|r0 k0 id|r0|r0|r0 blocked|r0 o|r0 again| |src]; simpl in H.
  - destruct (rget r0 s) eqn:Er; try discriminate. destruct (ready s); [|discriminate].
    match type of H with (if ?c then _ else _) = _ => destruct c end; [|discriminate].
    injection H as <-. unfold rget. simpl. unfold with_req. rewrite lookupn_setn.
    destruct (Nat.eqb r r0) eqn:E; [apply Nat.eqb_eq in E; subst; congruence|exact Hb].
  - destruct (rget r0 s) eqn:Er; try discriminate.
    match type of H with (if ?c then _ else _) = _ => destruct c end; [|discriminate].
    injection H as <-. apply Hother. intros; rewrite Er; discriminate.
  - destruct (rget r0 s) eqn:Er; try discriminate. destruct (lookupn k0 (cur s)); try discriminate.
    match type of H with (if ?c then _ else _) = _ => destruct c end; [|discriminate].
    injection H as <-. apply Hother. intros; rewrite Er; discriminate.
  - destruct (rget r0 s); try discriminate.
    match type of H with (if ?c then _ else _) = _ => destruct c end; [|discriminate]. injection H as <-. exact Hb.
  - destruct (rget r0 s) eqn:Er; try discriminate. injection H as <-.
    apply Hother. intros; rewrite Er; discriminate.
  - destruct (rget r0 s) eqn:Er; try discriminate.
    match type of H with (if ?c then _ else _) = _ => destruct c end; [|discriminate].
    injection H as <-. unfold rget. simpl. unfold with_req. rewrite lookupn_setn.
    destruct (Nat.eqb r r0) eqn:E; [apply Nat.eqb_eq in E; subst; congruence|exact Hb].
  - destruct (Nat.eq_dec r0 r) as [->|Hr]; [exfalso; apply (Hne o); reflexivity|].
    destruct (rget r0 s) eqn:Er; try discriminate.
    match type of H with (if ?c then _ else _) = _ => destruct c end; [|discriminate].
    injection H as <-. rewrite rget_set_req.
    destruct (Nat.eqb r r0) eqn:E; [apply Nat.eqb_eq in E; congruence|exact Hb].
  - destruct (rget r0 s) eqn:Er; try discriminate.
    match type of H with (if ?c then _ else _) = _ => destruct c end; [|discriminate].
    injection H as <-. apply Hother. intros; rewrite Er; discriminate.
  - match type of H with (if ?c then _ else _) = _ => destruct c end; [|discriminate]. injection H as <-. exact Hb.
  - destruct (busy s); [|discriminate].
    destruct (update_converted src (cur s) (inv s) (nextid s)). injection H as <-. exact Hb.
Qed.

(* ... and once the vault is ready and non-empty it CAN resume, it can ONLY resume (no LoginError,
   no further waiting), and goes on to the re-check with the fresh items still there *)
Lemma blocked_resumes : forall s r k it,
  rget r s = RBlocked k it -> ready s = true -> cur s <> [] ->
  (exists s', step s (Wake r WResumed) = Some s' /\ rget r s' = RAfter k it /\ cur s' = cur s /\ ready s' = true) /\
  (forall o s', step s (Wake r o) = Some s' -> o = WResumed).
Proof.
  intros s r k it Hb Hr Hc. split.
  - simpl. rewrite Hb. unfold wake_expect. rewrite Hr. destruct (cur s) as [|x c] eqn:Ec; [congruence|]. simpl.
    eexists. split; [reflexivity|]. split; [|split; [simpl; first [reflexivity|exact Ec|symmetry; exact Ec]|exact Hr]].
    rewrite rget_set_req, Nat.eqb_refl. reflexivity.
  - intros o s' H. simpl in H. rewrite Hb in H. unfold wake_expect in H. rewrite Hr in H.
    destruct (cur s) as [|x c]; [congruence|]. simpl in H.
    destruct o; try discriminate. reflexivity.
Qed.

Lemma blocked_progress : forall s r k it,
  rget r s = RBlocked k it ->
  (forall l s', step s l = Some s' -> (forall o, l <> Wake r o) -> rget r s' = RBlocked k it) /\
  (ready s = true -> cur s <> [] ->
     (exists s', step s (Wake r WResumed) = Some s' /\ rget r s' = RAfter k it /\ cur s' = cur s /\ ready s' = true) /\
     (forall o s', step s (Wake r o) = Some s' -> o = WResumed)).
Proof.
  intros s r k it Hb. split; [intros l s'; apply blocked_stays; exact Hb|intros; apply blocked_resumes; assumption].
Qed.

(* ---------- the post-yield re-check of _items: never "the end of the authentication cycle" ---------- *)

(* In every reachable state — whatever happened to the item meanwhile: invalidated by this or another
   requester, expired and dropped on behalf of another requester, replaced under the same key by a
   re-authentication — a requester that comes back from invalidate() is told to go round again, and is
   then free to select the fresh credentials. *)
Lemma recheck_again : forall src tr s r k it,
  run (init src) tr = Some s -> rget r s = RAfter k it ->
  (exists s', step s (Recheck r true) = Some s' /\ rget r s' = RIdle /\ cur s' = cur s /\ ready s' = ready s) /\
  (forall again s', step s (Recheck r again) = Some s' -> again = true).
Proof.
  intros src tr s r k it Hrun Ha.
  destruct (reachable_hinv _ _ _ Hrun) as [_ Hg].
  assert (Hnc : is_current k it (cur s) = false).
  { unfold is_current. destruct (lookupn k (cur s)) as [it'|] eqn:Hl; [|reflexivity].
    apply Nat.eqb_neq. eapply (Hg r k it); [rewrite Ha; reflexivity|eapply lookupn_in; eauto]. }
  split.
  - simpl. rewrite Ha, Hnc. simpl. eexists. split; [reflexivity|].
    split; [rewrite rget_set_req, Nat.eqb_refl; reflexivity|split; reflexivity].
  - intros again s' H. simpl in H. rewrite Ha, Hnc in H. destruct again; [reflexivity|discriminate].
Qed.

(* ---------- expiry ---------- *)

(* _expire(): exactly the items with expiration <= now leave the pool; nothing is remembered as invalid;
   the requester waits iff that emptied the vault (and then a re-authentication is due) *)
Lemma expire_effect : forall s r now b s',
  step s (Expire r now b) = Some s' ->
  (forall k it, In (k, it) (cur s') <-> In (k, it) (cur s) /\ expired_at now it = false) /\
  inv s' = inv s /\ invalidated s' = invalidated s /\ nextid s' = nextid s /\
  (b = true -> cur s' = [] /\ cur s <> [] /\ ready s' = false /\ rget r s' = RExpWait) /\
  (b = false -> ready s' = true /\ rget r s' = RIdle).
Proof.
  intros s r now b s' H. simpl in H. destruct (rget r s); try discriminate. destruct (ready s) eqn:Er; [|discriminate].
  set (c' := drop_expired now (cur s)) in *.
  destruct (negb (Nat.eqb (length c') (length (cur s))) && is_empty c') eqn:Ew; destruct b; simpl in H; try discriminate;
    injection H as <-; simpl.
  - split; [|repeat split; try discriminate].
    + intros k it. unfold c', drop_expired. rewrite filter_In. simpl. rewrite negb_true_iff. tauto.
    + apply andb_true_iff in Ew. destruct Ew as [_ E]. apply is_empty_nil. exact E.
    + apply andb_true_iff in Ew. destruct Ew as [E E2]. apply is_empty_nil in E2. fold c' in E2. rewrite E2 in E.
      intros Hc. rewrite Hc in E. discriminate.
    + unfold rget. simpl. unfold with_req. rewrite lookupn_setn, Nat.eqb_refl. reflexivity.
  - split; [|repeat split; try discriminate].
    + intros k it. unfold c', drop_expired. rewrite filter_In. simpl. rewrite negb_true_iff. tauto.
    + unfold rget. simpl. unfold with_req. rewrite lookupn_setn, Nat.eqb_refl. reflexivity.
Qed.

(* what is selected right after a (non-waiting) _expire(now) is not expired at `now` *)
Lemma select_unexpired : forall s r now s1 k id s2,
  step s (Expire r now false) = Some s1 -> step s1 (Select r k id) = Some s2 ->
  exists it, rget r s2 = RHold k it /\ iid it = id /\ expired_at now it = false.
Proof.
  intros s r now s1 k id s2 H1 H2.
  destruct (expire_effect _ _ _ _ _ H1) as (Hin & _).
  simpl in H2. destruct (rget r s1); try discriminate. destruct (lookupn k (cur s1)) as [it|] eqn:Hl; try discriminate.
  match type of H2 with (if ?c then _ else _) = _ => destruct c eqn:Ec end; [|discriminate].
  injection H2 as <-. exists it. split; [rewrite rget_set_req, Nat.eqb_refl; reflexivity|].
  apply andb_true_iff in Ec. destruct Ec as [Ec _]. apply andb_true_iff in Ec. destruct Ec as [_ Ec].
  apply Nat.eqb_eq in Ec. split; [exact Ec|]. apply lookupn_in in Hl. apply Hin in Hl. tauto.
Qed.

(* a requester waiting in _expire stays there until the vault is ready, then goes on to select() *)
Lemma expwait_resumes : forall s r,
  rget r s = RExpWait ->
  (ready s = true ->
     (exists s', step s (WakeExp r WResumed) = Some s' /\ rget r s' = RIdle /\ cur s' = cur s /\ ready s' = true) /\
     (forall o s', step s (WakeExp r o) = Some s' -> o = WResumed)) /\
  (forall k id, step s (Select r k id) = None).
Proof.
  intros s r He. split.
  - intros Hr. split.
    + simpl. rewrite He, Hr. simpl. eexists. split; [reflexivity|].
      split; [rewrite rget_set_req, Nat.eqb_refl; reflexivity|split; [reflexivity|exact Hr]].
    + intros o s' H. simpl in H. rewrite He, Hr in H. destruct o; simpl in H; try discriminate. reflexivity.
  - intros k id. simpl. rewrite He. reflexivity.
Qed.

(* ---------- the re-authentication is started, and a fertile one releases everybody ---------- *)

(* a vault that is not ready always lets the authenticator move: start a login, or deliver its result *)
Lemma reauth_enabled : forall s,
  ready s = false ->
  (busy s = false -> exists s', step s WakeEmpty = Some s' /\ busy s' = true /\ wakes s' = S (wakes s)) /\
  (busy s = true -> forall src, exists s', step s (Populate src) = Some s' /\ ready s' = true /\ busy s' = false).
Proof.
  intros s Hr. split.
  - intros Hb. simpl. rewrite Hr, Hb. simpl. eexists. split; [reflexivity|]. split; reflexivity.
  - intros Hb src. simpl. rewrite Hb. destruct (update_converted src (cur s) (inv s) (nextid s)).
    eexists. split; [reflexivity|]. split; reflexivity.
Qed.

(* a login result is fertile if it carries at least one set of credentials not remembered as invalid *)
Definition fertile (src : list (nat * Z * Z * option Z)) (iv : list (nat * list item)) : Prop :=
  exists k c p e, In (k, c, p, e) src /\ cred_in c (hist k iv) = false.

Lemma setn_nonempty : forall {A} k (v : A) l, setn k v l <> [].
Proof. intros A k v [|[k0 v0] l]; simpl; [discriminate|]. destruct (Nat.eqb k k0); discriminate. Qed.

Lemma update_converted_nonempty : forall src c iv n c' n',
  update_converted src c iv n = (c', n') -> c <> [] \/ fertile src iv -> c' <> [].
Proof.
  induction src as [|[[[k cr] p] e] src IH]; intros c iv n c' n' H Hor; simpl in H.
  - injection H as <- <-. destruct Hor as [Hc|(k & c0 & p & e & [] & _)]. exact Hc.
  - destruct (cred_in cr (hist k iv)) eqn:E.
    + apply (IH _ _ _ _ _ H). destruct Hor as [Hc|(k0 & c0 & p0 & e0 & Hin & Hcr)]; [left; exact Hc|].
      destruct Hin as [Heq|Hin]; [injection Heq as -> -> -> ->; congruence|]. right. exists k0, c0, p0, e0. auto.
    + apply (IH _ _ _ _ _ H). left. apply setn_nonempty.
Qed.

(* after a fertile login EVERY requester blocked in invalidate() or in _expire() is still there, can
   resume, and can only resume *)
Lemma all_blocked_resume : forall s src s',
  step s (Populate src) = Some s' -> fertile src (inv s) ->
  ready s' = true /\ cur s' <> [] /\
  (forall r k it, rget r s = RBlocked k it ->
    rget r s' = RBlocked k it /\
    (exists s'', step s' (Wake r WResumed) = Some s'' /\ rget r s'' = RAfter k it /\ cur s'' = cur s' /\ ready s'' = true) /\
    (forall o s'', step s' (Wake r o) = Some s'' -> o = WResumed)) /\
  (forall r, rget r s = RExpWait ->
    rget r s' = RExpWait /\
    (exists s'', step s' (WakeExp r WResumed) = Some s'' /\ rget r s'' = RIdle /\ cur s'' = cur s' /\ ready s'' = true) /\
    (forall o s'', step s' (WakeExp r o) = Some s'' -> o = WResumed)).
Proof.
  intros s src s' H Hf. simpl in H. destruct (busy s); [|discriminate].
  destruct (update_converted src (cur s) (inv s) (nextid s)) as [c' n'] eqn:Hu.
  injection H as <-.
  assert (Hne : c' <> []) by (eapply update_converted_nonempty; [exact Hu|right; exact Hf]).
  split; [reflexivity|]. split; [exact Hne|]. split.
  - intros r k it Hb.
    match goal with
    | |- rget r ?s1 = _ /\ _ =>
        assert (Hb' : rget r s1 = RBlocked k it) by exact Hb;
        split; [exact Hb'|]; apply blocked_resumes; [exact Hb'|reflexivity|exact Hne]
    end.
  - intros r He.
    match goal with
    | |- rget r ?s1 = _ /\ _ =>
        assert (He' : rget r s1 = RExpWait) by exact He;
        split; [exact He'|]; destruct (expwait_resumes s1 r He') as [Hx _]; apply Hx; reflexivity
    end.
Qed.

Example fertile_example : fertile [(0, 11%Z, 0%Z, None)] [(0, [{| iid := 0; cred := 10%Z; prio := 0%Z; exp := None |}])].
Proof. exists 0, 11%Z, 0%Z, None. split; [left; reflexivity|reflexivity]. Qed.

(* credentials equal to one of the (at most 3) remembered invalid ones of their key are never current *)
Lemma no_reuse_within_history : forall src tr s k it,
  run (init src) tr = Some s -> lookupn k (cur s) = Some it ->
  cred_in (cred it) (hist k (inv s)) = false /\ length (hist k (inv s)) <= 3.
Proof.
  intros src tr s k it Hrun Hl. destruct (reachable_inv _ _ _ Hrun) as [(H1 & H2 & H3 & H4 & H5) _ _ Hh _ _ _].
  split; [apply H4; exact Hl|apply Hh].
Qed.

(* ... but the history is only 3 long: the unrestricted statement is false *)
Definition reuse_trace1 : list vlabel :=
  [Select 1 0 0; Invalidate 1 true; WakeEmpty; Populate [(0, 11%Z, 0%Z, None)]; Wake 1 WResumed; Recheck 1 true].
Definition reuse_trace2 : list vlabel :=
  [Select 1 0 1; Invalidate 1 true; WakeEmpty; Populate [(0, 12%Z, 0%Z, None)]; Wake 1 WResumed; Recheck 1 true;
   Select 1 0 2; Invalidate 1 true; WakeEmpty; Populate [(0, 13%Z, 0%Z, None)]; Wake 1 WResumed; Recheck 1 true;
   Select 1 0 3; Invalidate 1 true; WakeEmpty; Populate [(0, 10%Z, 0%Z, None)]; Wake 1 WResumed; Recheck 1 true;
   Select 1 0 4].

Lemma no_reuse_refuted :
  exists src tr1 tr2 s1 s2 k c it,
    run (init src) tr1 = Some s1 /\ cred_in c (hist k (inv s1)) = true /\
    run s1 tr2 = Some s2 /\ lookupn k (cur s2) = Some it /\ cred it = c /\
    rget 1 s2 = RHold k it.
Proof.
  exists [(0, 10%Z, 0%Z, None)], reuse_trace1, reuse_trace2.
  destruct (run (init [(0, 10%Z, 0%Z, None)]) reuse_trace1) as [s1|] eqn:H1; [|vm_compute in H1; discriminate].
  destruct (run s1 reuse_trace2) as [s2|] eqn:H2;
    [|vm_compute in H1; injection H1 as <-; vm_compute in H2; discriminate].
  exists s1, s2, 0, 10%Z, {| iid := 4; cred := 10; prio := 0; exp := None |}.
  vm_compute in H1. injection H1 as <-. vm_compute in H2. injection H2 as <-.
  vm_compute. repeat split; reflexivity.
Qed.

(* ---------- a login that yields nothing usable: the vault is stuck for good ---------- *)

Definition Stuck (s : vstate) : Prop :=
  ready s = true /\ cur s = [] /\ busy s = false /\ forall r, rget r s = RIdle.

Definition fails_only (l : vlabel) : Prop := (exists r, l = SelectErr r) \/ (exists r now, l = Expire r now false).

Lemma stuck_step : forall s l s', Stuck s -> step s l = Some s' -> Stuck s' /\ fails_only l.
Proof.
  intros s l s' (Hr & Hc & Hb & Hq) H.
  destruct l as [r now blocked|r o|r k id|r|r|r blocked|r o|r again| |src]; simpl in H;
    try (rewrite (Hq r) in H; try rewrite Hc in H; simpl in H; try discriminate).
  - rewrite Hr in H; try rewrite Hc in H. simpl in H. destruct blocked; simpl in H; [discriminate|]. injection H as <-.
    split; [|right; eauto]. repeat split; simpl; auto.
    intros r0. unfold rget. simpl. unfold with_req. rewrite lookupn_setn.
    destruct (Nat.eqb r0 r); [reflexivity|apply Hq].
  - rewrite Hr in H; try rewrite Hc in H. simpl in H. injection H as <-. split; [repeat split; assumption|left; eauto].
  - rewrite Hr in H. simpl in H. discriminate.
  - rewrite Hb in H. discriminate.
Qed.

(* from a stuck state every request fails (SelectErr = LoginError; _expire finds nothing) and no
   re-authentication (WakeEmpty) is ever possible again, whatever happens *)
Lemma stuck_forever : forall tr s s', Stuck s -> run s tr = Some s' ->
  Stuck s' /\ Forall fails_only tr /\ step s' WakeEmpty = None.
Proof.
  induction tr as [|l tr IH]; intros s s' HS H; simpl in H.
  - injection H as <-. split; [exact HS|]. split; [constructor|].
    destruct HS as (Hr & _). simpl. rewrite Hr. reflexivity.
  - destruct (step s l) as [s1|] eqn:Hs; [|discriminate].
    destruct (stuck_step _ _ _ HS Hs) as [HS1 Hl].
    destruct (IH _ _ HS1 H) as (H1 & H2 & H3). split; [exact H1|]. split; [constructor; assumption|exact H3].
Qed.

Definition barren_trace : list vlabel :=
  [Select 1 0 0; Invalidate 1 true; WakeEmpty; Populate [(0, 10%Z, 0%Z, None)]; Wake 1 WLoginErr].

Lemma stuck_reachable : exists s, run (init [(0, 10%Z, 0%Z, None)]) barren_trace = Some s /\ Stuck s /\ wakes s = 1.
Proof.
  destruct (run (init [(0, 10%Z, 0%Z, None)]) barren_trace) as [s|] eqn:H; [|vm_compute in H; discriminate].
  exists s. split; [reflexivity|]. vm_compute in H. injection H as <-.
  split; [|reflexivity]. repeat split; try reflexivity.
  intros r. unfold rget. simpl. destruct (Nat.eqb r 1); reflexivity.
Qed.

Lemma recovery_after_barren_login_refuted :
  exists s, run (init [(0, 10%Z, 0%Z, None)]) barren_trace = Some s /\ Stuck s /\
    forall tr s', run s tr = Some s' ->
      Stuck s' /\ Forall fails_only tr /\ step s' WakeEmpty = None.
Proof.
  destruct stuck_reachable as (s & H1 & H2 & _). exists s. split; [exact H1|]. split; [exact H2|].
  intros tr s'. exact (stuck_forever tr s s' H2).
Qed.

(* ---------- non-vacuity: a burst of three requesters on one item = one re-authentication ---------- *)
Definition burst_trace : list vlabel :=
  [Select 1 0 0; Select 2 0 0; Select 3 0 0;
   Invalidate 1 true; Invalidate 2 true; WakeEmpty; Invalidate 3 true;
   Populate [(0, 11%Z, 0%Z, None)];
   Wake 1 WResumed; Wake 2 WResumed; Wake 3 WResumed; Recheck 1 true; Recheck 2 true; Recheck 3 true;
   Select 1 0 1; Select 2 0 1; Select 3 0 1; Done 1; Done 2; Done 3].

Example burst_example :
  match run (init [(0, 10%Z, 0%Z, None)]) burst_trace with
  | Some s => (wakes s, invalidated s, cur_ids s, ready s)
  | None => (0, [], [], false)
  end = (1, [0], [(0, 1)], true).
Proof. vm_compute. reflexivity. Qed.

(* ---------- non-vacuity of the hypotheses used above ---------- *)
Definition blocked_trace : list vlabel := [Select 1 0 0; Select 2 0 0; Invalidate 1 true; Invalidate 2 true; WakeEmpty].

Definition item10 : item := {| iid := 0; cred := 10; prio := 0; exp := None |}.

(* a reachable state with two requesters blocked on the same invalidated item while the login runs;
   a fertile Populate is enabled there *)
Example blocked_example :
  exists s, run (init [(0, 10%Z, 0%Z, None)]) blocked_trace = Some s /\
    rget 1 s = RBlocked 0 item10 /\ rget 2 s = RBlocked 0 item10 /\ ready s = false /\ busy s = true /\
    fertile [(0, 11%Z, 0%Z, None)] (inv s) /\
    exists s', step s (Populate [(0, 11%Z, 0%Z, None)]) = Some s'.
Proof.
  destruct (run (init [(0, 10%Z, 0%Z, None)]) blocked_trace) as [s|] eqn:H; [|vm_compute in H; discriminate].
  exists s. split; [reflexivity|]. vm_compute in H. injection H as <-.
  repeat split; try reflexivity.
  - exists 0, 11%Z, 0%Z, None. split; [left; reflexivity|reflexivity].
  - eexists. vm_compute. reflexivity.
Qed.

(* a reachable state with a current item (hypotheses of the no-reuse / fresh-selection theorems) *)
Example current_example :
  exists s it s', run (init [(0, 10%Z, 0%Z, None)]) reuse_trace1 = Some s /\ lookupn 0 (cur s) = Some it /\
    step s (Select 1 0 1) = Some s' /\ step s (Select 1 0 0) = None.
Proof.
  destruct (run (init [(0, 10%Z, 0%Z, None)]) reuse_trace1) as [s|] eqn:H; [|vm_compute in H; discriminate].
  vm_compute in H. injection H as <-. eexists. eexists. eexists.
  split; [reflexivity|]. split; [vm_compute; reflexivity|]. split; vm_compute; reflexivity.
Qed.

(* the credentials of requester 1 expire (t = 5) while its request is in flight; requester 2 enters the
   vault at t = 6: _expire drops the item (NOT remembered as invalid), re-authenticates, proceeds; then
   requester 1 comes back with its 401: invalidate is a no-op, the re-check sends it round again, it
   gets the fresh item.  The trace that stops the iteration instead is not a trace of the vault. *)
Definition expiry_trace (again : bool) : list vlabel :=
  [Expire 1 0 false; Select 1 0 0; Expire 2 6 true; WakeEmpty; Populate [(0, 11%Z, 0%Z, Some 100%Z)];
   WakeExp 2 WResumed; Select 2 0 1; Invalidate 1 false; Recheck 1 again].

Example expiry_example :
  match run (init [(0, 10%Z, 0%Z, Some 5%Z)]) (expiry_trace true ++ [Expire 1 7 false; Select 1 0 1; Done 1; Done 2]) with
  | Some s => (wakes s, invalidated s, map (fun x => inv_creds s x) [0], cur_ids s, expirations s)
  | None => (0, [], [], [], 0)
  end = (1, [], [[]], [(0, 1)], 1) /\
  run (init [(0, 10%Z, 0%Z, Some 5%Z)]) (expiry_trace false) = None /\
  exists s it, run (init [(0, 10%Z, 0%Z, Some 5%Z)]) (removelast (expiry_trace true)) = Some s /\ rget 1 s = RAfter 0 it.
Proof.
  split; [vm_compute; reflexivity|]. split; [vm_compute; reflexivity|].
  destruct (run (init [(0, 10%Z, 0%Z, Some 5%Z)]) (removelast (expiry_trace true))) as [s|] eqn:H; [|vm_compute in H; discriminate].
  vm_compute in H. injection H as <-. eexists. eexists. split; [reflexivity|]. vm_compute. reflexivity.
Qed.
