(* C12 — invariants of Model/Vault.v (credentials.Vault + auth.authenticated + authenticator). *)
From Coq Require Import ZArith List Bool Lia Arith.
From KV Require Import Model.Vault.
Import ListNotations.

(* ---------- association lists ---------- *)

Lemma lookupn_in : forall {A} k (l : list (nat * A)) v, lookupn k l = Some v -> In (k, v) l.
Proof.
  intros A k l. induction l as [|[k' v'] l IH]; intros v H; simpl in H; [discriminate|].
  destruct (Nat.eqb k k') eqn:E.
  - apply Nat.eqb_eq in E. subst. injection H as <-. left; reflexivity.
  - right. apply IH. exact H.
Qed.

Lemma in_setn : forall {A} k (v : A) l k' v', In (k', v') (setn k v l) -> (k' = k /\ v' = v) \/ In (k', v') l.
Proof.
  intros A k v l. induction l as [|[k0 v0] l IH]; intros k' v' H; simpl in H.
  - destruct H as [H|[]]. injection H as <- <-. left; auto.
  - destruct (Nat.eqb k k0) eqn:E.
    + destruct H as [H|H]; [injection H as <- <-; left; auto|right; right; exact H].
    + destruct H as [H|H]; [right; left; exact H|].
      destruct (IH _ _ H) as [H1|H1]; [left; exact H1|right; right; exact H1].
Qed.

Lemma lookupn_setn : forall {A} k (v : A) l k', lookupn k' (setn k v l) = if Nat.eqb k' k then Some v else lookupn k' l.
Proof.
  intros A k v l. induction l as [|[k0 v0] l IH]; intros k'; simpl.
  - destruct (Nat.eqb k' k); reflexivity.
  - destruct (Nat.eqb k k0) eqn:E; simpl.
    + apply Nat.eqb_eq in E. subst k0. destruct (Nat.eqb k' k); reflexivity.
    + destruct (Nat.eqb k' k0) eqn:E2.
      * apply Nat.eqb_eq in E2. subst k0. destruct (Nat.eqb k' k) eqn:E3; [|reflexivity].
        apply Nat.eqb_eq in E3. subst. rewrite Nat.eqb_refl in E. discriminate.
      * apply IH.
Qed.

Lemma in_deln : forall {A} k (l : list (nat * A)) k' v', In (k', v') (deln k l) -> In (k', v') l /\ k' <> k.
Proof.
  intros A k l. induction l as [|[k0 v0] l IH]; intros k' v' H; simpl in H; [contradiction|].
  destruct (Nat.eqb k k0) eqn:E.
  - destruct (IH _ _ H) as [H1 H2]. split; [right; exact H1|exact H2].
  - destruct H as [H|H].
    + injection H as <- <-. split; [left; reflexivity|]. intros ->. rewrite Nat.eqb_refl in E. discriminate.
    + destruct (IH _ _ H) as [H1 H2]. split; [right; exact H1|exact H2].
Qed.

Lemma lookupn_deln : forall {A} k (l : list (nat * A)) k', lookupn k' (deln k l) = if Nat.eqb k' k then None else lookupn k' l.
Proof.
  intros A k l. induction l as [|[k0 v0] l IH]; intros k'; simpl.
  - destruct (Nat.eqb k' k); reflexivity.
  - destruct (Nat.eqb k k0) eqn:E.
    + apply Nat.eqb_eq in E. subst k0. rewrite IH. destruct (Nat.eqb k' k); reflexivity.
    + simpl. destruct (Nat.eqb k' k0) eqn:E2.
      * apply Nat.eqb_eq in E2. subst k0. rewrite Nat.eqb_sym in E. rewrite E. reflexivity.
      * apply IH.
Qed.

Lemma hist_setn : forall k v iv k', hist k' (setn k v iv) = if Nat.eqb k' k then v else hist k' iv.
Proof. intros. unfold hist. rewrite lookupn_setn. destruct (Nat.eqb k' k); reflexivity. Qed.

Lemma last2_length : forall {A} (l : list A), length (last2 l) <= 2.
Proof. intros A l. unfold last2. rewrite skipn_length. lia. Qed.

Lemma is_empty_nil : forall {A} (l : list A), is_empty l = true -> l = [].
Proof. intros A [|a l] H; [reflexivity|discriminate]. Qed.

(* ---------- _update_converted keeps the pool well-formed ---------- *)

Definition CurOK (c : list (nat * item)) (n : nat) (iv : list (nat * list item)) (invd : list nat) : Prop :=
  (forall k it, In (k, it) c -> iid it < n) /\
  (forall k1 i1 k2 i2, In (k1, i1) c -> In (k2, i2) c -> iid i1 = iid i2 -> k1 = k2) /\
  (forall k it, In (k, it) c -> ~ In (iid it) invd) /\
  (forall k it, lookupn k c = Some it -> cred_in (cred it) (hist k iv) = false).

Lemma update_converted_ok : forall src c n iv invd c' n',
  (forall id, In id invd -> id < n) ->
  CurOK c n iv invd -> update_converted src c iv n = (c', n') ->
  CurOK c' n' iv invd /\ n <= n'.
Proof.
  induction src as [|[[k cr] p] src IH]; intros c n iv invd c' n' Hinvd HC H; simpl in H.
  - injection H as <- <-. split; [exact HC|lia].
  - destruct (cred_in cr (hist k iv)) eqn:Ecr.
    + apply (IH _ _ _ _ _ _ Hinvd HC H).
    + destruct HC as (H1 & H2 & H3 & H4).
      assert (HC' : CurOK (setn k {| iid := n; cred := cr; prio := p |} c) (S n) iv invd).
      { repeat split.
        - intros k0 it Hin. destruct (in_setn _ _ _ _ _ Hin) as [[_ ->]|Hin']; [simpl; lia|].
          specialize (H1 _ _ Hin'). lia.
        - intros k1 i1 k2 i2 Hi1 Hi2 Heq.
          destruct (in_setn _ _ _ _ _ Hi1) as [[-> ->]|Hi1']; destruct (in_setn _ _ _ _ _ Hi2) as [[-> ->]|Hi2'].
          + reflexivity.
          + simpl in Heq. specialize (H1 _ _ Hi2'). lia.
          + simpl in Heq. specialize (H1 _ _ Hi1'). lia.
          + eapply H2; eauto.
        - intros k0 it Hin. destruct (in_setn _ _ _ _ _ Hin) as [[_ ->]|Hin'].
          + simpl. intros Hbad. specialize (Hinvd _ Hbad). lia.
          + eapply H3; eauto.
        - intros k0 it Hl. rewrite lookupn_setn in Hl. destruct (Nat.eqb k0 k) eqn:E.
          + apply Nat.eqb_eq in E. subst k0. injection Hl as <-. simpl. exact Ecr.
          + apply H4. exact Hl. }
      assert (Hinvd' : forall id, In id invd -> id < S n) by (intros id Hid; specialize (Hinvd _ Hid); lia).
      destruct (IH _ _ _ _ _ _ Hinvd' HC' H) as [Hok Hle]. split; [exact Hok|lia].
Qed.

(* ---------- the invariant ---------- *)

Definition b2n (b : bool) : nat := if b then 1 else 0.

Record Inv (e0 : nat) (s : vstate) : Prop := {
  I_cur : CurOK (cur s) (nextid s) (inv s) (invalidated s);
  I_inv_lt : forall id, In id (invalidated s) -> id < nextid s;
  I_nodup : NoDup (invalidated s);
  I_hist : forall k, length (hist k (inv s)) <= 3;
  I_busy : busy s = true -> ready s = false;
  I_count : flips s = wakes s + b2n (negb (ready s || busy s));
  I_credit : flips s + b2n (ready s && is_empty (cur s)) <= length (invalidated s) + barren s + e0
}.

Definition e0_of (src : list (nat * Z * Z)) : nat := b2n (is_empty (fst (update_converted src [] [] 0))).

Lemma CurOK_nil : forall iv invd, CurOK [] 0 iv invd.
Proof. intros. repeat split; intros; simpl in *; try contradiction; discriminate. Qed.

Lemma Inv_init : forall src, Inv (e0_of src) (init src).
Proof.
  intros src. unfold init, e0_of.
  destruct (update_converted src [] [] 0) as [c n] eqn:H.
  destruct (update_converted_ok src [] 0 [] [] c n (fun id (Hf : In id []) => match Hf with end) (CurOK_nil _ _) H) as [Hok _].
  constructor; simpl.
  - exact Hok.
  - intros id [].
  - constructor.
  - intros k. unfold hist. simpl. lia.
  - discriminate.
  - destruct (is_empty c); reflexivity.
  - destruct (is_empty c); simpl; lia.
Qed.

Lemma Inv_step : forall e0 s l s', Inv e0 s -> step s l = Some s' -> Inv e0 s'.
Proof.
  intros e0 s l s' HI H. destruct HI as [HC Hlt Hnd Hh Hb Hcnt Hcr].
  destruct l as [r k id|r|r|r blocked|r o| |src]; simpl in H.
  - (* Select *)
    destruct (rget r s); try discriminate. destruct (lookupn k (cur s)); try discriminate.
    destruct (ready s && Nat.eqb (iid i) id && top_prio (cur s) (prio i)); [|discriminate].
    injection H as <-. constructor; simpl; assumption.
  - (* SelectErr *)
    destruct (rget r s); try discriminate. destruct (ready s && is_empty (cur s)) eqn:E; [|discriminate].
    injection H as <-. constructor; try assumption. rewrite E. exact Hcr.
  - (* Done *)
    destruct (rget r s); try discriminate. injection H as <-. constructor; simpl; assumption.
  - (* Invalidate *)
    destruct (rget r s) as [|k it|]; try discriminate.
    destruct (lookupn k (cur s)) as [it'|] eqn:Hl.
    + destruct (Nat.eqb (iid it') (iid it)) eqn:Eid.
      * (* effective *)
        apply Nat.eqb_eq in Eid.
        destruct (Bool.eqb blocked (is_empty (deln k (cur s)))); [|discriminate].
        injection H as <-.
        destruct HC as (H1 & H2 & H3 & H4).
        pose proof (lookupn_in _ _ _ Hl) as Hin'.
        constructor; simpl.
        -- repeat split.
           ++ intros k0 it0 Hin. destruct (in_deln _ _ _ _ Hin) as [Hin0 _]. eapply H1; eauto.
           ++ intros k1 i1 k2 i2 Hi1 Hi2. destruct (in_deln _ _ _ _ Hi1) as [Hi1' _].
              destruct (in_deln _ _ _ _ Hi2) as [Hi2' _]. eapply H2; eauto.
           ++ intros k0 it0 Hin. destruct (in_deln _ _ _ _ Hin) as [Hin0 Hne].
              intros [Hbad|Hbad]; [|eapply H3; eauto].
              apply Hne. eapply (H2 k0 it0 k it'); eauto. congruence.
           ++ intros k0 it0 Hl0. rewrite lookupn_deln in Hl0. destruct (Nat.eqb k0 k) eqn:E; [discriminate|].
              rewrite hist_setn. rewrite E. apply H4. exact Hl0.
        -- intros id0 [<-|Hid]; [rewrite <- Eid; eapply H1; eauto|apply Hlt; exact Hid].
        -- constructor; [|exact Hnd]. rewrite <- Eid. eapply H3; eauto.
        -- intros k0. rewrite hist_setn. destruct (Nat.eqb k0 k); [|apply Hh].
           rewrite app_length. pose proof (last2_length (hist k (inv s))). simpl. lia.
        -- intros Hbz. specialize (Hb Hbz). destruct (is_empty (deln k (cur s))); [reflexivity|exact Hb].
        -- destruct (is_empty (deln k (cur s))); simpl.
           ++ destruct (ready s) eqn:Er; simpl.
              ** destruct (busy s) eqn:Eb; [specialize (Hb eq_refl); discriminate|]. simpl in *. lia.
              ** exact Hcnt.
           ++ exact Hcnt.
        -- destruct (is_empty (deln k (cur s))) eqn:Ee; simpl.
           ++ destruct (ready s); simpl in *; lia.
           ++ rewrite andb_false_r. simpl.
              destruct (ready s && is_empty (cur s)); simpl in *; lia.
      * (* identity differs: nothing removed *)
        destruct (Bool.eqb blocked (is_empty (cur s))); [|discriminate].
        injection H as <-. constructor; simpl; try assumption.
        -- intros Hbz. specialize (Hb Hbz). destruct (is_empty (cur s)); [reflexivity|exact Hb].
        -- destruct (is_empty (cur s)); simpl; [|exact Hcnt].
           destruct (ready s) eqn:Er; simpl; [|exact Hcnt].
           destruct (busy s) eqn:Eb; [specialize (Hb eq_refl); discriminate|]. simpl in *. lia.
        -- destruct (is_empty (cur s)) eqn:Ee; simpl.
           ++ destruct (ready s); simpl in *; lia.
           ++ rewrite andb_false_r in *. simpl in *. lia.
    + (* key gone: nothing removed *)
      destruct (Bool.eqb blocked (is_empty (cur s))); [|discriminate].
      injection H as <-. constructor; simpl; try assumption.
      -- intros Hbz. specialize (Hb Hbz). destruct (is_empty (cur s)); [reflexivity|exact Hb].
      -- destruct (is_empty (cur s)); simpl; [|exact Hcnt].
         destruct (ready s) eqn:Er; simpl; [|exact Hcnt].
         destruct (busy s) eqn:Eb; [specialize (Hb eq_refl); discriminate|]. simpl in *. lia.
      -- destruct (is_empty (cur s)) eqn:Ee; simpl.
         ++ destruct (ready s); simpl in *; lia.
         ++ rewrite andb_false_r in *. simpl in *. lia.
  - (* Wake *)
    destruct (rget r s); try discriminate.
    match type of H with (if ?c then _ else _) = _ => destruct c end; [|discriminate].
    injection H as <-. constructor; simpl; assumption.
  - (* WakeEmpty *)
    destruct (negb (ready s) && negb (busy s)) eqn:E; [|discriminate].
    apply andb_true_iff in E. destruct E as [E1 E2]. apply negb_true_iff in E1. apply negb_true_iff in E2.
    injection H as <-. constructor; simpl; try assumption.
    + reflexivity.
    + rewrite E1, E2 in Hcnt. simpl in Hcnt. lia.
    + rewrite E1 in Hcr. simpl in Hcr. exact Hcr.
  - (* Populate *)
    destruct (busy s) eqn:Eb; [|discriminate]. specialize (Hb eq_refl).
    destruct (update_converted src (cur s) (inv s) (nextid s)) as [c' n'] eqn:Hu.
    injection H as <-.
    destruct (update_converted_ok _ _ _ _ _ _ _ Hlt HC Hu) as [Hok Hle].
    constructor; simpl; try assumption.
    + intros id Hid. specialize (Hlt _ Hid). lia.
    + discriminate.
    + rewrite Hb in Hcnt. simpl in Hcnt. exact Hcnt.
    + rewrite Hb in Hcr. simpl in Hcr. destruct (is_empty c'); simpl; lia.
Qed.

Lemma Inv_run : forall e0 tr s s', Inv e0 s -> run s tr = Some s' -> Inv e0 s'.
Proof.
  intros e0 tr. induction tr as [|l tr IH]; intros s s' HI H; simpl in H.
  - injection H as <-. exact HI.
  - destruct (step s l) as [s1|] eqn:Hs; [|discriminate]. eapply IH; [eapply Inv_step; eauto|exact H].
Qed.

Lemma reachable_inv : forall src tr s, run (init src) tr = Some s -> Inv (e0_of src) s.
Proof. intros src tr s H. eapply Inv_run; [apply Inv_init|exact H]. Qed.

(* ---------- the theorems ---------- *)

(* Re-authentication episodes are bounded by the number of DISTINCT item identities that were
   invalidated (+ logins that produced nothing usable, + the initial login of an empty vault),
   however many requesters report the failure of the same item. *)
Lemma single_reauth : forall src tr s,
  run (init src) tr = Some s ->
  wakes s <= length (invalidated s) + barren s + e0_of src /\ NoDup (invalidated s).
Proof.
  intros src tr s H. destruct (reachable_inv _ _ _ H) as [_ _ Hnd _ _ Hcnt Hcr]. split; [|exact Hnd].
  destruct (ready s && is_empty (cur s)); simpl in Hcr; lia.
Qed.

(* a selected item is never one that was invalidated; selection needs a ready vault *)
Lemma select_fresh : forall src tr s r k id s',
  run (init src) tr = Some s -> step s (Select r k id) = Some s' ->
  ~ In id (invalidated s) /\ ready s = true /\
  exists it, lookupn k (cur s) = Some it /\ iid it = id /\ rget r s' = RHold k it.
Proof.
  intros src tr s r k id s' Hrun H. destruct (reachable_inv _ _ _ Hrun) as [(H1 & H2 & H3 & H4) _ _ _ _ _ _].
  simpl in H. destruct (rget r s); try discriminate. destruct (lookupn k (cur s)) as [it|] eqn:Hl; try discriminate.
  destruct (ready s) eqn:Er; simpl in H; [|discriminate].
  destruct (Nat.eqb (iid it) id) eqn:Eid; simpl in H; [|discriminate].
  destruct (top_prio (cur s) (prio it)); [|discriminate].
  apply Nat.eqb_eq in Eid. injection H as <-. split; [|split; [reflexivity|]].
  - rewrite <- Eid. eapply H3. eapply lookupn_in; eauto.
  - exists it. split; [reflexivity|]. split; [exact Eid|].
    unfold rget. simpl. unfold with_req. rewrite lookupn_setn. rewrite Nat.eqb_refl. reflexivity.
Qed.

(* a requester blocked in invalidate() resumes only when the vault is ready again and non-empty;
   until then it cannot select anything *)
Lemma blocked_until_ready : forall s r,
  rget r s = RBlocked ->
  (forall k id, step s (Select r k id) = None) /\
  (forall s', step s (Wake r WResumed) = Some s' -> ready s = true /\ cur s <> [] /\ rget r s' = RIdle).
Proof.
  intros s r Hb. split.
  - intros k id. simpl. rewrite Hb. reflexivity.
  - intros s' H. simpl in H. rewrite Hb in H.
    destruct (ready s) eqn:Er; [|discriminate].
    destruct (cur s) as [|x c] eqn:Ec; simpl in H; [discriminate|].
    injection H as <-. repeat split; [discriminate|].
    unfold rget. simpl. unfold with_req. rewrite lookupn_setn. rewrite Nat.eqb_refl. reflexivity.
Qed.

(* ---------- progress of the requesters that reported a failure ---------- *)

Lemma rget_set : forall s r x r' (s' : vstate),
  req s' = with_req s r x -> rget r' s' = if Nat.eqb r' r then x else rget r' s.
Proof.
  intros s r x r' s' H. unfold rget. rewrite H. unfold with_req. rewrite lookupn_setn.
  destruct (Nat.eqb r' r); reflexivity.
Qed.

(* whoever reports a failed item while nothing else is left WAITS (never fails on the spot);
   if something is left it goes on at once *)
Lemma report_waits : forall s r b s',
  step s (Invalidate r b) = Some s' ->
  (cur s' = [] -> b = true /\ rget r s' = RBlocked /\ ready s' = false) /\
  (cur s' <> [] -> b = false /\ rget r s' = RIdle).
Proof.
  intros s r b s' H. simpl in H. destruct (rget r s) as [|k it|]; try discriminate.
  match type of H with
  | (if Bool.eqb b (is_empty ?c) then _ else _) = _ => destruct (is_empty c) eqn:Ee; destruct b; simpl in H; try discriminate
  end; injection H as <-; simpl; split; intros Hc;
  try (rewrite Hc in Ee; discriminate);
  try (apply is_empty_nil in Ee; congruence);
  (split; [reflexivity|]); try split; try reflexivity;
  unfold rget; simpl; unfold with_req; rewrite lookupn_setn, Nat.eqb_refl; reflexivity.
Qed.

(* a blocked requester stays blocked, whatever the others and the authenticator do ... *)
Lemma blocked_stays : forall s r l s',
  rget r s = RBlocked -> step s l = Some s' -> (forall o, l <> Wake r o) -> rget r s' = RBlocked.
Proof.
  intros s r l s' Hb H Hne.
  assert (Hother : forall r0 x (s0 : vstate), rget r0 s <> RBlocked -> req s0 = with_req s r0 x -> rget r s0 = RBlocked).
  { intros r0 x s0 Hr0 Hreq. rewrite (rget_set s r0 x r s0 Hreq).
    destruct (Nat.eqb r r0) eqn:E; [apply Nat.eqb_eq in E; subst; congruence|exact Hb]. }
  destruct l as [r0 k id|r0|r0|r0 blocked|r0 o| |src]; simpl in H.
  - destruct (rget r0 s) eqn:Er; try discriminate. destruct (lookupn k (cur s)); try discriminate.
    match type of H with (if ?c then _ else _) = _ => destruct c end; [|discriminate].
    injection H as <-. eapply Hother; [rewrite Er; discriminate|reflexivity].
  - destruct (rget r0 s); try discriminate.
    match type of H with (if ?c then _ else _) = _ => destruct c end; [|discriminate]. injection H as <-. exact Hb.
  - destruct (rget r0 s) eqn:Er; try discriminate. injection H as <-.
    eapply Hother; [rewrite Er; discriminate|reflexivity].
  - destruct (rget r0 s) eqn:Er; try discriminate.
    match type of H with (if ?c then _ else _) = _ => destruct c end; [|discriminate].
    injection H as <-. eapply Hother; [rewrite Er; discriminate|reflexivity].
  - destruct (Nat.eq_dec r0 r) as [->|Hr]; [exfalso; apply (Hne o); reflexivity|].
    destruct (rget r0 s) eqn:Er; try discriminate.
    match type of H with (if ?c then _ else _) = _ => destruct c end; [|discriminate].
    injection H as <-. unfold rget; simpl; unfold with_req; rewrite lookupn_setn.
    destruct (Nat.eqb r r0) eqn:E; [apply Nat.eqb_eq in E; congruence|exact Hb].
  - match type of H with (if ?c then _ else _) = _ => destruct c end; [|discriminate]. injection H as <-. exact Hb.
  - destruct (busy s); [|discriminate].
    destruct (update_converted src (cur s) (inv s) (nextid s)). injection H as <-. exact Hb.
Qed.

(* ... and once the vault is ready and non-empty it CAN resume, it can ONLY resume (no LoginError,
   no further waiting), and is then free to select the fresh item *)
Lemma blocked_resumes : forall s r,
  rget r s = RBlocked -> ready s = true -> cur s <> [] ->
  (exists s', step s (Wake r WResumed) = Some s' /\ rget r s' = RIdle /\ cur s' = cur s /\ ready s' = true) /\
  (forall o s', step s (Wake r o) = Some s' -> o = WResumed).
Proof.
  intros s r Hb Hr Hc. split.
  - simpl. rewrite Hb, Hr. destruct (cur s) as [|x c] eqn:Ec; [congruence|]. simpl.
    eexists. split; [reflexivity|]. simpl. split; [|split; reflexivity].
    unfold rget. simpl. unfold with_req. rewrite lookupn_setn, Nat.eqb_refl. reflexivity.
  - intros o s' H. simpl in H. rewrite Hb, Hr in H. destruct (cur s) as [|x c]; [congruence|]. simpl in H.
    destruct o; try discriminate. reflexivity.
Qed.

Lemma blocked_progress : forall s r,
  rget r s = RBlocked ->
  (forall l s', step s l = Some s' -> (forall o, l <> Wake r o) -> rget r s' = RBlocked) /\
  (ready s = true -> cur s <> [] ->
     (exists s', step s (Wake r WResumed) = Some s' /\ rget r s' = RIdle /\ cur s' = cur s /\ ready s' = true) /\
     (forall o s', step s (Wake r o) = Some s' -> o = WResumed)).
Proof.
  intros s r Hb. split; [intros l s'; apply blocked_stays; exact Hb|intros; apply blocked_resumes; assumption].
Qed.

(* ---------- the re-authentication is started, and a fertile one releases everybody ---------- *)

(* a vault that is not ready always lets the authenticator move: start a login, or deliver its result *)
Lemma reauth_enabled : forall s,
  ready s = false ->
  (busy s = false -> exists s', step s WakeEmpty = Some s' /\ busy s' = true /\ wakes s' = S (wakes s)) /\
  (busy s = true -> forall src, exists s', step s (Populate src) = Some s' /\ ready s' = true /\ busy s' = false).
Proof.
  intros s Hr. split.
  - intros Hb. simpl. rewrite Hr, Hb. simpl. eexists. split; [reflexivity|]. split; reflexivity.
  - intros Hb src. simpl. rewrite Hb. destruct (update_converted src (cur s) (inv s) (nextid s)).
    eexists. split; [reflexivity|]. split; reflexivity.
Qed.

(* a login result is fertile if it carries at least one set of credentials not remembered as invalid *)
Definition fertile (src : list (nat * Z * Z)) (iv : list (nat * list item)) : Prop :=
  exists k c p, In (k, c, p) src /\ cred_in c (hist k iv) = false.

Lemma setn_nonempty : forall {A} k (v : A) l, setn k v l <> [].
Proof. intros A k v [|[k0 v0] l]; simpl; [discriminate|]. destruct (Nat.eqb k k0); discriminate. Qed.

Lemma update_converted_nonempty : forall src c iv n c' n',
  update_converted src c iv n = (c', n') -> c <> [] \/ fertile src iv -> c' <> [].
Proof.
  induction src as [|[[k cr] p] src IH]; intros c iv n c' n' H Hor; simpl in H.
  - injection H as <- <-. destruct Hor as [Hc|(k & c0 & p & [] & _)]. exact Hc.
  - destruct (cred_in cr (hist k iv)) eqn:E.
    + apply (IH _ _ _ _ _ H). destruct Hor as [Hc|(k0 & c0 & p0 & Hin & Hcr)]; [left; exact Hc|].
      destruct Hin as [Heq|Hin]; [injection Heq as -> -> ->; congruence|]. right. exists k0, c0, p0. auto.
    + apply (IH _ _ _ _ _ H). left. apply setn_nonempty.
Qed.

(* after a fertile login EVERY blocked requester is still there, can resume, and can only resume *)
Lemma all_blocked_resume : forall s src s',
  step s (Populate src) = Some s' -> fertile src (inv s) ->
  ready s' = true /\ cur s' <> [] /\
  forall r, rget r s = RBlocked ->
    rget r s' = RBlocked /\
    (exists s'', step s' (Wake r WResumed) = Some s'' /\ rget r s'' = RIdle /\ cur s'' = cur s' /\ ready s'' = true) /\
    (forall o s'', step s' (Wake r o) = Some s'' -> o = WResumed).
Proof.
  intros s src s' H Hf. simpl in H. destruct (busy s); [|discriminate].
  destruct (update_converted src (cur s) (inv s) (nextid s)) as [c' n'] eqn:Hu.
  injection H as <-.
  assert (Hne : c' <> []) by (eapply update_converted_nonempty; [exact Hu|right; exact Hf]).
  split; [reflexivity|]. split; [exact Hne|].
  intros r Hb.
  match goal with
  | |- rget r ?s1 = _ /\ _ =>
      assert (Hb' : rget r s1 = RBlocked) by exact Hb;
      split; [exact Hb'|]; apply blocked_resumes; [exact Hb'|reflexivity|exact Hne]
  end.
Qed.

Example fertile_example : fertile [(0, 11%Z, 0%Z)] [(0, [{| iid := 0; cred := 10%Z; prio := 0%Z |}])].
Proof. exists 0, 11%Z, 0%Z. split; [left; reflexivity|reflexivity]. Qed.

(* credentials equal to one of the (at most 3) remembered invalid ones of their key are never current *)
Lemma no_reuse_within_history : forall src tr s k it,
  run (init src) tr = Some s -> lookupn k (cur s) = Some it ->
  cred_in (cred it) (hist k (inv s)) = false /\ length (hist k (inv s)) <= 3.
Proof.
  intros src tr s k it Hrun Hl. destruct (reachable_inv _ _ _ Hrun) as [(H1 & H2 & H3 & H4) _ _ Hh _ _ _].
  split; [apply H4; exact Hl|apply Hh].
Qed.

(* ... but the history is only 3 long: the unrestricted statement is false *)
Definition reuse_trace1 : list vlabel :=
  [Select 1 0 0; Invalidate 1 true; WakeEmpty; Populate [(0, 11%Z, 0%Z)]; Wake 1 WResumed].
Definition reuse_trace2 : list vlabel :=
  [Select 1 0 1; Invalidate 1 true; WakeEmpty; Populate [(0, 12%Z, 0%Z)]; Wake 1 WResumed;
   Select 1 0 2; Invalidate 1 true; WakeEmpty; Populate [(0, 13%Z, 0%Z)]; Wake 1 WResumed;
   Select 1 0 3; Invalidate 1 true; WakeEmpty; Populate [(0, 10%Z, 0%Z)]; Wake 1 WResumed;
   Select 1 0 4].

Lemma no_reuse_refuted :
  exists src tr1 tr2 s1 s2 k c it,
    run (init src) tr1 = Some s1 /\ cred_in c (hist k (inv s1)) = true /\
    run s1 tr2 = Some s2 /\ lookupn k (cur s2) = Some it /\ cred it = c /\
    rget 1 s2 = RHold k it.
Proof.
  exists [(0, 10%Z, 0%Z)], reuse_trace1, reuse_trace2.
  destruct (run (init [(0, 10%Z, 0%Z)]) reuse_trace1) as [s1|] eqn:H1; [|vm_compute in H1; discriminate].
  destruct (run s1 reuse_trace2) as [s2|] eqn:H2;
    [|vm_compute in H1; injection H1 as <-; vm_compute in H2; discriminate].
  exists s1, s2, 0, 10%Z, {| iid := 4; cred := 10; prio := 0 |}.
  vm_compute in H1. injection H1 as <-. vm_compute in H2. injection H2 as <-.
  vm_compute. repeat split; reflexivity.
Qed.

(* ---------- a login that yields nothing usable: the vault is stuck for good ---------- *)

Definition Stuck (s : vstate) : Prop :=
  ready s = true /\ cur s = [] /\ busy s = false /\ forall r, rget r s = RIdle.

Lemma stuck_step : forall s l s', Stuck s -> step s l = Some s' -> s' = s /\ exists r, l = SelectErr r.
Proof.
  intros s l s' (Hr & Hc & Hb & Hq) H. destruct l as [r k id|r|r|r blocked|r o| |src]; simpl in H.
  - rewrite (Hq r) in H. rewrite Hc in H. simpl in H. discriminate.
  - rewrite (Hq r) in H. destruct (ready s && is_empty (cur s)); [|discriminate]. injection H as <-. eauto.
  - rewrite (Hq r) in H. discriminate.
  - rewrite (Hq r) in H. discriminate.
  - rewrite (Hq r) in H. discriminate.
  - rewrite Hr in H. simpl in H. discriminate.
  - rewrite Hb in H. discriminate.
Qed.

(* from a stuck state every request fails (SelectErr = LoginError) and no re-authentication
   (WakeEmpty) is ever possible again, whatever happens *)
Lemma stuck_forever : forall tr s s', Stuck s -> run s tr = Some s' ->
  s' = s /\ Forall (fun l => exists r, l = SelectErr r) tr /\ step s' WakeEmpty = None.
Proof.
  induction tr as [|l tr IH]; intros s s' HS H; simpl in H.
  - injection H as <-. split; [reflexivity|]. split; [constructor|].
    destruct HS as (Hr & _). simpl. rewrite Hr. reflexivity.
  - destruct (step s l) as [s1|] eqn:Hs; [|discriminate].
    destruct (stuck_step _ _ _ HS Hs) as [-> Hl].
    destruct (IH _ _ HS H) as (H1 & H2 & H3). split; [exact H1|]. split; [constructor; assumption|exact H3].
Qed.

Definition barren_trace : list vlabel :=
  [Select 1 0 0; Invalidate 1 true; WakeEmpty; Populate [(0, 10%Z, 0%Z)]; Wake 1 WLoginErr].

Lemma stuck_reachable : exists s, run (init [(0, 10%Z, 0%Z)]) barren_trace = Some s /\ Stuck s /\ wakes s = 1.
Proof.
  destruct (run (init [(0, 10%Z, 0%Z)]) barren_trace) as [s|] eqn:H; [|vm_compute in H; discriminate].
  exists s. split; [reflexivity|]. vm_compute in H. injection H as <-.
  split; [|reflexivity]. repeat split; try reflexivity.
  intros r. unfold rget. simpl. destruct (Nat.eqb r 1); reflexivity.
Qed.

Lemma recovery_after_barren_login_refuted :
  exists s, run (init [(0, 10%Z, 0%Z)]) barren_trace = Some s /\ Stuck s /\
    forall tr s', run s tr = Some s' ->
      s' = s /\ Forall (fun l => exists r, l = SelectErr r) tr /\ step s' WakeEmpty = None.
Proof.
  destruct stuck_reachable as (s & H1 & H2 & _). exists s. split; [exact H1|]. split; [exact H2|].
  intros tr s'. exact (stuck_forever tr s s' H2).
Qed.

(* ---------- non-vacuity: a burst of three requesters on one item = one re-authentication ---------- *)
Definition burst_trace : list vlabel :=
  [Select 1 0 0; Select 2 0 0; Select 3 0 0;
   Invalidate 1 true; Invalidate 2 true; WakeEmpty; Invalidate 3 true;
   Populate [(0, 11%Z, 0%Z)];
   Wake 1 WResumed; Wake 2 WResumed; Wake 3 WResumed;
   Select 1 0 1; Select 2 0 1; Select 3 0 1; Done 1; Done 2; Done 3].

Example burst_example :
  match run (init [(0, 10%Z, 0%Z)]) burst_trace with
  | Some s => (wakes s, invalidated s, cur_ids s, ready s)
  | None => (0, [], [], false)
  end = (1, [0], [(0, 1)], true).
Proof. vm_compute. reflexivity. Qed.

(* ---------- non-vacuity of the hypotheses used above ---------- *)
Definition blocked_trace : list vlabel := [Select 1 0 0; Select 2 0 0; Invalidate 1 true; Invalidate 2 true; WakeEmpty].

(* a reachable state with two requesters blocked on the same invalidated item while the login runs;
   a fertile Populate is enabled there *)
Example blocked_example :
  exists s, run (init [(0, 10%Z, 0%Z)]) blocked_trace = Some s /\
    rget 1 s = RBlocked /\ rget 2 s = RBlocked /\ ready s = false /\ busy s = true /\
    fertile [(0, 11%Z, 0%Z)] (inv s) /\
    exists s', step s (Populate [(0, 11%Z, 0%Z)]) = Some s'.
Proof.
  destruct (run (init [(0, 10%Z, 0%Z)]) blocked_trace) as [s|] eqn:H; [|vm_compute in H; discriminate].
  exists s. split; [reflexivity|]. vm_compute in H. injection H as <-.
  repeat split; try reflexivity.
  - exists 0, 11%Z, 0%Z. split; [left; reflexivity|reflexivity].
  - eexists. vm_compute. reflexivity.
Qed.

(* a reachable state with a current item (hypotheses of the no-reuse / fresh-selection theorems) *)
Example current_example :
  exists s it s', run (init [(0, 10%Z, 0%Z)]) reuse_trace1 = Some s /\ lookupn 0 (cur s) = Some it /\
    step s (Select 1 0 1) = Some s' /\ step s (Select 1 0 0) = None.
Proof.
  destruct (run (init [(0, 10%Z, 0%Z)]) reuse_trace1) as [s|] eqn:H; [|vm_compute in H; discriminate].
  vm_compute in H. injection H as <-. eexists. eexists. eexists.
  split; [reflexivity|]. split; [vm_compute; reflexivity|]. split; vm_compute; reflexivity.
Qed.
