(* C04_own_writes_invisible, bridge: from the single-key results of Proofs/C04Own.v to what kopf
   really does: a JSON merge-patch (RFC 7386, Base/Json.merge) built by the storage functions of
   Model/Storage.v from the empty patch, applied by the API server to the body. *)
From Coq Require Import ZArith NArith List String Bool Ascii Lia.
From KV Require Import Base.Json Base.Dicts Model.Keys Model.Storage Model.Essence Model.OwnWrites Proofs.C04Own.
Import ListNotations.
Open Scope string_scope.
Open Scope list_scope.

(* ---------- Step A: merge of an annotations-only patch ---------- *)
Definition ann_patch (pa : obj) : json := JObj [("metadata", JObj [("annotations", JObj pa)])].

Definition upd_ann (pa A : obj) : obj :=
  fold_left (fun acc kv => match snd kv with JNull => del (fst kv) acc | v => set (fst kv) v acc end) pa A.

Definition scalar_vals (pa : obj) : Prop := forallb (fun kv => negb (is_obj (snd kv))) pa = true.

(* the inner loop of merge as a standalone function *)
Fixpoint br_mgo (pkvs : obj) (t : obj) : obj :=
  match pkvs with
  | [] => t
  | (k, JNull) :: rest => br_mgo rest (del k t)
  | (k, v) :: rest =>
      br_mgo rest (set k (merge (match lookup k t with Some tv => tv | None => JNull end) v) t)
  end.

Lemma br_merge_obj : forall target pkvs,
  merge target (JObj pkvs) = JObj (br_mgo pkvs (match target with JObj t => t | _ => [] end)).
Proof.
  reflexivity.
Qed.

Lemma br_merge_scalar : forall x v, is_obj v = false -> merge x v = v.
Proof. intros x v H. destruct v; try reflexivity. discriminate. Qed.

Lemma br_upd_ann_cons : forall k v pa A,
  upd_ann ((k, v) :: pa) A = upd_ann pa (match v with JNull => del k A | _ => set k v A end).
Proof. intros. unfold upd_ann. cbn [fold_left fst snd]. destruct v; reflexivity. Qed.

Lemma br_mgo_scalar : forall pa A, scalar_vals pa -> br_mgo pa A = upd_ann pa A.
Proof.
  unfold scalar_vals. induction pa as [|[k v] pa IH]; intros A H; [reflexivity|].
  cbn [forallb snd] in H. apply andb_true_iff in H as [Hv H]. apply negb_true_iff in Hv.
  rewrite br_upd_ann_cons.
  destruct v; try discriminate; cbn [br_mgo]; rewrite ?br_merge_scalar by reflexivity; now apply IH.
Qed.

Lemma br_set_same : forall {V} k (v : V) l, lookup k l = Some v -> set k v l = l.
Proof.
  induction l as [|[a b] l IH]; simpl; [discriminate|].
  destruct (String.eqb k a) eqn:E.
  - apply String.eqb_eq in E. subst a. now intros [= ->].
  - intros H. now rewrite IH.
Qed.

Lemma br_body_with_id : forall kvs md A,
  lookup "metadata" kvs = Some (JObj md) -> lookup "annotations" md = Some (JObj A) ->
  body_with kvs md A = JObj kvs.
Proof.
  intros kvs md A Hm Ha. unfold body_with. now rewrite (br_set_same _ _ _ Ha), (br_set_same _ _ _ Hm).
Qed.

Lemma br_merge_ann_raw : forall kvs md pa,
  lookup "metadata" kvs = Some (JObj md) ->
  merge (JObj kvs) (ann_patch pa)
  = body_with kvs md (br_mgo pa (match lookup "annotations" md with Some (JObj A) => A | _ => [] end)).
Proof.
  intros kvs md pa Hm. unfold ann_patch, body_with.
  rewrite br_merge_obj. cbn [br_mgo]. rewrite Hm.
  rewrite br_merge_obj. cbn [br_mgo].
  rewrite br_merge_obj. do 4 f_equal.
  destruct (lookup "annotations" md) as [[]|]; reflexivity.
Qed.

Theorem br_merge_ann : forall kvs md A pa,
  lookup "metadata" kvs = Some (JObj md) -> lookup "annotations" md = Some (JObj A) ->
  scalar_vals pa ->
  merge (JObj kvs) (ann_patch pa) = body_with kvs md (upd_ann pa A).
Proof.
  intros kvs md A pa Hm Ha Hs. rewrite (br_merge_ann_raw kvs md pa Hm), Ha. now rewrite br_mgo_scalar.
Qed.

(* first annotation ever *)
Theorem br_merge_ann_none : forall kvs md pa,
  lookup "metadata" kvs = Some (JObj md) -> lookup "annotations" md = None ->
  scalar_vals pa ->
  merge (JObj kvs) (ann_patch pa) = body_with kvs md (upd_ann pa []).
Proof.
  intros kvs md pa Hm Ha Hs. rewrite (br_merge_ann_raw kvs md pa Hm), Ha. now rewrite br_mgo_scalar.
Qed.

Lemma br_merge_empty : forall kvs, merge (JObj kvs) (JObj []) = JObj kvs.
Proof. reflexivity. Qed.

(* ---------- Step B: invisibility of a whole own patch ---------- *)
Lemma br_upd_ann_invisible : forall dg P key v1 P' pv1 verbose tk kvs md pa A,
  P' <> "" -> no_slash P' = true -> lookup "metadata" kvs = Some (JObj md) ->
  (forall k, In k (keys pa) -> under_prefix P' k = true) ->
  essence dg (DAnn P key v1 []) (PAnn P' pv1 verbose tk) (body_with kvs md (upd_ann pa A)) []
  = essence dg (DAnn P key v1 []) (PAnn P' pv1 verbose tk) (body_with kvs md A) [].
Proof.
  intros dg P key v1 P' pv1 verbose tk kvs md pa.
  induction pa as [|[k v] pa IH]; intros A HP Hs Hm Hu; [reflexivity|].
  rewrite br_upd_ann_cons. rewrite IH; auto.
  - assert (Hk : under_prefix P' k = true) by (apply Hu; left; reflexivity).
    destruct v; (now apply own_progress_write_invisible) || (now apply own_progress_delete_invisible).
  - intros j Hj. apply Hu. right. exact Hj.
Qed.

Theorem own_progress_patch_invisible : forall dg P key v1 P' pv1 verbose tk kvs md A pa,
  P' <> "" -> no_slash P' = true ->
  lookup "metadata" kvs = Some (JObj md) -> lookup "annotations" md = Some (JObj A) ->
  scalar_vals pa -> (forall k, In k (keys pa) -> under_prefix P' k = true) ->
  essence dg (DAnn P key v1 []) (PAnn P' pv1 verbose tk) (merge (JObj kvs) (ann_patch pa)) []
  = essence dg (DAnn P key v1 []) (PAnn P' pv1 verbose tk) (JObj kvs) [].
Proof.
  intros dg P key v1 P' pv1 verbose tk kvs md A pa HP Hs Hm Ha Hsc Hu.
  rewrite (br_merge_ann kvs md A pa Hm Ha Hsc).
  rewrite br_upd_ann_invisible by assumption.
  now rewrite (br_body_with_id kvs md A Hm Ha).
Qed.
Print Assumptions own_progress_patch_invisible.

(* ---------- Step C: the storage functions produce such patches ---------- *)
(* an annotations-only patch of scalars whose keys are all under P'/ *)
Definition br_annp (P' : string) (p : json) : Prop :=
  exists pa, p = ann_patch pa /\ scalar_vals pa /\ (forall k, In k (keys pa) -> under_prefix P' k = true).

(* ... or still the empty patch *)
Definition br_good (P' : string) (p : json) : Prop := p = JObj [] \/ br_annp P' p.

Lemma br_ensure_empty : forall k v, ensure (JObj []) (ann_path k) v = Ok (ann_patch (set k v [])).
Proof. reflexivity. Qed.

Lemma br_ensure_ann : forall pa k v, ensure (ann_patch pa) (ann_path k) v = Ok (ann_patch (set k v pa)).
Proof. reflexivity. Qed.

Lemma br_scalar_set : forall k v pa, is_obj v = false -> scalar_vals pa -> scalar_vals (set k v pa).
Proof.
  unfold scalar_vals. intros k v pa Hv. induction pa as [|[a b] pa IH]; cbn [set forallb snd]; intros H.
  - now rewrite Hv.
  - apply andb_true_iff in H as [H1 H2].
    destruct (String.eqb k a); cbn [forallb snd]; rewrite ?Hv, ?H1, ?H2, ?IH; auto.
Qed.

Lemma br_scalar_del : forall k pa, scalar_vals pa -> scalar_vals (del k pa).
Proof.
  unfold scalar_vals. intros k pa. induction pa as [|[a b] pa IH]; cbn [del forallb snd]; intros H; auto.
  apply andb_true_iff in H as [H1 H2].
  destruct (String.eqb k a); cbn [forallb snd]; rewrite ?H1, ?IH; auto.
Qed.

Lemma br_keys_set_in : forall k (v : json) pa j, In j (keys (set k v pa)) -> j = k \/ In j (keys pa).
Proof.
  intros k v pa j H. rewrite ow_keys_set in H. destruct (has k pa); auto.
  apply in_app_or in H as [H|[H|[]]]; auto.
Qed.

Lemma br_keys_del_in : forall k (pa : obj) j, In j (keys (del k pa)) -> In j (keys pa).
Proof. intros k pa j H. rewrite ow_keys_del in H. apply filter_In in H. tauto. Qed.

Lemma br_annp_set : forall P' pa k v,
  scalar_vals pa -> (forall j, In j (keys pa) -> under_prefix P' j = true) ->
  is_obj v = false -> under_prefix P' k = true -> br_annp P' (ann_patch (set k v pa)).
Proof.
  intros P' pa k v Hs Hu Hv Hk. exists (set k v pa). split; [reflexivity|]. split.
  - now apply br_scalar_set.
  - intros j Hj. apply br_keys_set_in in Hj as [->|Hj]; auto.
Qed.

Lemma br_good_ensure : forall P' p k v, br_good P' p -> is_obj v = false -> under_prefix P' k = true ->
  exists p', ensure p (ann_path k) v = Ok p' /\ br_annp P' p'.
Proof.
  intros P' p k v [->|[pa [-> [Hs Hu]]]] Hv Hk.
  - rewrite br_ensure_empty. eexists; split; [reflexivity|]. apply br_annp_set; auto; first [reflexivity | intros j []].
  - rewrite br_ensure_ann. eexists; split; [reflexivity|]. now apply br_annp_set.
Qed.

Lemma br_annp_good : forall P' p, br_annp P' p -> br_good P' p.
Proof. intros. now right. Qed.

Lemma br_ensure_all_good : forall P' ks p v, br_good P' p -> is_obj v = false ->
  (forall k, In k ks -> under_prefix P' k = true) ->
  exists p', ensure_all p ks v = Ok p' /\ br_good P' p' /\ (ks <> [] -> br_annp P' p').
Proof.
  intros P' ks. induction ks as [|k ks IH]; intros p v Hg Hv Hu; cbn [ensure_all].
  - exists p. split; [reflexivity|]. split; [assumption|]. congruence.
  - destruct (br_good_ensure P' p k v Hg Hv) as [p1 [E1 H1]]; [apply Hu; now left|].
    rewrite E1. cbn [bind].
    destruct (IH p1 v (br_annp_good _ _ H1) Hv) as [p2 [E2 [H2 H2']]]; [intros; apply Hu; now right|].
    exists p2. split; [assumption|]. split; [assumption|]. intros _.
    destruct ks as [|k' ks]; [|apply H2'; congruence].
    cbn [ensure_all] in E2. now injection E2 as <-.
Qed.

Lemma br_store_marker_cases : forall prefix body p p', store_marker prefix body p = Ok p' ->
  p' = p \/ ensure p (ann_path (prefix ++ "/" ++ marker_name)%string) (JStr "yes") = Ok p'.
Proof.
  intros prefix body p p'. unfold store_marker, ann_path.
  destruct (negb (String.eqb prefix "") && negb (known_without_marker prefix)); [|intros [= <-]; auto].
  match goal with |- context [resolve_strict body ?pth] =>
    destruct (resolve_strict body pth), (resolve_strict p pth) end; intros H; try discriminate H;
    try (injection H as <-; now left); now right.
Qed.

Lemma br_store_marker_good : forall P' body p p', br_good P' p -> store_marker P' body p = Ok p' ->
  br_good P' p' /\ (br_annp P' p -> br_annp P' p').
Proof.
  intros P' body p p' Hg H. apply br_store_marker_cases in H as [->|H]; [auto|].
  destruct (br_good_ensure P' p (P' ++ "/" ++ marker_name)%string (JStr "yes") Hg eq_refl (ow_marker_under P'))
    as [p1 [E1 H1]].
  rewrite E1 in H. injection H as <-. split; auto. now right.
Qed.

Lemma br_full_keys_nonempty : forall dg P v1 body key, full_keys dg P v1 body key <> [].
Proof. intros. unfold full_keys, make_keys. cbn [map]. discriminate. Qed.

Lemma br_good_empty : forall P', br_good P' (JObj []).
Proof. intros. now left. Qed.

(* pstore *)
Lemma br_pstore_good : forall dg P' pv1 verbose tk hkey record body p0 p, P' <> "" ->
  br_good P' p0 ->
  pstore dg (PAnn P' pv1 verbose tk) hkey record body p0 = Ok p -> br_annp P' p.
Proof.
  intros dg P' pv1 verbose tk hkey record body p0 p HP Hg H. cbn [pstore] in H.
  match type of H with bind (ensure_all _ ?ks ?v) _ = _ =>
    destruct (br_ensure_all_good P' ks p0 v Hg eq_refl)
      as [p1 [E1 [H1 H1']]]; [intros k Hk; eapply ow_full_keys_under; eauto|] end.
  rewrite E1 in H. cbn [bind] in H.
  apply (br_store_marker_good P' body p1 p H1) in H as [_ H]. apply H, H1', br_full_keys_nonempty.
Qed.

Theorem br_pstore_shape : forall dg P' pv1 verbose tk hkey record body p, P' <> "" ->
  pstore dg (PAnn P' pv1 verbose tk) hkey record body (JObj []) = Ok p ->
  exists pa, p = ann_patch pa /\ scalar_vals pa /\ (forall k, In k (keys pa) -> under_prefix P' k = true).
Proof. intros. eapply br_pstore_good; eauto. apply br_good_empty. Qed.

(* ppurge *)
Lemma br_remove_empty : forall k, remove (JObj []) (ann_path k) = Ok (JObj []).
Proof. reflexivity. Qed.

Lemma br_remove_ann : forall pa k,
  remove (ann_patch pa) (ann_path k) = Ok (match del k pa with [] => JObj [] | pa' => ann_patch pa' end).
Proof. intros. unfold ann_patch, ann_path. cbn. destruct (del k pa); reflexivity. Qed.

Lemma br_good_remove : forall P' p k p', br_good P' p -> remove p (ann_path k) = Ok p' -> br_good P' p'.
Proof.
  intros P' p k p' [->|[pa [-> [Hs Hu]]]] H.
  - rewrite br_remove_empty in H. injection H as <-. now left.
  - rewrite br_remove_ann in H. injection H as <-.
    destruct (del k pa) as [|x pa'] eqn:E; [now left|]. right. exists (x :: pa'). split; [reflexivity|].
    rewrite <- E. split; [now apply br_scalar_del|]. intros j Hj. apply Hu. eapply br_keys_del_in; eauto.
Qed.

Lemma br_purge_path_good : forall P' body p k p', br_good P' p -> under_prefix P' k = true ->
  purge_path body p (ann_path k) = Ok p' -> br_good P' p'.
Proof.
  intros P' body p k p' Hg Hk H. unfold purge_path in H.
  destruct (resolve body (ann_path k)).
  - destruct (br_good_ensure P' p k JNull Hg eq_refl Hk) as [p1 [E1 H1]].
    rewrite E1 in H. injection H as <-. now right.
  - destruct (resolve p (ann_path k)).
    + eapply br_good_remove; eauto.
    + now injection H as <-.
Qed.

Lemma br_purge_keys_good : forall P' body ks p p', br_good P' p ->
  (forall k, In k ks -> under_prefix P' k = true) ->
  purge_keys body p ks = Ok p' -> br_good P' p'.
Proof.
  intros P' body ks. induction ks as [|k ks IH]; intros p p' Hg Hu H; cbn [purge_keys] in H.
  - now injection H as <-.
  - destruct (purge_path body p (ann_path k)) as [p1| | |] eqn:E1; cbn [bind] in H; try discriminate.
    apply (IH p1 p'); auto.
    + eapply br_purge_path_good; eauto. apply Hu. now left.
    + intros. apply Hu. now right.
Qed.

Theorem br_ppurge_shape : forall dg P' pv1 verbose tk hkey body p, P' <> "" ->
  ppurge dg (PAnn P' pv1 verbose tk) hkey body (JObj []) = Ok p ->
  p = JObj [] \/
  exists pa, p = ann_patch pa /\ scalar_vals pa /\ (forall k, In k (keys pa) -> under_prefix P' k = true).
Proof.
  intros dg P' pv1 verbose tk hkey body p HP H. cbn [ppurge] in H.
  eapply (br_purge_keys_good P') in H; eauto; [apply br_good_empty|].
  intros k Hk. eapply ow_full_keys_under; eauto.
Qed.

(* ptouch *)
Lemma br_touch_keys_good : forall P' body ks v p p', br_good P' p -> is_obj v = false ->
  (forall k, In k ks -> under_prefix P' k = true) ->
  touch_keys P' body p ks v = Ok p' -> br_good P' p'.
Proof.
  intros P' body ks v. induction ks as [|k ks IH]; intros p p' Hg Hv Hu H; cbn [touch_keys] in H.
  - now injection H as <-.
  - assert (Hks : forall j, In j ks -> under_prefix P' j = true) by (intros; apply Hu; now right).
    destruct (differs (resolve body (ann_path k)) v); [|eapply IH; eauto].
    destruct (br_good_ensure P' p k v Hg Hv) as [p1 [E1 H1]]; [apply Hu; now left|].
    rewrite E1 in H. cbn [bind] in H.
    destruct (store_marker P' body p1) as [p2| | |] eqn:E2; cbn [bind] in H; try discriminate.
    apply (br_store_marker_good P' body p1 p2 (br_annp_good _ _ H1)) in E2 as [H2 _].
    eapply IH; eauto.
Qed.

Theorem br_ptouch_shape : forall dg P' pv1 verbose tk body v p, P' <> "" -> is_obj v = false ->
  ptouch dg (PAnn P' pv1 verbose tk) body (JObj []) v = Ok p ->
  p = JObj [] \/
  exists pa, p = ann_patch pa /\ scalar_vals pa /\ (forall k, In k (keys pa) -> under_prefix P' k = true).
Proof.
  intros dg P' pv1 verbose tk body v p HP Hv H. cbn [ptouch] in H.
  eapply (br_touch_keys_good P') in H; eauto; [apply br_good_empty|].
  intros k Hk. eapply ow_full_keys_under; eauto.
Qed.

(* ---------- headline theorems ---------- *)
Lemma br_good_invisible : forall dg P key v1 P' pv1 verbose tk kvs md A p,
  P' <> "" -> no_slash P' = true ->
  lookup "metadata" kvs = Some (JObj md) -> lookup "annotations" md = Some (JObj A) ->
  br_good P' p ->
  essence dg (DAnn P key v1 []) (PAnn P' pv1 verbose tk) (merge (JObj kvs) p) []
  = essence dg (DAnn P key v1 []) (PAnn P' pv1 verbose tk) (JObj kvs) [].
Proof.
  intros dg P key v1 P' pv1 verbose tk kvs md A p HP Hs Hm Ha [->|[pa [-> [Hsc Hu]]]].
  - now rewrite br_merge_empty.
  - eapply own_progress_patch_invisible; eauto.
Qed.

Theorem own_progress_store_invisible : forall dg P key v1 P' pv1 verbose tk kvs md A hkey record p,
  P' <> "" -> no_slash P' = true ->
  lookup "metadata" kvs = Some (JObj md) -> lookup "annotations" md = Some (JObj A) ->
  pstore dg (PAnn P' pv1 verbose tk) hkey record (JObj kvs) (JObj []) = Ok p ->
  essence dg (DAnn P key v1 []) (PAnn P' pv1 verbose tk) (merge (JObj kvs) p) []
  = essence dg (DAnn P key v1 []) (PAnn P' pv1 verbose tk) (JObj kvs) [].
Proof.
  intros. eapply br_good_invisible; eauto. right. eapply br_pstore_good; eauto. apply br_good_empty.
Qed.

Theorem own_progress_purge_invisible : forall dg P key v1 P' pv1 verbose tk kvs md A hkey p,
  P' <> "" -> no_slash P' = true ->
  lookup "metadata" kvs = Some (JObj md) -> lookup "annotations" md = Some (JObj A) ->
  ppurge dg (PAnn P' pv1 verbose tk) hkey (JObj kvs) (JObj []) = Ok p ->
  essence dg (DAnn P key v1 []) (PAnn P' pv1 verbose tk) (merge (JObj kvs) p) []
  = essence dg (DAnn P key v1 []) (PAnn P' pv1 verbose tk) (JObj kvs) [].
Proof.
  intros. eapply br_good_invisible; eauto. eapply br_ppurge_shape; eauto.
Qed.

Theorem own_touch_invisible : forall dg P key v1 P' pv1 verbose tk kvs md A v p,
  P' <> "" -> no_slash P' = true -> is_obj v = false ->
  lookup "metadata" kvs = Some (JObj md) -> lookup "annotations" md = Some (JObj A) ->
  ptouch dg (PAnn P' pv1 verbose tk) (JObj kvs) (JObj []) v = Ok p ->
  essence dg (DAnn P key v1 []) (PAnn P' pv1 verbose tk) (merge (JObj kvs) p) []
  = essence dg (DAnn P key v1 []) (PAnn P' pv1 verbose tk) (JObj kvs) [].
Proof.
  intros. eapply br_good_invisible; eauto. eapply br_ptouch_shape; eauto.
Qed.

Print Assumptions br_pstore_shape.
Print Assumptions own_progress_store_invisible.
Print Assumptions own_progress_purge_invisible.
Print Assumptions own_touch_invisible.

(* ---------- kopf's default progress storage (`smart`: annotations + read-only status) ---------- *)
Lemma br_pstore_smart : forall dg P' pv1 verbose tk field tf hkey record body p0,
  pstore dg (PMulti [PAnn P' pv1 verbose tk; PStatus field tf true]) hkey record body p0
  = pstore dg (PAnn P' pv1 verbose tk) hkey record body p0.
Proof.
  intros. cbn [pstore].
  match goal with |- bind ?x _ = _ => destruct x end; reflexivity.
Qed.

Lemma br_ptouch_smart : forall dg P' pv1 verbose tk field tf body p0 v,
  ptouch dg (PMulti [PAnn P' pv1 verbose tk; PStatus field tf true]) body p0 v
  = ptouch dg (PAnn P' pv1 verbose tk) body p0 v.
Proof.
  intros. cbn [ptouch].
  match goal with |- bind ?x _ = _ => destruct x end; reflexivity.
Qed.

(* after such a patch the body still has the form body_with kvs md _ *)
Lemma br_good_body_form : forall P' kvs md A p,
  lookup "metadata" kvs = Some (JObj md) -> lookup "annotations" md = Some (JObj A) ->
  br_good P' p -> exists A', merge (JObj kvs) p = body_with kvs md A'.
Proof.
  intros P' kvs md A p Hm Ha [->|[pa [-> [Hsc Hu]]]].
  - exists A. now rewrite br_merge_empty, (br_body_with_id kvs md A Hm Ha).
  - exists (upd_ann pa A). now apply br_merge_ann.
Qed.

Lemma br_good_invisible_smart : forall dg P key v1 P' pv1 verbose tk field tf nw kvs md A p,
  P' <> "" -> no_slash P' = true -> hd_error field = Some "status" ->
  lookup "metadata" kvs = Some (JObj md) -> lookup "annotations" md = Some (JObj A) ->
  br_good P' p ->
  essence dg (DAnn P key v1 []) (PMulti [PAnn P' pv1 verbose tk; PStatus field tf nw]) (merge (JObj kvs) p) []
  = essence dg (DAnn P key v1 []) (PMulti [PAnn P' pv1 verbose tk; PStatus field tf nw]) (JObj kvs) [].
Proof.
  intros dg P key v1 P' pv1 verbose tk field tf nw kvs md A p HP Hs Hf Hm Ha Hg.
  destruct (br_good_body_form P' kvs md A p Hm Ha Hg) as [A' E].
  pose proof (br_good_invisible dg P key v1 P' pv1 verbose tk kvs md A p HP Hs Hm Ha Hg) as H.
  rewrite E in *. rewrite <- (br_body_with_id kvs md A Hm Ha) in *.
  rewrite !essence_smart_eq by assumption. exact H.
Qed.

Theorem own_progress_store_invisible_smart :
  forall dg P key v1 P' pv1 verbose tk field tf kvs md A hkey record p,
  P' <> "" -> no_slash P' = true -> hd_error field = Some "status" ->
  lookup "metadata" kvs = Some (JObj md) -> lookup "annotations" md = Some (JObj A) ->
  pstore dg (smart P' pv1 verbose tk field tf) hkey record (JObj kvs) (JObj []) = Ok p ->
  essence dg (DAnn P key v1 []) (smart P' pv1 verbose tk field tf) (merge (JObj kvs) p) []
  = essence dg (DAnn P key v1 []) (smart P' pv1 verbose tk field tf) (JObj kvs) [].
Proof.
  unfold smart. intros dg P key v1 P' pv1 verbose tk field tf kvs md A hkey record p HP Hs Hf Hm Ha H.
  rewrite br_pstore_smart in H.
  eapply br_good_invisible_smart; eauto. right. eapply br_pstore_good; eauto. apply br_good_empty.
Qed.

Theorem own_touch_invisible_smart :
  forall dg P key v1 P' pv1 verbose tk field tf kvs md A v p,
  P' <> "" -> no_slash P' = true -> hd_error field = Some "status" -> is_obj v = false ->
  lookup "metadata" kvs = Some (JObj md) -> lookup "annotations" md = Some (JObj A) ->
  ptouch dg (smart P' pv1 verbose tk field tf) (JObj kvs) (JObj []) v = Ok p ->
  essence dg (DAnn P key v1 []) (smart P' pv1 verbose tk field tf) (merge (JObj kvs) p) []
  = essence dg (DAnn P key v1 []) (smart P' pv1 verbose tk field tf) (JObj kvs) [].
Proof.
  unfold smart. intros dg P key v1 P' pv1 verbose tk field tf kvs md A v p HP Hs Hf Hv Hm Ha H.
  rewrite br_ptouch_smart in H.
  eapply br_good_invisible_smart; eauto. eapply br_ptouch_shape; eauto.
Qed.

(* purge with `smart`: when the body has no record under the status field, the status storage
   adds nothing to the patch *)
Lemma br_good_resolve_status : forall P' p field k, br_good P' p -> hd_error field = Some "status" ->
  resolve p (field ++ [k]) = None.
Proof.
  intros P' p field k Hg Hf. destruct field as [|f rest]; [discriminate|].
  cbn [hd_error] in Hf. injection Hf as ->.
  destruct Hg as [->|[pa [-> _]]]; reflexivity.
Qed.

Theorem own_progress_purge_invisible_smart_partial :
  forall dg P key v1 P' pv1 verbose tk field tf kvs md A hkey p,
  P' <> "" -> no_slash P' = true -> hd_error field = Some "status" ->
  lookup "metadata" kvs = Some (JObj md) -> lookup "annotations" md = Some (JObj A) ->
  resolve (JObj kvs) (field ++ [hkey]) = None ->
  ppurge dg (smart P' pv1 verbose tk field tf) hkey (JObj kvs) (JObj []) = Ok p ->
  essence dg (DAnn P key v1 []) (smart P' pv1 verbose tk field tf) (merge (JObj kvs) p) []
  = essence dg (DAnn P key v1 []) (smart P' pv1 verbose tk field tf) (JObj kvs) [].
Proof.
  unfold smart. intros dg P key v1 P' pv1 verbose tk field tf kvs md A hkey p HP Hs Hf Hm Ha Hr H.
  cbn [ppurge] in H.
  destruct (purge_keys (JObj kvs) (JObj []) (full_keys dg P' pv1 (JObj kvs) hkey)) as [p1| | |] eqn:E1;
    cbn [bind] in H; try discriminate.
  assert (Hg : br_good P' p1).
  { eapply (br_purge_keys_good P'); eauto; [apply br_good_empty|].
    intros k Hk. eapply ow_full_keys_under; eauto. }
  unfold purge_path in H. rewrite Hr, (br_good_resolve_status P' p1 field hkey Hg Hf) in H.
  cbn [bind] in H. injection H as <-.
  eapply br_good_invisible_smart; eauto.
Qed.

Print Assumptions own_progress_store_invisible_smart.
Print Assumptions own_touch_invisible_smart.
Print Assumptions own_progress_purge_invisible_smart_partial.

(* ---------- Step D: the diff-base write ---------- *)
(* any write under a slash-free prefix P that is already marked in A is invisible *)
Lemma br_marked_write_invisible : forall dg P key v1 P' pv1 verbose tk kvs md A k v,
  P' <> "" -> lookup "metadata" kvs = Some (JObj md) ->
  no_slash P = true -> under_prefix P k = true -> In P (marked_prefixes (keys A)) ->
  essence dg (DAnn P key v1 []) (PAnn P' pv1 verbose tk) (body_with kvs md (set k v A)) []
  = essence dg (DAnn P key v1 []) (PAnn P' pv1 verbose tk) (body_with kvs md A) [].
Proof.
  intros dg P key v1 P' pv1 verbose tk kvs md A k v HP Hmd Hs Hu Hin.
  apply essence_ann_congr; auto.
  rewrite (ow_full_keys_indep dg P v1 kvs md (set k v A) A key).
  set (ks := full_keys dg P v1 (body_with kvs md A) key).
  assert (Hkinv : vis P' ks (set k v A) k = false).
  { apply ow_vis_hidp. rewrite ow_hidp_set, (ow_hidp_in A P k Hin Hu). reflexivity. }
  rewrite (ow_filter_set_invisible (vis P' ks (set k v A)) k v A Hkinv).
  apply filter_ext. intros [j x]. cbn [fst].
  apply ow_vis_eq_of_hidp. rewrite ow_hidp_set.
  destruct (ow_marks_over k j) eqn:Em; [|now rewrite andb_false_r, orb_false_r].
  rewrite (ow_hidp_in A P j Hin (ow_marks_over_P' P k j Hs Hu Em)). reflexivity.
Qed.

Lemma br_marked_set : forall P k (v : json) (A : obj),
  In P (marked_prefixes (keys A)) -> In P (marked_prefixes (keys (set k v A))).
Proof.
  intros P k v A H. rewrite ow_keys_set. destruct (has k A); auto.
  rewrite ow_mp_app. apply in_or_app. now left.
Qed.

Definition nonnull_vals (pa : obj) : Prop :=
  forallb (fun kv => match snd kv with JNull => false | _ => true end) pa = true.

Lemma br_upd_ann_marked_invisible : forall dg P key v1 P' pv1 verbose tk kvs md pa A,
  P' <> "" -> no_slash P = true -> lookup "metadata" kvs = Some (JObj md) ->
  In P (marked_prefixes (keys A)) -> nonnull_vals pa ->
  (forall k, In k (keys pa) -> under_prefix P k = true) ->
  essence dg (DAnn P key v1 []) (PAnn P' pv1 verbose tk) (body_with kvs md (upd_ann pa A)) []
  = essence dg (DAnn P key v1 []) (PAnn P' pv1 verbose tk) (body_with kvs md A) [].
Proof.
  intros dg P key v1 P' pv1 verbose tk kvs md pa. unfold nonnull_vals.
  induction pa as [|[k v] pa IH]; intros A HP Hs Hm Hin Hnn Hu; [reflexivity|].
  cbn [forallb snd] in Hnn. apply andb_true_iff in Hnn as [Hv Hnn].
  assert (Hk : under_prefix P k = true) by (apply Hu; left; reflexivity).
  assert (Hu' : forall j, In j (keys pa) -> under_prefix P j = true) by (intros; apply Hu; now right).
  assert (E : upd_ann ((k, v) :: pa) A = upd_ann pa (set k v A))
    by (rewrite br_upd_ann_cons; destruct v; (discriminate Hv || reflexivity)).
  rewrite E. rewrite IH; auto; [now apply br_marked_write_invisible | now apply br_marked_set].
Qed.

Theorem own_diffbase_patch_invisible_partial : forall dg P key v1 P' pv1 verbose tk kvs md A pa,
  P' <> "" -> no_slash P = true ->
  lookup "metadata" kvs = Some (JObj md) -> lookup "annotations" md = Some (JObj A) ->
  In P (marked_prefixes (keys A)) ->
  scalar_vals pa -> nonnull_vals pa -> (forall k, In k (keys pa) -> under_prefix P k = true) ->
  essence dg (DAnn P key v1 []) (PAnn P' pv1 verbose tk) (merge (JObj kvs) (ann_patch pa)) []
  = essence dg (DAnn P key v1 []) (PAnn P' pv1 verbose tk) (JObj kvs) [].
Proof.
  intros dg P key v1 P' pv1 verbose tk kvs md A pa HP Hs Hm Ha Hin Hsc Hnn Hu.
  rewrite (br_merge_ann kvs md A pa Hm Ha Hsc).
  rewrite br_upd_ann_marked_invisible by assumption.
  now rewrite (br_body_with_id kvs md A Hm Ha).
Qed.

(* non-null tracking through ensure / ensure_all / store_marker *)
Definition br_nn (p : json) : Prop := p = JObj [] \/ exists pa, p = ann_patch pa /\ nonnull_vals pa.

Lemma br_nonnull_set : forall k v pa, v <> JNull -> nonnull_vals pa -> nonnull_vals (set k v pa).
Proof.
  unfold nonnull_vals. intros k v pa Hv.
  assert (E : match v with JNull => false | _ => true end = true) by (destruct v; congruence).
  induction pa as [|[a b] pa IH]; cbn [set forallb snd]; intros H.
  - now rewrite E.
  - apply andb_true_iff in H as [H1 H2].
    destruct (String.eqb k a); cbn [forallb snd]; rewrite ?E, ?H1, ?H2, ?IH; auto.
Qed.

Lemma br_nn_ensure : forall p k v p', br_nn p -> v <> JNull -> ensure p (ann_path k) v = Ok p' -> br_nn p'.
Proof.
  intros p k v p' [->|[pa [-> Hn]]] Hv H.
  - rewrite br_ensure_empty in H. injection H as <-. right. exists (set k v []). split; [reflexivity|].
    apply br_nonnull_set; auto. reflexivity.
  - rewrite br_ensure_ann in H. injection H as <-. right. exists (set k v pa). split; [reflexivity|].
    now apply br_nonnull_set.
Qed.

Lemma br_nn_ensure_all : forall ks p v p', br_nn p -> v <> JNull -> ensure_all p ks v = Ok p' -> br_nn p'.
Proof.
  induction ks as [|k ks IH]; intros p v p' Hn Hv H; cbn [ensure_all] in H.
  - now injection H as <-.
  - destruct (ensure p (ann_path k) v) as [p1| | |] eqn:E1; cbn [bind] in H; try discriminate.
    apply (IH p1 v p'); auto. exact (br_nn_ensure p k v p1 Hn Hv E1).
Qed.

Lemma br_nn_store_marker : forall prefix body p p', br_nn p -> store_marker prefix body p = Ok p' -> br_nn p'.
Proof.
  intros prefix body p p' Hn H. apply br_store_marker_cases in H as [->|H]; auto.
  eapply br_nn_ensure; eauto. discriminate.
Qed.

Lemma br_ann_patch_inj : forall pa pb, ann_patch pa = ann_patch pb -> pa = pb.
Proof. unfold ann_patch. intros pa pb H. now injection H. Qed.

Theorem br_dstore_shape : forall dg P key v1 ign body e p, P <> "" ->
  dstore dg (DAnn P key v1 ign) body (JObj []) e = Ok p ->
  exists pa, p = ann_patch pa /\ scalar_vals pa /\ nonnull_vals pa /\
             (forall k, In k (keys pa) -> under_prefix P k = true).
Proof.
  intros dg P key v1 ign body e p HP H. cbn [dstore] in H.
  destruct (br_ensure_all_good P (full_keys dg P v1 body key) (JObj []) (JEnc e) (br_good_empty P) eq_refl)
    as [p1 [E1 [H1 H1']]]; [intros k Hk; eapply ow_full_keys_under; eauto|].
  rewrite E1 in H. cbn [bind] in H.
  assert (Hn1 : br_nn p1) by (eapply br_nn_ensure_all; eauto; [now left|discriminate]).
  assert (Hn : br_nn p) by (eapply br_nn_store_marker; eauto).
  apply (br_store_marker_good P body p1 p H1) in H as [_ H].
  destruct (H (H1' (br_full_keys_nonempty dg P v1 body key))) as [pa [-> [Hsc Hu]]].
  exists pa. split; [reflexivity|]. split; [assumption|]. split; [|assumption].
  destruct Hn as [Hn|[pb [E Hn]]]; [discriminate Hn|]. apply br_ann_patch_inj in E. now subst.
Qed.

Theorem own_diffbase_store_invisible_partial : forall dg P key v1 P' pv1 verbose tk kvs md A e p,
  P <> "" -> no_slash P = true -> P' <> "" ->
  lookup "metadata" kvs = Some (JObj md) -> lookup "annotations" md = Some (JObj A) ->
  In P (marked_prefixes (keys A)) ->
  dstore dg (DAnn P key v1 []) (JObj kvs) (JObj []) e = Ok p ->
  essence dg (DAnn P key v1 []) (PAnn P' pv1 verbose tk) (merge (JObj kvs) p) []
  = essence dg (DAnn P key v1 []) (PAnn P' pv1 verbose tk) (JObj kvs) [].
Proof.
  intros dg P key v1 P' pv1 verbose tk kvs md A e p HP Hs HP' Hm Ha Hin H.
  apply br_dstore_shape in H as [pa [-> [Hsc [Hnn Hu]]]]; auto.
  eapply own_diffbase_patch_invisible_partial; eauto.
Qed.

Theorem own_diffbase_store_invisible_smart_partial :
  forall dg P key v1 P' pv1 verbose tk field tf kvs md A e p,
  P <> "" -> no_slash P = true -> P' <> "" -> hd_error field = Some "status" ->
  lookup "metadata" kvs = Some (JObj md) -> lookup "annotations" md = Some (JObj A) ->
  In P (marked_prefixes (keys A)) ->
  dstore dg (DAnn P key v1 []) (JObj kvs) (JObj []) e = Ok p ->
  essence dg (DAnn P key v1 []) (smart P' pv1 verbose tk field tf) (merge (JObj kvs) p) []
  = essence dg (DAnn P key v1 []) (smart P' pv1 verbose tk field tf) (JObj kvs) [].
Proof.
  unfold smart. intros dg P key v1 P' pv1 verbose tk field tf kvs md A e p HP Hs HP' Hf Hm Ha Hin H.
  pose proof (own_diffbase_store_invisible_partial dg P key v1 P' pv1 verbose tk kvs md A e p
                HP Hs HP' Hm Ha Hin H) as HH.
  apply br_dstore_shape in H as [pa [-> [Hsc [Hnn Hu]]]]; auto.
  rewrite (br_merge_ann kvs md A pa Hm Ha Hsc) in *.
  rewrite <- (br_body_with_id kvs md A Hm Ha) in *.
  rewrite !essence_smart_eq by assumption. exact HH.
Qed.

Print Assumptions own_diffbase_patch_invisible_partial.
Print Assumptions br_dstore_shape.
Print Assumptions own_diffbase_store_invisible_partial.
Print Assumptions own_diffbase_store_invisible_smart_partial.

(* ---------- the first annotation ever: metadata without an annotations mapping ---------- *)
Lemma br_base_build_no_ann : forall kvs md,
  lookup "metadata" kvs = Some (JObj md) -> lookup "annotations" md = None ->
  base_build [] (JObj kvs) [] = Ok (ow_NF (ow_lab md) [] (ow_e0 kvs)).
Proof.
  intros kvs md Hm Ha. unfold base_build. fold (ow_e0 kvs).
  cbn [cherrypick resolve_strict]. rewrite Hm, Ha.
  unfold ow_lab, ow_NF.
  destruct (lookup "labels" md) as [L|].
  - cbn [ensure]. rewrite ow_e0_no_metadata. cbn [ensure bind set].
    rewrite ow_lookup_set_same. cbn [get_obj lookup bind existsb cherrypick].
    change ("annotations" =? "labels")%string with false. cbn [bind existsb].
    rewrite ow_res_set_meta by (apply ow_e0_no_metadata || apply ow_e0_no_status).
    cbn [bind fold_left]. unfold ow_clean, ow_dropf.
    cbn [lookup]. change ("annotations" =? "labels")%string with false.
    cbn [lookup]. change ("labels" =? "labels")%string with true.
    cbn [del]. change ("labels" =? "labels")%string with true.
    destruct (is_falsy L); reflexivity.
  - cbn [bind]. rewrite ow_e0_no_metadata. cbn [bind existsb cherrypick].
    rewrite ow_res_plain by (apply ow_e0_no_metadata || apply ow_e0_no_status).
    reflexivity.
Qed.

Lemma br_essence_no_ann : forall dg P key v1 P' pv1 verbose tk kvs md,
  P' <> "" -> lookup "metadata" kvs = Some (JObj md) -> lookup "annotations" md = None ->
  essence dg (DAnn P key v1 []) (PAnn P' pv1 verbose tk) (JObj kvs) []
  = essence dg (DAnn P key v1 []) (PAnn P' pv1 verbose tk) (body_with kvs md []) [].
Proof.
  intros dg P key v1 P' pv1 verbose tk kvs md HP Hm Ha.
  rewrite essence_ann_form by assumption. cbn [filter].
  unfold essence. cbn [dbuild]. rewrite (br_base_build_no_ann kvs md Hm Ha). cbn [bind].
  rewrite ow_ra_NF by (apply ow_lab_good || apply ow_e0_no_metadata || apply ow_e0_no_status).
  cbn [bind pclear filter].
  rewrite ow_ra_NF by (apply ow_lab_good || apply ow_e0_no_metadata || apply ow_e0_no_status).
  reflexivity.
Qed.

Theorem own_progress_patch_invisible_first : forall dg P key v1 P' pv1 verbose tk kvs md pa,
  P' <> "" -> no_slash P' = true ->
  lookup "metadata" kvs = Some (JObj md) -> lookup "annotations" md = None ->
  scalar_vals pa -> (forall k, In k (keys pa) -> under_prefix P' k = true) ->
  essence dg (DAnn P key v1 []) (PAnn P' pv1 verbose tk) (merge (JObj kvs) (ann_patch pa)) []
  = essence dg (DAnn P key v1 []) (PAnn P' pv1 verbose tk) (JObj kvs) [].
Proof.
  intros dg P key v1 P' pv1 verbose tk kvs md pa HP Hs Hm Ha Hsc Hu.
  rewrite (br_merge_ann_none kvs md pa Hm Ha Hsc).
  rewrite br_upd_ann_invisible by assumption.
  symmetry. now apply br_essence_no_ann.
Qed.

Lemma br_good_invisible_first : forall dg P key v1 P' pv1 verbose tk kvs md p,
  P' <> "" -> no_slash P' = true ->
  lookup "metadata" kvs = Some (JObj md) -> lookup "annotations" md = None ->
  br_good P' p ->
  essence dg (DAnn P key v1 []) (PAnn P' pv1 verbose tk) (merge (JObj kvs) p) []
  = essence dg (DAnn P key v1 []) (PAnn P' pv1 verbose tk) (JObj kvs) [].
Proof.
  intros dg P key v1 P' pv1 verbose tk kvs md p HP Hs Hm Ha [->|[pa [-> [Hsc Hu]]]].
  - now rewrite br_merge_empty.
  - eapply own_progress_patch_invisible_first; eauto.
Qed.

Theorem own_progress_store_invisible_first : forall dg P key v1 P' pv1 verbose tk kvs md hkey record p,
  P' <> "" -> no_slash P' = true ->
  lookup "metadata" kvs = Some (JObj md) -> lookup "annotations" md = None ->
  pstore dg (PAnn P' pv1 verbose tk) hkey record (JObj kvs) (JObj []) = Ok p ->
  essence dg (DAnn P key v1 []) (PAnn P' pv1 verbose tk) (merge (JObj kvs) p) []
  = essence dg (DAnn P key v1 []) (PAnn P' pv1 verbose tk) (JObj kvs) [].
Proof.
  intros. eapply br_good_invisible_first; eauto. right. eapply br_pstore_good; eauto. apply br_good_empty.
Qed.

Theorem own_progress_purge_invisible_first : forall dg P key v1 P' pv1 verbose tk kvs md hkey p,
  P' <> "" -> no_slash P' = true ->
  lookup "metadata" kvs = Some (JObj md) -> lookup "annotations" md = None ->
  ppurge dg (PAnn P' pv1 verbose tk) hkey (JObj kvs) (JObj []) = Ok p ->
  essence dg (DAnn P key v1 []) (PAnn P' pv1 verbose tk) (merge (JObj kvs) p) []
  = essence dg (DAnn P key v1 []) (PAnn P' pv1 verbose tk) (JObj kvs) [].
Proof.
  intros. eapply br_good_invisible_first; eauto. eapply br_ppurge_shape; eauto.
Qed.

Theorem own_touch_invisible_first : forall dg P key v1 P' pv1 verbose tk kvs md v p,
  P' <> "" -> no_slash P' = true -> is_obj v = false ->
  lookup "metadata" kvs = Some (JObj md) -> lookup "annotations" md = None ->
  ptouch dg (PAnn P' pv1 verbose tk) (JObj kvs) (JObj []) v = Ok p ->
  essence dg (DAnn P key v1 []) (PAnn P' pv1 verbose tk) (merge (JObj kvs) p) []
  = essence dg (DAnn P key v1 []) (PAnn P' pv1 verbose tk) (JObj kvs) [].
Proof.
  intros. eapply br_good_invisible_first; eauto. eapply br_ptouch_shape; eauto.
Qed.

Print Assumptions own_progress_patch_invisible_first.
Print Assumptions own_progress_store_invisible_first.
Print Assumptions own_progress_purge_invisible_first.
Print Assumptions own_touch_invisible_first.

(* ---------- concrete cases: non-vacuity, and the necessity of the diff-base guard (F41) ---------- *)
Example own_store_patch_example :
  let ds := DAnn "kopf.zalando.org" "last-handled-configuration" true [] in
  let ps := PAnn "kopf.zalando.org" true false "touch-dummy" in
  let rec := [("started", JStr "t0"); ("success", JBool true); ("message", JNull)] in
  pstore (table_dg []) ps "create_fn" rec (JObj ow_ex_kvs) (JObj [])
  = Ok (ann_patch [("kopf.zalando.org/create_fn",
                    JEnc (JObj [("started", JStr "t0"); ("success", JBool true)]))]) /\
  ptouch (table_dg []) ps (JObj ow_ex_kvs) (JObj []) (JStr "t1")
  = Ok (ann_patch [("kopf.zalando.org/touch-dummy", JStr "t1")]) /\
  ppurge (table_dg []) ps "create_fn" (JObj ow_ex_kvs) (JObj []) = Ok (JObj []) /\
  essence (table_dg []) ds ps
    (merge (JObj ow_ex_kvs)
       (ann_patch [("kopf.zalando.org/create_fn",
                    JEnc (JObj [("started", JStr "t0"); ("success", JBool true)]))])) []
  = Ok ow_ex_essence /\
  essence (table_dg []) ds ps (JObj ow_ex_kvs) [] = Ok ow_ex_essence.
Proof. vm_compute. auto. Qed.

(* a custom diff-base prefix: the store adds the marker example.com/kopf-managed, which hides a
   user annotation under example.com/ that was in the essence: the guard `P marked in A` of
   own_diffbase_store_invisible_partial cannot be dropped *)
Example own_diffbase_store_refuted :
  let ds := DAnn "example.com" "last-handled-configuration" true [] in
  let ps := PAnn "kopf.zalando.org" true false "touch-dummy" in
  let md := [("name", JStr "x"); ("annotations", JObj [("example.com/note", JStr "x")])] in
  let kvs := [("apiVersion", JStr "v1"); ("kind", JStr "KopfExample"); ("metadata", JObj md);
              ("spec", JObj [("field", JNum 1)])] in
  exists p,
    dstore (table_dg []) ds (JObj kvs) (JObj []) (JObj [("spec", JObj [("field", JNum 1)])]) = Ok p /\
    essence (table_dg []) ds ps (JObj kvs) []
    = Ok (JObj [("spec", JObj [("field", JNum 1)]);
                ("metadata", JObj [("annotations", JObj [("example.com/note", JStr "x")])])]) /\
    essence (table_dg []) ds ps (merge (JObj kvs) p) []
    = Ok (JObj [("spec", JObj [("field", JNum 1)])]).
Proof. eexists. split; [vm_compute; reflexivity|]. split; vm_compute; reflexivity. Qed.

Print Assumptions own_store_patch_example.
Print Assumptions own_diffbase_store_refuted.
